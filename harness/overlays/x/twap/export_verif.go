//go:build verif

package twap

// Added to /repo's x/twap package at build time by the verification harness (never part of /repo):
// read-only access to unexported pieces the `twap` engine (property C10) observes.

import (
	"time"

	sdk "github.com/cosmos/cosmos-sdk/types"

	"github.com/osmosis-labs/osmosis/osmomath"
	"github.com/osmosis-labs/osmosis/v31/x/twap/types"
)

func (k Keeper) VerifGetChangedPools(ctx sdk.Context) []uint64 { return k.getChangedPools(ctx) }

func (k Keeper) VerifMostRecentRecordStoreRepresentation(ctx sdk.Context, poolId uint64, a0, a1 string) (types.TwapRecord, error) {
	return k.getMostRecentRecordStoreRepresentation(ctx, poolId, a0, a1)
}

func (k Keeper) VerifPoolManager() types.PoolManagerInterface { return k.poolmanagerKeeper }

func VerifGetSpotPrices(ctx sdk.Context, k types.PoolManagerInterface, poolId uint64, denom0, denom1 string, prev time.Time) (osmomath.Dec, osmomath.Dec, time.Time) {
	return getSpotPrices(ctx, k, poolId, denom0, denom1, prev)
}
