//go:build verif

package keeper

// Added to /repo's x/superfluid/keeper at build time (harness overlay; never committed to /repo):
// the two all-or-nothing branches of stake.go, so that the C11 engine can call them directly on a discarded
// cache context with an injected fault and compare the state before / after a FAILED call.

import (
	sdk "github.com/cosmos/cosmos-sdk/types"

	"github.com/osmosis-labs/osmosis/osmomath"
	"github.com/osmosis-labs/osmosis/v31/x/superfluid/types"
)

func (k Keeper) VerifMintOsmoTokensAndDelegate(ctx sdk.Context, osmoAmount osmomath.Int, acc types.SuperfluidIntermediaryAccount) error {
	return k.mintOsmoTokensAndDelegate(ctx, osmoAmount, acc)
}

func (k Keeper) VerifForceUndelegateAndBurnOsmoTokens(ctx sdk.Context, osmoAmount osmomath.Int, acc types.SuperfluidIntermediaryAccount) error {
	return k.forceUndelegateAndBurnOsmoTokens(ctx, osmoAmount, acc)
}
