//go:build verif

package stableswap

import "github.com/osmosis-labs/osmosis/osmomath"

// exports for the verification harness (engine gammmath, property C04); added through `go build -overlay`.

func VerifCfmmConstantMultiNoV(x, y, w osmomath.BigDec) osmomath.BigDec {
	return cfmmConstantMultiNoV(x, y, w)
}

func VerifTargetK(x0, y0, w, yf osmomath.BigDec) osmomath.BigDec {
	return targetKCalculator(x0, y0, w, yf)
}

func VerifIterK(x0, w, yf, xf osmomath.BigDec) osmomath.BigDec {
	return iterKCalculator(x0, w, yf)(xf)
}

func VerifSolveCFMMBinarySearchMulti(x, y, w, yIn osmomath.BigDec) osmomath.BigDec {
	return solveCFMMBinarySearchMulti(x, y, w, yIn)
}
