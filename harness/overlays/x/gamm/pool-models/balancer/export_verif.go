//go:build verif

package balancer

import "github.com/osmosis-labs/osmosis/osmomath"

// exports for the verification harness (engine gammmath, property C04); added through `go build -overlay`.

func VerifSolveConstantFunctionInvariant(a, b, c, d, e osmomath.Dec) osmomath.Dec {
	return solveConstantFunctionInvariant(a, b, c, d, e)
}

func VerifCalcPoolSharesOutGivenSingleAssetIn(a, b, c, d, e osmomath.Dec) osmomath.Dec {
	return calcPoolSharesOutGivenSingleAssetIn(a, b, c, d, e)
}

func VerifCalcSingleAssetInGivenPoolSharesOut(a, b, c, d, e osmomath.Dec) osmomath.Dec {
	return calcSingleAssetInGivenPoolSharesOut(a, b, c, d, e)
}

func VerifCalcPoolSharesInGivenSingleAssetOut(a, b, c, d, e, f osmomath.Dec) osmomath.Dec {
	return calcPoolSharesInGivenSingleAssetOut(a, b, c, d, e, f)
}
