package statik
