/-
Ghost ledger for the reward accumulator (property C15).  Division-free: everything is an
integer numerator over 10^36 (raw 18-decimal growth × raw 18-decimal shares), or a raw
18-decimal amount (×10^18 when compared with a numerator).

Per (accumulator, position):
* `earned d`  — EXACT reward numerator credited so far: at every growth event `g` the position
  earns `g_d × sharesThen` (`grow`); nothing else credits a position unless the caller
  explicitly re-bases it: an interval op re-snapshotting at `iv` instead of the accumulator value
  `V` credits the shift `(V_d − iv_d) × sharesAfter` (zero for the plain variants, `iv = V`),
  `setInt` credits `(oldSnapshot_d − iv_d) × shares`, `addUnclaimed a` credits `a_d` (×10^18).
* `paid d`    — raw amount handed out by claims/deletes (integer part + dust).
* `inexact`   — number of settlements (add/remove/update/claim) at which some product
  `(V_d − snapshot_d) × shares` was not a multiple of 10^18, i.e. where the code's 18-decimal
  half-even `MulDec` actually rounded (by at most ½·10^-18 per denom).
The ledger reads shares / accumulator value / snapshot from the PRE-state store (they are the
plain sums of the share changes and growth increments, exact in the code) and is updated only
when the op succeeded.  Core only.
-/
import OsmoVerif.Model.Accum

namespace OsmoVerif.Accum
open OsmoVerif.Num

structure LPos where
  earned : String → Int
  paid : String → Int
  inexact : Nat

abbrev Ledger := String → String → LPos

def Ledger.init : Ledger := fun _ _ => ⟨fun _ => 0, fun _ => 0, 0⟩

def Ledger.set (L : Ledger) (acc pos : String) (v : LPos) : Ledger :=
  fun a q => if a = acc ∧ q = pos then v else L a q

/-- accumulator value per denom in store `st` (0 when the accumulator does not exist). -/
def valueOf (st : Store) (acc : String) (d : String) : Int :=
  match alookup st.accs acc with
  | some c => amt c.value d
  | none => 0

def sharesOf (st : Store) (acc pos : String) : Int :=
  match st.getPos acc pos with
  | some p => p.shares
  | none => 0

def snapOf (st : Store) (acc pos : String) (d : String) : Int :=
  match st.getPos acc pos with
  | some p => amt p.snap d
  | none => 0

/-- 1 iff the settlement of `(acc,pos)` in `st` rounds (some pending product is not a multiple of 10^18). -/
def inexactStep (st : Store) (acc pos : String) : Nat :=
  match alookup st.accs acc, st.getPos acc pos with
  | some c, some p =>
    match sub c.value p.snap with
    | some diff => if diff.all (fun e => decide ((e.2 * p.shares) % P18 = 0)) then 0 else 1
    | none => 0
  | _, _ => 0

def ivAmt (st : Store) (acc : String) (iv : Option DecCoins) (d : String) : Int :=
  match iv with
  | some v => amt v d
  | none => valueOf st acc d

/-- settlement with share change `delta` and re-snapshot at `iv`. -/
def Ledger.settle (L : Ledger) (st : Store) (acc pos : String) (delta : Int) (iv : Option DecCoins) : Ledger :=
  let l := L acc pos
  L.set acc pos ⟨fun d => l.earned d + (valueOf st acc d - ivAmt st acc iv d) * (sharesOf st acc pos + delta),
                 l.paid, l.inexact + inexactStep st acc pos⟩

/-- what `claim`/`delete` hand out per denom: `GetTotalRewards` on the fresh handle (0 if undefined). -/
def payout (st : Store) (acc pos : String) (d : String) : Int :=
  match getAccumulator st acc, st.getPos acc pos with
  | some h, some p =>
    match getTotalRewards h p with
    | some t => amt t d
    | none => 0
  | _, _ => 0

/-- ledger transition for a SUCCESSFUL `op` issued in state `st`. -/
def ledgerOk (st : Store) (op : Op) (L : Ledger) : Ledger :=
  match op with
  | .make _ => L
  | .grow acc g => fun a q =>
      if a = acc then ⟨fun d => (L a q).earned d + amt g d * sharesOf st a q, (L a q).paid, (L a q).inexact⟩ else L a q
  | .newPos acc pos sh iv _ =>
      L.set acc pos ⟨fun d => (valueOf st acc d - ivAmt st acc iv d) * sh, fun _ => 0, 0⟩
  | .addPos acc pos n iv => L.settle st acc pos n iv
  | .remPos acc pos n iv => L.settle st acc pos (-n) iv
  | .updPos acc pos n iv => L.settle st acc pos n iv
  | .setInt acc pos iv =>
      let l := L acc pos
      L.set acc pos ⟨fun d => l.earned d + (snapOf st acc pos d - amt iv d) * sharesOf st acc pos, l.paid, l.inexact⟩
  | .addUnclaimed acc pos a =>
      let l := L acc pos
      L.set acc pos ⟨fun d => l.earned d + amt a d * P18, l.paid, l.inexact⟩
  | .claim acc pos | .delete acc pos =>
      let l := L acc pos
      L.set acc pos ⟨l.earned, fun d => l.paid d + payout st acc pos d, l.inexact + inexactStep st acc pos⟩

/-- ledger transition for `op` issued in state `st` (no change unless the op succeeded). -/
def ledgerStep (st : Store) (op : Op) (L : Ledger) : Ledger :=
  if (stepFresh st op).2 ≠ .ok () then L else ledgerOk st op L

/-- ledger after a history (started in `st` with ledger `L`). -/
def ledgerRun : Store → Ledger → List Op → Ledger
  | _, L, [] => L
  | st, L, op :: t => ledgerRun (stepTx st op) (if (stepFresh st op).2 = .panic then L else ledgerStep st op L) t

/-- the refinement relation: what position `(acc,pos)` can claim (unclaimed + pending, exact
numerator) against the ledger, within the accumulated rounding budget. -/
def Refines (st : Store) (L : Ledger) : Prop :=
  ∀ acc pos p c, st.getPos acc pos = some p → alookup st.accs acc = some c → ∀ d,
    let lhs := amt p.unclaimed d * P18 + (amt c.value d - amt p.snap d) * p.shares
    let rhs := (L acc pos).earned d - (L acc pos).paid d * P18
    2 * (lhs - rhs) ≤ (L acc pos).inexact * P18 ∧ -((L acc pos).inexact * P18 : Int) ≤ 2 * (lhs - rhs)

end OsmoVerif.Accum
