/-
Specification vocabulary for C10 (TWAP), over the records of `Model/Twap`: well-formed record index,
the explicit overlap weights of a query interval, "in force", "error record".  Core only.
-/
import OsmoVerif.Model.Twap

namespace OsmoVerif.Twap

/-- the base-2 logarithm the geometric accumulator uses for a record's price (`twapLog`), `0` for a
zero price (the code leaves the geometric accumulator alone there).  Only used in statements. -/
def logW (r : TwapRecord) : Int :=
  match twapLog r.sp0 with
  | some l => l
  | none => 0

/-- `r'` directly follows `r` in the index: later time key, every accumulator of `r'` is the one of `r`
advanced by `r`'s price over the canonical milliseconds between them, and the error time either is
`r'`'s own time or is inherited. -/
structure Step (r r' : TwapRecord) : Prop where
  lt : r.time < r'.time
  acc0 : r'.acc0 = r.acc0 + r.sp0 * (canonicalMs r'.time - canonicalMs r.time)
  acc1 : r'.acc1 = r.acc1 + r.sp1 * (canonicalMs r'.time - canonicalMs r.time)
  geom : r'.geom = r.geom + logW r * (canonicalMs r'.time - canonicalMs r.time)
  err : r'.lastErr = r'.time ∨ r'.lastErr = r.lastErr

def Chain : List TwapRecord → Prop
  | [] => True
  | [_] => True
  | r :: r' :: rs => Step r r' ∧ Chain (r' :: rs)

/-- well-formed stores: the historical index is a chain, the most recent record is its last entry,
no record carries an error time later than its own time. -/
structure WF (s : Store) : Prop where
  chain : Chain s.hist
  recent : s.recent = s.hist.getLast?
  errLe : ∀ r ∈ s.hist, r.lastErr ≤ r.time

/-- `(record, weight)`: the canonical milliseconds of `[a, b]` during which the record's price was the
last recorded one, i.e. the overlap of `[a, b]` with `[ms t_i, ms t_{i+1})` (`[ms t_n, ∞)` for the last). -/
def weights : List TwapRecord → Int → Int → List (TwapRecord × Int)
  | [], _, _ => []
  | [r], a, b => [(r, max 0 (b - max (canonicalMs r.time) a))]
  | r :: r' :: rs, a, b =>
    (r, max 0 (min (canonicalMs r'.time) b - max (canonicalMs r.time) a)) :: weights (r' :: rs) a b

/-- `Σ sel(record) · weight`. -/
def wsum (sel : TwapRecord → Int) : List (TwapRecord × Int) → Int
  | [] => 0
  | (r, w) :: t => sel r * w + wsum sel t

/-- the record's price is in force at some instant of `[s, e]`: recorded at or before `e`, and no later
record was recorded at or before `s`. -/
def InForce (h : List TwapRecord) (r : TwapRecord) (s e : Int) : Prop :=
  r ∈ h ∧ r.time ≤ e ∧ ∀ r' ∈ h, r.time < r'.time → s < r'.time

/-- the spot price read of the record's block failed (or was clamped): its error time is its own time. -/
def IsErr (r : TwapRecord) : Prop := r.lastErr = r.time

/-- one end-of-block event of a history. -/
inductive Op where
  | update (now height sp0 sp1 : Int) (errNow : Bool)
  | prune (lastKept : Int)

/-- a rejected (`err`) or panicking update leaves the stores as they were (EndBlock logs the error; a
panic aborts the block). -/
def applyOp (s : Store) : Op → Store
  | .update now height sp0 sp1 e =>
    match update s now height sp0 sp1 e with
    | .ok s' => s'
    | _ => s
  | .prune k => prune s k

def runOps (s : Store) (ops : List Op) : Store := ops.foldl applyOp s

end OsmoVerif.Twap
