/- Abstract vocabulary in which the C17 theorems are stated (core only): the hook-free timer step,
the ideal (no out-of-gas) call plan, per-subscriber containment fold, the canonical signal stream
`start 1, end 1, start 2, end 2, …`, and reachability of model states. -/
import OsmoVerif.Model.Epochs
namespace OsmoVerif.Epochs

/-! ### one timer, no hooks -/

/-- does the timer tick in a block at time `t`?  (`abci.go`: not before the start time; then iff counting
has not started or `t` is strictly after the current epoch's end) -/
def ticks (t : Int) (e : EpochInfo) : Bool :=
  decide (e.startTime ≤ t) && (decide (e.currentEpochStartTime + e.duration < t) || !e.epochCountingStarted)

/-- the epoch-state effect of one block on one timer, independent of any subscriber -/
def pureStep (t h : Int) (e : EpochInfo) : EpochInfo :=
  if ticks t e then
    if e.epochCountingStarted then
      { e with currentEpochStartHeight := h, currentEpoch := e.currentEpoch + 1,
               currentEpochStartTime := e.currentEpochStartTime + e.duration }
    else
      { e with currentEpochStartHeight := h, epochCountingStarted := true, currentEpoch := 1,
               currentEpochStartTime := e.startTime }
  else e

/-- the signals one block raises for one timer -/
def pureSignals (t : Int) (e : EpochInfo) : List Signal :=
  if ticks t e then
    if e.epochCountingStarted then
      [⟨e.identifier, .epochEnd, e.currentEpoch⟩, ⟨e.identifier, .epochStart, e.currentEpoch + 1⟩]
    else [⟨e.identifier, .epochStart, 1⟩]
  else []

/-- the grid: a counting timer's current epoch starts at `start + (epoch-1)·duration` -/
def OnGrid (e : EpochInfo) : Prop :=
  e.epochCountingStarted = true → e.currentEpochStartTime = e.startTime + (e.currentEpoch - 1) * e.duration

/-! ### subscribers -/

/-- containment for one invocation: the store afterwards is the writes applied iff the hook returned nil -/
def contain (r : HookRun) (st : Store) : Store :=
  if r.outcome = .ok then applyWrites st r.writes else st

def containFrom (f : Nat → HookRun) : Nat → List Store → List Store
  | _, [] => []
  | i, st :: r => contain (f i) st :: containFrom f (i + 1) r

/-- all `k` subscribers' invocations for one signal, registration order -/
def callsOf (k : Nat) (sig : Signal) : List Call :=
  (List.range' 0 k).map (fun i => { timer := sig.timer, kind := sig.kind, epoch := sig.epoch, sub := i })

/-- the ideal invocation list of a block: every subscriber once per signal, signals in order -/
def planCalls (k : Nat) (sigs : List Signal) : List Call := sigs.flatMap (callsOf k)

/-- what one signal does to all subscriber stores when nothing runs out of gas -/
def applySignal (scr : Script) (subs : List Store) (sig : Signal) : List Store :=
  containFrom (scr sig.timer sig.kind) 0 subs

/-- subscriber `j`'s store after a list of signals: the fold of exactly its `ok` invocations' writes -/
def foldOk (scr : Script) (j : Nat) (sigs : List Signal) (st : Store) : Store :=
  sigs.foldl (fun st sig => contain (scr sig.timer sig.kind j) st) st

def Call.isOog (scr : Script) (c : Call) : Prop := (scr c.timer c.kind c.sub).outcome = .oog

def NoOog (scr : Script) : Prop := ∀ id k i, (scr id k i).outcome ≠ .oog

/-! ### canonical signal stream -/

/-- `i`-th element (from 0) of `start 1, end 1, start 2, end 2, …` -/
def sigAt (i : Nat) : Kind × Int :=
  if i % 2 = 0 then (.epochStart, ((i / 2 + 1 : Nat) : Int)) else (.epochEnd, (((i + 1) / 2 : Nat) : Int))

/-- the first `n` elements of the canonical stream -/
def canon (n : Nat) : List (Kind × Int) := (List.range n).map sigAt

/-- recursive formulation: `l` is a run of the stream automaton. `CanonFrom none l`: from a timer that
has not started; `CanonFrom (some (false,n))`: epoch `n` running (next: end n); `some (true,n)`:
`end n` signalled, `start (n+1)` due. -/
def CanonFrom : Option (Bool × Int) → List (Kind × Int) → Prop
  | _, [] => True
  | none, (k, m) :: r => k = .epochStart ∧ m = 1 ∧ CanonFrom (some (false, 1)) r
  | some (false, n), (k, m) :: r => k = .epochEnd ∧ m = n ∧ CanonFrom (some (true, n)) r
  | some (true, n), (k, m) :: r => k = .epochStart ∧ m = n + 1 ∧ CanonFrom (some (false, n + 1)) r

/-- the signals of timer `id` inside a signal history -/
def sigsFor (id : String) (tr : List Signal) : List (Kind × Int) :=
  (tr.filter (fun s => s.timer = id)).map (fun s => (s.kind, s.epoch))

/-- how many signals a timer in this state has raised since it was added un-started -/
def sigCount (e : EpochInfo) : Nat :=
  if e.epochCountingStarted then (2 * e.currentEpoch - 1).toNat else 0

/-! ### histories -/

def Distinct (l : List EpochInfo) : Prop := l.Pairwise (fun a b => a.identifier ≠ b.identifier)

/-- states reachable from `reset k` by adding un-started timers and running blocks with ARBITRARY block
times, heights and scripts, together with the committed signal history. -/
inductive Reach : State → List Signal → Prop
  | init (k : Nat) : Reach (initState k) []
  | add {s s' tr} (ctxT ctxH : Int) (e : EpochInfo) : Reach s tr → e.epochCountingStarted = false →
      addEpochInfo ctxT ctxH e s = some s' → Reach s' tr
  | block {s tr} (b : Block) : Reach s tr → Reach (stepBlock s b) (tr ++ committedSignals s b)

/-- the same with the block times required to be non-decreasing; the index is the last block time
(a lower bound for the next one). -/
inductive ReachMono : State → Int → Prop
  | init (k : Nat) (T : Int) : ReachMono (initState k) T
  | add {s s' T} (ctxT ctxH : Int) (e : EpochInfo) : ReachMono s T → e.epochCountingStarted = false →
      addEpochInfo ctxT ctxH e s = some s' → ReachMono s' T
  | block {s T} (b : Block) : ReachMono s T → T ≤ b.t → ReachMono (stepBlock s b) b.t

end OsmoVerif.Epochs
