/- Specifications the router is measured against (C05): the hops performed ONE AFTER ANOTHER through the
single-pool entry points, legs one after another, the backward estimate pass by structural recursion.
Nothing here looks at indices, accumulators or loop counters.  Core only. -/
import OsmoVerif.Model.Router

namespace OsmoVerif.Router
variable {σ : Type}

/-- exact-in, hop after hop: every hop is the single-pool `swapExactAmountIn` (taker fee on its input, then the
pool); what a hop pays out is what the next hop gets; inner hops ask for at least 1, the last for the caller's
minimum. -/
def composeIn (P : Pools σ) (c : FeeCfg) (sender : Addr) (minOut : Int) :
    List StepIn → Denom → Int → σ → Except Err ((Int × List HopRec) × σ)
  | [], _, amt, s => .ok ((amt, []), s)
  | [st], dIn, amt, s =>
    match swapExactAmountIn P c sender st.pool dIn amt st.outDenom minOut s with
    | .error e => .error e
    | .ok ((y, rec), s') => .ok ((y, [rec]), s')
  | st :: st' :: rest, dIn, amt, s =>
    match swapExactAmountIn P c sender st.pool dIn amt st.outDenom 1 s with
    | .error e => .error e
    | .ok ((y, rec), s') =>
      match composeIn P c sender minOut (st' :: rest) st.outDenom y s' with
      | .error e => .error e
      | .ok ((z, recs), s'') => .ok ((z, rec :: recs), s'')

/-- exact-out, hop after hop in ROUTE order: hop `i` is the single-pool exact-out swap (`hopExactOut`) that buys
what hop `i+1` was estimated to need, with hop `i`'s own estimate as its maximum (the caller's maximum for the
first hop); the last hop buys the caller's amount.  Input: the route zipped with the per-hop maxima. -/
def composeOut (P : Pools σ) (c : FeeCfg) (sender : Addr) :
    List (StepOut × Int) → Denom → Int → σ → Except Err (List (Int × HopRec) × σ)
  | [], _, _, s => .ok ([], s)
  | [(st, m)], dOut, out, s =>
    match hopExactOut P c sender st m dOut out s with
    | .error e => .error e
    | .ok (r, s') => .ok ([r], s')
  | (st, m) :: (nx, a) :: rest, dOut, out, s =>
    match hopExactOut P c sender st m nx.inDenom a s with
    | .error e => .error e
    | .ok (r, s') =>
      match composeOut P c sender ((nx, a) :: rest) dOut out s' with
      | .error e => .error e
      | .ok (rs, s'') => .ok (r :: rs, s'')

/-- the backward estimate pass by recursion on the route: what the rest of the route needs (denom, amount) is
bought from this hop; its estimate plus taker fee is what this suffix needs. Returns the per-hop estimates (route
order) and what the whole suffix needs. -/
def expectedIns (P : Pools σ) (c : FeeCfg) :
    List StepOut → Denom → Int → σ → Except Err (List Int × (Denom × Int))
  | [], dOut, out, _ => .ok ([], (dOut, out))
  | st :: rest, dOut, out, s =>
    match expectedIns P c rest dOut out s with
    | .error e => .error e
    | .ok (ins, (d, a)) =>
      match P.calcIn st.pool st.inDenom d a s with
      | .error e => .error e
      | .ok tin =>
        match calcTakerFeeExactOut tin (getTradingPairTakerFee c st.inDenom d) with
        | none => .error .fee
        | some (after, _) => .ok (after :: ins, (st.inDenom, after))

/-- the result of an exact-out route from its hops: `i = 0`: the FIRST hop's amount including its taker fee (what
`RouteExactAmountOut` returns), and the hop records appended to what was recorded before. -/
def finishOut (i : Nat) (tin : Int) (acc : List HopRec) (r : Except Err (List (Int × HopRec) × σ)) :
    Except Err ((Int × List HopRec) × σ) :=
  match r with
  | .error e => .error e
  | .ok (rs, s') =>
    .ok ((if i = 0 then (match rs with | r :: _ => r.1 | [] => tin) else tin, acc.reverse ++ rs.map (·.2)), s')

def listSum : List Int → Int
  | [] => 0
  | x :: xs => x + listSum xs

/-- the legs of a split exact-in route one after another, each as a routed swap with minimum 0. -/
def legsIn (P : Pools σ) (c : FeeCfg) (sender : Addr) (dIn : Denom) :
    List LegIn → σ → Except Err (List (Int × List HopRec) × σ)
  | [], s => .ok ([], s)
  | l :: rest, s =>
    if l.amount < 0 then .error .invalid else
    match routeExactAmountIn P c sender l.route dIn l.amount 0 s with
    | .error e => .error e
    | .ok (r, s') =>
      match legsIn P c sender dIn rest s' with
      | .error e => .error e
      | .ok (rs, s'') => .ok (r :: rs, s'')

/-- the legs of a split exact-out route one after another, each with the maximum 2^256 − 1. -/
def legsOut (P : Pools σ) (c : FeeCfg) (sender : Addr) (dOut : Denom) :
    List LegOut → σ → Except Err (List (Int × List HopRec) × σ)
  | [], s => .ok ([], s)
  | l :: rest, s =>
    if l.amount < 0 then .error .invalid else
    match routeExactAmountOut P c sender l.route intMaxValue dOut l.amount s with
    | .error e => .error e
    | .ok (r, s') =>
      match legsOut P c sender dOut rest s' with
      | .error e => .error e
      | .ok (rs, s'') => .ok (r :: rs, s'')

def flattenRecs : List (Int × List HopRec) → List HopRec
  | [] => []
  | r :: rs => r.2 ++ flattenRecs rs

/-- each pool's estimate function returns the amount its execute function produces on the same state. -/
structure Consistent (P : Pools σ) : Prop where
  calcOut_eq : ∀ p a dIn dOut x s y tk s',
    P.swapIn p a dIn dOut x s = .ok ((y, tk), s') → P.calcOut p dIn dOut x s = .ok y
  calcIn_eq : ∀ p a dIn dOut x s cur dl s',
    P.swapOut p a dIn dOut x s = .ok ((cur, dl), s') → P.calcIn p dIn dOut x s = .ok cur

/-- a swap on one pool and a fee transfer leave the quotes of every OTHER pool unchanged. -/
structure Framed (P : Pools σ) : Prop where
  swapIn_frame : ∀ p a dIn dOut x s r s', P.swapIn p a dIn dOut x s = .ok (r, s') →
    ∀ q, q ≠ p → ∀ dI dO z, P.calcOut q dI dO z s' = P.calcOut q dI dO z s
  fee_frame : ∀ a d f s s', P.sendFee a d f s = .ok s' →
    ∀ q dI dO z, P.calcOut q dI dO z s' = P.calcOut q dI dO z s

end OsmoVerif.Router
