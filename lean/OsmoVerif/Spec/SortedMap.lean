/-
Plain sorted-map reference for C16: a finite map from byte-string keys to integers, kept as
a strictly ascending association list, with the range-sum queries the sum-tree must answer.
Core-only.  Nothing here knows about nodes, levels or fan-out.
-/
namespace OsmoVerif.Spec.SortedMap

abbrev Key := List Nat
abbrev SMap := List (Key × Int)

/-- strictly ascending keys (bytewise lexicographic order) -/
def Sorted (m : SMap) : Prop := m.Pairwise (fun a b => a.1 < b.1)

/-- insert or overwrite -/
def insert : SMap → Key → Int → SMap
  | [], k, v => [(k, v)]
  | (q, w) :: rest, k, v =>
    if q = k then (k, v) :: rest
    else if k < q then (k, v) :: (q, w) :: rest
    else (q, w) :: insert rest k v

/-- erase (no-op when absent) -/
def erase : SMap → Key → SMap
  | [], _ => []
  | (q, w) :: rest, k => if q = k then rest else (q, w) :: erase rest k

def find? : SMap → Key → Option Int
  | [], _ => none
  | (q, w) :: rest, k => if q = k then some w else find? rest k

/-- point lookup, `0` when absent -/
def get (m : SMap) (k : Key) : Int :=
  match find? m k with
  | some v => v
  | none => 0

/-- sum of the values whose key satisfies `p` -/
def sumIf (p : Key → Bool) : SMap → Int
  | [] => 0
  | (j, v) :: rest => (if p j then v else 0) + sumIf p rest

def sumLt (m : SMap) (k : Key) : Int := sumIf (fun j => decide (j < k)) m
def sumGt (m : SMap) (k : Key) : Int := sumIf (fun j => decide (k < j)) m
def sumLe (m : SMap) (k : Key) : Int := sumIf (fun j => decide (¬ k < j)) m
def sumGe (m : SMap) (k : Key) : Int := sumIf (fun j => decide (¬ j < k)) m

/-- three-way split: (Σ keys < k, value at k, Σ keys > k) -/
def split (m : SMap) (k : Key) : Int × Int × Int := (sumLt m k, get m k, sumGt m k)
/-- prefix sum: Σ keys ≤ k -/
def prefixSum (m : SMap) (k : Key) : Int := sumLe m k
/-- sum of all values -/
def total (m : SMap) : Int := sumIf (fun _ => true) m
/-- Σ_{lo ≤ j ≤ hi}; written as Σ_{j ≥ lo} − Σ_{j > hi} (for `lo > hi` this is negative of the
gap, which is what "inclusive range" arithmetic gives and what the tree is compared with) -/
def subset (m : SMap) (lo hi : Key) : Int := sumGe m lo - sumGt m hi
/-- ordered iteration -/
def iterate (m : SMap) : List (Key × Int) := m
/-- ordered iteration over the keys `lo ≤ j` and, when an (exclusive) upper bound is given, `j < hi` -/
def range (m : SMap) (lo : Key) (hi : Option Key) : List (Key × Int) :=
  m.filter (fun kv => decide (¬ kv.1 < lo) &&
    (match hi with
      | none => true
      | some h => decide (kv.1 < h)))

end OsmoVerif.Spec.SortedMap
