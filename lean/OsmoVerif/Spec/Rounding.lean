/- Rounding specifications on integers: `r` is `n/d` (d > 0) rounded in a named
direction.  No division appears in the specs; each one determines `r` uniquely
(`*_unique`), so a theorem `IsCeil n d (f …)` pins the function completely. -/
namespace OsmoVerif.Spec

/-- `r = ⌊n/d⌋`. -/
def IsFloor (n d r : Int) : Prop := r * d ≤ n ∧ n < (r + 1) * d
/-- `r = ⌈n/d⌉`: the least integer with `r·d ≥ n`. -/
def IsCeil (n d r : Int) : Prop := (r - 1) * d < n ∧ n ≤ r * d
/-- `r = n/d` rounded toward zero. -/
def IsTrunc (n d r : Int) : Prop := (0 ≤ n → IsFloor n d r) ∧ (n < 0 → IsCeil n d r)
/-- `r = n/d` rounded to nearest, ties to even. -/
def IsHalfEven (n d r : Int) : Prop :=
  2 * (n - r * d) ≤ d ∧ -d ≤ 2 * (n - r * d) ∧
  ((2 * (n - r * d) = d ∨ 2 * (n - r * d) = -d) → r % 2 = 0)

theorem lt_of_mul_lt_mul_pos {a b d : Int} (hd : 0 < d) (h : a * d < b * d) : a < b := by
  rcases Int.lt_or_le a b with h1 | h1
  · exact h1
  · exact absurd (Int.mul_le_mul_of_nonneg_right h1 (Int.le_of_lt hd)) (Int.not_le.mpr h)

theorem IsFloor.unique {n d r r' : Int} (hd : 0 < d) (h : IsFloor n d r) (h' : IsFloor n d r') : r = r' := by
  obtain ⟨a, b⟩ := h; obtain ⟨a', b'⟩ := h'
  have h1 : r < r' + 1 := lt_of_mul_lt_mul_pos hd (Int.lt_of_le_of_lt a b')
  have h2 : r' < r + 1 := lt_of_mul_lt_mul_pos hd (Int.lt_of_le_of_lt a' b)
  omega

theorem IsCeil.unique {n d r r' : Int} (hd : 0 < d) (h : IsCeil n d r) (h' : IsCeil n d r') : r = r' := by
  obtain ⟨a, b⟩ := h; obtain ⟨a', b'⟩ := h'
  have h1 : r - 1 < r' := lt_of_mul_lt_mul_pos hd (Int.lt_of_lt_of_le a b')
  have h2 : r' - 1 < r := lt_of_mul_lt_mul_pos hd (Int.lt_of_lt_of_le a' b)
  omega

theorem IsTrunc.unique {n d r r' : Int} (hd : 0 < d) (h : IsTrunc n d r) (h' : IsTrunc n d r') : r = r' := by
  rcases Int.lt_or_le n 0 with hn | hn
  · exact (h.2 hn).unique hd (h'.2 hn)
  · exact (h.1 hn).unique hd (h'.1 hn)

/-- exactness: if `d ∣ n` every rounding mode returns the exact quotient. -/
theorem IsFloor.exact {q d r : Int} (hd : 0 < d) (h : IsFloor (q * d) d r) : r = q :=
  h.unique hd ⟨Int.le_refl _, by rw [Int.add_mul]; omega⟩
theorem IsCeil.exact {q d r : Int} (hd : 0 < d) (h : IsCeil (q * d) d r) : r = q :=
  h.unique hd ⟨by rw [Int.sub_mul]; omega, Int.le_refl _⟩
theorem IsTrunc.exact {q d r : Int} (hd : 0 < d) (h : IsTrunc (q * d) d r) : r = q :=
  h.unique hd ⟨fun _ => ⟨Int.le_refl _, by rw [Int.add_mul]; omega⟩, fun _ => ⟨by rw [Int.sub_mul]; omega, Int.le_refl _⟩⟩

theorem IsHalfEven.unique {n d r r' : Int} (hd : 0 < d) (h : IsHalfEven n d r) (h' : IsHalfEven n d r') : r = r' := by
  obtain ⟨a, b, c⟩ := h; obtain ⟨a', b', c'⟩ := h'
  -- 2(n - r d) ∈ [-d, d], 2(n - r' d) ∈ [-d,d]  ⇒ |r - r'|·2d ≤ 2d ⇒ |r-r'| ≤ 1; if = 1 both are ties ⇒ both even: contradiction
  have e1 : 2 * (n - r * d) - 2 * (n - r' * d) = 2 * ((r' - r) * d) := by
    rw [Int.sub_mul]; omega
  have hle : (r' - r) * d ≤ 1 * d := by omega
  have hge : (-1) * d ≤ (r' - r) * d := by omega
  have k1 : r' - r ≤ 1 := by
    rcases Int.lt_or_le 1 (r' - r) with h1 | h1
    · have := Int.mul_lt_mul_of_pos_right h1 hd; omega
    · exact h1
  have k2 : -1 ≤ r' - r := by
    rcases Int.lt_or_le (r' - r) (-1) with h1 | h1
    · have := Int.mul_lt_mul_of_pos_right h1 hd; omega
    · exact h1
  rcases (by omega : r' - r = 0 ∨ r' - r = 1 ∨ r' - r = -1) with h0 | h1 | h1
  · omega
  · rw [h1] at e1
    have t1 : 2 * (n - r * d) = d := by omega
    have t2 : 2 * (n - r' * d) = -d := by omega
    have := c (Or.inl t1); have := c' (Or.inr t2); omega
  · rw [h1] at e1
    have t1 : 2 * (n - r * d) = -d := by omega
    have t2 : 2 * (n - r' * d) = d := by omega
    have := c (Or.inr t1); have := c' (Or.inl t2); omega

theorem IsHalfEven.exact {q d r : Int} (hd : 0 < d) (h : IsHalfEven (q * d) d r) : r = q :=
  h.unique hd ⟨by omega, by omega, fun hh => by omega⟩

end OsmoVerif.Spec
