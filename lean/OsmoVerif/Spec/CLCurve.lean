/-
The IDEAL concentrated-liquidity curve, walked through a list of initialised ticks in exact rational arithmetic
(specification level: nothing here is executed by the driver; no rounding anywhere).

Units are the raw units of the model so that no conversion is needed in the comparison theorems:
  sqrt prices `P s N : ℚ`  raw 36-decimal (value·10^36),
  `K : ℚ`                  raw 18-decimal liquidity times 10^36 (so `K = liq·10^36`),
  amounts `x y : ℚ`        raw 18-decimal (10^18 = one token).
Between sqrt prices `p ≤ q` a bucket of liquidity `K` holds
  token0  `amt0 K p q = (q − p)·K/(p·q)`   (= L·(1/√p − 1/√q)),      token1  `amt1 K p q = (q − p)·K/10^72`  (= L·(√q − √p)).
Direction `zfo = true` (zero-for-one): token0 in, token1 out, the price falls; `zfo = false`: token1 in, token0 out, it rises.
`ahead` lists the initialised ticks ahead in swap direction as (sqrt price of the tick, net liquidity·10^36); crossing a
tick adds its net liquidity going up and subtracts it going down.

`idealOut zfo ahead K P x` : exact amount out for the amount in `x` (net of the spread factor), starting at `P` in a bucket
                             of liquidity `K`.
After the last tick the current bucket extends without bound.  `idealOut` is monotone in `x` on well-formed walks
(`idealOut_mono`), so the ideal amount IN for an amount out `y` is its generalised inverse: `x` is at least the ideal amount in
for `y` iff `idealOut … x ≥ y`; the exact-out theorems of Props/C03Ideal.lean are stated in that form.
-/
import Mathlib.Tactic.Linarith
import Mathlib.Tactic.Ring
import Mathlib.Tactic.FieldSimp
import Mathlib.Tactic.Positivity
import Mathlib.Tactic.NormNum
import Mathlib.Algebra.Order.Field.Basic
import Mathlib.Data.Rat.Cast.Order

namespace OsmoVerif.Spec.CLCurve

/-- exact token0 amount between sqrt prices `p ≤ q`. -/
def amt0 (K p q : ℚ) : ℚ := (q - p) * K / (p * q)
/-- exact token1 amount between sqrt prices `p ≤ q`. -/
def amt1 (K p q : ℚ) : ℚ := (q - p) * K / 10 ^ 72

/-- amount IN needed to move the price from `P` to `s` (which lies in swap direction). -/
def capIn (zfo : Bool) (K P s : ℚ) : ℚ := if zfo then amt0 K s P else amt1 K P s
/-- amount OUT released by moving the price from `P` to `s`. -/
def capOut (zfo : Bool) (K P s : ℚ) : ℚ := if zfo then amt1 K s P else amt0 K P s

/-- the sqrt price reached from `P` with the amount in `x` inside one bucket (no liquidity: the price does not move). -/
def nextP (zfo : Bool) (K P x : ℚ) : ℚ :=
  if K = 0 then P else if zfo then P * K / (x * P + K) else P + x * 10 ^ 72 / K

/-- amount out for the amount in `x` inside one (unbounded) bucket. -/
def outB (zfo : Bool) (K P x : ℚ) : ℚ := capOut zfo K P (nextP zfo K P x)

/-- liquidity after crossing a tick with net liquidity `nk`. -/
def crossK (zfo : Bool) (K nk : ℚ) : ℚ := if zfo then K - nk else K + nk

/-- THE IDEAL CURVE, exact-in: amount out for the amount in `x`. -/
def idealOut (zfo : Bool) : List (ℚ × ℚ) → ℚ → ℚ → ℚ → ℚ
  | [], K, P, x => if x ≤ 0 then 0 else outB zfo K P x
  | (s, nk) :: rest, K, P, x =>
    if x ≤ 0 then 0
    else if x ≤ capIn zfo K P s then outB zfo K P x
    else capOut zfo K P s + idealOut zfo rest (crossK zfo K nk) s (x - capIn zfo K P s)

/-- well-formed walk: non-negative liquidity in every bucket, positive prices, ticks ordered in swap direction. -/
def WF (zfo : Bool) : List (ℚ × ℚ) → ℚ → ℚ → Prop
  | [], K, P => 0 ≤ K ∧ 0 < P
  | (s, nk) :: rest, K, P => 0 ≤ K ∧ 0 < P ∧ 0 < s ∧ (if zfo then s ≤ P else P ≤ s) ∧ WF zfo rest (crossK zfo K nk) s

/-! ## one bucket -/

theorem amt0_nonneg {K p q : ℚ} (hK : 0 ≤ K) (hp : 0 < p) (hpq : p ≤ q) : 0 ≤ amt0 K p q := by
  unfold amt0
  have : 0 < q := by linarith
  apply div_nonneg
  · exact mul_nonneg (by linarith) hK
  · positivity

theorem amt1_nonneg {K p q : ℚ} (hK : 0 ≤ K) (hpq : p ≤ q) : 0 ≤ amt1 K p q := by
  unfold amt1
  apply div_nonneg
  · exact mul_nonneg (by linarith) hK
  · positivity

theorem amt0_add {K p m q : ℚ} (hp : 0 < p) (hpm : p ≤ m) (hmq : m ≤ q) : amt0 K p q = amt0 K p m + amt0 K m q := by
  unfold amt0
  have hm : 0 < m := by linarith
  have hq : 0 < q := by linarith
  field_simp
  ring

theorem amt1_add (K p m q : ℚ) : amt1 K p q = amt1 K p m + amt1 K m q := by
  unfold amt1; ring

theorem amt0_self (K p : ℚ) : amt0 K p p = 0 := by unfold amt0; simp
theorem amt1_self (K p : ℚ) : amt1 K p p = 0 := by unfold amt1; simp
theorem amt0_zero (p q : ℚ) : amt0 0 p q = 0 := by unfold amt0; simp
theorem amt1_zero (p q : ℚ) : amt1 0 p q = 0 := by unfold amt1; simp

/-- `M` lies between `P` and `s` in swap direction. -/
def Between (zfo : Bool) (P M s : ℚ) : Prop := if zfo then s ≤ M ∧ M ≤ P else P ≤ M ∧ M ≤ s

theorem capIn_add {zfo : Bool} {K P M s : ℚ} (hs : 0 < s) (hP : 0 < P) (h : Between zfo P M s) :
    capIn zfo K P s = capIn zfo K P M + capIn zfo K M s := by
  unfold capIn Between at *
  cases zfo
  · simp only [Bool.false_eq_true, ↓reduceIte] at h ⊢
    exact amt1_add K P M s
  · simp only [↓reduceIte] at h ⊢
    rw [amt0_add hs h.1 h.2]; ring

theorem capOut_add {zfo : Bool} {K P M s : ℚ} (hs : 0 < s) (hP : 0 < P) (h : Between zfo P M s) :
    capOut zfo K P s = capOut zfo K P M + capOut zfo K M s := by
  unfold capOut Between at *
  cases zfo
  · simp only [Bool.false_eq_true, ↓reduceIte] at h ⊢
    exact amt0_add hP h.1 h.2
  · simp only [↓reduceIte] at h ⊢
    rw [amt1_add K s M P]; ring

theorem capIn_nonneg {zfo : Bool} {K P s : ℚ} (hK : 0 ≤ K) (hs : 0 < s) (hP : 0 < P)
    (h : if zfo then s ≤ P else P ≤ s) : 0 ≤ capIn zfo K P s := by
  unfold capIn
  cases zfo
  · simp only [Bool.false_eq_true, ↓reduceIte] at h ⊢; exact amt1_nonneg hK h
  · simp only [↓reduceIte] at h ⊢; exact amt0_nonneg hK hs h

theorem capOut_nonneg {zfo : Bool} {K P s : ℚ} (hK : 0 ≤ K) (hs : 0 < s) (hP : 0 < P)
    (h : if zfo then s ≤ P else P ≤ s) : 0 ≤ capOut zfo K P s := by
  unfold capOut
  cases zfo
  · simp only [Bool.false_eq_true, ↓reduceIte] at h ⊢; exact amt0_nonneg hK hP h
  · simp only [↓reduceIte] at h ⊢; exact amt1_nonneg hK h

theorem capIn_self (zfo : Bool) (K P : ℚ) : capIn zfo K P P = 0 := by
  unfold capIn; cases zfo <;> simp [amt0_self, amt1_self]
theorem capOut_self (zfo : Bool) (K P : ℚ) : capOut zfo K P P = 0 := by
  unfold capOut; cases zfo <;> simp [amt0_self, amt1_self]
theorem capIn_zeroK (zfo : Bool) (P s : ℚ) : capIn zfo 0 P s = 0 := by
  unfold capIn; cases zfo <;> simp [amt0_zero, amt1_zero]
theorem capOut_zeroK (zfo : Bool) (P s : ℚ) : capOut zfo 0 P s = 0 := by
  unfold capOut; cases zfo <;> simp [amt0_zero, amt1_zero]

theorem nextP_zero (zfo : Bool) (K P : ℚ) : nextP zfo K P 0 = P := by
  unfold nextP
  by_cases hK : K = 0
  · rw [if_pos hK]
  · rw [if_neg hK]
    cases zfo
    · simp
    · simp only [↓reduceIte, zero_mul, zero_add]
      field_simp

/-- the price moves in swap direction and stays positive. -/
theorem nextP_dir {zfo : Bool} {K P x : ℚ} (hK : 0 ≤ K) (hP : 0 < P) (hx : 0 ≤ x) :
    0 < nextP zfo K P x ∧ (if zfo then nextP zfo K P x ≤ P else P ≤ nextP zfo K P x) := by
  unfold nextP
  by_cases hK0 : K = 0
  · rw [if_pos hK0]; exact ⟨hP, by cases zfo <;> simp⟩
  · rw [if_neg hK0]
    have hKp : 0 < K := lt_of_le_of_ne hK (Ne.symm hK0)
    cases zfo
    · simp only [Bool.false_eq_true, ↓reduceIte]
      have : 0 ≤ x * 10 ^ 72 / K := by positivity
      exact ⟨by linarith, by linarith⟩
    · simp only [↓reduceIte]
      have hd : 0 < x * P + K := by positivity
      refine ⟨by positivity, ?_⟩
      rw [div_le_iff₀ hd]
      nlinarith [mul_nonneg hx (mul_nonneg (le_of_lt hP) (le_of_lt hP))]

/-- the amount in that moves the price from `P` to `nextP … x` is `x`. -/
theorem capIn_nextP {zfo : Bool} {K P x : ℚ} (hK : 0 < K) (hP : 0 < P) (hx : 0 ≤ x) :
    capIn zfo K P (nextP zfo K P x) = x := by
  unfold capIn nextP
  rw [if_neg (ne_of_gt hK)]
  cases zfo
  · simp only [Bool.false_eq_true, ↓reduceIte]
    unfold amt1
    field_simp
    ring
  · simp only [↓reduceIte]
    unfold amt0
    have hd : 0 < x * P + K := by positivity
    field_simp
    ring

/-- … and the price reached with exactly the capacity of `[P, s]` is `s`. -/
theorem nextP_capIn {zfo : Bool} {K P s : ℚ} (hK : 0 < K) (hP : 0 < P) (hs : 0 < s) :
    nextP zfo K P (capIn zfo K P s) = s := by
  unfold capIn nextP
  rw [if_neg (ne_of_gt hK)]
  cases zfo
  · simp only [Bool.false_eq_true, ↓reduceIte]
    unfold amt1
    field_simp
    ring
  · simp only [↓reduceIte]
    unfold amt0
    have h1 : (P - s) * K / (s * P) * P + K = K * P / s := by field_simp; ring
    rw [h1]
    field_simp

/-- walking `x` and then `y` is walking `x + y`. -/
theorem nextP_comp {zfo : Bool} {K P x y : ℚ} (hK : 0 ≤ K) (hP : 0 < P) (hx : 0 ≤ x) (hy : 0 ≤ y) :
    nextP zfo K (nextP zfo K P x) y = nextP zfo K P (x + y) := by
  unfold nextP
  by_cases hK0 : K = 0
  · simp only [if_pos hK0]
  · simp only [if_neg hK0]
    have hKp : 0 < K := lt_of_le_of_ne hK (Ne.symm hK0)
    cases zfo
    · simp only [Bool.false_eq_true, ↓reduceIte]
      field_simp
      ring
    · simp only [↓reduceIte]
      have hd : 0 < x * P + K := by positivity
      have hd2 : 0 < (x + y) * P + K := by positivity
      have hd3 : 0 < y * (P * K / (x * P + K)) + K := by positivity
      field_simp
      ring

theorem outB_zero (zfo : Bool) (K P : ℚ) : outB zfo K P 0 = 0 := by
  unfold outB; rw [nextP_zero, capOut_self]

theorem outB_nonneg {zfo : Bool} {K P x : ℚ} (hK : 0 ≤ K) (hP : 0 < P) (hx : 0 ≤ x) : 0 ≤ outB zfo K P x := by
  unfold outB
  obtain ⟨h1, h2⟩ := nextP_dir (zfo := zfo) hK hP hx
  exact capOut_nonneg hK h1 hP h2

/-- bucket semigroup: the amount out of `x + y` is the amount out of `x` plus the amount out of `y` from where `x` ended. -/
theorem outB_add {zfo : Bool} {K P x y : ℚ} (hK : 0 ≤ K) (hP : 0 < P) (hx : 0 ≤ x) (hy : 0 ≤ y) :
    outB zfo K P (x + y) = outB zfo K P x + outB zfo K (nextP zfo K P x) y := by
  unfold outB
  rw [nextP_comp hK hP hx hy]
  obtain ⟨n1, d1⟩ := nextP_dir (zfo := zfo) hK hP hx
  obtain ⟨n2, d2⟩ := nextP_dir (zfo := zfo) hK hP (by linarith : 0 ≤ x + y)
  obtain ⟨n3, d3⟩ := nextP_dir (zfo := zfo) (P := nextP zfo K P x) hK n1 hy
  rw [nextP_comp hK hP hx hy] at d3
  apply capOut_add n2 hP
  unfold Between
  cases zfo
  · simp only [Bool.false_eq_true, ↓reduceIte] at d1 d3 ⊢; exact ⟨d1, d3⟩
  · simp only [↓reduceIte] at d1 d3 ⊢; exact ⟨d3, d1⟩

theorem outB_mono {zfo : Bool} {K P x y : ℚ} (hK : 0 ≤ K) (hP : 0 < P) (hx : 0 ≤ x) (hxy : x ≤ y) :
    outB zfo K P x ≤ outB zfo K P y := by
  have e : y = x + (y - x) := by ring
  rw [e, outB_add hK hP hx (by linarith)]
  obtain ⟨n1, _⟩ := nextP_dir (zfo := zfo) hK hP hx
  have := outB_nonneg (zfo := zfo) (P := nextP zfo K P x) hK n1 (by linarith : 0 ≤ y - x)
  linarith

/-- with exactly the capacity of `[P, s]` the bucket releases its out-capacity. -/
theorem outB_capIn {zfo : Bool} {K P s : ℚ} (hK : 0 ≤ K) (hP : 0 < P) (hs : 0 < s) :
    outB zfo K P (capIn zfo K P s) = capOut zfo K P s := by
  by_cases hK0 : K = 0
  · subst hK0
    rw [capIn_zeroK, outB_zero, capOut_zeroK]
  · have hKp : 0 < K := lt_of_le_of_ne hK (Ne.symm hK0)
    unfold outB
    rw [nextP_capIn hKp hP hs]

/-! ## the walk -/

theorem idealOut_nil (zfo : Bool) (K P x : ℚ) :
    idealOut zfo [] K P x = if x ≤ 0 then 0 else outB zfo K P x := by rw [idealOut]

theorem idealOut_cons (zfo : Bool) (s nk : ℚ) (rest : List (ℚ × ℚ)) (K P x : ℚ) :
    idealOut zfo ((s, nk) :: rest) K P x =
      if x ≤ 0 then 0
      else if x ≤ capIn zfo K P s then outB zfo K P x
      else capOut zfo K P s + idealOut zfo rest (crossK zfo K nk) s (x - capIn zfo K P s) := by rw [idealOut]

theorem idealOut_nonpos (zfo : Bool) (ahead : List (ℚ × ℚ)) (K P : ℚ) {x : ℚ} (hx : x ≤ 0) : idealOut zfo ahead K P x = 0 := by
  cases ahead with
  | nil => rw [idealOut_nil, if_pos hx]
  | cons a rest => obtain ⟨s, nk⟩ := a; rw [idealOut_cons, if_pos hx]

theorem idealOut_nonneg {zfo : Bool} : ∀ (ahead : List (ℚ × ℚ)) (K P x : ℚ), WF zfo ahead K P → 0 ≤ idealOut zfo ahead K P x
  | [], K, P, x, h => by
    rw [idealOut_nil]
    split
    · exact le_refl _
    · rename_i hx
      exact outB_nonneg h.1 h.2 (le_of_lt (not_le.mp hx))
  | (s, nk) :: rest, K, P, x, h => by
    obtain ⟨hK, hP, hs, hd, hr⟩ := h
    rw [idealOut_cons]
    split
    · exact le_refl _
    · rename_i hx
      split
      · exact outB_nonneg hK hP (le_of_lt (not_le.mp hx))
      · have := idealOut_nonneg rest (crossK zfo K nk) s (x - capIn zfo K P s) hr
        have := capOut_nonneg hK hs hP hd
        linarith

/-- crossing: with at least the capacity of the current bucket the walk releases its out-capacity and continues behind
the tick. -/
theorem idealOut_cross {zfo : Bool} {s nk K P x : ℚ} (rest : List (ℚ × ℚ)) (hK : 0 ≤ K) (hP : 0 < P) (hs : 0 < s)
    (hd : if zfo then s ≤ P else P ≤ s) (hx : capIn zfo K P s ≤ x) :
    idealOut zfo ((s, nk) :: rest) K P x = capOut zfo K P s + idealOut zfo rest (crossK zfo K nk) s (x - capIn zfo K P s) := by
  have hc0 := capIn_nonneg hK hs hP hd
  rw [idealOut_cons]
  by_cases hx0 : x ≤ 0
  · rw [if_pos hx0]
    have hc : capIn zfo K P s = 0 := by linarith
    have hxe : x = 0 := by linarith
    rw [idealOut_nonpos zfo rest _ _ (by rw [hc, hxe]; simp)]
    have := outB_capIn (zfo := zfo) hK hP hs
    rw [hc, outB_zero] at this
    linarith
  · rw [if_neg hx0]
    by_cases hle : x ≤ capIn zfo K P s
    · rw [if_pos hle]
      have hxe : x = capIn zfo K P s := le_antisymm hle hx
      rw [idealOut_nonpos zfo rest _ _ (by rw [hxe]; simp), hxe, outB_capIn hK hP hs]
      ring
    · rw [if_neg hle]

/-- staying: a move from `P` to `N` inside the current bucket (not beyond the next tick `s`) with amount in
`capIn K P N`, followed by the walk of `x` from `N`, is the walk of `capIn K P N + x` from `P`. -/
theorem idealOut_stay {zfo : Bool} {s nk K P N x : ℚ} (rest : List (ℚ × ℚ)) (hK : 0 ≤ K) (hP : 0 < P) (hs : 0 < s)
    (hN : 0 < N) (hb : Between zfo P N s) (hx : 0 ≤ x) :
    idealOut zfo ((s, nk) :: rest) K P (capIn zfo K P N + x) =
      capOut zfo K P N + idealOut zfo ((s, nk) :: rest) K N x := by
  have hdPN : if zfo then N ≤ P else P ≤ N := by
    unfold Between at hb; cases zfo
    · simp only [Bool.false_eq_true, ↓reduceIte] at hb ⊢; exact hb.1
    · simp only [↓reduceIte] at hb ⊢; exact hb.2
  have hdNs : if zfo then s ≤ N else N ≤ s := by
    unfold Between at hb; cases zfo
    · simp only [Bool.false_eq_true, ↓reduceIte] at hb ⊢; exact hb.2
    · simp only [↓reduceIte] at hb ⊢; exact hb.1
  have hξ0 := capIn_nonneg hK hN hP hdPN
  have hin := capIn_add (K := K) hs hP hb
  have hout := capOut_add (K := K) hs hP hb
  by_cases hK0 : K = 0
  · -- no liquidity: all capacities vanish
    subst hK0
    simp only [capIn_zeroK, capOut_zeroK, zero_add]
    rw [idealOut_cons, idealOut_cons]
    simp only [capIn_zeroK, capOut_zeroK]
    by_cases hx0 : x ≤ 0
    · rw [if_pos hx0, if_pos hx0]
    · rw [if_neg hx0, if_neg hx0, if_neg hx0, if_neg hx0]
  have hKp : 0 < K := lt_of_le_of_ne hK (Ne.symm hK0)
  have hNe : nextP zfo K P (capIn zfo K P N) = N := nextP_capIn hKp hP hN
  by_cases hx0 : x ≤ 0
  · have hxe : x = 0 := by linarith
    subst hxe
    rw [add_zero, idealOut_nonpos zfo _ K N (le_refl _), add_zero]
    by_cases hξ : capIn zfo K P N ≤ 0
    · have hξe : capIn zfo K P N = 0 := by linarith
      rw [hξe, idealOut_nonpos zfo _ K P (le_refl _)]
      have := outB_capIn (zfo := zfo) hK hP hN
      rw [hξe, outB_zero] at this
      linarith
    · rw [idealOut_cons, if_neg hξ, if_pos (by rw [hin]; linarith [capIn_nonneg hK hs hN hdNs])]
      exact outB_capIn hK hP hN
  · have hxp : 0 < x := not_le.mp hx0
    have hsum : ¬ capIn zfo K P N + x ≤ 0 := by linarith
    by_cases hle : x ≤ capIn zfo K N s
    · -- both stay in the bucket
      have hle' : capIn zfo K P N + x ≤ capIn zfo K P s := by rw [hin]; linarith
      rw [idealOut_cons, idealOut_cons, if_neg hsum, if_pos hle', if_neg hx0, if_pos hle, outB_add hK hP hξ0 hx, hNe,
        outB_capIn hK hP hN]
    · have hle' : ¬ capIn zfo K P N + x ≤ capIn zfo K P s := by rw [hin]; linarith
      unfold idealOut
      rw [if_neg hsum, if_neg hle', if_neg hx0, if_neg hle, hout]
      have e : capIn zfo K P N + x - capIn zfo K P s = x - capIn zfo K N s := by rw [hin]; ring
      rw [e]; ring

/-- well-formedness is kept when the walk moves inside the current bucket … -/
theorem WF.stay {zfo : Bool} {s nk K P N : ℚ} {rest : List (ℚ × ℚ)} (h : WF zfo ((s, nk) :: rest) K P) (hN : 0 < N)
    (hd : if zfo then s ≤ N else N ≤ s) : WF zfo ((s, nk) :: rest) K N :=
  ⟨h.1, hN, h.2.2.1, hd, h.2.2.2.2⟩

/-- … and when it crosses the next tick. -/
theorem WF.cross {zfo : Bool} {s nk K P : ℚ} {rest : List (ℚ × ℚ)} (h : WF zfo ((s, nk) :: rest) K P) :
    WF zfo rest (crossK zfo K nk) s := h.2.2.2.2

/-- the ideal amount out is monotone in the amount in. -/
theorem idealOut_mono {zfo : Bool} : ∀ (ahead : List (ℚ × ℚ)) (K P x y : ℚ), WF zfo ahead K P → x ≤ y →
    idealOut zfo ahead K P x ≤ idealOut zfo ahead K P y
  | [], K, P, x, y, h, hxy => by
    rw [idealOut_nil, idealOut_nil]
    by_cases hx : x ≤ 0
    · rw [if_pos hx]
      split
      · exact le_refl _
      · rename_i hy; exact outB_nonneg h.1 h.2 (le_of_lt (not_le.mp hy))
    · rw [if_neg hx, if_neg (by linarith)]
      exact outB_mono h.1 h.2 (le_of_lt (not_le.mp hx)) hxy
  | (s, nk) :: rest, K, P, x, y, h, hxy => by
    by_cases hx : x ≤ 0
    · rw [idealOut_nonpos zfo _ K P hx]; exact idealOut_nonneg _ K P y h
    · obtain ⟨hK, hP, hs, hd, hr⟩ := h
      have hxp : 0 < x := not_le.mp hx
      by_cases hyc : y ≤ capIn zfo K P s
      · rw [idealOut_cons, idealOut_cons, if_neg hx, if_pos (by linarith), if_neg (by linarith), if_pos hyc]
        exact outB_mono hK hP (le_of_lt hxp) hxy
      · have hyc' : capIn zfo K P s ≤ y := le_of_lt (not_le.mp hyc)
        rw [idealOut_cross rest hK hP hs hd hyc']
        by_cases hxc : x ≤ capIn zfo K P s
        · have : idealOut zfo ((s, nk) :: rest) K P x = outB zfo K P x := by
            unfold idealOut; rw [if_neg hx, if_pos hxc]
          rw [this]
          have h1 := outB_mono (zfo := zfo) hK hP (le_of_lt hxp) hxc
          rw [outB_capIn hK hP hs] at h1
          have h2 := idealOut_nonneg rest (crossK zfo K nk) s (y - capIn zfo K P s) hr
          linarith
        · have hxc' : capIn zfo K P s ≤ x := le_of_lt (not_le.mp hxc)
          rw [idealOut_cross rest hK hP hs hd hxc']
          have := idealOut_mono rest (crossK zfo K nk) s (x - capIn zfo K P s) (y - capIn zfo K P s) hr (by linarith)
          linarith

end OsmoVerif.Spec.CLCurve
