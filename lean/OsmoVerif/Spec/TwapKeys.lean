/-
The BYTE LAYOUT of the x/twap store keys (types/keys.go), for the key-range theorems of C10.

`Gen/Twap.lean` carries every key constructor the keeper uses as a token list regenerated from keys.go
(`key_hist`: the key a historical record is stored under; `key_pruneStart` / `key_pruneEnd`: the bounds of the
pruning pass's reverse range scan; `key_lookupStart` / `key_lookupEnd`: those of `getRecordAtOrBeforeTime`).
`build` interprets a token list; `lt` is `bytes.Compare(a, b) < 0`.  Keys are ASCII: a byte is a `Nat`.
Core only.
-/
namespace OsmoVerif.Twap.Keys

abbrev Bytes := List Nat

def ofString (s : String) : Bytes := s.toList.map Char.toNat

/-- `bytes.Compare(a, b) < 0` (the order of the IAVL / cachekv iterators). -/
def lt : Bytes → Bytes → Prop
  | _, [] => False
  | [], _ :: _ => True
  | a :: as, b :: bs => a < b ∨ (a = b ∧ lt as bs)

def decLt : (a b : Bytes) → Decidable (lt a b)
  | [], [] => isFalse (fun h => h)
  | _ :: _, [] => isFalse (fun h => h)
  | [], _ :: _ => isTrue trivial
  | a :: as, b :: bs =>
    have : Decidable (lt as bs) := decLt as bs
    inferInstanceAs (Decidable (a < b ∨ (a = b ∧ lt as bs)))

instance (a b : Bytes) : Decidable (lt a b) := decLt a b

/-- the variable parts of a key: the pool id in decimal (`%d`) and zero-padded to 20 digits
(`FormatFixedLengthU64`), the two denoms, the time string (`FormatTimeString`). -/
structure Args where
  pool : Bytes
  pool20 : Bytes
  d0 : Bytes
  d1 : Bytes
  time : Bytes

def tok (a : Args) (kind text : String) : Option Bytes :=
  if kind = "lit" then some (ofString text)
  else if kind = "pool" then some a.pool
  else if kind = "pool20" then some a.pool20
  else if kind = "d0" then some a.d0
  else if kind = "d1" then some a.d1
  else if kind = "time" then some a.time
  else none

def build (a : Args) : List (String × String) → Option Bytes
  | [] => some []
  | (kind, text) :: rest =>
    match tok a kind text, build a rest with
    | some x, some y => some (x ++ y)
    | _, _ => none

/-- the separator byte `|` (Props/C10 `sepByte_is_KeySeparator`: it is the regenerated `KeySeparator`). -/
def sepByte : Nat := 124

/-- no byte of `x` reaches the separator `sep` (denoms: `[a-zA-Z0-9/:._-]`; decimal digits; the sortable time
format `2006-01-02T15:04:05.000000000`). -/
def Below (sep : Nat) (x : Bytes) : Prop := ∀ b ∈ x, b < sep

end OsmoVerif.Twap.Keys
