/-
Tie T1 for x/epochs (owning property C17), part B: `BeginBlocker` and the hook plumbing as ordered statement lists regenerated
on every run (tools/extract/gen_expr_k.go) and pinned below.  Part of what they pin: the two time comparisons (`Before(StartTime)`,
`After(epochEndTime)`), what each early exit of the iteration callback returns (a bare `return` = `stop = false`), the updates of the
epoch record in both branches, `AfterEpochEnd` BEFORE the counter is advanced, and `setEpochInfo` BEFORE `BeforeEpochStart`; the
per-hook cache context, panic recovery and out-of-gas re-panic of `osmoutils.ApplyFuncIfNoError`.
Written by tools/mkpins.py from tools/pins/TieGenEpochsOps.json.
-/
import OsmoVerif.Gen.EpochsOpsFn

-- `decide` on lists of up to a few hundred strings
set_option maxRecDepth 100000

namespace OsmoVerif.Props.TieGenEpochsOps
open OsmoVerif

/-- B — `Keeper.BeginBlocker`: `Epochs.beginBlock` / `Epochs.processTimers` / `Epochs.processTimer` (one epoch record per iteration) -/
theorem opsx_Keeper_BeginBlocker_pinned : Gen.EpochsOps.opsx_Keeper_BeginBlocker =
    ["defer", "func", "BlockTime(v1)", "Before(v1.BlockTime(),v3.StartTime)", "if", "return()", "end",
     "!(v3.EpochCountingStarted)", "Add(v3.CurrentEpochStartTime,v3.Duration)", "BlockTime(v1)",
     "After(v1.BlockTime(),v7)", "||(_,v6)", "!(v8)", "if", "return(false)", "end", "BlockHeight(v1)",
     "=(v3.CurrentEpochStartHeight,v1.BlockHeight())", "if(v6)", "=(v3.EpochCountingStarted,true)",
     "=(v3.CurrentEpoch,1)", "=(v3.CurrentEpochStartTime,v3.StartTime)", "else",
     "AfterEpochEnd(v0,v1,v3.Identifier,v3.CurrentEpoch)", "+=(v3.CurrentEpoch,1)",
     "Add(v3.CurrentEpochStartTime,v3.Duration)", "=(v3.CurrentEpochStartTime,_)", "end", "setEpochInfo(v0,v1,v3)",
     "BeforeEpochStart(v0,v1,v3.Identifier,v3.CurrentEpoch)", "return(false)", "end", "IterateEpochInfo(v0,v1,_)"] := by decide

/-- B — `Keeper.AddEpochInfo`: `Epochs.addEpochInfo` / `Epochs.validate` / `Epochs.insertTimer` -/
theorem opsx_Keeper_AddEpochInfo_pinned : Gen.EpochsOps.opsx_Keeper_AddEpochInfo =
    ["Validate(v2)", "GetEpochInfo(v0,v1,v2.Identifier)", "!=(_,{})", "if", "return(error)", "end",
     "Equal(v2.StartTime,{})", "if", "BlockTime(v1)", "=(v2.StartTime,v1.BlockTime())", "end", "BlockHeight(v1)",
     "=(v2.CurrentEpochStartHeight,v1.BlockHeight())", "setEpochInfo(v0,v1,v2)"] := by decide

/-- B — `Keeper.setEpochInfo`: the record `Epochs.processTimer` hands on (`seenDuring`: what a hook sees in the store while it runs) -/
theorem opsx_Keeper_setEpochInfo_pinned : Gen.EpochsOps.opsx_Keeper_setEpochInfo =
    ["KVStore(v1,v0.storeKey)", "proto.Marshal(&v2)", "if", "panic(v5)", "end", "call(v2.Identifier)",
     "append(types.KeyPrefixEpoch,_...)", "Set(v3,_,v4)"] := by decide

/-- B — `Keeper.IterateEpochInfo`: `Epochs.processTimers`: identifier order, a `true` from the callback stops the iteration -/
theorem opsx_Keeper_IterateEpochInfo_pinned : Gen.EpochsOps.opsx_Keeper_IterateEpochInfo =
    ["KVStore(v1,v0.storeKey)", "storetypes.KVStorePrefixIterator(v3,types.KeyPrefixEpoch)", "defer", "Close(v4)",
     "=(v5,0)", "for", "Valid(v4)", "=(v6,{})", "Value(v4)", "proto.Unmarshal(v4.Value(),&v6)", "if", "panic(v7)",
     "end", "fn(v5,v6)", "if(v8)", "break", "end", "++(v5)", "Next(v4)", "end"] := by decide

/-- B — `Keeper.AfterEpochEnd`: `Epochs.runHooksFrom` (kind end-of-epoch; errors of a hook are logged, not propagated) -/
theorem opsx_Keeper_AfterEpochEnd_pinned : Gen.EpochsOps.opsx_Keeper_AfterEpochEnd =
    ["AfterEpochEnd(v0.hooks,v1,v2,v3)"] := by decide

/-- B — `Keeper.BeforeEpochStart`: `Epochs.runHooksFrom` (kind start-of-epoch) -/
theorem opsx_Keeper_BeforeEpochStart_pinned : Gen.EpochsOps.opsx_Keeper_BeforeEpochStart =
    ["BeforeEpochStart(v0.hooks,v1,v2,v3)"] := by decide

/-- B — `MultiEpochHooks.AfterEpochEnd`: `Epochs.runHooksFrom`: every hook in registration order through `panicCatchingEpochHook` -/
theorem opsx_MultiEpochHooks_AfterEpochEnd_pinned : Gen.EpochsOps.opsx_MultiEpochHooks_AfterEpochEnd =
    ["range(v0)", "GetModuleName(v0)", "!(isBeforeEpoch)",
     "panicCatchingEpochHook(v1,v4.AfterEpochEnd,v2,v3,v0.GetModuleName(),_)", "end"] := by decide

/-- B — `MultiEpochHooks.BeforeEpochStart`: `Epochs.runHooksFrom`: every hook in registration order through `panicCatchingEpochHook` -/
theorem opsx_MultiEpochHooks_BeforeEpochStart_pinned : Gen.EpochsOps.opsx_MultiEpochHooks_BeforeEpochStart =
    ["range(v0)", "GetModuleName(v4)",
     "panicCatchingEpochHook(v1,v4.BeforeEpochStart,v2,v3,v4.GetModuleName(),isBeforeEpoch)", "end"] := by decide

/-- B — `panicCatchingEpochHook`: `Epochs.applyIfNoError`: one hook in its own cache context, error logged -/
theorem opsx_panicCatchingEpochHook_pinned : Gen.EpochsOps.opsx_panicCatchingEpochHook =
    ["func", "hookFn(v0,v2,v3)", "return(_)", "end", "osmoutils.ApplyFuncIfNoError(v0,v6)", "if", "end"] := by decide

/-- B — `ApplyFuncIfNoError`: `Epochs.applyIfNoError` / `Epochs.applyWrites` (cache context written only on success) -/
theorem opsx_ApplyFuncIfNoError_pinned : Gen.EpochsOps.opsx_ApplyFuncIfNoError =
    ["applyFunc(v0,v1,v0.Logger().Error)", "return(_)"] := by decide

/-- B — `applyFunc`: `Epochs.applyIfNoError` (panic recovery: out-of-gas panics are re-raised, every other panic is an error) -/
theorem opsx_applyFunc_pinned : Gen.EpochsOps.opsx_applyFunc =
    ["defer", "func", "recover()", "=(v4,recover())", "if", "IsOutOfGasError(v4)", "if(v5)", "panic(v4)", "else",
     "PrintPanicRecoveryError(v0,v4)", "end", "end", "end", "call()", "CacheContext(v0)", "f(v6)", "if", "Error(v3)",
     "logFunc(v3.Error())", "else", "write()", "end"] := by decide

/-- B — `IsOutOfGasError`: the out-of-gas outcome of `Epochs.HookRun` -/
theorem opsx_IsOutOfGasError_pinned : Gen.EpochsOps.opsx_IsOutOfGasError =
    ["typeswitch", "case(types.ErrorOutOfGas)", "return(true,v1.Descriptor)", "case(types.ErrorGasOverflow)",
     "return(true,v1.Descriptor)", "case()", "return(false,\"\")", "end"] := by decide

end OsmoVerif.Props.TieGenEpochsOps
