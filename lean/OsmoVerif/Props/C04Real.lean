/-
C04 (real-valued part) — balancer CONDITIONAL accuracy over Mathlib reals (`ℝ`, `Real.rpow`).

Notation: `dv x = x/10^18` is the value of a raw `Dec`; `quoErr = (1/2 + 10^-18)·10^-18` is the exact worst-case error of
one `Dec.Quo` (truncation at 36 decimals, then half-even at 18; it CAN exceed 1/2·10^-18:
`Dec_quo_error_exceeds_half_ulp_witness`), `mulErr = 1/2·10^-18` that of one `Dec.Mul`.
Each operation has a `…Call` record (Proofs/GammRealSwap, GammRealLp) naming the base `y`, the exponent and the value
`pw` of the ONE `Pow` call the code makes (18-decimal half-even quotients, exactly as coded).

1. UNCONDITIONAL (no accuracy of `Pow` needed; all FULL): what the integers are GIVEN `pw`:
   `swap_out_pays_floor`, `swap_out_pool_update`, `swap_in_charges_ceil`, `swap_in_charged_ge`, `swap_in_pool_update`,
   `single_join_shares_trunc`, `token_in_share_out_ceil`, `exit_swap_shares_floor`,
   `exit_swap_truncation_favours_exiter` (+ `exit_swap_truncates_witness`); `Dec_quo_real_error`, `pow_exp_one`,
   `rpow_perturbation`.
2. CONDITIONAL `…_of_pow_accuracy`: IF `|pw/10^18 − (y/10^18)^(wr/10^18)| ≤ ε` for the base and exponent ACTUALLY USED,
   THEN two-sided bounds of the integer result (all five operations); the base/exponent used against the EXACT ones
   (`…_base_exponent_error`, one or a few `Quo`/`Mul` roundings); and the comparison with the EXACT formulas
   (`swap_out_vs_exact…`, `swap_in_vs_exact…`, `single_join_vs_exact…`, `exit_swap_vs_exact…`) with the explicit
   `powDelta β M = 2^M·(M+1)·quoErr/β` (bases ≥ β, exponents ≤ M).
   The accuracy hypothesis is EXACTLY what C13 finding F9 refutes for bases below 0.5 (`Pow(0.2304…, 0.14)` is off by
   2·10^-5; F10: `Pow(1.999…, 0.34)` does not even return), and this tree has NO MaxInRatio/MaxOutRatio
   (`Props.C04.no_max_ratio_guard_declared`, `no_max_in_ratio_witness`), so such bases are reachable (F22, F23): these
   theorems are conditional BY NECESSITY.  Where the hypothesis provably holds they are unconditional:
   equal weights (`Pow(y,1) = y`, ε = 0): `balancer_swap_out_equal_weights_exact`,
   `balancer_swap_in_equal_weights_exact`, `swap_out_weighted_product_equal_weights` (FULL); and the 1:2 pool
   (exponent 1/2, `ApproxSqrt`) with ε = 10^-18 proved (`poolH_pow_accuracy`, instantiated examples at the end).
3. WEIGHTED PRODUCT: `swap_out_weighted_product_of_pow_accuracy`, `swap_in_weighted_product_of_pow_accuracy`; single-asset join / exit PER SHARE:
   `single_join_product_per_share_of_pow_accuracy`, `exit_swap_product_per_share_of_pow_accuracy`.
NOT PROVED here: (i) any bound `ε` on `Pow` itself for exponents other than 1 (false in general: F9);
(ii) `CalcTokenInShareAmountOut` against its EXACT formula `A·(((S+s)/S)^(1/W) − 1)/F` (the ingredients are there:
`token_in_share_out_of_pow_accuracy`, `token_in_share_out_base_exponent_error`, `rpow_perturbation`; missing is the
composition with the `feeRatio` perturbation of the divisor) and its product per share.
-/
import OsmoVerif.Proofs.GammRealLpExact

namespace OsmoVerif.Props.C04Real
open OsmoVerif.GammMath OsmoVerif.Num OsmoVerif.MathM OsmoVerif.Gen OsmoVerif.Spec

/-! ## 0. arithmetic facts -/

/-- FULL. EXACT rational error of `Dec.Quo`: `|r/10^18 − a/b| ≤ (1/2 + 10^-18)·10^-18` for every successful call. -/
theorem Dec_quo_real_error {a b r : Int} (h : Dec.quo a b = some r) :
    b ≠ 0 ∧ |dv r - (a : ℝ) / b| ≤ (1 / 2 + 1 / 10 ^ 18) / 10 ^ 18 :=
  GammMath.Dec_quo_real_error h

/-- FULL. `Pow(y, 1) = y` exactly on the whole domain `0 < y < 2`. -/
theorem pow_exp_one {y : Int} (h0 : 0 < y) (h2 : y < 2 * P18) : pow y P18 = some y := GammMath.pow_exp_one h0 h2

/-- WITNESS: the error of one `Dec.Quo` can EXCEED half a unit of the 18th decimal (double rounding: the 36-decimal
truncation turns `0.5000…0|25…` into an exact tie, which then goes to the even neighbour):
`1e-18 / 1.999999999999999999 = 0.50000000000000000025…e-18` is returned as `0`.  So `quoErr = (1/2 + 10^-18)·10^-18`,
not `1/2·10^-18`, is the right constant in the statements below. -/
theorem Dec_quo_error_exceeds_half_ulp_witness :
    Dec.quo 1 (2 * P18 - 1) = some 0 ∧
    (1 / 2 : ℝ) / 10 ^ 18 < |dv 0 - ((1 : Int) : ℝ) / ((2 * P18 - 1 : Int) : ℝ)| := by
  refine ⟨by decide +kernel, ?_⟩
  rw [dv_zero, zero_sub, abs_neg]
  push_cast; rw [P18_cast]
  rw [abs_of_pos (by norm_num)]
  norm_num

/-- FULL. Perturbation of a real power: bases in `[β, 2]`, `0 < β ≤ 1`, exponents in `[0, M]`:
`|b^e − B^E| ≤ 2^M·(M·|b − B| + |e − E|)/β`. -/
theorem rpow_perturbation {b B e E β M κ₁ κ₂ : ℝ} (hβ : 0 < β) (hβ1 : β ≤ 1) (hb : β ≤ b) (hB : β ≤ B)
    (hb2 : b ≤ 2) (hB2 : B ≤ 2) (he0 : 0 ≤ e) (hE0 : 0 ≤ E) (heM : e ≤ M) (hEM : E ≤ M)
    (h1 : |b - B| ≤ κ₁) (h2 : |e - E| ≤ κ₂) :
    |b ^ e - B ^ E| ≤ (2 : ℝ) ^ M * (M * κ₁ + κ₂) / β :=
  rpow_perturb hβ hβ1 hb hB hb2 hB2 he0 hE0 heM hEM h1 h2

/-! ## 1. unconditional: what the integers are, GIVEN the value `Pow` returned -/

/-- FULL. Exact-in swap: the integer paid out is EXACTLY `⌊R_out·(1 − pw/10^18)⌋` — the pool never pays more than
`R_out·(1 − p)` for the `p` that `Pow` returned. -/
theorem swap_out_pays_floor {p : BalPool} {dIn dOut : String} {amt spread t : Int}
    (h : balCalcOut p [(dIn, amt)] dOut spread = .ok t) :
    ∃ aIn aOut wr y pw, SwapOutCall p dIn dOut amt spread aIn aOut wr y pw ∧ 0 < t ∧
      t = ⌊(aOut.amount : ℝ) * (1 - dv pw)⌋ :=
  balCalcOut_floor h

/-- FULL. `SwapOutAmtGivenIn` through the pool update: the in-reserve grows by the WHOLE token in (spread included),
the out-reserve falls by that floor, so the new out-reserve is at least `R_out·pw/10^18`; weights, shares, other
assets untouched.  (`writtenAmount old new = new`, except `old` when `new = 0`: finding F13.) -/
theorem swap_out_pool_update {p p' : BalPool} {dIn dOut : String} {amt spread out : Int}
    (h : balSwapOut p [(dIn, amt)] dOut spread = .ok (out, p')) :
    ∃ aIn aOut wr y pw, SwapOutCall p dIn dOut amt spread aIn aOut wr y pw ∧ 0 < out ∧
      out = ⌊(aOut.amount : ℝ) * (1 - dv pw)⌋ ∧ dIn ≠ dOut ∧ out ≤ aOut.amount ∧
      findAsset p'.assets dIn = some { aIn with amount := writtenAmount aIn.amount (aIn.amount + amt) } ∧
      findAsset p'.assets dOut = some { aOut with amount := writtenAmount aOut.amount (aOut.amount - out) } ∧
      (aOut.amount : ℝ) * dv pw ≤ ((writtenAmount aOut.amount (aOut.amount - out) : Int) : ℝ) ∧
      (∀ d, d ≠ dIn → d ≠ dOut → findAsset p'.assets d = findAsset p.assets d) ∧
      p'.totalWeight = p.totalWeight ∧ p'.totalShares = p.totalShares :=
  balSwapOut_update h

/-- FULL. Exact-out swap: the integer charged is EXACTLY `⌈q/10^18⌉`, `q` the half-even 18-decimal quotient of
`(pw − 1)·R_in` by `(1 − spread)`, which is within `quoErr` of the exact quotient. -/
theorem swap_in_charges_ceil {p : BalPool} {dIn dOut : String} {amt spread t : Int}
    (h : balCalcIn p [(dOut, amt)] dIn spread = .ok t) :
    ∃ aOut aIn wr y pw q, SwapInCall p dIn dOut amt spread aOut aIn wr y pw q ∧ 0 < t ∧ t = ⌈dv q⌉ ∧
      |dv q - (dv pw - 1) * (aIn.amount : ℝ) / (1 - dv spread)| ≤ quoErr :=
  balCalcIn_ceil h

/-- FULL. … hence charged `≥ R_in·(p − 1)/(1 − spread) − (1/2 + 10^-18)·10^-18` and `< … + (1/2 + 10^-18)·10^-18 + 1`. -/
theorem swap_in_charged_ge {p : BalPool} {dIn dOut : String} {amt spread t : Int}
    (h : balCalcIn p [(dOut, amt)] dIn spread = .ok t) :
    ∃ aOut aIn wr y pw q, SwapInCall p dIn dOut amt spread aOut aIn wr y pw q ∧
      (dv pw - 1) * (aIn.amount : ℝ) / (1 - dv spread) - (1 / 2 + 1 / 10 ^ 18) / 10 ^ 18 ≤ t ∧
      (t : ℝ) < (dv pw - 1) * (aIn.amount : ℝ) / (1 - dv spread) + (1 / 2 + 1 / 10 ^ 18) / 10 ^ 18 + 1 := by
  obtain ⟨aOut, aIn, wr, y, pw, q, hc, _, ht, hq⟩ := balCalcIn_ceil h
  refine ⟨aOut, aIn, wr, y, pw, q, hc, ?_, ?_⟩
  · have := Int.le_ceil (dv q); rw [← ht] at this
    have := (abs_le.mp hq).1; unfold quoErr at this; linarith
  · have := Int.ceil_lt_add_one (dv q); rw [← ht] at this
    have := (abs_le.mp hq).2; unfold quoErr at this; linarith

/-- FULL. `SwapInAmtGivenOut` through the pool update. -/
theorem swap_in_pool_update {p p' : BalPool} {dIn dOut : String} {amt spread tin : Int}
    (h : balSwapIn p [(dOut, amt)] dIn spread = .ok (tin, p')) :
    ∃ aOut aIn wr y pw q, SwapInCall p dIn dOut amt spread aOut aIn wr y pw q ∧ 0 < tin ∧ tin = ⌈dv q⌉ ∧
      |dv q - (dv pw - 1) * (aIn.amount : ℝ) / (1 - dv spread)| ≤ quoErr ∧ dIn ≠ dOut ∧ amt ≤ aOut.amount ∧
      findAsset p'.assets dIn = some { aIn with amount := writtenAmount aIn.amount (aIn.amount + tin) } ∧
      findAsset p'.assets dOut = some { aOut with amount := writtenAmount aOut.amount (aOut.amount - amt) } ∧
      (∀ d, d ≠ dIn → d ≠ dOut → findAsset p'.assets d = findAsset p.assets d) ∧
      p'.totalWeight = p.totalWeight ∧ p'.totalShares = p.totalShares :=
  balSwapIn_update h

/-- FULL. `calcSingleAssetJoin` (base `(A + amt·feeRatio)/A`, exponent the normalized weight): the shares minted are
`S·(pw/10^18 − 1)` TRUNCATED toward zero — its floor whenever it is non-negative; never more than
`max(S·(p − 1), 0)`, more than `S·(p − 1) − 1`. -/
theorem single_join_shares_trunc {p : BalPool} {denom : String} {amt spread T t : Int} {asset : BalAsset}
    (h : balCalcSingleAssetJoin p denom amt spread asset T = .ok t) :
    ∃ nw fr y pw, JoinCall p amt spread asset nw fr y pw ∧ IsTrunc ((pw - P18) * T) P18 t ∧
      (T : ℝ) * (dv pw - 1) - 1 < t ∧ (t : ℝ) ≤ max ((T : ℝ) * (dv pw - 1)) 0 ∧
      (0 ≤ (pw - P18) * T → t = ⌊(T : ℝ) * (dv pw - 1)⌋) :=
  balCalcSingleAssetJoin_real h

/-- FULL. `CalcTokenInShareAmountOut` (base `(S + sharesOut)/S`, exponent `1/nw`): the tokens charged are EXACTLY
`⌈q/10^18⌉`, `q/10^18` within `quoErr` of `(pw/10^18 − 1)·reserve/feeRatio`. -/
theorem token_in_share_out_ceil {p : BalPool} {denom : String} {sharesOut spread t : Int}
    (h : balTokenInShareOut p denom sharesOut spread = .ok t) :
    ∃ a nw wr y pw fr q, ShareOutCall p denom sharesOut spread a nw wr y pw fr q ∧ 0 < t ∧ t = ⌈dv q⌉ ∧
      |dv q - (dv pw - 1) * (a.amount : ℝ) / dv fr| ≤ quoErr :=
  balTokenInShareOut_ceil h

/-- FULL. `ExitSwapExactAmountOut` (base `(A − amtOut/feeRatio)/A`, exponent `nw`; then `/(1 − exitFee)`): the shares
burned are EXACTLY `⌊x/10^18⌋`, `x/10^18` within `quoErr` of `(1 − pw/10^18)·S/(1 − exitFee)`; the pool loses exactly
`amtOut` and exactly those shares. -/
theorem exit_swap_shares_floor {p p' : BalPool} {denom : String} {amtOut maxShares s : Int}
    (h : balExitSwapOut p denom amtOut maxShares = .ok (s, p')) :
    ∃ a nw fr outFee y pw x, ExitCall p denom amtOut a nw fr outFee y pw x ∧ 0 < s ∧ s ≤ maxShares ∧
      s = ⌊dv x⌋ ∧ |dv x - (1 - dv pw) * (p.totalShares : ℝ) / (1 - dv p.exitFee)| ≤ quoErr ∧
      0 ≤ amtOut ∧ amtOut ≤ a.amount ∧ s ≤ p.totalShares ∧ p'.totalShares = p.totalShares - s ∧
      findAsset p'.assets denom = some { a with amount := writtenAmount a.amount (a.amount - amtOut) } :=
  balExitSwapOut_floor h

/-- FULL, and the direction stated honestly: `TruncateInt` is in the EXITER's favour — the shares burned are AT MOST
the Dec formula's amount (`+ quoErr` for the half-even quotient) and may be up to one share (`+ quoErr`) below it. -/
theorem exit_swap_truncation_favours_exiter {p p' : BalPool} {denom : String} {amtOut maxShares s : Int}
    (h : balExitSwapOut p denom amtOut maxShares = .ok (s, p')) :
    ∃ a nw fr outFee y pw x, ExitCall p denom amtOut a nw fr outFee y pw x ∧
      (s : ℝ) ≤ (1 - dv pw) * (p.totalShares : ℝ) / (1 - dv p.exitFee) + quoErr ∧
      (1 - dv pw) * (p.totalShares : ℝ) / (1 - dv p.exitFee) - quoErr - 1 < s := by
  obtain ⟨a, nw, fr, outFee, y, pw, x, hc, _, _, hs, hx, _⟩ := balExitSwapOut_floor h
  refine ⟨a, nw, fr, outFee, y, pw, x, hc, ?_, ?_⟩
  · have := Int.floor_le (dv x); rw [← hs] at this
    have := (abs_le.mp hx).2; linarith
  · have := Int.lt_floor_add_one (dv x); rw [← hs] at this
    have := (abs_le.mp hx).1; linarith

/-! ## 2. conditional accuracy -/

/-- CONDITIONAL (a). Exact-in swap: if `Pow` is within `ε` of the real power on the base `b = y/10^18` and exponent
`e = wr/10^18` actually used, then `R_out·(1 − b^e − ε) − 1 < out ≤ R_out·(1 − b^e + ε)`. -/
theorem swap_out_of_pow_accuracy {p : BalPool} {dIn dOut : String} {amt spread t : Int}
    (h : balCalcOut p [(dIn, amt)] dOut spread = .ok t) :
    ∃ aIn aOut wr y pw, SwapOutCall p dIn dOut amt spread aIn aOut wr y pw ∧
      ∀ ε : ℝ, |dv pw - dv y ^ dv wr| ≤ ε → 0 ≤ aOut.amount →
        (aOut.amount : ℝ) * (1 - dv y ^ dv wr - ε) - 1 < t ∧
        (t : ℝ) ≤ (aOut.amount : ℝ) * (1 - dv y ^ dv wr + ε) := by
  obtain ⟨aIn, aOut, wr, y, pw, hc, _, ht⟩ := balCalcOut_floor h
  exact ⟨aIn, aOut, wr, y, pw, hc, fun ε hacc hR => floor_of_pow_accuracy ht hR hacc⟩

/-- FULL. The base and exponent actually used against the exact ones `B = R_in/(R_in + a·(1 − spread))`,
`E = w_in/w_out`: one `Quo` rounding each. -/
theorem swap_out_base_exponent_error {p : BalPool} {dIn dOut : String} {amt spread : Int} {aIn aOut : BalAsset}
    {wr y pw : Int} (hc : SwapOutCall p dIn dOut amt spread aIn aOut wr y pw) :
    |dv y - outBase aIn.amount amt spread| ≤ quoErr ∧ |dv wr - wRatio aIn.weight aOut.weight| ≤ quoErr :=
  ⟨outBase_error hc.hy, wRatio_error hc.hwr⟩

/-- CONDITIONAL (a), against the EXACT constant-weighted-product formula: for a well-formed pool, bases at least
`β` and exponents at most `M`,  `|out − R_out·(1 − B^E)| ≤ R_out·(ε + powDelta β M) + 1`,
`powDelta β M = 2^M·(M + 1)·quoErr/β`. -/
theorem swap_out_vs_exact_of_pow_accuracy {p : BalPool} {dIn dOut : String} {amt spread t : Int}
    (h : balCalcOut p [(dIn, amt)] dOut spread = .ok t) :
    ∃ aIn aOut wr y pw, SwapOutCall p dIn dOut amt spread aIn aOut wr y pw ∧
      ∀ ε β M : ℝ, |dv pw - dv y ^ dv wr| ≤ ε →
        0 ≤ aOut.amount → 0 < aIn.amount → 0 ≤ amt → spread ≤ P18 → 0 < aIn.weight → 0 < aOut.weight →
        0 < β → β ≤ 1 → β ≤ dv y → β ≤ outBase aIn.amount amt spread →
        dv wr ≤ M → wRatio aIn.weight aOut.weight ≤ M →
        |(t : ℝ) - (aOut.amount : ℝ) * (1 - outBase aIn.amount amt spread ^ wRatio aIn.weight aOut.weight)| ≤
          (aOut.amount : ℝ) * (ε + powDelta β M) + 1 := by
  obtain ⟨aIn, aOut, wr, y, pw, hc, _, ht⟩ := balCalcOut_floor h
  exact ⟨aIn, aOut, wr, y, pw, hc, fun ε β M hacc h1 h2 h3 h4 h5 h6 h7 h8 h9 h10 h11 h12 =>
    swapOut_vs_exact hc ht hacc h1 h2 h3 h4 h5 h6 h7 h8 h9 h10 h11 h12⟩

/-- CONDITIONAL (b). Exact-out swap:
`(b^e − ε − 1)·R_in/(1 − spread) − quoErr ≤ in < (b^e + ε − 1)·R_in/(1 − spread) + quoErr + 1`. -/
theorem swap_in_of_pow_accuracy {p : BalPool} {dIn dOut : String} {amt spread t : Int}
    (h : balCalcIn p [(dOut, amt)] dIn spread = .ok t) :
    ∃ aOut aIn wr y pw q, SwapInCall p dIn dOut amt spread aOut aIn wr y pw q ∧
      ∀ ε : ℝ, |dv pw - dv y ^ dv wr| ≤ ε → 0 ≤ aIn.amount → spread < P18 →
        (dv y ^ dv wr - ε - 1) * (aIn.amount : ℝ) / (1 - dv spread) - quoErr ≤ t ∧
        (t : ℝ) < (dv y ^ dv wr + ε - 1) * (aIn.amount : ℝ) / (1 - dv spread) + quoErr + 1 := by
  obtain ⟨aOut, aIn, wr, y, pw, q, hc, _, ht, hq⟩ := balCalcIn_ceil h
  refine ⟨aOut, aIn, wr, y, pw, q, hc, fun ε hacc hR hs => ?_⟩
  have hs' : dv spread < 1 := by have := dv_lt hs; rwa [dv_P18] at this
  exact ceil_of_pow_accuracy ht hq hR hs' hacc

/-- FULL. Base and exponent of the exact-out swap against `B = R_out/(R_out − a)`, `E = w_out/w_in`. -/
theorem swap_in_base_exponent_error {p : BalPool} {dIn dOut : String} {amt spread : Int} {aIn aOut : BalAsset}
    {wr y pw q : Int} (hc : SwapInCall p dIn dOut amt spread aOut aIn wr y pw q) :
    |dv y - inBase aOut.amount amt| ≤ quoErr ∧ |dv wr - wRatio aOut.weight aIn.weight| ≤ quoErr :=
  ⟨inBase_error hc.hy, wRatio_error hc.hwr⟩

/-- CONDITIONAL (b), against the EXACT formula `R_in·(B^E − 1)/(1 − spread)`: for `2·a ≤ R_out` (so `B ≤ 2`) every base
is at least 1 and  `|in − R_in·(B^E − 1)/(1 − spread)| ≤ (ε + powDelta 1 M)·R_in/(1 − spread) + quoErr + 1`. -/
theorem swap_in_vs_exact_of_pow_accuracy {p : BalPool} {dIn dOut : String} {amt spread t : Int}
    (h : balCalcIn p [(dOut, amt)] dIn spread = .ok t) :
    ∃ aOut aIn wr y pw q, SwapInCall p dIn dOut amt spread aOut aIn wr y pw q ∧
      ∀ ε M : ℝ, |dv pw - dv y ^ dv wr| ≤ ε →
        0 ≤ aIn.amount → 0 < aOut.amount → 0 ≤ amt → 2 * amt ≤ aOut.amount → spread < P18 →
        0 < aIn.weight → 0 < aOut.weight → dv wr ≤ M → wRatio aOut.weight aIn.weight ≤ M →
        |(t : ℝ) - (inBase aOut.amount amt ^ wRatio aOut.weight aIn.weight - 1) * (aIn.amount : ℝ) / (1 - dv spread)| ≤
          (ε + powDelta 1 M) * (aIn.amount : ℝ) / (1 - dv spread) + quoErr + 1 := by
  obtain ⟨aOut, aIn, wr, y, pw, q, hc, _, ht, hq⟩ := balCalcIn_ceil h
  exact ⟨aOut, aIn, wr, y, pw, q, hc, fun ε M hacc h1 h2 h3 h4 h5 h6 h7 h8 h9 =>
    swapIn_vs_exact hc ht hq hacc h1 h2 h3 h4 h5 h6 h7 h8 h9⟩

/-- FULL (the conditional theorem with its hypothesis DISCHARGED). Equal weights: the exponent is exactly 1, `Pow`
returns its base, so `out = ⌊R_out·(1 − y/10^18)⌋` with `y` the half-even 18-decimal `R_in/(R_in + a')`,
`a' = a·(1 − spread)`; hence `|out − R_out·a'/(R_in + a')| ≤ R_out·quoErr + 1`. -/
theorem balancer_swap_out_equal_weights_exact {p : BalPool} {dIn dOut : String} {amt spread t : Int}
    (h : balCalcOut p [(dIn, amt)] dOut spread = .ok t) :
    ∃ aIn aOut y, findAsset p.assets dIn = some aIn ∧ findAsset p.assets dOut = some aOut ∧
      Dec.quo (toDec aIn.amount) (amt * (P18 - spread) + toDec aIn.amount) = some y ∧
      (aIn.weight = aOut.weight →
        pow y P18 = some y ∧ t = ⌊(aOut.amount : ℝ) * (1 - dv y)⌋ ∧
        |dv y - outBase aIn.amount amt spread| ≤ quoErr ∧
        (0 ≤ aOut.amount →
          |(t : ℝ) - (aOut.amount : ℝ) * ((amt : ℝ) * (1 - dv spread) / ((aIn.amount : ℝ) + (amt : ℝ) * (1 - dv spread)))| ≤
            (aOut.amount : ℝ) * quoErr + 1)) := by
  obtain ⟨aIn, aOut, wr, y, pw, hc, _, ht⟩ := balCalcOut_floor h
  refine ⟨aIn, aOut, y, hc.hIn, hc.hOut, hc.hy, fun hw => ?_⟩
  obtain ⟨e1, e2⟩ := equal_weights_pow hw hc.hwr hc.hpw
  subst e1; subst e2
  have hb := outBase_error hc.hy
  refine ⟨hc.hpw, ht, hb, fun hR => ?_⟩
  have hD : (aIn.amount : ℝ) + (amt : ℝ) * (1 - dv spread) ≠ 0 := by
    have := (Dec_quo_dv_error hc.hy).1
    rwa [dv_add, dv_toDec, dv_int_mul, dv_sub, dv_P18, add_comm] at this
  rw [← one_sub_outBase hD]
  have hacc : |dv pw - outBase aIn.amount amt spread| ≤ quoErr := hb
  obtain ⟨b1, b2⟩ := floor_of_pow_accuracy ht hR hacc
  exact abs_of_floor_bounds b1 b2

/-- FULL. Equal weights, exact-out: `in = ⌈q/10^18⌉`, `q` the half-even quotient of `(y − 1)·R_in` by `(1 − spread)`,
`y` the half-even `R_out/(R_out − a)`; hence
`|in − R_in·(a/(R_out − a))/(1 − spread)| ≤ quoErr·R_in/(1 − spread) + quoErr + 1`. -/
theorem balancer_swap_in_equal_weights_exact {p : BalPool} {dIn dOut : String} {amt spread t : Int}
    (h : balCalcIn p [(dOut, amt)] dIn spread = .ok t) :
    ∃ aOut aIn y q, findAsset p.assets dOut = some aOut ∧ findAsset p.assets dIn = some aIn ∧
      Dec.quo (toDec aOut.amount) (toDec aOut.amount - toDec amt) = some y ∧
      (aOut.weight = aIn.weight →
        pow y P18 = some y ∧ Dec.quo ((y - P18) * aIn.amount) (P18 - spread) = some q ∧ t = ⌈dv q⌉ ∧
        (0 ≤ aIn.amount → spread < P18 →
          |(t : ℝ) - ((amt : ℝ) / ((aOut.amount : ℝ) - (amt : ℝ))) * (aIn.amount : ℝ) / (1 - dv spread)| ≤
            quoErr * (aIn.amount : ℝ) / (1 - dv spread) + quoErr + 1)) := by
  obtain ⟨aOut, aIn, wr, y, pw, q, hc, _, ht, hq⟩ := balCalcIn_ceil h
  refine ⟨aOut, aIn, y, q, hc.hOut, hc.hIn, hc.hy, fun hw => ?_⟩
  obtain ⟨e1, e2⟩ := equal_weights_pow hw hc.hwr hc.hpw
  subst e1; subst e2
  refine ⟨hc.hpw, hc.hq, ht, fun hR hs => ?_⟩
  have hs' : dv spread < 1 := by have := dv_lt hs; rwa [dv_P18] at this
  have hb : |dv pw - inBase aOut.amount amt| ≤ quoErr := inBase_error hc.hy
  obtain ⟨b1, b2⟩ := ceil_of_pow_accuracy ht hq hR hs' hb
  have hD : (aOut.amount : ℝ) - (amt : ℝ) ≠ 0 := by
    have := (Dec_quo_dv_error hc.hy).1
    rwa [dv_sub, dv_toDec, dv_toDec] at this
  have e : inBase aOut.amount amt - 1 = (amt : ℝ) / ((aOut.amount : ℝ) - (amt : ℝ)) := by
    unfold inBase; field_simp; ring
  have hd : 0 < 1 - dv spread := by linarith
  generalize inBase aOut.amount amt = B at *
  rw [← e]
  have e1 : (B - quoErr - 1) * (aIn.amount : ℝ) / (1 - dv spread) =
      (B - 1) * (aIn.amount : ℝ) / (1 - dv spread) - quoErr * (aIn.amount : ℝ) / (1 - dv spread) := by ring
  have e2 : (B + quoErr - 1) * (aIn.amount : ℝ) / (1 - dv spread) =
      (B - 1) * (aIn.amount : ℝ) / (1 - dv spread) + quoErr * (aIn.amount : ℝ) / (1 - dv spread) := by ring
  rw [e1] at b1; rw [e2] at b2
  rw [abs_le]; constructor <;> linarith

/-- CONDITIONAL (c). Single-asset join, `b = y/10^18 ≈ (A + amt·feeRatio)/A`, `e = nw/10^18`:
`S·(b^e − ε − 1) − 1 < shares ≤ max(S·(b^e + ε − 1), 0)`. -/
theorem single_join_of_pow_accuracy {p : BalPool} {denom : String} {amt spread T t : Int} {asset : BalAsset}
    (h : balCalcSingleAssetJoin p denom amt spread asset T = .ok t) :
    ∃ nw fr y pw, JoinCall p amt spread asset nw fr y pw ∧
      ∀ ε : ℝ, |dv pw - dv y ^ dv nw| ≤ ε → 0 ≤ T →
        (T : ℝ) * (dv y ^ dv nw - ε - 1) - 1 < t ∧ (t : ℝ) ≤ max ((T : ℝ) * (dv y ^ dv nw + ε - 1)) 0 := by
  obtain ⟨nw, fr, y, pw, hc, ht⟩ := balCalcSingleAssetJoin_spec h
  exact ⟨nw, fr, y, pw, hc, fun ε hacc hT => trunc_of_pow_accuracy ht hT hacc⟩

/-- CONDITIONAL (d). Shares out → token in, `b ≈ (S + sharesOut)/S`, `e = wr/10^18 ≈ 1/nw`, `f = feeRatio`:
`(b^e − ε − 1)·A/f − quoErr ≤ tokenIn < (b^e + ε − 1)·A/f + quoErr + 1`. -/
theorem token_in_share_out_of_pow_accuracy {p : BalPool} {denom : String} {sharesOut spread t : Int}
    (h : balTokenInShareOut p denom sharesOut spread = .ok t) :
    ∃ a nw wr y pw fr q, ShareOutCall p denom sharesOut spread a nw wr y pw fr q ∧
      ∀ ε : ℝ, |dv pw - dv y ^ dv wr| ≤ ε → 0 ≤ a.amount → 0 < fr →
        (dv y ^ dv wr - ε - 1) * (a.amount : ℝ) / dv fr - quoErr ≤ t ∧
        (t : ℝ) < (dv y ^ dv wr + ε - 1) * (a.amount : ℝ) / dv fr + quoErr + 1 := by
  obtain ⟨a, nw, wr, y, pw, fr, q, hc, _, ht, hq⟩ := balTokenInShareOut_ceil h
  exact ⟨a, nw, wr, y, pw, fr, q, hc, fun ε hacc hA hfr => ceil_quo_of_pow_accuracy ht hq hA (dv_pos hfr) hacc⟩

/-- CONDITIONAL (e). Single-asset exit, `b ≈ (A − amtOut/feeRatio)/A`, `e = nw/10^18`:
`(1 − b^e − ε)·S/(1 − exitFee) − quoErr − 1 < sharesBurned ≤ (1 − b^e + ε)·S/(1 − exitFee) + quoErr`.
(The `− 1` is the truncation in the exiter's favour; for bases below 0.5 the hypothesis fails — F9 — and the exiter
burns too few shares: finding F22.) -/
theorem exit_swap_of_pow_accuracy {p p' : BalPool} {denom : String} {amtOut maxShares s : Int}
    (h : balExitSwapOut p denom amtOut maxShares = .ok (s, p')) :
    ∃ a nw fr outFee y pw x, ExitCall p denom amtOut a nw fr outFee y pw x ∧
      ∀ ε : ℝ, |dv pw - dv y ^ dv nw| ≤ ε → 0 ≤ p.totalShares → p.exitFee < P18 →
        (1 - dv y ^ dv nw - ε) * (p.totalShares : ℝ) / (1 - dv p.exitFee) - quoErr - 1 < s ∧
        (s : ℝ) ≤ (1 - dv y ^ dv nw + ε) * (p.totalShares : ℝ) / (1 - dv p.exitFee) + quoErr := by
  obtain ⟨a, nw, fr, outFee, y, pw, x, hc, _, _, hs, hx, _⟩ := balExitSwapOut_floor h
  refine ⟨a, nw, fr, outFee, y, pw, x, hc, fun ε hacc hS hef => ?_⟩
  have hd : 0 < 1 - dv p.exitFee := by have := dv_lt hef; rw [dv_P18] at this; linarith
  exact floor_quo_of_pow_accuracy hs hx hS hd hacc

/-! ## 2'. single-asset join / exit against the EXACT formulas -/

/-- FULL. Join: base and exponent used against `B = (A + amt·F)/A`, `F = 1 − (1 − W)·spread`, `W = w/W_total`. -/
theorem single_join_base_exponent_error {p : BalPool} {amt spread : Int} {asset : BalAsset} {nw fr y pw : Int}
    (hc : JoinCall p amt spread asset nw fr y pw) (hA : 0 < asset.amount) (ha : 0 ≤ amt)
    (s0 : 0 ≤ spread) (s1 : spread ≤ P18) :
    |dv y - joinBase asset.amount amt asset.weight p.totalWeight spread| ≤
      quoErr + (amt : ℝ) / (asset.amount : ℝ) * (mulErr + quoErr) ∧
    |dv nw - wRatio asset.weight p.totalWeight| ≤ quoErr :=
  ⟨joinBase_error hc hA ha s0 s1, wRatio_error hc.hnw⟩

/-- CONDITIONAL (c), against the EXACT formula `S·(B^W − 1)`: with `δ = 2·(κ + quoErr)`,
`κ = quoErr + (amt/A)·(mulErr + quoErr)` (bases in `[1, 2]`, exponents in `[0, 1]`):
`S·(B^W − ε − δ − 1) − 1 < shares ≤ max(S·(B^W + ε + δ − 1), 0)`. -/
theorem single_join_vs_exact_of_pow_accuracy {p : BalPool} {denom : String} {amt spread T t : Int} {asset : BalAsset}
    (h : balCalcSingleAssetJoin p denom amt spread asset T = .ok t) :
    ∃ nw fr y pw, JoinCall p amt spread asset nw fr y pw ∧
      ∀ ε : ℝ, |dv pw - dv y ^ dv nw| ≤ ε →
        0 < asset.amount → 0 ≤ amt → 0 ≤ spread → spread ≤ P18 → 0 ≤ asset.weight → asset.weight ≤ p.totalWeight →
        0 < p.totalWeight → 0 ≤ T → joinBase asset.amount amt asset.weight p.totalWeight spread ≤ 2 →
        let X := joinBase asset.amount amt asset.weight p.totalWeight spread ^ wRatio asset.weight p.totalWeight
        let δ := 2 * (quoErr + (amt : ℝ) / (asset.amount : ℝ) * (mulErr + quoErr) + quoErr)
        (T : ℝ) * (X - (ε + δ) - 1) - 1 < t ∧ (t : ℝ) ≤ max ((T : ℝ) * (X + (ε + δ) - 1)) 0 := by
  obtain ⟨nw, fr, y, pw, hc, ht⟩ := balCalcSingleAssetJoin_spec h
  exact ⟨nw, fr, y, pw, hc, fun ε hacc h1 h2 h3 h4 h5 h6 h7 h8 h9 =>
    join_vs_exact hc ht hacc h1 h2 h3 h4 h5 h6 h7 h8 h9⟩

/-- FULL. Shares out → token in: base against `(S + sharesOut)/S`, exponent against `1/W` (normalized weights ≥ ω). -/
theorem token_in_share_out_base_exponent_error {p : BalPool} {denom : String} {so spread : Int} {a : BalAsset}
    {nw wr y pw fr q : Int} (hc : ShareOutCall p denom so spread a nw wr y pw fr q)
    {ω : ℝ} (hω : 0 < ω) (h1 : ω ≤ dv nw) (h2 : ω ≤ wRatio a.weight p.totalWeight) :
    |dv y - ((p.totalShares : ℝ) + (so : ℝ)) / (p.totalShares : ℝ)| ≤ quoErr ∧
    |dv wr - 1 / wRatio a.weight p.totalWeight| ≤ quoErr * (1 + 1 / (ω * ω)) :=
  shareOut_base_exponent_error hc hω h1 h2

/-- CONDITIONAL (e), against the EXACT formula `S·(1 − B^W)/(1 − exitFee)`, `B = (A − out/F)/A`: for `feeRatio` values
at least `φ` and bases at least `β`, with `δ = 2·(κ + quoErr)/β`, `κ = quoErr + (quoErr + out·(mulErr + quoErr)/φ²)/A`:
`(1 − B^W − ε − δ)·S/(1 − exitFee) − quoErr − 1 < sharesBurned ≤ (1 − B^W + ε + δ)·S/(1 − exitFee) + quoErr`. -/
theorem exit_swap_vs_exact_of_pow_accuracy {p p' : BalPool} {denom : String} {amtOut maxShares s : Int}
    (h : balExitSwapOut p denom amtOut maxShares = .ok (s, p')) :
    ∃ a nw fr outFee y pw x, ExitCall p denom amtOut a nw fr outFee y pw x ∧
      ∀ ε β φ : ℝ, |dv pw - dv y ^ dv nw| ≤ ε →
        0 < a.amount → 0 ≤ p.swapFee → p.swapFee ≤ P18 → p.exitFee < P18 →
        0 ≤ a.weight → a.weight ≤ p.totalWeight → 0 < p.totalWeight → 0 ≤ p.totalShares →
        0 < φ → φ ≤ dv fr → φ ≤ feeRatioExact (wRatio a.weight p.totalWeight) (dv p.swapFee) →
        0 < β → β ≤ 1 → β ≤ dv y → β ≤ exitBase a.amount amtOut a.weight p.totalWeight p.swapFee →
        let X := exitBase a.amount amtOut a.weight p.totalWeight p.swapFee ^ wRatio a.weight p.totalWeight
        let δ := 2 * (quoErr + (quoErr + (amtOut : ℝ) * (mulErr + quoErr) / (φ * φ)) / (a.amount : ℝ) + quoErr) / β
        (1 - X - (ε + δ)) * (p.totalShares : ℝ) / (1 - dv p.exitFee) - quoErr - 1 < s ∧
          (s : ℝ) ≤ (1 - X + (ε + δ)) * (p.totalShares : ℝ) / (1 - dv p.exitFee) + quoErr := by
  obtain ⟨a, nw, fr, outFee, y, pw, x, hc, _, _, hs, hx, ho0, _⟩ := balExitSwapOut_floor h
  exact ⟨a, nw, fr, outFee, y, pw, x, hc, fun ε β φ hacc h1 h2 h3 h4 h5 h6 h7 h8 h9 h10 h11 h12 h13 h14 h15 =>
    exit_vs_exact hc hs hx hacc h1 ho0 h2 h3 h4 h5 h6 h7 h8 h9 h10 h11 h12 h13 h14 h15⟩

/-! ## 3. the weighted product -/

/-- CONDITIONAL. After an exact-in swap (`R_in' = R_in + a`, `R_out' = R_out − out`; every other reserve and all
weights untouched, `swap_out_pool_update`), for ANY `W > 0` (the total weight):
`(R_in'/R_in)^(w_in/W)·(R_out'/R_out)^(w_out/W) ≥ ((b^e − ε)/B^E)^(w_out/W)` — that is `V'/V` for
`V = Π Rᵢ^(wᵢ/W)`; `B`, `E` the exact base and exponent.  With an exact `Pow` (ε = 0, b^e = B^E) the bound is 1: the
weighted product never falls. -/
theorem swap_out_weighted_product_of_pow_accuracy {p p' : BalPool} {dIn dOut : String} {amt spread out : Int}
    (h : balSwapOut p [(dIn, amt)] dOut spread = .ok (out, p')) :
    ∃ aIn aOut wr y pw aIn' aOut', SwapOutCall p dIn dOut amt spread aIn aOut wr y pw ∧
      findAsset p'.assets dIn = some aIn' ∧ findAsset p'.assets dOut = some aOut' ∧
      aIn'.weight = aIn.weight ∧ aOut'.weight = aOut.weight ∧
      ∀ ε W : ℝ, |dv pw - dv y ^ dv wr| ≤ ε → 0 ≤ dv y ^ dv wr - ε →
        0 < aIn.amount → 0 < aOut.amount → 0 ≤ amt → 0 ≤ spread → spread ≤ P18 →
        0 < aIn.weight → 0 < aOut.weight → 0 < W →
        ((dv y ^ dv wr - ε) / outBase aIn.amount amt spread ^ wRatio aIn.weight aOut.weight) ^ ((aOut.weight : ℝ) / W) ≤
          ((aIn'.amount : ℝ) / aIn.amount) ^ ((aIn.weight : ℝ) / W) *
          ((aOut'.amount : ℝ) / aOut.amount) ^ ((aOut.weight : ℝ) / W) := by
  obtain ⟨aIn, aOut, wr, y, pw, hc, _, _, _, _, g1, g2, g3, _⟩ := balSwapOut_update h
  refine ⟨aIn, aOut, wr, y, pw, _, _, hc, g1, g2, rfl, rfl, ?_⟩
  intro ε W hacc hX hRi hRo ha hs0 hs1 hwi hwo hW
  simp only []
  have hRi' : (0 : ℝ) < aIn.amount := by exact_mod_cast hRi
  have hRo' : (0 : ℝ) < aOut.amount := by exact_mod_cast hRo
  have hwi' : (0 : ℝ) < aIn.weight := by exact_mod_cast hwi
  have hwo' : (0 : ℝ) < aOut.weight := by exact_mod_cast hwo
  have hB := (outBase_pos_le_one hRi ha hs1).1
  have hw : writtenAmount aIn.amount (aIn.amount + amt) = aIn.amount + amt := by
    unfold writtenAmount; rw [if_neg (by omega)]
  rw [hw]
  have r1 := inv_outBase_le_ratio (spread := spread) hRi ha hs0
  have r2 : dv y ^ dv wr - ε ≤ ((writtenAmount aOut.amount (aOut.amount - out) : Int) : ℝ) / aOut.amount := by
    rw [le_div_iff₀ hRo']
    have := (abs_le.mp hacc).1
    nlinarith
  exact weighted_product_lower hB hX hwi' hwo' hW r1 r2

/-- CONDITIONAL. After an exact-out swap (`R_in' = R_in + ⌈·⌉`, `R_out' = R_out − a`), for ANY `W > 0`:
`(R_in'/R_in)^(w_in/W)·(R_out'/R_out)^(w_out/W) ≥ ((b^e − ε − quoErr/R_in)/B^E)^(w_in/W)`, `B = R_out/(R_out − a)`,
`E = w_out/w_in` exact (`R_out'/R_out = 1/B` exactly; the ceiling and the spread factor only help; `quoErr/R_in` is
the half-even quotient by `1 − spread`). -/
theorem swap_in_weighted_product_of_pow_accuracy {p p' : BalPool} {dIn dOut : String} {amt spread tin : Int}
    (h : balSwapIn p [(dOut, amt)] dIn spread = .ok (tin, p')) :
    ∃ aOut aIn wr y pw q aIn' aOut', SwapInCall p dIn dOut amt spread aOut aIn wr y pw q ∧
      findAsset p'.assets dIn = some aIn' ∧ findAsset p'.assets dOut = some aOut' ∧
      aIn'.weight = aIn.weight ∧ aOut'.weight = aOut.weight ∧
      ∀ ε W : ℝ, |dv pw - dv y ^ dv wr| ≤ ε → 0 ≤ dv y ^ dv wr - ε - quoErr / (aIn.amount : ℝ) →
        0 < aIn.amount → 0 < aOut.amount → amt < aOut.amount → 0 ≤ spread → spread < P18 →
        0 < aIn.weight → 0 < aOut.weight → 0 < W →
        ((dv y ^ dv wr - ε - quoErr / (aIn.amount : ℝ)) /
            inBase aOut.amount amt ^ wRatio aOut.weight aIn.weight) ^ ((aIn.weight : ℝ) / W) ≤
          ((aIn'.amount : ℝ) / aIn.amount) ^ ((aIn.weight : ℝ) / W) *
          ((aOut'.amount : ℝ) / aOut.amount) ^ ((aOut.weight : ℝ) / W) := by
  obtain ⟨aOut, aIn, wr, y, pw, q, hc, ht0, ht, hq, _, _, g1, g2, _⟩ := balSwapIn_update h
  refine ⟨aOut, aIn, wr, y, pw, q, _, _, hc, g1, g2, rfl, rfl, ?_⟩
  intro ε W hacc hX hRi hRo ha hs0 hs1 hwi hwo hW
  simp only []
  have hwi' : (0 : ℝ) < aIn.weight := by exact_mod_cast hwi
  have hwo' : (0 : ℝ) < aOut.weight := by exact_mod_cast hwo
  have hw1 : writtenAmount aIn.amount (aIn.amount + tin) = aIn.amount + tin := by
    unfold writtenAmount; rw [if_neg (by omega)]
  have hw2 : writtenAmount aOut.amount (aOut.amount - amt) = aOut.amount - amt := by
    unfold writtenAmount; rw [if_neg (by omega)]
  rw [hw1, hw2]
  have hs0' : 0 ≤ dv spread := dv_nonneg hs0
  have hs1' : dv spread < 1 := by have := dv_lt hs1; rwa [dv_P18] at this
  have r1 := swapIn_reserve_ratio ht hq hRi ht0 hs0' hs1' hacc
  have r2 : (inBase aOut.amount amt)⁻¹ ≤ ((aOut.amount - amt : Int) : ℝ) / (aOut.amount : ℝ) := le_of_eq inv_inBase
  have := weighted_product_lower (inBase_pos ha hRo) hX hwo' hwi' hW r2 r1
  rw [mul_comm] at this
  exact this

/-- FULL. Equal weights `w` (any total weight `W`; the accuracy hypothesis is discharged by `Pow(y,1) = y`): after an
exact-in swap the two-reserve factor of the weighted product falls by at most the ONE `Quo` rounding of the base:
`(R_in'/R_in)^(w/W)·(R_out'/R_out)^(w/W) ≥ (1 − quoErr/B)^(w/W)`, `B = R_in/(R_in + a(1 − spread))`. -/
theorem swap_out_weighted_product_equal_weights {p p' : BalPool} {dIn dOut : String} {amt spread out : Int}
    (h : balSwapOut p [(dIn, amt)] dOut spread = .ok (out, p')) :
    ∃ aIn aOut aIn' aOut', findAsset p.assets dIn = some aIn ∧ findAsset p.assets dOut = some aOut ∧
      findAsset p'.assets dIn = some aIn' ∧ findAsset p'.assets dOut = some aOut' ∧
      aIn'.weight = aIn.weight ∧ aOut'.weight = aOut.weight ∧
      ∀ W : ℝ, aIn.weight = aOut.weight → 0 < aIn.amount → 0 < aOut.amount → 0 ≤ amt → 0 ≤ spread → spread ≤ P18 →
        0 < aIn.weight → 0 < W → quoErr ≤ outBase aIn.amount amt spread →
        (1 - quoErr / outBase aIn.amount amt spread) ^ ((aOut.weight : ℝ) / W) ≤
          ((aIn'.amount : ℝ) / aIn.amount) ^ ((aIn.weight : ℝ) / W) *
          ((aOut'.amount : ℝ) / aOut.amount) ^ ((aOut.weight : ℝ) / W) := by
  obtain ⟨aIn, aOut, wr, y, pw, aIn', aOut', hc, g1, g2, w1, w2, hmain⟩ :=
    swap_out_weighted_product_of_pow_accuracy h
  refine ⟨aIn, aOut, aIn', aOut', hc.hIn, hc.hOut, g1, g2, w1, w2, ?_⟩
  intro W hw hRi hRo ha hs0 hs1 hwi hW hq
  obtain ⟨e1, e2⟩ := equal_weights_pow hw hc.hwr hc.hpw
  subst e1; subst e2
  have hb := outBase_error hc.hy
  obtain ⟨hB0, _⟩ := outBase_pos_le_one hRi ha hs1
  have hpw0 : 0 ≤ dv pw := (pow_base_dv hc.hpw).1.le
  have hm := hmain 0 W (by rw [rpow_dv_P18, sub_self, abs_zero]) (by rw [rpow_dv_P18, sub_zero]; exact hpw0)
    hRi hRo ha hs0 hs1 hwi (hw ▸ hwi) hW
  rw [rpow_dv_P18, sub_zero] at hm
  have hE : wRatio aIn.weight aOut.weight = 1 := by
    unfold wRatio; rw [hw]
    have : (0 : ℝ) < aOut.weight := by exact_mod_cast (hw ▸ hwi)
    field_simp
  rw [hE, Real.rpow_one] at hm
  refine le_trans ?_ hm
  have hwo' : (0 : ℝ) < aOut.weight := by exact_mod_cast (hw ▸ hwi)
  apply Real.rpow_le_rpow
  · rw [sub_nonneg, div_le_one hB0]; exact hq
  · rw [le_div_iff₀ hB0]
    have := (abs_le.mp hb).1
    have : (1 - quoErr / outBase aIn.amount amt spread) * outBase aIn.amount amt spread =
        outBase aIn.amount amt spread - quoErr := by field_simp
    linarith
  · positivity

/-- CONDITIONAL. Single-asset `JoinPool` (`A' = A + amt`, `S' = S + shares`, everything else untouched): for ANY
`ω ≥ 0` (read: the exact normalized weight `w/W`, so that the left side is `(V'/S')/(V/S)` for `V = Π Rᵢ^(wᵢ/W)`):
`(A'/A)^ω / (S'/S) ≥ (b − quoErr)^ω / (b^e + ε)`; `b` the base used (at most the true ratio `A'/A` plus one `Quo`
rounding — the fee stays in the pool), `e = nw/10^18` the rounded normalized weight.  With an exact `Pow` and no
rounding the bound is 1. -/
theorem single_join_product_per_share_of_pow_accuracy {p p' : BalPool} {d : String} {amt spread s : Int}
    (h : balJoin p [(d, amt)] spread = .ok (s, p')) :
    ∃ asset asset' nw fr y pw, findAsset p.assets d = some asset ∧ JoinCall p amt spread asset nw fr y pw ∧
      balCalcSingleAssetJoin p d amt spread asset p.totalShares = .ok s ∧
      findAsset p'.assets d = some asset' ∧ asset'.weight = asset.weight ∧ asset'.amount = asset.amount + amt ∧
      p'.totalShares = p.totalShares + s ∧ p'.totalWeight = p.totalWeight ∧
      (∀ d' a, d' ≠ d → findAsset p.assets d' = some a → findAsset p'.assets d' = some a) ∧
      ∀ ε ω : ℝ, |dv pw - dv y ^ dv nw| ≤ ε →
        0 < asset.amount → 0 ≤ amt → 0 ≤ spread → spread ≤ P18 → 0 ≤ asset.weight → asset.weight ≤ p.totalWeight →
        0 < p.totalWeight → 0 < p.totalShares → 0 < p'.totalShares → 0 ≤ ω →
        (dv y - quoErr) ^ ω / (dv y ^ dv nw + ε) ≤
          ((asset'.amount : ℝ) / asset.amount) ^ ω / ((p'.totalShares : ℝ) / p.totalShares) := by
  obtain ⟨asset, hf, hj, g1, g2, g3, g4⟩ := balJoin_single_split h
  obtain ⟨nw, fr, y, pw, hc, ht⟩ := balCalcSingleAssetJoin_spec hj
  refine ⟨asset, _, nw, fr, y, pw, hf, hc, hj, g3, rfl, rfl, g1, g2, g4, ?_⟩
  intro ε ω hacc hA ha hs0 hs1 hw0 hw1 hW hS hS' hω
  simp only []
  have hWd : 0 < toDec p.totalWeight := Int.mul_pos hW P18_pos
  have hnw0 : 0 ≤ nw := Dec_quo_nonneg hc.hnw (Int.mul_nonneg hw0 (Int.le_of_lt P18_pos)) hWd
  have hnw1 : nw ≤ P18 := Dec_quo_le_one hc.hnw (Int.mul_le_mul_of_nonneg_right hw1 (Int.le_of_lt P18_pos)) hWd
  obtain ⟨hf0, hf1⟩ := feeRatio_range hc.hfr hnw0 hnw1 hs0 hs1
  obtain ⟨hy1, hyr⟩ := join_base_le_ratio hc.hy hA ha hf0 hf1
  have hx1 : 1 ≤ dv y ^ dv nw := Real.one_le_rpow hy1 (dv_nonneg hnw0)
  have hsr := join_share_ratio ht hS hacc hx1
  have hS0 : (0 : ℝ) < ((p.totalShares + s : Int) : ℝ) / (p.totalShares : ℝ) := by
    rw [g1] at hS'
    have a1 : (0 : ℝ) < ((p.totalShares + s : Int) : ℝ) := by exact_mod_cast hS'
    have a2 : (0 : ℝ) < (p.totalShares : ℝ) := by exact_mod_cast hS
    positivity
  have hlo : 0 ≤ dv y - quoErr := by
    have : quoErr ≤ 1 := by unfold quoErr; norm_num
    linarith
  rw [g1]
  exact per_share_lower hlo hω hyr hS0 hsr

/-- CONDITIONAL. `ExitSwapExactAmountOut` (`A' = A − amtOut`, `S' = S − sharesBurned`): for ANY `ω ≥ 0` (read `w/W`):
`(A'/A)^ω / (S'/S) ≥ (b − quoErr·(1 + 1/A))^ω / (b^e + ε + (1 + quoErr)/S)`.
The `1/S` is the share truncated in the exiter's favour: even with an exact `Pow` the product per share may fall by
that relative amount.  For bases below 0.5 the hypothesis fails (F9) and the loss is real: finding F22. -/
theorem exit_swap_product_per_share_of_pow_accuracy {p p' : BalPool} {denom : String} {amtOut maxShares s : Int}
    (h : balExitSwapOut p denom amtOut maxShares = .ok (s, p')) :
    ∃ a a' nw fr outFee y pw x, ExitCall p denom amtOut a nw fr outFee y pw x ∧
      findAsset p'.assets denom = some a' ∧ a'.weight = a.weight ∧
      a'.amount = writtenAmount a.amount (a.amount - amtOut) ∧ p'.totalShares = p.totalShares - s ∧
      ∀ ε ω : ℝ, |dv pw - dv y ^ dv nw| ≤ ε →
        0 < a.amount → 0 ≤ p.swapFee → p.swapFee ≤ P18 → 0 ≤ p.exitFee → p.exitFee < P18 →
        0 ≤ a.weight → a.weight ≤ p.totalWeight → 0 < p.totalWeight → 0 < p'.totalShares → 0 ≤ ω →
        0 ≤ dv y - quoErr * (1 + 1 / (a.amount : ℝ)) →
        (dv y - quoErr * (1 + 1 / (a.amount : ℝ))) ^ ω / (dv y ^ dv nw + ε + (1 + quoErr) / (p.totalShares : ℝ)) ≤
          ((a'.amount : ℝ) / a.amount) ^ ω / ((p'.totalShares : ℝ) / p.totalShares) := by
  obtain ⟨a, nw, fr, outFee, y, pw, x, hc, s0, _, hs, hx, ho0, ho1, hsS, g1, g2⟩ := balExitSwapOut_floor h
  refine ⟨a, _, nw, fr, outFee, y, pw, x, hc, g2, rfl, rfl, g1, ?_⟩
  intro ε ω hacc hA hf0' hf1' he0 he1 hw0 hw1 hW hS' hω hlo
  simp only []
  have hWd : 0 < toDec p.totalWeight := Int.mul_pos hW P18_pos
  have hnw0 : 0 ≤ nw := Dec_quo_nonneg hc.hnw (Int.mul_nonneg hw0 (Int.le_of_lt P18_pos)) hWd
  have hnw1 : nw ≤ P18 := Dec_quo_le_one hc.hnw (Int.mul_le_mul_of_nonneg_right hw1 (Int.le_of_lt P18_pos)) hWd
  obtain ⟨hf0, hf1⟩ := feeRatio_range hc.hfr hnw0 hnw1 hf0' hf1'
  have hfne : fr ≠ 0 := (GammMath.Dec_quo_real_error hc.hof).1
  have hfpos : 0 < fr := by omega
  have hyr := exit_base_le_ratio hc.hof hc.hy hA ho0 hfpos hf1
  have hS : 0 < p.totalShares := by rw [g1] at hS'; omega
  have hd : 0 < 1 - dv p.exitFee := by have := dv_lt he1; rw [dv_P18] at this; linarith
  have hd1 : 1 - dv p.exitFee ≤ 1 := by have := dv_nonneg he0; linarith
  have hsr := exit_share_ratio hs hx hS hd hd1 s0 hacc
  have hA' : (0 : ℝ) < a.amount := by exact_mod_cast hA
  have hrA : ((a.amount - amtOut : Int) : ℝ) / (a.amount : ℝ) ≤
      ((writtenAmount a.amount (a.amount - amtOut) : Int) : ℝ) / (a.amount : ℝ) := by
    apply div_le_div_of_nonneg_right _ hA'.le
    have : a.amount - amtOut ≤ writtenAmount a.amount (a.amount - amtOut) := by
      unfold writtenAmount; split <;> omega
    exact_mod_cast this
  have hS0 : (0 : ℝ) < ((p.totalShares - s : Int) : ℝ) / (p.totalShares : ℝ) := by
    rw [g1] at hS'
    have a1 : (0 : ℝ) < ((p.totalShares - s : Int) : ℝ) := by exact_mod_cast hS'
    have a2 : (0 : ℝ) < (p.totalShares : ℝ) := by exact_mod_cast hS
    positivity
  rw [g1]
  exact per_share_lower hlo hω (le_trans hyr hrA) hS0 hsr

/-! ## non-vacuity: the hypotheses hold on concrete pools; an instance where the accuracy hypothesis is PROVED -/

/-- equal weights 1:1 (scaled by 2^30), 0.3% spread factor, no exit fee. -/
def poolE : BalPool := mkBalPool [("tka", 10 ^ 12, 1), ("tkb", 10 ^ 12, 1)] (100 * P18) (3 * 10 ^ 15) 0
/-- weights 1:3, 0.3% spread factor, 1% exit fee. -/
def poolU : BalPool := mkBalPool [("tka", 10 ^ 12, 1), ("tkb", 2 * 10 ^ 12, 3)] (100 * P18) (3 * 10 ^ 15) (10 ^ 16)
/-- weights 1:2: swapping tka for tkb uses the exponent 1/2 (`ApproxSqrt`). -/
def poolH : BalPool := mkBalPool [("tka", 10 ^ 12, 1), ("tkb", 2 * 10 ^ 12, 2)] (100 * P18) (3 * 10 ^ 15) 0

/-- the hypotheses `h` of the swap theorems (both pools, both directions, through the pool update). -/
example : balCalcOut poolE [("tka", 10 ^ 9)] "tkb" (3 * 10 ^ 15) = .ok 996006981 := by decide +kernel
example : balCalcOut poolU [("tka", 10 ^ 9)] "tkb" (3 * 10 ^ 15) = .ok 664225227 := by decide +kernel
example : balCalcIn poolE [("tkb", 10 ^ 9)] "tka" (3 * 10 ^ 15) = .ok 1004013041 := by decide +kernel
example : balCalcIn poolU [("tkb", 10 ^ 9)] "tka" (3 * 10 ^ 15) = .ok 1506019309 := by decide +kernel
example : balSwapOut poolU [("tka", 10 ^ 9)] "tkb" (3 * 10 ^ 15) =
    .ok (664225227, { poolU with assets := [⟨"tka", 10 ^ 12 + 10 ^ 9, 2 ^ 30⟩, ⟨"tkb", 2 * 10 ^ 12 - 664225227, 3 * 2 ^ 30⟩] }) := by
  decide +kernel
example : balSwapOut poolE [("tka", 10 ^ 9)] "tkb" (3 * 10 ^ 15) =
    .ok (996006981, { poolE with assets := [⟨"tka", 10 ^ 12 + 10 ^ 9, 2 ^ 30⟩, ⟨"tkb", 10 ^ 12 - 996006981, 2 ^ 30⟩] }) := by
  decide +kernel
example : balSwapIn poolU [("tkb", 10 ^ 9)] "tka" (3 * 10 ^ 15) =
    .ok (1506019309, { poolU with assets := [⟨"tka", 10 ^ 12 + 1506019309, 2 ^ 30⟩, ⟨"tkb", 2 * 10 ^ 12 - 10 ^ 9, 3 * 2 ^ 30⟩] }) := by
  decide +kernel

/-- … of the single-asset theorems. -/
example : balCalcSingleAssetJoin poolU "tka" (10 ^ 9) (3 * 10 ^ 15) ⟨"tka", 10 ^ 12, 2 ^ 30⟩ (100 * P18) =
    .ok 24934422571957900 := by decide +kernel
example : balCalcSingleAssetJoin poolE "tka" (10 ^ 9) (3 * 10 ^ 15) ⟨"tka", 10 ^ 12, 2 ^ 30⟩ (100 * P18) =
    .ok 49912543689912000 := by decide +kernel
example : balJoin poolU [("tka", 10 ^ 9)] (3 * 10 ^ 15) =
    .ok (24934422571957900, { poolU with assets := [⟨"tka", 10 ^ 12 + 10 ^ 9, 2 ^ 30⟩, ⟨"tkb", 2 * 10 ^ 12, 3 * 2 ^ 30⟩],
                                          totalShares := 100 * P18 + 24934422571957900 }) := by decide +kernel
example : balTokenInShareOut poolU "tka" P18 (3 * 10 ^ 15) = .ok 40695575044 := by decide +kernel
example : balTokenInShareOut poolE "tka" P18 (3 * 10 ^ 15) = .ok 20130195293 := by decide +kernel
example : balExitSwapOut poolU "tka" (10 ^ 9) (100 * P18) =
    .ok (25318989579848282, { poolU with assets := [⟨"tka", 10 ^ 12 - 10 ^ 9, 2 ^ 30⟩, ⟨"tkb", 2 * 10 ^ 12, 3 * 2 ^ 30⟩],
                                          totalShares := 100 * P18 - 25318989579848282 }) := by decide +kernel
example : (balExitSwapOut poolE "tka" (10 ^ 9) (100 * P18)).map (·.1) = .ok 50087656535689700 := by decide +kernel

/-- WITNESS of the direction of `ExitSwapExactAmountOut`'s `TruncateInt`: the Dec share amount is
25318989579848282.828…, the exiter burns 25318989579848282 — strictly fewer (by 0.83 of a share unit). -/
theorem exit_swap_truncates_witness :
    sharesInGivenSingleOut (toDec (10 ^ 12)) 250000000000000000 (toDec (100 * P18)) (toDec (10 ^ 9)) (3 * 10 ^ 15) (10 ^ 16) =
      some 25318989579848282828282828282828283 ∧
    (balExitSwapOut poolU "tka" (10 ^ 9) (100 * P18)).map (·.1) = .ok 25318989579848282 ∧
    25318989579848282 * P18 < 25318989579848282828282828282828283 := by decide +kernel

/-- the `Pow` call of the exact-in swap of 10^9 tka on the 1:2 pool: exponent exactly 1/2. -/
theorem poolH_call : SwapOutCall poolH "tka" "tkb" (10 ^ 9) (3 * 10 ^ 15) ⟨"tka", 10 ^ 12, 2 ^ 30⟩
    ⟨"tkb", 2 * 10 ^ 12, 2 * 2 ^ 30⟩ 500000000000000000 999003993018960097 999501872443949000 :=
  ⟨by decide +kernel, by decide +kernel, by decide +kernel, by decide +kernel, by decide +kernel⟩

/-- the accuracy hypothesis PROVED on that call with `ε = 10^-18`: `√0.999003993018960097 = 0.99950187244394899982…`,
`Pow` returned `0.999501872443949000`. -/
theorem poolH_pow_accuracy :
    |dv 999501872443949000 - dv 999003993018960097 ^ dv 500000000000000000| ≤ 1 / 10 ^ 18 := by
  have e : dv 500000000000000000 = 1 / 2 := by unfold dv; norm_num
  rw [e, ← Real.sqrt_eq_rpow]
  unfold dv
  have h1 : √(((999003993018960097 : Int) : ℝ) / 10 ^ 18) ≤ ((999501872443949000 : Int) : ℝ) / 10 ^ 18 + 1 / 10 ^ 18 := by
    rw [Real.sqrt_le_left (by norm_num)]; norm_num
  have h2 : ((999501872443949000 : Int) : ℝ) / 10 ^ 18 - 1 / 10 ^ 18 ≤ √(((999003993018960097 : Int) : ℝ) / 10 ^ 18) := by
    rw [Real.le_sqrt' (by norm_num)]; norm_num
  rw [abs_le]
  constructor <;> linarith

/-- the conditional exact-in theorem INSTANTIATED with its hypothesis proved (ε = 10^-18). -/
example : (((2 * 10 ^ 12 : Int) : ℝ) * (1 - dv 999003993018960097 ^ dv 500000000000000000 - 1 / 10 ^ 18) - 1 <
      ((996255112 : Int) : ℝ)) ∧
    (((996255112 : Int) : ℝ) ≤ ((2 * 10 ^ 12 : Int) : ℝ) * (1 - dv 999003993018960097 ^ dv 500000000000000000 + 1 / 10 ^ 18)) := by
  obtain ⟨aIn, aOut, wr, y, pw, hc, hmain⟩ :=
    swap_out_of_pow_accuracy (show balCalcOut poolH [("tka", 10 ^ 9)] "tkb" (3 * 10 ^ 15) = .ok 996255112 by decide +kernel)
  obtain ⟨e1, e2, e3, e4, e5⟩ := hc.unique poolH_call
  subst e1; subst e2; subst e3; subst e4; subst e5
  exact hmain _ poolH_pow_accuracy (by decide)

/-- … and against the EXACT formula `R_out·(1 − B^(1/2))`, `B = R_in/(R_in + a·0.997)`, with `β = 1/2`, `M = 1`:
the error is at most `R_out·(10^-18 + powDelta (1/2) 1) + 1 < 2`. -/
example : |((996255112 : Int) : ℝ) - ((2 * 10 ^ 12 : Int) : ℝ) *
      (1 - outBase (10 ^ 12) (10 ^ 9) (3 * 10 ^ 15) ^ wRatio (2 ^ 30) (2 * 2 ^ 30))| ≤
    ((2 * 10 ^ 12 : Int) : ℝ) * (1 / 10 ^ 18 + powDelta (1 / 2) 1) + 1 := by
  obtain ⟨aIn, aOut, wr, y, pw, hc, hmain⟩ :=
    swap_out_vs_exact_of_pow_accuracy (show balCalcOut poolH [("tka", 10 ^ 9)] "tkb" (3 * 10 ^ 15) = .ok 996255112 by decide +kernel)
  obtain ⟨e1, e2, e3, e4, e5⟩ := hc.unique poolH_call
  subst e1; subst e2; subst e3; subst e4; subst e5
  have hB : (1 / 2 : ℝ) ≤ outBase (10 ^ 12) (10 ^ 9) (3 * 10 ^ 15) := by
    unfold outBase dv; norm_num
  have hE : wRatio (2 ^ 30) (2 * 2 ^ 30) ≤ 1 := by unfold wRatio; norm_num
  exact hmain _ (1 / 2) 1 poolH_pow_accuracy (by decide) (by decide) (by decide) (by decide) (by decide) (by decide)
    (by norm_num) (by norm_num) (by unfold dv; norm_num) hB (by unfold dv; norm_num) hE

/-- the equal-weight FULL corollary on `poolE`: 996006981 is within `10^12·quoErr + 1` of the exact
`R_out·a'/(R_in + a')`, `a' = 10^9·0.997`. -/
example : |((996006981 : Int) : ℝ) - ((10 ^ 12 : Int) : ℝ) *
      (((10 ^ 9 : Int) : ℝ) * (1 - dv (3 * 10 ^ 15)) / (((10 ^ 12 : Int) : ℝ) + ((10 ^ 9 : Int) : ℝ) * (1 - dv (3 * 10 ^ 15))))| ≤
    ((10 ^ 12 : Int) : ℝ) * quoErr + 1 := by
  obtain ⟨aIn, aOut, y, h1, h2, h3, hmain⟩ :=
    balancer_swap_out_equal_weights_exact (show balCalcOut poolE [("tka", 10 ^ 9)] "tkb" (3 * 10 ^ 15) = .ok 996006981 by decide +kernel)
  have e1 : aIn = ⟨"tka", 10 ^ 12, 2 ^ 30⟩ :=
    Option.some.inj (h1.symm.trans (show findAsset poolE.assets "tka" = some ⟨"tka", 10 ^ 12, 2 ^ 30⟩ by decide +kernel))
  have e2 : aOut = ⟨"tkb", 10 ^ 12, 2 ^ 30⟩ :=
    Option.some.inj (h2.symm.trans (show findAsset poolE.assets "tkb" = some ⟨"tkb", 10 ^ 12, 2 ^ 30⟩ by decide +kernel))
  subst e1; subst e2
  exact (hmain rfl).2.2.2 (by decide)

/-- the weighted-product theorem INSTANTIATED on the 1:2 pool with its accuracy hypothesis proved (ε = 10^-18,
`W` = total weight `3·2^30`). -/
example : ∃ Rin' Rout' : Int,
    ((dv 999003993018960097 ^ dv 500000000000000000 - 1 / 10 ^ 18) /
        outBase (10 ^ 12) (10 ^ 9) (3 * 10 ^ 15) ^ wRatio (2 ^ 30) (2 * 2 ^ 30)) ^ (((2 * 2 ^ 30 : Int) : ℝ) / (3 * 2 ^ 30)) ≤
      ((Rin' : ℝ) / ((10 ^ 12 : Int) : ℝ)) ^ (((2 ^ 30 : Int) : ℝ) / (3 * 2 ^ 30)) *
      ((Rout' : ℝ) / ((2 * 10 ^ 12 : Int) : ℝ)) ^ (((2 * 2 ^ 30 : Int) : ℝ) / (3 * 2 ^ 30)) := by
  obtain ⟨aIn, aOut, wr, y, pw, aIn', aOut', hc, _, _, _, _, hmain⟩ :=
    swap_out_weighted_product_of_pow_accuracy
      (show balSwapOut poolH [("tka", 10 ^ 9)] "tkb" (3 * 10 ^ 15) =
        .ok (996255112, { poolH with assets := [⟨"tka", 10 ^ 12 + 10 ^ 9, 2 ^ 30⟩, ⟨"tkb", 2 * 10 ^ 12 - 996255112, 2 * 2 ^ 30⟩] })
        by decide +kernel)
  obtain ⟨e1, e2, e3, e4, e5⟩ := hc.unique poolH_call
  subst e1; subst e2; subst e3; subst e4; subst e5
  have h0 : 0 ≤ dv 999003993018960097 ^ dv 500000000000000000 - 1 / 10 ^ 18 := by
    have := (abs_le.mp poolH_pow_accuracy).2
    have : (2 : ℝ) / 10 ^ 18 ≤ dv 999501872443949000 := by unfold dv; norm_num
    linarith
  exact ⟨aIn'.amount, aOut'.amount, hmain _ (3 * 2 ^ 30) poolH_pow_accuracy h0 (by decide) (by decide) (by decide)
    (by decide) (by decide) (by decide) (by decide) (by norm_num)⟩

end OsmoVerif.Props.C04Real
