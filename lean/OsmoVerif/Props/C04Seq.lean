/-
C04 (sequences) — NO-GAIN SEQUENCES for the EXACT part of the classic-pool math: proportional (all-asset, no-swap)
joins (`MaximalExactRatioJoin`) and proportional exits (`CalcExitPool`), shared by balancer and stableswap.

Abstract machine (`Proofs/GammSeq.lean`): LP state `(liq, total)`; `LP.join` / `LP.exit` run the MODEL functions
`maximalExactRatioJoin` + `joinedCoins` / `calcExitPool` and update `liq`, `total` as the pool models do; `St` adds per
actor the shares held and the net deposit per denom; `step`/`run` execute `Op.join actor tokensIn` /
`Op.exit actor shares` (a failed op — also an exit of more shares than held — is a no-op).

PROVED (all inputs, all sequence lengths, any actors, any exit fee 0 ≤ fee ≤ 1; the keeper only accepts fee 0):
  1. refinement: `balJoinNoSwap`/`balExit`, `ssJoinNoSwap`/`ssExit` succeed ⇒ the abstract step succeeds with the same
     result and the new liquidity / share supply ARE the abstract result (`balancer_join_refines`, …); for balancer
     also the converse up to 256-bit overflow (`balancer_join_complete`, `balancer_exit_complete`): the pool model IS the
     abstract step restricted to 256-bit results.  Stableswap exit has the additional failure branch
     `validatePoolLiquidity` (a restriction).
  2. `join_reserves_per_share_nondecreasing`, `exit_reserves_per_share_nondecreasing`, and over any op sequence
     `reserves_per_share_nondecreasing`:  R0_d · T_final ≤ R_final_d · T0  for every denom d.
  3. (a) `group_deposits_exact`: Σ_a D_a,d = R_d − R0_d exactly; `group_no_gain`: T_final = T0 ⇒ R_final_d ≥ R0_d and
         Σ_a D_a,d ≥ 0; `group_no_gain_general`: (Σ_a D_a,d)·T0 ≥ R0_d·(T_final − T0).
     (b) `single_actor_no_gain`: a single actor acting alone always has  h·R_d ≤ D_d·T  (pro-rata value of the shares it
         holds ≤ its net deposit), hence D_d ≥ 0 at all times, in particular `single_actor_join_exit_no_gain`: with no
         shares left it got back no more of ANY asset than it put in.
     (c) `interleaved_actor_gain_witness`: with another actor interleaved the per-actor claim is FALSE in this code
         (the other actor's rounding loss is shared among all LPs); the true statement is zero-sum:
         `actor_gain_le_others_loss`.
  4. `balancer_join_exit_no_gain`, `stableswap_join_exit_no_gain` (+ `…_group_no_gain`,
     `…_reserves_per_share_nondecreasing`): the same over sequences of the pool-model operations.
-/
import OsmoVerif.Proofs.GammSeqRun
import OsmoVerif.Proofs.GammSeqComplete

namespace OsmoVerif.Props.C04Seq
open OsmoVerif.GammMath OsmoVerif.GammSeq OsmoVerif.Num

/-! ## 1. the abstract step is what the pool models do -/

/-- FULL. balancer `JoinPoolNoSwap` (valid all-asset `tokensIn`): success ⇒ the abstract join succeeds with the same
shares; `balLiquidity p'`, `p'.totalShares` are the abstract result; only balances and share supply changed. -/
theorem balancer_join_refines {p p' : BalPool} {tin : Coins} {sh : Int} (hwf : BalWF p)
    (hv : validTokens (balLiquidity p) tin) (h : balJoinNoSwap p tin = .ok (sh, p')) :
    ∃ j, (balLP p).join tin = some (sh, j, ⟨balLiquidity p', p'.totalShares⟩) ∧ BalWF p' ∧ BalFrame p p' :=
  bal_join_refines hwf hv h

/-- FULL. balancer `ExitPool`. -/
theorem balancer_exit_refines {p p' : BalPool} {sh fee : Int} {cs : Coins} (hwf : BalWF p) (hfee : 0 ≤ fee ∧ fee ≤ P18)
    (hsh : 0 < sh) (h : balExit p sh fee = .ok (cs, p')) :
    (balLP p).exit fee sh = some (cs, ⟨balLiquidity p', p'.totalShares⟩) ∧ BalWF p' ∧ BalFrame p p' :=
  bal_exit_refines hwf hfee hsh h

/-- FULL. converse for balancer: abstract success + new balances and share supply within 256 bits ⇒ the pool operation
succeeds (its result is then the abstract one by `balancer_join_refines`). -/
theorem balancer_join_complete {p : BalPool} {tin j : Coins} {sh : Int} {lp' : LP} (hwf : BalWF p)
    (hne : "" ∉ p.assets.map (·.denom)) (h : (balLP p).join tin = some (sh, j, lp'))
    (hfit : ∀ a ∈ p.assets, Fits (a.amount + amountOf j a.denom)) (hfitT : Fits (p.totalShares + sh)) :
    ∃ p', balJoinNoSwap p tin = .ok (sh, p') :=
  bal_join_complete hwf hne h hfit hfitT

theorem balancer_exit_complete {p : BalPool} {fee sh : Int} {cs : Coins} {lp' : LP} (hwf : BalWF p)
    (hfee : 0 ≤ fee ∧ fee ≤ P18) (h : (balLP p).exit fee sh = some (cs, lp')) (hfitT : Fits (p.totalShares - sh)) :
    ∃ p', balExit p sh fee = .ok (cs, p') :=
  bal_exit_complete hwf hfee h hfitT

/-- FULL (one direction; `ssJoinNoSwap` fails in addition on 256-bit overflow). stableswap `JoinPoolNoSwap`. -/
theorem stableswap_join_refines {p p' : SSPool} {tin : Coins} {sh : Int} (hwf : SSWF p)
    (hv : validTokens (ssLiquidity p) tin) (h : ssJoinNoSwap p tin = .ok (sh, p')) :
    ∃ j, (ssLP p).join tin = some (sh, j, ⟨ssLiquidity p', p'.totalShares⟩) ∧ SSWF p' ∧ SSFrame p p' :=
  ss_join_refines hwf hv h

/-- FULL (one direction; `ssExit` fails in addition when `validatePoolLiquidity` rejects the new reserves). -/
theorem stableswap_exit_refines {p p' : SSPool} {sh fee : Int} {cs : Coins} (hwf : SSWF p) (hfee : 0 ≤ fee ∧ fee ≤ P18)
    (hsh : 0 < sh) (h : ssExit p sh fee = .ok (cs, p')) :
    (ssLP p).exit fee sh = some (cs, ⟨ssLiquidity p', p'.totalShares⟩) ∧ SSWF p' ∧ SSFrame p p' :=
  ss_exit_refines hwf hfee hsh h

/-! ## 2. reserves per share never decrease -/

/-- FULL. one join: for every denom, `R_d · T' ≤ R'_d · T` (i.e. `R_d/T ≤ R'_d/T'`), with `T, T' > 0`;
exactly the tokens joined enter the reserves, `shares ≥ 0` are minted. -/
theorem join_reserves_per_share_nondecreasing {s s' : LP} {tin j : Coins} {sh : Int} (hwf : s.WF)
    (h : s.join tin = some (sh, j, s')) :
    s'.WF ∧ 0 ≤ sh ∧ s'.total = s.total + sh ∧
    ∀ d, s'.res d = s.res d + amountOf j d ∧ 0 ≤ amountOf j d ∧ amountOf j d ≤ amountOf tin d ∧
      s.res d * s'.total ≤ s'.res d * s.total := by
  have f := LP.join_facts hwf h
  refine ⟨f.wf, f.shares_nonneg, f.total, fun d => ⟨f.res d, f.used_nonneg d, f.used_le d, ?_⟩⟩
  rw [f.total, f.res d, Int.mul_add, Int.add_mul]
  have := f.fair d
  rw [Int.mul_comm sh] at this
  omega

/-- FULL. one exit (any exit fee in [0, 1]). -/
theorem exit_reserves_per_share_nondecreasing {s s' : LP} {fee sh : Int} {cs : Coins} (hwf : s.WF)
    (hfee : 0 ≤ fee ∧ fee ≤ P18) (h : s.exit fee sh = some (cs, s')) :
    s'.WF ∧ 0 < sh ∧ sh < s.total ∧ s'.total = s.total - sh ∧
    ∀ d, s'.res d = s.res d - amountOf cs d ∧ 0 ≤ amountOf cs d ∧
      amountOf cs d * s.total * P18 ≤ s.res d * sh * (P18 - fee) ∧
      s.res d * s'.total ≤ s'.res d * s.total := by
  have f := LP.exit_facts hwf hfee h
  refine ⟨f.wf, f.shares_pos, f.shares_lt, f.total, fun d => ⟨f.res d, f.out_nonneg d, f.fair_fee d, ?_⟩⟩
  rw [f.total, f.res d, Int.mul_sub, Int.sub_mul]
  have := f.fair d
  omega

/-- FULL. INVARIANT over ANY finite op sequence by ANY actors: well-formedness is kept (in particular `T_final > 0`) and
for every denom `d`:  `R0_d · T_final ≤ R_final_d · T0`. -/
theorem reserves_per_share_nondecreasing {fee : Int} (hfee : 0 ≤ fee ∧ fee ≤ P18) (s : St) (hwf : s.lp.WF)
    (ops : List Op) :
    (run fee s ops).lp.WF ∧ denoms (run fee s ops).lp.liq = denoms s.lp.liq ∧
    ∀ d, s.lp.res d * (run fee s ops).lp.total ≤ (run fee s ops).lp.res d * s.lp.total :=
  ⟨run_wf hfee ops hwf, run_denoms hfee ops hwf, run_mono hfee ops hwf⟩

/-! ## 3. no gain -/

/-- the sum over a list of actors. -/
abbrev sumOver (actors : List Nat) (f : Nat → Int) : Int := (actors.map f).sum

/-- FULL. (a) exact accounting: over any op sequence whose actors all occur in the duplicate-free list `actors`, the
net deposits of the actors add up EXACTLY to the change of the reserves, their holdings to the change of the share
supply; holdings stay non-negative; an actor that does not act is untouched. -/
theorem group_deposits_exact {fee : Int} (hfee : 0 ≤ fee ∧ fee ≤ P18) (s : St) (hwf : s.lp.WF) (ops : List Op)
    (actors : List Nat) (hnd : actors.Nodup) (hact : ∀ op ∈ ops, op.actor ∈ actors) :
    (∀ d, sumOver actors (fun a => (run fee s ops).dep a d) =
        sumOver actors (fun a => s.dep a d) + ((run fee s ops).lp.res d - s.lp.res d)) ∧
    sumOver actors (fun a => (run fee s ops).hold a) =
        sumOver actors (fun a => s.hold a) + ((run fee s ops).lp.total - s.lp.total) ∧
    (∀ a, 0 ≤ s.hold a → 0 ≤ (run fee s ops).hold a) ∧
    (∀ b, b ∉ actors → (run fee s ops).hold b = s.hold b ∧ ∀ d, (run fee s ops).dep b d = s.dep b d) :=
  ⟨fun d => run_dep_sum hfee actors hnd d ops hwf hact, run_hold_sum hfee actors hnd ops hwf hact,
    fun a => run_hold_nonneg hfee a ops hwf,
    fun b hb => run_other hfee b ops hwf fun op ho e => hb (e ▸ hact op ho)⟩

/-- FULL. (a) GROUP no-gain: if the share supply is back at its initial value (all newly minted shares were exited
again), every reserve is at least what it was, i.e. collectively the actors took out no more of ANY asset than they
put in: `Σ_a D_a,d ≥ Σ_a D0_a,d`. -/
theorem group_no_gain {fee : Int} (hfee : 0 ≤ fee ∧ fee ≤ P18) (s : St) (hwf : s.lp.WF) (ops : List Op)
    (actors : List Nat) (hnd : actors.Nodup) (hact : ∀ op ∈ ops, op.actor ∈ actors)
    (hT : (run fee s ops).lp.total = s.lp.total) (d : String) :
    s.lp.res d ≤ (run fee s ops).lp.res d ∧
    sumOver actors (fun a => s.dep a d) ≤ sumOver actors (fun a => (run fee s ops).dep a d) := by
  have h1 := run_mono hfee ops hwf d
  rw [hT] at h1
  have h2 := Int.le_of_mul_le_mul_right h1 hwf.total_pos
  refine ⟨h2, ?_⟩
  have e : sumOver actors (fun a => (run fee s ops).dep a d) =
      sumOver actors (fun a => s.dep a d) + ((run fee s ops).lp.res d - s.lp.res d) :=
    run_dep_sum hfee actors hnd d ops hwf hact
  rw [e]
  omega

/-- FULL. (a) in general: the collective net deposit is at least the value, at the INITIAL reserves per share, of the
net new shares:  `(Σ_a D_a,d − Σ_a D0_a,d) · T0 ≥ R0_d · (T_final − T0)`. -/
theorem group_no_gain_general {fee : Int} (hfee : 0 ≤ fee ∧ fee ≤ P18) (s : St) (hwf : s.lp.WF) (ops : List Op)
    (actors : List Nat) (hnd : actors.Nodup) (hact : ∀ op ∈ ops, op.actor ∈ actors) (d : String) :
    s.lp.res d * ((run fee s ops).lp.total - s.lp.total) ≤
      (sumOver actors (fun a => (run fee s ops).dep a d) - sumOver actors (fun a => s.dep a d)) * s.lp.total := by
  have h1 := run_mono hfee ops hwf d
  have e : sumOver actors (fun a => (run fee s ops).dep a d) =
      sumOver actors (fun a => s.dep a d) + ((run fee s ops).lp.res d - s.lp.res d) :=
    run_dep_sum hfee actors hnd d ops hwf hact
  have e' : sumOver actors (fun a => (run fee s ops).dep a d) - sumOver actors (fun a => s.dep a d) =
      (run fee s ops).lp.res d - s.lp.res d := by omega
  rw [e', Int.mul_sub, Int.sub_mul]
  omega

/-- FULL. (b) SINGLE ACTOR, no interleaving (the sequence contains only actor `a`'s joins and exits; all other shares
are passive).  Starting with no shares and no deposit (more generally: `h0·R0_d ≤ D0_d·T0` and `h0 ≤ T0`), at ANY
point: `h · R_d ≤ D_d · T` — the pro-rata value of the shares the actor holds never exceeds its net deposit — and so
(the actor holding `h ≥ 0`) its net deposit of EVERY denom is non-negative. -/
theorem single_actor_no_gain {fee : Int} (hfee : 0 ≤ fee ∧ fee ≤ P18) (s : St) (hwf : s.lp.WF) (a : Nat)
    (ops : List Op) (hact : ∀ op ∈ ops, op.actor = a) (d : String)
    (hinv : s.hold a * s.lp.res d ≤ s.dep a d * s.lp.total) (hh : 0 ≤ s.hold a ∧ s.hold a ≤ s.lp.total) :
    (run fee s ops).hold a * (run fee s ops).lp.res d ≤ (run fee s ops).dep a d * (run fee s ops).lp.total ∧
    0 ≤ (run fee s ops).hold a ∧ 0 ≤ (run fee s ops).dep a d := by
  have h1 := single_actor_inv hfee a hwf hact d hinv hh.2
  have hwf' := run_wf hfee ops hwf
  have h2 : 0 ≤ (run fee s ops).hold a := run_hold_nonneg hfee a ops hwf hh.1
  refine ⟨h1, h2, ?_⟩
  have h3 : 0 ≤ (run fee s ops).hold a * (run fee s ops).lp.res d := Int.mul_nonneg h2 (LP.res_nonneg hwf' d)
  have h4 : 0 ≤ (run fee s ops).dep a d * (run fee s ops).lp.total := Int.le_trans h3 h1
  by_contra hneg
  have : (run fee s ops).dep a d * (run fee s ops).lp.total < 0 :=
    Int.mul_neg_of_neg_of_pos (by omega) hwf'.total_pos
  omega

/-- FULL. (b) "join then exit never returns more of any asset than was put in": an actor that starts with no shares
and no deposits and acts ALONE (any number of joins and exits in any order) has, at the end (and at every point),
a non-negative net deposit of EVERY denom — whether or not it still holds shares; with `h = 0` this is the
round-trip statement. -/
theorem single_actor_join_exit_no_gain {fee : Int} (hfee : 0 ≤ fee ∧ fee ≤ P18) (s : St) (hwf : s.lp.WF) (a : Nat)
    (ops : List Op) (hact : ∀ op ∈ ops, op.actor = a) (hh0 : s.hold a = 0) (hd0 : ∀ d, s.dep a d = 0) (d : String) :
    0 ≤ (run fee s ops).dep a d ∧
    (run fee s ops).hold a * (run fee s ops).lp.res d ≤ (run fee s ops).dep a d * (run fee s ops).lp.total := by
  have := single_actor_no_gain hfee s hwf a ops hact d (by rw [hh0, hd0]; simp)
    ⟨by omega, by rw [hh0]; exact Int.le_of_lt hwf.total_pos⟩
  exact ⟨this.2.2, this.1⟩

/-! ### (c) interleaving: the per-actor claim is false, the zero-sum claim is true -/

/-- two-asset pool, reserves 10^30 each, 10^20 shares held by passive LPs; nobody else holds anything. -/
def w0 : St := ⟨⟨[("tka", 10 ^ 30), ("tkb", 10 ^ 30)], 10 ^ 20⟩, fun _ => 0, fun _ _ => 0⟩

/-- actor 0 joins with 10^30 of each (10^20 shares); actor 1 joins with 1.9·10^12 − 1 of each: its share ratio
`⌊(1.9·10^12 − 1)·10^18 / (2·10^30)⌋ = 0` is the minimal (and maximal) one, so ALL its tokens are used and it is
minted 0 shares; actor 0 exits its 10^20 shares. -/
def wOps : List Op :=
  [.join 0 [("tka", 10 ^ 30), ("tkb", 10 ^ 30)],
   .join 1 [("tka", 19 * 10 ^ 11 - 1), ("tkb", 19 * 10 ^ 11 - 1)],
   .exit 0 (10 ^ 20)]

/-- WITNESS: with an interleaved other actor, "an actor never gets back more of any asset than it put in" is FALSE in
this code.  Actor 0 ends with no shares and net deposit −949 999 999 999 of EACH asset (it received
10^30 + 949 999 999 999 for 10^30 paid); actor 1 paid 1 899 999 999 999 of each for 0 shares; the passive LPs gained
the other 950 000 000 000.  (Intermediate states listed for the record.) -/
theorem interleaved_actor_gain_witness :
    ((run 0 w0 (wOps.take 1)).hold 0 = 10 ^ 20 ∧ (run 0 w0 (wOps.take 1)).dep 0 "tka" = 10 ^ 30 ∧
      (run 0 w0 (wOps.take 1)).lp = ⟨[("tka", 2 * 10 ^ 30), ("tkb", 2 * 10 ^ 30)], 2 * 10 ^ 20⟩) ∧
    ((run 0 w0 (wOps.take 2)).hold 1 = 0 ∧ (run 0 w0 (wOps.take 2)).dep 1 "tka" = 1899999999999 ∧
      (run 0 w0 (wOps.take 2)).lp =
        ⟨[("tka", 2 * 10 ^ 30 + 1899999999999), ("tkb", 2 * 10 ^ 30 + 1899999999999)], 2 * 10 ^ 20⟩) ∧
    (run 0 w0 wOps).hold 0 = 0 ∧ (run 0 w0 wOps).hold 1 = 0 ∧
    (run 0 w0 wOps).dep 0 "tka" = -949999999999 ∧ (run 0 w0 wOps).dep 0 "tkb" = -949999999999 ∧
    (run 0 w0 wOps).dep 1 "tka" = 1899999999999 ∧ (run 0 w0 wOps).dep 1 "tkb" = 1899999999999 ∧
    (run 0 w0 wOps).lp = ⟨[("tka", 10 ^ 30 + 950000000000), ("tkb", 10 ^ 30 + 950000000000)], 10 ^ 20⟩ := by
  decide +kernel

/-- second WITNESS, in which the other actor IS minted shares: actor 0 joins with 9·10^30 of each (9·10^20 shares),
actor 1 joins with 2·10^13 − 1 of each (ratio ⌊1.99…⌋·10^-18 → 1000 shares, fair price 10^13, all tokens used),
actor 0 exits its 9·10^20 shares and has gained 7 999 999 999 999 of each asset. -/
def wOps2 : List Op :=
  [.join 0 [("tka", 9 * 10 ^ 30), ("tkb", 9 * 10 ^ 30)],
   .join 1 [("tka", 2 * 10 ^ 13 - 1), ("tkb", 2 * 10 ^ 13 - 1)],
   .exit 0 (9 * 10 ^ 20)]

theorem interleaved_actor_gain_witness_minted :
    (run 0 w0 wOps2).hold 0 = 0 ∧ (run 0 w0 wOps2).hold 1 = 1000 ∧
    (run 0 w0 wOps2).dep 0 "tka" = -7999999999999 ∧ (run 0 w0 wOps2).dep 0 "tkb" = -7999999999999 ∧
    (run 0 w0 wOps2).dep 1 "tka" = 19999999999999 ∧ (run 0 w0 wOps2).dep 1 "tkb" = 19999999999999 ∧
    (run 0 w0 wOps2).lp.total = 10 ^ 20 + 1000 := by
  decide +kernel

/-- FULL. the true, ZERO-SUM version: over any op sequence by actor `a` and the (other) actors `others`, if the share
supply is back at its initial value, whatever actor `a` gained of denom `d` (`D0_a,d − D_a,d`) is at most what the other
actors lost (their net deposits increased by at least that much).  In general (second clause, ·T0):
`gain_a · T0 ≤ (Σ_others ΔD_b,d) · T0 − R0_d · (T_final − T0)`. -/
theorem actor_gain_le_others_loss {fee : Int} (hfee : 0 ≤ fee ∧ fee ≤ P18) (s : St) (hwf : s.lp.WF) (ops : List Op)
    (a : Nat) (others : List Nat) (hnd : others.Nodup) (ha : a ∉ others)
    (hact : ∀ op ∈ ops, op.actor = a ∨ op.actor ∈ others) (d : String) :
    ((run fee s ops).lp.total = s.lp.total →
      s.dep a d - (run fee s ops).dep a d ≤
        sumOver others (fun b => (run fee s ops).dep b d) - sumOver others (fun b => s.dep b d)) ∧
    (s.dep a d - (run fee s ops).dep a d) * s.lp.total ≤
      (sumOver others (fun b => (run fee s ops).dep b d) - sumOver others (fun b => s.dep b d)) * s.lp.total -
        s.lp.res d * ((run fee s ops).lp.total - s.lp.total) := by
  have hnd' : (a :: others).Nodup := List.nodup_cons.mpr ⟨ha, hnd⟩
  have hact' : ∀ op ∈ ops, op.actor ∈ a :: others := fun op ho => List.mem_cons.mpr (hact op ho)
  have e1 : ∀ f : Nat → Int, sumOver (a :: others) f = f a + sumOver others f := fun f => by
    simp [sumOver]
  constructor
  · intro hT
    have := (group_no_gain hfee s hwf ops (a :: others) hnd' hact' hT d).2
    rw [e1, e1] at this
    omega
  · have := group_no_gain_general hfee s hwf ops (a :: others) hnd' hact' d
    rw [e1, e1] at this
    have e2 : (s.dep a d - (run fee s ops).dep a d) * s.lp.total =
        (sumOver others (fun b => (run fee s ops).dep b d) - sumOver others (fun b => s.dep b d)) * s.lp.total -
        ((run fee s ops).dep a d + sumOver others (fun b => (run fee s ops).dep b d) -
          (s.dep a d + sumOver others (fun b => s.dep b d))) * s.lp.total := by
      rw [← Int.sub_mul]; congr 1; omega
    rw [e2]
    omega

/-! ## 4. the pool models -/

section balancer
variable {fee : Int} (hfee : 0 ≤ fee ∧ fee ≤ P18) (c : BalSt) (hwf : BalWF c.pool) (ops : List Op)
include hfee hwf

/-- FULL. balancer: over any sequence of `balJoinNoSwap` / `balExit` operations (`balStep`), for every denom the
reserves per share never decrease. -/
theorem balancer_reserves_per_share_nondecreasing (d : String) :
    BalWF (balRun fee c ops).pool ∧
    amountOf (balLiquidity c.pool) d * (balRun fee c ops).pool.totalShares ≤
      amountOf (balLiquidity (balRun fee c ops).pool) d * c.pool.totalShares := by
  obtain ⟨ops', _, r⟩ := bal_run_sim hfee c hwf ops
  have := run_mono hfee ops' hwf.lp (s := balAbs c) d
  rw [← r.lp] at this
  exact ⟨r.wf, this⟩

/-- FULL. balancer, GROUP: exact accounting of the net deposits; with the share supply back at its initial value no
reserve is lower than at the start and the actors' collective net deposit of every denom did not decrease. -/
theorem balancer_group_no_gain (actors : List Nat) (hnd : actors.Nodup) (hact : ∀ op ∈ ops, op.actor ∈ actors)
    (d : String) :
    sumOver actors (fun a => (balRun fee c ops).dep a d) = sumOver actors (fun a => c.dep a d) +
      (amountOf (balLiquidity (balRun fee c ops).pool) d - amountOf (balLiquidity c.pool) d) ∧
    ((balRun fee c ops).pool.totalShares = c.pool.totalShares →
      amountOf (balLiquidity c.pool) d ≤ amountOf (balLiquidity (balRun fee c ops).pool) d ∧
      sumOver actors (fun a => c.dep a d) ≤ sumOver actors (fun a => (balRun fee c ops).dep a d)) := by
  obtain ⟨ops', hsub, r⟩ := bal_run_sim hfee c hwf ops
  have hact' : ∀ op ∈ ops', op.actor ∈ actors := fun op ho => hact op (hsub.subset ho)
  have e : ∀ f : Nat → String → Int, (∀ a d, (balRun fee c ops).dep a d = f a d) →
      sumOver actors (fun a => (balRun fee c ops).dep a d) = sumOver actors (fun a => f a d) := fun f hf => by
    simp only [sumOver, hf]
  rw [e _ r.dep]
  constructor
  · have := run_dep_sum hfee actors hnd d ops' hwf.lp (s := balAbs c) hact'
    rw [← r.lp] at this
    exact this
  · intro hT
    have := group_no_gain hfee (balAbs c) hwf.lp ops' actors hnd hact' (by rw [← r.lp]; exact hT) d
    rw [← r.lp] at this
    exact this

/-- FULL. balancer, SINGLE ACTOR acting alone from no shares / no deposits: at the end (and at every point) its net
deposit of every denom is non-negative and covers the pro-rata value of the shares it still holds — join-then-exit
never returns more of any asset than was put in. -/
theorem balancer_join_exit_no_gain (a : Nat) (hact : ∀ op ∈ ops, op.actor = a) (hh0 : c.hold a = 0)
    (hd0 : ∀ d, c.dep a d = 0) (d : String) :
    0 ≤ (balRun fee c ops).dep a d ∧
    (balRun fee c ops).hold a * amountOf (balLiquidity (balRun fee c ops).pool) d ≤
      (balRun fee c ops).dep a d * (balRun fee c ops).pool.totalShares := by
  obtain ⟨ops', hsub, r⟩ := bal_run_sim hfee c hwf ops
  have := single_actor_join_exit_no_gain hfee (balAbs c) hwf.lp a ops' (fun op ho => hact op (hsub.subset ho)) hh0 hd0 d
  rw [← r.lp, ← r.hold, ← r.dep] at this
  exact this

end balancer

section stableswap
variable {fee : Int} (hfee : 0 ≤ fee ∧ fee ≤ P18) (c : SSSt) (hwf : SSWF c.pool) (ops : List Op)
include hfee hwf

/-- FULL. stableswap: reserves per share never decrease over any sequence of `ssJoinNoSwap` / `ssExit` operations. -/
theorem stableswap_reserves_per_share_nondecreasing (d : String) :
    SSWF (ssRun fee c ops).pool ∧
    amountOf (ssLiquidity c.pool) d * (ssRun fee c ops).pool.totalShares ≤
      amountOf (ssLiquidity (ssRun fee c ops).pool) d * c.pool.totalShares := by
  obtain ⟨ops', _, r⟩ := ss_run_sim hfee c hwf ops
  have := run_mono hfee ops' hwf.lp (s := ssAbs c) d
  rw [← r.lp] at this
  exact ⟨r.wf, this⟩

/-- FULL. stableswap, GROUP. -/
theorem stableswap_group_no_gain (actors : List Nat) (hnd : actors.Nodup) (hact : ∀ op ∈ ops, op.actor ∈ actors)
    (d : String) :
    sumOver actors (fun a => (ssRun fee c ops).dep a d) = sumOver actors (fun a => c.dep a d) +
      (amountOf (ssLiquidity (ssRun fee c ops).pool) d - amountOf (ssLiquidity c.pool) d) ∧
    ((ssRun fee c ops).pool.totalShares = c.pool.totalShares →
      amountOf (ssLiquidity c.pool) d ≤ amountOf (ssLiquidity (ssRun fee c ops).pool) d ∧
      sumOver actors (fun a => c.dep a d) ≤ sumOver actors (fun a => (ssRun fee c ops).dep a d)) := by
  obtain ⟨ops', hsub, r⟩ := ss_run_sim hfee c hwf ops
  have hact' : ∀ op ∈ ops', op.actor ∈ actors := fun op ho => hact op (hsub.subset ho)
  have e : ∀ f : Nat → String → Int, (∀ a d, (ssRun fee c ops).dep a d = f a d) →
      sumOver actors (fun a => (ssRun fee c ops).dep a d) = sumOver actors (fun a => f a d) := fun f hf => by
    simp only [sumOver, hf]
  rw [e _ r.dep]
  constructor
  · have := run_dep_sum hfee actors hnd d ops' hwf.lp (s := ssAbs c) hact'
    rw [← r.lp] at this
    exact this
  · intro hT
    have := group_no_gain hfee (ssAbs c) hwf.lp ops' actors hnd hact' (by rw [← r.lp]; exact hT) d
    rw [← r.lp] at this
    exact this

/-- FULL. stableswap, SINGLE ACTOR acting alone. -/
theorem stableswap_join_exit_no_gain (a : Nat) (hact : ∀ op ∈ ops, op.actor = a) (hh0 : c.hold a = 0)
    (hd0 : ∀ d, c.dep a d = 0) (d : String) :
    0 ≤ (ssRun fee c ops).dep a d ∧
    (ssRun fee c ops).hold a * amountOf (ssLiquidity (ssRun fee c ops).pool) d ≤
      (ssRun fee c ops).dep a d * (ssRun fee c ops).pool.totalShares := by
  obtain ⟨ops', hsub, r⟩ := ss_run_sim hfee c hwf ops
  have := single_actor_join_exit_no_gain hfee (ssAbs c) hwf.lp a ops' (fun op ho => hact op (hsub.subset ho)) hh0 hd0 d
  rw [← r.lp, ← r.hold, ← r.dep] at this
  exact this

end stableswap

/-! ## non-vacuity: every hypothesis is satisfiable on concrete pools, the operations succeed and move the state -/

/-- 2-asset 1:1 balancer pool, 10^12 of each, 100·10^18 shares, no fees. -/
def bp : BalPool := mkBalPool [("tka", 10 ^ 12, 1), ("tkb", 10 ^ 12, 1)] (100 * P18) 0 0
/-- 3-asset stableswap pool, scaling factors 1, 1, 10^12. -/
def sp : SSPool := ⟨[⟨"tka", 10 ^ 12, 1⟩, ⟨"tkb", 10 ^ 12, 1⟩, ⟨"tkc", 10 ^ 24, 10 ^ 12⟩], 100 * P18⟩

theorem bp_wf : BalWF bp := ⟨by decide +kernel, by decide +kernel, by decide +kernel⟩
theorem sp_wf : SSWF sp := ⟨by decide +kernel, by decide +kernel, by decide +kernel⟩
theorem fee_zero : (0 : Int) ≤ 0 ∧ (0 : Int) ≤ P18 := by decide
theorem fee_1pct : (0 : Int) ≤ 10 ^ 16 ∧ (10 ^ 16 : Int) ≤ P18 := by decide

/-- an imbalanced all-asset join: 5·10^11 tka + 6·10^11 tkb → 50·10^18 shares, 5·10^11 of each used. -/
def tin1 : Coins := [("tka", 5 * 10 ^ 11), ("tkb", 6 * 10 ^ 11)]

-- §1 refinement, balancer (hypotheses and conclusion instantiated)
example : validTokens (balLiquidity bp) tin1 := by decide +kernel
example : (balJoinNoSwap bp tin1).toOption.map (fun r => (r.1, balLiquidity r.2, r.2.totalShares)) =
    some (50 * P18, [("tka", 15 * 10 ^ 11), ("tkb", 15 * 10 ^ 11)], 150 * P18) := by decide +kernel
example : (balLP bp).join tin1 = some (50 * P18, [("tka", 5 * 10 ^ 11), ("tkb", 5 * 10 ^ 11)],
    ⟨[("tka", 15 * 10 ^ 11), ("tkb", 15 * 10 ^ 11)], 150 * P18⟩) := by decide +kernel
example : (balExit bp (P18 / 3) (10 ^ 16)).toOption.map (fun r => (r.1, balLiquidity r.2, r.2.totalShares)) =
    some ([("tka", 3299999999), ("tkb", 3299999999)], [("tka", 10 ^ 12 - 3299999999), ("tkb", 10 ^ 12 - 3299999999)],
      100 * P18 - P18 / 3) := by decide +kernel
example : (balLP bp).exit (10 ^ 16) (P18 / 3) = some ([("tka", 3299999999), ("tkb", 3299999999)],
    ⟨[("tka", 10 ^ 12 - 3299999999), ("tkb", 10 ^ 12 - 3299999999)], 100 * P18 - P18 / 3⟩) := by decide +kernel
-- the completeness hypotheses (no empty denom, results within 256 bits)
example : "" ∉ bp.assets.map (·.denom) := by decide +kernel
example : (∀ a ∈ bp.assets, Fits (a.amount + amountOf [("tka", 5 * 10 ^ 11), ("tkb", 5 * 10 ^ 11)] a.denom)) ∧
    Fits (bp.totalShares + 50 * P18) ∧ Fits (bp.totalShares - P18 / 3) := by decide +kernel
-- 256-bit overflow is the only extra failure of the balancer model: the abstract join succeeds, the pool one panics
example : (balLP (mkBalPool [("tka", 2 ^ 255, 1), ("tkb", 2 ^ 255, 1)] 1 0 0)).join [("tka", 2 ^ 255), ("tkb", 2 ^ 255)] =
      some (1, [("tka", 2 ^ 255), ("tkb", 2 ^ 255)], ⟨[("tka", 2 ^ 256), ("tkb", 2 ^ 256)], 2⟩) ∧
    balJoinNoSwap (mkBalPool [("tka", 2 ^ 255, 1), ("tkb", 2 ^ 255, 1)] 1 0 0) [("tka", 2 ^ 255), ("tkb", 2 ^ 255)] =
      .error .panic := by decide +kernel

-- §1 refinement, stableswap
def tin2 : Coins := [("tka", 5 * 10 ^ 11), ("tkb", 6 * 10 ^ 11), ("tkc", 7 * 10 ^ 23)]
example : validTokens (ssLiquidity sp) tin2 := by decide +kernel
example : (ssJoinNoSwap sp tin2).toOption.map (fun r => (r.1, ssLiquidity r.2, r.2.totalShares)) =
    some (50 * P18, [("tka", 15 * 10 ^ 11), ("tkb", 15 * 10 ^ 11), ("tkc", 15 * 10 ^ 23)], 150 * P18) := by decide +kernel
example : (ssLP sp).join tin2 = some (50 * P18, [("tka", 5 * 10 ^ 11), ("tkb", 5 * 10 ^ 11), ("tkc", 5 * 10 ^ 23)],
    ⟨[("tka", 15 * 10 ^ 11), ("tkb", 15 * 10 ^ 11), ("tkc", 15 * 10 ^ 23)], 150 * P18⟩) := by decide +kernel
example : (ssExit sp (P18 / 3) 0).toOption.map (fun r => (r.1, r.2.totalShares)) =
    some ([("tka", 3333333333), ("tkb", 3333333333), ("tkc", 3333333333333333000000)], 100 * P18 - P18 / 3) := by
  decide +kernel
-- `validatePoolLiquidity` is an extra failure branch of `ssExit`: the abstract exit succeeds, the pool one errs
example : (ssLP ⟨[⟨"tka", 4, 3⟩, ⟨"tkb", 4, 3⟩], 4⟩).exit 0 2 = some ([("tka", 2), ("tkb", 2)], ⟨[("tka", 2), ("tkb", 2)], 2⟩) ∧
    (ssExit ⟨[⟨"tka", 4, 3⟩, ⟨"tkb", 4, 3⟩], 4⟩ 2 0 = .error .err) := by decide +kernel

-- §2/§3 on the abstract machine: three actors, imbalanced joins, partial and full exits, a failing exit (more than held)
def s1 : St := ⟨balLP bp, fun _ => 0, fun _ _ => 0⟩
def ops1 : List Op :=
  [.join 0 tin1, .join 1 [("tka", 7), ("tkb", 1234567)], .exit 0 (20 * P18), .exit 1 (10 ^ 30), .join 2 tin1,
   .exit 0 (30 * P18), .exit 2 49999999999961538360, .exit 1 699999900]

example : s1.lp.WF := bp_wf.lp
example : (∀ op ∈ ops1, op.actor ∈ [0, 1, 2]) ∧ [0, 1, 2].Nodup := by decide +kernel
/-- everybody exits everything (the exit of 10^30 shares by actor 1 fails): the share supply is back at 100·10^18 and
the pool kept 2 tka / 2 tkb, one from each of actors 0 and 1. -/
example : (run 0 s1 (ops1.take 5)).lp = ⟨[("tka", 1800000000008), ("tkb", 1800000000008)], 180000000000661538260⟩ ∧
    (run 0 s1 (ops1.take 5)).hold 0 = 30 * P18 ∧ (run 0 s1 (ops1.take 5)).hold 1 = 699999900 ∧
    (run 0 s1 (ops1.take 5)).hold 2 = 49999999999961538360 ∧
    (run 0 s1 (ops1.take 5)).dep 0 "tka" = 300000000001 ∧ (run 0 s1 (ops1.take 5)).dep 1 "tkb" = 7 := by decide +kernel
example : (run 0 s1 ops1).lp = ⟨[("tka", 10 ^ 12 + 2), ("tkb", 10 ^ 12 + 2)], 100 * P18⟩ ∧
    (run 0 s1 ops1).hold 0 = 0 ∧ (run 0 s1 ops1).hold 1 = 0 ∧ (run 0 s1 ops1).hold 2 = 0 ∧
    (run 0 s1 ops1).dep 0 "tka" = 1 ∧ (run 0 s1 ops1).dep 0 "tkb" = 1 ∧
    (run 0 s1 ops1).dep 1 "tka" = 1 ∧ (run 0 s1 ops1).dep 1 "tkb" = 1 ∧
    (run 0 s1 ops1).dep 2 "tka" = 0 ∧ (run 0 s1 ops1).dep 2 "tkb" = 0 := by decide +kernel
/-- with a 1% exit fee (actor 2's exit now asks for more than it holds and fails) -/
example : (10 ^ 16 : Int) = P18 / 100 ∧ (run (10 ^ 16) s1 ops1).lp.total = 149923195084447476395 ∧
    (run (10 ^ 16) s1 ops1).dep 0 "tka" = 4543076924 ∧ (run (10 ^ 16) s1 ops1).hold 2 = 49923195084447476395 := by
  decide +kernel

-- (b): a single actor; the hypotheses of `single_actor_join_exit_no_gain`
def ops2 : List Op := [.join 7 tin1, .exit 7 (P18 / 7), .join 7 [("tka", 999), ("tkb", 1001)], .exit 7 49857142957042857087]
example : (∀ op ∈ ops2, op.actor = 7) ∧ s1.hold 7 = 0 ∧ ∀ d, s1.dep 7 d = 0 := ⟨by decide +kernel, rfl, fun _ => rfl⟩
example : (run 0 s1 ops2).hold 7 = 0 ∧ (run 0 s1 ops2).dep 7 "tka" = 1 ∧ (run 0 s1 ops2).dep 7 "tkb" = 1 ∧
    (run 0 s1 ops2).lp.total = 100 * P18 := by decide +kernel

-- §4 the pool models run the same sequences
def c1 : BalSt := ⟨bp, fun _ => 0, fun _ _ => 0⟩
example : balLiquidity (balRun 0 c1 ops1).pool = [("tka", 10 ^ 12 + 2), ("tkb", 10 ^ 12 + 2)] ∧
    (balRun 0 c1 ops1).pool.totalShares = 100 * P18 ∧ (balRun 0 c1 ops1).dep 0 "tkb" = 1 ∧
    (balRun 0 c1 ops1).dep 1 "tkb" = 1 ∧ (balRun 0 c1 ops1).dep 2 "tkb" = 0 ∧ (balRun 0 c1 ops1).hold 2 = 0 := by
  decide +kernel
example : (balRun 0 c1 ops2).hold 7 = 0 ∧ (balRun 0 c1 ops2).dep 7 "tka" = 1 ∧ (balRun 0 c1 ops2).dep 7 "tkb" = 1 := by
  decide +kernel

def c2 : SSSt := ⟨sp, fun _ => 0, fun _ _ => 0⟩
def ops3 : List Op :=
  [.join 0 tin2, .join 1 [("tka", 7), ("tkb", 1234567), ("tkc", 5 * 10 ^ 12)], .exit 0 (20 * P18), .exit 0 (30 * P18),
   .exit 1 499999950]
example : (∀ op ∈ ops3, op.actor ∈ [0, 1]) ∧ [0, 1].Nodup := by decide +kernel
example : ssLiquidity (ssRun 0 c2 ops3).pool = [("tka", 10 ^ 12 + 2), ("tkb", 10 ^ 12 + 2), ("tkc", 10 ^ 24 + 2371777)] ∧
    (ssRun 0 c2 ops3).pool.totalShares = 100 * P18 ∧
    (ssRun 0 c2 ops3).dep 0 "tkc" = 1371802 ∧ (ssRun 0 c2 ops3).dep 1 "tkc" = 999975 ∧
    (ssRun 0 c2 ops3).hold 0 = 0 ∧ (ssRun 0 c2 ops3).hold 1 = 0 := by decide +kernel
example : (ssRun 0 c2 [.join 3 tin2, .exit 3 (50 * P18)]).hold 3 = 0 ∧
    (ssRun 0 c2 [.join 3 tin2, .exit 3 (50 * P18)]).dep 3 "tkc" = 500000 := by decide +kernel

/-- (c) on the pool models: the interleaved-gain witness is a run of the balancer model … -/
def cw : BalSt := ⟨mkBalPool [("tka", 10 ^ 30, 1), ("tkb", 10 ^ 30, 1)] (10 ^ 20) 0 0, fun _ => 0, fun _ _ => 0⟩
theorem interleaved_actor_gain_witness_balancer :
    (balRun 0 cw wOps).hold 0 = 0 ∧ (balRun 0 cw wOps).dep 0 "tka" = -949999999999 ∧
    (balRun 0 cw wOps).dep 0 "tkb" = -949999999999 ∧ (balRun 0 cw wOps).hold 1 = 0 ∧
    (balRun 0 cw wOps).dep 1 "tka" = 1899999999999 ∧ (balRun 0 cw wOps).pool.totalShares = 10 ^ 20 := by
  decide +kernel

/-- … and (3 assets, scaling factors 1, 1, 10^12) of the stableswap model. -/
def cws : SSSt := ⟨⟨[⟨"tka", 10 ^ 30, 1⟩, ⟨"tkb", 10 ^ 30, 1⟩, ⟨"tkc", 10 ^ 42, 10 ^ 12⟩], 10 ^ 20⟩, fun _ => 0, fun _ _ => 0⟩
def wOpsS : List Op :=
  [.join 0 [("tka", 10 ^ 30), ("tkb", 10 ^ 30), ("tkc", 10 ^ 42)],
   .join 1 [("tka", 19 * 10 ^ 11 - 1), ("tkb", 19 * 10 ^ 11 - 1), ("tkc", 19 * 10 ^ 23 - 1)],
   .exit 0 (10 ^ 20)]
theorem interleaved_actor_gain_witness_stableswap :
    (ssRun 0 cws wOpsS).hold 0 = 0 ∧ (ssRun 0 cws wOpsS).dep 0 "tka" = -949999999999 ∧
    (ssRun 0 cws wOpsS).dep 0 "tkc" = -949999999999999999999999 ∧ (ssRun 0 cws wOpsS).hold 1 = 0 ∧
    (ssRun 0 cws wOpsS).dep 1 "tkc" = 19 * 10 ^ 23 - 1 ∧ (ssRun 0 cws wOpsS).pool.totalShares = 10 ^ 20 := by
  decide +kernel

/-! the theorems applied to these concrete states (all hypotheses discharged) -/

example := balancer_join_refines (p := bp) (p' := { bp with
    assets := [⟨"tka", 15 * 10 ^ 11, 2 ^ 30⟩, ⟨"tkb", 15 * 10 ^ 11, 2 ^ 30⟩], totalShares := 150 * P18 }) (tin := tin1)
  (sh := 50 * P18) bp_wf (by decide +kernel) (by decide +kernel)
example := reserves_per_share_nondecreasing fee_1pct s1 bp_wf.lp ops1
example := group_deposits_exact fee_zero s1 bp_wf.lp ops1 [0, 1, 2] (by decide) (by decide +kernel)
example : s1.lp.res "tka" ≤ (run 0 s1 ops1).lp.res "tka" :=
  (group_no_gain fee_zero s1 bp_wf.lp ops1 [0, 1, 2] (by decide) (by decide +kernel) (by decide +kernel) "tka").1
example := group_no_gain_general fee_1pct s1 bp_wf.lp ops1 [0, 1, 2] (by decide) (by decide +kernel) "tkb"
example : 0 ≤ (run 0 s1 ops2).dep 7 "tkb" :=
  (single_actor_join_exit_no_gain fee_zero s1 bp_wf.lp 7 ops2 (by decide +kernel) rfl (fun _ => rfl) "tkb").1
/-- the zero-sum bound on the witness: actor 0's gain 949 999 999 999 ≤ actor 1's loss 1 899 999 999 999. -/
example : w0.dep 0 "tka" - (run 0 w0 wOps).dep 0 "tka" ≤
    sumOver [1] (fun b => (run 0 w0 wOps).dep b "tka") - sumOver [1] (fun b => w0.dep b "tka") :=
  (actor_gain_le_others_loss fee_zero w0 ⟨by decide +kernel, by decide +kernel, by decide +kernel⟩ wOps 0 [1]
    (by decide) (by decide) (by decide +kernel) "tka").1 (by decide +kernel)
example := balancer_reserves_per_share_nondecreasing fee_zero c1 bp_wf ops1 "tka"
example := balancer_group_no_gain fee_zero c1 bp_wf ops1 [0, 1, 2] (by decide) (by decide +kernel) "tka"
example : 0 ≤ (balRun 0 c1 ops2).dep 7 "tka" :=
  (balancer_join_exit_no_gain fee_zero c1 bp_wf ops2 7 (by decide +kernel) rfl (fun _ => rfl) "tka").1
example := stableswap_reserves_per_share_nondecreasing fee_zero c2 sp_wf ops3 "tkc"
example := stableswap_group_no_gain fee_zero c2 sp_wf ops3 [0, 1] (by decide) (by decide +kernel) "tkc"
example : 0 ≤ (ssRun 0 c2 [.join 3 tin2, .exit 3 (50 * P18)]).dep 3 "tkc" :=
  (stableswap_join_exit_no_gain fee_zero c2 sp_wf [.join 3 tin2, .exit 3 (50 * P18)] 3 (by decide +kernel) rfl
    (fun _ => rfl) "tkc").1

end OsmoVerif.Props.C04Seq
