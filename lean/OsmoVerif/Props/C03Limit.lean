/-
C03, extension 1 — swaps with a CALLER-SUPPLIED price limit.

The public messages always pass `GetPriceLimit` (the extreme limit; Props/C03 §8–§10).  `computeOutAmtGivenIn` /
`computeInAmtGivenOut`, `swapOutAmtGivenIn` / `swapInAmtGivenOut` take the limit as a parameter: `GetSqrtPriceLimit`
turns the price limit `pl` into a sqrt price (`CL.sqrtPriceLimit pl zfo`; `pl = 0` = extreme; outside
[MinSpotPriceV2, MaxSpotPrice] an error) and `ValidateSqrtPrice` requires it on the swap side of the current sqrt price
and within [MinSqrtPrice, MaxSqrtPrice] (`ValidLimit`).  The model's `CL.computeSwap … pl …` already has the parameter;
everything below is for EVERY `pl`, on every pool state satisfying the C07 invariant (every reachable one), all four kinds.

Definitions used in the statements (Proofs/CLLimit3–6):
  `LimSide zfo limit sp`    : `limit ≤ sp` going down (zero-for-one), `sp ≤ limit` going up — `sp` has not passed the limit;
  `ValidLimit zfo limit sp` : `MinSqrtPrice ≤ limit ≤ sp` resp. `sp ≤ limit ≤ MaxSqrtPrice`;
  `RecGoodL og zfo limit e` : for the recorded step `e`: `StepOK`, positive prices, the step does not move against the swap
                              direction, its target lies between the current price and the next tick's price (≥ 10^-6 going
                              down), the step STARTS on the swap side of the limit and its target is not beyond the limit;
  `LimitRespected …`        : see `limit_defs`;  `PassBound`: see `limit_defs`.

FINDING (`price_passes_limit_witness`): the claim "the loop never moves the price beyond the limit" is FALSE for exact-in
swaps with a positive spread factor and a limit strictly inside a bucket: the overshoot guard of the loop compares with
the next TICK's sqrt price, not with the limit, and the amount needed to reach the limit is rounded up to a whole token,
so a remaining amount between the exact need and that whole token moves the price past the limit.  What holds instead
(`price_limit_respected`, `price_passes_limit_by_less_than_one_token`): only the LAST step can pass the limit, only when
it consumed all that remained, and by less than what one token of the in-asset moves the price.
-/
import OsmoVerif.Props.C03
import OsmoVerif.Proofs.CLLimit5
import OsmoVerif.Proofs.CLLimit6
import OsmoVerif.Proofs.CLLimit7

namespace OsmoVerif.Props.C03Limit
open OsmoVerif.Num OsmoVerif.Spec OsmoVerif.Gen OsmoVerif.CL OsmoVerif.CLPool OsmoVerif.CLBook OsmoVerif.CLSolv
open OsmoVerif.CLLimit OsmoVerif.CLIdeal

/-! ## 0. the definitions, unfolded -/

theorem limit_defs (og zfo : Bool) (spf limit sp start final rem : Int) (e : StepRec) :
    (LimSide zfo limit sp ↔ if zfo then limit ≤ sp else sp ≤ limit) ∧
    (ValidLimit zfo limit sp ↔
      if zfo then CL.MinSqrtPriceBigDec ≤ limit ∧ limit ≤ sp else sp ≤ limit ∧ limit ≤ CL.MaxSqrtPriceBigDec) ∧
    (LimitRespected og zfo spf limit start final rem ↔
      (if zfo then final ≤ start else start ≤ final) ∧
      (LimSide zfo limit final ∨ (rem ≤ 1 ∧ (og = true → rem = 0 ∧ 0 < spf))) ∧
      (1 < rem → final = limit)) ∧
    (RecGoodL og zfo limit e ↔
      (StepOK og zfo e.st.pool.sqrtPrice e.target e.st.pool.liquidity ∧ 0 < e.st.pool.sqrtPrice ∧ 0 < e.res.sqrtPriceNext ∧
        (if zfo then 1000000000000000000000000000000 ≤ e.target ∧ e.target ≤ e.st.pool.sqrtPrice ∧
            1000000000000000000000000000000 ≤ e.res.sqrtPriceNext ∧ e.res.sqrtPriceNext ≤ e.st.pool.sqrtPrice
          else e.st.pool.sqrtPrice ≤ e.target ∧ e.st.pool.sqrtPrice ≤ e.res.sqrtPriceNext)) ∧
      LimSide zfo limit e.st.pool.sqrtPrice ∧ LimSide zfo limit e.target) ∧
    (PassBound zfo limit e ↔
      if zfo then e.res.sqrtPriceNext < limit →
          exact0 e.st.pool.liquidity e.res.sqrtPriceNext limit < 10 ^ 18 + 1 / 10 ^ 6
        else (e.res.sqrtPriceNext - limit) * e.st.pool.liquidity < P36 * P18) :=
  ⟨Iff.rfl, Iff.rfl, Iff.rfl, Iff.rfl, Iff.rfl⟩

/-- the limits of the public messages and of the estimate queries are the extreme valid ones. -/
theorem default_limits (zfo : Bool) :
    sqrtPriceLimit (execPriceLimit zfo) zfo = some (if zfo then CL.MinSqrtPriceBigDec else CL.MaxSqrtPriceBigDec) ∧
    sqrtPriceLimit 0 zfo = some (if zfo then CL.MinSqrtPriceBigDec else CL.MaxSqrtPriceBigDec) := by
  cases zfo <;> decide +kernel

/-! ## 1. every step, every kind, every valid limit -/

/-- C03 with ANY price limit, on a state that satisfies the C07 invariant.  A successful `computeSwap` (exact-in or
exact-out, either direction, any `pl`) had a valid sqrt-price limit and is a run `tr` of within-bucket steps along a
contiguous price path; EVERY step satisfies `StepOK`, starts on the swap side of the limit and aims at a target that is
not beyond the limit; and whether the swap was filled completely or stopped at the limit,
  `amountOut ≤ Σ exact out`,  `Σ exact in ≤ amountIn`
for the exact curve between each step's actual start and end price (partial-fill form of
`C03.swap_vs_exact_curve_reachable`).  `st'.remaining` is what was left of the specified amount (raw 18-decimal). -/
theorem swap_vs_exact_curve_any_limit {p : Pool} (hinv : Inv p) (hspf : SpfOK p.spf) {ogi zfo : Bool}
    {pl specified : Int} {r : SwapOut}
    (h : computeSwap ogi zfo p.spf pl ⟨p.sqrtPrice, p.tick, p.liquidity⟩ (tickList p) specified = some r) :
    ∃ (limit : Int) (tr : List StepRec) (st' : SwapSt),
      sqrtPriceLimit pl zfo = some limit ∧ ValidLimit zfo limit p.sqrtPrice ∧
      Run ogi zfo p.spf limit
        { remaining := specified * P18, calculated := 0, pool := ⟨p.sqrtPrice, p.tick, p.liquidity⟩, spreadTotal := 0,
          noProgress := 0 } tr st' ∧
      Path p.sqrtPrice tr r.pool.sqrtPrice ∧ tr.length = r.steps ∧ 0 ≤ st'.remaining ∧
      (if ogi then sumIn ogi tr + sumCharge tr = specified * P18 - st'.remaining
        else sumOut ogi tr = specified * P18 - st'.remaining) ∧
      (∀ e ∈ tr, StepOK ogi zfo e.st.pool.sqrtPrice e.target e.st.pool.liquidity ∧
        LimSide zfo limit e.st.pool.sqrtPrice ∧ LimSide zfo limit e.target) ∧
      (r.amountOut : ℚ) * 10 ^ 18 ≤ sumExactOut zfo tr ∧ sumExactIn zfo tr ≤ (r.amountIn : ℚ) * 10 ^ 18 := by
  obtain ⟨limit, tr, st', hl, hv, hrun, hpath, hlen, hrem, hsum, hgood, _, hc, _⟩ := swap_any_limit_of_inv hinv hspf h
  exact ⟨limit, tr, st', hl, hv, hrun, hpath, hlen, hrem, hsum,
    fun e he => ⟨(hgood e he).ok, (hgood e he).2.1, (hgood e he).2.2⟩, hc.1, hc.2⟩

/-- … for every reachable state (C07's reachability: any history of create / withdraw / add / transfer / swap messages). -/
theorem swap_vs_exact_curve_any_limit_reachable {s f : Int} (hs : 0 < s) (hf : SpfOK f) (ops : List Op) {ogi zfo : Bool}
    {pl specified : Int} {r : SwapOut}
    (h : computeSwap ogi zfo (run (initPool s f) ops).spf pl
      ⟨(run (initPool s f) ops).sqrtPrice, (run (initPool s f) ops).tick, (run (initPool s f) ops).liquidity⟩
      (tickList (run (initPool s f) ops)) specified = some r) :
    ∃ (limit : Int) (tr : List StepRec),
      sqrtPriceLimit pl zfo = some limit ∧ ValidLimit zfo limit (run (initPool s f) ops).sqrtPrice ∧
      Path (run (initPool s f) ops).sqrtPrice tr r.pool.sqrtPrice ∧ tr.length = r.steps ∧
      (∀ e ∈ tr, StepOK ogi zfo e.st.pool.sqrtPrice e.target e.st.pool.liquidity ∧
        LimSide zfo limit e.st.pool.sqrtPrice ∧ LimSide zfo limit e.target) ∧
      (r.amountOut : ℚ) * 10 ^ 18 ≤ sumExactOut zfo tr ∧ sumExactIn zfo tr ≤ (r.amountIn : ℚ) * 10 ^ 18 := by
  obtain ⟨hinv, hspf⟩ := C03.reachable_state_inv hs hf ops
  obtain ⟨limit, tr, st', hl, hv, _, hpath, hlen, _, _, hall, ho, hi⟩ := swap_vs_exact_curve_any_limit hinv hspf h
  exact ⟨limit, tr, hl, hv, hpath, hlen, hall, ho, hi⟩

/-- the full per-step record: besides `StepOK`, no step moves the price against the swap direction and every target lies
between the current price and the limit (and at sqrt prices ≥ 10^-6 going down). -/
theorem every_step_good_any_limit {p : Pool} (hinv : Inv p) (hspf : SpfOK p.spf) {ogi zfo : Bool}
    {pl specified : Int} {r : SwapOut}
    (h : computeSwap ogi zfo p.spf pl ⟨p.sqrtPrice, p.tick, p.liquidity⟩ (tickList p) specified = some r) :
    ∃ (limit : Int) (tr : List StepRec) (st' : SwapSt),
      sqrtPriceLimit pl zfo = some limit ∧
      Run ogi zfo p.spf limit
        { remaining := specified * P18, calculated := 0, pool := ⟨p.sqrtPrice, p.tick, p.liquidity⟩, spreadTotal := 0,
          noProgress := 0 } tr st' ∧
      Path p.sqrtPrice tr r.pool.sqrtPrice ∧ ∀ e ∈ tr, RecGoodL ogi zfo limit e := by
  obtain ⟨limit, tr, st', hl, _, hrun, hpath, _, _, _, hgood, _⟩ := swap_any_limit_of_inv hinv hspf h
  exact ⟨limit, tr, st', hl, hrun, hpath, hgood⟩

/-! ## 2. bounded rounding with any limit (partial-fill form of `C03.swap_shortfall_bounded`) -/

theorem swap_shortfall_bounded_any_limit {p : Pool} (hinv : Inv p) (hspf : SpfOK p.spf) {ogi zfo : Bool}
    {pl specified : Int} {r : SwapOut}
    (h : computeSwap ogi zfo p.spf pl ⟨p.sqrtPrice, p.tick, p.liquidity⟩ (tickList p) specified = some r) :
    ∃ (limit : Int) (tr : List StepRec) (st' : SwapSt),
      sqrtPriceLimit pl zfo = some limit ∧
      Run ogi zfo p.spf limit
        { remaining := specified * P18, calculated := 0, pool := ⟨p.sqrtPrice, p.tick, p.liquidity⟩, spreadTotal := 0,
          noProgress := 0 } tr st' ∧
      Path p.sqrtPrice tr r.pool.sqrtPrice ∧ tr.length = r.steps ∧
      ((r.amountOut : ℚ) * 10 ^ 18 ≤ sumExactOut zfo tr ∧ sumExactIn zfo tr ≤ (r.amountIn : ℚ) * 10 ^ 18) ∧
      ((r.amountIn : ℚ) - 1) * 10 ^ 18 <
        sumExactIn zfo tr + r.steps * inGainU zfo (pathFloor zfo p.sqrtPrice) + sumCharge tr ∧
      (ogi = true →
        sumExactOut zfo tr - r.steps * outLossU zfo (pathFloor zfo p.sqrtPrice) - 10 ^ 18 < (r.amountOut : ℚ) * 10 ^ 18) ∧
      (ogi = false →
        (sumCharge tr : ℚ) ≤ (sumIn ogi tr : ℚ) * feeRate p.spf + r.steps ∧
        ((r.amountIn : ℚ) - 1) * 10 ^ 18 <
          (sumExactIn zfo tr + r.steps * inGainU zfo (pathFloor zfo p.sqrtPrice)) * (1 + feeRate p.spf) + r.steps) := by
  obtain ⟨limit, tr, st', hl, _, hrun, hpath, hlen, _, _, _, _, hc, hr⟩ := swap_any_limit_of_inv hinv hspf h
  exact ⟨limit, tr, st', hl, hrun, hpath, hlen, hc, hr⟩

/-- with numbers, for reachable states (sqrt prices of the path ≥ 10^-6: always going down; going up when the pool's is):
exact-in `Σ exact out − 1 token − steps·(1+2·10^-6)·10^-18 token < amountOut ≤ Σ exact out`, both kinds
`Σ exact in ≤ amountIn < Σ exact in + Σ charges + (steps+1) tokens + steps·10^-24 token` — for ANY price limit. -/
theorem swap_shortfall_bounded_any_limit_reachable {s f : Int} (hs : 0 < s) (hf : SpfOK f) (ops : List Op)
    {ogi zfo : Bool} {pl specified : Int} {r : SwapOut}
    (hfloor : zfo = true ∨ 1000000000000000000000000000000 ≤ (run (initPool s f) ops).sqrtPrice)
    (h : computeSwap ogi zfo (run (initPool s f) ops).spf pl
      ⟨(run (initPool s f) ops).sqrtPrice, (run (initPool s f) ops).tick, (run (initPool s f) ops).liquidity⟩
      (tickList (run (initPool s f) ops)) specified = some r) :
    ∃ (tr : List StepRec),
      Path (run (initPool s f) ops).sqrtPrice tr r.pool.sqrtPrice ∧ tr.length = r.steps ∧
      (r.amountOut : ℚ) * 10 ^ 18 ≤ sumExactOut zfo tr ∧ sumExactIn zfo tr ≤ (r.amountIn : ℚ) * 10 ^ 18 ∧
      ((r.amountIn : ℚ) - 1) * 10 ^ 18 < sumExactIn zfo tr + r.steps * (10 ^ 18 + 1 / 10 ^ 6) + sumCharge tr ∧
      (ogi = true → sumExactOut zfo tr - r.steps * (1 + 2 / 10 ^ 6) - 10 ^ 18 < (r.amountOut : ℚ) * 10 ^ 18) := by
  obtain ⟨hinv, hspf⟩ := C03.reachable_state_inv hs hf ops
  obtain ⟨limit, tr, st', _, hrun, hpath, hlen, ⟨ho, hi⟩, hin, hout, _⟩ := swap_shortfall_bounded_any_limit hinv hspf h
  have hm : 1000000000000000000000000000000 ≤ pathFloor zfo (run (initPool s f) ops).sqrtPrice := by
    unfold pathFloor
    rcases hfloor with rfl | hge
    · simp
    · split
      · exact Int.le_refl _
      · exact hge
  have g1 := inGainU_le (zfo := zfo) hm
  have g2 := outLossU_le (zfo := zfo) hm
  have hst : (0 : ℚ) ≤ (r.steps : ℚ) := Nat.cast_nonneg _
  have m1 := mul_le_mul_of_nonneg_left g1 hst
  have m2 := mul_le_mul_of_nonneg_left g2 hst
  refine ⟨tr, hpath, hlen, ho, hi, by linarith, fun hog => ?_⟩
  have := hout hog
  linarith

/-! ## 3. the limit itself -/

/-- FALSE as first stated ("the loop never moves the price beyond the limit"): on the reachable state of C03 §8 (two
overlapping positions, price 1, spread factor 0.1 %),
* one-for-zero exact-in of 101 with the price limit 1.00000008 (sqrt 1.000000039999999201): the limit needs 100.09… of
  token1, rounded up to 101 whole tokens; 101·0.999 = 100.899 < 101 takes the not-reached branch and moves the sqrt price
  to 1.0000000403233… — beyond the limit; the swap is filled completely (`amountIn = 101`);
* zero-for-one exact-in of 81 with the price limit 0.99999992 likewise ends at 0.99999995957… < 0.9999999599999992. -/
theorem price_passes_limit_witness :
    let p := run demoInit (demoOps.take 2)
    sqrtPriceLimit (10 ^ 36 + 8 * 10 ^ 28) false = some 1000000039999999201000000000000000000 ∧
    computeSwap true false p.spf (10 ^ 36 + 8 * 10 ^ 28) ⟨p.sqrtPrice, p.tick, p.liquidity⟩ (tickList p) 101 =
      some ⟨101, 100, 0, ⟨1000000040323313047567405822755534205, 0, 2502249750187304070549754964⟩, 1, 0⟩ ∧
    (1000000039999999201000000000000000000 : Int) < 1000000040323313047567405822755534205 ∧
    sqrtPriceLimit (10 ^ 36 - 8 * 10 ^ 28) true = some 999999959999999200000000000000000000 ∧
    computeSwap true true p.spf (10 ^ 36 - 8 * 10 ^ 28) ⟨p.sqrtPrice, p.tick, p.liquidity⟩ (tickList p) 81 =
      some ⟨81, 80, 0, ⟨999999959570820994437460498185757681, -1, 2001499875062460257502969826⟩, 2, 1⟩ ∧
    (999999959570820994437460498185757681 : Int) < 999999959999999200000000000000000000 := by
  decide +kernel

/-- What HOLDS (strongest true variant), every kind, every valid limit, every state satisfying the C07 invariant:
* the swap never moves the price against its direction: the final sqrt price is on the swap side of the start;
* the final sqrt price has not passed the limit — unless the swap consumed everything: at most one raw unit (10^-18 token)
  of the specified amount is left, for exact-in nothing at all and the spread factor is positive;
* if more than one raw unit is left, the swap stopped EXACTLY at the limit (a partial fill ends at the limit). -/
theorem price_limit_respected {p : Pool} (hinv : Inv p) (hspf : SpfOK p.spf) {ogi zfo : Bool}
    {pl specified : Int} {r : SwapOut}
    (h : computeSwap ogi zfo p.spf pl ⟨p.sqrtPrice, p.tick, p.liquidity⟩ (tickList p) specified = some r) :
    ∃ (limit : Int) (tr : List StepRec) (st' : SwapSt),
      sqrtPriceLimit pl zfo = some limit ∧ ValidLimit zfo limit p.sqrtPrice ∧
      Run ogi zfo p.spf limit
        { remaining := specified * P18, calculated := 0, pool := ⟨p.sqrtPrice, p.tick, p.liquidity⟩, spreadTotal := 0,
          noProgress := 0 } tr st' ∧
      0 ≤ st'.remaining ∧
      (if ogi then sumIn ogi tr + sumCharge tr = specified * P18 - st'.remaining
        else sumOut ogi tr = specified * P18 - st'.remaining) ∧
      (if zfo then r.pool.sqrtPrice ≤ p.sqrtPrice else p.sqrtPrice ≤ r.pool.sqrtPrice) ∧
      (LimSide zfo limit r.pool.sqrtPrice ∨ (st'.remaining ≤ 1 ∧ (ogi = true → st'.remaining = 0 ∧ 0 < p.spf))) ∧
      (1 < st'.remaining → r.pool.sqrtPrice = limit) := by
  obtain ⟨limit, tr, st', hl, hv, hrun, _, _, hrem, hsum, _, ⟨a, b, c⟩, _⟩ := swap_any_limit_of_inv hinv hspf h
  exact ⟨limit, tr, st', hl, hv, hrun, hrem, hsum, a, b, c⟩

/-- the same in terms of the swap's integer results.  Exact-in: a swap that charged less than the specified amount stopped
exactly at the limit; a swap whose final price is beyond the limit charged the whole specified amount.  Exact-out: a swap
that paid out at least two tokens less than specified stopped exactly at the limit (one token less can also be the dust
case: one raw unit left); beyond the limit it paid out the specified amount or one token less. -/
theorem partial_fill_stops_at_limit {p : Pool} (hinv : Inv p) (hspf : SpfOK p.spf) {ogi zfo : Bool}
    {pl specified : Int} {r : SwapOut}
    (h : computeSwap ogi zfo p.spf pl ⟨p.sqrtPrice, p.tick, p.liquidity⟩ (tickList p) specified = some r) :
    ∃ limit, sqrtPriceLimit pl zfo = some limit ∧
      (if ogi then r.amountIn < specified else r.amountOut + 1 < specified) → r.pool.sqrtPrice = limit := by
  obtain ⟨limit, tr, st', hl, hv, hrun, hlen, hp, hrem0, _, c1, c2, hsum, hstop, _, _⟩ :=
    computeSwap_run_good_lim hinv hspf h
  refine ⟨limit, fun ⟨_, hlt⟩ => ?_⟩
  rw [hp]
  apply Classical.byContradiction
  intro hne
  apply hstop
  refine ⟨?_, hne⟩
  have hp18 : (1 : Int) < P18 := by decide
  cases ogi
  · simp only [Bool.false_eq_true, ↓reduceIte] at hlt hsum
    rw [hsum] at c2
    have h2 : (r.amountOut + 2) * P18 ≤ specified * P18 := Int.mul_le_mul_of_nonneg_right (by omega) (by omega)
    rw [Int.add_mul] at h2
    rcases Int.lt_or_le (specified * P18 - st'.remaining) 0 with hneg | hnn
    · obtain ⟨_, cb⟩ := c2.2 hneg
      omega
    · obtain ⟨_, cb⟩ := c2.1 hnn
      rw [Int.add_mul] at cb
      omega
  · simp only [↓reduceIte] at hlt hsum
    rw [hsum] at c1
    obtain ⟨_, cb⟩ := c1
    have h2 : (r.amountIn + 1) * P18 ≤ specified * P18 := Int.mul_le_mul_of_nonneg_right (by omega) (by omega)
    rw [Int.add_mul] at h2
    omega

theorem beyond_limit_is_filled {p : Pool} (hinv : Inv p) (hspf : SpfOK p.spf) {ogi zfo : Bool}
    {pl specified : Int} {r : SwapOut}
    (h : computeSwap ogi zfo p.spf pl ⟨p.sqrtPrice, p.tick, p.liquidity⟩ (tickList p) specified = some r) :
    ∃ limit, sqrtPriceLimit pl zfo = some limit ∧
      (¬ LimSide zfo limit r.pool.sqrtPrice →
        if ogi then r.amountIn = specified ∧ 0 < p.spf else specified - 1 ≤ r.amountOut ∧ r.amountOut ≤ specified) := by
  obtain ⟨limit, tr, st', hl, hv, hrun, hlen, hp, hrem0, _, c1, c2, hsum, hstop, hgood, hend⟩ :=
    computeSwap_run_good_lim hinv hspf h
  refine ⟨limit, hl, fun hnot => ?_⟩
  rw [hp] at hnot
  have hp18 := P18_pos
  rcases hend with hs | ⟨hle, hog⟩
  · exact absurd hs hnot
  · cases ogi
    · simp only [Bool.false_eq_true, ↓reduceIte] at hsum ⊢
      rw [hsum] at c2
      have hb := C03.swap_specified_side_bounded h
      simp only [Bool.false_eq_true, ↓reduceIte] at hb
      refine ⟨?_, hb⟩
      rcases Int.lt_or_le (specified * P18 - st'.remaining) 0 with hneg | hnn
      · have c := (c2.2 hneg).2
        apply Classical.byContradiction; intro hlt
        have h2 : specified * P18 - 1 ≤ r.amountOut * P18 := by omega
        have h3 : (r.amountOut + 2) * P18 ≤ specified * P18 := Int.mul_le_mul_of_nonneg_right (by omega) (by omega)
        rw [Int.add_mul] at h3
        omega
      · have c := (c2.1 hnn).2
        apply Classical.byContradiction; intro hlt
        have h3 : (r.amountOut + 2) * P18 ≤ specified * P18 := Int.mul_le_mul_of_nonneg_right (by omega) (by omega)
        rw [Int.add_mul] at h3 c
        omega
    · simp only [↓reduceIte] at hsum ⊢
      obtain ⟨h0, hz⟩ := hog rfl
      have e0 : st'.remaining = 0 := by omega
      rw [hsum, e0, Int.sub_zero] at c1
      refine ⟨c1.exact P18_pos, ?_⟩
      rcases Int.lt_or_le 0 p.spf with hpos | hnp
      · exact hpos
      · have := hz (by have := hspf.1; omega); omega

/-- exact-out, zero-for-one: the limit is NEVER passed (`GetNextSqrtPriceFromAmount1OutRoundingDown` subtracts a
rounded-up quotient that the rounded-down amount up to the target bounds). -/
theorem price_never_passes_limit_exact_out_zero_for_one {p : Pool} (hinv : Inv p) (hspf : SpfOK p.spf)
    {pl specified : Int} {r : SwapOut}
    (h : computeSwap false true p.spf pl ⟨p.sqrtPrice, p.tick, p.liquidity⟩ (tickList p) specified = some r) :
    ∃ limit, sqrtPriceLimit pl true = some limit ∧ limit ≤ r.pool.sqrtPrice ∧ r.pool.sqrtPrice ≤ p.sqrtPrice := by
  obtain ⟨limit, tr, st', hl, hv, hrun, _, hp, _, _, _, _, _, _, hgood, _⟩ := computeSwap_run_good_lim hinv hspf h
  have hs0 : LimSide true limit p.sqrtPrice := by
    unfold LimSide; simp only [↓reduceIte] at hv ⊢; exact hv.2
  have := run_within_limit_out_zfo hrun hgood hs0
  have hm := (run_floorL hrun hgood).1
  unfold LimSide at this
  simp only [↓reduceIte] at this hm
  rw [hp]
  exact ⟨limit, hl, this, hm⟩

/-- exact-in: HOW FAR a step can end beyond the limit — by less than what one token of the in-asset moves the price:
one-for-zero `(next − limit)·liquidity < 10^54` (the exact token1 amount between limit and end price is below one token),
zero-for-one `L·(1/next − 1/limit) < 1 token + 10^-24 token` (the exact token0 amount likewise).  By
`price_limit_respected` only the last step — whose end price is the swap's final price (`Path`) — can pass the limit. -/
theorem price_passes_limit_by_less_than_one_token {p : Pool} (hinv : Inv p) (hspf : SpfOK p.spf) {zfo : Bool}
    {pl specified : Int} {r : SwapOut}
    (h : computeSwap true zfo p.spf pl ⟨p.sqrtPrice, p.tick, p.liquidity⟩ (tickList p) specified = some r) :
    ∃ (limit : Int) (tr : List StepRec),
      sqrtPriceLimit pl zfo = some limit ∧ Path p.sqrtPrice tr r.pool.sqrtPrice ∧ ∀ e ∈ tr, PassBound zfo limit e := by
  obtain ⟨limit, tr, st', hl, _, hrun, hpath, _, _, _, hgood, _⟩ := swap_any_limit_of_inv hinv hspf h
  exact ⟨limit, tr, hl, hpath, run_pass_bound (spfOK_lt hspf).2 hrun hgood⟩

/-- exact-out, ONE-FOR-ZERO (`GetNextSqrtPriceFromAmount0OutRoundingUp` rounds the next sqrt price UP, i.e. in swap direction).
`…_partial`: NOT decided whether a step can end beyond the limit at all (no instance in 1.3·10^5 random trials of the step
function; the missing piece is `nextSqrtPriceAmount0Out sp l rem ≤ target` whenever `rem·10^18 < CalcAmount0Delta(target, sp)`
rounded down — three nested floors against three nested ceilings).  Proved: if a step does end beyond the limit, then by rounding
only — the exact token0 amount between the limit and the end price is below
`priceSlackOut0 = 10^36·(10^36 + liq·10^18 + next)/(sp·next)/10^18` raw units (≤ 1 + liq·10^-24 at sqrt prices ≥ 10^-6) — and
(`price_limit_respected`) at most one raw unit of the request is left, so it is the last step. -/
theorem exact_out_one_for_zero_passes_limit_by_rounding_only_partial {p : Pool} (hinv : Inv p) (hspf : SpfOK p.spf)
    {pl specified : Int} {r : SwapOut}
    (h : computeSwap false false p.spf pl ⟨p.sqrtPrice, p.tick, p.liquidity⟩ (tickList p) specified = some r) :
    ∃ (limit : Int) (tr : List StepRec),
      sqrtPriceLimit pl false = some limit ∧ Path p.sqrtPrice tr r.pool.sqrtPrice ∧
      ∀ e ∈ tr, limit < e.res.sqrtPriceNext →
        exact0 e.st.pool.liquidity limit e.res.sqrtPriceNext <
          priceSlackOut0 e.st.pool.liquidity e.st.pool.sqrtPrice e.res.sqrtPriceNext := by
  obtain ⟨limit, tr, st', hl, _, hrun, hpath, _, _, _, hgood, _⟩ := swap_any_limit_of_inv hinv hspf h
  exact ⟨limit, tr, hl, hpath, run_pass_bound_out_ofz hrun hgood⟩

/-! ## 4. estimate = execute for equal limits; invalid limits -/

/-- `swapOutAmtGivenIn` / `swapInAmtGivenOut` with the limit exposed (`execSwapL`, `swapL`) are, with `GetPriceLimit`,
exactly the model's executed swap, and `estimateSwapL … 0 …` the model's estimate. -/
theorem limit_parameter_is_conservative (p : Pool) (ogi zfo : Bool) (spf : Int) (pool : PoolSt) (ticks : Ticks)
    (specified : Int) :
    execSwapL p.scale ogi zfo spf (execPriceLimit zfo) pool ticks specified = execSwapS p.scale ogi zfo spf pool ticks specified ∧
    swapL p ogi zfo (execPriceLimit zfo) specified = CLPool.swap p ogi zfo specified ∧
    estimateSwapL ogi zfo spf 0 pool ticks specified = estimateSwap ogi zfo spf pool ticks specified :=
  ⟨execSwapL_default _ _ _ _ _ _ _, swapL_default _ _ _ _, rfl⟩

/-- an executed swap (loop WITH the accumulator update, which can only fail) and an estimate (loop without) agree for
equal price limits: same result record, in particular the same amounts and the same final price. -/
theorem estimate_eq_execute_any_limit {scale : Int} {ogi zfo : Bool} {spf pl : Int} {pool : PoolSt} {ticks : Ticks}
    {specified : Int} {r : SwapOut} {fee : Int}
    (h : execSwapL scale ogi zfo spf pl pool ticks specified = some (r, fee)) :
    computeSwap ogi zfo spf pl pool ticks specified = some r ∧
    estimateSwapL ogi zfo spf pl pool ticks specified = some (if ogi then r.amountOut else r.amountIn) :=
  execSwapL_estimate h

theorem compute_with_accumulators_refines {scale : Int} {ogi zfo : Bool} {spf pl : Int} {pool : PoolSt} {ticks : Ticks}
    {specified : Int} {r : SwapOut} (h : computeSwapS scale ogi zfo spf pl pool ticks specified = some r) :
    computeSwap ogi zfo spf pl pool ticks specified = some r := computeSwapS_some h

/-- a price limit outside `[MinSpotPriceV2, MaxSpotPrice]` has no sqrt price (`PriceBoundError`). -/
theorem limit_price_out_of_bounds {pl : Int} (zfo : Bool) (h0 : pl ≠ 0)
    (h : pl < CL.MinSpotPriceV2 ∨ pl > CL.MaxSpotPriceBigDec) : sqrtPriceLimit pl zfo = none := by
  unfold sqrtPriceLimit
  rw [if_neg h0, if_pos h]

/-- INVALID LIMITS ARE REJECTED, nothing changes: a price limit without a sqrt price, or whose sqrt price is on the wrong
side of the current sqrt price or outside `[MinSqrtPrice, MaxSqrtPrice]`, fails the amounts-only loop, the executed loop,
the executed swap, the estimate and the pool operation (`none` = error: the state machine keeps the state,
`CLBook.failed_op_noop`). -/
theorem invalid_limit_rejected {p : Pool} {ogi zfo : Bool} {pl specified : Int}
    (hbad : ∀ limit, sqrtPriceLimit pl zfo = some limit → ¬ ValidLimit zfo limit p.sqrtPrice) :
    computeSwap ogi zfo p.spf pl ⟨p.sqrtPrice, p.tick, p.liquidity⟩ (tickList p) specified = none ∧
    computeSwapS p.scale ogi zfo p.spf pl ⟨p.sqrtPrice, p.tick, p.liquidity⟩ (tickList p) specified = none ∧
    execSwapL p.scale ogi zfo p.spf pl ⟨p.sqrtPrice, p.tick, p.liquidity⟩ (tickList p) specified = none ∧
    estimateSwapL ogi zfo p.spf pl ⟨p.sqrtPrice, p.tick, p.liquidity⟩ (tickList p) specified = none ∧
    swapL p ogi zfo pl specified = none := by
  obtain ⟨a, b⟩ := invalid_limit_none (scale := p.scale) (ogi := ogi) (spf := p.spf)
    (pool := ⟨p.sqrtPrice, p.tick, p.liquidity⟩) (ticks := tickList p) (specified := specified) hbad
  obtain ⟨c, d, e⟩ := swapL_invalid_none (ogi := ogi) (specified := specified) hbad
  exact ⟨a, b, d, e, c⟩

/-- conversely every successful swap had a valid limit. -/
theorem successful_swap_had_valid_limit {ogi zfo : Bool} {spf pl : Int} {pool : PoolSt} {ticks : Ticks} {specified : Int}
    {r : SwapOut} (h : computeSwap ogi zfo spf pl pool ticks specified = some r) :
    ∃ limit, sqrtPriceLimit pl zfo = some limit ∧ ValidLimit zfo limit pool.sqrtPrice := valid_of_some h

/-! ## 5. non-vacuity: the reachable state of C03 §8 (alice [−1000, 1000), bob [0, 2000), price 1, spread factor 0.1 %) -/

/-- swaps with a limit strictly inside: one-for-zero exact-in / exact-out of 1000 with the price limit 1.00000008 stop AT
the limit after 102 in / 100 out (partial fills); with the price limit 1.0015 the exact-in of 5 000 000 crosses tick 1000
and stops at the limit inside the next bucket (2 steps, 1 tick crossed); zero-for-one exact-out of 1000 with the price
limit 0.99999992 stops at it.  The pool operation with the limit exposed moves exactly these amounts. -/
example :
    let p := run demoInit (demoOps.take 2)
    computeSwap true false p.spf (10 ^ 36 + 8 * 10 ^ 28) ⟨p.sqrtPrice, p.tick, p.liquidity⟩ (tickList p) 1000 =
      some ⟨102, 100, 101101101101101202, ⟨1000000039999999201000000000000000000, 0, 2502249750187304070549754964⟩, 1, 0⟩ ∧
    computeSwap false false p.spf (10 ^ 36 + 8 * 10 ^ 28) ⟨p.sqrtPrice, p.tick, p.liquidity⟩ (tickList p) 1000 =
      some ⟨102, 100, 101101101101101202, ⟨1000000039999999201000000000000000000, 0, 2502249750187304070549754964⟩, 1, 0⟩ ∧
    sqrtPriceLimit (10015 * 10 ^ 32) false = some 1000749718960739954000000000000000000 ∧
    computeSwap true false p.spf (10015 * 10 ^ 32) ⟨p.sqrtPrice, p.tick, p.liquidity⟩ (tickList p) 5000000 =
      some ⟨1377301, 1375140, 1377300300300301674846,
        ⟨1000749718960739954000000000000000000, 1500, 500749875124843813046785138⟩, 2, 1⟩ ∧
    computeSwap false true p.spf (10 ^ 36 - 8 * 10 ^ 28) ⟨p.sqrtPrice, p.tick, p.liquidity⟩ (tickList p) 1000 =
      some ⟨82, 80, 81081081081081162, ⟨999999959999999200000000000000000000, -1, 2001499875062460257502969826⟩, 2, 1⟩ ∧
    (swapL p true false (10 ^ 36 + 8 * 10 ^ 28) 1000).map (fun x => (x.1.sqrtPrice, x.2)) =
      some (1000000039999999201000000000000000000, 102, 100, 1) ∧
    execSwapL p.scale true false p.spf (10 ^ 36 + 8 * 10 ^ 28) ⟨p.sqrtPrice, p.tick, p.liquidity⟩ (tickList p) 1000 =
      some (⟨102, 100, 101101101101101202, ⟨1000000039999999201000000000000000000, 0, 2502249750187304070549754964⟩, 1, 0⟩, 1) ∧
    estimateSwapL true false p.spf (10 ^ 36 + 8 * 10 ^ 28) ⟨p.sqrtPrice, p.tick, p.liquidity⟩ (tickList p) 1000 = some 100 := by
  decide +kernel

/-- invalid limits on that state: a limit on the wrong side (price limit 1 − 10^-36 for one-for-zero, 1.00000008 for
zero-for-one) and a price limit above `MaxSpotPrice` are rejected. -/
example :
    let p := run demoInit (demoOps.take 2)
    swapL p true false (10 ^ 36 - 1) 1000 = none ∧ swapL p true false (10 ^ 75) 1000 = none ∧
    sqrtPriceLimit (10 ^ 75) false = none ∧ sqrtPriceLimit (10 ^ 5) true = none ∧
    computeSwap true true p.spf (10 ^ 36 + 8 * 10 ^ 28) ⟨p.sqrtPrice, p.tick, p.liquidity⟩ (tickList p) 1000 = none := by
  decide +kernel

/-- the theorems instantiated on the multi-bucket partial fill (limit price 1.0015, 5 000 000 in, 1 377 301 charged). -/
example : ∃ (tr : List StepRec), tr.length = 2 ∧
    (∀ e ∈ tr, StepOK true false e.st.pool.sqrtPrice e.target e.st.pool.liquidity ∧
      LimSide false 1000749718960739954000000000000000000 e.st.pool.sqrtPrice ∧
      LimSide false 1000749718960739954000000000000000000 e.target) ∧
    ((1375140 : Int) : ℚ) * 10 ^ 18 ≤ sumExactOut false tr ∧ sumExactIn false tr ≤ ((1377301 : Int) : ℚ) * 10 ^ 18 ∧
    sumExactOut false tr - ((2 : Nat) : ℚ) * (1 + 2 / 10 ^ 6) - 10 ^ 18 < ((1375140 : Int) : ℚ) * 10 ^ 18 := by
  have hl : sqrtPriceLimit (10015 * 10 ^ 32) false = some 1000749718960739954000000000000000000 := by decide +kernel
  have h : computeSwap true false (run (initPool 100 1000000000000000) (demoOps.take 2)).spf (10015 * 10 ^ 32)
      ⟨(run (initPool 100 1000000000000000) (demoOps.take 2)).sqrtPrice,
        (run (initPool 100 1000000000000000) (demoOps.take 2)).tick,
        (run (initPool 100 1000000000000000) (demoOps.take 2)).liquidity⟩
      (tickList (run (initPool 100 1000000000000000) (demoOps.take 2))) 5000000 =
      some ⟨1377301, 1375140, 1377300300300301674846,
        ⟨1000749718960739954000000000000000000, 1500, 500749875124843813046785138⟩, 2, 1⟩ := by decide +kernel
  obtain ⟨hinv, hspf⟩ := C03.reachable_state_inv (s := 100) (f := 1000000000000000) (by decide) ⟨by decide, by decide⟩
    (demoOps.take 2)
  obtain ⟨limit, tr, st', hl', _, hrun, hpath, hlen, _, _, hgood, _, hc, hr⟩ := swap_any_limit_of_inv hinv hspf h
  have e : limit = 1000749718960739954000000000000000000 := by
    rw [hl] at hl'; injection hl' with e; exact e.symm
  subst e
  have hfl : (1000000000000000000000000000000 : Int) ≤
      pathFloor false (run (initPool 100 1000000000000000) (demoOps.take 2)).sqrtPrice := by decide +kernel
  have g2 := outLossU_le (zfo := false) hfl
  have hout := hr.2.1 rfl
  have hout' : sumExactOut false tr - ((2 : Nat) : ℚ) *
      outLossU false (pathFloor false (run (initPool 100 1000000000000000) (demoOps.take 2)).sqrtPrice) - 10 ^ 18 <
      ((1375140 : Int) : ℚ) * 10 ^ 18 := hout
  have hlen' : tr.length = 2 := hlen
  refine ⟨tr, hlen', fun e he => ⟨(hgood e he).ok, (hgood e he).2.1, (hgood e he).2.2⟩, hc.1, hc.2, ?_⟩
  generalize outLossU false (pathFloor false (run (initPool 100 1000000000000000) (demoOps.take 2)).sqrtPrice) = O
    at g2 hout'
  generalize sumExactOut false tr = S at hout' ⊢
  push_cast at hout' ⊢
  linarith

/-- … and on the witness: the exact-in of 101 that passes the limit is filled completely, and the token1 amount that
corresponds to the overshoot is below one token. -/
example :
    (¬ LimSide false 1000000039999999201000000000000000000 1000000040323313047567405822755534205) ∧
    ((1000000040323313047567405822755534205 - 1000000039999999201000000000000000000) * 2502249750187304070549754964 : Int) <
      P36 * P18 := by
  unfold LimSide; decide +kernel

end OsmoVerif.Props.C03Limit
