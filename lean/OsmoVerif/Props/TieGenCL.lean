/-
Tie T1 for the KEEPER-LEVEL arithmetic of x/concentrated-liquidity (owning properties C01, C03, C07, C08), part A:
the model definitions of `Model/CL.lean`, `CLPool.lean`, `CLRewards.lean`, `CLFees.lean`, `CLInc.lean` are EQUAL to the
definitions the expression translator regenerates from the Go source on every run (`Gen/CLKeeperFn.lean`):

  incentives.go      computeTotalIncentivesToEmit, scaleUpTotalEmittedAmount, scaleDownIncentiveAmount and ONE ITERATION of
                     the record loop of calcAccruedIncentivesForAccum (both branches, incl. the record-runs-dry branch with
                     `QuoTruncateMut`)                                           ↔ `CLInc.emitOne` / `CLInc.emitLoop`
  spread_rewards.go  calculateSpreadRewardGrowth, getSpreadRewardGrowthOutside, scaleDownSpreadRewardAmount
                                                                                 ↔ `CLFees.growthAbove/growthBelow/growthOutside/scaleDown`
  swaps.go           SwapState.updateSpreadRewardGrowthGlobal                    ↔ `CL.scaleCheck` + `CLRewards.spreadGrowth`
                     validateSwapProgressAndAmountConsumption, edgeCaseInequalityBasedOnSwapStrategy ↔ the guards of `CL.loopBody`
  swapstrategy       UpdateTickAfterCrossing, SetLiquidityDeltaSign              ↔ the crossing step of `CL.loopBody`
  math/tick.go       TicksToSqrtPrice   (TickToSqrtPrice, RoundDownTickToSpacing, SqrtPriceToTickRoundDownSpacing: Props/TieGenCLTick.lean)
  model/pool.go      IsCurrentTickInRange, UpdateLiquidityIfActivePosition, CalcActualAmounts, ApplySwap
                                                                                 ↔ `CLPool.inRange/calcActualAmounts`, `CL.execSwap`
A changed operator, operand, operand order, comparison, branch or constant in any of these Go functions changes the
generated definition and one of the theorems below stops checking.
-/
import OsmoVerif.Model.CLInc
import OsmoVerif.Gen.CLKeeperFn
import OsmoVerif.Proofs.TieTactics

namespace OsmoVerif.Props.TieGenCL
open OsmoVerif OsmoVerif.Num OsmoVerif.CL OsmoVerif.CLPool OsmoVerif.CLFees OsmoVerif.CLRewards

/-! ### incentives.go -/

/-- `computeTotalIncentivesToEmit` = `MulTruncate` (what `CLInc.emitOne` computes first). -/
theorem computeTotalIncentivesToEmit_gen (elapsed rate : Int) :
    Gen.CLKeeper.computeTotalIncentivesToEmit elapsed rate = Dec.mulTruncate elapsed rate := rfl

/-- `scaleUpTotalEmittedAmount` = `MulTruncate`. -/
theorem scaleUpTotalEmittedAmount_gen (x factor : Int) :
    Gen.CLKeeper.scaleUpTotalEmittedAmount x factor = Dec.mulTruncate x factor := rfl

/-- `scaleDownIncentiveAmount`: `ToLegacyDec().QuoTruncateMut(factor).TruncateInt()` — `CLFees.scaleDown`, which
`CLInc.scaleDownCoins` applies to every claimed coin. -/
theorem scaleDownIncentiveAmount_model_eq_gen (q factor : Int) :
    CLFees.scaleDown q factor = Gen.CLKeeper.scaleDownIncentiveAmount q factor := rfl

/-- `sdk.NewDecCoinFromDec(denom, amount)`: panics on a negative amount. -/
def newDecCoin (d : String) (x : Int) : Option (String × Int) := if x < 0 then none else some (d, x)

/-- `DecCoins.Add(coin)`. -/
def addCoin (acc : CLInc.DC) (c : String × Int) : Option CLInc.DC := Accum.add acc [c]

/-- what `CLInc.emitLoop` does with ONE record: the per-liquidity amount of `emitOne` is validated and added to the coins
collected so far, the record gets its new remaining amount; a skipped record leaves both as they are. -/
def emitStep (now elapsedSec liq factor : Int) (u : Nat) (r : CLInc.IncRec) (add : CLInc.DC) : Option (CLInc.DC × Int) :=
  (CLInc.emitOne now elapsedSec liq factor u r).bind fun res =>
    match res with
    | none => some (add, r.remaining)
    | some (perLiq, rem) => if perLiq < 0 then none else (Accum.add add [(r.denom, perLiq)]).map fun a => (a, rem)

/-- `emitStep` IS the step of the model's record loop. -/
theorem emitLoop_cons (now elapsedSec liq factor : Int) (u : Nat) (r : CLInc.IncRec) (rest : List CLInc.IncRec) (add : CLInc.DC) :
    CLInc.emitLoop now elapsedSec liq factor u (r :: rest) add =
      (emitStep now elapsedSec liq factor u r add).bind fun (a, rem) =>
        (CLInc.emitLoop now elapsedSec liq factor u rest a).map fun (a', rs) => (a', { r with remaining := rem } :: rs) := by
  unfold emitStep
  rw [CLInc.emitLoop]
  cases CLInc.emitOne now elapsedSec liq factor u r with
  | none => rfl
  | some res =>
    cases res with
    | none => rfl
    | some pr =>
      obtain ⟨perLiq, rem⟩ := pr
      simp only [Option.bind_some]
      by_cases hneg : perLiq < 0
      · simp only [hneg, if_true, Option.bind_none]
      · simp only [hneg, if_false]
        cases Accum.add add [(r.denom, perLiq)] <;> rfl

/-- A — one iteration of the record loop of `calcAccruedIncentivesForAccum` (regenerated from incentives.go) is the step of
`CLInc.emitLoop`: start-time / uptime filter, `MulTruncate` emission, `MulTruncate` scale-up, `QuoTruncate` by the liquidity, the
`LTE` test against the remaining amount, `Sub` in the regular branch, scale-up + `QuoTruncate` of the REMAINING amount and a zero
remainder in the record-runs-dry branch, silent skip on the three overflow errors.  Go builds the DecCoin of the full emission
(`NewDecCoinFromDec`, which panics on a negative amount) before it knows which branch is taken; `hpos` says that this amount is
not negative (true for non-negative elapsed time, rate, factor and positive liquidity), so that the early validation cannot fail
where the model (which validates the amount it actually adds) succeeds. -/
theorem emitStep_model_eq_gen (now elapsedSec liq factor : Int) (u : Nat) (r : CLInc.IncRec) (add : CLInc.DC)
    (hpos : ∀ t1 t2 t3, Dec.mulTruncate elapsedSec r.rate = some t1 → Dec.mulTruncate t1 factor = some t2 →
      Dec.quoTruncate t2 liq = some t3 → 0 ≤ t3) :
    emitStep now elapsedSec liq factor u r add =
      Gen.CLKeeper.calcAccruedIncentivesForAccum_body newDecCoin addCoin r.start now (decide (r.uptime ≠ u))
        liq elapsedSec factor r.rate r.denom add r.remaining := by
  unfold emitStep CLInc.emitOne Gen.CLKeeper.calcAccruedIncentivesForAccum_body
    Gen.CLKeeper.computeTotalIncentivesToEmit Gen.CLKeeper.scaleUpTotalEmittedAmount
  simp only [decide_eq_true_eq]
  by_cases hf : ¬ (r.start < now) ∨ r.uptime ≠ u
  · simp only [hf, if_true, Option.bind_some]
  · simp only [hf, if_false]
    cases h1 : Dec.mulTruncate elapsedSec r.rate with
    | none => simp only [Option.bind_some]
    | some t1 =>
      simp only []
      cases h2 : Dec.mulTruncate t1 factor with
      | none => simp only [Option.bind_some]
      | some t2 =>
        simp only []
        cases h3 : Dec.quoTruncate t2 liq with
        | none => simp only [Option.bind_none]
        | some t3 =>
          have h0 : ¬ t3 < 0 := Int.not_lt.mpr (hpos t1 t2 t3 h1 h2 h3)
          simp only [Option.bind_some, newDecCoin, addCoin, h0, if_false]
          by_cases hle : t1 ≤ r.remaining
          · simp only [hle, if_true]
            cases Dec.sub r.remaining t1 with
            | none =>
              simp only [Option.map_none, Option.bind_none]
              cases Accum.add add [(r.denom, t3)] <;> rfl
            | some rem =>
              simp only [Option.map_some, Option.bind_some, h0, if_false]
              cases Accum.add add [(r.denom, t3)] <;> rfl
          · simp only [hle, if_false]
            cases Dec.mulTruncate r.remaining factor with
            | none => simp only [Option.bind_some]
            | some t7 =>
              simp only []
              cases Dec.quoTruncate t7 liq with
              | none => simp only [Option.map_none, Option.bind_none]
              | some t8 =>
                simp only [Option.map_some, Option.bind_some]
                by_cases h8 : t8 < 0
                · simp only [h8, if_true, Option.bind_none]
                · simp only [h8, if_false, Option.bind_some]
                  cases Accum.add add [(r.denom, t8)] <;> rfl

/-! ### spread_rewards.go -/

/-- `scaleDownSpreadRewardAmount` = `CLFees.scaleDown`. -/
theorem scaleDownSpreadRewardAmount_model_eq_gen (q scale : Int) :
    CLFees.scaleDown q scale = Gen.CLKeeper.scaleDownSpreadRewardAmount q scale := rfl

/-- `calculateSpreadRewardGrowth(upperTick, …, isUpperTick = true)`: `currentTick >= upperTick` ⇒ global − outside. -/
theorem growthAbove_model_eq_gen (cur : Int) (global out : V2) (upper : Int) :
    CLFees.growthAbove cur global out upper = Gen.CLKeeper.calculateSpreadRewardGrowth V2.sub upper out cur global true := by
  unfold CLFees.growthAbove Gen.CLKeeper.calculateSpreadRewardGrowth
  simp only [true_and, not_true_eq_false, false_and, or_false]

/-- `calculateSpreadRewardGrowth(lowerTick, …, isUpperTick = false)`: `currentTick < lowerTick` ⇒ global − outside. -/
theorem growthBelow_model_eq_gen (cur : Int) (global out : V2) (lower : Int) :
    CLFees.growthBelow cur global out lower = Gen.CLKeeper.calculateSpreadRewardGrowth V2.sub lower out cur global false := by
  unfold CLFees.growthBelow Gen.CLKeeper.calculateSpreadRewardGrowth
  simp only [Bool.false_eq_true, false_and, not_false_eq_true, true_and, false_or]

/-- `getSpreadRewardGrowthOutside`: growth above the upper tick + growth below the lower tick, read from the pool's current
tick, the two tick infos (`GetTickInfo` = `CLFees.tickOut`) and the accumulator value. -/
theorem growthOutside_model_eq_gen (cur : Int) (global : V2) (outs : List (Int × V2)) (lower upper : Int) :
    CLFees.growthOutside cur global outs lower upper =
      Gen.CLKeeper.getSpreadRewardGrowthOutside (some ()) (fun _ => cur) (fun t => some (CLFees.tickOut cur global outs t)) id
        (some ()) (fun _ => global) V2.sub V2.add lower upper := by
  unfold CLFees.growthOutside Gen.CLKeeper.getSpreadRewardGrowthOutside
  simp only [Option.bind_some, id, decide_true, decide_false, ← growthAbove_model_eq_gen, ← growthBelow_model_eq_gen]

/-! ### swaps.go -/

/-- `SwapState.updateSpreadRewardGrowthGlobal`: the scale-up (skipped for factor one), `globalSpreadRewardGrowth.Add(charge)`,
zero growth for zero liquidity, else `QuoTruncate` by the liquidity and `AddMut` to the per-unit growth — `CL.scaleCheck` (whether
the step's accumulator update succeeds), `Dec.add` of the total (`CL.loopBody`), `CLRewards.spreadGrowth` (the growth credited). -/
theorem updateSpreadRewardGrowthGlobal_model_eq_gen (charge scale liq total perUnit : Int) :
    Gen.CLKeeper.updateSpreadRewardGrowthGlobal charge scale liq total perUnit =
      (CL.scaleCheck scale charge liq).bind fun _ =>
      (Dec.add total charge).bind fun tot' =>
      (CLRewards.spreadGrowth charge liq scale).bind fun g =>
      if liq = 0 then some (0, tot', perUnit) else (Dec.add perUnit g).map fun p' => (g, tot', p') := by
  have hP : (1000000000000000000 : Int) = P18 := by decide
  unfold Gen.CLKeeper.updateSpreadRewardGrowthGlobal Gen.CLKeeper.scaleUpTotalEmittedAmount CL.scaleCheck CLRewards.spreadGrowth
  rw [hP]
  by_cases hs : scale = P18
  · by_cases hl : liq = 0
    · cases Dec.add total charge <;> simp [hs, hl]
    · cases hq : Dec.quoTruncate charge liq with
      | none => cases Dec.add total charge <;> simp [hs, hl, hq, bind]
      | some g => cases Dec.add total charge <;> simp [hs, hl, hq, bind] <;> cases Dec.add perUnit g <;> rfl
  · cases Dec.mulTruncate charge scale with
    | none => simp [hs]
    | some sc =>
      by_cases hl : liq = 0
      · cases Dec.add total charge <;> simp [hs, hl]
      · cases hq : Dec.quoTruncate sc liq with
        | none => cases Dec.add total charge <;> simp [hs, hl, hq, bind]
        | some g => cases Dec.add total charge <;> simp [hs, hl, hq, bind] <;> cases Dec.add perUnit g <;> rfl

/-- `validateSwapProgressAndAmountConsumption`: the guard of `CL.loopBody`
(`if r.sqrtPriceNext = st.pool.sqrtPrice ∧ ¬ (amtIn = 0 ∧ amtOut = 0) then none`). -/
theorem validateSwapProgress_gen (computed start amtIn amtOut : Int) :
    Gen.CLKeeper.validateSwapProgressAndAmountConsumption computed start amtIn amtOut =
      if computed = start ∧ ¬ (amtIn = 0 ∧ amtOut = 0) then none else some () := rfl

/-- `edgeCaseInequalityBasedOnSwapStrategy`: the `ComputedSqrtPriceInequalityError` test of `CL.loopBody`
(`if zfo then nextSp > r.sqrtPriceNext else nextSp < r.sqrtPriceNext`). -/
theorem edgeCaseInequality_gen (zfo : Bool) (nextSp computed : Int) :
    Gen.CLKeeper.edgeCaseInequalityBasedOnSwapStrategy zfo nextSp computed =
      some (decide (if zfo then nextSp > computed else nextSp < computed)) := by
  unfold Gen.CLKeeper.edgeCaseInequalityBasedOnSwapStrategy
  cases zfo <;> simp

/-- the crossing step of `CL.loopBody`: `tick := if zfo then nextTick - 1 else nextTick` is `UpdateTickAfterCrossing` of the
two strategies, `liquidity += (if zfo then -net else net)` is `SetLiquidityDeltaSign`. -/
theorem crossing_tick_gen (zfo : Bool) (nextTick : Int) :
    some (if zfo then nextTick - 1 else nextTick) =
      (if zfo then Gen.CLKeeper.zeroForOne_UpdateTickAfterCrossing nextTick else Gen.CLKeeper.oneForZero_UpdateTickAfterCrossing nextTick) := by
  cases zfo <;> rfl

theorem crossing_liquidity_sign_gen (zfo : Bool) (net : Int) :
    some (if zfo then -net else net) =
      (if zfo then Gen.CLKeeper.zeroForOne_SetLiquidityDeltaSign net else Gen.CLKeeper.oneForZero_SetLiquidityDeltaSign net) := by
  cases zfo <;> rfl

/-! ### math/tick.go, model/pool.go -/

/-- `Pool.IsCurrentTickInRange`: `lowerTick ≤ currentTick < upperTick` (half-open!) = `CLPool.inRange`. -/
theorem inRange_model_eq_gen (p : Pool) (lower upper : Int) :
    some (CLPool.inRange p lower upper) = Gen.CLKeeper.IsCurrentTickInRange p.tick lower upper := rfl

/-- `Pool.UpdateLiquidityIfActivePosition`: the liquidity `CLPool.updatePosition` gives the pool
(`if inRange p lower upper then p.liquidity + delta else p.liquidity`), whenever the Go `Add` does not overflow. -/
theorem updateLiquidityIfActive_gen (p : Pool) (lower upper delta : Int) (b : Bool) (liq' : Int)
    (h : Gen.CLKeeper.UpdateLiquidityIfActivePosition p.tick p.liquidity lower upper delta = some (b, liq')) :
    b = CLPool.inRange p lower upper ∧ liq' = (if CLPool.inRange p lower upper then p.liquidity + delta else p.liquidity) := by
  unfold Gen.CLKeeper.UpdateLiquidityIfActivePosition Gen.CLKeeper.IsCurrentTickInRange at h
  simp only [Option.bind_some] at h
  by_cases hr : CLPool.inRange p lower upper = true
  · have hr' := hr
    unfold CLPool.inRange at hr'
    rw [hr'] at h
    simp only [if_true] at h
    unfold Dec.add chkDec at h
    split at h
    · simp only [Option.bind_some, Option.some.injEq, Prod.mk.injEq, decide_true] at h
      simp only [hr, if_true]
      exact ⟨h.1.symm, h.2.symm⟩
    · simp at h
  · have hr' : CLPool.inRange p lower upper = false := by simpa using hr
    have hr'' := hr'
    unfold CLPool.inRange at hr''
    rw [hr''] at h
    simp only [Bool.false_eq_true, if_false, Option.some.injEq, Prod.mk.injEq, decide_false] at h
    simp only [hr', Bool.false_eq_true, if_false]
    exact ⟨h.1.symm, h.2.symm⟩

/-- `Pool.CalcActualAmounts` — zero-delta error, `TicksToSqrtPrice` (range check, upper tick first), the three cases by the
position of the current tick, `CalcAmount0Delta` / `CalcAmount1Delta` with their operands and the rounding flag
`liquidityDelta.IsPositive()`, `DecRoundUp` when adding and `Dec` (truncation) when removing — is `CLPool.calcActualAmounts`. -/
theorem calcActualAmounts_model_eq_gen (p : Pool) (lower upper delta : Int) :
    CLPool.calcActualAmounts p lower upper delta =
      Gen.CLKeeper.CalcActualAmounts Tick.tickToSqrtPrice CL.calcAmount0Delta CL.calcAmount1Delta p.tick p.sqrtPrice lower upper delta := by
  unfold CLPool.calcActualAmounts Gen.CLKeeper.CalcActualAmounts Gen.CLKeeper.TicksToSqrtPrice Gen.CLKeeper.IsCurrentTickInRange
  by_cases hd : delta = 0
  · simp only [hd, if_true]
  · simp only [hd, if_false]
    by_cases hlu : lower ≥ upper
    · simp only [hlu, if_true, bind, Option.bind_none, Option.bind]
    · simp only [hlu, if_false, bind, pure, Option.bind_some]
      cases Tick.tickToSqrtPrice upper with
      | none => rfl
      | some spU =>
        simp only [Option.bind_some]
        cases Tick.tickToSqrtPrice lower with
        | none => rfl
        | some spL =>
          simp only [Option.bind_some, CLPool.inRange]
          by_cases hin : p.tick ≥ lower ∧ p.tick < upper
          · simp only [hin, decide_true, if_true]
            cases CL.calcAmount0Delta delta p.sqrtPrice spU (decide (delta > 0)) with
            | none => rfl
            | some a0 =>
              simp only [Option.bind_some]
              cases CL.calcAmount1Delta delta p.sqrtPrice spL (decide (delta > 0)) with
              | none => rfl
              | some a1 =>
                simp only [Option.bind_some, decide_eq_true_eq]
          · simp only [hin, decide_false, Bool.false_eq_true, if_false]
            by_cases hlt : p.tick < lower
            · simp only [hlt, if_true]
              cases CL.calcAmount0Delta delta spL spU (decide (delta > 0)) with
              | none => rfl
              | some a0 =>
                simp only [Option.bind_some, decide_eq_true_eq]
            · simp only [hlt, if_false]
              cases CL.calcAmount1Delta delta spL spU (decide (delta > 0)) with
              | none => rfl
              | some a1 =>
                simp only [Option.bind_some, decide_eq_true_eq]

/-- `Pool.ApplySwap`: the validation `CL.execSwap` applies to the result of the loop (negative liquidity, negative sqrt price,
tick outside `[MinCurrentTick, MaxTick]`), then the three fields are overwritten. -/
theorem applySwap_gen (liq tick sp : Int) :
    Gen.CLKeeper.ApplySwap liq tick sp =
      if liq < 0 ∨ sp < 0 ∨ tick < Gen.CL.MinCurrentTick ∨ tick > Gen.CL.MaxTick then none else some (liq, tick, sp) := by
  have h1 : (-108000001 : Int) = Gen.CL.MinCurrentTick := by decide
  have h2 : (342000000 : Int) = Gen.CL.MaxTick := by decide
  unfold Gen.CLKeeper.ApplySwap
  rw [h1, h2]
  by_cases a : liq < 0
  · simp only [a, if_true, true_or]
  · by_cases b : sp < 0
    · simp only [a, b, if_true, if_false, true_or, or_true]
    · simp only [a, b, if_false, false_or]

end OsmoVerif.Props.TieGenCL
