/-
C09 — incentive gauges pay pro-rata, on schedule, and never more than they hold.
Theorems over `OsmoVerif.Incentives` (lock-based `ByDuration` gauges of x/incentives, tied to the real incentives +
lockup keepers by the `incentives` engine through the app).  All history theorems quantify over EVERY finite list
of operations (`Op`: create gauge, top up, change the routed denoms, epoch with ARBITRARY lock lists / minimum
tables / block times) from an arbitrary initial configuration — `Reachable`.

Sub-claims the code (and therefore the model) does NOT satisfy are refuted on concrete witnesses:
 * `payout_wrong_receiver_witness`  (an owner with locks naming different receivers: all go to the first lock's receiver),
 * `finishes_without_paying_witness` (a gauge without a qualifying lock in its last epoch finishes with unpaid epochs),
 * `spam_rule_skips_payout_witness`  (a gauge whose remainder is one coin of ≤ 100 units pays nothing, whatever the minimum),
 * `zero_converted_minimum_skips_later_locks_witness`, `zero_converted_minimum_starves_later_gauge_witness` (a reward denom
   whose converted minimum is 0: the zero is also the cache's "no route" sentinel, so only the first lock that meets the
   denom in the epoch is paid; `zero_quote_pays_first_lock_only` shows this for every input),
 * `failing_minimum_quote_blocks_every_gauge_witness` (a route whose pool cannot quote the minimum fails the whole hook),
 * `topup_accepted_by_finished_gauge_witness` (a gauge of the finished store with unpaid epochs accepts deposits it never pays).
The positive counterpart: `min_value_filter`, `lock_payout_exact_of_nonzero_quote`, `epoch_pays_clause_of_no_zero_quote`.
Out of scope (not modelled, not generated): NoLock/CL gauges, group gauges, synthetic denoms.
-/
import OsmoVerif.Proofs.IncentivesMinValue

namespace OsmoVerif.Props.C09
open OsmoVerif.Incentives

/-! ## never more than was deposited -/

/-- **a gauge never distributes more than was deposited into it** (per denom, in every reachable state). -/
theorem distributed_le_coins {s : State} (h : Reachable s) :
    ∀ g ∈ s.gauges, ∀ d, 0 ≤ amountOf g.distributed d ∧ amountOf g.distributed d ≤ amountOf g.coins d := by
  intro g hg d
  have := (reachable_inv h).1.g g hg
  exact ⟨amountOf_nonneg this.vd d, this.le d⟩

/-- **the incentives module account always holds at least the undistributed remainder of all unfinished
gauges** (it even covers the remainder of the finished ones: `bal`). -/
theorem module_balance_ge_undistributed {s : State} (h : Reachable s) (d : Denom) :
    undistributed s d ≤ amountOf s.balance d ∧ owed s.gauges d ≤ amountOf s.balance d := by
  have hi := (reachable_inv h).1
  refine ⟨Int.le_trans (owed_filter_le _ (fun g hg => ?_)) (hi.bal d), hi.bal d⟩
  have := (hi.g g hg).le d
  unfold rem; omega

/-- what an epoch sends leaves the module account, and nothing else does. -/
theorem epoch_module_pays_what_is_sent {s s' : State} {now : Int} {thr : Quotes} {locks : List Lock} {info : Info}
    (hr : Reachable s) (h : epoch s now thr locks = some (s', info)) (d : Denom) :
    amountOf s'.balance d = amountOf s.balance d - amountOf (infoTotal info) d := by
  have hi := (reachable_inv hr).1
  obtain ⟨up, act, snap, store, bal, act', fin, h1, h2, h3, h4, h5, rfl⟩ := epoch_unfold h
  have F := epochFacts hi h1 h2 h5
  obtain ⟨_, _, j3, _⟩ := distributeLoop_spec h3 hi.ids F.snapNodup F.snapMem hi.g (fun _ he => absurd he List.not_mem_nil)
  exact (subCoins_spec hi.vbal (valid_infoTotal j3) h4).2 d

/-! ## the per-epoch payout -/

/-- **epoch payout formula.**  When an active lock gauge is processed (`distributeGauge` writes its record) with
the minimum-value cache `m` it finds: the per-epoch divisor is `e` = 1 for perpetual gauges and `numEpochs − filled`
otherwise; unless the gauge has nothing left or falls under the spam rule, EVERY qualifying lock (`gaugeLocks`:
gauge denom, duration ≥ gauge duration, unlocking or not) gets one queue entry addressed to its reward receiver
(owner when unset) holding, per reward denom, exactly `owedToLock` — the floor of remaining·lockAmt/(lockSum·e)
unless filtered — and no entry at all when every denom is filtered; the FIRST lock is filtered with the cache as the
gauge found it (`minFilter m`), every later lock with the cache after the first lock (`minFilter (m.after remain)`);
the gauge's newly distributed total is the sum of these entries.  What the two filters are: `min_value_filter`. -/
theorem epoch_payout_formula {m : MinVal} {locks : List Lock} {g : Gauge} {total : Coins} {pays : List Pay}
    (hg : GInv g) (h : distributeGauge m locks g = some (some (total, pays))) :
    ∃ remain e, subCoins g.coins g.distributed = some remain ∧ (∀ d, amountOf remain d = rem g d) ∧
      remainEpochs g = some e ∧ e = (if g.perpetual then 1 else (g.numEpochs : Int) - (g.filled : Int)) ∧ 1 ≤ e ∧
      (((remain.isEmpty = true ∨ isSpam remain = true) ∧ total = [] ∧ pays = []) ∨
       (remain.isEmpty = false ∧ isSpam remain = false ∧ 0 < lockSum (gaugeLocks g locks) ∧ m.fails remain = false ∧
        pays = ((gaugeLocks g locks).take 1).filterMap (payOf (minFilter m) remain (lockSum (gaugeLocks g locks) * e)) ++
               ((gaugeLocks g locks).drop 1).filterMap (payOf (minFilter (m.after remain)) remain (lockSum (gaugeLocks g locks) * e)) ∧
        total = sumPays pays ∧
        ∀ (f : Filter) (l : Lock) (d : Denom), amountOf (lockCoins f remain (lockSum (gaugeLocks g locks) * e) l.amount) d =
          owedToLock f d (rem g d) l.amount (lockSum (gaugeLocks g locks)) e)) := by
  obtain ⟨remain, e, hrem, he, _, hcase⟩ := distributeGauge_written h
  obtain ⟨hrv, hra⟩ := subCoins_spec hg.vc hg.vd hrem
  have hra' : ∀ d, amountOf remain d = rem g d := fun d => by rw [hra d]; rfl
  have hee : e = (if g.perpetual then 1 else (g.numEpochs : Int) - (g.filled : Int)) := by
    unfold remainEpochs at he
    split at he
    · rename_i hp; cases he; rw [if_pos hp]
    · rename_i hp
      split at he
      · cases he; rw [if_neg hp]
      · cases he
  refine ⟨remain, e, hrem, hra', he, hee, remainEpochs_pos he, ?_⟩
  rcases hcase with hskip | ⟨h1, h2, hS, hf, hp, ht⟩
  · exact Or.inl hskip
  · refine Or.inr ⟨h1, h2, hS, hf, by rw [hp, lockPays_eq_filterMap], ht, fun f l d => ?_⟩
    rw [lockCoins_amount f hrv, hra' d]
    have hR : 0 ≤ rem g d := by have := hg.le d; unfold rem; omega
    have hsh : share (rem g d) l.amount (lockSum (gaugeLocks g locks) * e) =
        floorShare (rem g d) l.amount (lockSum (gaugeLocks g locks)) e := by
      unfold share floorShare
      exact Int.tdiv_eq_ediv_of_nonneg (Int.mul_nonneg hR (Int.natCast_nonneg _))
    rw [hsh]; rfl

/-- which locks qualify: exactly those holding the gauge's denom for at least the gauge's duration
(whether or not they have begun unlocking), and none when the gauge never held coins. -/
theorem qualifying_locks (g : Gauge) (locks : List Lock) (l : Lock) :
    l ∈ gaugeLocks g locks ↔ g.coins ≠ [] ∧ l ∈ locks ∧ l.denom = g.denom ∧ g.duration ≤ l.duration := by
  unfold gaugeLocks
  cases hc : g.coins with
  | nil => simp
  | cons c cs => simp [qualifies]

/-- the gauges one epoch processes are exactly the active ones after activation (each once), and the gauge loop
runs over them from the stored records with an EMPTY minimum-value cache. -/
theorem epoch_snapshot {s s' : State} {now : Int} {thr : Quotes} {locks : List Lock} {info : Info}
    (hr : Reachable s) (h : epoch s now thr locks = some (s', info)) :
    ∃ snap : List Gauge, (∀ g ∈ snap, g ∈ s.gauges) ∧ (snap.map (·.id)).Nodup ∧
      (∀ i, i ∈ snap.map (·.id) ↔ i ∈ refsIds s.active ∨
          (i ∈ refsIds s.upcoming ∧ i ∉ refsIds (s.upcoming.filter (fun kv => decide (now < kv.1))))) ∧
      distributeLoop ⟨thr, []⟩ locks snap s.gauges [] = some (s'.gauges, info) := by
  have hi := (reachable_inv hr).1
  obtain ⟨up, act, snap, store, bal, act', fin, h1, h2, h3, h4, h5, rfl⟩ := epoch_unfold h
  have F := epochFacts hi h1 h2 h5
  refine ⟨snap, F.snapMem, F.snapNodup, fun i => ?_, h3⟩
  rw [F.snapIds, ← F.upEq]
  constructor
  · intro hia
    rcases F.actFrom i hia with hu | ha
    · exact Or.inr ⟨hu, F.actNotUp i hia⟩
    · exact Or.inl ha
  · rintro (ha | ⟨hu, hnu⟩)
    · exact F.keepActive i ha
    · rcases activate_split h1 i hu with h' | h'
      · exact absurd h' hnu
      · exact h'

/-- **receipts of one epoch.**  The gauges processed are exactly the active ones after activation; the send
queue is the fold of their entries; the module account is debited by exactly the queued total; and when every
owner's qualifying locks name ONE receiver, every address receives exactly the entries addressed to it (so
nobody else gets anything). -/
theorem epoch_receipts {s s' : State} {now : Int} {thr : Quotes} {locks : List Lock} {info : Info}
    (hr : Reachable s) (h : epoch s now thr locks = some (s', info)) :
    ∃ snap : List Gauge, (∀ g ∈ snap, g ∈ s.gauges) ∧ (snap.map (·.id)).Nodup ∧
      (∀ i, i ∈ snap.map (·.id) ↔ i ∈ refsIds s.active ∨
          (i ∈ refsIds s.upcoming ∧ i ∉ refsIds (s.upcoming.filter (fun kv => decide (now < kv.1))))) ∧
      info = (snapPays ⟨thr, []⟩ locks snap).foldl addLockRewards [] ∧
      (∀ d, amountOf (infoTotal info) d = paysAmt (snapPays ⟨thr, []⟩ locks snap) d) ∧
      (Consistent (snapPays ⟨thr, []⟩ locks snap) → ∀ r d, recvAmt info r d = paysTo (snapPays ⟨thr, []⟩ locks snap) r d) := by
  obtain ⟨snap, k1, k2, k3, h3⟩ := epoch_snapshot hr h
  have hinfo := distributeLoop_info h3
  refine ⟨snap, k1, k2, k3, hinfo, fun d => ?_, fun hc r d => ?_⟩
  · rw [hinfo, amountOf_infoTotal_foldl]; simp [infoTotal, amountOf]
  · rw [hinfo, recvAmt_foldl hc (fun e he => absurd he List.not_mem_nil)]; simp [recvAmt]

/-! ## the minimum-value filter ("skipping only amounts worth less than the configured minimum, or not valuable at all") -/

/-- **what the filter decides**, for every cache state `m` a `Distribute` call can be in (`CacheOK`: cached values
are the call's own quotes): for the minimum-value denom itself and for every denom whose converted minimum `v` is
NOT zero, an amount passes iff `v ≤ amount` — the property's clause; a denom without route (or whose quote fails)
never passes; a non-base denom whose converted minimum IS zero passes only while it is not cached. -/
theorem min_value_filter {m : MinVal} (hc : CacheOK m) (d : Denom) (a : Int) :
    (∀ v, assoc m.quotes d = some (some v) → (d = Gen.Incentives.BaseCoinUnit ∨ v ≠ 0) → minFilter m d a = decide (v ≤ a)) ∧
    ((assoc m.quotes d = none ∨ assoc m.quotes d = some none) → minFilter m d a = false) ∧
    (d ≠ Gen.Incentives.BaseCoinUnit → assoc m.quotes d = some (some 0) →
      minFilter m d a = ((assoc m.cache d).isNone && decide (0 ≤ a))) :=
  ⟨fun _ hq hv => minFilter_clause hc hq hv a, fun hq => minFilter_no_value hc hq a, fun hb hq => minFilter_zero_quote hc hb hq a⟩

/-- **payouts of a denom whose converted minimum is not zero are exactly the floor shares worth the minimum**: for
a processed gauge (any consistent cache state, whatever the OTHER denoms are quoted at) every lock — the first one
and the later ones — receives of denom `d` exactly ⌊remaining·lockAmt/(lockSum·e)⌋ when that is at least the
converted minimum `v` (and positive), and nothing otherwise. -/
theorem lock_payout_exact_of_nonzero_quote {m : MinVal} (hc : CacheOK m) {locks : List Lock} {g : Gauge} {total : Coins}
    {pays : List Pay} (hg : GInv g) (h : distributeGauge m locks g = some (some (total, pays))) {d : Denom} {v : Int}
    (hq : assoc m.quotes d = some (some v)) (hv : d = Gen.Incentives.BaseCoinUnit ∨ v ≠ 0) :
    ∃ remain e, subCoins g.coins g.distributed = some remain ∧ remainEpochs g = some e ∧ ∀ l : Lock,
      amountOf (lockCoins (minFilter m) remain (lockSum (gaugeLocks g locks) * e) l.amount) d =
        owedToLock (fun _ a => decide (v ≤ a)) d (rem g d) l.amount (lockSum (gaugeLocks g locks)) e ∧
      amountOf (lockCoins (minFilter (m.after remain)) remain (lockSum (gaugeLocks g locks) * e) l.amount) d =
        owedToLock (fun _ a => decide (v ≤ a)) d (rem g d) l.amount (lockSum (gaugeLocks g locks)) e := by
  obtain ⟨remain, e, hrem, he, _, _⟩ := distributeGauge_written h
  obtain ⟨hrv, hra⟩ := subCoins_spec hg.vc hg.vd hrem
  refine ⟨remain, e, hrem, he, fun l => ?_⟩
  have hR : 0 ≤ rem g d := by have := hg.le d; unfold rem; omega
  have hsh : share (amountOf remain d) l.amount (lockSum (gaugeLocks g locks) * e) =
      floorShare (rem g d) l.amount (lockSum (gaugeLocks g locks)) e := by
    have : amountOf remain d = rem g d := by rw [hra d]; rfl
    rw [this]
    unfold share floorShare
    exact Int.tdiv_eq_ediv_of_nonneg (Int.mul_nonneg hR (Int.natCast_nonneg _))
  have hc' := CacheOK_after hc remain
  have hq' : assoc (m.after remain).quotes d = some (some v) := by rw [MinVal.after_quotes]; exact hq
  constructor
  · rw [lockCoins_amount _ hrv, hsh, minFilter_clause hc hq hv]; rfl
  · rw [lockCoins_amount _ hrv, hsh, minFilter_clause hc' hq' hv]; rfl

/-- THE QUIRK for every input: a non-base remaining denom whose converted minimum is ZERO is paid to NO lock after
the gauge's first one (and, the cache being shared, to no lock of any later gauge of the epoch: `min_value_filter`). -/
theorem zero_quote_pays_first_lock_only {m : MinVal} (hc : CacheOK m) {remain : Coins} (hrv : validCoins remain = true)
    {d : Denom} (hb : d ≠ Gen.Incentives.BaseCoinUnit) (hq : assoc m.quotes d = some (some 0))
    (hm : d ∈ remain.map (·.1)) (den : Int) (l : Lock) :
    amountOf (lockCoins (minFilter (m.after remain)) remain den l.amount) d = 0 := by
  rw [lockCoins_amount _ hrv, minFilter_after_zero_quote hc remain hb hq hm]; rfl

/-- **an epoch pays exactly the property's clause when no converted minimum is zero**: the send queue is the fold,
over the active gauges in order and their qualifying locks in order, of the floor shares that are worth the
configured minimum converted through the route's quote (`worthMinimum`: no route ⇒ nothing), cache or not. -/
theorem epoch_pays_clause_of_no_zero_quote {s s' : State} {now : Int} {q : Quotes} {locks : List Lock} {info : Info}
    (hr : Reachable s) (h : epoch s now q locks = some (s', info)) (hz : NoZeroQuote q) :
    ∃ snap : List Gauge, (∀ g ∈ snap, g ∈ s.gauges) ∧ (snap.map (·.id)).Nodup ∧
      (∀ i, i ∈ snap.map (·.id) ↔ i ∈ refsIds s.active ∨
          (i ∈ refsIds s.upcoming ∧ i ∉ refsIds (s.upcoming.filter (fun kv => decide (now < kv.1))))) ∧
      info = (snap.flatMap (clausePays (worthMinimum q) locks)).foldl addLockRewards [] := by
  obtain ⟨snap, k1, k2, k3, h3⟩ := epoch_snapshot hr h
  refine ⟨snap, k1, k2, k3, ?_⟩
  rw [distributeLoop_info h3, snapPays_eq_clausePays (CacheOK_empty q) hz h3]

/-- REFUTED sub-claim (skipping "only amounts worth less than the configured minimum"): the minimum 10000uosmo
converts to 0rewx (one rewx is worth more); three locks of 100 each, gauge 3000rewx: the clause owes 1000 each, the
code pays the first lock (cache miss: `0 ≤ 1000`) and skips the two others (cache hit: the cached 0 reads "no route"). -/
theorem zero_converted_minimum_skips_later_locks_witness :
    let s0 := run (init ⟨[3600], ["lp"], ["rewx"]⟩ []) [.create true "lp" 3600 [("rewx", 3000)] 0 1]
    let q : Quotes := [("rewx", some 0), ("uosmo", some 10000)]
    let locks : List Lock := [⟨1, 0, none, 3600, "lp", 100, false⟩, ⟨2, 1, none, 3600, "lp", 100, false⟩, ⟨3, 2, none, 3600, "lp", 100, false⟩]
    (epoch s0 10 q locks).map (fun r => received r.2) = some [(0, [("rewx", 1000)])] ∧
    (s0.gauges.flatMap (clausePays (worthMinimum q) locks)).map (fun p => (p.receiver, p.coins)) =
      [(0, [("rewx", 1000)]), (1, [("rewx", 1000)]), (2, [("rewx", 1000)])] := by decide +kernel

set_option synthInstance.maxSize 1024 in
/-- the cache is shared by the gauges of one `Distribute`: the first gauge's only lock is paid, the second gauge
(other lock denom, two locks) pays NOBODY — and still counts the epoch as one of its two. -/
theorem zero_converted_minimum_starves_later_gauge_witness :
    (epoch (run (init ⟨[3600], ["lpa", "lpb"], ["rewx"]⟩ [])
        [.create true "lpa" 3600 [("rewx", 3000)] 0 1, .create false "lpb" 3600 [("rewx", 4000)] 0 2])
      10 [("rewx", some 0), ("uosmo", some 10000)]
      [⟨1, 0, none, 3600, "lpa", 100, false⟩, ⟨2, 1, none, 3600, "lpb", 100, false⟩, ⟨3, 2, none, 3600, "lpb", 100, false⟩]).map
      (fun r => (received r.2, r.1.gauges.map (fun g => (g.filled, g.distributed)))) =
    some ([(0, [("rewx", 3000)])], [(1, [("rewx", 3000)]), (1, [])]) := by decide +kernel

/-- REFUTED sub-claim (every active gauge pays at the epoch): the pool behind rewx's route cannot quote the minimum
(a balancer pool returns an error for an output of 0): the whole hook fails — also for the unrelated uosmo gauge —
and the state stays as it was (`failed_op_noop`), epoch after epoch. -/
theorem failing_minimum_quote_blocks_every_gauge_witness :
    let s0 := run (init ⟨[3600], ["lpa", "lpb"], ["rewx"]⟩ [])
        [.create true "lpa" 3600 [("rewx", 3000)] 0 1, .create true "lpb" 3600 [("uosmo", 5000000)] 0 1]
    let locks : List Lock := [⟨1, 0, none, 3600, "lpa", 100, false⟩, ⟨2, 1, none, 3600, "lpb", 100, false⟩]
    epoch s0 10 [("rewx", none), ("uosmo", some 10000)] locks = none ∧
    (epoch s0 10 [("uosmo", some 10000)] locks).map (fun r => received r.2) = some [(1, [("uosmo", 5000000)])] := by
  decide +kernel

/-- REFUTED sub-claim ("to the lock's reward receiver"): one owner, two qualifying locks, the second naming
address 7 as its reward receiver — the whole 1000 goes to the owner (address 0), address 7 gets nothing
(`distributionInfo.addLockRewards` keys the queue by OWNER and keeps the first lock's receiver). -/
theorem payout_wrong_receiver_witness :
    (epoch (run (init ⟨[3600], ["lp"], []⟩ []) [.create true "lp" 3600 [("uosmo", 1000)] 0 1]) 10 [("uosmo", some 1)]
      [⟨1, 0, none, 3600, "lp", 100, false⟩, ⟨2, 0, some 7, 3600, "lp", 100, false⟩]).map (fun r => received r.2)
      = some [(0, [("uosmo", 1000)])] := by decide +kernel

set_option synthInstance.maxSize 1024 in
/-- REFUTED sub-claim (skipping "only amounts worth less than the configured minimum"): minimum 1, one lock,
remaining 100 uosmo: nothing is paid and the epoch still counts as filled (`skipSpamGaugeDistribute`). -/
theorem spam_rule_skips_payout_witness :
    (epoch (run (init ⟨[3600], ["lp"], []⟩ []) [.create false "lp" 3600 [("uosmo", 100)] 0 2]) 10 [("uosmo", some 1)]
      [⟨1, 0, none, 3600, "lp", 5, false⟩]).map (fun r => (received r.2, r.1.gauges.map (fun g => (g.filled, g.distributed))))
      = some ([], [(1, [])]) := by decide +kernel

/-! ## schedule -/

/-- a new gauge always starts in the upcoming store (even with a start time in the past) with nothing paid. -/
theorem created_upcoming {s s' : State} {p : Bool} {dn : Denom} {du : Int} {c : Coins} {st : Int} {n : Nat}
    (h : createGauge s p dn du c st n = some s') :
    s'.lastId = s.lastId + 1 ∧ s'.lastId ∈ refsIds s'.upcoming ∧ s'.active = s.active ∧ s'.finished = s.finished ∧
    ∃ g ∈ s'.gauges, g.id = s'.lastId ∧ g.start = st ∧ g.filled = 0 ∧ g.distributed = [] ∧ g.coins = c ∧
      (g.perpetual = true ∨ 1 ≤ g.numEpochs) := by
  unfold createGauge at h
  split at h; · cases h
  rename_i hzero
  split at h; · cases h
  split at h; · cases h
  split at h; · cases h
  split at h; · cases h
  simp only at h
  cases ha : refsAdd s.upcoming st (s.lastId + 1) with
  | none => rw [ha] at h; cases h
  | some up =>
    rw [ha] at h
    cases h
    refine ⟨rfl, (refsAdd_perm ha).mem_iff.mpr (List.mem_cons_self ..), rfl, rfl, _, List.mem_append_right _ (List.mem_singleton.mpr rfl),
      rfl, rfl, rfl, rfl, rfl, ?_⟩
    show p = true ∨ 1 ≤ n
    cases p with
    | true => exact Or.inl rfl
    | false =>
      right
      rcases Nat.eq_zero_or_pos n with hz | hz
      · exact absurd ⟨hz, by simp⟩ hzero
      · exact hz

/-- **gauges become active at their start time**: at an epoch with block time `now`, an upcoming gauge stays
upcoming iff `now` is before its start time; otherwise it joins the active set of this very epoch (and may
already finish in it). -/
theorem activation_at_start {s s' : State} {now : Int} {thr : Quotes} {locks : List Lock} {info : Info}
    (hr : Reachable s) (h : epoch s now thr locks = some (s', info)) {g : Gauge} (hg : g ∈ s.gauges)
    (hu : g.id ∈ refsIds s.upcoming) :
    (g.id ∈ refsIds s'.upcoming ↔ now < g.start) ∧
    (g.start ≤ now → g.id ∈ refsIds s'.active ∨ g.id ∈ refsIds s'.finished) ∧
    (now < g.start → g ∈ s'.gauges) := by
  obtain ⟨hi, hs⟩ := reachable_inv hr
  obtain ⟨up, act, snap, store, bal, act', fin, h1, h2, h3, h4, h5, rfl⟩ := epoch_unfold h
  have F := epochFacts hi h1 h2 h5
  -- every key holding the id is the gauge's start time
  have hkey : ∀ kv ∈ s.upcoming, g.id ∈ kv.2 → kv.1 = g.start := by
    intro kv hkv hin
    have := hs.kup kv hkv g.id hin
    obtain ⟨g', hg', he⟩ := List.mem_map.mp this
    injection he with e1 e2
    have : g' = g := eq_of_id_eq hi.ids hg' hg e1
    subst this; exact e2.symm
  have hiff : g.id ∈ refsIds up ↔ now < g.start := by
    rw [F.upEq]
    constructor
    · intro hin
      obtain ⟨kv, hkv, hi'⟩ := mem_refsIds.mp hin
      obtain ⟨hm, hp⟩ := List.mem_filter.mp hkv
      rw [← hkey kv hm hi']
      simpa using hp
    · intro hlt
      obtain ⟨kv, hkv, hi'⟩ := mem_refsIds.mp hu
      refine mem_refsIds.mpr ⟨kv, List.mem_filter.mpr ⟨hkv, ?_⟩, hi'⟩
      rw [hkey kv hkv hi']
      simpa using hlt
  refine ⟨hiff, fun hle => ?_, fun hlt => ?_⟩
  · have hnu : g.id ∉ refsIds up := fun hh => by have := hiff.mp hh; omega
    rcases activate_split h1 g.id hu with h' | h'
    · exact absurd h' hnu
    · rcases F.actSplit _ h' with hF | hA
      · exact Or.inr ((F.finIff _).mpr (Or.inl hF))
      · exact Or.inl hA
  · have hnot : g.id ∉ snap.map (·.id) := by
      rw [F.snapIds]
      intro hh
      exact F.actNotUp _ hh (hiff.mpr hlt)
    exact distributeLoop_untouched h3 hg hnot

/-- **finished gauges pay nothing**: an epoch leaves the record of a finished gauge as it is (distributed coins,
filled epochs), keeps it finished, and does not process it (it is not in the active snapshot of `epoch_receipts`). -/
theorem finished_pays_nothing {s s' : State} {now : Int} {thr : Quotes} {locks : List Lock} {info : Info}
    (hr : Reachable s) (h : epoch s now thr locks = some (s', info)) {g : Gauge} (hg : g ∈ s.gauges)
    (hf : g.id ∈ refsIds s.finished) :
    g ∈ s'.gauges ∧ g.id ∈ refsIds s'.finished ∧ g.id ∉ refsIds s'.active ∧ g.id ∉ refsIds s'.upcoming := by
  obtain ⟨hi, hs⟩ := reachable_inv hr
  obtain ⟨up, act, snap, store, bal, act', fin, h1, h2, h3, h4, h5, rfl⟩ := epoch_unfold h
  have F := epochFacts hi h1 h2 h5
  have hna : g.id ∉ refsIds act := fun hh => F.actNotFin _ hh hf
  refine ⟨distributeLoop_untouched h3 hg (by rw [F.snapIds]; exact hna), (F.finIff _).mpr (Or.inr hf),
    fun hh => hna (F.act'Sub _ hh), fun hh => ?_⟩
  have h1' := F.upSub _ hh
  have hn := hi.refs
  rw [List.append_assoc, List.nodup_append] at hn
  exact hn.2.2 _ h1' _ (List.mem_append_right _ hf) rfl

/-- once finished, always finished with the same distributed coins and filled epochs, whatever happens later. -/
theorem finished_forever {s : State} (hr : Reachable s) {id : Nat} {D : Coins} {F : Nat}
    (h : id ∈ refsIds s.finished ∧ ∃ g ∈ s.gauges, g.id = id ∧ g.distributed = D ∧ g.filled = F) (ops : List Op) :
    id ∈ refsIds (run s ops).finished ∧ ∃ g ∈ (run s ops).gauges, g.id = id ∧ g.distributed = D ∧ g.filled = F := by
  unfold run
  induction ops generalizing s with
  | nil => exact h
  | cons o ops ih =>
    refine ih (reachable_step hr o) ?_
    obtain ⟨hf, g, hg, hid, hD, hF⟩ := h
    cases o with
    | routes r => exact ⟨hf, g, hg, hid, hD, hF⟩
    | create p dn du c st n =>
      simp only [step]
      cases hc : createGauge s p dn du c st n with
      | none => exact ⟨hf, g, hg, hid, hD, hF⟩
      | some s' =>
        simp only
        have hfin := (created_upcoming hc).2.2.2.1
        refine ⟨by rw [hfin]; exact hf, g, ?_, hid, hD, hF⟩
        -- the gauge list only grows
        unfold createGauge at hc
        split at hc; · cases hc
        split at hc; · cases hc
        split at hc; · cases hc
        split at hc; · cases hc
        split at hc; · cases hc
        simp only at hc
        cases ha : refsAdd s.upcoming st (s.lastId + 1) with
        | none => rw [ha] at hc; cases hc
        | some up => rw [ha] at hc; cases hc; exact List.mem_append_left _ hg
    | add id' c now =>
      simp only [step]
      cases hc : addToGauge s id' c now with
      | none => exact ⟨hf, g, hg, hid, hD, hF⟩
      | some s' =>
        simp only
        unfold addToGauge at hc
        split at hc; · cases hc
        cases hgg : getGauge s.gauges id' with
        | none => rw [hgg] at hc; cases hc
        | some g0 =>
          rw [hgg] at hc
          simp only at hc
          split at hc; · cases hc
          split at hc; · cases hc
          cases hc
          refine ⟨hf, ?_⟩
          obtain ⟨hm0, _⟩ := getGauge_some hgg
          by_cases hsame : g.id = g0.id
          · have : g = g0 := eq_of_id_eq (reachable_inv hr).1.ids hg hm0 hsame
            subst this
            exact ⟨{ g with coins := addCoins g.coins c }, mem_setGauge_self hg rfl, hid, hD, hF⟩
          · exact ⟨g, mem_setGauge_of_ne hg hsame, hid, hD, hF⟩
    | epoch now thr locks =>
      simp only [step]
      cases hc : epoch s now thr locks with
      | none => exact ⟨hf, g, hg, hid, hD, hF⟩
      | some r =>
        obtain ⟨s', info⟩ := r
        simp only
        obtain ⟨k1, k2, _, _⟩ := finished_pays_nothing hr hc hg (by rw [hid]; exact hf)
        exact ⟨by rw [← hid]; exact k2, g, k1, hid, hD, hF⟩

/-- in every reachable state: upcoming gauges have paid nothing, active non-perpetual gauges still have epochs
to pay (`filled < numEpochs`), finished gauges are non-perpetual with `numEpochs − 1 ≤ filled ≤ numEpochs`, and
perpetual gauges are never finished. -/
theorem schedule_bounds {s : State} (hr : Reachable s) {g : Gauge} (hg : g ∈ s.gauges) :
    (g.id ∈ refsIds s.upcoming → g.filled = 0 ∧ g.distributed = []) ∧
    (g.id ∈ refsIds s.active → g.perpetual = true ∨ g.filled < g.numEpochs) ∧
    (g.id ∈ refsIds s.finished → g.perpetual = false ∧ g.numEpochs ≤ g.filled + 1 ∧ g.filled ≤ g.numEpochs) :=
  let hs := (reachable_inv hr).2
  ⟨hs.up g hg, hs.act g hg, hs.fin g hg⟩

/-- PARTIAL form of "non-perpetual gauges finish after exactly their number of paying epochs".
Proved, for every reachable state and every successful epoch, for a non-perpetual gauge `g` that is active in
this epoch (already active, or upcoming with `start ≤ now`):
 (1) it moves to the finished store in THIS epoch iff `filled + 1 = numEpochs`, i.e. exactly in the epoch that
     is its `numEpochs`-th counted one, and otherwise stays active;
 (2) its filled-epoch counter grows by one iff it has a qualifying lock (non-zero lock sum) — these are its
     paying (or spam-skipped) epochs — and the record is otherwise untouched;
 (3) (`schedule_bounds`) a finished gauge has `numEpochs − 1 ≤ filled ≤ numEpochs`.
FULL statement `finished → filled = numEpochs` (every counted epoch was a processed one) is FALSE for the code:
`checkFinishDistribution` tests the pre-distribution snapshot with `filled + 1`, assuming the epoch was counted,
also when `distributeInternal` returned early for lack of locks — see `finishes_without_paying_witness`.
With a qualifying lock in that last epoch (2) gives `filled = numEpochs` on finishing. -/
theorem finishes_after_exactly_n_paying_epochs_partial {s s' : State} {now : Int} {thr : Quotes} {locks : List Lock}
    {info : Info} (hr : Reachable s) (h : epoch s now thr locks = some (s', info)) {g : Gauge} (hg : g ∈ s.gauges)
    (hnp : g.perpetual = false)
    (hact : g.id ∈ refsIds s.active ∨ (g.id ∈ refsIds s.upcoming ∧ g.start ≤ now)) :
    (g.id ∈ refsIds s'.finished ↔ g.filled + 1 = g.numEpochs) ∧
    (g.filled + 1 ≠ g.numEpochs → g.id ∈ refsIds s'.active) ∧
    ((gaugeLocks g locks).isEmpty = false → lockSum (gaugeLocks g locks) ≠ 0 →
        ∃ total, g.postDistribute total ∈ s'.gauges ∧ (g.postDistribute total).filled = g.filled + 1) ∧
    ((gaugeLocks g locks).isEmpty = true → g ∈ s'.gauges) := by
  obtain ⟨hi, hs⟩ := reachable_inv hr
  have hact' := (activation_at_start hr h hg)
  obtain ⟨up, act, snap, store, bal, act', fin, h1, h2, h3, h4, h5, rfl⟩ := epoch_unfold h
  have F := epochFacts hi h1 h2 h5
  -- g is in the active snapshot
  have hga : g.id ∈ refsIds act := by
    rcases hact with ha | ⟨hu, hle⟩
    · exact F.keepActive _ ha
    · rcases activate_split h1 _ hu with h' | h'
      · have := ((hact' hu).1).mp h'; omega
      · exact h'
  have hgs : g ∈ snap := by
    have : g.id ∈ snap.map (·.id) := by rw [F.snapIds]; exact hga
    obtain ⟨g', hg', he⟩ := List.mem_map.mp this
    have : g' = g := eq_of_id_eq hi.ids (F.snapMem g' hg') hg he
    subst this; exact hg'
  have hlt : g.filled < g.numEpochs := by
    rcases F.actFrom _ hga with hu | ha
    · have := hs.up g hg hu
      rcases hs.pos g hg with hp | hp
      · rw [hnp] at hp; cases hp
      · omega
    · rcases hs.act g hg ha with hp | hp
      · rw [hnp] at hp; cases hp
      · exact hp
  have hFiff : g.id ∈ (snap.filter finishing).map (·.id) ↔ g.filled + 1 = g.numEpochs := by
    rw [mem_finishing_ids]
    constructor
    · rintro ⟨g', hg', hfin, he⟩
      have : g' = g := eq_of_id_eq hi.ids (F.snapMem g' hg') hg he
      subst this
      have := ((finishing_iff g').mp hfin).2
      omega
    · intro he
      exact ⟨g, hgs, (finishing_iff g).mpr ⟨hnp, by omega⟩, rfl⟩
  obtain ⟨m, _, _, hne, hres1, hres2⟩ := distributeLoop_result h3 F.snapMem F.snapNodup hgs
  refine ⟨?_, ?_, ?_, ?_⟩
  · rw [F.finIff, hFiff]
    constructor
    · rintro (h' | h')
      · exact h'
      · exact absurd h' (F.actNotFin _ hga)
    · exact Or.inl
  · intro hne
    rcases F.actSplit _ hga with h' | h'
    · exact absurd (hFiff.mp h') hne
    · exact h'
  · intro hl hS
    cases hd : distributeGauge m locks g with
    | none => exact absurd hd hne
    | some r =>
      obtain ⟨total, pays, rfl⟩ := distributeGauge_writes hd hl hS
      exact ⟨total, hres1 total pays hd, rfl⟩
  · intro hl
    cases hd : distributeGauge m locks g with
    | none => exact absurd hd hne
    | some r =>
      cases r with
      | none => exact hres2 hd
      | some tp =>
        obtain ⟨total, pays⟩ := tp
        obtain ⟨_, _, _, _, hne, _⟩ := distributeGauge_written hd
        rw [hl] at hne; cases hne

/-- REFUTED full claim: a 2-epoch gauge pays in its first epoch, has NO qualifying lock in the second one, and
is moved to the finished store with `filled = 1 < numEpochs = 2` and 500 of its 1000 uosmo undistributed. -/
theorem finishes_without_paying_witness :
    let s1 := run (init ⟨[3600], ["lp"], []⟩ []) [.create false "lp" 3600 [("uosmo", 1000)] 0 2,
                .epoch 10 [("uosmo", some 1)] [⟨1, 0, none, 3600, "lp", 100, false⟩], .epoch 20 [("uosmo", some 1)] []]
    (refsIds s1.finished, s1.gauges.map (fun g => (g.numEpochs, g.filled, g.distributed))) = ([1], [(2, 1, [("uosmo", 500)])]) := by
  decide +kernel

set_option synthInstance.maxSize 2048 in
/-- REFUTED consequence (a deposit can be paid out): the gauge of `finishes_without_paying_witness` sits in the
finished store with `filled = 1 < 2`; `Gauge.IsFinishedGauge` looks at the FIELDS, so `AddToGaugeRewards` accepts
777 more uosmo; a later epoch with a qualifying lock pays nothing (`finished_forever`): 1277 uosmo stay in the module
account for good. -/
theorem topup_accepted_by_finished_gauge_witness :
    let s1 := run (init ⟨[3600], ["lp"], []⟩ []) [.create false "lp" 3600 [("uosmo", 1000)] 0 2,
                .epoch 10 [("uosmo", some 1)] [⟨1, 0, none, 3600, "lp", 100, false⟩], .epoch 20 [("uosmo", some 1)] []]
    refsIds s1.finished = [1] ∧
    ((addToGauge s1 1 [("uosmo", 777)] 25).bind (fun s2 =>
        (epoch s2 30 [("uosmo", some 1)] [⟨2, 1, none, 3600, "lp", 100, false⟩]).map
          (fun r => (received r.2, r.1.gauges.map (fun g => (g.coins, g.distributed)), r.1.balance)))) =
      some ([], [([("uosmo", 1777)], [("uosmo", 500)])], [("uosmo", 1277)]) := by
  decide +kernel

/-! ## failed operations -/

/-- **a failing operation is a no-op** (the Go error/panic is dropped together with its cache context). -/
theorem failed_op_noop (s : State) :
    (∀ p dn du c st n, createGauge s p dn du c st n = none → step s (.create p dn du c st n) = s) ∧
    (∀ id c now, addToGauge s id c now = none → step s (.add id c now) = s) ∧
    (∀ now thr locks, epoch s now thr locks = none → step s (.epoch now thr locks) = s) :=
  ⟨fun _ _ _ _ _ _ h => by simp only [step, h], fun _ _ _ h => by simp only [step, h], fun _ _ _ h => by simp only [step, h]⟩

/-- the rejected gauge creations: zero epochs for a non-perpetual gauge, a reward denom without protorev route,
a duration that is not lockable, a lock denom without supply, invalid coins. -/
theorem createGauge_rejects (s : State) (p : Bool) (dn : Denom) (du : Int) (c : Coins) (st : Int) (n : Nat)
    (h : (n = 0 ∧ p = false) ∨ distributable s.cfg c = false ∨ s.cfg.lockable.contains du = false ∨
         s.cfg.supply.contains dn = false ∨ validCoins c = false) : createGauge s p dn du c st n = none := by
  rcases h with ⟨h1, h2⟩ | h | h | h | h
  · subst h1; subst h2; simp [createGauge]
  all_goals (simp only [createGauge, h]; simp)

/-- top-ups are rejected for unknown gauges and for gauges that are finished by their fields. -/
theorem addToGauge_rejects (s : State) (id : Nat) (c : Coins) (now : Int)
    (h : getGauge s.gauges id = none ∨ ∃ g, getGauge s.gauges id = some g ∧ g.isFinishedAt now = true) :
    addToGauge s id c now = none := by
  unfold addToGauge
  split
  · rfl
  · rcases h with h | ⟨g, hg, hf⟩
    · rw [h]
    · rw [hg]; simp [hf]

/-! ## non-vacuity -/

set_option synthInstance.maxSize 1024 in
/-- two gauges (one perpetual), three locks of two owners with different durations, two reward denoms with a
minimum: concrete payouts, floor remainders stay in the gauge, the 1-epoch gauge finishes. -/
example :
    (epoch (run (init ⟨[3600, 7200], ["lp"], ["rewa"]⟩ [])
        [.create false "lp" 3600 [("rewa", 1000), ("uosmo", 3000)] 100 3, .create true "lp" 7200 [("uosmo", 500)] 50 1])
      100 [("rewa", some 20), ("uosmo", some 10)]
      [⟨1, 0, none, 3600, "lp", 100, false⟩, ⟨2, 1, some 3, 7200, "lp", 300, false⟩, ⟨3, 1, some 3, 7200, "lp", 100, true⟩]).map
      (fun r => (received r.2, r.1.gauges.map (fun g => (g.filled, g.distributed)), refsIds r.1.active, r.1.balance))
    = some ([(0, [("rewa", 66), ("uosmo", 200)]), (3, [("rewa", 266), ("uosmo", 1300)])],
            [(1, [("rewa", 332), ("uosmo", 1000)]), (1, [("uosmo", 500)])], [2, 1], [("rewa", 668), ("uosmo", 2000)]) := by
  decide +kernel

example : Reachable (run (init ⟨[3600], ["lp"], []⟩ [("uosmo", 7)]) [.create true "lp" 3600 [("uosmo", 1000)] 0 1]) :=
  ⟨_, _, _, by decide, rfl⟩

/-- a non-perpetual 2-epoch gauge with locks in both epochs finishes after exactly two paying epochs, fully paid. -/
example :
    let s1 := run (init ⟨[3600], ["lp"], []⟩ []) [.create false "lp" 3600 [("uosmo", 1001)] 15 2,
                .epoch 10 [("uosmo", some 1)] [⟨1, 0, none, 3600, "lp", 100, false⟩],
                .epoch 20 [("uosmo", some 1)] [⟨1, 0, none, 3600, "lp", 100, false⟩],
                .epoch 30 [("uosmo", some 1)] [⟨1, 0, none, 3600, "lp", 100, false⟩],
                .epoch 40 [("uosmo", some 1)] [⟨1, 0, none, 3600, "lp", 100, false⟩]]
    (refsIds s1.finished, s1.gauges.map (fun g => (g.filled, g.distributed)), s1.balance) = ([1], [(2, [("uosmo", 1001)])], []) := by
  decide +kernel

end OsmoVerif.Props.C09
