/-
C09 — incentive gauges pay pro-rata, on schedule, and never more than they hold.
Theorems over `OsmoVerif.Incentives` (lock-based `ByDuration` gauges of x/incentives, tied to the real incentives +
lockup keepers by the `incentives` engine through the app).  All history theorems quantify over EVERY finite list
of operations (`Op`: create gauge, top up, change the routed denoms, epoch with ARBITRARY lock lists / minimum
tables / block times) from an arbitrary initial configuration — `Reachable`.

Sub-claims the code (and therefore the model) does NOT satisfy are refuted on concrete witnesses:
 * `payout_wrong_receiver_witness`  (an owner with locks naming different receivers: all go to the first lock's receiver),
 * `spam_rule_skips_payout_witness`  (a gauge whose remainder is one coin of ≤ 100 units pays nothing, whatever the minimum).
Since the repository fixes af3cbe6371 / d4c28ad126 / 21bb9c1bc7 three former refutations are theorems of the opposite:
`min_value_filter` + `epoch_pays_clause` (the minimum-value check, cache or not, IS the property's clause; in particular
`zero_quote_pays_every_qualifying_lock` and `failing_quote_skips_only_that_denom`), `finishes_after_exactly_n_paying_epochs`
(FULL: a finished gauge has `filled = numEpochs`, a gauge without qualifying lock never finishes) and
`finished_gauge_rejects_topup`.
Out of scope (not modelled, not generated): NoLock/CL gauges, group gauges, synthetic denoms.
-/
import OsmoVerif.Proofs.IncentivesMinValue

namespace OsmoVerif.Props.C09
open OsmoVerif.Incentives

/-! ## never more than was deposited -/

/-- **a gauge never distributes more than was deposited into it** (per denom, in every reachable state). -/
theorem distributed_le_coins {s : State} (h : Reachable s) :
    ∀ g ∈ s.gauges, ∀ d, 0 ≤ amountOf g.distributed d ∧ amountOf g.distributed d ≤ amountOf g.coins d := by
  intro g hg d
  have := (reachable_inv h).1.g g hg
  exact ⟨amountOf_nonneg this.vd d, this.le d⟩

/-- **the incentives module account always holds at least the undistributed remainder of all unfinished
gauges** (it even covers the remainder of the finished ones: `bal`). -/
theorem module_balance_ge_undistributed {s : State} (h : Reachable s) (d : Denom) :
    undistributed s d ≤ amountOf s.balance d ∧ owed s.gauges d ≤ amountOf s.balance d := by
  have hi := (reachable_inv h).1
  refine ⟨Int.le_trans (owed_filter_le _ (fun g hg => ?_)) (hi.bal d), hi.bal d⟩
  have := (hi.g g hg).le d
  unfold rem; omega

/-- what an epoch sends leaves the module account, and nothing else does. -/
theorem epoch_module_pays_what_is_sent {s s' : State} {now : Int} {thr : Quotes} {locks : List Lock} {info : Info}
    (hr : Reachable s) (h : epoch s now thr locks = some (s', info)) (d : Denom) :
    amountOf s'.balance d = amountOf s.balance d - amountOf (infoTotal info) d := by
  have hi := (reachable_inv hr).1
  obtain ⟨up, act, snap, store, bal, act', fin, h1, h2, h3, h4, h5, rfl⟩ := epoch_unfold h
  have F := epochFacts hi h1 h2 h5
  obtain ⟨_, _, j3, _⟩ := distributeLoop_spec h3 hi.ids F.snapNodup F.snapMem hi.g (fun _ he => absurd he List.not_mem_nil)
  exact (subCoins_spec hi.vbal (valid_infoTotal j3) h4).2 d

/-! ## the per-epoch payout -/

/-- **epoch payout formula.**  When an active lock gauge is processed (`distributeGauge` writes its record) with
the minimum-value cache `m` it finds: the per-epoch divisor is `e` = 1 for perpetual gauges and `numEpochs − filled`
otherwise; unless the gauge has nothing left or falls under the spam rule, EVERY qualifying lock (`gaugeLocks`:
gauge denom, duration ≥ gauge duration, unlocking or not) gets one queue entry addressed to its reward receiver
(owner when unset) holding, per reward denom, exactly `owedToLock` — the floor of remaining·lockAmt/(lockSum·e)
unless filtered — and no entry at all when every denom is filtered; the FIRST lock is filtered with the cache as the
gauge found it (`minFilter m`), every later lock with the cache after the first lock (`minFilter (m.after remain)`);
the gauge's newly distributed total is the sum of these entries.  Both filters are the property's clause: `min_value_filter`. -/
theorem epoch_payout_formula {m : MinVal} {locks : List Lock} {g : Gauge} {total : Coins} {pays : List Pay}
    (hg : GInv g) (h : distributeGauge m locks g = some (some (total, pays))) :
    ∃ remain e, subCoins g.coins g.distributed = some remain ∧ (∀ d, amountOf remain d = rem g d) ∧
      remainEpochs g = some e ∧ e = (if g.perpetual then 1 else (g.numEpochs : Int) - (g.filled : Int)) ∧ 1 ≤ e ∧
      (((remain.isEmpty = true ∨ isSpam remain = true) ∧ total = [] ∧ pays = []) ∨
       (remain.isEmpty = false ∧ isSpam remain = false ∧ 0 < lockSum (gaugeLocks g locks) ∧
        pays = ((gaugeLocks g locks).take 1).filterMap (payOf (minFilter m) remain (lockSum (gaugeLocks g locks) * e)) ++
               ((gaugeLocks g locks).drop 1).filterMap (payOf (minFilter (m.after remain)) remain (lockSum (gaugeLocks g locks) * e)) ∧
        total = sumPays pays ∧
        ∀ (f : Filter) (l : Lock) (d : Denom), amountOf (lockCoins f remain (lockSum (gaugeLocks g locks) * e) l.amount) d =
          owedToLock f d (rem g d) l.amount (lockSum (gaugeLocks g locks)) e)) := by
  obtain ⟨remain, e, hrem, he, _, hcase⟩ := distributeGauge_written h
  obtain ⟨hrv, hra⟩ := subCoins_spec hg.vc hg.vd hrem
  have hra' : ∀ d, amountOf remain d = rem g d := fun d => by rw [hra d]; rfl
  have hee : e = (if g.perpetual then 1 else (g.numEpochs : Int) - (g.filled : Int)) := by
    unfold remainEpochs at he
    split at he
    · rename_i hp; cases he; rw [if_pos hp]
    · rename_i hp
      split at he
      · cases he; rw [if_neg hp]
      · cases he
  refine ⟨remain, e, hrem, hra', he, hee, remainEpochs_pos he, ?_⟩
  rcases hcase with hskip | ⟨h1, h2, hS, hp, ht⟩
  · exact Or.inl hskip
  · refine Or.inr ⟨h1, h2, hS, by rw [hp, lockPays_eq_filterMap], ht, fun f l d => ?_⟩
    rw [lockCoins_amount f hrv, hra' d]
    have hR : 0 ≤ rem g d := by have := hg.le d; unfold rem; omega
    have hsh : share (rem g d) l.amount (lockSum (gaugeLocks g locks) * e) =
        floorShare (rem g d) l.amount (lockSum (gaugeLocks g locks)) e := by
      unfold share floorShare
      exact Int.tdiv_eq_ediv_of_nonneg (Int.mul_nonneg hR (Int.natCast_nonneg _))
    rw [hsh]; rfl

/-- which locks qualify: exactly those holding the gauge's denom for at least the gauge's duration
(whether or not they have begun unlocking), and none when the gauge never held coins. -/
theorem qualifying_locks (g : Gauge) (locks : List Lock) (l : Lock) :
    l ∈ gaugeLocks g locks ↔ g.coins ≠ [] ∧ l ∈ locks ∧ l.denom = g.denom ∧ g.duration ≤ l.duration := by
  unfold gaugeLocks
  cases hc : g.coins with
  | nil => simp
  | cons c cs => simp [qualifies]

/-- the gauges one epoch processes are exactly the active ones after activation (each once), and the gauge loop
runs over them from the stored records with an EMPTY minimum-value cache. -/
theorem epoch_snapshot {s s' : State} {now : Int} {thr : Quotes} {locks : List Lock} {info : Info}
    (hr : Reachable s) (h : epoch s now thr locks = some (s', info)) :
    ∃ snap : List Gauge, (∀ g ∈ snap, g ∈ s.gauges) ∧ (snap.map (·.id)).Nodup ∧
      (∀ i, i ∈ snap.map (·.id) ↔ i ∈ refsIds s.active ∨
          (i ∈ refsIds s.upcoming ∧ i ∉ refsIds (s.upcoming.filter (fun kv => decide (now < kv.1))))) ∧
      distributeLoop ⟨thr, []⟩ locks snap s.gauges [] = some (s'.gauges, info) := by
  have hi := (reachable_inv hr).1
  obtain ⟨up, act, snap, store, bal, act', fin, h1, h2, h3, h4, h5, rfl⟩ := epoch_unfold h
  have F := epochFacts hi h1 h2 h5
  refine ⟨snap, F.snapMem, F.snapNodup, fun i => ?_, h3⟩
  rw [F.snapIds, ← F.upEq]
  constructor
  · intro hia
    rcases F.actFrom i hia with hu | ha
    · exact Or.inr ⟨hu, F.actNotUp i hia⟩
    · exact Or.inl ha
  · rintro (ha | ⟨hu, hnu⟩)
    · exact F.keepActive i ha
    · rcases activate_split h1 i hu with h' | h'
      · exact absurd h' hnu
      · exact h'

/-- **receipts of one epoch.**  The gauges processed are exactly the active ones after activation; the send
queue is the fold of their entries; the module account is debited by exactly the queued total; and when every
owner's qualifying locks name ONE receiver, every address receives exactly the entries addressed to it (so
nobody else gets anything). -/
theorem epoch_receipts {s s' : State} {now : Int} {thr : Quotes} {locks : List Lock} {info : Info}
    (hr : Reachable s) (h : epoch s now thr locks = some (s', info)) :
    ∃ snap : List Gauge, (∀ g ∈ snap, g ∈ s.gauges) ∧ (snap.map (·.id)).Nodup ∧
      (∀ i, i ∈ snap.map (·.id) ↔ i ∈ refsIds s.active ∨
          (i ∈ refsIds s.upcoming ∧ i ∉ refsIds (s.upcoming.filter (fun kv => decide (now < kv.1))))) ∧
      info = (snapPays ⟨thr, []⟩ locks snap).foldl addLockRewards [] ∧
      (∀ d, amountOf (infoTotal info) d = paysAmt (snapPays ⟨thr, []⟩ locks snap) d) ∧
      (Consistent (snapPays ⟨thr, []⟩ locks snap) → ∀ r d, recvAmt info r d = paysTo (snapPays ⟨thr, []⟩ locks snap) r d) := by
  obtain ⟨snap, k1, k2, k3, h3⟩ := epoch_snapshot hr h
  have hinfo := distributeLoop_info h3
  refine ⟨snap, k1, k2, k3, hinfo, fun d => ?_, fun hc r d => ?_⟩
  · rw [hinfo, amountOf_infoTotal_foldl]; simp [infoTotal, amountOf]
  · rw [hinfo, recvAmt_foldl hc (fun e he => absurd he List.not_mem_nil)]; simp [recvAmt]

/-! ## the minimum-value filter ("skipping only amounts worth less than the configured minimum, or not valuable at all") -/

/-- **the minimum-value check IS the property's clause**, for every cache state `m` a `Distribute` call can be in
(`CacheOK`: cached values are what the call's own cache misses store) and non-negative quotes (they are coin
amounts): an amount of denom `d` passes iff `d` has a route whose pool quotes the configured minimum (`v`, possibly
zero) and `v ≤ amount`; no route, or a pool that cannot quote: never ("not valuable at all"). -/
theorem min_value_filter {m : MinVal} (hc : CacheOK m) (hn : QuotesNonneg m.quotes) (d : Denom) (a : Int) :
    minFilter m d a = worthMinimum m.quotes d a ∧
    (∀ v, assoc m.quotes d = some (some v) → minFilter m d a = decide (v ≤ a)) ∧
    ((assoc m.quotes d = none ∨ assoc m.quotes d = some none) → minFilter m d a = false) := by
  have h := congrFun (congrFun (minFilter_eq_worthMinimum hc hn) d) a
  refine ⟨h, fun v hq => ?_, fun hq => ?_⟩
  · rw [h]; unfold worthMinimum; rw [hq]
  · rw [h]; unfold worthMinimum; rcases hq with hq | hq <;> rw [hq]

/-- **payouts are exactly the floor shares worth the minimum**: for a processed gauge (any consistent cache state)
every lock — the first one and the later ones — receives of every denom `d` exactly
⌊remaining·lockAmt/(lockSum·e)⌋ when the clause admits it (and it is positive), and nothing otherwise. -/
theorem lock_payout_exact {m : MinVal} (hc : CacheOK m) (hn : QuotesNonneg m.quotes) {locks : List Lock} {g : Gauge}
    {total : Coins} {pays : List Pay} (hg : GInv g) (h : distributeGauge m locks g = some (some (total, pays))) (d : Denom) :
    ∃ remain e, subCoins g.coins g.distributed = some remain ∧ remainEpochs g = some e ∧ ∀ l : Lock,
      amountOf (lockCoins (minFilter m) remain (lockSum (gaugeLocks g locks) * e) l.amount) d =
        owedToLock (worthMinimum m.quotes) d (rem g d) l.amount (lockSum (gaugeLocks g locks)) e ∧
      amountOf (lockCoins (minFilter (m.after remain)) remain (lockSum (gaugeLocks g locks) * e) l.amount) d =
        owedToLock (worthMinimum m.quotes) d (rem g d) l.amount (lockSum (gaugeLocks g locks)) e := by
  obtain ⟨remain, e, hrem, he, _, _⟩ := distributeGauge_written h
  obtain ⟨hrv, hra⟩ := subCoins_spec hg.vc hg.vd hrem
  refine ⟨remain, e, hrem, he, fun l => ?_⟩
  have hR : 0 ≤ rem g d := by have := hg.le d; unfold rem; omega
  have hsh : share (amountOf remain d) l.amount (lockSum (gaugeLocks g locks) * e) =
      floorShare (rem g d) l.amount (lockSum (gaugeLocks g locks)) e := by
    have : amountOf remain d = rem g d := by rw [hra d]; rfl
    rw [this]
    unfold share floorShare
    exact Int.tdiv_eq_ediv_of_nonneg (Int.mul_nonneg hR (Int.natCast_nonneg _))
  have h1 := minFilter_eq_worthMinimum hc hn
  have h2 : minFilter (m.after remain) = worthMinimum m.quotes := by
    have := minFilter_eq_worthMinimum (CacheOK_after hc remain) (by rw [MinVal.after_quotes]; exact hn)
    rw [MinVal.after_quotes] at this; exact this
  constructor
  · rw [lockCoins_amount _ hrv, hsh, h1]; rfl
  · rw [lockCoins_amount _ hrv, hsh, h2]; rfl

/-- **a converted minimum of ZERO pays every qualifying lock** (formerly only the first one, F61): with the quote
`0` for denom `d` every lock of a processed gauge — first or later, whatever was cached before — receives its whole
floor share of `d` (nothing only when that floor is 0). -/
theorem zero_quote_pays_every_qualifying_lock {m : MinVal} (hc : CacheOK m) (hn : QuotesNonneg m.quotes) {locks : List Lock}
    {g : Gauge} {total : Coins} {pays : List Pay} (hg : GInv g) (h : distributeGauge m locks g = some (some (total, pays)))
    {d : Denom} (hq : assoc m.quotes d = some (some 0)) :
    ∃ remain e, subCoins g.coins g.distributed = some remain ∧ remainEpochs g = some e ∧ ∀ l : Lock,
      amountOf (lockCoins (minFilter m) remain (lockSum (gaugeLocks g locks) * e) l.amount) d =
        floorShare (rem g d) l.amount (lockSum (gaugeLocks g locks)) e ∧
      amountOf (lockCoins (minFilter (m.after remain)) remain (lockSum (gaugeLocks g locks) * e) l.amount) d =
        floorShare (rem g d) l.amount (lockSum (gaugeLocks g locks)) e := by
  obtain ⟨remain, e, hrem, he, hl⟩ := lock_payout_exact hc hn hg h d
  have hpos := remainEpochs_pos he
  refine ⟨remain, e, hrem, he, fun l => ?_⟩
  have hR : 0 ≤ rem g d := by have := hg.le d; unfold rem; omega
  have hfs : 0 ≤ floorShare (rem g d) l.amount (lockSum (gaugeLocks g locks)) e := by
    unfold floorShare
    have hS := lockSum_nonneg (gaugeLocks g locks)
    exact Int.ediv_nonneg (Int.mul_nonneg hR (Int.natCast_nonneg _)) (Int.mul_nonneg hS (by omega))
  have key : owedToLock (worthMinimum m.quotes) d (rem g d) l.amount (lockSum (gaugeLocks g locks)) e =
      floorShare (rem g d) l.amount (lockSum (gaugeLocks g locks)) e := by
    unfold owedToLock worthMinimum
    rw [hq]
    simp only [decide_eq_true_eq.mpr hfs, Bool.true_and]
    split
    · rfl
    · rename_i hh; simp only [decide_eq_true_eq] at hh; omega
  rw [(hl l).1, (hl l).2, key]
  exact ⟨rfl, rfl⟩

/-- **a pool that cannot quote the minimum costs only that denom** (formerly the whole epoch hook failed, F62): the
denom whose quote fails is never paid in this distribution, every other denom is filtered by its own quote
(`min_value_filter`), and `distributeGauge` does not fail because of any quote — it fails only on a broken record. -/
theorem failing_quote_skips_only_that_denom {m : MinVal} (hc : CacheOK m) (hn : QuotesNonneg m.quotes) {d : Denom}
    (hf : assoc m.quotes d = some none) :
    (∀ a, minFilter m d a = false) ∧
    (∀ d' a, d' ≠ d → ∀ q' : Quotes, (∀ x, x ≠ d → assoc q' x = assoc m.quotes x) →
        minFilter m d' a = worthMinimum q' d' a) ∧
    (∀ locks g, distributeGauge m locks g = none ↔ subCoins g.coins g.distributed = none ∨ remainEpochs g = none) := by
  refine ⟨fun a => (min_value_filter hc hn d a).2.2 (Or.inr hf), fun d' a hne q' hq' => ?_, fun locks g => distributeGauge_none_iff m locks g⟩
  rw [(min_value_filter hc hn d' a).1]
  unfold worthMinimum
  rw [hq' d' hne]

/-- **an epoch pays exactly the property's clause**: the send queue is the fold, over the active gauges in order and
their qualifying locks in order, of the floor shares that are worth the configured minimum converted through the
route's quote (`worthMinimum`: no route or no quote ⇒ nothing; a zero quote ⇒ everything positive), cache or not. -/
theorem epoch_pays_clause {s s' : State} {now : Int} {q : Quotes} {locks : List Lock} {info : Info}
    (hr : Reachable s) (h : epoch s now q locks = some (s', info)) (hn : QuotesNonneg q) :
    ∃ snap : List Gauge, (∀ g ∈ snap, g ∈ s.gauges) ∧ (snap.map (·.id)).Nodup ∧
      (∀ i, i ∈ snap.map (·.id) ↔ i ∈ refsIds s.active ∨
          (i ∈ refsIds s.upcoming ∧ i ∉ refsIds (s.upcoming.filter (fun kv => decide (now < kv.1))))) ∧
      info = (snap.flatMap (clausePays (worthMinimum q) locks)).foldl addLockRewards [] := by
  obtain ⟨snap, k1, k2, k3, h3⟩ := epoch_snapshot hr h
  refine ⟨snap, k1, k2, k3, ?_⟩
  rw [distributeLoop_info h3, snapPays_eq_clausePays (CacheOK_empty q) hn]

/-- REFUTED sub-claim ("to the lock's reward receiver"): one owner, two qualifying locks, the second naming
address 7 as its reward receiver — the whole 1000 goes to the owner (address 0), address 7 gets nothing
(`distributionInfo.addLockRewards` keys the queue by OWNER and keeps the first lock's receiver). -/
theorem payout_wrong_receiver_witness :
    (epoch (run (init ⟨[3600], ["lp"], []⟩ []) [.create true "lp" 3600 [("uosmo", 1000)] 0 1]) 10 [("uosmo", some 1)]
      [⟨1, 0, none, 3600, "lp", 100, false⟩, ⟨2, 0, some 7, 3600, "lp", 100, false⟩]).map (fun r => received r.2)
      = some [(0, [("uosmo", 1000)])] := by decide +kernel

set_option synthInstance.maxSize 1024 in
/-- REFUTED sub-claim (skipping "only amounts worth less than the configured minimum"): minimum 1, one lock,
remaining 100 uosmo: nothing is paid and the epoch still counts as filled (`skipSpamGaugeDistribute`). -/
theorem spam_rule_skips_payout_witness :
    (epoch (run (init ⟨[3600], ["lp"], []⟩ []) [.create false "lp" 3600 [("uosmo", 100)] 0 2]) 10 [("uosmo", some 1)]
      [⟨1, 0, none, 3600, "lp", 5, false⟩]).map (fun r => (received r.2, r.1.gauges.map (fun g => (g.filled, g.distributed))))
      = some ([], [(1, [])]) := by decide +kernel

/-! ## schedule -/

/-- a new gauge always starts in the upcoming store (even with a start time in the past) with nothing paid. -/
theorem created_upcoming {s s' : State} {p : Bool} {dn : Denom} {du : Int} {c : Coins} {st : Int} {n : Nat}
    (h : createGauge s p dn du c st n = some s') :
    s'.lastId = s.lastId + 1 ∧ s'.lastId ∈ refsIds s'.upcoming ∧ s'.active = s.active ∧ s'.finished = s.finished ∧
    ∃ g ∈ s'.gauges, g.id = s'.lastId ∧ g.start = st ∧ g.filled = 0 ∧ g.distributed = [] ∧ g.coins = c ∧
      (g.perpetual = true ∨ 1 ≤ g.numEpochs) := by
  unfold createGauge at h
  split at h; · cases h
  rename_i hzero
  split at h; · cases h
  split at h; · cases h
  split at h; · cases h
  split at h; · cases h
  simp only at h
  cases ha : refsAdd s.upcoming st (s.lastId + 1) with
  | none => rw [ha] at h; cases h
  | some up =>
    rw [ha] at h
    cases h
    refine ⟨rfl, (refsAdd_perm ha).mem_iff.mpr (List.mem_cons_self ..), rfl, rfl, _, List.mem_append_right _ (List.mem_singleton.mpr rfl),
      rfl, rfl, rfl, rfl, rfl, ?_⟩
    show p = true ∨ 1 ≤ n
    cases p with
    | true => exact Or.inl rfl
    | false =>
      right
      rcases Nat.eq_zero_or_pos n with hz | hz
      · exact absurd ⟨hz, by simp⟩ hzero
      · exact hz

/-- **gauges become active at their start time**: at an epoch with block time `now`, an upcoming gauge stays
upcoming iff `now` is before its start time; otherwise it joins the active set of this very epoch (and may
already finish in it). -/
theorem activation_at_start {s s' : State} {now : Int} {thr : Quotes} {locks : List Lock} {info : Info}
    (hr : Reachable s) (h : epoch s now thr locks = some (s', info)) {g : Gauge} (hg : g ∈ s.gauges)
    (hu : g.id ∈ refsIds s.upcoming) :
    (g.id ∈ refsIds s'.upcoming ↔ now < g.start) ∧
    (g.start ≤ now → g.id ∈ refsIds s'.active ∨ g.id ∈ refsIds s'.finished) ∧
    (now < g.start → g ∈ s'.gauges) := by
  obtain ⟨hi, hs⟩ := reachable_inv hr
  obtain ⟨up, act, snap, store, bal, act', fin, h1, h2, h3, h4, h5, rfl⟩ := epoch_unfold h
  have F := epochFacts hi h1 h2 h5
  -- every key holding the id is the gauge's start time
  have hkey : ∀ kv ∈ s.upcoming, g.id ∈ kv.2 → kv.1 = g.start := by
    intro kv hkv hin
    have := hs.kup kv hkv g.id hin
    obtain ⟨g', hg', he⟩ := List.mem_map.mp this
    injection he with e1 e2
    have : g' = g := eq_of_id_eq hi.ids hg' hg e1
    subst this; exact e2.symm
  have hiff : g.id ∈ refsIds up ↔ now < g.start := by
    rw [F.upEq]
    constructor
    · intro hin
      obtain ⟨kv, hkv, hi'⟩ := mem_refsIds.mp hin
      obtain ⟨hm, hp⟩ := List.mem_filter.mp hkv
      rw [← hkey kv hm hi']
      simpa using hp
    · intro hlt
      obtain ⟨kv, hkv, hi'⟩ := mem_refsIds.mp hu
      refine mem_refsIds.mpr ⟨kv, List.mem_filter.mpr ⟨hkv, ?_⟩, hi'⟩
      rw [hkey kv hkv hi']
      simpa using hlt
  refine ⟨hiff, fun hle => ?_, fun hlt => ?_⟩
  · have hnu : g.id ∉ refsIds up := fun hh => by have := hiff.mp hh; omega
    rcases activate_split h1 g.id hu with h' | h'
    · exact absurd h' hnu
    · rcases F.actSplit _ h' with hF | hA
      · exact Or.inr ((F.finIff _).mpr (Or.inl hF))
      · exact Or.inl hA
  · have hnot : g.id ∉ snap.map (·.id) := by
      rw [F.snapIds]
      intro hh
      exact F.actNotUp _ hh (hiff.mpr hlt)
    exact distributeLoop_untouched h3 hg hnot

/-- **finished gauges pay nothing**: an epoch leaves the record of a finished gauge as it is (distributed coins,
filled epochs), keeps it finished, and does not process it (it is not in the active snapshot of `epoch_receipts`). -/
theorem finished_pays_nothing {s s' : State} {now : Int} {thr : Quotes} {locks : List Lock} {info : Info}
    (hr : Reachable s) (h : epoch s now thr locks = some (s', info)) {g : Gauge} (hg : g ∈ s.gauges)
    (hf : g.id ∈ refsIds s.finished) :
    g ∈ s'.gauges ∧ g.id ∈ refsIds s'.finished ∧ g.id ∉ refsIds s'.active ∧ g.id ∉ refsIds s'.upcoming := by
  obtain ⟨hi, hs⟩ := reachable_inv hr
  obtain ⟨up, act, snap, store, bal, act', fin, h1, h2, h3, h4, h5, rfl⟩ := epoch_unfold h
  have F := epochFacts hi h1 h2 h5
  have hna : g.id ∉ refsIds act := fun hh => F.actNotFin _ hh hf
  refine ⟨distributeLoop_untouched h3 hg (by rw [F.snapIds]; exact hna), (F.finIff _).mpr (Or.inr hf),
    fun hh => hna (F.act'Sub _ hh), fun hh => ?_⟩
  have h1' := F.upSub _ hh
  have hn := hi.refs
  rw [List.append_assoc, List.nodup_append] at hn
  exact hn.2.2 _ h1' _ (List.mem_append_right _ hf) rfl

/-- once finished, always finished with the same distributed coins and filled epochs, whatever happens later. -/
theorem finished_forever {s : State} (hr : Reachable s) {id : Nat} {D : Coins} {F : Nat}
    (h : id ∈ refsIds s.finished ∧ ∃ g ∈ s.gauges, g.id = id ∧ g.distributed = D ∧ g.filled = F) (ops : List Op) :
    id ∈ refsIds (run s ops).finished ∧ ∃ g ∈ (run s ops).gauges, g.id = id ∧ g.distributed = D ∧ g.filled = F := by
  unfold run
  induction ops generalizing s with
  | nil => exact h
  | cons o ops ih =>
    refine ih (reachable_step hr o) ?_
    obtain ⟨hf, g, hg, hid, hD, hF⟩ := h
    cases o with
    | routes r => exact ⟨hf, g, hg, hid, hD, hF⟩
    | create p dn du c st n =>
      simp only [step]
      cases hc : createGauge s p dn du c st n with
      | none => exact ⟨hf, g, hg, hid, hD, hF⟩
      | some s' =>
        simp only
        have hfin := (created_upcoming hc).2.2.2.1
        refine ⟨by rw [hfin]; exact hf, g, ?_, hid, hD, hF⟩
        -- the gauge list only grows
        unfold createGauge at hc
        split at hc; · cases hc
        split at hc; · cases hc
        split at hc; · cases hc
        split at hc; · cases hc
        split at hc; · cases hc
        simp only at hc
        cases ha : refsAdd s.upcoming st (s.lastId + 1) with
        | none => rw [ha] at hc; cases hc
        | some up => rw [ha] at hc; cases hc; exact List.mem_append_left _ hg
    | add id' c now =>
      simp only [step]
      cases hc : addToGauge s id' c now with
      | none => exact ⟨hf, g, hg, hid, hD, hF⟩
      | some s' =>
        simp only
        unfold addToGauge at hc
        split at hc; · cases hc
        cases hgg : getGauge s.gauges id' with
        | none => rw [hgg] at hc; cases hc
        | some g0 =>
          rw [hgg] at hc
          simp only at hc
          split at hc; · cases hc
          split at hc; · cases hc
          cases hc
          refine ⟨hf, ?_⟩
          obtain ⟨hm0, _⟩ := getGauge_some hgg
          by_cases hsame : g.id = g0.id
          · have : g = g0 := eq_of_id_eq (reachable_inv hr).1.ids hg hm0 hsame
            subst this
            exact ⟨{ g with coins := addCoins g.coins c }, mem_setGauge_self hg rfl, hid, hD, hF⟩
          · exact ⟨g, mem_setGauge_of_ne hg hsame, hid, hD, hF⟩
    | epoch now thr locks =>
      simp only [step]
      cases hc : epoch s now thr locks with
      | none => exact ⟨hf, g, hg, hid, hD, hF⟩
      | some r =>
        obtain ⟨s', info⟩ := r
        simp only
        obtain ⟨k1, k2, _, _⟩ := finished_pays_nothing hr hc hg (by rw [hid]; exact hf)
        exact ⟨by rw [← hid]; exact k2, g, k1, hid, hD, hF⟩

/-- in every reachable state: upcoming gauges have paid nothing, active non-perpetual gauges still have epochs
to pay (`filled < numEpochs`), finished gauges are non-perpetual with ALL their epochs filled
(`filled = numEpochs`), and perpetual gauges are never finished. -/
theorem schedule_bounds {s : State} (hr : Reachable s) {g : Gauge} (hg : g ∈ s.gauges) :
    (g.id ∈ refsIds s.upcoming → g.filled = 0 ∧ g.distributed = []) ∧
    (g.id ∈ refsIds s.active → g.perpetual = true ∨ g.filled < g.numEpochs) ∧
    (g.id ∈ refsIds s.finished → g.perpetual = false ∧ g.filled = g.numEpochs) :=
  let hs := (reachable_inv hr).2
  ⟨hs.up g hg, hs.act g hg, hs.fin g hg⟩

/-- **non-perpetual gauges finish after exactly their number of paying epochs** (FULL since fix 21bb9c1bc7).
For every reachable state and every successful epoch, for a non-perpetual gauge `g` that is active in this epoch
(already active, or upcoming with `start ≤ now`):
 (1) it moves to the finished store in THIS epoch iff this epoch advanced its record (`postDistribute`) and that
     was its `numEpochs`-th counted epoch; otherwise (2) it stays active;
 (3) its filled-epoch counter grows by one when it has a qualifying lock (non-zero lock sum) — its paying (or
     spam-skipped) epochs — and (4) without a qualifying lock the record is untouched and (5) it does NOT finish;
 (6) (`schedule_bounds`) every finished gauge has `filled = numEpochs`.
So `filled` counts exactly the epochs with a qualifying lock, and the gauge finishes in the epoch in which that count
reaches `numEpochs`, not earlier and not later. -/
theorem finishes_after_exactly_n_paying_epochs {s s' : State} {now : Int} {thr : Quotes} {locks : List Lock}
    {info : Info} (hr : Reachable s) (h : epoch s now thr locks = some (s', info)) {g : Gauge} (hg : g ∈ s.gauges)
    (hnp : g.perpetual = false)
    (hact : g.id ∈ refsIds s.active ∨ (g.id ∈ refsIds s.upcoming ∧ g.start ≤ now)) :
    (g.id ∈ refsIds s'.finished ↔ (∃ total, g.postDistribute total ∈ s'.gauges) ∧ g.filled + 1 = g.numEpochs) ∧
    (g.id ∉ refsIds s'.finished → g.id ∈ refsIds s'.active) ∧
    ((gaugeLocks g locks).isEmpty = false → lockSum (gaugeLocks g locks) ≠ 0 →
        ∃ total, g.postDistribute total ∈ s'.gauges ∧ (g.postDistribute total).filled = g.filled + 1) ∧
    ((gaugeLocks g locks).isEmpty = true → g ∈ s'.gauges) ∧
    ((gaugeLocks g locks).isEmpty = true → g.id ∉ refsIds s'.finished) ∧
    (∀ x ∈ s'.gauges, x.id ∈ refsIds s'.finished → x.filled = x.numEpochs) := by
  obtain ⟨hi, hs⟩ := reachable_inv hr
  have hs' : SInv s' := SInv_epoch hi hs h
  have hact' := (activation_at_start hr h hg)
  obtain ⟨up, act, snap, store, bal, act', fin, h1, h2, h3, h4, h5, rfl⟩ := epoch_unfold h
  have F := epochFacts hi h1 h2 h5
  -- g is in the active snapshot
  have hga : g.id ∈ refsIds act := by
    rcases hact with ha | ⟨hu, hle⟩
    · exact F.keepActive _ ha
    · rcases activate_split h1 _ hu with h' | h'
      · have := ((hact' hu).1).mp h'; omega
      · exact h'
  have hgs : g ∈ snap := by
    have : g.id ∈ snap.map (·.id) := by rw [F.snapIds]; exact hga
    obtain ⟨g', hg', he⟩ := List.mem_map.mp this
    have : g' = g := eq_of_id_eq hi.ids (F.snapMem g' hg') hg he
    subst this; exact hg'
  have hlt : g.filled < g.numEpochs := by
    rcases F.actFrom _ hga with hu | ha
    · have := hs.up g hg hu
      rcases hs.pos g hg with hp | hp
      · rw [hnp] at hp; cases hp
      · omega
    · rcases hs.act g hg ha with hp | hp
      · rw [hnp] at hp; cases hp
      · exact hp
  obtain ⟨j1, _, _, _⟩ := distributeLoop_spec h3 hi.ids F.snapNodup F.snapMem hi.g (fun _ he => absurd he List.not_mem_nil)
  have hstn : (store.map (·.id)).Nodup := by rw [j1]; exact hi.ids
  obtain ⟨m, _, _, hne, hres1, hres2⟩ := distributeLoop_result h3 F.snapMem F.snapNodup hgs
  -- the record stored under g's id after the loop decides
  have hFiff : g.id ∈ (snap.filter (finishing store)).map (·.id) ↔
      (∃ total, g.postDistribute total ∈ store) ∧ g.filled + 1 = g.numEpochs := by
    rw [mem_finishing_ids]
    constructor
    · rintro ⟨g', hg', hfin, he⟩
      have : g' = g := eq_of_id_eq hi.ids (F.snapMem g' hg') hg he
      subst this
      obtain ⟨_, hle, u, hu, hule⟩ := (finishing_iff store g').mp hfin
      cases hd : distributeGauge m locks g' with
      | none => exact absurd hd hne
      | some r =>
        cases r with
        | none =>
          have hm := hres2 hd
          have := getGauge_of_mem hstn hm
          rw [hu] at this
          have : u = g' := Option.some.inj this
          subst this; omega
        | some tp =>
          obtain ⟨total, pays⟩ := tp
          have hm := hres1 total pays hd
          exact ⟨⟨total, hm⟩, by omega⟩
    · rintro ⟨⟨total, hm⟩, he⟩
      refine ⟨g, hgs, (finishing_iff store g).mpr ⟨hnp, by omega, g.postDistribute total, ?_, ?_⟩, rfl⟩
      · exact getGauge_of_mem hstn hm
      · show g.numEpochs ≤ g.filled + 1; omega
  have hfinIff : g.id ∈ refsIds fin ↔ (∃ total, g.postDistribute total ∈ store) ∧ g.filled + 1 = g.numEpochs := by
    rw [F.finIff, hFiff]
    constructor
    · rintro (h' | h')
      · exact h'
      · exact absurd h' (F.actNotFin _ hga)
    · exact Or.inl
  have huntouched : (gaugeLocks g locks).isEmpty = true → g ∈ store := by
    intro hl
    cases hd : distributeGauge m locks g with
    | none => exact absurd hd hne
    | some r =>
      cases r with
      | none => exact hres2 hd
      | some tp =>
        obtain ⟨total, pays⟩ := tp
        obtain ⟨_, _, _, _, hne, _⟩ := distributeGauge_written hd
        rw [hl] at hne; cases hne
  refine ⟨hfinIff, ?_, ?_, huntouched, ?_, fun x hx hxf => (hs'.fin x hx hxf).2⟩
  · intro hnf
    rcases F.actSplit _ hga with h' | h'
    · exact absurd ((F.finIff _).mpr (Or.inl h')) hnf
    · exact h'
  · intro hl hS
    cases hd : distributeGauge m locks g with
    | none => exact absurd hd hne
    | some r =>
      obtain ⟨total, pays, rfl⟩ := distributeGauge_writes hd hl hS
      exact ⟨total, hres1 total pays hd, rfl⟩
  · intro hl hf
    obtain ⟨⟨total, hm⟩, _⟩ := hfinIff.mp hf
    have hg' := huntouched hl
    have e1 := getGauge_of_mem hstn hm
    have e2 := getGauge_of_mem hstn hg'
    have : (g.postDistribute total).id = g.id := rfl
    rw [this, e2] at e1
    have := congrArg Gauge.filled (Option.some.inj e1)
    simp [Gauge.postDistribute] at this

set_option synthInstance.maxSize 4096 in
/-- the history that used to finish a gauge with an unpaid epoch (F20): a 2-epoch gauge pays in its first epoch,
has NO qualifying lock in the second one — and now STAYS ACTIVE with `filled = 1`; a later epoch with a lock pays
the remaining 500 (plus a top-up of 777 accepted meanwhile) and only then the gauge finishes, `filled = 2`,
everything distributed, nothing left in the module account. -/
example :
    let s1 := run (init ⟨[3600], ["lp"], []⟩ []) [.create false "lp" 3600 [("uosmo", 1000)] 0 2,
                .epoch 10 [("uosmo", some 1)] [⟨1, 0, none, 3600, "lp", 100, false⟩], .epoch 20 [("uosmo", some 1)] []]
    let s2 := run s1 [.add 1 [("uosmo", 777)] 25, .epoch 30 [("uosmo", some 1)] [⟨2, 1, none, 3600, "lp", 100, false⟩]]
    (refsIds s1.active, refsIds s1.finished, s1.gauges.map (fun g => (g.numEpochs, g.filled, g.distributed))) =
      ([1], [], [(2, 1, [("uosmo", 500)])]) ∧
    (refsIds s2.active, refsIds s2.finished, s2.gauges.map (fun g => (g.filled, g.coins, g.distributed)), s2.balance) =
      ([], [1], [(2, [("uosmo", 1777)], [("uosmo", 1777)])], []) ∧
    (addToGauge s2 1 [("uosmo", 5)] 35).isNone = true := by
  decide +kernel

/-! ## failed operations -/

/-- **a failing operation is a no-op** (the Go error/panic is dropped together with its cache context). -/
theorem failed_op_noop (s : State) :
    (∀ p dn du c st n, createGauge s p dn du c st n = none → step s (.create p dn du c st n) = s) ∧
    (∀ id c now, addToGauge s id c now = none → step s (.add id c now) = s) ∧
    (∀ now thr locks, epoch s now thr locks = none → step s (.epoch now thr locks) = s) :=
  ⟨fun _ _ _ _ _ _ h => by simp only [step, h], fun _ _ _ h => by simp only [step, h], fun _ _ _ h => by simp only [step, h]⟩

/-- the rejected gauge creations: zero epochs for a non-perpetual gauge, a reward denom without protorev route,
a duration that is not lockable, a lock denom without supply, invalid coins. -/
theorem createGauge_rejects (s : State) (p : Bool) (dn : Denom) (du : Int) (c : Coins) (st : Int) (n : Nat)
    (h : (n = 0 ∧ p = false) ∨ distributable s.cfg c = false ∨ s.cfg.lockable.contains du = false ∨
         s.cfg.supply.contains dn = false ∨ validCoins c = false) : createGauge s p dn du c st n = none := by
  rcases h with ⟨h1, h2⟩ | h | h | h | h
  · subst h1; subst h2; simp [createGauge]
  all_goals (simp only [createGauge, h]; simp)

/-- top-ups are rejected for unknown gauges and for gauges that are finished by their fields. -/
theorem addToGauge_rejects (s : State) (id : Nat) (c : Coins) (now : Int)
    (h : getGauge s.gauges id = none ∨ ∃ g, getGauge s.gauges id = some g ∧ g.isFinishedAt now = true) :
    addToGauge s id c now = none := by
  unfold addToGauge
  split
  · rfl
  · rcases h with h | ⟨g, hg, hf⟩
    · rw [h]
    · rw [hg]; simp [hf]

/-- **a finished gauge rejects every deposit** (formerly a gauge that had finished with an unpaid epoch accepted
deposits it could never pay out, F63): in every reachable state `AddToGaugeRewards` fails for a gauge of the
finished store, at every block time not before the gauge's start (block times do not run backwards, and a gauge is
activated only at a block time ≥ its start). -/
theorem finished_gauge_rejects_topup {s : State} (hr : Reachable s) {g : Gauge} (hg : g ∈ s.gauges)
    (hf : g.id ∈ refsIds s.finished) (c : Coins) {now : Int} (hnow : g.start ≤ now) :
    addToGauge s g.id c now = none := by
  obtain ⟨hi, hs⟩ := reachable_inv hr
  obtain ⟨hnp, hfl⟩ := hs.fin g hg hf
  refine addToGauge_rejects s g.id c now (Or.inr ⟨g, getGauge_of_mem hi.ids hg, ?_⟩)
  unfold Gauge.isFinishedAt
  simp [hnow, hnp, hfl]

/-! ## non-vacuity -/

set_option synthInstance.maxSize 1024 in
/-- two gauges (one perpetual), three locks of two owners with different durations, two reward denoms with a
minimum: concrete payouts, floor remainders stay in the gauge, the 1-epoch gauge finishes. -/
example :
    (epoch (run (init ⟨[3600, 7200], ["lp"], ["rewa"]⟩ [])
        [.create false "lp" 3600 [("rewa", 1000), ("uosmo", 3000)] 100 3, .create true "lp" 7200 [("uosmo", 500)] 50 1])
      100 [("rewa", some 20), ("uosmo", some 10)]
      [⟨1, 0, none, 3600, "lp", 100, false⟩, ⟨2, 1, some 3, 7200, "lp", 300, false⟩, ⟨3, 1, some 3, 7200, "lp", 100, true⟩]).map
      (fun r => (received r.2, r.1.gauges.map (fun g => (g.filled, g.distributed)), refsIds r.1.active, r.1.balance))
    = some ([(0, [("rewa", 66), ("uosmo", 200)]), (3, [("rewa", 266), ("uosmo", 1300)])],
            [(1, [("rewa", 332), ("uosmo", 1000)]), (1, [("uosmo", 500)])], [2, 1], [("rewa", 668), ("uosmo", 2000)]) := by
  decide +kernel

/-- the history of the former finding F61: the minimum 10000uosmo converts to 0rewx; three locks of 100 each, gauge
3000rewx: every lock is paid its 1000 — what the property's clause says — also across two gauges sharing the cache. -/
example :
    let s0 := run (init ⟨[3600], ["lp"], ["rewx"]⟩ []) [.create true "lp" 3600 [("rewx", 3000)] 0 1]
    let q : Quotes := [("rewx", some 0), ("uosmo", some 10000)]
    let locks : List Lock := [⟨1, 0, none, 3600, "lp", 100, false⟩, ⟨2, 1, none, 3600, "lp", 100, false⟩, ⟨3, 2, none, 3600, "lp", 100, false⟩]
    (epoch s0 10 q locks).map (fun r => received r.2) =
      some [(0, [("rewx", 1000)]), (1, [("rewx", 1000)]), (2, [("rewx", 1000)])] ∧
    (s0.gauges.flatMap (clausePays (worthMinimum q) locks)).map (fun p => (p.receiver, p.coins)) =
      [(0, [("rewx", 1000)]), (1, [("rewx", 1000)]), (2, [("rewx", 1000)])] := by decide +kernel

set_option synthInstance.maxSize 1024 in
example :
    (epoch (run (init ⟨[3600], ["lpa", "lpb"], ["rewx"]⟩ [])
        [.create true "lpa" 3600 [("rewx", 3000)] 0 1, .create false "lpb" 3600 [("rewx", 4000)] 0 2])
      10 [("rewx", some 0), ("uosmo", some 10000)]
      [⟨1, 0, none, 3600, "lpa", 100, false⟩, ⟨2, 1, none, 3600, "lpb", 100, false⟩, ⟨3, 2, none, 3600, "lpb", 100, false⟩]).map
      (fun r => (received r.2, r.1.gauges.map (fun g => (g.filled, g.distributed)))) =
    some ([(0, [("rewx", 3000)]), (1, [("rewx", 1000)]), (2, [("rewx", 1000)])], [(1, [("rewx", 3000)]), (1, [("rewx", 2000)])]) := by
  decide +kernel

set_option synthInstance.maxSize 2048 in
/-- the history of the former finding F62: the pool behind rewx's route cannot quote the minimum: the hook succeeds,
rewx is not paid in this epoch (the rewx gauge still counts it), the unrelated uosmo gauge pays. -/
example :
    let s0 := run (init ⟨[3600], ["lpa", "lpb"], ["rewx"]⟩ [])
        [.create true "lpa" 3600 [("rewx", 3000)] 0 1, .create true "lpb" 3600 [("uosmo", 5000000)] 0 1]
    let locks : List Lock := [⟨1, 0, none, 3600, "lpa", 100, false⟩, ⟨2, 1, none, 3600, "lpb", 100, false⟩]
    (epoch s0 10 [("rewx", none), ("uosmo", some 10000)] locks).map (fun r => (received r.2, r.1.gauges.map (fun g => (g.filled, g.distributed)))) =
      some ([(1, [("uosmo", 5000000)])], [(1, []), (1, [("uosmo", 5000000)])]) := by
  decide +kernel

example : Reachable (run (init ⟨[3600], ["lp"], []⟩ [("uosmo", 7)]) [.create true "lp" 3600 [("uosmo", 1000)] 0 1]) :=
  ⟨_, _, _, by decide, rfl⟩

/-- a non-perpetual 2-epoch gauge with locks in both epochs finishes after exactly two paying epochs, fully paid. -/
example :
    let s1 := run (init ⟨[3600], ["lp"], []⟩ []) [.create false "lp" 3600 [("uosmo", 1001)] 15 2,
                .epoch 10 [("uosmo", some 1)] [⟨1, 0, none, 3600, "lp", 100, false⟩],
                .epoch 20 [("uosmo", some 1)] [⟨1, 0, none, 3600, "lp", 100, false⟩],
                .epoch 30 [("uosmo", some 1)] [⟨1, 0, none, 3600, "lp", 100, false⟩],
                .epoch 40 [("uosmo", some 1)] [⟨1, 0, none, 3600, "lp", 100, false⟩]]
    (refsIds s1.finished, s1.gauges.map (fun g => (g.filled, g.distributed)), s1.balance) = ([1], [(2, [("uosmo", 1001)])], []) := by
  decide +kernel

end OsmoVerif.Props.C09
