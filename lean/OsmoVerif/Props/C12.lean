/-
C12 — fixed-point arithmetic is exactly rounded in the documented direction.

Every theorem is about the executable model `OsmoVerif.Num` (tied to
osmomath/decimal.go and cosmossdk.io/math LegacyDec by the `num` correspondence
engine and to the source constants through `Gen.Osmomath`).  Rounding is stated
with the division-free, uniquely-determining specs of `Spec/Rounding.lean`.
`sgnMul b n / |b|` is the exact quotient `n / b` with the divisor made positive.
Only property theorems and non-vacuity examples live here.
-/
import OsmoVerif.Proofs.NumLemmas2

namespace OsmoVerif.Props.C12
open OsmoVerif.Num OsmoVerif.Spec OsmoVerif.Gen

/-! ## constants the model takes from the source (regenerated every run) -/
theorem precision_facts :
    Osmomath.BigDecPrecision = 36 ∧ Osmomath.DecPrecision = 18 ∧
    Osmomath.maxDecBitLen = Osmomath.maxBitLen + Osmomath.BigDecimalPrecisionBits ∧
    (10 : Int) ^ Osmomath.BigDecPrecision < 2 ^ Osmomath.BigDecimalPrecisionBits ∧
    Osmomath.sdkLegacyPrecision = Osmomath.DecPrecision := by decide

/-! ## multiplication -/
theorem mul_half_even {a b r : Int} (h : BigDec.mul a b = some r) : IsHalfEven (a * b) P36 r := by
  obtain ⟨rfl, _⟩ := chk_some h; exact chopRound_isHalfEven _ _ P36_pos P36_even
theorem mulDec_half_even {a b r : Int} (h : BigDec.mulDec a b = some r) : IsHalfEven (a * b) P18 r := by
  obtain ⟨rfl, _⟩ := chk_some h; exact chopRound_isHalfEven _ _ P18_pos P18_even
theorem mulTruncate_toward_zero {a b r : Int} (h : BigDec.mulTruncate a b = some r) : IsTrunc (a * b) P36 r := by
  obtain ⟨rfl, _⟩ := chk_some h; exact chopTrunc_isTrunc _ _ P36_pos
theorem mulTruncateDec_toward_zero {a b r : Int} (h : BigDec.mulTruncateDec a b = some r) : IsTrunc (a * b) P18 r := by
  obtain ⟨rfl, _⟩ := chk_some h; exact chopTrunc_isTrunc _ _ P18_pos
theorem mulRoundUp_ceil {a b r : Int} (h : BigDec.mulRoundUp a b = some r) : IsCeil (a * b) P36 r := by
  obtain ⟨rfl, _⟩ := chk_some h; exact chopRoundUp_isCeil _ _ P36_pos
theorem mulRoundUpDec_ceil {a b r : Int} (h : BigDec.mulRoundUpDec a b = some r) : IsCeil (a * b) P18 r := by
  obtain ⟨rfl, _⟩ := chk_some h; exact chopRoundUp_isCeil _ _ P18_pos
theorem mulInt_exact {a b r : Int} (h : BigDec.mulInt a b = some r) : r = a * b := (chk_some h).1
theorem add_exact {a b r : Int} (h : BigDec.add a b = some r) : r = a + b := (chk_some h).1
theorem sub_exact {a b r : Int} (h : BigDec.sub a b = some r) : r = a - b := (chk_some h).1

/-! ## division (divisor of either sign; division by zero fails) -/
theorem quo_div_zero (a : Int) : BigDec.quo a 0 = none ∧ BigDec.quoTruncate a 0 = none ∧
    BigDec.quoRoundUp a 0 = none ∧ BigDec.quoRoundUpMut a 0 = none ∧ BigDec.quoRoundUpNextIntMut a 0 = none ∧
    BigDec.quoByDecRoundUp a 0 = none ∧ BigDec.quoTruncateDec a 0 = none ∧ BigDec.quoRaw a 0 = none ∧
    BigDec.quoInt a 0 = none := by
  simp [BigDec.quo, BigDec.quoTruncate, BigDec.quoRoundUp, BigDec.quoRoundUpMut, BigDec.quoRoundUpNextIntMut,
    BigDec.quoByDecRoundUp, BigDec.quoTruncateDec, BigDec.quoRaw, BigDec.quoInt]

theorem quoTruncate_toward_zero {a b r : Int} (h : BigDec.quoTruncate a b = some r) :
    b ≠ 0 ∧ IsTrunc (sgnMul b (a * P36)) b.natAbs r := by
  unfold BigDec.quoTruncate at h; split at h
  · cases h
  · obtain ⟨rfl, _⟩ := chk_some h; exact ⟨by assumption, tdiv_general_isTrunc _ _ (by assumption)⟩

theorem quoTruncateDec_toward_zero {a b r : Int} (h : BigDec.quoTruncateDec a b = some r) :
    b ≠ 0 ∧ IsTrunc (sgnMul b (a * P18)) b.natAbs r := by
  unfold BigDec.quoTruncateDec at h; split at h
  · cases h
  · obtain ⟨rfl, _⟩ := chk_some h; exact ⟨by assumption, tdiv_general_isTrunc _ _ (by assumption)⟩

/-- half-even division is taken from the quotient truncated at 72 decimals. -/
theorem quo_half_even_of_trunc72 {a b r : Int} (h : BigDec.quo a b = some r) :
    b ≠ 0 ∧ ∃ t, IsTrunc (sgnMul b (a * (P36 * P36))) b.natAbs t ∧ IsHalfEven t P36 r := by
  unfold BigDec.quo at h; split at h
  · cases h
  · obtain ⟨rfl, _⟩ := chk_some h
    exact ⟨by assumption, _, tdiv_general_isTrunc _ _ (by assumption), chopRound_isHalfEven _ _ P36_pos P36_even⟩

theorem quoRaw_half_even {a b r : Int} (h : BigDec.quoRaw a b = some r) :
    b ≠ 0 ∧ ∃ t, IsTrunc (sgnMul b (a * P36)) b.natAbs t ∧ IsHalfEven t P36 r := by
  unfold BigDec.quoRaw at h; split at h
  · cases h
  · obtain ⟨rfl, _⟩ := chk_some h
    exact ⟨by assumption, _, tdiv_general_isTrunc _ _ (by assumption), chopRound_isHalfEven _ _ P36_pos P36_even⟩

/-- ALL signs (holds since the `fix:` commit; before it only for `0 ≤ a`, `0 < b`). -/
theorem quoRoundUp_ceil {a b r : Int} (h : BigDec.quoRoundUp a b = some r) :
    b ≠ 0 ∧ IsCeil (sgnMul b (a * P36)) b.natAbs r := by
  unfold BigDec.quoRoundUp at h; split at h
  · cases h
  · obtain ⟨rfl, _⟩ := chk_some h; exact ⟨by assumption, incRemDiv_isCeil _ _ (by assumption)⟩

theorem quoRoundUpMut_ceil {a b r : Int} (h : BigDec.quoRoundUpMut a b = some r) :
    b ≠ 0 ∧ IsCeil (sgnMul b (a * P36)) b.natAbs r := by
  unfold BigDec.quoRoundUpMut at h; split at h
  · cases h
  · obtain ⟨rfl, _⟩ := chk_some h; exact ⟨by assumption, incRemDiv_isCeil _ _ (by assumption)⟩

theorem quoByDecRoundUp_ceil {a b r : Int} (h : BigDec.quoByDecRoundUp a b = some r) :
    b ≠ 0 ∧ IsCeil (sgnMul b (a * P18)) b.natAbs r := by
  unfold BigDec.quoByDecRoundUp at h; split at h
  · cases h
  · obtain ⟨rfl, _⟩ := chk_some h; exact ⟨by assumption, incRemDiv_isCeil _ _ (by assumption)⟩

/-- result is the next integer ≥ a/b, as a 36-decimal value. -/
theorem quoRoundUpNextInt_ceil {a b r : Int} (h : BigDec.quoRoundUpNextIntMut a b = some r) :
    b ≠ 0 ∧ ∃ k, r = k * P36 ∧ IsCeil (sgnMul b a) b.natAbs k := by
  unfold BigDec.quoRoundUpNextIntMut at h; split at h
  · cases h
  · obtain ⟨rfl, _⟩ := chk_some h; exact ⟨by assumption, _, rfl, incRemDiv_isCeil _ _ (by assumption)⟩

theorem quoInt_toward_zero {a b r : Int} (h : BigDec.quoInt a b = some r) :
    b ≠ 0 ∧ IsTrunc (sgnMul b a) b.natAbs r := by
  unfold BigDec.quoInt at h; split at h
  · cases h
  · cases h; exact ⟨by assumption, tdiv_general_isTrunc _ _ (by assumption)⟩

/-- mutating and non-mutating round-up division return the same value. -/
theorem quoRoundUpMut_eq_quoRoundUp (a b : Int) : BigDec.quoRoundUpMut a b = BigDec.quoRoundUp a b := rfl

/-! ## ceiling, truncation, precision conversion -/
theorem ceil_ceil {a r : Int} (h : BigDec.ceil a = some r) : ∃ k, r = k * P36 ∧ IsCeil a P36 k := by
  unfold BigDec.ceil at h
  cases h
  refine ⟨_, rfl, ?_⟩
  obtain ⟨e, hp, hn⟩ := tdiv_tmod_spec a P36 P36_pos
  unfold IsCeil
  generalize a.tdiv P36 = q at *
  generalize a.tmod P36 = t at *
  rcases Int.lt_or_le a 0 with ha | ha
  · have := hn ha
    rw [if_pos (by omega), Int.sub_mul]; omega
  · have := hp ha
    split
    · rw [Int.sub_mul]; omega
    · rw [Int.sub_mul, Int.add_mul]; omega

theorem truncateInt_toward_zero {a r : Int} (h : BigDec.truncateInt a = some r) : IsTrunc a P36 r := by
  unfold BigDec.truncateInt chkBigInt at h; split at h
  · cases h; exact tdiv_isTrunc _ _ P36_pos
  · cases h
theorem truncateDec_toward_zero {a r : Int} (h : BigDec.truncateDec a = some r) : ∃ k, r = k * P36 ∧ IsTrunc a P36 k := by
  cases h; exact ⟨_, rfl, tdiv_isTrunc _ _ P36_pos⟩
theorem roundInt_half_even {a r : Int} (h : BigDec.roundInt a = some r) : IsHalfEven a P36 r := by
  unfold BigDec.roundInt chkBigInt at h; split at h
  · cases h; exact chopRound_isHalfEven _ _ P36_pos P36_even
  · cases h
theorem dec_toward_zero {a r : Int} (h : BigDec.dec a = some r) : IsTrunc a Pdiff r := by
  cases h; exact tdiv_isTrunc _ _ Pdiff_pos
/-- ALL signs (since the `fix:` commit). -/
theorem decRoundUp_ceil {a r : Int} (h : BigDec.decRoundUp a = some r) : IsCeil a Pdiff r := by
  cases h
  have := incRemDiv_isCeil a Pdiff (by decide)
  rwa [sgnMul_of_pos a Pdiff_pos, show ((Pdiff.natAbs : Int)) = Pdiff from by decide] at this
theorem fromDec_exact {d r : Int} (h : BigDec.fromDec d = some r) : r = d * Pdiff := by cases h; rfl
theorem dec_fromDec (d : Int) : (BigDec.fromDec d).bind BigDec.dec = some d := by
  show some ((d * Pdiff).tdiv Pdiff) = some d
  rw [Int.mul_tdiv_cancel _ (by decide)]

/-! ## exact when representable: every rounding mode returns the exact quotient -/
theorem mul_exact_when_representable {a b q r : Int} (he : a * b = q * P36) :
    (BigDec.mul a b = some r → r = q) ∧ (BigDec.mulTruncate a b = some r → r = q) ∧
    (BigDec.mulRoundUp a b = some r → r = q) :=
  ⟨fun h => by have := mul_half_even h; rw [he] at this; exact this.exact P36_pos,
   fun h => by have := mulTruncate_toward_zero h; rw [he] at this; exact this.exact P36_pos,
   fun h => by have := mulRoundUp_ceil h; rw [he] at this; exact this.exact P36_pos⟩

theorem quo_exact_when_representable {a b q r : Int} (he : sgnMul b (a * P36) = q * b.natAbs) :
    (BigDec.quoTruncate a b = some r → r = q) ∧ (BigDec.quoRoundUp a b = some r → r = q) ∧
    (BigDec.quoRoundUpMut a b = some r → r = q) :=
  ⟨fun h => by obtain ⟨hb, t⟩ := quoTruncate_toward_zero h; rw [he] at t; exact t.exact (by omega),
   fun h => by obtain ⟨hb, t⟩ := quoRoundUp_ceil h; rw [he] at t; exact t.exact (by omega),
   fun h => by obtain ⟨hb, t⟩ := quoRoundUpMut_ceil h; rw [he] at t; exact t.exact (by omega)⟩

/-! ## overflow fails rather than wraps -/
/-- every checked operation returns only values within the bit-length bound … -/
theorem result_in_range {a b r : Int} :
    (BigDec.add a b = some r ∨ BigDec.sub a b = some r ∨ BigDec.mul a b = some r ∨ BigDec.mulDec a b = some r ∨
     BigDec.mulTruncate a b = some r ∨ BigDec.mulTruncateDec a b = some r ∨ BigDec.mulRoundUp a b = some r ∨
     BigDec.mulRoundUpDec a b = some r ∨ BigDec.mulInt a b = some r ∨ BigDec.quo a b = some r ∨
     BigDec.quoRaw a b = some r ∨ BigDec.quoTruncate a b = some r ∨ BigDec.quoTruncateDec a b = some r ∨
     BigDec.quoRoundUp a b = some r ∨ BigDec.quoByDecRoundUp a b = some r ∨ BigDec.quoRoundUpMut a b = some r ∨
     BigDec.quoRoundUpNextIntMut a b = some r) →
    r.natAbs < 2 ^ Osmomath.maxDecBitLen := by
  have key : ∀ x, chk x = some r → r.natAbs < 2 ^ Osmomath.maxDecBitLen := by
    intro x hx
    obtain ⟨rfl, hf⟩ := chk_some hx
    exact fitsBits_lt (n := Osmomath.maxDecBitLen) hf
  have dz : ∀ (c : Prop) [Decidable c] x, (if c then none else chk x) = some r → r.natAbs < 2 ^ Osmomath.maxDecBitLen := by
    intro c _ x hx
    split at hx
    · cases hx
    · exact key _ hx
  intro h
  rcases h with h | h | h | h | h | h | h | h | h | h | h | h | h | h | h | h | h
  all_goals
    simp only [BigDec.add, BigDec.sub, BigDec.mul, BigDec.mulDec, BigDec.mulTruncate, BigDec.mulTruncateDec,
      BigDec.mulRoundUp, BigDec.mulRoundUpDec, BigDec.mulInt, BigDec.quo, BigDec.quoRaw, BigDec.quoTruncate,
      BigDec.quoTruncateDec, BigDec.quoRoundUp, BigDec.quoByDecRoundUp, BigDec.quoRoundUpMut,
      BigDec.quoRoundUpNextIntMut] at h
    first | with_reducible exact key _ h | with_reducible exact dz _ _ h

/-- … and fails exactly when the correctly rounded result would exceed it (shown for the
representative of each family; the others are the same `chk` wrapper). -/
theorem overflow_fails_iff (a b : Int) :
    (BigDec.mul a b = none ↔ ¬ (chopRound P36 (a * b)).natAbs < 2 ^ Osmomath.maxDecBitLen) ∧
    (BigDec.add a b = none ↔ ¬ (a + b).natAbs < 2 ^ Osmomath.maxDecBitLen) ∧
    (BigDec.mulRoundUp a b = none ↔ ¬ (chopRoundUp P36 (a * b)).natAbs < 2 ^ Osmomath.maxDecBitLen) ∧
    (BigDec.mulTruncate a b = none ↔ ¬ (chopTrunc P36 (a * b)).natAbs < 2 ^ Osmomath.maxDecBitLen) := by
  have key : ∀ x, chk x = none ↔ ¬ x.natAbs < 2 ^ Osmomath.maxDecBitLen := by
    intro x
    by_cases hx : x.natAbs < 2 ^ Osmomath.maxDecBitLen
    · rw [chk_of_fits (lt_fitsBits hx)]; exact ⟨fun h => (by cases h), fun h => absurd hx h⟩
    · constructor
      · intro _; exact hx
      · intro _; unfold chk; rw [if_neg (fun h => hx (fitsBits_lt h))]
  exact ⟨key _, key _, key _, key _⟩

/-! ## encodings -/
/-- binary (and, via the same text form, JSON/string) round-trip for values within
`maxBitLen`; values in (maxBitLen, maxDecBitLen] are rejected by the decoders — recorded
finding F2 (keyed `1024<bits<=1144`). -/
theorem marshal_roundtrip {a : Int} (h : a.natAbs < 2 ^ Osmomath.maxBitLen) : BigDec.marshalRoundtrip a = some a := by
  unfold BigDec.marshalRoundtrip; rw [if_pos (lt_fitsBits h)]
theorem marshal_roundtrip_fails_above {a : Int} (h : ¬ a.natAbs < 2 ^ Osmomath.maxBitLen) : BigDec.marshalRoundtrip a = none := by
  unfold BigDec.marshalRoundtrip; rw [if_neg (fun hh => h (fitsBits_lt hh))]
/-- F2 witness: a value every arithmetic operation accepts but the decoder rejects. -/
theorem encoding_gap_witness : chk (2 ^ 1100) = some (2 ^ 1100) ∧ BigDec.marshalRoundtrip (2 ^ 1100) = none := by
  decide +kernel

/-! ## 18-decimal type (cosmossdk.io/math LegacyDec) -/
theorem dec_mul_half_even {a b r : Int} (h : Dec.mul a b = some r) : IsHalfEven (a * b) P18 r := by
  unfold Dec.mul chkDec at h; split at h
  · cases h; exact chopRound_isHalfEven _ _ P18_pos P18_even
  · cases h
theorem dec_mulTruncate_toward_zero {a b r : Int} (h : Dec.mulTruncate a b = some r) : IsTrunc (a * b) P18 r := by
  unfold Dec.mulTruncate chkDec at h; split at h
  · cases h; exact chopTrunc_isTrunc _ _ P18_pos
  · cases h
theorem dec_mulRoundUp_ceil {a b r : Int} (h : Dec.mulRoundUp a b = some r) : IsCeil (a * b) P18 r := by
  unfold Dec.mulRoundUp chkDec at h; split at h
  · cases h; exact chopRoundUp_isCeil _ _ P18_pos
  · cases h
theorem dec_quoTruncate_toward_zero {a b r : Int} (h : Dec.quoTruncate a b = some r) :
    b ≠ 0 ∧ IsTrunc (sgnMul b (a * P18)) b.natAbs r := by
  unfold Dec.quoTruncate at h; split at h
  · cases h
  · unfold chkDec at h; split at h
    · cases h; exact ⟨by assumption, tdiv_general_isTrunc _ _ (by assumption)⟩
    · cases h
theorem dec_quo_half_even_of_trunc36 {a b r : Int} (h : Dec.quo a b = some r) :
    b ≠ 0 ∧ ∃ t, IsTrunc (sgnMul b (a * (P18 * P18))) b.natAbs t ∧ IsHalfEven t P18 r := by
  unfold Dec.quo at h; split at h
  · cases h
  · unfold chkDec at h; split at h
    · cases h; exact ⟨by assumption, _, tdiv_general_isTrunc _ _ (by assumption), chopRound_isHalfEven _ _ P18_pos P18_even⟩
    · cases h
/-- the SDK's `QuoRoundUp` is a ceiling when both operands are non-negative … -/
theorem dec_quoRoundUp_ceil_nonneg {a b r : Int} (ha : 0 ≤ a) (hb : 0 < b) (h : Dec.quoRoundUp a b = some r) :
    IsCeil (a * P18) b r := by
  have hm : 0 ≤ a * P18 := Int.mul_nonneg ha (by decide)
  obtain ⟨e, hp, _⟩ := tdiv_tmod_spec (a * P18) b hb
  have hp := hp hm
  have hq : 0 ≤ (a * P18).tdiv b := Int.tdiv_nonneg hm (by omega)
  have d1 : decide ((a * P18).tdiv b < 0) = false := decide_eq_false (by omega)
  have d2 : decide (b < 0) = false := decide_eq_false (by omega)
  unfold Dec.quoRoundUp at h
  rw [if_neg (by omega)] at h
  simp only [d1, d2] at h
  unfold IsCeil
  generalize (a * P18).tdiv b = q at *
  generalize (a * P18).tmod b = t at *
  by_cases hr : 0 < t
  · rw [if_pos (Or.inl ⟨hr, trivial⟩)] at h
    unfold chkDec at h
    split at h
    · cases h; rw [Int.sub_mul, Int.add_mul]; omega
    · cases h
  · rw [if_neg (by intro hh; rcases hh with ⟨h1, _⟩ | ⟨_, h2⟩; exact hr h1; exact h2 rfl)] at h
    unfold chkDec at h
    split at h
    · cases h; rw [Int.sub_mul]; omega
    · cases h
/-- … and is NOT for mixed signs (dependency defect, recorded finding F8): 1/(-3) rounds to
-0.333333333333333332, one unit above the ceiling -0.333333333333333333. -/
theorem dec_quoRoundUp_not_ceil_mixed_sign :
    Dec.quoRoundUp (10 ^ 18) (-3 * 10 ^ 18) = some (-333333333333333332) ∧
    ¬ IsCeil (sgnMul (-3 * 10 ^ 18) (10 ^ 18 * P18)) ((-3 * 10 ^ 18 : Int).natAbs) (-333333333333333332) := by
  refine ⟨by decide +kernel, ?_⟩
  unfold IsCeil; decide +kernel

/-! ## value semantics of method chains (what "non-mutating forms leave operands untouched" means over time)

The pool machine `Num.Chain` is what the `num` engine replays for every alias chain it runs on live Go objects:
one call writes ONE variable.  Storage shared between a returned value and an operand would make a later
in-place update write two, i.e. contradict `chain_step_frame` on the implementation. -/
open Chain in
/-- a step leaves every variable but its target untouched (for `…Mut` the target is the receiver) -/
theorem chain_step_frame {pool pool' : List Int} {op : COp} {dst r : Nat} {a : Int}
    (h : step pool op dst r a = some pool') (j : Nat) (hj : j ≠ target op dst r) : pool'[j]? = pool[j]? := by
  unfold step at h
  split at h
  · split at h
    · split at h
      · cases h; exact List.getElem?_set_ne (Ne.symm hj)
      · cases h
    · cases h
  · cases h

open Chain in
/-- a step never adds or removes a variable -/
theorem chain_step_length {pool pool' : List Int} {op : COp} {dst r : Nat} {a : Int}
    (h : step pool op dst r a = some pool') : pool'.length = pool.length := by
  unfold step at h
  split at h
  · split at h
    · split at h
      · cases h; exact List.length_set
      · cases h
    · cases h
  · cases h

open Chain in
/-- a non-mutating call followed by an in-place update of its RESULT leaves the operands as they were:
`r := a.Mul(b); r.AddMut(c)` with `a` zero keeps `a = 0` (variables: a b c r). -/
example : run [0, 5 * P36, 7 * P36, 1] [(.mul, 3, 0, 1), (.addMut, 3, 3, 2)] 0 = .inl [0, 5 * P36, 7 * P36, 7 * P36] := by
  decide +kernel

/-! ## non-vacuity: concrete instances meeting the hypotheses (negative tie, 10^k neighbour, range edge) -/
example : BigDec.mul (-(5 * 10 ^ 35)) 1 = some 0 := by decide +kernel                       -- -0.5 ulp tie → even 0
example : BigDec.mul (-(15 * 10 ^ 35)) 1 = some (-2) := by decide +kernel                   -- -1.5 ulp tie → even -2
example : BigDec.mulRoundUp (-(15 * 10 ^ 35)) 1 = some (-1) := by decide +kernel
example : BigDec.quoRoundUp (7 * 10 ^ 36 + 1) (-2 * 10 ^ 36) = some (-3500000000000000000000000000000000000) := by decide +kernel
example : BigDec.quoRoundUp (-(7 * 10 ^ 36 + 1)) (-2 * 10 ^ 36) = some 3500000000000000000000000000000000001 := by decide +kernel
example : BigDec.decRoundUp (-(15 * 10 ^ 17)) = some (-1) := by decide +kernel
example : BigDec.add (2 ^ 1143) (2 ^ 1143) = none := by decide +kernel
example : BigDec.add (2 ^ 1143) (2 ^ 1143 - 1) = some (2 ^ 1144 - 1) := by decide +kernel

end OsmoVerif.Props.C12
