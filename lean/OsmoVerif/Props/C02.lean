/-
C02 — classic pools and the swap router neither create nor lose funds.

Theorems over `OsmoVerif.Gamm` (Model/Ledger + Model/GammKeeper: the bank ledger, the pool records and every
x/gamm / x/poolmanager message as the keeper code executes it; tied to the real keepers by the `gamm` engine).
The pool MATH is not modelled (C04): messages carry the numbers the pool model produced, and the theorems hold
for ANY such numbers.  Histories are arbitrary finite lists of operations (`Op`): messages by any users over any
pools, harness mints of token coins, parameter changes.

The only hypothesis that ever appears is `clean`: the history stayed inside the pool-math CONTRACT the keeper
relies on (`contract_*` below say exactly when a step leaves it).  It is needed for ONE claim only — pool
account = reserves + donations — and it is genuinely needed: `balancer_swap_entire_reserve_witness` (finding, the
real keeper agrees with the model on it).
-/
import OsmoVerif.Proofs.GammContract

namespace OsmoVerif.Props.C02
open OsmoVerif.Gamm OsmoVerif.Ledger

/-- a fresh chain whose next pool id is `n`. -/
def init (n : Nat) : State := { nextPoolId := n }

/-! ## the three ledgers agree, over any history -/

/-- **Pool account = reported reserves + direct donations**, for every pool id (also ids that have no pool yet:
reserves 0) and every denom, after ANY history that stayed inside the pool-math contract. -/
theorem bank_pool_eq_reserves_plus_donations (n : Nat) (ops : List Op)
    (hclean : (runOps (init n) ops).clean = true) (id : Nat) (d : Denom) :
    (runOps (init n) ops).bal (.pool id) d = (runOps (init n) ops).reserve id d + (runOps (init n) ops).don id d :=
  (runOps_inv ops _ (init_inv n)).bank hclean id d

/-- **Circulating supply of a pool's share token = the share total the pool reports** (0 when there is no such
pool), after ANY history — no contract needed. -/
theorem share_supply_eq_totalShares (n : Nat) (ops : List Op) (id : Nat) :
    (runOps (init n) ops).supply (.share id) = (runOps (init n) ops).shares id :=
  (runOps_inv ops _ (init_inv n)).shares id

/-- the supply the bank reports for any denom is the sum of all account balances (so "supply" below really is
"every unit anybody holds"). -/
theorem supply_eq_sum_of_balances (n : Nat) (ops : List Op) (d : Denom) :
    (runOps (init n) ops).supply d = (runOps (init n) ops).total d :=
  (runOps_inv ops _ (init_inv n)).sup d

/-- single-message form: the invariant bundle is preserved by every successful message from ANY state satisfying
it (not only reachable ones). -/
theorem invariants_preserved {s s' : State} {m : Msg} (h : step s m = some s') (hinv : Inv s) : Inv s' :=
  (step_facts h).inv hinv

/-- **No gamm / router message changes the total supply of a non-share token.** -/
theorem non_share_supply_constant {s s' : State} {m : Msg} (h : step s m = some s') (name : String) :
    s'.supply (.tok name) = s.supply (.tok name) :=
  (step_facts h).tok name

/-- over a whole history the supply of a token is exactly what the harness minted: nothing is created or
destroyed by any sequence of creates, joins, exits, swaps, routes and sends. -/
theorem non_share_supply_eq_funded (name : String) : ∀ (ops : List Op) (s : State),
    (runOps s ops).supply (.tok name) = s.supply (.tok name) + funded name ops
  | [], s => by simp only [runOps, funded]; omega
  | o :: os, s => by
    rw [runOps, non_share_supply_eq_funded name os, supply_applyOp]
    cases o <;> simp only [funded] <;> omega

/-! ## every unit is accounted for exactly once -/

/-- Σ over ALL accounts of the balance changes is zero, per token denom, for every successful message. -/
theorem trader_accounting_sum_zero {s s' : State} {m : Msg} (h : step s m = some s') (hinv : Inv s) (name : String) :
    s'.total (.tok name) = s.total (.tok name) := by
  have h1 := ((step_facts h).inv hinv).sup (.tok name)
  have h2 := hinv.sup (.tok name)
  have h3 := (step_facts h).tok name
  omega

/-- nobody but the sender (and the recipient of a direct send) is debited or credited among the users. -/
theorem trader_accounting_third_parties_untouched {s s' : State} {m : Msg} (h : step s m = some s')
    (v : Nat) (hv : ¬ m.touches v) (d : Denom) : s'.bal (.user v) d = s.bal (.user v) d :=
  (step_facts h).others v hv d

/-- **Exact-in hop**: the sender is debited exactly `amt`; `after` of it is in the pool account and `fee` in the
taker-fee collector with `after + fee = amt` (each unit exactly once, the fee is taken BEFORE the swap and is not
swapped); the sender gets exactly `out` from the pool account; no other balance of any account changes. -/
theorem trader_accounting_exact_in {s s' : State} {u : Nat} {din : Denom} {amt minOut out : Int} {h : HopIn}
    (hh : hopIn s u din amt h minOut = some (s', out)) :
    ∃ after fee, after + fee = amt ∧ 0 ≤ fee ∧ 0 < after ∧ din ≠ h.dout ∧ 0 < out ∧
      ∀ ac d, s'.bal ac d = s.bal ac d
        - (if ac = .user u ∧ d = din then amt else 0)
        + (if ac = .pool h.pool ∧ d = din then after else 0)
        + (if ac = .feeCollector ∧ d = din then fee else 0)
        - (if ac = .pool h.pool ∧ d = h.dout then out else 0)
        + (if ac = .user u ∧ d = h.dout then out else 0) :=
  hopIn_accounting hh

/-- **Exact-out hop**: the pool account receives exactly the swap amount `a`, the collector `fee` ON TOP, the sender
is debited `a + fee` once and receives exactly the requested amount. -/
theorem trader_accounting_exact_out {s s' : State} {u : Nat} {h : HopOut} {maxIn paid : Int} {tout : Denom × Int}
    (hh : hopOut s u h maxIn tout = some (s', paid)) :
    ∃ a fee, paid = a + fee ∧ 0 ≤ fee ∧ 0 < a ∧ a ≤ maxIn ∧ h.din ≠ tout.1 ∧ 0 < tout.2 ∧
      ∀ ac d, s'.bal ac d = s.bal ac d
        - (if ac = .user u ∧ d = h.din then paid else 0)
        + (if ac = .pool h.pool ∧ d = h.din then a else 0)
        + (if ac = .feeCollector ∧ d = h.din then fee else 0)
        - (if ac = .pool h.pool ∧ d = tout.1 then tout.2 else 0)
        + (if ac = .user u ∧ d = tout.1 then tout.2 else 0) :=
  hopOut_accounting hh

/-- the taker fee of an exact-in swap is the truncation remainder of `(1 − f)·amt`: the part swapped is
`⌊(1−f)·amt⌋` (for `0 ≤ f ≤ 1`, `amt ≥ 0` and below the overflow bound), never more than `amt`. -/
theorem taker_fee_exact_in_formula {amt f after fee : Int} (h : calcTakerFeeExactIn amt f = some (after, fee)) :
    after = ((Num.P18 - f) * amt).tdiv Num.P18 ∧ fee = amt - after := by
  unfold calcTakerFeeExactIn at h
  simp only [Option.bind_eq_bind, Option.bind_eq_some_iff] at h
  obtain ⟨fa, h1, m, h2, af, h3, h⟩ := h
  injection h with h; injection h with h4 h5; subst h4; subst h5
  unfold Num.Dec.sub Num.chkDec at h1
  unfold Num.Dec.mulInt Num.chkDec at h2
  unfold Num.Dec.truncateInt Num.chkInt at h3
  split at h1
  · injection h1 with h1; subst h1
    split at h2
    · injection h2 with h2; subst h2
      split at h3
      · injection h3 with h3; exact ⟨h3.symm, rfl⟩
      · cases h3
    · cases h2
  · cases h1

/-- **A failed message changes nothing**, and the rest of the history continues from the unchanged state. -/
theorem failed_message_noop {s : State} {m : Msg} (h : step s m = none) (ops : List Op) :
    apply s m = s ∧ runOps s (.msg m :: ops) = runOps s ops := by
  have : apply s m = s := by unfold apply; rw [h]
  exact ⟨this, by simp only [runOps, applyOp, this]⟩

/-- only a direct send to a pool address counts as a donation, with exactly the amount sent. -/
theorem donations_only_by_direct_sends {s s' : State} {m : Msg} (h : step s m = some s') (id : Nat) (d : Denom) :
    s'.don id d = s.don id d + (match m with
      | .bankSend _ to d' a => if to = .pool id ∧ d' = d then a else 0
      | _ => 0) := by
  cases m with
  | bankSend u to d' a => exact bankSend_donated h id d
  | _ =>
    have := step_donated h (by intro _ _ _ _ hc; cases hc)
    simp only [State.don, this]; omega

/-! ## the contract -/

/-- a swap leaves the contract exactly when, on a BALANCER pool, a reserve would become exactly zero. -/
theorem contract_swap {s s' : State} {u id : Nat} {din dout : Denom} {a minOut out : Int} {math : Option Int} {p : Pool}
    (h : gammSwapIn s u id din a dout minOut math = some (s', out)) (hp : getPool s.pools id = some p) :
    s'.clean = (s.clean && decide (p.kind = .balancer → p.res din + a ≠ 0 ∧ p.res dout - out ≠ 0)) :=
  gammSwapIn_clean h hp

/-- an all-asset exit stays inside the contract when no exit amount equals a whole reserve (`CalcExitPool`
refuses such amounts) and the exit coins have distinct denoms. -/
theorem contract_exit {s s' : State} {u id : Nat} {shareIn : Int} {mins cs : Coins} {math : Option Coins} {p : Pool}
    (h : exitPool s u id shareIn mins math = some (s', cs)) (hp : getPool s.pools id = some p)
    (hnd : denomsNodup cs = true) (hne : ∀ c, c ∈ cs → c.2 ≠ p.res c.1) : s'.clean = s.clean :=
  exitPool_clean h hp hnd hne

/-- an all-asset join stays inside the contract iff the pool model added to its record exactly the coins the
keeper computed (`getMaximalNoSwapLPAmount`) and transfers. -/
theorem contract_join {s s' : State} {u id : Nat} {shareOut sh : Int} {maxs joined : Coins} {p : Pool}
    (h : joinPool s u id shareOut maxs (some (sh, joined)) = some s') (hp : getPool s.pools id = some p) :
    s'.clean = (s.clean && decide (some joined = getMaximalNoSwapLPAmount p shareOut)) :=
  joinPool_clean h hp

/-- leaving the contract is permanent: a clean end state means every prefix of the history was clean. -/
theorem clean_prefix : ∀ (ops more : List Op) (s : State), (runOps s (ops ++ more)).clean = true → (runOps s ops).clean = true
  | [], more, s, h => by
    induction more generalizing s with
    | nil => exact h
    | cons o os ih => exact applyOp_clean s o (ih _ h)
  | o :: os, more, s, h => clean_prefix os more _ h

/-! ## FINDING (the real keeper behaves like the model here): a balancer swap that pays out an ENTIRE reserve -/

def witnessOps : List Op :=
  [ .fund 0 "aaa" 1000000, .fund 0 "bbb" 1000000,
    .msg (.createPool 0 .balancer [(.tok "aaa", 1000), (.tok "bbb", 5)]),
    -- the pool model answers "5 bbb out" for 900 aaa in: the whole bbb reserve
    .msg (.swapExactAmountIn 0 (.tok "aaa") 900 1 [⟨1, .tok "bbb", some 5⟩]) ]

/-- `applySwap` builds `sdk.NewCoins(in, out)`, which DROPS the zero `out` coin, so `UpdatePoolAssetBalances`
never writes it: the pool account holds 0 bbb while the record still reports 5 (and the history is not clean). -/
theorem balancer_swap_entire_reserve_witness :
    let s := runOps (init 1) witnessOps
    s.bal (.pool 1) (.tok "bbb") = 0 ∧ s.reserve 1 (.tok "bbb") = 5 ∧ s.clean = false ∧
    s.bal (.pool 1) (.tok "aaa") = 1900 ∧ s.reserve 1 (.tok "aaa") = 1900 := by
  decide +kernel

/-! ## non-vacuity: a history with every kind of message, all successful, inside the contract -/

def demoOps : List Op :=
  [ .fund 0 "aaa" 1000000, .fund 0 "bbb" 1000000, .fund 0 "ccc" 1000000, .fund 1 "aaa" 50000, .fund 1 "bbb" 50000,
    .setParams { defaultTakerFee := 10 ^ 16, whitelist := [], creationFee := [(.tok "ccc", 100)] },
    .msg (.createPool 0 .balancer [(.tok "aaa", 10000), (.tok "bbb", 20000)]),
    .msg (.createPool 0 .stableswap [(.tok "bbb", 30000), (.tok "ccc", 30000)]),
    .msg (.bankSend 1 (.pool 1) (.tok "aaa") 7),
    .msg (.joinPool 1 1 (10 ^ 18) [] (some (10 ^ 18, [(.tok "aaa", 100), (.tok "bbb", 200)]))),
    .msg (.joinSwapExternAmountIn 1 1 (.tok "aaa") 500 1 (some 2000000)),
    .msg (.joinSwapShareAmountOut 1 1 (.tok "bbb") 3000000 1000 (some 31)),
    .msg (.swapExactAmountIn 1 (.tok "aaa") 1000 1 [⟨1, .tok "bbb", some 1700⟩, ⟨2, .tok "ccc", some 1650⟩]),
    .msg (.swapExactAmountOut 1 5000 (.tok "aaa") 100 [⟨2, .tok "ccc", some 215, some 215⟩, ⟨1, .tok "bbb", some 210, some 210⟩]),
    .msg (.exitPool 1 1 500000 [] (some [(.tok "aaa", 1), (.tok "bbb", 2)])),
    .msg (.exitSwapExternAmountOut 1 1 (.tok "aaa") 10 (some 40000)),
    .msg (.exitSwapShareAmountIn 1 1 (.tok "bbb") 100000 1 (some [(.tok "aaa", 3), (.tok "bbb", 6)]) [some 5]) ]

/-- all 11 messages succeed (the nonce of pool ids advanced, shares were minted and burned, the fee collector and
the community pool were paid), the history is clean, and the three ledgers agree. -/
example :
    let s := runOps (init 1) demoOps
    s.clean = true ∧ s.nextPoolId = 3 ∧ s.don 1 (.tok "aaa") = 7 ∧
    0 < s.bal .feeCollector (.tok "aaa") ∧ s.bal .communityPool (.tok "ccc") = 200 ∧
    s.bal (.pool 1) (.tok "aaa") = s.reserve 1 (.tok "aaa") + 7 ∧
    s.supply (.share 1) = s.shares 1 ∧ s.shares 1 ≠ Gen.Gamm.InitPoolSharesSupply ∧
    s.supply (.tok "aaa") = 1050000 := by
  decide +kernel

end OsmoVerif.Props.C02
