/-
Tie T1 for x/superfluid stake.go (owning property C11), part B extended: ordered statement lists regenerated on every run
(tools/extract/gen_expr_k.go) and pinned below.  Part of what they pin: mint → supply offset by the NEGATED minted amount → send →
delegate inside ONE cache context in `mintOsmoTokensAndDelegate`; instant undelegate → send back → burn → supply offset by
`undelegatedCoins.AmountOf(bondDenom)` in `forceUndelegateAndBurnOsmoTokens`; in `RefreshIntermediaryDelegationAmounts` the
`currentAmount` of an account WITHOUT delegation is zero (no `continue`), the three-way comparison of refreshed and current amount and
which difference is minted / burned.
Written by tools/mkpins.py from tools/pins/TieGenSuperfluidOps.json.
-/
import OsmoVerif.Gen.SuperfluidOpsFn

-- `decide` on lists of up to a few hundred strings
set_option maxRecDepth 100000

namespace OsmoVerif.Props.TieGenSuperfluidOps
open OsmoVerif

/-- B — `Keeper.GetTotalSyntheticAssetsLocked`: the synthetic locked amount `SuperfluidStaking.refreshOneS` reads -/
theorem opsx_Keeper_GetTotalSyntheticAssetsLocked_pinned : Gen.SuperfluidOps.opsx_Keeper_GetTotalSyntheticAssetsLocked =
    ["UnbondingTime(v0.sk,v1)",
     "GetPeriodLocksAccumulation(v0.lk,v1,{LockQueryType:lockuptypes.ByDuration,Denom:v2,Duration:v3})",
     "return(_,nil)"] := by decide

/-- B — `Keeper.GetExpectedDelegationAmount`: the refreshed amount of `SuperfluidStaking.refreshOneS` (`GetSuperfluidOSMOTokens` of the total synthetic lock amount) -/
theorem opsx_Keeper_GetExpectedDelegationAmount_pinned : Gen.SuperfluidOps.opsx_Keeper_GetExpectedDelegationAmount =
    ["stakingSyntheticDenom(v2.Denom,v2.ValAddr)", "GetTotalSyntheticAssetsLocked(v0,v1,_)",
     "GetSuperfluidOSMOTokens(v0,v1,v2.Denom,v3)", "return(v5,nil)"] := by decide

/-- B — `Keeper.RefreshIntermediaryDelegationAmounts`: `SuperfluidStaking.refreshAllS` / `refreshOneS` (`currentS`: zero without delegation; `GT` ⇒ mint the difference, `LT` ⇒ burn it, equal ⇒ nothing) -/
theorem opsx_Keeper_RefreshIntermediaryDelegationAmounts_pinned : Gen.SuperfluidOps.opsx_Keeper_RefreshIntermediaryDelegationAmounts =
    ["sdk.UnwrapSDKContext(v1)", "range(v2)", "GetAccAddress(v4)", "=(v5,v4.GetAccAddress())",
     "sdk.ValAddressFromBech32(v4.ValAddr)", "if", "panic(v7)", "end", "GetValidator(v0.sk,v3,v6)", "if", "continue",
     "end", "osmomath.NewInt(0)", "=(v9,osmomath.NewInt(0))", "GetDelegation(v0.sk,v3,v5,v6)", "if", "else",
     "TokensFromShares(v8,v10.Shares)", "RoundInt(_)", "=(v9,_.RoundInt())", "end",
     "GetExpectedDelegationAmount(v0,v3,v4)", "if", "end", "GT(v11,v9)", "if", "Sub(v11,v9)",
     "mintOsmoTokensAndDelegate(v0,v3,v12,v4)", "if", "end", "else", "GT(v9,v11)", "if", "Sub(v9,v11)",
     "forceUndelegateAndBurnOsmoTokens(v0,v3,v12,v4)", "if", "end", "else", "end", "end"] := by decide

/-- B — `Keeper.IncreaseSuperfluidDelegation`: `SuperfluidStaking.increaseHookS` -/
theorem opsx_Keeper_IncreaseSuperfluidDelegation_pinned : Gen.SuperfluidOps.opsx_Keeper_IncreaseSuperfluidDelegation =
    ["GetIntermediaryAccountFromLockId(v0,v1,v2)", "!(v5)", "if", "end", "AmountOf(v3,v4.Denom)",
     "GetSuperfluidOSMOTokens(v0,v1,v4.Denom,_)", "IsZero(v6)", "if", "end", "mintOsmoTokensAndDelegate(v0,v1,v6,v4)"] := by decide

/-- B — `Keeper.validateLockForSF`: the owner / single-coin guards of `SuperfluidStaking.superfluidDelegateS` -/
theorem opsx_Keeper_validateLockForSF_pinned : Gen.SuperfluidOps.opsx_Keeper_validateLockForSF =
    ["!=(v1.Owner,v2)", "if", "return(error)", "end", "Len(v1.Coins)", "!=(v1.Coins.Len(),1)", "if", "return(error)",
     "end"] := by decide

/-- B — `Keeper.validateLockForSFDelegate`: the denom / unlocking / duration guards of `SuperfluidStaking.superfluidDelegateS` -/
theorem opsx_Keeper_validateLockForSFDelegate_pinned : Gen.SuperfluidOps.opsx_Keeper_validateLockForSFDelegate =
    ["validateLockForSF(v0,v2,v3)", "=(v5,v2.Coins[0].Denom)", "GetSuperfluidAsset(v0,v1,v5)", "=(_;v4,_)",
     "IsUnlocking(v2)", "if", "return(error)", "end", "GetParams(v0.sk,v1)", "=(v7,v6.UnbondingTime)",
     "<(v2.Duration,v7)", "if", "return(error)", "end", "alreadySuperfluidStaking(v0,v1,v2.ID)", "if",
     "return(error)", "end"] := by decide

/-- B — `Keeper.SuperfluidDelegate`: `SuperfluidStaking.superfluidDelegateS` -/
theorem opsx_Keeper_SuperfluidDelegate_pinned : Gen.SuperfluidOps.opsx_Keeper_SuperfluidDelegate =
    ["GetLockByID(v0.lk,v1,v3)", "validateLockForSFDelegate(v0,v1,v5,v2)", "=(v7,v5.Coins[0])",
     "GetOrCreateIntermediaryAccount(v0,v1,v7.Denom,v4)", "SetLockIdIntermediaryAccountConnection(v0,v1,v3,v8)",
     "createSyntheticLockup(v0,v1,v3,v8,bondedStatus)", "GetSuperfluidOSMOTokens(v0,v1,v8.Denom,v7.Amount)",
     "IsZero(v9)", "if", "return(error)", "end", "mintOsmoTokensAndDelegate(v0,v1,v9,v8)", "return(_)"] := by decide

/-- B — `Keeper.undelegateCommon`: `SuperfluidStaking.undelegateCommonS` -/
theorem opsx_Keeper_undelegateCommon_pinned : Gen.SuperfluidOps.opsx_Keeper_undelegateCommon =
    ["GetLockByID(v0.lk,v1,v3)", "validateLockForSF(v0,v4,v2)", "=(v6,v4.Coins[0])",
     "GetIntermediaryAccountFromLockId(v0,v1,v3)", "!(v8)", "if", "end",
     "DeleteLockIdIntermediaryAccountConnection(v0,v1,v3)", "stakingSyntheticDenom(v6.Denom,v7.ValAddr)",
     "DeleteSyntheticLockup(v0.lk,v1,v3,v9)", "GetSuperfluidOSMOTokens(v0,v1,v7.Denom,v6.Amount)",
     "forceUndelegateAndBurnOsmoTokens(v0,v1,v10,v7)", "return(v7,nil)"] := by decide

/-- B — `Keeper.SuperfluidUndelegate`: `SuperfluidStaking.superfluidUndelegateS` -/
theorem opsx_Keeper_SuperfluidUndelegate_pinned : Gen.SuperfluidOps.opsx_Keeper_SuperfluidUndelegate =
    ["undelegateCommon(v0,v1,v2,v3)", "createSyntheticLockup(v0,v1,v3,v4,unlockingStatus)", "return(_)"] := by decide

/-- B — `Keeper.SuperfluidUnbondLock`: the unbond step of the superfluid model (`Superfluid` lock layer) -/
theorem opsx_Keeper_SuperfluidUnbondLock_pinned : Gen.SuperfluidOps.opsx_Keeper_SuperfluidUnbondLock =
    ["unbondLock(v0,v1,v2,v3,{})"] := by decide

/-- B — `Keeper.SuperfluidUndelegateAndUnbondLock`: `SuperfluidStaking.superfluidUndelegateAndUnbondLockS` -/
theorem opsx_Keeper_SuperfluidUndelegateAndUnbondLock_pinned : Gen.SuperfluidOps.opsx_Keeper_SuperfluidUndelegateAndUnbondLock =
    ["GetLockByID(v0.lk,v1,v2)", "sdk.NewCoin(v5.Coins[0].Denom,v4)", "=(v7,{_})", "IsZero(v7[0])", "if",
     "return(0,error)", "end", "IsLT(v5.Coins[0],v7[0])", "if", "return(0,error)", "end",
     "GetIntermediaryAccountFromLockId(v0,v1,v2)", "!(v9)", "if", "return(0,error)", "end",
     "SuperfluidUndelegate(v0,v1,v3,v2)", "unbondLock(v0,v1,v2,v3,v7)", "IsEqual(v5.Coins[0],v7[0])", "if",
     "!=(v10,v2)", "if", "panic(_)", "end", "return(v5.ID,nil)", "else", "==(v10,v2)", "if", "panic(_)", "end",
     "end", "unstakingSyntheticDenom(v5.Coins[0].Denom,v8.ValAddr)", "DeleteSyntheticLockup(v0.lk,v1,v2,v11)",
     "SuperfluidDelegate(v0,v1,v3,v2,v8.ValAddr)", "createSyntheticLockup(v0,v1,v10,v8,unlockingStatus)",
     "return(v10,nil)"] := by decide

/-- B — `Keeper.unbondLock`: the unbond step of `SuperfluidStaking.superfluidUndelegateAndUnbondLockS` -/
theorem opsx_Keeper_unbondLock_pinned : Gen.SuperfluidOps.opsx_Keeper_unbondLock =
    ["GetLockByID(v0.lk,v1,v2)", "validateLockForSF(v0,v5,v3)", "GetSyntheticLockupByUnderlyingLockId(v0.lk,v1,v2)",
     "==(v7,{})", "if", "return(0,error)", "end", "IsUnlocking(v7)", "!(v7.IsUnlocking())", "if", "return(0,error)",
     "end", "BeginForceUnlock(v0.lk,v1,v2,v4)", "return(_)"] := by decide

/-- B — `Keeper.alreadySuperfluidStaking`: the already-delegated guard of `SuperfluidStaking.superfluidDelegateS` -/
theorem opsx_Keeper_alreadySuperfluidStaking_pinned : Gen.SuperfluidOps.opsx_Keeper_alreadySuperfluidStaking =
    ["GetLockIdIntermediaryAccountConnection(v0,v1,v2)", "Empty(v3)", "!(v3.Empty())", "if", "return(true)", "end",
     "GetSyntheticLockupByUnderlyingLockId(v0.lk,v1,v2)", "if", "return(false)", "end", "!=(v4,{})"] := by decide

/-- B — `Keeper.mintOsmoTokensAndDelegate`: `SuperfluidStaking.mintS` -/
theorem opsx_Keeper_mintOsmoTokensAndDelegate_pinned : Gen.SuperfluidOps.opsx_Keeper_mintOsmoTokensAndDelegate =
    ["validateValAddrForDelegate(v0,v1,v3.ValAddr)", "func", "BondDenom(v0.sk,v6)", "sdk.NewCoin(v7,v2)",
     "=(v8,{_})", "MintCoins(v0.bk,v6,types.ModuleName,v8)", "Neg(v2)", "AddSupplyOffset(v0.bk,v6,v7,v2.Neg())",
     "GetAccAddress(v3)", "SendCoinsFromModuleToAccount(v0.bk,v6,types.ModuleName,v3.GetAccAddress(),v8)",
     "GetAccAddress(v3)", "Delegate(v0.sk,v6,v3.GetAccAddress(),v2,stakingtypes.Unbonded,v4,true)", "=(_;v5,_)",
     "end", "osmoutils.ApplyFuncIfNoError(v1,_)"] := by decide

/-- B — `Keeper.forceUndelegateAndBurnOsmoTokens`: `SuperfluidStaking.burnS` / `validateUnbondAmount` -/
theorem opsx_Keeper_forceUndelegateAndBurnOsmoTokens_pinned : Gen.SuperfluidOps.opsx_Keeper_forceUndelegateAndBurnOsmoTokens =
    ["sdk.ValAddressFromBech32(v3.ValAddr)", "GetAccAddress(v3)",
     "ValidateUnbondAmount(v0.sk,v1,v3.GetAccAddress(),v4,v2)", "==(v5,stakingtypes.ErrNoDelegation)", "if", "else",
     "if", "end", "func", "GetAccAddress(v3)", "InstantUndelegate(v0.sk,v7,v3.GetAccAddress(),v4,v6)",
     "GetAccAddress(v3)", "SendCoinsFromAccountToModule(v0.bk,v7,v3.GetAccAddress(),types.ModuleName,v8)",
     "BurnCoins(v0.bk,v7,types.ModuleName,v8)", "BondDenom(v0.sk,v7)", "AmountOf(v8,v9)",
     "AddSupplyOffset(v0.bk,v7,v9,_)", "end", "osmoutils.ApplyFuncIfNoError(v1,_)"] := by decide

end OsmoVerif.Props.TieGenSuperfluidOps
