/-
C19 — export/import of x/poolmanager (`Model/PoolManagerGenesis.lean`: the module's KV store around the taker-fee configuration
of `Model/Router.lean`; `InitGenesis`/`ExportGenesis` of x/poolmanager/keeper.go:121-202 statement by statement).

Result.  On every reachable store the chain's own export is accepted and restores — by lookup — next pool id, params, pool routes,
the three taker-fee trackers with their accounting height and the pool volumes.  Three things are NOT restored:
 1. a denom-pair taker-fee override whose value EQUALS the default taker fee at import time (`InitGenesis` re-enters the overrides
    through the message-path setter `SetDenomPairTakerFee`, which deletes such an entry): unobservable until the default taker fee is
    changed, then the exporting chain still charges the override and the imported chain the new default (witness);
 2. the taker-fee share agreements, the registered alloyed pools and the taker-fee-skim accumulators: the genesis has no field for them;
 3. (raw store only) every pool gets a volume entry, empty for pools that never traded — the queries agree.
Apart from 1–2 the imported chain is a bisimulation of the exporting one for every store operation AND for every function of the router
model (swaps, split routes, estimates): `pm_router_agrees`.
-/
import OsmoVerif.Proofs.PoolManagerGenesis

namespace OsmoVerif.Props.C19PoolManager
open OsmoVerif.Router

/-- reachable stores: any history of pool creations, parameter changes, pair-fee messages, tracker / volume updates, share-agreement
registrations and skim accruals on a fresh chain -/
def Reachable (s : PMState) : Prop := ∃ ops, s = pmRun pmInit ops

theorem pm_reachable_wf {s : PMState} (h : Reachable s) : PMWF s := by
  obtain ⟨ops, rfl⟩ := h
  exact pmRun_wf pmInit_wf ops

/-- no stored override equals the current default taker fee (`SetDenomPairTakerFee` never writes one, but a later change of the default
can make one) -/
def NoStale (s : PMState) : Prop := ∀ k, kget k s.cfg.pairs ≠ some s.cfg.default

/-- **Export → import, exactly** (every reachable store): `InitGenesis` does not panic; next pool id, params, routes, trackers,
accounting height are restored (by lookup), every pool's volume query answers the same, every pair's taker fee
(`GetTradingPairTakerFee`) is the same; the override store holds the exported overrides MINUS those equal to the default;
share agreements, alloyed registrations and skim accumulators are empty. -/
theorem pm_export_import_eq {s : PMState} (h : Reachable s) :
    pmExportImport s = some (pmImported s) ∧ PMSimG FeeEq s (pmImported s) ∧
    (∀ k, kget k (pmImported s).cfg.pairs = importedPair s k) ∧
    (pmImported s).agreements = [] ∧ (pmImported s).alloyed = [] ∧ (pmImported s).accrued = [] := by
  obtain ⟨h1, h2, h3, _, h5, h6, h7, _⟩ := pmExportImport_eq (pm_reachable_wf h)
  exact ⟨h1, h2, h3, h5, h6, h7⟩

/-- the override store itself is restored (by lookup) IFF no override equals the default taker fee at export time -/
theorem pm_export_import_overrides_iff {s : PMState} (h : Reachable s) :
    PMSimG PairsEq s (pmImported s) ↔ NoStale s := by
  obtain ⟨_, h2, h3, _⟩ := pmExportImport_eq (pm_reachable_wf h)
  constructor
  · intro hs k hk
    have := hs.cfg.pairs k
    rw [h3 k, hk] at this
    simp [importedPair, hk] at this
  · intro hn
    refine ⟨h2.next, ⟨h2.cfg.dflt, h2.cfg.wl, fun k => ?_⟩, h2.adm, h2.cfee, h2.routes, h2.stakers, h2.community, h2.burn, h2.height, h2.vol⟩
    rw [h3 k]
    unfold importedPair
    cases hk : kget k s.cfg.pairs with
    | none => rfl
    | some f =>
      simp only
      rw [if_neg (fun e => hn k (by rw [hk, e]))]

/-- (raw store) the imported volume store has an entry for exactly the pools with a route — also an EMPTY one for a pool that never
traded, which the exporting store does not have -/
theorem pm_import_volume_entries {s : PMState} (h : Reachable s) (id : PoolId) :
    kget id (pmImported s).volumes = if (kget id s.routes).isSome then some (getVolume s id) else none :=
  (pmExportImport_eq (pm_reachable_wf h)).2.2.2.1 id

/-- **the router cannot tell `FeeEq` configurations apart**: every entry point of the router model — single and multi-hop swaps in both
directions, split routes, the three estimate queries — is the same function, for ANY pool modules and chain state. -/
theorem pm_router_agrees {σ : Type} (P : Pools σ) {c1 c2 : FeeCfg} (h : FeeEq c1 c2) :
    swapExactAmountIn P c1 = swapExactAmountIn P c2 ∧ routeExactAmountIn P c1 = routeExactAmountIn P c2 ∧
    splitRouteExactAmountIn P c1 = splitRouteExactAmountIn P c2 ∧ routeExactAmountOut P c1 = routeExactAmountOut P c2 ∧
    splitRouteExactAmountOut P c1 = splitRouteExactAmountOut P c2 ∧
    multihopEstimateOutGivenExactAmountIn P c1 = multihopEstimateOutGivenExactAmountIn P c2 ∧
    multihopEstimateInGivenExactAmountOut P c1 = multihopEstimateInGivenExactAmountOut P c2 ∧
    (∀ a b, getTradingPairTakerFee c1 a b = getTradingPairTakerFee c2 a b) := by
  refine ⟨?_, ?_, ?_, ?_, ?_, ?_, ?_, h.fee⟩
  · funext a b c d e f g; exact swapExactAmountIn_congr P h a b c d e f g
  · funext a b c d e f; exact routeExactAmountIn_congr P h a b c d e f
  · funext a b c d e; exact splitRouteExactAmountIn_congr P h a b c d e
  · funext a b c d e f; exact routeExactAmountOut_congr P h a b c d e f
  · funext a b c d e; exact splitRouteExactAmountOut_congr P h a b c d e
  · funext a b c d e; exact multihopEstimateOutGivenExactAmountIn_congr P h a b c d e
  · funext a b c d; exact multihopEstimateInGivenExactAmountOut_congr P h a b c d

/-- what the relation lets every query see -/
theorem pm_sim_queries {R : FeeCfg → FeeCfg → Prop} {s t : PMState} (h : PMSimG R s t) :
    s.nextPoolId = t.nextPoolId ∧ s.feeAdmins = t.feeAdmins ∧ s.creationFee = t.creationFee ∧ s.trackerHeight = t.trackerHeight ∧
    (∀ id, kget id s.routes = kget id t.routes) ∧ (∀ k d, coinOf (trackerOf s k) d = coinOf (trackerOf t k) d) ∧
    (∀ id, getVolume s id = getVolume t id) := by
  refine ⟨h.next, h.adm, h.cfee, h.height, h.routes, fun k d => ?_, h.vol⟩
  cases k <;> simp only [trackerOf, coinOf]
  · rw [h.stakers]
  · rw [h.community]
  · rw [h.burn]

/-- **`PMSimG PairsEq` is a bisimulation for ALL store operations** (equal outcomes) -/
theorem pm_sim_step {s t : PMState} (h : PMSimG PairsEq s t) (o : PMOp) :
    PMSimG PairsEq (pmStep s o).1 (pmStep t o).1 ∧ (pmStep s o).2 = (pmStep t o).2 :=
  pmStep_sim (fun _ _ d0 d1 f hc => hc.setPair d0 d1 f) h o
    (fun _ _ _ _ _ _ => ⟨rfl, rfl, h.cfg.pairs⟩)

/-- the operation does not move the default taker fee away from `D` -/
def KeepsDefault (D : Int) : PMOp → Prop
  | .setParams d _ _ _ => d = D
  | _ => True

/-- **`PMSimG FeeEq` is a bisimulation for every operation except a change of the default taker fee** -/
theorem pm_simw_step {s t : PMState} (h : PMSimG FeeEq s t) (o : PMOp) (hk : KeepsDefault s.cfg.default o) :
    PMSimG FeeEq (pmStep s o).1 (pmStep t o).1 ∧ (pmStep s o).2 = (pmStep t o).2 := by
  refine pmStep_sim (fun _ _ d0 d1 f hc => hc.setPair d0 d1 f) h o (fun d wl adm fee ho _ => ?_)
  subst ho
  have hd : d = s.cfg.default := hk
  refine ⟨rfl, rfl, fun a b => ?_⟩
  have := h.cfg.fee a b
  rw [getFee_kget, getFee_kget] at this ⊢
  simp only
  rw [hd]
  rw [← h.cfg.dflt] at this
  exact this

theorem pm_run_sim {s t : PMState} (h : PMSimG PairsEq s t) : ∀ ops,
    pmOutcomes s ops = pmOutcomes t ops ∧ PMSimG PairsEq (pmRun s ops) (pmRun t ops)
  | [] => ⟨rfl, h⟩
  | o :: os => by
    obtain ⟨h1, h2⟩ := pm_sim_step h o
    obtain ⟨h3, h4⟩ := pm_run_sim h1 os
    exact ⟨by simp only [pmOutcomes, h2, h3], h4⟩

theorem pmStep_default (s : PMState) (o : PMOp) (D : Int) (hs : s.cfg.default = D) (hk : KeepsDefault D o) :
    (pmStep s o).1.cfg.default = D := by
  cases o with
  | setParams d wl adm fee =>
    have hd : d = D := hk
    by_cases hv : validDefaultTakerFee d = true
    · simp only [pmStep, hv, if_true]; exact hd
    · simp only [pmStep, hv, Bool.false_eq_true, if_false]; exact hs
  | setPairFee sender d0 d1 f =>
    by_cases hm : sender ∈ s.feeAdmins
    · simp only [pmStep, hm, if_true]; rw [(setDenomPairTakerFee_default s.cfg d0 d1 f).1]; exact hs
    · simp only [pmStep, hm, if_false]; exact hs
  | track k d x => cases k <;> exact hs
  | volume id d x =>
    by_cases hr : (kget id s.routes).isSome = true
    · simp only [pmStep, hr, if_true]; exact hs
    · simp only [pmStep, hr, Bool.false_eq_true, if_false]; exact hs
  | createPool | setTrackerHeight | setAgreement | registerAlloyed | accrue => exact hs

theorem pm_run_simw {s t : PMState} (h : PMSimG FeeEq s t) : ∀ ops, (∀ o ∈ ops, KeepsDefault s.cfg.default o) →
    pmOutcomes s ops = pmOutcomes t ops ∧ PMSimG FeeEq (pmRun s ops) (pmRun t ops)
  | [], _ => ⟨rfl, h⟩
  | o :: os, hk => by
    obtain ⟨h1, h2⟩ := pm_simw_step h o (hk o List.mem_cons_self)
    have hd := pmStep_default s o s.cfg.default rfl (hk o List.mem_cons_self)
    obtain ⟨h3, h4⟩ := pm_run_simw h1 os (fun o' ho' => by rw [hd]; exact hk o' (List.mem_cons_of_mem _ ho'))
    exact ⟨by simp only [pmOutcomes, h2, h3], h4⟩

/-- **Every later history, when no override equals the default at export time**: all operations have the same outcome on the exporting
and on the imported chain and the stores stay equal by lookup (override store included) — hence, by `pm_router_agrees` and
`pm_sim_queries`, every swap, estimate and query answers the same at every point; only the share agreements / alloyed pools / skim
accumulators are missing. -/
theorem pm_run_after_import {s : PMState} (h : Reachable s) (hn : NoStale s) (ops : List PMOp) :
    pmOutcomes s ops = pmOutcomes (pmImported s) ops ∧ PMSimG PairsEq (pmRun s ops) (pmRun (pmImported s) ops) :=
  pm_run_sim ((pm_export_import_overrides_iff h).mpr hn) ops

/-- **Every later history, in general**: the same holds with `FeeEq` (same taker fee for every pair, same whitelist and default) for all
histories that do not change the default taker fee — a change is where a dropped override shows
(`pm_import_drops_override_equal_to_default_witness`). -/
theorem pm_run_after_import_weak {s : PMState} (h : Reachable s) (ops : List PMOp)
    (hk : ∀ o ∈ ops, KeepsDefault s.cfg.default o) :
    pmOutcomes s ops = pmOutcomes (pmImported s) ops ∧ PMSimG FeeEq (pmRun s ops) (pmRun (pmImported s) ops) :=
  pm_run_simw (pm_export_import_eq h).2.1 ops hk

/-! ## a concrete chain -/

/-- three pools (2 never trades), a fee admin, an override 0.2 % for (uatom → uosmo), volume and trackers, a share agreement with an
accrued skim; THEN the default taker fee is raised to 0.2 %, which makes the override equal to it -/
def pmHist : List PMOp :=
  [ .setParams 1000000000000000 ["whale"] ["feeadmin"] [("uosmo", 100)],
    .createPool 0, .createPool 2, .createPool 1,
    .setPairFee "feeadmin" "uatom" "uosmo" 2000000000000000,
    .setPairFee "feeadmin" "uosmo" "uatom" 5000000000000000,
    .setPairFee "stranger" "uosmo" "uatom" 0,
    .volume 1 "uosmo" 700, .volume 3 "uosmo" 5, .volume 9 "uosmo" 5,
    .track .stakers "uosmo" 11, .track .community "uatom" 3, .track .burn "uosmo" 2, .track .stakers "uosmo" 4,
    .setTrackerHeight 17,
    .setAgreement "ubtc" 100000000000000000, .registerAlloyed 3, .accrue "ubtc" "uosmo" 9,
    .setParams 2000000000000000 ["whale"] ["feeadmin"] [("uosmo", 100)] ]

def pmMid : PMState := pmRun pmInit pmHist

example : Reachable pmMid := ⟨pmHist, rfl⟩
example : pmOutcomes pmInit pmHist =
    [.ok, .id 1, .id 2, .id 3, .ok, .ok, .err, .ok, .ok, .err, .ok, .ok, .ok, .ok, .ok, .ok, .ok, .ok, .ok] := by decide

/-- the export is accepted; ids, routes, trackers, height, volumes and every pair's taker fee are restored -/
example : (pmExportImport pmMid).map (fun t => (t.nextPoolId, kget 2 t.routes, t.trackerHeight)) = some (4, some 2, 17) ∧
    (pmExportImport pmMid).map (fun t => (coinOf t.stakers "uosmo", coinOf t.community "uatom", coinOf t.burn "uosmo")) = some (15, 3, 2) ∧
    (pmExportImport pmMid).map (fun t => (getVolume t 1, getVolume t 2)) = some ([("uosmo", 700)], []) ∧
    (pmExportImport pmMid).map (fun t => (getTradingPairTakerFee t.cfg "uatom" "uosmo", getTradingPairTakerFee t.cfg "uosmo" "uatom",
      getTradingPairTakerFee t.cfg "a" "b")) = some (2000000000000000, 5000000000000000, 2000000000000000) ∧
    (pmMid.nextPoolId, kget 2 pmMid.routes, coinOf pmMid.stakers "uosmo") = (4, some 2, 15) ∧
    (getVolume pmMid 1, getVolume pmMid 2) = ([("uosmo", 700)], []) ∧
    (getTradingPairTakerFee pmMid.cfg "uatom" "uosmo", getTradingPairTakerFee pmMid.cfg "uosmo" "uatom") =
      (2000000000000000, 5000000000000000) := by
  decide

/-- **FINDING: an override equal to the default taker fee is dropped by the import** — invisible at first (same fee), but after the next
change of the default (to 0.1 %) the exporting chain still charges 0.2 % on uatom → uosmo and the imported chain 0.1 %. -/
theorem pm_import_drops_override_equal_to_default_witness :
    kget ("uatom", "uosmo") pmMid.cfg.pairs = some 2000000000000000 ∧
    (pmExportImport pmMid).map (fun t => kget ("uatom", "uosmo") t.cfg.pairs) = some none ∧
    getTradingPairTakerFee (pmRun pmMid [.setParams 1000000000000000 [] [] []]).cfg "uatom" "uosmo" = 2000000000000000 ∧
    (pmExportImport pmMid).map (fun t => getTradingPairTakerFee (pmRun t [.setParams 1000000000000000 [] [] []]).cfg "uatom" "uosmo") =
      some 1000000000000000 := by
  decide

/-- **FINDING: taker-fee share agreements, registered alloyed pools and skim accumulators are not in the genesis** -/
theorem pm_import_drops_share_agreements_witness :
    (pmMid.agreements, pmMid.alloyed, pmMid.accrued) = ([("ubtc", 100000000000000000)], [3], [(("ubtc", "uosmo"), 9)]) ∧
    (pmExportImport pmMid).map (fun t => (t.agreements, t.alloyed, t.accrued)) = some ([], [], []) := by
  decide

/-- (raw store) pool 2 never traded: no volume entry before, an empty one after; `GetTotalVolumeForPool` answers [] on both -/
theorem pm_import_materialises_empty_volume_witness :
    kget 2 pmMid.volumes = none ∧ (pmExportImport pmMid).map (fun t => kget 2 t.volumes) = some (some []) := by
  decide

/-- `InitGenesis` validates: next pool id 0 or a default taker fee outside [0, 1] panics -/
theorem pm_import_rejects_invalid_genesis_witness :
    pmInitGenesis { pmExportGenesis pmMid with nextPoolId := 0 } = none ∧
    pmInitGenesis { pmExportGenesis pmMid with default := 1000000000000000001 } = none ∧
    (pmInitGenesis (pmExportGenesis pmMid)).isSome = true := by
  decide

/-- on a chain WITHOUT such an override the import restores the override store too (instance of `pm_export_import_overrides_iff`) -/
example : NoStale (pmRun pmInit (pmHist.take 18)) ∧ ¬ NoStale pmMid := by
  constructor
  · intro k hk
    have : (pmRun pmInit (pmHist.take 18)).cfg.pairs = [(("uosmo", "uatom"), 5000000000000000), (("uatom", "uosmo"), 2000000000000000)] := by
      decide
    rw [this] at hk
    have hd : (pmRun pmInit (pmHist.take 18)).cfg.default = 1000000000000000 := by decide
    rw [hd] at hk
    simp only [kget] at hk
    split at hk
    · cases hk
    · split at hk
      · cases hk
      · cases hk
  · intro h
    exact h ("uatom", "uosmo") (by decide)

end OsmoVerif.Props.C19PoolManager
