/-
C12 (encodings clause) — the text form `BigDec.String()` / `NewBigDecFromStr` round-trips.

All theorems are about the model's own `String` functions `BigDec.toStr` / `BigDec.fromStr`
(`Model/Num.lean`, the functions the `num` engine replays against osmomath/decimal.go), for ALL values /
ALL strings of the stated shape.  `Proofs/NumStrBridge.lean` reduces them to a `List Char` reference codec
(`Proofs/NumStrList.lean`).  Only property theorems and non-vacuity examples live here.
-/
import OsmoVerif.Proofs.NumLemmas
import OsmoVerif.Proofs.NumStrBridge

namespace OsmoVerif.Props.C12Str
open OsmoVerif.Num OsmoVerif.NumStr OsmoVerif.Gen

theorem prec_pos : 0 < Osmomath.BigDecPrecision := by decide

/-! ## round trip -/

/-- the exact truth for EVERY raw value: decoding the printed form returns the value iff it fits
`maxBitLen` (1024) bits, and fails otherwise. -/
theorem fromStr_toStr_eq (a : Int) :
    BigDec.fromStr (BigDec.toStr a) = if fitsBits Osmomath.maxBitLen a then some a else none := by
  rw [fromStr_eq_parseU, toStr_eq_ofList, String.toList_ofList, parseU_toChars prec_pos]
  rfl

/-- string round-trip for all values within the decoder's bit bound. -/
theorem fromStr_toStr (a : Int) (h : fitsBits Osmomath.maxBitLen a) :
    BigDec.fromStr (BigDec.toStr a) = some a := by
  rw [fromStr_toStr_eq, if_pos h]

/-- F2, for all values: every value wider than `maxBitLen` bits (in particular the whole band
1024 < BitLen ≤ 1144 that arithmetic accepts) is rejected when its own printed form is decoded. -/
theorem fromStr_toStr_rejects_wide (a : Int) (h : ¬ fitsBits Osmomath.maxBitLen a) :
    BigDec.fromStr (BigDec.toStr a) = none := by
  rw [fromStr_toStr_eq, if_neg h]

/-- same statements with the bound spelled out as `|a| < 2^maxBitLen`. -/
theorem fromStr_toStr_iff (a : Int) :
    BigDec.fromStr (BigDec.toStr a) = some a ↔ a.natAbs < 2 ^ Osmomath.maxBitLen := by
  rw [fromStr_toStr_eq]
  constructor
  · intro h
    by_cases hf : fitsBits Osmomath.maxBitLen a = true
    · exact fitsBits_lt hf
    · rw [if_neg hf] at h; cases h
  · intro h; rw [if_pos (lt_fitsBits h)]

/-- text and binary decoders agree on every value. -/
theorem fromStr_toStr_eq_marshalRoundtrip (a : Int) :
    BigDec.fromStr (BigDec.toStr a) = BigDec.marshalRoundtrip a := by
  rw [fromStr_toStr_eq]; rfl

/-- F2 witness kept: `2^1100` is accepted by every arithmetic operation, its printed form is rejected. -/
theorem string_gap_witness :
    chk (2 ^ 1100) = some (2 ^ 1100) ∧ BigDec.fromStr (BigDec.toStr (2 ^ 1100)) = none := by
  refine ⟨by decide +kernel, ?_⟩
  rw [fromStr_toStr_eq]; decide +kernel

end OsmoVerif.Props.C12Str
