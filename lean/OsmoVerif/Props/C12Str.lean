/-
C12 (encodings clause) — the text form `BigDec.String()` / `NewBigDecFromStr` round-trips.

All theorems are about the model's own `String` functions `BigDec.toStr` / `BigDec.fromStr`
(`Model/Num.lean`, the functions the `num` engine replays against osmomath/decimal.go), for ALL values /
ALL strings of the stated shape.  `Proofs/NumStrBridge.lean` reduces them to a `List Char` reference codec
(`Proofs/NumStrList.lean`).  Only property theorems and non-vacuity examples live here.
-/
import OsmoVerif.Proofs.NumLemmas
import OsmoVerif.Proofs.NumStrBridge
import OsmoVerif.Proofs.NumStrLang

namespace OsmoVerif.Props.C12Str
open OsmoVerif.Num OsmoVerif.NumStr OsmoVerif.Gen

/-! ## round trip -/

/-- the exact truth for EVERY raw value: decoding the printed form returns the value iff it fits
`maxBitLen` (1024) bits, and fails otherwise. -/
theorem fromStr_toStr_eq (a : Int) :
    BigDec.fromStr (BigDec.toStr a) = if fitsBits Osmomath.maxBitLen a then some a else none := by
  rw [fromStr_eq_parseU, toStr_eq_ofList, String.toList_ofList, parseU_toChars prec_pos]
  rfl

/-- string round-trip for all values within the decoder's bit bound. -/
theorem fromStr_toStr (a : Int) (h : fitsBits Osmomath.maxBitLen a) :
    BigDec.fromStr (BigDec.toStr a) = some a := by
  rw [fromStr_toStr_eq, if_pos h]

/-- F2, for all values: every value wider than `maxBitLen` bits (in particular the whole band
1024 < BitLen ≤ 1144 that arithmetic accepts) is rejected when its own printed form is decoded. -/
theorem fromStr_toStr_rejects_wide (a : Int) (h : ¬ fitsBits Osmomath.maxBitLen a) :
    BigDec.fromStr (BigDec.toStr a) = none := by
  rw [fromStr_toStr_eq, if_neg h]

/-- same statements with the bound spelled out as `|a| < 2^maxBitLen`. -/
theorem fromStr_toStr_iff (a : Int) :
    BigDec.fromStr (BigDec.toStr a) = some a ↔ a.natAbs < 2 ^ Osmomath.maxBitLen := by
  rw [fromStr_toStr_eq]
  constructor
  · intro h
    by_cases hf : fitsBits Osmomath.maxBitLen a = true
    · exact fitsBits_lt hf
    · rw [if_neg hf] at h; cases h
  · intro h; rw [if_pos (lt_fitsBits h)]

/-- text and binary decoders agree on every value. -/
theorem fromStr_toStr_eq_marshalRoundtrip (a : Int) :
    BigDec.fromStr (BigDec.toStr a) = BigDec.marshalRoundtrip a := by
  rw [fromStr_toStr_eq]; rfl

/-- F2 witness kept: `2^1100` is accepted by every arithmetic operation, its printed form is rejected. -/
theorem string_gap_witness :
    chk (2 ^ 1100) = some (2 ^ 1100) ∧ BigDec.fromStr (BigDec.toStr (2 ^ 1100)) = none := by
  refine ⟨by decide +kernel, ?_⟩
  rw [fromStr_toStr_eq]; decide +kernel

/-- the digit reader inverts the digit printer (`big.Int.SetString ∘ big.Int.String` on naturals). -/
theorem digitsToNat?_natDigits (n : Nat) : digitsToNat? (natDigits n) = some n := by
  rw [digitsToNat?_eq, natDigits_eq, String.toList_ofList,
    digitsVal?_of_all Nat.toDigits_ne_nil (toDigits_all n), Nat.ofDigitChars_ten_toDigits]

/-! ## shape of the printed form -/

/-- `String()` prints: '-' iff negative; the integer part in decimal, at least one digit and no superfluous
leading zero (it is "0" — exactly when |a| < 1 — or does not start with '0'); '.'; exactly
`BigDecPrecision` (36) fractional digits; the digit strings denote `|a| / 10^36` and `|a| % 10^36`. -/
theorem toStr_shape (a : Int) :
    ∃ ip fp : List Char,
      BigDec.toStr a = (if a < 0 then "-" else "") ++ String.ofList ip ++ "." ++ String.ofList fp ∧
      ip ≠ [] ∧ (∀ c ∈ ip, c.isDigit = true) ∧ (ip = ['0'] ∨ ip.head? ≠ some '0') ∧
      (ip = ['0'] ↔ a.natAbs < 10 ^ Osmomath.BigDecPrecision) ∧
      fp.length = Osmomath.BigDecPrecision ∧ (∀ c ∈ fp, c.isDigit = true) ∧
      Nat.ofDigitChars 10 ip 0 = a.natAbs / 10 ^ Osmomath.BigDecPrecision ∧
      Nat.ofDigitChars 10 fp 0 = a.natAbs % 10 ^ Osmomath.BigDecPrecision := by
  obtain ⟨ip, fp, h, h1, h2, h3, h3', h4, h5, h6, h7⟩ := toChars_shape prec_pos a
  refine ⟨ip, fp, ?_, h1, List.all_eq_true.1 h2, h3, h3', h4, List.all_eq_true.1 h5, h6, h7⟩
  rw [toStr_eq_ofList, h, ← String.toList_inj]
  by_cases ha : a < 0
  · simp only [if_pos ha, String.toList_ofList, String.toList_append, dot_toList, dash_toList]
    simp
  · simp only [if_neg ha, String.toList_ofList, String.toList_append, dot_toList]
    simp

/-- total length: sign + integer digits + '.' + 36. -/
theorem toStr_length (a : Int) :
    (BigDec.toStr a).length = (if a < 0 then 1 else 0) +
      (natDigits (a.natAbs / 10 ^ Osmomath.BigDecPrecision)).length + 1 + Osmomath.BigDecPrecision := by
  have hm : a.natAbs % 10 ^ Osmomath.BigDecPrecision < 10 ^ Osmomath.BigDecPrecision :=
    Nat.mod_lt _ (Nat.pow_pos (by decide))
  rw [toStr_eq_ofList, String.length_ofList, natDigits_eq, String.length_ofList]
  unfold toChars absChars
  rw [List.length_append, List.length_append, List.length_cons, fracChars_length prec_pos hm]
  split <;> simp <;> omega

/-- `String()` is injective on ALL raw values (no bit bound). -/
theorem toStr_injective {a b : Int} (h : BigDec.toStr a = BigDec.toStr b) : a = b := by
  rw [toStr_eq_ofList, toStr_eq_ofList] at h
  exact toChars_injective prec_pos (String.ofList_injective h)

/-! ## negative values -/
theorem toStr_neg {a : Int} (ha : a < 0) : BigDec.toStr a = "-" ++ BigDec.toStr (-a) := by
  rw [toStr_eq_ofList, toStr_eq_ofList, toChars_neg _ ha, ← String.toList_inj]
  simp only [String.toList_ofList, String.toList_append, dash_toList]; rfl

/-- a '-' occurs in the printed form iff the value is negative (so "-0.000…0" is never printed). -/
theorem toStr_has_sign_iff (a : Int) : '-' ∈ (BigDec.toStr a).toList ↔ a < 0 := by
  constructor
  · intro h
    by_cases ha : a < 0
    · exact ha
    · exfalso
      rw [toStr_eq_ofList, String.toList_ofList, toChars_nonneg _ (by omega)] at h
      unfold absChars at h
      rcases List.mem_append.1 h with h | h
      · exact not_mem_of_all_digits (toDigits_all _) (by decide) h
      · rcases List.mem_cons.1 h with h | h
        · revert h; decide
        · exact not_mem_of_all_digits (fracChars_all _ _) (by decide) h
  · intro ha
    rw [toStr_neg ha, String.toList_append, dash_toList]; simp

/-- the smallest negative value prints with its sign and a zero integer part. -/
theorem toStr_neg_ulp : BigDec.toStr (-1) = "-0.000000000000000000000000000000000001" := by decide +kernel

/-! ## the decoder rejects the malformed neighbours (each for ALL strings of the shape) -/
theorem fromStr_empty : BigDec.fromStr "" = none := fromStr_of_parseU_none rfl
theorem fromStr_sign_only : BigDec.fromStr "-" = none := fromStr_of_parseU_none rfl

/-- nothing after the point: ".", "-.", "1.", "-12." … -/
theorem fromStr_trailing_dot (s : String) : BigDec.fromStr (s ++ ".") = none := by
  apply fromStr_of_parseU_none
  rw [String.toList_append, dot_toList]; exact parseU_trailing_dot _ _

/-- nothing before the point: ".", ".5", "-.5" … -/
theorem fromStr_leading_dot (s : String) :
    BigDec.fromStr ("." ++ s) = none ∧ BigDec.fromStr ("-." ++ s) = none := by
  constructor
  · apply fromStr_of_parseU_none
    rw [String.toList_append, dot_toList]; exact (parseU_leading_dot _ _).1
  · apply fromStr_of_parseU_none
    rw [String.toList_append, show ("-." : String).toList = ['-', '.'] from rfl]
    exact (parseU_leading_dot _ _).2

/-- two (or more) points anywhere. -/
theorem fromStr_two_dots (a b c : String) : BigDec.fromStr (a ++ "." ++ b ++ "." ++ c) = none := by
  apply fromStr_of_parseU_none
  simp only [String.toList_append, dot_toList, List.append_assoc, List.singleton_append]
  exact parseU_two_dots _ _ _ _

theorem fromStr_two_dots_count (s : String) (h : 2 ≤ s.toList.count '.') : BigDec.fromStr s = none :=
  fromStr_of_parseU_none (parseU_two_dots_count h)

/-- any character that is neither a digit nor '.', anywhere except a leading '-'. -/
theorem fromStr_non_digit (pre post : String) (c : Char) (hc : c.isDigit = false) (hd : c ≠ '.')
    (hs : pre ≠ "" ∨ c ≠ '-') : BigDec.fromStr (pre ++ String.singleton c ++ post) = none := by
  apply fromStr_of_parseU_none
  simp only [String.toList_append, String.toList_singleton, List.append_assoc, List.singleton_append]
  apply parseU_non_digit _ _ _ _ hc hd
  rcases hs with hs | hs
  · left; intro h; apply hs; rw [← String.toList_inj, h]; rfl
  · exact Or.inr hs

/-- a second sign is a non-digit: "--1", "-1-2" … -/
theorem fromStr_double_sign (s : String) : BigDec.fromStr ("--" ++ s) = none := by
  have := fromStr_non_digit "-" s '-' (by decide) (by decide) (Or.inl (by decide))
  exact this

/-- more than `BigDecPrecision` (36) fractional digits. -/
theorem fromStr_long_fraction (ip fp : String) (h : Osmomath.BigDecPrecision < fp.length) :
    BigDec.fromStr (ip ++ "." ++ fp) = none := by
  apply fromStr_of_parseU_none
  simp only [String.toList_append, dot_toList, List.append_assoc, List.singleton_append]
  exact parseU_long_frac _ _ h

/-! ## accepted language and value of the decoder -/
/-- `NewBigDecFromStr` (as modelled) accepts exactly: optional '-', one or more digits, optionally '.' and
1..36 digits, with the denoted raw value below `2^maxBitLen` in magnitude — and returns that value. -/
theorem fromStr_eq_some_iff (s : String) (v : Int) :
    BigDec.fromStr s = some v ↔
      ∃ (neg : Bool) (ip fp : List Char),
        s = (if neg then "-" else "") ++ String.ofList ip ++ (if fp = [] then "" else "." ++ String.ofList fp) ∧
        ip ≠ [] ∧ (∀ c ∈ ip, c.isDigit = true) ∧ (∀ c ∈ fp, c.isDigit = true) ∧
        fp.length ≤ Osmomath.BigDecPrecision ∧
        v = (if neg then -1 else 1) *
          ((Nat.ofDigitChars 10 (ip ++ fp) 0 * 10 ^ (Osmomath.BigDecPrecision - fp.length) : Nat) : Int) ∧
        v.natAbs < 2 ^ Osmomath.maxBitLen := by
  have key : ∀ (neg : Bool) (ip fp : List Char),
      (s = (if neg then "-" else "") ++ String.ofList ip ++ (if fp = [] then "" else "." ++ String.ofList fp)) ↔
      s.toList = (if neg then ['-'] else []) ++ ip ++ (if fp = [] then [] else '.' :: fp) := by
    intro neg ip fp
    rw [← String.toList_inj]
    cases neg <;> by_cases hf : fp = [] <;>
      simp [hf, String.toList_append, dot_toList, dash_toList]
  have hsg : ∀ (neg : Bool) (m : Nat), signed neg m = (if neg then -1 else 1) * (m : Int) := by
    intro neg m; cases neg <;> simp [signed]
  rw [fromStr_eq_parseU]
  constructor
  · intro h
    cases hp : parseU Osmomath.BigDecPrecision s.toList with
    | none => rw [hp] at h; cases h
    | some w =>
      rw [hp] at h
      simp only [Option.bind_some, chkBigInt] at h
      split at h
      · cases h
        obtain ⟨neg, ip, fp, he, h1, h2, h3, h4, h5⟩ := parseU_eq_some_iff.1 hp
        exact ⟨neg, ip, fp, (key neg ip fp).2 he, h1, List.all_eq_true.1 h2, List.all_eq_true.1 h3, h4,
          by rw [h5, hsg], fitsBits_lt (by assumption)⟩
      · cases h
  · rintro ⟨neg, ip, fp, he, h1, h2, h3, h4, h5, h6⟩
    have := parseU_eq_some_iff.2 ⟨neg, ip, fp, (key neg ip fp).1 he, h1, List.all_eq_true.2 h2,
      List.all_eq_true.2 h3, h4, rfl⟩
    rw [this, ← hsg] at *
    simp only [Option.bind_some, chkBigInt]
    rw [← h5, if_pos (lt_fitsBits h6)]

/-- everything the decoder accepts is within the decoder bound (so within the arithmetic bound too). -/
theorem fromStr_in_range {s : String} {v : Int} (h : BigDec.fromStr s = some v) :
    v.natAbs < 2 ^ Osmomath.maxBitLen := by
  obtain ⟨_, _, _, _, _, _, _, _, _, h7⟩ := (fromStr_eq_some_iff s v).1 h
  exact h7

/-- whatever the decoder accepts survives re-encoding: decode ∘ encode ∘ decode = decode. -/
theorem fromStr_toStr_of_decoded {s : String} {v : Int} (h : BigDec.fromStr s = some v) :
    BigDec.fromStr (BigDec.toStr v) = some v :=
  (fromStr_toStr_iff v).2 (fromStr_in_range h)

/-! ## 18-decimal type: `LegacyDec.String` / `NewDecFromStr` are NOT modelled (`Model/Num.lean` has no
`Dec.toStr` / `Dec.fromStr`, and the `num` engine has no such op), so there is nothing to state here.  The
`List Char` reference codec `toChars p` / `parseU p` and every lemma of `Proofs/NumStrList.lean`,
`NumStrLang.lean` hold for any precision `p > 0` (`NumStr.parseU_toChars`), ready for an 18-decimal model. -/

/-! ## non-vacuity: concrete values (0, ±1 ulp, 10^36, a 1024-bit and a 1025-bit value, malformed texts) -/
example : BigDec.toStr 0 = "0.000000000000000000000000000000000000" := by decide +kernel
example : BigDec.toStr 1 = "0.000000000000000000000000000000000001" := by decide +kernel
example : BigDec.toStr (10 ^ 36) = "1.000000000000000000000000000000000000" := by decide +kernel
example : BigDec.toStr (-(10 ^ 36) - 5 * 10 ^ 35) = "-1.500000000000000000000000000000000000" := by decide +kernel
example : BigDec.fromStr (BigDec.toStr 0) = some 0 := fromStr_toStr 0 (by decide +kernel)
example : BigDec.fromStr (BigDec.toStr 1) = some 1 := fromStr_toStr 1 (by decide +kernel)
example : BigDec.fromStr (BigDec.toStr (-1)) = some (-1) := fromStr_toStr (-1) (by decide +kernel)
example : BigDec.fromStr (BigDec.toStr (10 ^ 36)) = some (10 ^ 36) := fromStr_toStr _ (by decide +kernel)
example : BigDec.fromStr (BigDec.toStr (2 ^ 1024 - 1)) = some (2 ^ 1024 - 1) := fromStr_toStr _ (by decide +kernel)
example : BigDec.fromStr (BigDec.toStr (-(2 ^ 1024 - 1))) = some (-(2 ^ 1024 - 1)) := fromStr_toStr _ (by decide +kernel)
example : BigDec.fromStr (BigDec.toStr (2 ^ 1024)) = none := fromStr_toStr_rejects_wide _ (by decide +kernel)
example : BigDec.fromStr (BigDec.toStr (-(2 ^ 1024))) = none := fromStr_toStr_rejects_wide _ (by decide +kernel)
example : chk (2 ^ 1024) = some (2 ^ 1024) := by decide +kernel
example : BigDec.fromStr "-0.000000000000000000000000000000000001" = some (-1) := by
  rw [fromStr_eq_parseU]; decide +kernel
example : BigDec.fromStr "12.5" = some (125 * 10 ^ 35) := by rw [fromStr_eq_parseU]; decide +kernel
example : BigDec.fromStr "7" = some (7 * 10 ^ 36) := by rw [fromStr_eq_parseU]; decide +kernel
example : BigDec.fromStr "1." = none := fromStr_trailing_dot "1"
example : BigDec.fromStr ".5" = none := (fromStr_leading_dot "5").1
example : BigDec.fromStr "1.2.3" = none := fromStr_two_dots "1" "2" "3"
example : BigDec.fromStr "1x.5" = none := fromStr_non_digit "1" ".5" 'x' (by decide) (by decide) (Or.inr (by decide))
example : BigDec.fromStr "0.0000000000000000000000000000000000001" = none :=
  fromStr_long_fraction "0" "0000000000000000000000000000000000001" (by decide)

end OsmoVerif.Props.C12Str
