/-
Tie T1 for the KEEPER-LEVEL functions of x/concentrated-liquidity (owning properties C01, C03, C07, C08), part B: the loop /
keeper functions of swaps.go, incentives.go, spread_rewards.go, tick.go, lp.go, position.go.  For each of them the translator
regenerates on every run the ordered statement list `opsx_<fn>` (tools/extract/gen_expr_k.go): every call in Go's evaluation
order with its operands (locals and parameters numbered `v<k>` by declaration order), comparisons, boolean connectives, native
arithmetic, writes to fields / plain copies, what a `range` iterates over, returned operands and the block structure
(`if` / `else` / `for` / `range(..)` … `end`).  Each list is pinned below and names the model definition that mirrors it: a changed
operator (`Ceil().TruncateInt()` of the totals, `QuoTruncateMut` of the record-runs-dry branch), comparison or guard (the tick-crossing
test `nextInitializedTickSqrtPrice.Equal(computedSqrtPrice)`, the emptiness test of a tick), operand (which scaling factor, which
coins), call order (bank sends / `ApplySwap` / `setPool`) or a statement moved into / out of a branch breaks the named theorem.
Written by tools/mkpins.py from tools/pins/TieGenCLOps.json.
-/
import OsmoVerif.Gen.CLKeeperOpsFn

-- `decide` on lists of up to a few hundred strings
set_option maxRecDepth 100000

namespace OsmoVerif.Props.TieGenCLOps
open OsmoVerif

/-- B — `newSwapState`: the initial `CL.SwapSt` of `CL.computeSwap` (`remaining := specified * P18`, zero accumulators, the pool's price / tick / liquidity) -/
theorem opsx_newSwapState_pinned : Gen.CLKeeperOps.opsx_newSwapState =
    ["ToLegacyDec(v0)", "osmomath.ZeroDec()", "GetCurrentSqrtPrice(v1)", "GetCurrentTick(v1)", "GetLiquidity(v1)",
     "osmomath.ZeroDec()", "osmomath.ZeroDec()",
     "return({amountSpecifiedRemaining:v0.ToLegacyDec(),amountCalculated:osmomath.ZeroDec(),sqrtPrice:v1.GetCurrentSqrtPrice(),tick:v1.GetCurrentTick(),liquidity:v1.GetLiquidity(),globalSpreadRewardGrowthPerUnitLiquidity:osmomath.ZeroDec(),globalSpreadRewardGrowth:osmomath.ZeroDec(),swapStrategy:v2})"] := by decide

/-- B — `Keeper.SwapExactAmountIn`: `CLPool.swap` (out-given-in) with the execution price limit `CL.execPriceLimit` -/
theorem opsx_Keeper_SwapExactAmountIn_pinned : Gen.CLKeeperOps.opsx_Keeper_SwapExactAmountIn =
    ["==(v4.Denom,v5)", "if", "end", "asConcentrated(v3)", "GetId(v10)",
     "BeforeSwapExactAmountIn(v0,v1,v10.GetId(),v2,v4,v5,v6,v7)", "GetToken0(v10)",
     "getZeroForOne(v4.Denom,v10.GetToken0())", "swapstrategy.GetPriceLimit(v11)",
     "swapOutAmtGivenIn(v0,v1,v2,v10,v4,v5,v7,v12)", "=(v8,v13.Amount)", "LT(v8,v6)", "if", "end",
     "sdk.NewCoins(v4)", "RecordTotalLiquidityIncrease(v0,v1,_)", "sdk.NewCoins(v13)",
     "RecordTotalLiquidityDecrease(v0,v1,_)", "GetId(v10)",
     "AfterSwapExactAmountIn(v0,v1,v10.GetId(),v2,v4,v5,v6,v7)", "return(v8,nil)"] := by decide

/-- B — `Keeper.SwapExactAmountOut`: `CLPool.swap` (in-given-out) with the execution price limit `CL.execPriceLimit` -/
theorem opsx_Keeper_SwapExactAmountOut_pinned : Gen.CLKeeperOps.opsx_Keeper_SwapExactAmountOut =
    ["==(v6.Denom,v4)", "if", "end", "asConcentrated(v3)", "GetId(v10)",
     "BeforeSwapExactAmountOut(v0,v1,v10.GetId(),v2,v4,v5,v6,v7)", "GetToken0(v10)",
     "getZeroForOne(v4,v10.GetToken0())", "swapstrategy.GetPriceLimit(v11)",
     "swapInAmtGivenOut(v0,v1,v2,v10,v6,v4,v7,v12)", "=(v8,v13.Amount)", "GT(v8,v5)", "if", "end",
     "sdk.NewCoins(v13)", "RecordTotalLiquidityIncrease(v0,v1,_)", "sdk.NewCoins(v6)",
     "RecordTotalLiquidityDecrease(v0,v1,_)", "GetId(v10)",
     "AfterSwapExactAmountOut(v0,v1,v10.GetId(),v2,v4,v5,v6,v7)", "return(v8,nil)"] := by decide

/-- B — `Keeper.swapOutAmtGivenIn`: `CL.execSwap` (out-given-in): non-positive amount out is an error, then `updatePoolForSwap` -/
theorem opsx_Keeper_swapOutAmtGivenIn_pinned : Gen.CLKeeperOps.opsx_Keeper_swapOutAmtGivenIn =
    ["GetId(v3)", "computeOutAmtGivenIn(v0,v1,v3.GetId(),v4,v5,v6,v7,true)", "sdk.NewCoin(v4.Denom,v12.AmountIn)",
     "=(v4,_)", "sdk.NewCoin(v5,v12.AmountOut)", "IsPositive(v13.Amount)", "!(v13.Amount.IsPositive())", "if", "end",
     "updatePoolForSwap(v0,v1,v3,{v2,v4,v13},v10,v12.SpreadRewards)", "return(v4,v13,v10,nil)"] := by decide

/-- B — `Keeper.swapInAmtGivenOut`: `CL.execSwap` (in-given-out): non-positive amount in is an error, then `updatePoolForSwap` -/
theorem opsx_Keeper_swapInAmtGivenOut_pinned : Gen.CLKeeperOps.opsx_Keeper_swapInAmtGivenOut =
    ["GetId(v3)", "computeInAmtGivenOut(v0,v1,v4,v5,v6,v7,v3.GetId(),true)", "sdk.NewCoin(v5,v12.AmountIn)",
     "sdk.NewCoin(v4.Denom,v12.AmountOut)", "IsPositive(v13.Amount)", "!(v13.Amount.IsPositive())", "if", "end",
     "updatePoolForSwap(v0,v1,v3,{v2,v13,v14},v10,v12.SpreadRewards)", "return(v13,v14,v10,nil)"] := by decide

/-- B — `Keeper.swapSetup`: the `positions.isEmpty` guard of `CLPool.swap` -/
theorem opsx_Keeper_swapSetup_pinned : Gen.CLKeeperOps.opsx_Keeper_swapSetup =
    ["getPoolForSwap(v0,v1,v2)", "=(v6;v8,_)", "if", "return(v6,v7,v8)", "end", "GetToken0(v6)", "GetToken1(v6)",
     "checkDenomValidity(v3,v4,v6.GetToken0(),v6.GetToken1())", "if", "return(v6,v7,v8)", "end", "if(v5)",
     "GetSpreadRewardAccumulator(v0,v1,v2)", "=(v7;v8,_)", "end", "return(v6,v7,v8)"] := by decide

/-- B — `iteratorToNextInitializedTickSqrtPriceTarget`: the head of `CL.ticksAhead`, `tickToSqrtPrice` and the target clamp at the start of `CL.loopBody` -/
theorem opsx_iteratorToNextInitializedTickSqrtPriceTarget_pinned : Gen.CLKeeperOps.opsx_iteratorToNextInitializedTickSqrtPriceTarget =
    ["Valid(v0)", "!(v0.Valid())", "if", "return(0,{},{},error)", "end", "Key(v0)",
     "types.TickIndexFromBytes(v0.Key())", "math.TickToSqrtPrice(v3)", "GetSqrtTargetPrice(v2,v5)",
     "return(v3,v5,v6,nil)"] := by decide

/-- B — `Keeper.computeOutAmtGivenIn`: `CL.computeSwapS` / `CL.swapLoopS` / `CL.loopBody` (out-given-in): loop guard, step, progress check, accumulator update, `remaining -= in + charge`, `calculated += out`, tick-crossing test, edge-case error, tick recomputation, no-progress counter, final `Ceil().TruncateInt()` of the amount in and `TruncateInt()` of the amount out -/
theorem opsx_Keeper_computeOutAmtGivenIn_pinned : Gen.CLKeeperOps.opsx_Keeper_computeOutAmtGivenIn =
    ["swapSetup(v0,v1,v2,v3.Denom,v4,v7)", "setupSwapStrategy(v0,v11,v5,v3.Denom,v6)", "if(v7)",
     "getSpreadFactorScalingFactorForPool(v0,v1,v2)", "=(v16;v10,_)", "end", "newSwapState(v3.Amount,v11,v14)",
     "InitializeNextTickIterator(v14,v1,v2,v17.tick)", "defer", "Close(v18)", "=(v19,0)", "for",
     "GT(v17.amountSpecifiedRemaining,smallestDec)", "Equal(v17.sqrtPrice,v15)", "!(_)", "&&(_,_)",
     "=(v20,v17.sqrtPrice)", "iteratorToNextInitializedTickSqrtPriceTarget(v18,v2,v14)",
     "ComputeSwapWithinBucketOutGivenIn(v14,v17.sqrtPrice,v23,v17.liquidity,v17.amountSpecifiedRemaining)",
     "validateSwapProgressAndAmountConsumption(v24,v20,v25,v26)", "if(v7)",
     "updateSpreadRewardGrowthGlobal(v17,v27,v16)", "end", "=(v17.sqrtPrice,v24)", "Add(v25,v27)",
     "SubMut(v17.amountSpecifiedRemaining,_)", "AddMut(v17.amountCalculated,v26)", "Equal(v22,v24)", "if",
     "swapCrossTickLogic(v0,v1,v17,v14,v21,v18,v11,v12,&v13,v3.Denom,v7)", "=(v17;v10,_)", "else", "ZeroForOne(v14)",
     "edgeCaseInequalityBasedOnSwapStrategy(v14.ZeroForOne(),v22,v24)", "if", "else", "Equal(v20,v24)", "!(_)", "if",
     "math.CalculateSqrtPriceToTick(v24)", "=(v17.tick,v29)", "end", "IsZero(v25)", "if",
     ">=(v19,swapNoProgressLimit)", "if", "end", "++(v19)", "end", "end", "IsNegative(v17.amountSpecifiedRemaining)",
     "if", "end", "if(v7)", "=(v30,{Denom:v3.Denom,Amount:v17.globalSpreadRewardGrowthPerUnitLiquidity})",
     "sdk.NewDecCoins(v30)", "AddToAccumulator(v12,_)", "end", "ToLegacyDec(v3.Amount)",
     "SubMut(v3.Amount.ToLegacyDec(),v17.amountSpecifiedRemaining)", "Ceil(_)", "TruncateInt(_.Ceil())",
     "=(v25,_.Ceil().TruncateInt())", "TruncateInt(v17.amountCalculated)",
     "=(v26,v17.amountCalculated.TruncateInt())",
     "return({AmountIn:v25,AmountOut:v26,SpreadRewards:v17.globalSpreadRewardGrowth},{v17.tick,v17.liquidity,v17.sqrtPrice},nil)"] := by decide

/-- B — `Keeper.computeInAmtGivenOut`: `CL.computeSwapS` / `CL.swapLoopS` / `CL.loopBody` (in-given-out): `remaining -= out`, `calculated += in + charge`, final `Ceil().TruncateInt()` of the amount in and `TruncateInt()` of the amount out -/
theorem opsx_Keeper_computeInAmtGivenOut_pinned : Gen.CLKeeperOps.opsx_Keeper_computeInAmtGivenOut =
    ["swapSetup(v0,v1,v6,v3,v2.Denom,v7)", "setupSwapStrategy(v0,v11,v4,v3,v5)", "if(v7)",
     "getSpreadFactorScalingFactorForPool(v0,v1,v6)", "=(v16;v10,_)", "end", "newSwapState(v2.Amount,v11,v14)",
     "InitializeNextTickIterator(v14,v1,v6,v17.tick)", "defer", "Close(v18)", "=(v19,0)", "for",
     "GT(v17.amountSpecifiedRemaining,smallestDec)", "Equal(v17.sqrtPrice,v15)", "!(_)", "&&(_,_)",
     "=(v20,v17.sqrtPrice)", "iteratorToNextInitializedTickSqrtPriceTarget(v18,v6,v14)",
     "ComputeSwapWithinBucketInGivenOut(v14,v17.sqrtPrice,v23,v17.liquidity,v17.amountSpecifiedRemaining)",
     "validateSwapProgressAndAmountConsumption(v24,v20,v26,v25)", "if(v7)",
     "updateSpreadRewardGrowthGlobal(v17,v27,v16)", "end", "=(v17.sqrtPrice,v24)",
     "SubMut(v17.amountSpecifiedRemaining,v25)", "Add(v26,v27)", "AddMut(v17.amountCalculated,_)", "Equal(v22,v24)",
     "if", "swapCrossTickLogic(v0,v1,v17,v14,v21,v18,v11,v12,&v13,v3,v7)", "=(v17;v10,_)", "else", "ZeroForOne(v14)",
     "edgeCaseInequalityBasedOnSwapStrategy(v14.ZeroForOne(),v22,v24)", "if", "else", "Equal(v20,v24)", "!(_)", "if",
     "math.CalculateSqrtPriceToTick(v24)", "=(v17.tick;v10,_)", "end", "IsZero(v25)", "if",
     ">=(v19,swapNoProgressLimit)", "if", "end", "++(v19)", "end", "end", "IsNegative(v17.amountSpecifiedRemaining)",
     "if", "end", "if(v7)", "sdk.NewDecCoinFromDec(v3,v17.globalSpreadRewardGrowthPerUnitLiquidity)",
     "sdk.NewDecCoins(_)", "AddToAccumulator(v12,_)", "end", "Ceil(v17.amountCalculated)",
     "TruncateInt(v17.amountCalculated.Ceil())", "=(v26,v17.amountCalculated.Ceil().TruncateInt())",
     "ToLegacyDec(v2.Amount)", "SubMut(v2.Amount.ToLegacyDec(),v17.amountSpecifiedRemaining)", "TruncateInt(_)",
     "=(v25,_.TruncateInt())",
     "return({AmountIn:v26,AmountOut:v25,SpreadRewards:v17.globalSpreadRewardGrowth},{v17.tick,v17.liquidity,v17.sqrtPrice},nil)"] := by decide

/-- B — `Keeper.swapCrossTickLogic`: the crossing branch of `CL.loopBody` (liquidity += signed net, tick after crossing), `CLFees.foldTrace` (tick flip against accumulator + swap growth) and `CLInc.swap` (`sync` then `flipTicks`) -/
theorem opsx_Keeper_swapCrossTickLogic_pinned : Gen.CLKeeperOps.opsx_Keeper_swapCrossTickLogic =
    ["Value(v5)", "ParseTickFromBz(v5.Value())", "if", "return(v2,v12)", "end", "if(v10)", "if", "GetId(v6)",
     "GetUptimeAccumulators(v0,v1,v6.GetId())", "if", "return(v2,v12)", "end", "=(v8,&v13)", "end",
     "updateGivenPoolUptimeAccumulatorsToNow(v0,v1,v6,v8)", "if", "return(v2,v12)", "end",
     "=(v14,{Denom:v9,Amount:v2.globalSpreadRewardGrowthPerUnitLiquidity})", "GetId(v6)", "GetValue(v7)",
     "crossTick(v0,v1,v6.GetId(),v4,&v11,v14,v7.GetValue(),v8)", "if", "return(v2,v12)", "end", "end",
     "=(v15,v11.LiquidityNet)", "Next(v5)", "SetLiquidityDeltaSign(v2.swapStrategy,v15)", "=(v15,_)",
     "AddMut(v2.liquidity,v15)", "UpdateTickAfterCrossing(v3,v4)", "=(v2.tick,_)", "return(v2,nil)"] := by decide

/-- B — `Keeper.updatePoolForSwap`: `CL.execSwap` (`fee = ⌈spreadRewards⌉` by `Ceil().TruncateInt()`) and `CLPool.swap` (`toPool = amountIn − fee`, the three bank sends, then `ApplySwap`, `setPool`) -/
theorem opsx_Keeper_updatePoolForSwap_pinned : Gen.CLKeeperOps.opsx_Keeper_updatePoolForSwap =
    ["GetId(v2)", "=(v6,v2.GetId())", "GasMeter(v1)",
     "ConsumeGas(v1.GasMeter(),types.ConcentratedGasFeeForSwap,\"cl pool swap computation\")",
     "getPoolById(v0,v1,v6)", "Ceil(v5)", "TruncateInt(v5.Ceil())",
     "sdk.NewCoin(v3.TokenIn.Denom,v5.Ceil().TruncateInt())", "Sub(v3.TokenIn.Amount,v8.Amount)",
     "=(v3.TokenIn.Amount,_)", "GetAddress(v2)",
     "SendCoins(v0.bankKeeper,v1,v3.Sender,v2.GetAddress(),{v3.TokenIn})", "IsZero(v8)", "!(v8.IsZero())", "if",
     "GetSpreadRewardsAddress(v2)", "SendCoins(v0.bankKeeper,v1,v3.Sender,v2.GetSpreadRewardsAddress(),{v8})", "end",
     "GetAddress(v2)", "SendCoins(v0.bankKeeper,v1,v2.GetAddress(),v3.Sender,{v3.TokenOut})",
     "ApplySwap(v2,v4.NewLiquidity,v4.NewCurrentTick,v4.NewSqrtPrice)", "setPool(v0,v1,v2)",
     "AfterConcentratedPoolSwap(v0.listeners,v1,v3.Sender,v6,{v3.TokenIn},{v3.TokenOut})"] := by decide

/-- B — `getZeroForOne`: the `zfo` flag of the model's swap operations -/
theorem opsx_getZeroForOne_pinned : Gen.CLKeeperOps.opsx_getZeroForOne =
    ["==(v0,v1)"] := by decide

/-- B — `checkDenomValidity`: the engine only issues swaps between the pool's two denoms (guard not modelled, pinned) -/
theorem opsx_checkDenomValidity_pinned : Gen.CLKeeperOps.opsx_checkDenomValidity =
    ["!=(v1,v2)", "!=(v1,v3)", "&&(_,_)", "if", "return(error)", "end", "!=(v0,v2)", "!=(v0,v3)", "&&(_,_)", "if",
     "return(error)", "end", "==(v1,v0)", "if", "return(error)", "end"] := by decide

/-- B — `Keeper.setupSwapStrategy`: `CL.sqrtPriceLimit` and the `ValidateSqrtPrice` guard of `CL.computeSwap` -/
theorem opsx_Keeper_setupSwapStrategy_pinned : Gen.CLKeeperOps.opsx_Keeper_setupSwapStrategy =
    ["GetToken0(v1)", "getZeroForOne(v3,v1.GetToken0())", "swapstrategy.GetSqrtPriceLimit(v4,v8)", "=(v6;v7,_)",
     "if", "return(v5,{},error)", "end", "swapstrategy.New(v8,v6,v0.storeKey,v2)", "GetCurrentSqrtPrice(v1)",
     "=(v10,v1.GetCurrentSqrtPrice())", "ValidateSqrtPrice(v9,v6,v10)", "if", "return(v5,{},v7)", "end",
     "return(v9,v6,nil)"] := by decide

/-- B — `Keeper.getPoolForSwap`: the `positions.isEmpty` guard of `CLPool.swap` -/
theorem opsx_Keeper_getPoolForSwap_pinned : Gen.CLKeeperOps.opsx_Keeper_getPoolForSwap =
    ["getPoolById(v0,v1,v2)", "if", "return(v3,v4)", "end", "PoolHasPosition(v0,v1,v3)", "!(v5)", "if",
     "return(v3,error)", "end", "return(v3,nil)"] := by decide

/-- B — `Keeper.getInitialUptimeGrowthOppositeDirectionOfLastTraversalForTick`: `CLInc.initialTr` (`cur ≥ t` ⇒ the accumulator values, else empty) -/
theorem opsx_Keeper_getInitialUptimeGrowthOppositeDirectionOfLastTraversalForTick_pinned : Gen.CLKeeperOps.opsx_Keeper_getInitialUptimeGrowthOppositeDirectionOfLastTraversalForTick =
    ["GetCurrentTick(v2)", "=(v4,v2.GetCurrentTick())", ">=(v4,v3)", "if", "GetId(v2)",
     "GetUptimeAccumulatorValues(v0,v1,v2.GetId())", "return(v5,nil)", "end", "=(v7,{})",
     "range(types.SupportedUptimes)", "append(v7,emptyCoins)", "=(v7,_)", "end", "return(v7,nil)"] := by decide

/-- B — `Keeper.UpdatePoolUptimeAccumulatorsToNow`: `CLInc.sync` -/
theorem opsx_Keeper_UpdatePoolUptimeAccumulatorsToNow_pinned : Gen.CLKeeperOps.opsx_Keeper_UpdatePoolUptimeAccumulatorsToNow =
    ["getPoolById(v0,v1,v2)", "updatePoolUptimeAccumulatorsToNowWithPool(v0,v1,v3)", "return(_)"] := by decide

/-- B — `Keeper.updatePoolUptimeAccumulatorsToNowWithPool`: `CLInc.sync` -/
theorem opsx_Keeper_updatePoolUptimeAccumulatorsToNowWithPool_pinned : Gen.CLKeeperOps.opsx_Keeper_updatePoolUptimeAccumulatorsToNowWithPool =
    ["GetId(v2)", "GetUptimeAccumulators(v0,v1,v2.GetId())", "updateGivenPoolUptimeAccumulatorsToNow(v0,v1,v2,v3)"] := by decide

/-- B — `Keeper.updateGivenPoolUptimeAccumulatorsToNow`: `CLInc.sync` / `CLInc.emitAll`: elapsed seconds = `NewDec(ns).QuoMut(1e9)`, no-op for zero, error for negative, emission only when liquidity ≥ 1, records and `LastLiquidityUpdate` written in every other case -/
theorem opsx_Keeper_updateGivenPoolUptimeAccumulatorsToNow_pinned : Gen.CLKeeperOps.opsx_Keeper_updateGivenPoolUptimeAccumulatorsToNow =
    ["if", "return(error)", "end", "BlockTime(v1)", "GetLastLiquidityUpdate(v2)",
     "Sub(v1.BlockTime(),v2.GetLastLiquidityUpdate())", "osmomath.NewDec(_)", "QuoMut(v4,dec1e9)", "IsZero(v5)",
     "if", "end", "IsNegative(v5)", "if", "return(error)", "end", "GetId(v2)", "=(v6,v2.GetId())",
     "GetAllIncentiveRecordsForPool(v0,v1,v6)", "getIncentiveScalingFactorForPool(v0,v1,v6)", "GetLiquidity(v2)",
     "=(v10,v2.GetLiquidity())", "LT(v10,oneDec)", "!(_)", "if", "range(v3)", "=(v12,types.SupportedUptimes[v11])",
     "calcAccruedIncentivesForAccum(v1,v12,v10,v5,v7,v6,v9)", "AddToAccumulator(v3[v11],v13)", "=(v7,v14)", "end",
     "end", "setMultipleIncentiveRecords(v0,v1,v7)", "BlockTime(v1)", "SetLastLiquidityUpdate(v2,v1.BlockTime())",
     "setPool(v0,v1,v2)"] := by decide

/-- B — `calcAccruedIncentivesForAccum`: `CLInc.emitLoop` / `CLInc.emitOne` (the body of the record loop is ALSO tied by value: `TieGenCL.emitStep_model_eq_gen`) -/
theorem opsx_calcAccruedIncentivesForAccum_pinned : Gen.CLKeeperOps.opsx_calcAccruedIncentivesForAccum =
    ["IsPositive(v2)", "!(v2.IsPositive())", "IsPositive(v3)", "!(v3.IsPositive())", "||(_,_)", "if", "end",
     "len(v4)", "make(_,_)", "copy(v7,v4)", "sdk.NewDecCoins()", "=(v8,sdk.NewDecCoins())", "range(v7)",
     "=(v11,v10.IncentiveRecordBody)", "UTC(v11.StartTime)", "BlockTime(v0)", "UTC(v0.BlockTime())",
     "Before(v11.StartTime.UTC(),v0.BlockTime().UTC())", "!(_)", "!=(v10.MinUptime,v1)", "||(_,_)", "if", "continue",
     "end", "computeTotalIncentivesToEmit(v3,v11.EmissionRate)", "if", "continue", "end",
     "scaleUpTotalEmittedAmount(v12,v6)", "if", "continue", "end", "QuoTruncate(v14,v2)",
     "sdk.NewDecCoinFromDec(v11.RemainingCoin.Denom,v15)", "=(v17,v4[v9].IncentiveRecordBody.RemainingCoin.Amount)",
     "LTE(v12,v17)", "if", "Add(v8,v16)", "=(v8,_)", "Sub(v17,v12)", "=(v17,_)",
     "=(v7[v9].IncentiveRecordBody.RemainingCoin.Amount,v17)", "else", "scaleUpTotalEmittedAmount(v17,v6)", "if",
     "continue", "end", "QuoTruncateMut(v18,v2)", "sdk.NewDecCoinFromDec(v11.RemainingCoin.Denom,v19)", "=(v16,_)",
     "Add(v8,v16)", "=(v8,_)", "osmomath.ZeroDec()",
     "=(v7[v9].IncentiveRecordBody.RemainingCoin.Amount,osmomath.ZeroDec())", "end", "end", "return(v8,v7,nil)"] := by decide

/-- B — `Keeper.setIncentiveRecord`: the `records.filter (remaining > 0)` of `CLInc.sync` -/
theorem opsx_Keeper_setIncentiveRecord_pinned : Gen.CLKeeperOps.opsx_Keeper_setIncentiveRecord =
    ["KVStore(v1,v0.storeKey)", "findUptimeIndex(v2.MinUptime)",
     "types.KeyIncentiveRecord(v2.PoolId,v4,v2.IncentiveId)", "=(v7,v2.IncentiveRecordBody)", "Has(v3,v6)",
     "IsZero(v7.RemainingCoin)", "&&(_,v7.RemainingCoin.IsZero())", "if", "Delete(v3,v6)", "else",
     "IsPositive(v7.RemainingCoin.Amount)", "if", "osmoutils.MustSet(v3,v6,&v7)", "end"] := by decide

/-- B — `Keeper.setMultipleIncentiveRecords`: the `records.filter (remaining > 0)` of `CLInc.sync` -/
theorem opsx_Keeper_setMultipleIncentiveRecords_pinned : Gen.CLKeeperOps.opsx_Keeper_setMultipleIncentiveRecords =
    ["range(v2)", "setIncentiveRecord(v0,v1,v3)", "end"] := by decide

/-- B — `Keeper.GetUptimeGrowthInsideRange`: `CLInc.insideAll` / `CLInc.insideOne` (below / inside / above the range; `SafeSub` vs `Sub`) -/
theorem opsx_Keeper_GetUptimeGrowthInsideRange_pinned : Gen.CLKeeperOps.opsx_Keeper_GetUptimeGrowthInsideRange =
    ["getPoolById(v0,v1,v2)", "GetUptimeAccumulatorValues(v0,v1,v2)", "GetCurrentTick(v5)",
     "=(v8,v5.GetCurrentTick())", "GetTickInfo(v0,v1,v2,v3)", "GetTickInfo(v0,v1,v2,v4)",
     "getUptimeTrackerValues(v9.UptimeTrackers.List)", "getUptimeTrackerValues(v10.UptimeTrackers.List)", "<(v8,v3)",
     "if", "osmoutils.SafeSubDecCoinArrays(v11,v12)", "return(_)", "else", "<(v8,v4)", "if",
     "osmoutils.SubDecCoinArrays(v7,v12)", "osmoutils.SafeSubDecCoinArrays(v13,v11)", "return(_)", "else",
     "osmoutils.SafeSubDecCoinArrays(v12,v11)", "return(_)", "end"] := by decide

/-- B — `Keeper.GetUptimeGrowthOutsideRange`: `CLInc.outsideAll` -/
theorem opsx_Keeper_GetUptimeGrowthOutsideRange_pinned : Gen.CLKeeperOps.opsx_Keeper_GetUptimeGrowthOutsideRange =
    ["GetUptimeAccumulatorValues(v0,v1,v2)", "GetUptimeGrowthInsideRange(v0,v1,v2,v3,v4)",
     "osmoutils.SubDecCoinArrays(v5,v7)", "return(_)"] := by decide

/-- B — `Keeper.initOrUpdatePositionUptimeAccumulators`: `CLInc.updPosition` / `CLInc.updOne` -/
theorem opsx_Keeper_initOrUpdatePositionUptimeAccumulators_pinned : Gen.CLKeeperOps.opsx_Keeper_initOrUpdatePositionUptimeAccumulators =
    ["UpdatePoolUptimeAccumulatorsToNow(v0,v1,v2)", "GetUptimeAccumulators(v0,v1,v2)",
     "GetUptimeGrowthInsideRange(v0,v1,v2,v4,v5)", "GetUptimeGrowthOutsideRange(v0,v1,v2,v4,v5)",
     "types.KeyPositionId(v7)", "range(v9)", "HasPosition(v14,v12)", "!(v15)", "if", "IsPositive(v6)",
     "!(v6.IsPositive())", "if", "return(error)", "end",
     "NewPositionIntervalAccumulation(v14,v12,v3,v10[v13],emptyOptions)", "else",
     "updatePositionToInitValuePlusGrowthOutside(v14,v12,v11[v13])",
     "UpdatePositionIntervalAccumulation(v14,v12,v6,v10[v13])", "end", "end"] := by decide

/-- B — `updateAccumAndClaimRewards`: `CLInc.claimOne` and the claim part of `CLFees.Acc.prepareClaim` -/
theorem opsx_updateAccumAndClaimRewards_pinned : Gen.CLKeeperOps.opsx_updateAccumAndClaimRewards =
    ["updatePositionToInitValuePlusGrowthOutside(v0,v1,v2)", "ClaimRewards(v0,v1)", "HasPosition(v0,v1)", "if(v6)",
     "GetValue(v0)", "SafeSub(v0.GetValue(),v2)", "SetPositionIntervalAccumulation(v0,v1,v7)", "end",
     "return(v4,v5,nil)"] := by decide

/-- B — `Keeper.prepareClaimAllIncentivesForPosition`: `CLInc.claimAll` / `CLInc.claimLoop` (position age against the supported uptimes, scale-down, collected vs forfeited) -/
theorem opsx_Keeper_prepareClaimAllIncentivesForPosition_pinned : Gen.CLKeeperOps.opsx_Keeper_prepareClaimAllIncentivesForPosition =
    ["GetPosition(v0,v1,v2)", "UpdatePoolUptimeAccumulatorsToNow(v0,v1,v3.PoolId)", "BlockTime(v1)",
     "Sub(v1.BlockTime(),v3.JoinTime)", "<(v5,0)", "if", "end", "GetUptimeAccumulators(v0,v1,v3.PoolId)",
     "GetUptimeGrowthOutsideRange(v0,v1,v3.PoolId,v3.LowerTick,v3.UpperTick)", "types.KeyPositionId(v2)", "=(v9,{})",
     "=(v10,{})", "=(v11,types.SupportedUptimes)", "getIncentiveScalingFactorForPool(v0,v1,v3.PoolId)",
     "len(types.SupportedUptimes)", "make(_,_)", "range(v6)", "HasPosition(v15,v8)", "if(v16)",
     "updateAccumAndClaimRewards(v15,v8,v7[v14])", "sdk.NewCoins()", "=(v18,sdk.NewCoins())", "range(v17)",
     "scaleDownIncentiveAmount(v19.Amount,v12)", "=(v19.Amount,_)", "IsPositive(v19.Amount)", "if",
     "append(v18,v19)", "=(v18,_)", "end", "end", "<(v5,v11[v14])", "if", "=(v13[v14],v17)", "Add(v10,v18...)",
     "=(v10,_)", "else", "Add(v9,v18...)", "=(v9,_)", "end", "end", "end", "return(v9,v10,v13,nil)"] := by decide

/-- B — `Keeper.redepositForfeitedIncentives`: `CLInc.redeposit` / `CLInc.redepositLoop` -/
theorem opsx_Keeper_redepositForfeitedIncentives_pinned : Gen.CLKeeperOps.opsx_Keeper_redepositForfeitedIncentives =
    ["len(v4)", "len(types.SupportedUptimes)", "!=(_,_)", "if", "return(error)", "end", "getPoolById(v0,v1,v2)",
     "GetLiquidity(v6)", "=(v8,v6.GetLiquidity())", "osmomath.OneDec()", "LT(v8,osmomath.OneDec())", "if",
     "GetIncentivesAddress(v6)", "SendCoins(v0.bankKeeper,v1,v6.GetIncentivesAddress(),v3,v5)", "end",
     "GetUptimeAccumulators(v0,v1,v2)", "range(v9)", "=(v11,v4[v10])", "IsZero(v11)", "if", "continue", "end",
     "sdk.NewDecCoins()", "=(v12,sdk.NewDecCoins())", "range(v11)", "ToLegacyDec(v13.Amount)",
     "QuoTruncate(v13.Amount.ToLegacyDec(),v8)", "sdk.NewDecCoinFromDec(v13.Denom,v14)", "Add(v12,v15)", "=(v12,_)",
     "end", "AddToAccumulator(v9[v10],v12)", "end"] := by decide

/-- B — `Keeper.collectIncentives`: `CLInc.collectIncentives` -/
theorem opsx_Keeper_collectIncentives_pinned : Gen.CLKeeperOps.opsx_Keeper_collectIncentives =
    ["GetPosition(v0,v1,v3)", "String(v2)", "!=(v2.String(),v4.Address)", "if", "end",
     "prepareClaimAllIncentivesForPosition(v0,v1,v4.PositionId)", "IsZero(v6)", "IsZero(v7)",
     "&&(v6.IsZero(),v7.IsZero())", "if", "return(v6,v7,v8,nil)", "end", "getPoolById(v0,v1,v4.PoolId)",
     "IsZero(v6)", "!(v6.IsZero())", "if", "GetIncentivesAddress(v9)",
     "SendCoins(v0.bankKeeper,v1,v9.GetIncentivesAddress(),v2,v6)", "end", "return(v6,v7,v8,nil)"] := by decide

/-- B — `Keeper.CreateIncentive`: `CLInc.createIncentive` (guards, `sync` BEFORE the record is inserted, bank send) -/
theorem opsx_Keeper_CreateIncentive_pinned : Gen.CLKeeperOps.opsx_Keeper_CreateIncentive =
    ["getPoolById(v0,v1,v2)", "IsValid(v4)", "!(v4.IsValid())", "IsZero(v4)", "||(_,v4.IsZero())", "if", "end",
     "BlockTime(v1)", "Before(v6,v1.BlockTime())", "if", "end", "IsPositive(v5)", "!(v5.IsPositive())", "if", "end",
     "GetParams(v0,v1)", "=(v10,_.AuthorizedUptimes)", "osmoutils.SortSlice(v10)", "=(v11,false)", "range(v10)",
     "==(v7,v12)", "if", "=(v11,true)", "break", "end", "end", "!(v11)", "if", "end",
     "HasBalance(v0.bankKeeper,v1,v3,v4)", "!(v13)", "if", "end", "UpdatePoolUptimeAccumulatorsToNow(v0,v1,v2)",
     "GetNextIncentiveRecordId(v0,v1)", "+(v14,1)", "SetNextIncentiveRecordId(v0,v1,_)",
     "sdk.NewDecCoinFromCoin(v4)", "=(v15,{RemainingCoin:_,EmissionRate:v5,StartTime:v6})",
     "=(v16,{PoolId:v2,IncentiveRecordBody:v15,MinUptime:v7,IncentiveId:v14})",
     "getAllIncentiveRecordsForUptime(v0,v1,v2,v7)", "GasMeter(v1)", "len(v17)",
     "*(types.BaseGasFeeForNewIncentive,_)", "ConsumeGas(v1.GasMeter(),_,\"cl incentive creation fee\")",
     "setIncentiveRecord(v0,v1,v16)", "GetIncentivesAddress(v8)", "sdk.NewCoins(v4)",
     "SendCoins(v0.bankKeeper,v1,v3,v8.GetIncentivesAddress(),_)", "return(v16,nil)"] := by decide

/-- B — `Keeper.getIncentiveScalingFactorForPool`: `CLInc.Inc.factor` (an input of the model: the engine reads it per pool) -/
theorem opsx_Keeper_getIncentiveScalingFactorForPool_pinned : Gen.CLKeeperOps.opsx_Keeper_getIncentiveScalingFactorForPool =
    ["GetIncentivePoolIDMigrationThreshold(v0,v1)", ">(v2,v3)", "if", "return(perUnitLiqScalingFactor,nil)", "end",
     "if(v5)", "return(perUnitLiqScalingFactor,nil)", "end", "=(_;v5,_)", "if(v5)",
     "return(perUnitLiqScalingFactor,nil)", "end", "return(oneDecScalingFactor,nil)"] := by decide

/-- B — `Keeper.initOrUpdatePositionSpreadRewardAccumulator`: `CLFees.Acc.updPos` -/
theorem opsx_Keeper_initOrUpdatePositionSpreadRewardAccumulator_pinned : Gen.CLKeeperOps.opsx_Keeper_initOrUpdatePositionSpreadRewardAccumulator =
    ["GetSpreadRewardAccumulator(v0,v1,v2)", "types.KeySpreadRewardPositionAccumulator(v5)", "HasPosition(v7,v9)",
     "getSpreadRewardGrowthOutside(v0,v1,v2,v3,v4)", "GetValue(v7)", "SafeSub(v7.GetValue(),v11)", "!(v10)", "if",
     "IsPositive(v6)", "!(v6.IsPositive())", "if", "return(error)", "end",
     "NewPositionIntervalAccumulation(v7,v9,v6,v12,nil)", "else",
     "updatePositionToInitValuePlusGrowthOutside(v7,v9,v11)", "UpdatePositionIntervalAccumulation(v7,v9,v6,v12)",
     "end"] := by decide

/-- B — `Keeper.getInitialSpreadRewardGrowthOppositeDirectionOfLastTraversalForTick`: `CLFees.initialOut` -/
theorem opsx_Keeper_getInitialSpreadRewardGrowthOppositeDirectionOfLastTraversalForTick_pinned : Gen.CLKeeperOps.opsx_Keeper_getInitialSpreadRewardGrowthOppositeDirectionOfLastTraversalForTick =
    ["GetCurrentTick(v2)", "=(v4,v2.GetCurrentTick())", ">=(v4,v3)", "if", "GetId(v2)",
     "GetSpreadRewardAccumulator(v0,v1,v2.GetId())", "GetValue(v5)", "return(v5.GetValue(),nil)", "end",
     "return(emptyCoins,nil)"] := by decide

/-- B — `Keeper.collectSpreadRewards`: `CLFees.collect` / `CLFees.payOut` -/
theorem opsx_Keeper_collectSpreadRewards_pinned : Gen.CLKeeperOps.opsx_Keeper_collectSpreadRewards =
    ["GetPosition(v0,v1,v3)", "String(v2)", "!=(v2.String(),v4.Address)", "if", "end",
     "prepareClaimableSpreadRewards(v0,v1,v3)", "IsZero(v6)", "if", "end", "getPoolById(v0,v1,v4.PoolId)",
     "GetSpreadRewardsAddress(v7)", "SendCoins(v0.bankKeeper,v1,v7.GetSpreadRewardsAddress(),v2,v6)", "return(v6,nil)"] := by decide

/-- B — `Keeper.prepareClaimableSpreadRewards`: `CLFees.Acc.prepareClaim` (claim, scale-down unless the factor is one, forfeited dust `QuoDecTruncate` total shares back into the accumulator) -/
theorem opsx_Keeper_prepareClaimableSpreadRewards_pinned : Gen.CLKeeperOps.opsx_Keeper_prepareClaimableSpreadRewards =
    ["GetPosition(v0,v1,v2)", "GetSpreadRewardAccumulator(v0,v1,v3.PoolId)",
     "types.KeySpreadRewardPositionAccumulator(v2)", "HasPosition(v5,v6)", "!(v7)", "if", "end",
     "getSpreadRewardGrowthOutside(v0,v1,v3.PoolId,v3.LowerTick,v3.UpperTick)",
     "updateAccumAndClaimRewards(v5,v6,v8)", "getSpreadFactorScalingFactorForPool(v0,v1,v3.PoolId)",
     "sdk.NewCoins()", "=(v12,sdk.NewCoins())", "=(v13,{})", "Equal(v11,oneDec)", "if", "=(v12,v9)", "=(v13,v10)",
     "else", "range(v9)", "scaleDownSpreadRewardAmount(v14.Amount,v11)", "IsZero(v15)", "!(v15.IsZero())", "if",
     "sdk.NewCoin(v14.Denom,v15)", "append(v12,_)", "=(v12,_)", "end", "end", "end", "IsZero(v13)",
     "!(v13.IsZero())", "if", "GetSpreadRewardAccumulator(v0,v1,v3.PoolId)", "GetTotalShares(v5)",
     "=(v16,v5.GetTotalShares())", "IsZero(v16)", "!(v16.IsZero())", "if", "QuoDecTruncate(v13,v16)",
     "AddToAccumulator(v5,v17)", "end", "end", "return(v12,nil)"] := by decide

/-- B — `updatePositionToInitValuePlusGrowthOutside`: the `V2.add r.snap outside` step of `CLFees.Acc.updPos` / `prepareClaim` -/
theorem opsx_updatePositionToInitValuePlusGrowthOutside_pinned : Gen.CLKeeperOps.opsx_updatePositionToInitValuePlusGrowthOutside =
    ["accum.GetPosition(v0,v1)", "Add(v3.AccumValuePerShare,v2...)", "SetPositionIntervalAccumulation(v0,v1,v5)"] := by decide

/-- B — `Keeper.getSpreadFactorScalingFactorForPool`: `CLPool.Pool.scale` (an input of the model: the engine reads it per pool) -/
theorem opsx_Keeper_getSpreadFactorScalingFactorForPool_pinned : Gen.CLKeeperOps.opsx_Keeper_getSpreadFactorScalingFactorForPool =
    ["GetSpreadFactorPoolIDMigrationThreshold(v0,v1)", ">(v2,v3)", "if", "return(perUnitLiqScalingFactor,nil)",
     "end", "if(v5)", "return(perUnitLiqScalingFactor,nil)", "end", "return(oneDecScalingFactor,nil)"] := by decide

/-- B — `Keeper.initOrUpdateTick`: `CLPool.updTick` (gross += delta, net ∓ delta) and `CLPool.tickEmpty` (gross = 0 ∧ net = 0) -/
theorem opsx_Keeper_initOrUpdateTick_pinned : Gen.CLKeeperOps.opsx_Keeper_initOrUpdateTick =
    ["GetTickInfo(v0,v1,v2,v3)", "IsZero(v8.LiquidityGross)", "IsZero(v8.LiquidityNet)",
     "&&(v8.LiquidityGross.IsZero(),v8.LiquidityNet.IsZero())", "if", "GasMeter(v1)",
     "ConsumeGas(v1.GasMeter(),types.BaseGasFeeForInitializingTick,\"initialize tick gas spread factor\")", "end",
     "=(v9,v8.LiquidityGross)", "Add(v9,v4)", "=(v8.LiquidityGross,v10)", "if(v5)", "SubMut(v8.LiquidityNet,v4)",
     "else", "AddMut(v8.LiquidityNet,v4)", "end", "IsZero(v8.LiquidityGross)", "IsZero(v8.LiquidityNet)",
     "&&(v8.LiquidityGross.IsZero(),v8.LiquidityNet.IsZero())", "if", "=(v6,true)", "end",
     "SetTickInfo(v0,v1,v2,v3,&v8)", "return(v6,nil)"] := by decide

/-- B — `Keeper.crossTick`: `CLFees.foldTrace` (growth outside := accumulator + swap growth − growth outside) and `CLInc.flipTicks` -/
theorem opsx_Keeper_crossTick_pinned : Gen.CLKeeperOps.opsx_Keeper_crossTick =
    ["if", "return(error)", "end", "Add(v6,v5)", "Sub(_,v4.SpreadRewardGrowthOppositeDirectionOfLastTraversal)",
     "=(v4.SpreadRewardGrowthOppositeDirectionOfLastTraversal,_)", "=(v9,v4.UptimeTrackers.List)", "range(v7)",
     "GetValue(v7[v10])", "Sub(v7[v10].GetValue(),v9[v10].UptimeGrowthOutside)", "=(v9[v10].UptimeGrowthOutside,_)",
     "end", "SetTickInfo(v0,v1,v2,v3,v4)"] := by decide

/-- B — `Keeper.GetTickInfo`: `CLFees.tickOut` / `CLInc.tickTr` (stored value, or the initial one for a tick that is not stored) -/
theorem opsx_Keeper_GetTickInfo_pinned : Gen.CLKeeperOps.opsx_Keeper_GetTickInfo =
    ["KVStore(v1,v0.storeKey)", "=(v7,{})", "types.KeyTick(v2,v3)", "osmoutils.Get(v6,v8,&v7)", "!(v9)", "if",
     "makeInitialTickInfo(v0,v1,v2,v3)", "return(_)", "end", "return(v7,v5)"] := by decide

/-- B — `Keeper.makeInitialTickInfo`: `CLFees.initialOut` / `CLInc.initialTr`, zero gross / net -/
theorem opsx_Keeper_makeInitialTickInfo_pinned : Gen.CLKeeperOps.opsx_Keeper_makeInitialTickInfo =
    ["getPoolById(v0,v1,v2)", "if", "return(v4,v5)", "end",
     "getInitialSpreadRewardGrowthOppositeDirectionOfLastTraversalForTick(v0,v1,v6,v3)", "if", "return(v4,v5)",
     "end", "updatePoolUptimeAccumulatorsToNowWithPool(v0,v1,v6)", "if", "return(v4,v5)", "end",
     "getInitialUptimeGrowthOppositeDirectionOfLastTraversalForTick(v0,v1,v6,v3)", "if", "return(v4,v5)", "end",
     "=(v9,{})", "range(v8)", "append(v9,{UptimeGrowthOutside:v10})", "=(v9,_)", "end", "=(v11,{List:v9})",
     "osmomath.ZeroDec()", "osmomath.ZeroDec()",
     "return({LiquidityGross:osmomath.ZeroDec(),LiquidityNet:osmomath.ZeroDec(),SpreadRewardGrowthOppositeDirectionOfLastTraversal:v7,UptimeTrackers:v11},nil)"] := by decide

/-- B — `validateTickRangeIsValid`: `CLPool.validRange` -/
theorem opsx_validateTickRangeIsValid_pinned : Gen.CLKeeperOps.opsx_validateTickRangeIsValid =
    ["%(v1,v0)", "!=(_,0)", "%(v2,v0)", "!=(_,0)", "||(_,_)", "if", "return(error)", "end",
     "<(v1,types.MinInitializedTick)", ">=(v1,types.MaxTick)", "||(_,_)", "if", "return(error)", "end",
     ">(v2,types.MaxTick)", "<=(v2,types.MinInitializedTick)", "||(_,_)", "if", "return(error)", "end", ">=(v1,v2)",
     "if", "return(error)", "end"] := by decide

/-- B — `roundTickToCanonicalPriceTick`: the canonical-tick step of `CLPool.createPositionMin` -/
theorem opsx_roundTickToCanonicalPriceTick_pinned : Gen.CLKeeperOps.opsx_roundTickToCanonicalPriceTick =
    ["math.SqrtPriceToTickRoundDownSpacing(v2,v4)", "math.SqrtPriceToTickRoundDownSpacing(v3,v4)", "!=(v0,v5)",
     "!=(v1,v7)", "||(_,_)", "if", "validateTickRangeIsValid(v4,v5,v7)", "end", "return(v5,v7,nil)"] := by decide

/-- B — `Keeper.CreatePosition`: `CLPool.createPositionMin` / `CLFees.createPositionMin` / `CLInc.createPositionMin` -/
theorem opsx_Keeper_CreatePosition_pinned : Gen.CLKeeperOps.opsx_Keeper_CreatePosition =
    ["BlockTime(v1)", "=(v9,v1.BlockTime())", "getPoolById(v0,v1,v2)", "range(v4)", "GetToken0(v10)",
     "!=(v12.Denom,v10.GetToken0())", "GetToken1(v10)", "!=(v12.Denom,v10.GetToken1())", "&&(_,_)", "if", "end",
     "end", "GetTickSpacing(v10)", "validateTickRangeIsValid(v10.GetTickSpacing(),v7,v8)", "GetToken0(v10)",
     "AmountOf(v4,v10.GetToken0())", "GetToken1(v10)", "AmountOf(v4,v10.GetToken1())", "IsZero(v13)", "IsZero(v14)",
     "&&(v13.IsZero(),v14.IsZero())", "if", "end", "IsNegative(v5)", "if", "end", "IsNegative(v6)", "if", "end",
     "math.TicksToSqrtPrice(v7,v8)", "GetTickSpacing(v10)",
     "roundTickToCanonicalPriceTick(v7,v8,v15,v16,v10.GetTickSpacing())", "=(v7;v8;v11,_)",
     "PoolHasPosition(v0,v1,v10)", "BeforeCreatePosition(v0,v1,v2,v3,v4,v5,v6,v7,v8)",
     "getNextPositionIdAndIncrement(v0,v1)", "!(v17)", "if", "initializeInitialPositionForPool(v0,v1,v10,v13,v14)",
     "end", "GetCurrentSqrtPrice(v10)", "math.GetLiquidityFromAmounts(v10.GetCurrentSqrtPrice(),v15,v16,v13,v14)",
     "IsZero(v19)", "if", "IsZero(v13)", "!(v13.IsZero())", "IsZero(v14)", "!(v14.IsZero())", "&&(_,_)", "if",
     "else", "IsZero(v13)", "if", "end", "end", "UpdatePosition(v0,v1,v2,v3,v7,v8,v19,v9,v18)", "LT(v20.Amount0,v5)",
     "if", "end", "LT(v20.Amount1,v6)", "if", "end", "GetToken0(v10)", "GetToken1(v10)", "GetAddress(v10)",
     "sendCoinsBetweenPoolAndUser(v0,v1,v10.GetToken0(),v10.GetToken1(),v20.Amount0,v20.Amount1,v3,v10.GetAddress())",
     "=(v21,&{eventType:types.TypeEvtCreatePosition,v18:v18,sender:v3,v2:v2,v7:v7,v8:v8,v9:v9,v19:v19,actualAmount0:v20.Amount0,actualAmount1:v20.Amount1})",
     "emit(v21,v1)", "!(v17)", "if", "AfterInitialPoolPositionCreated(v0.listeners,v1,v3,v2)", "end", "=(v22,{})",
     "IsPositive(v20.Amount0)", "if", "GetToken0(v10)", "sdk.NewCoin(v10.GetToken0(),v20.Amount0)", "Add(v22,_)",
     "=(v22,_)", "end", "IsPositive(v20.Amount1)", "if", "GetToken1(v10)",
     "sdk.NewCoin(v10.GetToken1(),v20.Amount1)", "Add(v22,_)", "=(v22,_)", "end",
     "RecordTotalLiquidityIncrease(v0,v1,v22)", "AfterCreatePosition(v0,v1,v2,v3,v4,v5,v6,v7,v8)",
     "return({ID:v18,Amount0:v20.Amount0,Amount1:v20.Amount1,Liquidity:v19,LowerTick:v7,UpperTick:v8},nil)"] := by decide

/-- B — `Keeper.WithdrawPosition`: `CLPool.withdrawPosition` / `CLFees.withdrawPosition` / `CLInc.withdrawPosition` (claim first, then update, the two "tick empty → remove" tests, the last-position reset) -/
theorem opsx_Keeper_WithdrawPosition_pinned : Gen.CLKeeperOps.opsx_Keeper_WithdrawPosition =
    ["GetPosition(v0,v1,v3)", "String(v2)", "!=(v2.String(),v8.Address)", "if", "end", "IsNegative(v4)", "if", "end",
     "positionHasActiveUnderlyingLockAndUpdate(v0,v1,v3)", "if(v9)", "end", "getPoolById(v0,v1,v8.PoolId)",
     "GT(v4,v8.Liquidity)", "if", "end", "BeforeWithdrawPosition(v0,v1,v8.PoolId,v2,v3,v4)",
     "collectIncentives(v0,v1,v2,v3)", "Neg(v4)", "=(v14,v4.Neg())",
     "UpdatePosition(v0,v1,v8.PoolId,v2,v8.LowerTick,v8.UpperTick,v14,v8.JoinTime,v3)", "GetToken0(v11)",
     "GetToken1(v11)", "Abs(v15.Amount0)", "Abs(v15.Amount1)", "GetAddress(v11)",
     "sendCoinsBetweenPoolAndUser(v0,v1,v11.GetToken0(),v11.GetToken1(),v15.Amount0.Abs(),v15.Amount1.Abs(),v11.GetAddress(),v2)",
     "redepositForfeitedIncentives(v0,v1,v8.PoolId,v2,v13,v12)", "Equal(v4,v8.Liquidity)", "if",
     "collectSpreadRewards(v0,v1,v2,v3)", "if", "end", "deletePosition(v0,v1,v3,v2,v8.PoolId)",
     "HasAnyPositionForPool(v0,v1,v8.PoolId)", "!(v16)", "if", "GetId(v11)", "uninitializePool(v0,v1,v11.GetId())",
     "GetId(v11)", "AfterLastPoolPositionRemoved(v0.listeners,v1,v2,v11.GetId())", "end", "end",
     "if(v15.LowerTickIsEmpty)", "RemoveTickInfo(v0,v1,v8.PoolId,v8.LowerTick)", "end", "if(v15.UpperTickIsEmpty)",
     "RemoveTickInfo(v0,v1,v8.PoolId,v8.UpperTick)", "end", "=(v17,{})", "IsPositive(v15.Amount0)", "if",
     "GetToken0(v11)", "sdk.NewCoin(v11.GetToken0(),v15.Amount0)", "Add(v17,_)", "=(v17,_)", "end",
     "IsPositive(v15.Amount1)", "if", "GetToken1(v11)", "sdk.NewCoin(v11.GetToken1(),v15.Amount1)", "Add(v17,_)",
     "=(v17,_)", "end", "RecordTotalLiquidityDecrease(v0,v1,v17)",
     "=(v18,&{eventType:types.TypeEvtWithdrawPosition,v3:v3,sender:v2,poolId:v8.PoolId,lowerTick:v8.LowerTick,upperTick:v8.UpperTick,joinTime:v8.JoinTime,v14:v14,actualAmount0:v15.Amount0,actualAmount1:v15.Amount1})",
     "emit(v18,v1)", "AfterWithdrawPosition(v0,v1,v8.PoolId,v2,v3,v4)", "Neg(v15.Amount0)", "Neg(v15.Amount1)",
     "return(v15.Amount0.Neg(),v15.Amount1.Neg(),nil)"] := by decide

/-- B — `Keeper.addToPosition`: `CLPool.addToPosition` / `CLFees.addToPosition` / `CLInc.addToPosition` -/
theorem opsx_Keeper_addToPosition_pinned : Gen.CLKeeperOps.opsx_Keeper_addToPosition =
    ["GetPosition(v0,v1,v3)", "String(v2)", "!=(v2.String(),v8.Address)", "if", "return(0,{},{},error)", "end",
     "IsNegative(v4)", "IsNegative(v5)", "||(v4.IsNegative(),v5.IsNegative())", "if", "return(0,{},{},error)", "end",
     "IsZero(v4)", "IsZero(v5)", "&&(v4.IsZero(),v5.IsZero())", "if", "return(0,{},{},error)", "end",
     "positionHasActiveUnderlyingLockAndUpdate(v0,v1,v3)", "if(v10)", "return(0,{},{},error)", "end",
     "WithdrawPosition(v0,v1,v2,v3,v8.Liquidity)", "GetConcentratedPoolById(v0,v1,v8.PoolId)",
     "PoolHasPosition(v0,v1,v13)", "!(v14)", "if", "return(0,{},{},error)", "end", "Add(v11,v4)", "Add(v12,v5)",
     "GetToken0(v13)", "sdk.NewCoin(v13.GetToken0(),v15)", "GetToken1(v13)", "sdk.NewCoin(v13.GetToken1(),v16)",
     "sdk.NewCoins(_,_)", "=(v18,v11)", "=(v19,v12)", "IsZero(v6)", "!(v6.IsZero())", "if", "Add(v11,v6)",
     "=(v18,_)", "end", "IsZero(v7)", "!(v7.IsZero())", "if", "Add(v12,v7)", "=(v19,_)", "end",
     "CreatePosition(v0,v1,v8.PoolId,v2,v17,v18,v19,v8.LowerTick,v8.UpperTick)",
     "return(v20.ID,v20.Amount0,v20.Amount1,nil)"] := by decide

/-- B — `Keeper.UpdatePosition`: `CLPool.updatePosition` (lower tick, upper tick, position, `CalcActualAmounts`, `UpdateLiquidityIfActivePosition`, amounts truncated) -/
theorem opsx_Keeper_UpdatePosition_pinned : Gen.CLKeeperOps.opsx_Keeper_UpdatePosition =
    ["validatePositionUpdateById(v0,v1,v8,v3,v4,v5,v6,v7,v2)", "initOrUpdateTick(v0,v1,v2,v4,v6,false)",
     "initOrUpdateTick(v0,v1,v2,v5,v6,true)", "initOrUpdatePosition(v0,v1,v2,v3,v4,v5,v6,v7,v8)",
     "getPoolById(v0,v1,v2)", "CalcActualAmounts(v12,v1,v4,v5,v6)",
     "UpdateLiquidityIfActivePosition(v12,v1,v4,v5,v6)", "setPool(v0,v1,v12)",
     "initOrUpdatePositionSpreadRewardAccumulator(v0,v1,v2,v4,v5,v8,v6)", "TruncateInt(v13)", "TruncateInt(v14)",
     "return({Amount0:v13.TruncateInt(),Amount1:v14.TruncateInt(),LowerTickIsEmpty:v10,UpperTickIsEmpty:v11},nil)"] := by decide

/-- B — `Keeper.sendCoinsBetweenPoolAndUser`: the balance updates of `CLPool.createPositionMin` / `CLPool.withdrawPosition` -/
theorem opsx_Keeper_sendCoinsBetweenPoolAndUser_pinned : Gen.CLKeeperOps.opsx_Keeper_sendCoinsBetweenPoolAndUser =
    ["IsNegative(v4)", "if", "return(error)", "end", "IsNegative(v5)", "if", "return(error)", "end",
     "sdk.NewCoin(v3,v5)", "sdk.NewCoin(v2,v4)", "sdk.NewCoins(_,_)", "SendCoins(v0.bankKeeper,v1,v6,v7,v8)"] := by decide

/-- B — `Keeper.initializeInitialPositionForPool`: the first-position branch of `CLPool.createPositionMin` (price = amount1 / amount0, `MonotonicSqrt`, `SqrtPriceToTickRoundDownSpacing`) -/
theorem opsx_Keeper_initializeInitialPositionForPool_pinned : Gen.CLKeeperOps.opsx_Keeper_initializeInitialPositionForPool =
    ["osmomath.ZeroInt()", "GT(v3,osmomath.ZeroInt())", "!(_)", "osmomath.ZeroInt()", "GT(v4,osmomath.ZeroInt())",
     "!(_)", "||(_,_)", "if", "return(error)", "end", "ToLegacyDec(v4)", "ToLegacyDec(v3)",
     "Quo(v4.ToLegacyDec(),v3.ToLegacyDec())", "osmomath.MonotonicSqrtMut(v5)", "osmomath.BigDecFromDecMut(v6)",
     "GetTickSpacing(v2)", "math.SqrtPriceToTickRoundDownSpacing(v8,v2.GetTickSpacing())",
     "SetCurrentSqrtPrice(v2,v8)", "SetCurrentTick(v2,v9)", "setPool(v0,v1,v2)"] := by decide

/-- B — `Keeper.uninitializePool`: the last-position reset of `CLPool.withdrawPosition` (`sqrtPrice := 0`, `tick := 0`) -/
theorem opsx_Keeper_uninitializePool_pinned : Gen.CLKeeperOps.opsx_Keeper_uninitializePool =
    ["getPoolById(v0,v1,v2)", "HasAnyPositionForPool(v0,v1,v2)", "if(v5)", "return(error)", "end",
     "osmomath.ZeroBigDec()", "SetCurrentSqrtPrice(v3,osmomath.ZeroBigDec())", "SetCurrentTick(v3,0)",
     "setPool(v0,v1,v3)"] := by decide

/-- B — `Keeper.initOrUpdatePosition`: the position record update of `CLPool.updatePosition` (`newLiq = oldLiq + delta`, negative is an error) and the accumulator updates of `CLFees` / `CLInc` -/
theorem opsx_Keeper_initOrUpdatePosition_pinned : Gen.CLKeeperOps.opsx_Keeper_initOrUpdatePosition =
    ["getOrInitPosition(v0,v1,v8)", "Add(v10,v6)", "=(v10,_)", "IsNegative(v10)", "if", "return(error)", "end",
     "initOrUpdatePositionUptimeAccumulators(v0,v1,v2,v10,v4,v5,v6,v8)",
     "SetPosition(v0,v1,v2,v3,v4,v5,v7,v10,v8,noUnderlyingLockId)"] := by decide

/-- B — `Keeper.transferPositions`: `CLPool.transferPosition` -/
theorem opsx_Keeper_transferPositions_pinned : Gen.CLKeeperOps.opsx_Keeper_transferPositions =
    ["GasMeter(v1)", "len(v2)", "*(types.BaseGasFeeForTransferPosition,_)",
     "ConsumeGas(v1.GasMeter(),_,\"cl transfer position fee\")", "osmoassert.Uint64ArrayValuesAreUnique(v2)", "!(_)",
     "if", "return(error)", "end", "GetModuleAccount(v0.accountKeeper,v1,govtypes.ModuleName)", "GetAddress(_)",
     "Equals(v3,_.GetAddress())", "range(v2)", "GetPosition(v0,v1,v6)", "!(v5)", "String(v3)",
     "!=(v7.Address,v3.String())", "&&(_,_)", "if", "return(error)", "end",
     "positionHasActiveUnderlyingLockAndUpdate(v0,v1,v6)", "if(v9)", "return(error)", "end",
     "sdk.MustAccAddressFromBech32(v7.Address)", "deletePosition(v0,v1,v6,v11,v7.PoolId)",
     "HasAnyPositionForPool(v0,v1,v7.PoolId)", "!(v12)", "if", "return(error)", "end",
     "SetPosition(v0,v1,v7.PoolId,v4,v7.LowerTick,v7.UpperTick,v7.JoinTime,v7.Liquidity,v7.PositionId,0)", "end"] := by decide

/-- B — `Keeper.updateFullRangeLiquidityInPool`: not part of the pool model (superfluid's full-range liquidity counter, C11); pinned -/
theorem opsx_Keeper_updateFullRangeLiquidityInPool_pinned : Gen.CLKeeperOps.opsx_Keeper_updateFullRangeLiquidityInPool =
    ["KVStore(v1,v0.storeKey)", "types.KeyFullRangeLiquidityPrefix(v2)", "=(v6,{})", "osmoutils.Get(v4,v5,&v6)",
     "=(v9,v6.Dec)", "!(v7)", "if", "osmomath.ZeroDec()", "=(v9,osmomath.ZeroDec())", "end", "Add(v9,v3)",
     "osmoutils.MustSetDec(v4,v5,v10)"] := by decide

end OsmoVerif.Props.TieGenCLOps
