/-
Tie T1 for osmoutils/accum (owning property C15), part B extended: the ordered statement list of EVERY function that reads or
writes a position record or the total share counter (tools/extract/gen_expr_k.go: calls in evaluation order with operands, writes,
comparisons, block structure).  Pinned: which handle the total is read from before it is adjusted (the RE-FETCHED accumulator in
New / AddTo / RemoveFrom, the CACHED one with `SubMut` in DeletePosition), `Add` vs `Sub` of the share delta, the exact-key
`store.Delete` of a position, the zero-share test of ClaimRewards and what is written back.
Written by tools/mkpins.py from tools/pins/TieGenAccumOps.json.
-/
import OsmoVerif.Gen.AccumOpsFn

-- `decide` on lists of up to a few hundred strings
set_option maxRecDepth 100000

namespace OsmoVerif.Props.TieGenAccumOps
open OsmoVerif

/-- B — `MakeAccumulator`: `Accum.makeAccumulator` -/
theorem opsx_MakeAccumulator_pinned : Gen.AccumOps.opsx_MakeAccumulator =
    ["formatAccumPrefixKey(v1)", "Has(v0,_)", "if", "return(error)", "end", "sdk.NewDecCoins()",
     "=(v2,sdk.NewDecCoins())", "osmomath.ZeroDec()", "=(v3,osmomath.ZeroDec())", "=(v4,&{v0,v1,v2,v3})",
     "setAccumulator(v4,v2,v3)", "return(_)"] := by decide

/-- B — `GetAccumulator`: `Accum.getAccumulator` (a fresh handle caching the stored value and total) -/
theorem opsx_GetAccumulator_pinned : Gen.AccumOps.opsx_GetAccumulator =
    ["=(v2,{})", "formatAccumPrefixKey(v1)", "osmoutils.Get(v0,_,&v2)", "if", "end", "!(v3)", "if", "end",
     "=(v5,{v0,v1,v2.AccumValue,v2.TotalShares})", "return(&v5,nil)"] := by decide

/-- B — `setAccumulator`: `Accum.setAccumulator` (`strings.Contains(name, KeySeparator)` ⇒ error, no write) -/
theorem opsx_setAccumulator_pinned : Gen.AccumOps.opsx_setAccumulator =
    ["strings.Contains(v0.name,KeySeparator)", "if", "return(error)", "end", "=(v3,{v1,v2})",
     "formatAccumPrefixKey(v0.name)", "osmoutils.MustSet(v0.store,_,&v3)"] := by decide

/-- B — `AccumulatorObject.AddToAccumulator`: `Accum.addToAccumulator` -/
theorem opsx_AccumulatorObject_AddToAccumulator_pinned : Gen.AccumOps.opsx_AccumulatorObject_AddToAccumulator =
    ["Add(v0.valuePerShare,v1...)", "=(v0.valuePerShare,_)", "setAccumulator(v0,v0.valuePerShare,v0.totalShares)"] := by decide

/-- B — `AccumulatorObject.NewPosition`: `Accum.newPosition` (interval value := the cached value) -/
theorem opsx_AccumulatorObject_NewPosition_pinned : Gen.AccumOps.opsx_AccumulatorObject_NewPosition =
    ["NewPositionIntervalAccumulation(v0,v1,v2,v0.valuePerShare,v3)", "return(_)"] := by decide

/-- B — `AccumulatorObject.NewPositionIntervalAccumulation`: `Accum.newPositionInterval` / `Accum.finishShares` (total := RE-FETCHED total `Add` shares) -/
theorem opsx_AccumulatorObject_NewPositionIntervalAccumulation_pinned : Gen.AccumOps.opsx_AccumulatorObject_NewPositionIntervalAccumulation =
    ["validate(v4)", "sdk.NewDecCoins()", "initOrUpdatePosition(v0,v3,v1,v2,sdk.NewDecCoins(),v4)",
     "GetAccumulator(v0.store,v0.name)", "Add(v6.totalShares,v2)", "=(v0.totalShares,_)",
     "setAccumulator(v0,v0.valuePerShare,v0.totalShares)", "return(_)"] := by decide

/-- B — `AccumulatorObject.AddToPosition`: `Accum.addToPosition` -/
theorem opsx_AccumulatorObject_AddToPosition_pinned : Gen.AccumOps.opsx_AccumulatorObject_AddToPosition =
    ["AddToPositionIntervalAccumulation(v0,v1,v2,v0.valuePerShare)", "return(_)"] := by decide

/-- B — `AccumulatorObject.AddToPositionIntervalAccumulation`: `Accum.addToPositionInterval` / `Accum.finishShares` (rewards always recomputed; total := re-fetched total `Add` n) -/
theorem opsx_AccumulatorObject_AddToPositionIntervalAccumulation_pinned : Gen.AccumOps.opsx_AccumulatorObject_AddToPositionIntervalAccumulation =
    ["IsPositive(v2)", "!(v2.IsPositive())", "if", "return(error)", "end", "GetPosition(v0,v1)",
     "GetTotalRewards(v0,v4)", "GetPositionSize(v0,v1)", "Add(v7,v2)",
     "initOrUpdatePosition(v0,v3,v1,_,v6,v4.Options)", "GetAccumulator(v0.store,v0.name)", "Add(v8.totalShares,v2)",
     "=(v0.totalShares,_)", "setAccumulator(v0,v0.valuePerShare,v0.totalShares)", "return(_)"] := by decide

/-- B — `AccumulatorObject.RemoveFromPosition`: `Accum.removeFromPosition` -/
theorem opsx_AccumulatorObject_RemoveFromPosition_pinned : Gen.AccumOps.opsx_AccumulatorObject_RemoveFromPosition =
    ["RemoveFromPositionIntervalAccumulation(v0,v1,v2,v0.valuePerShare)", "return(_)"] := by decide

/-- B — `AccumulatorObject.RemoveFromPositionIntervalAccumulation`: `Accum.removeFromPositionInterval` / `Accum.finishShares` (total := re-fetched total `Sub` n) -/
theorem opsx_AccumulatorObject_RemoveFromPositionIntervalAccumulation_pinned : Gen.AccumOps.opsx_AccumulatorObject_RemoveFromPositionIntervalAccumulation =
    ["IsPositive(v2)", "!(v2.IsPositive())", "if", "return(error)", "end", "GetPosition(v0,v1)",
     "GT(v2,v4.NumShares)", "if", "return(error)", "end", "GetTotalRewards(v0,v4)", "GetPositionSize(v0,v1)",
     "Sub(v7,v2)", "initOrUpdatePosition(v0,v3,v1,_,v6,v4.Options)", "GetAccumulator(v0.store,v0.name)",
     "Sub(v8.totalShares,v2)", "=(v0.totalShares,_)", "setAccumulator(v0,v0.valuePerShare,v0.totalShares)",
     "return(_)"] := by decide

/-- B — `AccumulatorObject.UpdatePosition`: `Accum.updatePosition` -/
theorem opsx_AccumulatorObject_UpdatePosition_pinned : Gen.AccumOps.opsx_AccumulatorObject_UpdatePosition =
    ["UpdatePositionIntervalAccumulation(v0,v1,v2,v0.valuePerShare)", "return(_)"] := by decide

/-- B — `AccumulatorObject.UpdatePositionIntervalAccumulation`: `Accum.updatePositionInterval` (also tied by value: `TieGenAccum.updatePositionInterval_dispatch_eq_gen`) -/
theorem opsx_AccumulatorObject_UpdatePositionIntervalAccumulation_pinned : Gen.AccumOps.opsx_AccumulatorObject_UpdatePositionIntervalAccumulation =
    ["IsZero(v2)", "if", "return(ZeroSharesError)", "end", "IsNegative(v2)", "if", "Neg(v2)",
     "RemoveFromPositionIntervalAccumulation(v0,v1,v2.Neg(),v3)", "return(_)", "end",
     "AddToPositionIntervalAccumulation(v0,v1,v2,v3)", "return(_)"] := by decide

/-- B — `AccumulatorObject.SetPositionIntervalAccumulation`: `Accum.setPositionInterval` -/
theorem opsx_AccumulatorObject_SetPositionIntervalAccumulation_pinned : Gen.AccumOps.opsx_AccumulatorObject_SetPositionIntervalAccumulation =
    ["GetPosition(v0,v1)", "initOrUpdatePosition(v0,v2,v1,v3.NumShares,v3.UnclaimedRewardsTotal,v3.Options)"] := by decide

/-- B — `AccumulatorObject.DeletePosition`: `Accum.deletePosition` (claim, delete the key, CACHED total `SubMut` shares, write) -/
theorem opsx_AccumulatorObject_DeletePosition_pinned : Gen.AccumOps.opsx_AccumulatorObject_DeletePosition =
    ["GetPosition(v0,v1)", "ClaimRewards(v0,v1)", "FormatPositionPrefixKey(v0.name,v1)", "Delete(v0.store,_)",
     "SubMut(v0.totalShares,v2.NumShares)", "setAccumulator(v0,v0.valuePerShare,v0.totalShares)",
     "sdk.NewDecCoinsFromCoins(v4...)", "Add(_,v5...)", "return(_,nil)"] := by decide

/-- B — `AccumulatorObject.deletePosition`: `Store.delPos` (one exact key) -/
theorem opsx_AccumulatorObject_deletePosition_pinned : Gen.AccumOps.opsx_AccumulatorObject_deletePosition =
    ["FormatPositionPrefixKey(v0.name,v1)", "Delete(v0.store,_)"] := by decide

/-- B — `AccumulatorObject.GetPositionSize`: `Accum.getPositionSize` -/
theorem opsx_AccumulatorObject_GetPositionSize_pinned : Gen.AccumOps.opsx_AccumulatorObject_GetPositionSize =
    ["GetPosition(v0,v1)", "return(v2.NumShares,nil)"] := by decide

/-- B — `AccumulatorObject.HasPosition`: `Accum.hasPosition` -/
theorem opsx_AccumulatorObject_HasPosition_pinned : Gen.AccumOps.opsx_AccumulatorObject_HasPosition =
    ["FormatPositionPrefixKey(v0.name,v1)", "Has(v0.store,_)", "return(v2)"] := by decide

/-- B — `AccumulatorObject.ClaimRewards`: `Accum.claimRewards` (zero shares ⇒ record removed, else reset in BOTH remaining cases) -/
theorem opsx_AccumulatorObject_ClaimRewards_pinned : Gen.AccumOps.opsx_AccumulatorObject_ClaimRewards =
    ["GetPosition(v0,v1)", "GetTotalRewards(v0,v2)", "TruncateDecimal(v4)", "IsZero(v2.NumShares)", "if",
     "deletePosition(v0,v1)", "else", "sdk.NewDecCoins()",
     "initOrUpdatePosition(v0,v0.valuePerShare,v1,v2.NumShares,sdk.NewDecCoins(),v2.Options)", "end",
     "return(v5,v6,nil)"] := by decide

/-- B — `AccumulatorObject.AddToUnclaimedRewards`: `Accum.addToUnclaimedRewards` -/
theorem opsx_AccumulatorObject_AddToUnclaimedRewards_pinned : Gen.AccumOps.opsx_AccumulatorObject_AddToUnclaimedRewards =
    ["GetPosition(v0,v1)", "IsAnyNegative(v2)", "if", "return(error)", "end", "Add(v3.UnclaimedRewardsTotal,v2...)",
     "initOrUpdatePosition(v0,v3.AccumValuePerShare,v1,v3.NumShares,_,v3.Options)"] := by decide

/-- B — `initOrUpdatePosition`: `Store.setPos` (shares, snapshot, unclaimed, options) -/
theorem opsx_initOrUpdatePosition_pinned : Gen.AccumOps.opsx_initOrUpdatePosition =
    ["=(v6,{NumShares:v3,AccumValuePerShare:v1,UnclaimedRewardsTotal:v4,Options:v5})",
     "FormatPositionPrefixKey(v0.name,v2)", "osmoutils.MustSet(v0.store,_,&v6)"] := by decide

/-- B — `GetPosition`: `Store.getPos` -/
theorem opsx_GetPosition_pinned : Gen.AccumOps.opsx_GetPosition =
    ["=(v2,{})", "FormatPositionPrefixKey(v0.name,v1)", "osmoutils.Get(v0.store,_,&v2)", "!(v3)", "if", "end",
     "return(v2,nil)"] := by decide

/-- B — `GetTotalRewards`: `Accum.getTotalRewards` (also tied by value: `TieGenAccum.getTotalRewards_model_eq_gen`) -/
theorem opsx_GetTotalRewards_pinned : Gen.AccumOps.opsx_GetTotalRewards =
    ["=(v2,v1.UnclaimedRewardsTotal)", "Sub(v0.valuePerShare,v1.AccumValuePerShare)", "MulDec(_,v1.NumShares)",
     "Add(v2,v3...)", "=(v2,_)", "return(v2)"] := by decide

end OsmoVerif.Props.TieGenAccumOps
