/-
C18 — minting follows the emission schedule and every minted coin is allocated.
Theorems over `OsmoVerif.Mint` (tied to x/mint's keeper by the `mint` engine through the real app).
-/
import OsmoVerif.Model.Mint
import OsmoVerif.Proofs.NumLemmas

namespace OsmoVerif.Props.C18
open OsmoVerif.Mint OsmoVerif.Num OsmoVerif.Spec

/-! ## helper facts about `getProportions` (kept here because they are part of the claim) -/

theorem chopRound_mul_exact (k : Int) : chopRound P18 (k * P18) = k :=
  (chopRound_isHalfEven P18 (k * P18) P18_pos P18_even).exact P18_pos

/-- each share is the proportion of the amount, truncated toward zero (and not negative: `sdk.NewCoin`).
Proved by unfolding the REGENERATED `Gen.Mint.getProportions`. -/
theorem getProportions_truncated {a r x : Int} (h : getProportions a r = some x) :
    r ≤ P18 ∧ IsTrunc (a * r) P18 x := by
  unfold getProportions Gen.Mint.getProportions at h
  split at h
  · cases h
  · rename_i hr
    cases hm : Dec.mul (SInt.toDec a) r with
    | none => rw [hm] at h; cases h
    | some m =>
      rw [hm] at h
      simp only [Option.bind_some] at h
      have hmv : m = a * r := by
        unfold Dec.mul chkDec SInt.toDec at hm
        split at hm
        · injection hm with hm
          rw [← hm]
          have : a * P18 * r = (a * r) * P18 := by
            rw [Int.mul_assoc, Int.mul_comm P18 r, Int.mul_assoc]
          rw [this]; exact chopRound_mul_exact _
        · cases hm
      subst hmv
      cases ht : Dec.truncateInt (a * r) with
      | none => rw [ht] at h; cases h
      | some q =>
        rw [ht] at h
        simp only [Option.bind_some] at h
        unfold newCoin at h
        split at h
        · cases h
        · injection h with h; subst h
          unfold Dec.truncateInt chkInt at ht
          split at ht
          · injection ht with ht; subst ht
            exact ⟨by omega, tdiv_isTrunc _ _ P18_pos⟩
          · cases ht

/-- the minted amount is the integer part of the provision and is not negative (`TruncateInt`, `sdk.NewCoin`).
Proved by unfolding the REGENERATED `Gen.Mint.EpochProvision`. -/
theorem epochProvision_spec {prov m : Int} (h : Gen.Mint.EpochProvision prov = some m) :
    IsTrunc prov P18 m ∧ 0 ≤ m := by
  unfold Gen.Mint.EpochProvision at h
  cases ht : Dec.truncateInt prov with
  | none => rw [ht] at h; cases h
  | some q =>
    rw [ht] at h
    simp only [Option.bind_some] at h
    unfold newCoin at h
    split at h
    · cases h
    · injection h with h; subst h
      unfold Dec.truncateInt chkInt at ht
      split at ht
      · injection ht with ht; subst ht
        exact ⟨tdiv_isTrunc _ _ P18_pos, by omega⟩
      · cases ht

/-- the reduction is the 18-decimal half-even product (the REGENERATED `Gen.Mint.NextEpochProvisions`). -/
theorem nextEpochProvisions_eq (prov factor : Int) :
    Gen.Mint.NextEpochProvisions prov factor = Dec.mul prov factor := rfl

/-! ## allocation -/

/-- Every minted coin is allocated: the four parts sum to the minted amount, the mint account ends
empty, each part is the truncated proportion, the community pool takes the rounding remainder, and
exactly the integer part of the (possibly just reduced) provision is minted. -/
theorem allocation {p : Params} {s s' : State} {e : Int} {o : Obs}
    (h : afterEpochEnd p s e = some (s', some o)) :
    o.staking + o.pool + o.dev + o.communityRemainder = o.minted ∧
    o.mintAccountAfter = 0 ∧
    0 ≤ o.communityRemainder ∧ 0 ≤ o.minted ∧
    IsTrunc s'.provisions P18 o.minted ∧
    IsTrunc (o.minted * p.staking) P18 o.staking ∧
    IsTrunc (o.minted * p.poolIncentives) P18 o.pool ∧
    IsTrunc (o.minted * p.developer) P18 o.dev := by
  unfold afterEpochEnd at h
  split at h
  · cases h
  · simp only at h
    split at h
    · cases h
    · rename_i prov hprov
      split at h
      · cases h
      · rename_i minted hmint
        obtain ⟨hm, hnonneg⟩ := epochProvision_spec hmint
        split at h
        · rename_i st pl dv hst hpl hdv
          split at h
          · cases h
          · split at h
            · cases h
            · rename_i paid hpaid
              split at h
              · cases h
              · split at h
                · cases h
                · rename_i hcomm
                  injection h with h
                  injection h with h1 h2
                  injection h2 with h2
                  subst h1; subst h2
                  exact ⟨by simp only; omega, by simp only; omega, by simp only; omega, by simp only; omega, hm,
                    (getProportions_truncated hst).2, (getProportions_truncated hpl).2, (getProportions_truncated hdv).2⟩
        · cases h

/-- Reported supply: grows by the minted amount minus the part of the (burned) developer reward
that was not paid out of the vesting account.  It is exactly the minted amount iff the per-receiver
truncated portions add up to the developer reward. -/
theorem reported_supply_delta {p : Params} {s s' : State} {e : Int} {o : Obs}
    (h : afterEpochEnd p s e = some (s', some o)) :
    o.supplyDelta = o.minted - (o.dev - (s.devVesting - s'.devVesting)) ∧
    (o.supplyDelta = o.minted ↔ s.devVesting - s'.devVesting = o.dev) := by
  unfold afterEpochEnd at h
  split at h
  · cases h
  · simp only at h
    split at h
    · cases h
    · split at h
      · cases h
      · split at h
        · split at h
          · cases h
          · split at h
            · cases h
            · split at h
              · cases h
              · split at h
                · cases h
                · injection h with h
                  injection h with h1 h2
                  injection h2 with h2
                  subst h1; subst h2
                  simp only
                  constructor <;> omega
        · cases h

/-- without weighted receivers the whole developer reward goes to the community pool, so the
reported supply grows by exactly the minted amount. -/
theorem supply_exact_without_receivers {p : Params} {s s' : State} {e : Int} {o : Obs}
    (hr : p.receivers = []) (h : afterEpochEnd p s e = some (s', some o)) : o.supplyDelta = o.minted := by
  unfold afterEpochEnd at h
  rw [hr] at h
  split at h
  · cases h
  · simp only [List.isEmpty_nil, if_true] at h
    split at h
    · cases h
    · split at h
      · cases h
      · split at h
        · split at h
          · cases h
          · split at h
            · cases h
            · split at h
              · cases h
              · injection h with h
                injection h with h1 h2
                injection h2 with h2
                subst h2
                simp only [listSum]; omega
        · cases h

/-- F7 witness (recorded finding): receiver weights ⅓,⅓,rest and a minted amount they do not divide:
the reported supply grows by one unit less than what was minted. -/
theorem reported_supply_short_witness :
    (afterEpochEnd ⟨0, 10, P18, 0, 0, P18, 0,
      [⟨333333333333333333, false⟩, ⟨333333333333333333, false⟩, ⟨333333333333333334, false⟩]⟩
      ⟨1000003 * P18, 0, 10 ^ 12⟩ 0).map (fun r => r.2.map fun o => (o.minted, o.supplyDelta))
    = some (some (1000003, 1000002)) := by decide +kernel

/-! ## schedule -/

/-- nothing happens before the configured start epoch. -/
theorem no_mint_before_start {p : Params} {s : State} {e : Int} (h : e < p.startEpoch) :
    afterEpochEnd p s e = some (s, none) := by
  unfold afterEpochEnd; rw [if_pos h]

/-- one epoch: the provision is multiplied by the reduction factor iff the epoch number has reached
`reductionPeriod + last reduction epoch` (the start epoch counting as a reduction epoch), and the
last-reduction marker moves exactly then. -/
theorem reduction_step {p : Params} {s s' : State} {e : Int} {o : Option Obs}
    (hs : p.startEpoch ≤ e) (h : afterEpochEnd p s e = some (s', o)) :
    let last0 := if e = p.startEpoch then e else s.lastReduction
    (e ≥ p.reductionPeriod + last0 → Dec.mul s.provisions p.reductionFactor = some s'.provisions ∧ s'.lastReduction = e) ∧
    (e < p.reductionPeriod + last0 → s'.provisions = s.provisions ∧ s'.lastReduction = last0) := by
  unfold afterEpochEnd at h
  rw [if_neg (by omega)] at h
  simp only at h
  split at h
  · cases h
  · rename_i prov hprov
    split at h
    · cases h
    · split at h
      · split at h
        · cases h
        · split at h
          · cases h
          · split at h
            · cases h
            · split at h
              · cases h
              · injection h with h
                injection h with h1 h2
                subst h1
                simp only
                constructor
                · intro hge
                  rw [if_pos (by simpa using hge), nextEpochProvisions_eq] at hprov
                  exact ⟨hprov, by rw [if_pos (by simpa using hge)]⟩
                · intro hlt
                  rw [if_neg (by simpa using hlt)] at hprov
                  injection hprov with hprov
                  exact ⟨hprov.symm, by rw [if_neg (by simpa using hlt)]⟩
      · cases h

/-- run consecutive epochs `e, e+1, …` (n of them); `none` if any of them errors. -/
def runEpochs (p : Params) : Nat → Int → State → Option State
  | 0, _, s => some s
  | n + 1, e, s => (afterEpochEnd p s e).bind fun r => runEpochs p n (e + 1) r.1

/-- `k` successive reductions of a provision. -/
def reduceTimes (p : Params) : Nat → Int → Option Int
  | 0, x => some x
  | k + 1, x => (reduceTimes p k x).bind fun y => Dec.mul y p.reductionFactor

theorem runEpochs_succ (p : Params) (n : Nat) (e : Int) (s : State) :
    runEpochs p (n + 1) e s = (afterEpochEnd p s e).bind fun r => runEpochs p n (e + 1) r.1 := rfl

theorem runEpochs_snoc (p : Params) : ∀ (m : Nat) (e : Int) (s : State), runEpochs p (m + 1) e s =
    (runEpochs p m e s).bind fun r => (afterEpochEnd p r (e + m)).map (·.1) := by
  intro m
  induction m with
  | zero =>
    intro e s
    rw [runEpochs_succ]
    show _ = (some s).bind _
    simp only [Option.bind_some, Int.natCast_zero, Int.add_zero]
    cases afterEpochEnd p s e <;> rfl
  | succ m ihm =>
    intro e s
    rw [runEpochs_succ p (m + 1), runEpochs_succ p m]
    cases hr : afterEpochEnd p s e with
    | none => rfl
    | some r =>
      simp only [Option.bind_some]
      rw [ihm (e + 1) r.1]
      have : e + 1 + (m : Int) = e + ((m + 1 : Nat) : Int) := by push_cast; omega
      rw [this]

/-- **Exactly once every reduction period and at no other time**: starting at the start epoch, after
`n ≥ 1` consecutive successful epochs the last-reduction marker sits on the grid
`start + period·⌊(n−1)/period⌋` and the provision has been reduced exactly `⌊(n−1)/period⌋` times. -/
theorem reduction_exactly_once_per_period {p : Params} (hp : 0 < p.reductionPeriod) :
    ∀ (n : Nat) (s s' : State), runEpochs p (n + 1) p.startEpoch s = some s' →
      s'.lastReduction = p.startEpoch + p.reductionPeriod * ((n : Int) / p.reductionPeriod) ∧
      reduceTimes p ((n : Int) / p.reductionPeriod).toNat s.provisions = some s'.provisions := by
  intro n
  induction n with
  | zero =>
    intro s s' h
    unfold runEpochs at h
    cases hr : afterEpochEnd p s p.startEpoch with
    | none => rw [hr] at h; cases h
    | some r =>
      rw [hr] at h
      simp only [Option.bind_eq_bind, Option.bind_some, runEpochs] at h
      injection h with h
      obtain ⟨_, h2⟩ := reduction_step (p := p) (s := s) (s' := r.1) (o := r.2) (e := p.startEpoch) (Int.le_refl _) (by rw [hr])
      simp only [if_true] at h2
      have := h2 (by omega)
      subst h
      simp only [Int.natCast_zero, Int.zero_ediv, Int.mul_zero, Int.add_zero, Int.toNat_zero, reduceTimes]
      exact ⟨this.2, by rw [this.1]⟩
  | succ n ih =>
    intro s s' h
    rw [runEpochs_snoc p (n + 1)] at h
    cases hm : runEpochs p (n + 1) p.startEpoch s with
    | none => rw [hm] at h; cases h
    | some mid =>
      rw [hm] at h
      simp only [Option.bind_eq_bind, Option.bind_some] at h
      obtain ⟨il, ip⟩ := ih s mid hm
      cases hr : afterEpochEnd p mid (p.startEpoch + ((n + 1 : Nat) : Int)) with
      | none => rw [hr] at h; cases h
      | some r =>
        rw [hr] at h
        simp only [Option.map_some] at h
        injection h with h
        have hstep := reduction_step (p := p) (s := mid) (s' := r.1) (o := r.2) (e := p.startEpoch + ((n + 1 : Nat) : Int)) (by omega) (by rw [hr])
        rw [if_neg (by push_cast; omega)] at hstep
        simp only at hstep
        subst h
        -- arithmetic on the grid
        have hq := Int.mul_ediv_add_emod (n : Int) p.reductionPeriod
        have hq' := Int.mul_ediv_add_emod ((n + 1 : Nat) : Int) p.reductionPeriod
        have hm1 := Int.emod_nonneg (n : Int) (by omega : p.reductionPeriod ≠ 0)
        have hm2 := Int.emod_lt_of_pos (n : Int) hp
        have hm1' := Int.emod_nonneg ((n + 1 : Nat) : Int) (by omega : p.reductionPeriod ≠ 0)
        have hm2' := Int.emod_lt_of_pos ((n + 1 : Nat) : Int) hp
        have hqn : (0 : Int) ≤ (n : Int) / p.reductionPeriod := Int.ediv_nonneg (by omega) (by omega)
        generalize hQ : (n : Int) / p.reductionPeriod = Q at *
        generalize hR : (n : Int) % p.reductionPeriod = R at *
        generalize hQ' : ((n + 1 : Nat) : Int) / p.reductionPeriod = Q' at *
        generalize hR' : ((n + 1 : Nat) : Int) % p.reductionPeriod = R' at *
        have hn1 : ((n + 1 : Nat) : Int) = (n : Int) + 1 := by push_cast; rfl
        by_cases hwrap : R + 1 = p.reductionPeriod
        · -- the new epoch lands on the grid: reduction happens
          have hQ1 : Q' = Q + 1 ∧ R' = 0 := by
            have key : p.reductionPeriod * (Q' - (Q + 1)) = -R' := by
              rw [Int.mul_sub, Int.mul_add]; omega
            have : Q' - (Q + 1) = 0 := by
              rcases Int.lt_trichotomy (Q' - (Q + 1)) 0 with hlt | heq | hgt
              · have : p.reductionPeriod * (Q' - (Q + 1)) ≤ p.reductionPeriod * (-1) :=
                  Int.mul_le_mul_of_nonneg_left (by omega) (by omega)
                omega
              · exact heq
              · have : p.reductionPeriod * 1 ≤ p.reductionPeriod * (Q' - (Q + 1)) :=
                  Int.mul_le_mul_of_nonneg_left (by omega) (by omega)
                omega
            constructor
            · omega
            · rw [this] at key; omega
          have hge : p.startEpoch + ((n + 1 : Nat) : Int) ≥ p.reductionPeriod + mid.lastReduction := by
            rw [il, hn1]; omega
          obtain ⟨hmul, hlast⟩ := hstep.1 hge
          refine ⟨?_, ?_⟩
          · rw [hlast, hQ1.1, Int.mul_add, hn1]; omega
          · rw [hQ1.1]
            have : (Q + 1).toNat = Q.toNat + 1 := by omega
            rw [this]
            show (reduceTimes p Q.toNat s.provisions).bind _ = _
            rw [ip]; exact hmul
        · have hQ1 : Q' = Q := by
            have key : p.reductionPeriod * (Q' - Q) = R + 1 - R' := by
              rw [Int.mul_sub]; omega
            have : Q' - Q = 0 := by
              rcases Int.lt_trichotomy (Q' - Q) 0 with hlt | heq | hgt
              · have : p.reductionPeriod * (Q' - Q) ≤ p.reductionPeriod * (-1) :=
                  Int.mul_le_mul_of_nonneg_left (by omega) (by omega)
                omega
              · exact heq
              · have : p.reductionPeriod * 1 ≤ p.reductionPeriod * (Q' - Q) :=
                  Int.mul_le_mul_of_nonneg_left (by omega) (by omega)
                omega
            omega
          have hlt : p.startEpoch + ((n + 1 : Nat) : Int) < p.reductionPeriod + mid.lastReduction := by
            rw [il, hn1]; omega
          obtain ⟨hprov, hlast⟩ := hstep.2 hlt
          refine ⟨?_, ?_⟩
          · rw [hlast, il, hQ1]
          · rw [hQ1, hprov]; exact ip

/-! ## non-vacuity -/
example : (afterEpochEnd ⟨2, 3, P18 / 2, P18 / 4, P18 / 4, P18 / 4, P18 / 4, []⟩ ⟨1000 * P18 + 5, 0, 10 ^ 9⟩ 2).map
    (fun r => r.2.map fun o => (o.minted, o.staking, o.communityRemainder, o.supplyDelta)) = some (some (1000, 250, 250, 1000)) := by
  decide +kernel
example : (runEpochs ⟨0, 2, P18 / 2, 0, 0, 0, P18, []⟩ 5 0 ⟨1000 * P18, 0, 0⟩).map (fun s => (s.provisions, s.lastReduction))
    = some (250 * P18, 4) := by decide +kernel

end OsmoVerif.Props.C18
