/-
C03 — concentrated swaps follow the curve, round in the pool's favour, and match their quotes.

Model: `OsmoVerif.CL` (Model/CL.lean), bit-exact with x/concentrated-liquidity/{math,swapstrategy,swaps.go};
the osmomath method used at every rounding-critical position is read from the regenerated operator lists
`Gen.CL.ops_*` (§1 below re-derives the explicit forms from them by `rfl`: a changed operator in the Go
source breaks these and everything that depends on them).

Units: sqrt prices `a b p q sp target` are raw 36-decimal, liquidity raw 18-decimal, amount deltas raw
36-decimal, step amounts raw 18-decimal, swap results whole tokens.  `|p − q|` is `((p - q).natAbs : Int)`.
The exact constant-liquidity curve between sqrt prices `p`, `q` with liquidity `L` prescribes
token0 `L·|p − q|/(p·q)` and token1 `L·|p − q|`; all comparisons are cross-multiplied (no division):
  `CL.Ge0 liq p q amt` : `|p−q|·liq·10^36 ≤ amt·(p·q)`   (18-decimal `amt` ≥ exact token0 amount)
  `CL.Le0 liq p q amt` : `amt·(p·q) ≤ |p−q|·liq·10^36`
  `CL.Ge1 liq p q amt` : `|p−q|·liq ≤ amt·10^36`         (18-decimal `amt` ≥ exact token1 amount)
  `CL.Le1 liq p q amt` : `amt·10^36 ≤ |p−q|·liq`
  `CL.InGe zfo …` = `Ge0` for zero-for-one (token0 in) else `Ge1`;  `CL.OutLe zfo …` = `Le1` for zero-for-one else `Le0`.
-/
import OsmoVerif.Proofs.CLRoundQ

namespace OsmoVerif.Props.C03
open OsmoVerif.Num OsmoVerif.Spec OsmoVerif.Gen OsmoVerif.CL

/-! ## 1. what the code computes (tie T1: explicit forms from the regenerated operator lists) -/

theorem calcAmount0Delta_roundUp_eq {liq a b : Int} (hab : a ≤ b) :
    calcAmount0Delta liq a b true =
      (BigDec.sub b a).bind fun d => (BigDec.mulRoundUpDec d liq).bind fun x =>
        (BigDec.quoRoundUpMut x b).bind fun y => BigDec.quoRoundUpNextIntMut y a := by
  unfold calcAmount0Delta; rw [if_neg (by omega)]; rfl

theorem calcAmount0Delta_roundDown_eq {liq a b : Int} (hab : a ≤ b) :
    calcAmount0Delta liq a b false =
      (BigDec.sub b a).bind fun d => (BigDec.mulTruncateDec d liq).bind fun x =>
        (BigDec.quoTruncate x b).bind fun y => BigDec.quoTruncate y a := by
  unfold calcAmount0Delta; rw [if_neg (by omega)]; rfl

/-- the function sorts its price arguments. -/
theorem calcAmount0Delta_symm (liq a b : Int) (roundUp : Bool) :
    calcAmount0Delta liq a b roundUp = calcAmount0Delta liq b a roundUp := CL.calcAmount0Delta_comm liq a b roundUp

theorem calcAmount1Delta_roundUp_eq (liq a b : Int) :
    calcAmount1Delta liq a b true =
      (BigDec.sub b a).bind fun d => (BigDec.mulRoundUpDec (d.natAbs : Int) liq).bind BigDec.ceil := rfl

theorem calcAmount1Delta_roundDown_eq (liq a b : Int) :
    calcAmount1Delta liq a b false =
      (BigDec.sub b a).bind fun d => BigDec.mulTruncateDec (d.natAbs : Int) liq := rfl

/-- the function takes `|b − a|`. -/
theorem calcAmount1Delta_symm (liq a b : Int) (roundUp : Bool) :
    calcAmount1Delta liq a b roundUp = calcAmount1Delta liq b a roundUp := CL.calcAmount1Delta_comm liq a b roundUp

theorem nextSqrtPriceAmount0In_eq (sp liq amt : Int) :
    nextSqrtPriceAmount0In sp liq amt =
      if amt = 0 then some sp else
        (BigDec.mulTruncate amt sp).bind fun product => (BigDec.add product liq).bind fun denom =>
          (BigDec.mulRoundUp liq sp).bind fun num => BigDec.quoRoundUpMut num denom := rfl

theorem nextSqrtPriceAmount0Out_eq (sp liq amtDec : Int) :
    nextSqrtPriceAmount0Out sp liq amtDec =
      if amtDec = 0 then some sp else
        (BigDec.mulRoundUpDec sp amtDec).bind fun product => (BigDec.sub liq product).bind fun denom =>
          (BigDec.mulRoundUp liq sp).bind fun num => BigDec.quoRoundUpMut num denom := rfl

theorem nextSqrtPriceAmount1In_eq (sp liqDec amt : Int) :
    nextSqrtPriceAmount1In sp liqDec amt = (BigDec.quoTruncateDec amt liqDec).bind fun q => BigDec.add q sp := rfl

theorem nextSqrtPriceAmount1Out_eq (sp liqDec amt : Int) :
    nextSqrtPriceAmount1Out sp liqDec amt = (BigDec.quoByDecRoundUp amt liqDec).bind fun q => BigDec.sub sp q := rfl

/-- the operator lists themselves, as extracted now (a change here is a change of the Go source). -/
theorem operator_lists :
    CL.ops_CalcAmount0Delta = ["GT", "Sub", "MulRoundUpDec", "QuoRoundUpMut", "QuoRoundUpNextIntMut",
      "MulTruncateDec", "QuoTruncateMut", "QuoTruncateMut"] ∧
    CL.ops_CalcAmount1Delta = ["Sub", "AbsMut", "MulRoundUpDec", "CeilMut", "MulTruncateDec"] ∧
    CL.ops_GetNextSqrtPriceFromAmount0InRoundingUp = ["IsZero", "MulTruncate", "AddMut", "MulRoundUp", "QuoRoundUpMut"] ∧
    CL.ops_GetNextSqrtPriceFromAmount0OutRoundingUp = ["IsZero", "MulRoundUpDec", "Sub", "MulRoundUp", "QuoRoundUpMut"] ∧
    CL.ops_GetNextSqrtPriceFromAmount1InRoundingDown = ["QuoTruncateDec", "AddMut"] ∧
    CL.ops_GetNextSqrtPriceFromAmount1OutRoundingDown = ["QuoByDecRoundUp", "Sub"] := by decide

/-! ## 2. amount deltas round in the pool's favour (`0 < a ≤ b`, `0 ≤ liq`) -/

/-- token0 rounded up: a whole number `k` of tokens with `k ≥ L(b − a)/(a·b)`. -/
theorem amount0_roundUp_ge_exact {liq a b r : Int} (ha : 0 < a) (hab : a ≤ b) (hl : 0 ≤ liq)
    (h : calcAmount0Delta liq a b true = some r) :
    ∃ k, r = k * P36 ∧ 0 ≤ k ∧ (b - a) * liq * 10 ^ 36 ≤ k * a * b * 10 ^ 18 := by
  have := amount0_roundUp_sorted ha hab hl h
  rwa [P36_eq, P18_eq] at this

/-- same with the arguments in the other order. -/
theorem amount0_roundUp_ge_exact_swapped {liq a b r : Int} (ha : 0 < a) (hab : a ≤ b) (hl : 0 ≤ liq)
    (h : calcAmount0Delta liq b a true = some r) :
    ∃ k, r = k * P36 ∧ 0 ≤ k ∧ (b - a) * liq * 10 ^ 36 ≤ k * a * b * 10 ^ 18 := by
  rw [calcAmount0Delta_symm] at h; exact amount0_roundUp_ge_exact ha hab hl h

/-- token0 rounded down: `r/10^36 ≤ L(b − a)/(a·b)`. -/
theorem amount0_roundDown_le_exact {liq a b r : Int} (ha : 0 < a) (hab : a ≤ b) (hl : 0 ≤ liq)
    (h : calcAmount0Delta liq a b false = some r) :
    r * a * b * 10 ^ 18 ≤ (b - a) * liq * 10 ^ 72 ∧ 0 ≤ r := by
  have := amount0_roundDown_sorted ha hab hl h
  rwa [P36_eq, P18_eq] at this

theorem amount0_roundDown_le_exact_swapped {liq a b r : Int} (ha : 0 < a) (hab : a ≤ b) (hl : 0 ≤ liq)
    (h : calcAmount0Delta liq b a false = some r) :
    r * a * b * 10 ^ 18 ≤ (b - a) * liq * 10 ^ 72 ∧ 0 ≤ r := by
  rw [calcAmount0Delta_symm] at h; exact amount0_roundDown_le_exact ha hab hl h

/-- token1 rounded up: a whole number `k` of tokens with `k ≥ L(b − a)`. -/
theorem amount1_roundUp_ge_exact {liq a b r : Int} (hab : a ≤ b) (hl : 0 ≤ liq)
    (h : calcAmount1Delta liq a b true = some r) :
    ∃ k, r = k * P36 ∧ 0 ≤ k ∧ (b - a) * liq ≤ k * 10 ^ 36 * 10 ^ 18 := by
  have := amount1_roundUp_abs hl h
  rwa [P36_eq, P18_eq, show ((b - a).natAbs : Int) = b - a by omega] at this

theorem amount1_roundUp_ge_exact_swapped {liq a b r : Int} (hab : a ≤ b) (hl : 0 ≤ liq)
    (h : calcAmount1Delta liq b a true = some r) :
    ∃ k, r = k * P36 ∧ 0 ≤ k ∧ (b - a) * liq ≤ k * 10 ^ 36 * 10 ^ 18 := by
  rw [calcAmount1Delta_symm] at h; exact amount1_roundUp_ge_exact hab hl h

/-- token1 rounded down: `r/10^36 ≤ L(b − a)`. -/
theorem amount1_roundDown_le_exact {liq a b r : Int} (hab : a ≤ b) (hl : 0 ≤ liq)
    (h : calcAmount1Delta liq a b false = some r) :
    r * 10 ^ 18 ≤ (b - a) * liq ∧ 0 ≤ r := by
  have := amount1_roundDown_abs hl h
  rwa [P18_eq, show ((b - a).natAbs : Int) = b - a by omega] at this

theorem amount1_roundDown_le_exact_swapped {liq a b r : Int} (hab : a ≤ b) (hl : 0 ≤ liq)
    (h : calcAmount1Delta liq b a false = some r) :
    r * 10 ^ 18 ≤ (b - a) * liq ∧ 0 ≤ r := by
  rw [calcAmount1Delta_symm] at h; exact amount1_roundDown_le_exact hab hl h

/-! ## 3. the within-bucket step -/

/-- out-given-in, both strategies, both branches (target reached or not): the returned amount in is the
`DecRoundUp` (ceiling at 18 decimals) of the ROUND-UP delta of the in-token between the current and the
NEXT sqrt price, the returned amount out is the `Dec` (truncation) of the ROUND-DOWN delta of the
out-token between the same two prices. -/
theorem stepOutGivenIn_amounts {zfo : Bool} {spf sp target liq remaining : Int} {r : StepResult}
    (h : stepOutGivenIn zfo spf sp target liq remaining = some r) :
    ∃ x y,
      (if zfo then calcAmount0Delta liq r.sqrtPriceNext sp true
        else calcAmount1Delta liq r.sqrtPriceNext sp true) = some x ∧
      (if zfo then calcAmount1Delta liq r.sqrtPriceNext sp false
        else calcAmount0Delta liq r.sqrtPriceNext sp false) = some y ∧
      IsCeil x Pdiff r.amountSpecified ∧ IsTrunc y Pdiff r.amountOther := by
  obtain ⟨x, y, _, _, hx, hy, cS, cO, -⟩ := stepOutGivenIn_decomp h
  exact ⟨x, y, hx, hy, cS, cO⟩

/-- where the step stops: at the target iff the amount remaining after the spread factor covers the
(rounded-up) amount in needed to reach it, otherwise at the price computed from that amount. -/
theorem stepOutGivenIn_next {zfo : Bool} {spf sp target liq remaining : Int} {r : StepResult}
    (h : stepOutGivenIn zfo spf sp target liq remaining = some r) :
    ∃ amtIn0,
      (if zfo then calcAmount0Delta liq target sp true else calcAmount1Delta liq target sp true) = some amtIn0 ∧
      (if remaining * (P18 - spf) ≥ amtIn0 then some target
        else if zfo then nextSqrtPriceAmount0In sp (liq * Pdiff) (remaining * (P18 - spf))
        else nextSqrtPriceAmount1In sp liq (remaining * (P18 - spf))) = some r.sqrtPriceNext := by
  obtain ⟨_, _, amtIn0, oneMinus, -, -, -, -, -, h0, rfl, hn⟩ := stepOutGivenIn_decomp h
  exact ⟨amtIn0, h0, hn⟩

/-- amount charged ≥ exact curve amount (and a whole number of tokens); the next price stays positive. -/
theorem stepOutGivenIn_in_ge_curve {zfo : Bool} {spf sp target liq remaining : Int} {r : StepResult}
    (hl : 0 ≤ liq) (hsp : 0 < sp) (ht : 0 < target) (hs0 : 0 ≤ spf) (hs1 : spf < P18) (hrem : 0 ≤ remaining)
    (h : stepOutGivenIn zfo spf sp target liq remaining = some r) :
    0 < r.sqrtPriceNext ∧ (∃ k, 0 ≤ k ∧ r.amountSpecified = k * P18) ∧
    (if zfo then ((r.sqrtPriceNext - sp).natAbs : Int) * liq * 10 ^ 36 ≤ r.amountSpecified * (r.sqrtPriceNext * sp)
      else ((r.sqrtPriceNext - sp).natAbs : Int) * liq ≤ r.amountSpecified * 10 ^ 36) := by
  obtain ⟨a, b, c, -⟩ := stepOutGivenIn_curve hl hsp ht hs0 hs1 hrem h
  exact ⟨a, c, b⟩

/-- amount paid out ≤ exact curve amount. -/
theorem stepOutGivenIn_out_le_curve {zfo : Bool} {spf sp target liq remaining : Int} {r : StepResult}
    (hl : 0 ≤ liq) (hsp : 0 < sp) (ht : 0 < target) (hs0 : 0 ≤ spf) (hs1 : spf < P18) (hrem : 0 ≤ remaining)
    (h : stepOutGivenIn zfo spf sp target liq remaining = some r) :
    0 ≤ r.amountOther ∧
    (if zfo then r.amountOther * 10 ^ 36 ≤ ((r.sqrtPriceNext - sp).natAbs : Int) * liq
      else r.amountOther * (r.sqrtPriceNext * sp) ≤ ((r.sqrtPriceNext - sp).natAbs : Int) * liq * 10 ^ 36) := by
  obtain ⟨-, -, -, d, e, -⟩ := stepOutGivenIn_curve hl hsp ht hs0 hs1 hrem h
  exact ⟨e, d⟩

/-- in-given-out: `amountSpecified` is the amount OUT — the truncation of the round-down delta of the
out-token between the current and the next price, capped by the remaining request — and `amountOther`
the amount IN, the ceiling of the round-up delta of the in-token between the same prices. -/
theorem stepInGivenOut_amounts {zfo : Bool} {spf sp target liq remainingOut : Int} {r : StepResult}
    (h : stepInGivenOut zfo spf sp target liq remainingOut = some r) :
    ∃ x y,
      (if zfo then calcAmount0Delta liq r.sqrtPriceNext sp true
        else calcAmount1Delta liq r.sqrtPriceNext sp true) = some x ∧
      (if zfo then calcAmount1Delta liq r.sqrtPriceNext sp false
        else calcAmount0Delta liq r.sqrtPriceNext sp false) = some y ∧
      IsCeil x Pdiff r.amountOther ∧
      IsTrunc (if y > remainingOut * Pdiff then remainingOut * Pdiff else y) Pdiff r.amountSpecified := by
  obtain ⟨x, y, _, hx, hy, cS, cO, -⟩ := stepInGivenOut_decomp h
  exact ⟨x, y, hx, hy, cS, cO⟩

theorem stepInGivenOut_next {zfo : Bool} {spf sp target liq remainingOut : Int} {r : StepResult}
    (h : stepInGivenOut zfo spf sp target liq remainingOut = some r) :
    ∃ out0,
      (if zfo then calcAmount1Delta liq target sp false else calcAmount0Delta liq target sp false) = some out0 ∧
      (if remainingOut * Pdiff ≥ out0 then some target
        else if zfo then nextSqrtPriceAmount1Out sp liq (remainingOut * Pdiff)
        else nextSqrtPriceAmount0Out sp (liq * Pdiff) remainingOut) = some r.sqrtPriceNext := by
  obtain ⟨_, _, out0, -, -, -, -, -, h0, hn⟩ := stepInGivenOut_decomp h
  exact ⟨out0, h0, hn⟩

/-- `hdir`: the target lies in the swap direction (guaranteed by the pool's tick/price consistency). -/
theorem stepInGivenOut_in_ge_curve {zfo : Bool} {spf sp target liq remainingOut : Int} {r : StepResult}
    (hl : 0 ≤ liq) (hsp : 0 < sp) (ht : 0 < target) (hs0 : 0 ≤ spf) (hs1 : spf < P18) (hrem : 0 ≤ remainingOut)
    (hdir : if zfo then target ≤ sp else sp ≤ target)
    (h : stepInGivenOut zfo spf sp target liq remainingOut = some r) :
    0 < r.sqrtPriceNext ∧ (∃ k, 0 ≤ k ∧ r.amountOther = k * P18) ∧
    (if zfo then ((r.sqrtPriceNext - sp).natAbs : Int) * liq * 10 ^ 36 ≤ r.amountOther * (r.sqrtPriceNext * sp)
      else ((r.sqrtPriceNext - sp).natAbs : Int) * liq ≤ r.amountOther * 10 ^ 36) := by
  obtain ⟨a, b, c, -⟩ := stepInGivenOut_curve hl hsp ht hs0 hs1 hrem hdir h
  exact ⟨a, c, b⟩

theorem stepInGivenOut_out_le_curve {zfo : Bool} {spf sp target liq remainingOut : Int} {r : StepResult}
    (hl : 0 ≤ liq) (hsp : 0 < sp) (ht : 0 < target) (hs0 : 0 ≤ spf) (hs1 : spf < P18) (hrem : 0 ≤ remainingOut)
    (hdir : if zfo then target ≤ sp else sp ≤ target)
    (h : stepInGivenOut zfo spf sp target liq remainingOut = some r) :
    0 ≤ r.amountSpecified ∧ r.amountSpecified ≤ remainingOut ∧
    (if zfo then r.amountSpecified * 10 ^ 36 ≤ ((r.sqrtPriceNext - sp).natAbs : Int) * liq
      else r.amountSpecified * (r.sqrtPriceNext * sp) ≤ ((r.sqrtPriceNext - sp).natAbs : Int) * liq * 10 ^ 36) := by
  obtain ⟨-, -, -, d, e, f, -⟩ := stepInGivenOut_curve hl hsp ht hs0 hs1 hrem hdir h
  exact ⟨e, f, d⟩

/-- the spread charge computed from an amount in: `c ≥ amountIn·spf/(1 − spf)`. -/
theorem spreadCharge_ge_exact {amountIn spf c : Int} (ha : 0 ≤ amountIn) (hs0 : 0 ≤ spf) (hs1 : spf < P18)
    (h : spreadChargeFromAmountIn amountIn spf = some c) :
    amountIn * spf ≤ c * (P18 - spf) ∧ 0 ≤ c := spreadChargeFromAmountIn_ge ha hs0 hs1 h

/-- out-given-in step: target reached ⇒ `c ≥ amountIn·spf/(1 − spf)`; not reached (and `spf > 0`) ⇒ the
charge is exactly the rest of the remaining amount; `spf = 0` ⇒ no charge. -/
theorem stepOutGivenIn_spreadCharge {zfo : Bool} {spf sp target liq remaining : Int} {r : StepResult}
    (hl : 0 ≤ liq) (hsp : 0 < sp) (ht : 0 < target) (hs0 : 0 ≤ spf) (hs1 : spf < P18) (hrem : 0 ≤ remaining)
    (h : stepOutGivenIn zfo spf sp target liq remaining = some r) :
    0 ≤ r.spreadCharge ∧ (spf = 0 → r.spreadCharge = 0) ∧
    (target = r.sqrtPriceNext → r.amountSpecified * spf ≤ r.spreadCharge * (P18 - spf)) ∧
    (target ≠ r.sqrtPriceNext → 0 < spf → r.spreadCharge = remaining - r.amountSpecified) := by
  obtain ⟨-, -, -, -, -, f⟩ := stepOutGivenIn_curve hl hsp ht hs0 hs1 hrem h
  exact f

/-- in-given-out step: always `c ≥ amountIn·spf/(1 − spf)`. -/
theorem stepInGivenOut_spreadCharge {zfo : Bool} {spf sp target liq remainingOut : Int} {r : StepResult}
    (hl : 0 ≤ liq) (hsp : 0 < sp) (ht : 0 < target) (hs0 : 0 ≤ spf) (hs1 : spf < P18) (hrem : 0 ≤ remainingOut)
    (hdir : if zfo then target ≤ sp else sp ≤ target)
    (h : stepInGivenOut zfo spf sp target liq remainingOut = some r) :
    0 ≤ r.spreadCharge ∧ r.amountOther * spf ≤ r.spreadCharge * (P18 - spf) := by
  obtain ⟨-, -, -, -, -, -, f⟩ := stepInGivenOut_curve hl hsp ht hs0 hs1 hrem hdir h
  exact f

/-! ## 4. executed swaps equal their estimates -/

/-- executed swaps pass `GetPriceLimit`, estimates pass 0; both resolve to the same sqrt-price limit
(a fact about the regenerated constants). -/
theorem exec_limit_eq_estimate_limit (zfo : Bool) :
    sqrtPriceLimit (execPriceLimit zfo) zfo = sqrtPriceLimit 0 zfo := by
  cases zfo <;> decide +kernel

theorem exec_compute_eq_estimate_compute (ogi zfo : Bool) (spf : Int) (pool : PoolSt) (ticks : Ticks) (amt : Int) :
    computeSwap ogi zfo spf (execPriceLimit zfo) pool ticks amt = computeSwap ogi zfo spf 0 pool ticks amt :=
  computeSwap_limit_congr (exec_limit_eq_estimate_limit zfo)

/-- whenever a swap executes, its result equals the estimate for the same state (the estimate is a pure
function of the state: `estimateSwap` returns a number and no state). -/
theorem estimate_eq_execute {ogi zfo : Bool} {spf : Int} {pool : PoolSt} {ticks : Ticks} {amt : Int}
    {r : SwapOut} {fee : Int} (h : execSwap ogi zfo spf pool ticks amt = some (r, fee)) :
    estimateSwap ogi zfo spf pool ticks amt = some (if ogi then r.amountOut else r.amountIn) := by
  unfold execSwap at h
  obtain ⟨r', hr', h2⟩ := Option.bind_eq_some_iff.mp h
  have e : r' = r := by
    split at h2
    · cases h2
    · split at h2
      · cases h2
      · obtain ⟨fee', -, h3⟩ := Option.bind_eq_some_iff.mp h2
        split at h3
        · cases h3
        · cases h3; rfl
  subst e
  unfold estimateSwap
  rw [← exec_compute_eq_estimate_compute, hr']
  rfl

theorem estimate_total_when_execute {ogi zfo : Bool} {spf : Int} {pool : PoolSt} {ticks : Ticks} {amt : Int}
    (h : (execSwap ogi zfo spf pool ticks amt).isSome) : (estimateSwap ogi zfo spf pool ticks amt).isSome := by
  obtain ⟨⟨r, fee⟩, hx⟩ := Option.isSome_iff_exists.mp h
  rw [estimate_eq_execute hx]; rfl

/-- the executed pool update and amounts are those of `computeSwap` with the common limit. -/
theorem execute_is_compute {ogi zfo : Bool} {spf : Int} {pool : PoolSt} {ticks : Ticks} {amt : Int}
    {r : SwapOut} {fee : Int} (h : execSwap ogi zfo spf pool ticks amt = some (r, fee)) :
    computeSwap ogi zfo spf 0 pool ticks amt = some r ∧ IsCeil r.spreadRewards P18 fee := by
  unfold execSwap at h
  obtain ⟨r', hr', h2⟩ := Option.bind_eq_some_iff.mp h
  split at h2
  · cases h2
  · split at h2
    · cases h2
    · obtain ⟨fee', hf, h3⟩ := Option.bind_eq_some_iff.mp h2
      split at h3
      · cases h3
      · cases h3
        exact ⟨by rw [← exec_compute_eq_estimate_compute]; exact hr', dec_ceil_truncateInt_ceil hf⟩

/-! ## 5./6. the whole swap: integral, rounded in the pool's favour, below the sum of the step ideals -/

/-- A successful `computeSwap` is a run `tr` of within-bucket steps (`CL.Run`: each entry records the swap
state before the step, the target — the sqrt price of an initialised tick ahead clamped by the limit — and
the step result) along a contiguous sqrt-price path from the pool's price to the final price; the
18-decimal bookkeeping is exact (`sumIn`, `sumOut`, `sumCharge` are the plain sums of the per-step
amounts) and
* `amountIn`  is the CEILING (to whole tokens) of the consumed amount in, spread charges included,
* `amountOut` is the TRUNCATION of the accumulated amount out;
for out-given-in the consumed amount is `specified − remaining`, for in-given-out the accumulated out is. -/
theorem swap_amounts_integral_and_rounded {ogi zfo : Bool} {spf pl : Int} {pool : PoolSt} {ticks : Ticks}
    {specified : Int} {r : SwapOut} (h : computeSwap ogi zfo spf pl pool ticks specified = some r) :
    ∃ (limit : Int) (tr : List StepRec) (st' : SwapSt),
      sqrtPriceLimit pl zfo = some limit ∧
      Run ogi zfo spf limit
        { remaining := specified * P18, calculated := 0, pool := pool, spreadTotal := 0, noProgress := 0 } tr st' ∧
      Path pool.sqrtPrice tr r.pool.sqrtPrice ∧ tr.length = r.steps ∧ 0 ≤ st'.remaining ∧
      r.spreadRewards = sumCharge tr ∧
      IsCeil (sumIn ogi tr + sumCharge tr) P18 r.amountIn ∧
      IsTrunc (sumOut ogi tr) P18 r.amountOut ∧
      (if ogi then sumIn ogi tr + sumCharge tr = specified * P18 - st'.remaining
        else sumOut ogi tr = specified * P18 - st'.remaining) := by
  obtain ⟨limit, tr, st', hlim, -, hrun, hlen, hpool, hrem, hsp, c1, c2, hs⟩ := computeSwap_run h
  refine ⟨limit, tr, st', hlim, hrun, ?_, hlen, hrem, hsp, c1, c2, hs⟩
  rw [hpool]; exact hrun.path

/-- out-given-in never charges more than was offered; in-given-out never pays out more than requested. -/
theorem swap_specified_side_bounded {ogi zfo : Bool} {spf pl : Int} {pool : PoolSt} {ticks : Ticks}
    {specified : Int} {r : SwapOut} (h : computeSwap ogi zfo spf pl pool ticks specified = some r) :
    if ogi then r.amountIn ≤ specified else r.amountOut ≤ specified := by
  obtain ⟨limit, tr, st', -, -, -, -, -, hrem, -, c1, c2, hs⟩ := computeSwap_run h
  cases ogi
  · rw [if_neg (by decide)] at hs ⊢
    rw [hs] at c2
    rcases Int.lt_or_le (specified * P18 - st'.remaining) 0 with hneg | hpos
    · have := (c2.2 hneg).1
      have h1 : (r.amountOut - 1) * P18 < specified * P18 := by omega
      have := lt_of_mul_lt_mul_pos P18_pos h1
      omega
    · have := (c2.1 hpos).1
      exact Int.le_of_mul_le_mul_right (by omega) P18_pos
  · rw [if_pos rfl] at hs ⊢
    rw [hs] at c1
    have h1 : (r.amountIn - 1) * P18 < specified * P18 := by have := c1.1; omega
    have := lt_of_mul_lt_mul_pos P18_pos h1
    omega

/-- Loop level.  Every step of the run is on the pool's side of the exact curve of ITS bucket (amount in
≥ exact and a whole number of tokens; amount out ≤ exact), hence
  total out·10^18 ≤ Σ step outs, each ≤ its exact out;   total in·10^18 ≥ Σ step ins (+ charges), each ≥ its exact in,
the sums ranging over the steps taken.  Prices stay positive along the whole path (proved, from
`0 < pool.sqrtPrice`, the validated limit and the positivity of every tick's sqrt price).  The remaining
side conditions `CL.StepOK` are pool invariants the swap code does not establish itself: liquidity is
non-negative in every bucket visited and — needed for in-given-out only — the step target lies in the
swap direction (tick/sqrt-price consistency of the pool). -/
-- Unconditional form (not proved here; what is missing): discharge `StepOK` from pool invariants, i.e.
-- (a) `0 ≤ liquidity` in every bucket visited (net-liquidity bookkeeping of positions, CLPool model), and
-- (b) for in-given-out, `target` on the swap side of the current sqrt price: needs tick ↔ sqrt-price
--     consistency of the pool, sortedness of the initialised ticks, monotonicity of `tickToSqrtPrice`
--     (C14Mono) and "the next sqrt price never passes the target" for the four `GetNextSqrtPrice…` functions.
theorem swap_out_le_sum_of_step_ideals {ogi zfo : Bool} {spf pl : Int} {pool : PoolSt} {ticks : Ticks}
    {specified : Int} {r : SwapOut} (hs0 : 0 ≤ spf) (hs1 : spf < P18) (hpool : 0 < pool.sqrtPrice)
    (h : computeSwap ogi zfo spf pl pool ticks specified = some r) :
    ∃ (limit : Int) (tr : List StepRec) (st' : SwapSt),
      Run ogi zfo spf limit
        { remaining := specified * P18, calculated := 0, pool := pool, spreadTotal := 0, noProgress := 0 } tr st' ∧
      Path pool.sqrtPrice tr r.pool.sqrtPrice ∧
      ((∀ e ∈ tr, StepOK ogi zfo e.st.pool.sqrtPrice e.target e.st.pool.liquidity) →
        0 < r.pool.sqrtPrice ∧
        (∀ e ∈ tr, 0 < e.st.pool.sqrtPrice ∧ 0 < e.res.sqrtPriceNext ∧
          InGe zfo e.st.pool.liquidity e.res.sqrtPriceNext e.st.pool.sqrtPrice (e.amtIn ogi) ∧
          (∃ k, 0 ≤ k ∧ e.amtIn ogi = k * P18) ∧
          OutLe zfo e.st.pool.liquidity e.res.sqrtPriceNext e.st.pool.sqrtPrice (e.amtOut ogi) ∧
          0 ≤ e.amtOut ogi ∧ 0 ≤ e.res.spreadCharge) ∧
        r.amountOut * P18 ≤ sumOut ogi tr ∧
        sumIn ogi tr ≤ r.amountIn * P18 ∧ sumIn ogi tr + sumCharge tr ≤ r.amountIn * P18) := by
  obtain ⟨limit, tr, st', -, hv, hrun, -, hp, -, -, c1, c2, -⟩ := computeSwap_run h
  refine ⟨limit, tr, st', hrun, by rw [hp]; exact hrun.path, fun hok => ?_⟩
  have hlim : 0 < limit := by
    cases zfo
    · rw [if_neg (by decide)] at hv; exact Int.lt_of_lt_of_le hpool hv.1
    · rw [if_pos rfl] at hv
      have : (0 : Int) < CL.MinSqrtPriceBigDec := by decide
      omega
  obtain ⟨hfin, hc⟩ := hrun.curve hs0 hs1 hpool hlim hok
  obtain ⟨o0, ch0⟩ := sums_nonneg (ogi := ogi) tr
    (fun e he => ⟨(hc e he).2.2.2.2.2.1, (hc e he).2.2.2.2.2.2⟩)
  refine ⟨by rw [hp]; exact hfin, hc, (c2.1 o0).1, ?_, c1.2⟩
  have := c1.2
  omega

/-- The same with the exact amounts as rational numbers (`CL.exactIn/exactOut zfo liq p q`: the token0
amount `L·|p−q|/(p·q)` resp. token1 amount `L·|p−q|` of the bucket, in 18-decimal raw units;
`sumExactIn/sumExactOut` add them over the steps taken): what the swapper receives is at most, and what
he pays is at least, what the exact piecewise constant-liquidity curve prescribes for the path taken. -/
theorem swap_vs_exact_curve {ogi zfo : Bool} {spf pl : Int} {pool : PoolSt} {ticks : Ticks}
    {specified : Int} {r : SwapOut} (hs0 : 0 ≤ spf) (hs1 : spf < P18) (hpool : 0 < pool.sqrtPrice)
    (h : computeSwap ogi zfo spf pl pool ticks specified = some r) :
    ∃ (limit : Int) (tr : List StepRec) (st' : SwapSt),
      Run ogi zfo spf limit
        { remaining := specified * P18, calculated := 0, pool := pool, spreadTotal := 0, noProgress := 0 } tr st' ∧
      Path pool.sqrtPrice tr r.pool.sqrtPrice ∧
      ((∀ e ∈ tr, StepOK ogi zfo e.st.pool.sqrtPrice e.target e.st.pool.liquidity) →
        (r.amountOut : ℚ) * 10 ^ 18 ≤ sumExactOut zfo tr ∧ sumExactIn zfo tr ≤ (r.amountIn : ℚ) * 10 ^ 18) := by
  obtain ⟨limit, tr, st', hrun, hpath, hk⟩ := swap_out_le_sum_of_step_ideals hs0 hs1 hpool h
  refine ⟨limit, tr, st', hrun, hpath, fun hok => ?_⟩
  obtain ⟨-, hc, ho, hi, -⟩ := hk hok
  obtain ⟨a, b⟩ := sums_vs_exact (ogi := ogi) (zfo := zfo) tr
    (fun e he => ⟨(hc e he).1, (hc e he).2.1, (hc e he).2.2.1, (hc e he).2.2.2.2.1⟩)
  rw [P18_eq] at ho hi
  constructor
  · calc (r.amountOut : ℚ) * 10 ^ 18 ≤ (sumOut ogi tr : ℚ) := by exact_mod_cast ho
      _ ≤ sumExactOut zfo tr := b
  · calc sumExactIn zfo tr ≤ (sumIn ogi tr : ℚ) := a
      _ ≤ (r.amountIn : ℚ) * 10 ^ 18 := by exact_mod_cast hi

/-! ## 7. non-vacuity: concrete instances (liquidity 10^6 tokens, prices around 1) -/

/-- one million units of liquidity (raw 18-decimal). -/
private abbrev L : Int := 1000000 * 10 ^ 18

-- amount deltas between √p = 1.000…007 and 1.1000…003: up is whole tokens, down is not
example : calcAmount0Delta L (10 ^ 36 + 7) (11 * 10 ^ 35 + 3) true = some (90910 * P36) := by decide +kernel
example : calcAmount0Delta L (11 * 10 ^ 35 + 3) (10 ^ 36 + 7) true = some (90910 * P36) := by decide +kernel
example : calcAmount0Delta L (10 ^ 36 + 7) (11 * 10 ^ 35 + 3) false =
    some 90909090909090909090909090909090904570247 := by decide +kernel
example : calcAmount1Delta L (10 ^ 36 + 7) (11 * 10 ^ 35 + 3) true = some (100000 * P36) := by decide +kernel
example : calcAmount1Delta L (10 ^ 36 + 7) (11 * 10 ^ 35 + 3) false =
    some 99999999999999999999999999999999996000000 := by decide +kernel

-- out-given-in step, zero-for-one, spread factor 0.3 %: target reached (1000 tokens remaining) …
example : stepOutGivenIn true (3 * 10 ^ 15) (10 ^ 36) 999500149965006998740209000000000000 L (1000 * 10 ^ 18) =
    some ⟨999500149965006998740209000000000000, 501000000000000000000, 499850034993001259791,
      1507522567703109732⟩ := by decide +kernel
-- … and not reached (100 tokens remaining): the charge is the rest of the remaining amount
example : stepOutGivenIn true (3 * 10 ^ 15) (10 ^ 36) 999500149965006998740209000000000000 L (100 * 10 ^ 18) =
    some ⟨999900309939099071822539292832504600, 100000000000000000000, 99690060900928177460, 0⟩ := by
  decide +kernel
-- one-for-zero
example : stepOutGivenIn false (3 * 10 ^ 15) (10 ^ 36) 1000499875062460964823258000000000000 L (100 * 10 ^ 18) =
    some ⟨1000099700000000000000000000000000000, 100000000000000000000, 99690060900928177460, 0⟩ := by
  decide +kernel
-- in-given-out steps, both directions (not reached / reached)
example : stepInGivenOut true (3 * 10 ^ 15) (10 ^ 36) 999500149965006998740209000000000000 L (100 * 10 ^ 18) =
    some ⟨999900000000000000000000000000000000, 100000000000000000000, 101000000000000000000,
      303911735205616932⟩ := by decide +kernel
example : stepInGivenOut false (3 * 10 ^ 15) (10 ^ 36) 1000499875062460964823258000000000000 L (1000 * 10 ^ 18) =
    some ⟨1000499875062460964823258000000000000, 499625312226808368373, 500000000000000000000,
      1504513540621866000⟩ := by decide +kernel
-- the side conditions of the step theorems hold for these
example : StepOK false true (10 ^ 36) 999500149965006998740209000000000000 L ∧
    StepOK false false (10 ^ 36) 1000499875062460964823258000000000000 L ∧ (0 : Int) ≤ 3 * 10 ^ 15 ∧ 3 * 10 ^ 15 < P18 := by
  unfold StepOK; decide +kernel

/-- a pool at price 1, tick 0, with half of the liquidity leaving at ticks ±100000 and the rest at ±200000. -/
private abbrev pool0 : PoolSt := ⟨10 ^ 36, 0, L⟩
private abbrev ticks0 : Ticks := [(-200000, L / 2), (-100000, L / 2), (100000, -(L / 2)), (200000, -(L / 2))]

-- executed swaps (two steps, one tick crossed) and their estimates, all four kinds
example : execSwap true true (3 * 10 ^ 15) pool0 ticks0 6000 =
    some (⟨6000, 5945, 18000000000000000000,
      ⟨993121821732786572414234489209150395, -137091, 500000000000000000000000⟩, 2, 1⟩, 18) ∧
    estimateSwap true true (3 * 10 ^ 15) pool0 ticks0 6000 = some 5945 := by decide +kernel
example : execSwap false true (3 * 10 ^ 15) pool0 ticks0 6000 =
    some (⟨6057, 6000, 18168505516549653816,
      ⟨993012562893380045000000000000000000, -139261, 500000000000000000000000⟩, 2, 1⟩, 19) ∧
    estimateSwap false true (3 * 10 ^ 15) pool0 ticks0 6000 = some 6057 := by decide +kernel
example : execSwap true false (3 * 10 ^ 15) pool0 ticks0 60000 =
    some (⟨60000, 56341, 180000000000000000000,
      ⟨1070830848170151546921515128000000000, 146678, 500000000000000000000000⟩, 2, 1⟩, 180) ∧
    estimateSwap true false (3 * 10 ^ 15) pool0 ticks0 60000 = some 56341 := by decide +kernel
example : execSwap false false (3 * 10 ^ 15) pool0 ticks0 60000 =
    some (⟨64242, 60000, 192725175526579790868,
      ⟨1079287234808767641893360243967341345, 164860, 500000000000000000000000⟩, 2, 1⟩, 193) ∧
    estimateSwap false false (3 * 10 ^ 15) pool0 ticks0 60000 = some 64242 := by decide +kernel
-- running out of initialised ticks is an error for both
example : execSwap true false (3 * 10 ^ 15) pool0 ticks0 600000 = none ∧
    estimateSwap true false (3 * 10 ^ 15) pool0 ticks0 600000 = none := by decide +kernel

end OsmoVerif.Props.C03
