/-
C03 — concentrated swaps follow the curve, round in the pool's favour, and match their quotes.

Model: `OsmoVerif.CL` (Model/CL.lean), bit-exact with x/concentrated-liquidity/{math,swapstrategy,swaps.go};
the osmomath method used at every rounding-critical position is read from the regenerated operator lists
`Gen.CL.ops_*` (§1 below re-derives the explicit forms from them by `rfl`: a changed operator in the Go
source breaks these and everything that depends on them).

Units: sqrt prices `a b p q sp target` are raw 36-decimal, liquidity raw 18-decimal, amount deltas raw
36-decimal, step amounts raw 18-decimal, swap results whole tokens.  `|p − q|` is `((p - q).natAbs : Int)`.
The exact constant-liquidity curve between sqrt prices `p`, `q` with liquidity `L` prescribes
token0 `L·|p − q|/(p·q)` and token1 `L·|p − q|`; all comparisons are cross-multiplied (no division):
  `CL.Ge0 liq p q amt` : `|p−q|·liq·10^36 ≤ amt·(p·q)`   (18-decimal `amt` ≥ exact token0 amount)
  `CL.Le0 liq p q amt` : `amt·(p·q) ≤ |p−q|·liq·10^36`
  `CL.Ge1 liq p q amt` : `|p−q|·liq ≤ amt·10^36`         (18-decimal `amt` ≥ exact token1 amount)
  `CL.Le1 liq p q amt` : `amt·10^36 ≤ |p−q|·liq`
  `CL.InGe zfo …` = `Ge0` for zero-for-one (token0 in) else `Ge1`;  `CL.OutLe zfo …` = `Le1` for zero-for-one else `Le0`.
-/
import OsmoVerif.Proofs.CLRoundQ
import OsmoVerif.Proofs.CLCurveReach
import OsmoVerif.Proofs.CLShortfall
import OsmoVerif.Proofs.CLThereBack

namespace OsmoVerif.Props.C03
open OsmoVerif.Num OsmoVerif.Spec OsmoVerif.Gen OsmoVerif.CL

/-! ## 1. what the code computes (tie T1: explicit forms from the regenerated operator lists) -/

theorem calcAmount0Delta_roundUp_eq {liq a b : Int} (hab : a ≤ b) :
    calcAmount0Delta liq a b true =
      (BigDec.sub b a).bind fun d => (BigDec.mulRoundUpDec d liq).bind fun x =>
        (BigDec.quoRoundUpMut x b).bind fun y => BigDec.quoRoundUpNextIntMut y a := by
  unfold calcAmount0Delta; rw [if_neg (by omega)]; rfl

theorem calcAmount0Delta_roundDown_eq {liq a b : Int} (hab : a ≤ b) :
    calcAmount0Delta liq a b false =
      (BigDec.sub b a).bind fun d => (BigDec.mulTruncateDec d liq).bind fun x =>
        (BigDec.quoTruncate x b).bind fun y => BigDec.quoTruncate y a := by
  unfold calcAmount0Delta; rw [if_neg (by omega)]; rfl

/-- the function sorts its price arguments. -/
theorem calcAmount0Delta_symm (liq a b : Int) (roundUp : Bool) :
    calcAmount0Delta liq a b roundUp = calcAmount0Delta liq b a roundUp := CL.calcAmount0Delta_comm liq a b roundUp

theorem calcAmount1Delta_roundUp_eq (liq a b : Int) :
    calcAmount1Delta liq a b true =
      (BigDec.sub b a).bind fun d => (BigDec.mulRoundUpDec (d.natAbs : Int) liq).bind BigDec.ceil := rfl

theorem calcAmount1Delta_roundDown_eq (liq a b : Int) :
    calcAmount1Delta liq a b false =
      (BigDec.sub b a).bind fun d => BigDec.mulTruncateDec (d.natAbs : Int) liq := rfl

/-- the function takes `|b − a|`. -/
theorem calcAmount1Delta_symm (liq a b : Int) (roundUp : Bool) :
    calcAmount1Delta liq a b roundUp = calcAmount1Delta liq b a roundUp := CL.calcAmount1Delta_comm liq a b roundUp

theorem nextSqrtPriceAmount0In_eq (sp liq amt : Int) :
    nextSqrtPriceAmount0In sp liq amt =
      if amt = 0 then some sp else
        (BigDec.mulTruncate amt sp).bind fun product => (BigDec.add product liq).bind fun denom =>
          (BigDec.mulRoundUp liq sp).bind fun num => BigDec.quoRoundUpMut num denom := rfl

theorem nextSqrtPriceAmount0Out_eq (sp liq amtDec : Int) :
    nextSqrtPriceAmount0Out sp liq amtDec =
      if amtDec = 0 then some sp else
        (BigDec.mulRoundUpDec sp amtDec).bind fun product => (BigDec.sub liq product).bind fun denom =>
          (BigDec.mulRoundUp liq sp).bind fun num => BigDec.quoRoundUpMut num denom := rfl

theorem nextSqrtPriceAmount1In_eq (sp liqDec amt : Int) :
    nextSqrtPriceAmount1In sp liqDec amt = (BigDec.quoTruncateDec amt liqDec).bind fun q => BigDec.add q sp := rfl

theorem nextSqrtPriceAmount1Out_eq (sp liqDec amt : Int) :
    nextSqrtPriceAmount1Out sp liqDec amt = (BigDec.quoByDecRoundUp amt liqDec).bind fun q => BigDec.sub sp q := rfl

/-- the operator lists themselves, as extracted now (a change here is a change of the Go source). -/
theorem operator_lists :
    CL.ops_CalcAmount0Delta = ["GT", "Sub", "MulRoundUpDec", "QuoRoundUpMut", "QuoRoundUpNextIntMut",
      "MulTruncateDec", "QuoTruncateMut", "QuoTruncateMut"] ∧
    CL.ops_CalcAmount1Delta = ["Sub", "AbsMut", "MulRoundUpDec", "CeilMut", "MulTruncateDec"] ∧
    CL.ops_GetNextSqrtPriceFromAmount0InRoundingUp = ["IsZero", "MulTruncate", "AddMut", "MulRoundUp", "QuoRoundUpMut"] ∧
    CL.ops_GetNextSqrtPriceFromAmount0OutRoundingUp = ["IsZero", "MulRoundUpDec", "Sub", "MulRoundUp", "QuoRoundUpMut"] ∧
    CL.ops_GetNextSqrtPriceFromAmount1InRoundingDown = ["QuoTruncateDec", "AddMut"] ∧
    CL.ops_GetNextSqrtPriceFromAmount1OutRoundingDown = ["QuoByDecRoundUp", "Sub"] := by decide

/-! ## 2. amount deltas round in the pool's favour (`0 < a ≤ b`, `0 ≤ liq`) -/

/-- token0 rounded up: a whole number `k` of tokens with `k ≥ L(b − a)/(a·b)`. -/
theorem amount0_roundUp_ge_exact {liq a b r : Int} (ha : 0 < a) (hab : a ≤ b) (hl : 0 ≤ liq)
    (h : calcAmount0Delta liq a b true = some r) :
    ∃ k, r = k * P36 ∧ 0 ≤ k ∧ (b - a) * liq * 10 ^ 36 ≤ k * a * b * 10 ^ 18 := by
  have := amount0_roundUp_sorted ha hab hl h
  rwa [P36_eq, P18_eq] at this

/-- same with the arguments in the other order. -/
theorem amount0_roundUp_ge_exact_swapped {liq a b r : Int} (ha : 0 < a) (hab : a ≤ b) (hl : 0 ≤ liq)
    (h : calcAmount0Delta liq b a true = some r) :
    ∃ k, r = k * P36 ∧ 0 ≤ k ∧ (b - a) * liq * 10 ^ 36 ≤ k * a * b * 10 ^ 18 := by
  rw [calcAmount0Delta_symm] at h; exact amount0_roundUp_ge_exact ha hab hl h

/-- token0 rounded down: `r/10^36 ≤ L(b − a)/(a·b)`. -/
theorem amount0_roundDown_le_exact {liq a b r : Int} (ha : 0 < a) (hab : a ≤ b) (hl : 0 ≤ liq)
    (h : calcAmount0Delta liq a b false = some r) :
    r * a * b * 10 ^ 18 ≤ (b - a) * liq * 10 ^ 72 ∧ 0 ≤ r := by
  have := amount0_roundDown_sorted ha hab hl h
  rwa [P36_eq, P18_eq] at this

theorem amount0_roundDown_le_exact_swapped {liq a b r : Int} (ha : 0 < a) (hab : a ≤ b) (hl : 0 ≤ liq)
    (h : calcAmount0Delta liq b a false = some r) :
    r * a * b * 10 ^ 18 ≤ (b - a) * liq * 10 ^ 72 ∧ 0 ≤ r := by
  rw [calcAmount0Delta_symm] at h; exact amount0_roundDown_le_exact ha hab hl h

/-- token1 rounded up: a whole number `k` of tokens with `k ≥ L(b − a)`. -/
theorem amount1_roundUp_ge_exact {liq a b r : Int} (hab : a ≤ b) (hl : 0 ≤ liq)
    (h : calcAmount1Delta liq a b true = some r) :
    ∃ k, r = k * P36 ∧ 0 ≤ k ∧ (b - a) * liq ≤ k * 10 ^ 36 * 10 ^ 18 := by
  have := amount1_roundUp_abs hl h
  rwa [P36_eq, P18_eq, show ((b - a).natAbs : Int) = b - a by omega] at this

theorem amount1_roundUp_ge_exact_swapped {liq a b r : Int} (hab : a ≤ b) (hl : 0 ≤ liq)
    (h : calcAmount1Delta liq b a true = some r) :
    ∃ k, r = k * P36 ∧ 0 ≤ k ∧ (b - a) * liq ≤ k * 10 ^ 36 * 10 ^ 18 := by
  rw [calcAmount1Delta_symm] at h; exact amount1_roundUp_ge_exact hab hl h

/-- token1 rounded down: `r/10^36 ≤ L(b − a)`. -/
theorem amount1_roundDown_le_exact {liq a b r : Int} (hab : a ≤ b) (hl : 0 ≤ liq)
    (h : calcAmount1Delta liq a b false = some r) :
    r * 10 ^ 18 ≤ (b - a) * liq ∧ 0 ≤ r := by
  have := amount1_roundDown_abs hl h
  rwa [P18_eq, show ((b - a).natAbs : Int) = b - a by omega] at this

theorem amount1_roundDown_le_exact_swapped {liq a b r : Int} (hab : a ≤ b) (hl : 0 ≤ liq)
    (h : calcAmount1Delta liq b a false = some r) :
    r * 10 ^ 18 ≤ (b - a) * liq ∧ 0 ≤ r := by
  rw [calcAmount1Delta_symm] at h; exact amount1_roundDown_le_exact hab hl h

/-! ## 3. the within-bucket step -/

/-- out-given-in, both strategies, both branches (target reached or not): the returned amount in is the
`DecRoundUp` (ceiling at 18 decimals) of the ROUND-UP delta of the in-token between the current and the
NEXT sqrt price, the returned amount out is the `Dec` (truncation) of the ROUND-DOWN delta of the
out-token between the same two prices. -/
theorem stepOutGivenIn_amounts {zfo : Bool} {spf sp target liq remaining : Int} {r : StepResult}
    (h : stepOutGivenIn zfo spf sp target liq remaining = some r) :
    ∃ x y,
      (if zfo then calcAmount0Delta liq r.sqrtPriceNext sp true
        else calcAmount1Delta liq r.sqrtPriceNext sp true) = some x ∧
      (if zfo then calcAmount1Delta liq r.sqrtPriceNext sp false
        else calcAmount0Delta liq r.sqrtPriceNext sp false) = some y ∧
      IsCeil x Pdiff r.amountSpecified ∧ IsTrunc y Pdiff r.amountOther := by
  obtain ⟨x, y, _, _, hx, hy, cS, cO, -⟩ := stepOutGivenIn_decomp h
  exact ⟨x, y, hx, hy, cS, cO⟩

/-- where the step stops: at the target iff the amount remaining after the spread factor covers the
(rounded-up) amount in needed to reach it, otherwise at the price computed from that amount. -/
theorem stepOutGivenIn_next {zfo : Bool} {spf sp target liq remaining : Int} {r : StepResult}
    (h : stepOutGivenIn zfo spf sp target liq remaining = some r) :
    ∃ amtIn0,
      (if zfo then calcAmount0Delta liq target sp true else calcAmount1Delta liq target sp true) = some amtIn0 ∧
      (if remaining * (P18 - spf) ≥ amtIn0 then some target
        else if zfo then nextSqrtPriceAmount0In sp (liq * Pdiff) (remaining * (P18 - spf))
        else nextSqrtPriceAmount1In sp liq (remaining * (P18 - spf))) = some r.sqrtPriceNext := by
  obtain ⟨_, _, amtIn0, oneMinus, -, -, -, -, -, h0, rfl, hn⟩ := stepOutGivenIn_decomp h
  exact ⟨amtIn0, h0, hn⟩

/-- amount charged ≥ exact curve amount (and a whole number of tokens); the next price stays positive. -/
theorem stepOutGivenIn_in_ge_curve {zfo : Bool} {spf sp target liq remaining : Int} {r : StepResult}
    (hl : 0 ≤ liq) (hsp : 0 < sp) (ht : 0 < target) (hs0 : 0 ≤ spf) (hs1 : spf < P18) (hrem : 0 ≤ remaining)
    (h : stepOutGivenIn zfo spf sp target liq remaining = some r) :
    0 < r.sqrtPriceNext ∧ (∃ k, 0 ≤ k ∧ r.amountSpecified = k * P18) ∧
    (if zfo then ((r.sqrtPriceNext - sp).natAbs : Int) * liq * 10 ^ 36 ≤ r.amountSpecified * (r.sqrtPriceNext * sp)
      else ((r.sqrtPriceNext - sp).natAbs : Int) * liq ≤ r.amountSpecified * 10 ^ 36) := by
  obtain ⟨a, b, c, -⟩ := stepOutGivenIn_curve hl hsp ht hs0 hs1 hrem h
  exact ⟨a, c, b⟩

/-- amount paid out ≤ exact curve amount. -/
theorem stepOutGivenIn_out_le_curve {zfo : Bool} {spf sp target liq remaining : Int} {r : StepResult}
    (hl : 0 ≤ liq) (hsp : 0 < sp) (ht : 0 < target) (hs0 : 0 ≤ spf) (hs1 : spf < P18) (hrem : 0 ≤ remaining)
    (h : stepOutGivenIn zfo spf sp target liq remaining = some r) :
    0 ≤ r.amountOther ∧
    (if zfo then r.amountOther * 10 ^ 36 ≤ ((r.sqrtPriceNext - sp).natAbs : Int) * liq
      else r.amountOther * (r.sqrtPriceNext * sp) ≤ ((r.sqrtPriceNext - sp).natAbs : Int) * liq * 10 ^ 36) := by
  obtain ⟨-, -, -, d, e, -⟩ := stepOutGivenIn_curve hl hsp ht hs0 hs1 hrem h
  exact ⟨e, d⟩

/-- in-given-out: `amountSpecified` is the amount OUT — the truncation of the round-down delta of the
out-token between the current and the next price, capped by the remaining request — and `amountOther`
the amount IN, the ceiling of the round-up delta of the in-token between the same prices. -/
theorem stepInGivenOut_amounts {zfo : Bool} {spf sp target liq remainingOut : Int} {r : StepResult}
    (h : stepInGivenOut zfo spf sp target liq remainingOut = some r) :
    ∃ x y,
      (if zfo then calcAmount0Delta liq r.sqrtPriceNext sp true
        else calcAmount1Delta liq r.sqrtPriceNext sp true) = some x ∧
      (if zfo then calcAmount1Delta liq r.sqrtPriceNext sp false
        else calcAmount0Delta liq r.sqrtPriceNext sp false) = some y ∧
      IsCeil x Pdiff r.amountOther ∧
      IsTrunc (if y > remainingOut * Pdiff then remainingOut * Pdiff else y) Pdiff r.amountSpecified := by
  obtain ⟨x, y, _, hx, hy, cS, cO, -⟩ := stepInGivenOut_decomp h
  exact ⟨x, y, hx, hy, cS, cO⟩

theorem stepInGivenOut_next {zfo : Bool} {spf sp target liq remainingOut : Int} {r : StepResult}
    (h : stepInGivenOut zfo spf sp target liq remainingOut = some r) :
    ∃ out0,
      (if zfo then calcAmount1Delta liq target sp false else calcAmount0Delta liq target sp false) = some out0 ∧
      (if remainingOut * Pdiff ≥ out0 then some target
        else if zfo then nextSqrtPriceAmount1Out sp liq (remainingOut * Pdiff)
        else nextSqrtPriceAmount0Out sp (liq * Pdiff) remainingOut) = some r.sqrtPriceNext := by
  obtain ⟨_, _, out0, -, -, -, -, -, h0, hn⟩ := stepInGivenOut_decomp h
  exact ⟨out0, h0, hn⟩

/-- `hdir`: the target lies in the swap direction (guaranteed by the pool's tick/price consistency). -/
theorem stepInGivenOut_in_ge_curve {zfo : Bool} {spf sp target liq remainingOut : Int} {r : StepResult}
    (hl : 0 ≤ liq) (hsp : 0 < sp) (ht : 0 < target) (hs0 : 0 ≤ spf) (hs1 : spf < P18) (hrem : 0 ≤ remainingOut)
    (hdir : if zfo then target ≤ sp else sp ≤ target)
    (h : stepInGivenOut zfo spf sp target liq remainingOut = some r) :
    0 < r.sqrtPriceNext ∧ (∃ k, 0 ≤ k ∧ r.amountOther = k * P18) ∧
    (if zfo then ((r.sqrtPriceNext - sp).natAbs : Int) * liq * 10 ^ 36 ≤ r.amountOther * (r.sqrtPriceNext * sp)
      else ((r.sqrtPriceNext - sp).natAbs : Int) * liq ≤ r.amountOther * 10 ^ 36) := by
  obtain ⟨a, b, c, -⟩ := stepInGivenOut_curve hl hsp ht hs0 hs1 hrem hdir h
  exact ⟨a, c, b⟩

theorem stepInGivenOut_out_le_curve {zfo : Bool} {spf sp target liq remainingOut : Int} {r : StepResult}
    (hl : 0 ≤ liq) (hsp : 0 < sp) (ht : 0 < target) (hs0 : 0 ≤ spf) (hs1 : spf < P18) (hrem : 0 ≤ remainingOut)
    (hdir : if zfo then target ≤ sp else sp ≤ target)
    (h : stepInGivenOut zfo spf sp target liq remainingOut = some r) :
    0 ≤ r.amountSpecified ∧ r.amountSpecified ≤ remainingOut ∧
    (if zfo then r.amountSpecified * 10 ^ 36 ≤ ((r.sqrtPriceNext - sp).natAbs : Int) * liq
      else r.amountSpecified * (r.sqrtPriceNext * sp) ≤ ((r.sqrtPriceNext - sp).natAbs : Int) * liq * 10 ^ 36) := by
  obtain ⟨-, -, -, d, e, f, -⟩ := stepInGivenOut_curve hl hsp ht hs0 hs1 hrem hdir h
  exact ⟨e, f, d⟩

/-- the spread charge computed from an amount in: `c ≥ amountIn·spf/(1 − spf)`. -/
theorem spreadCharge_ge_exact {amountIn spf c : Int} (ha : 0 ≤ amountIn) (hs0 : 0 ≤ spf) (hs1 : spf < P18)
    (h : spreadChargeFromAmountIn amountIn spf = some c) :
    amountIn * spf ≤ c * (P18 - spf) ∧ 0 ≤ c := spreadChargeFromAmountIn_ge ha hs0 hs1 h

/-- out-given-in step: target reached ⇒ `c ≥ amountIn·spf/(1 − spf)`; not reached (and `spf > 0`) ⇒ the
charge is exactly the rest of the remaining amount; `spf = 0` ⇒ no charge. -/
theorem stepOutGivenIn_spreadCharge {zfo : Bool} {spf sp target liq remaining : Int} {r : StepResult}
    (hl : 0 ≤ liq) (hsp : 0 < sp) (ht : 0 < target) (hs0 : 0 ≤ spf) (hs1 : spf < P18) (hrem : 0 ≤ remaining)
    (h : stepOutGivenIn zfo spf sp target liq remaining = some r) :
    0 ≤ r.spreadCharge ∧ (spf = 0 → r.spreadCharge = 0) ∧
    (target = r.sqrtPriceNext → r.amountSpecified * spf ≤ r.spreadCharge * (P18 - spf)) ∧
    (target ≠ r.sqrtPriceNext → 0 < spf → r.spreadCharge = remaining - r.amountSpecified) := by
  obtain ⟨-, -, -, -, -, f⟩ := stepOutGivenIn_curve hl hsp ht hs0 hs1 hrem h
  exact f

/-- in-given-out step: always `c ≥ amountIn·spf/(1 − spf)`. -/
theorem stepInGivenOut_spreadCharge {zfo : Bool} {spf sp target liq remainingOut : Int} {r : StepResult}
    (hl : 0 ≤ liq) (hsp : 0 < sp) (ht : 0 < target) (hs0 : 0 ≤ spf) (hs1 : spf < P18) (hrem : 0 ≤ remainingOut)
    (hdir : if zfo then target ≤ sp else sp ≤ target)
    (h : stepInGivenOut zfo spf sp target liq remainingOut = some r) :
    0 ≤ r.spreadCharge ∧ r.amountOther * spf ≤ r.spreadCharge * (P18 - spf) := by
  obtain ⟨-, -, -, -, -, -, f⟩ := stepInGivenOut_curve hl hsp ht hs0 hs1 hrem hdir h
  exact f

/-! ## 4. executed swaps equal their estimates -/

/-- executed swaps pass `GetPriceLimit`, estimates pass 0; both resolve to the same sqrt-price limit
(a fact about the regenerated constants). -/
theorem exec_limit_eq_estimate_limit (zfo : Bool) :
    sqrtPriceLimit (execPriceLimit zfo) zfo = sqrtPriceLimit 0 zfo := by
  cases zfo <;> decide +kernel

theorem exec_compute_eq_estimate_compute (ogi zfo : Bool) (spf : Int) (pool : PoolSt) (ticks : Ticks) (amt : Int) :
    computeSwap ogi zfo spf (execPriceLimit zfo) pool ticks amt = computeSwap ogi zfo spf 0 pool ticks amt :=
  computeSwap_limit_congr (exec_limit_eq_estimate_limit zfo)

/-- whenever a swap executes, its result equals the estimate for the same state (the estimate is a pure
function of the state: `estimateSwap` returns a number and no state). -/
theorem estimate_eq_execute {ogi zfo : Bool} {spf : Int} {pool : PoolSt} {ticks : Ticks} {amt : Int}
    {r : SwapOut} {fee : Int} (h : execSwap ogi zfo spf pool ticks amt = some (r, fee)) :
    estimateSwap ogi zfo spf pool ticks amt = some (if ogi then r.amountOut else r.amountIn) := by
  unfold execSwap at h
  obtain ⟨r', hr', h2⟩ := Option.bind_eq_some_iff.mp h
  have e : r' = r := by
    split at h2
    · cases h2
    · split at h2
      · cases h2
      · obtain ⟨fee', -, h3⟩ := Option.bind_eq_some_iff.mp h2
        split at h3
        · cases h3
        · cases h3; rfl
  subst e
  unfold estimateSwap
  rw [← exec_compute_eq_estimate_compute, hr']
  rfl

theorem estimate_total_when_execute {ogi zfo : Bool} {spf : Int} {pool : PoolSt} {ticks : Ticks} {amt : Int}
    (h : (execSwap ogi zfo spf pool ticks amt).isSome) : (estimateSwap ogi zfo spf pool ticks amt).isSome := by
  obtain ⟨⟨r, fee⟩, hx⟩ := Option.isSome_iff_exists.mp h
  rw [estimate_eq_execute hx]; rfl

/-- the executed pool update and amounts are those of `computeSwap` with the common limit. -/
theorem execute_is_compute {ogi zfo : Bool} {spf : Int} {pool : PoolSt} {ticks : Ticks} {amt : Int}
    {r : SwapOut} {fee : Int} (h : execSwap ogi zfo spf pool ticks amt = some (r, fee)) :
    computeSwap ogi zfo spf 0 pool ticks amt = some r ∧ IsCeil r.spreadRewards P18 fee := by
  unfold execSwap at h
  obtain ⟨r', hr', h2⟩ := Option.bind_eq_some_iff.mp h
  split at h2
  · cases h2
  · split at h2
    · cases h2
    · obtain ⟨fee', hf, h3⟩ := Option.bind_eq_some_iff.mp h2
      split at h3
      · cases h3
      · cases h3
        exact ⟨by rw [← exec_compute_eq_estimate_compute]; exact hr', dec_ceil_truncateInt_ceil hf⟩

/-! ## 5./6. the whole swap: integral, rounded in the pool's favour, below the sum of the step ideals -/

/-- A successful `computeSwap` is a run `tr` of within-bucket steps (`CL.Run`: each entry records the swap
state before the step, the target — the sqrt price of an initialised tick ahead clamped by the limit — and
the step result) along a contiguous sqrt-price path from the pool's price to the final price; the
18-decimal bookkeeping is exact (`sumIn`, `sumOut`, `sumCharge` are the plain sums of the per-step
amounts) and
* `amountIn`  is the CEILING (to whole tokens) of the consumed amount in, spread charges included,
* `amountOut` is the TRUNCATION of the accumulated amount out;
for out-given-in the consumed amount is `specified − remaining`, for in-given-out the accumulated out is. -/
theorem swap_amounts_integral_and_rounded {ogi zfo : Bool} {spf pl : Int} {pool : PoolSt} {ticks : Ticks}
    {specified : Int} {r : SwapOut} (h : computeSwap ogi zfo spf pl pool ticks specified = some r) :
    ∃ (limit : Int) (tr : List StepRec) (st' : SwapSt),
      sqrtPriceLimit pl zfo = some limit ∧
      Run ogi zfo spf limit
        { remaining := specified * P18, calculated := 0, pool := pool, spreadTotal := 0, noProgress := 0 } tr st' ∧
      Path pool.sqrtPrice tr r.pool.sqrtPrice ∧ tr.length = r.steps ∧ 0 ≤ st'.remaining ∧
      r.spreadRewards = sumCharge tr ∧
      IsCeil (sumIn ogi tr + sumCharge tr) P18 r.amountIn ∧
      IsTrunc (sumOut ogi tr) P18 r.amountOut ∧
      (if ogi then sumIn ogi tr + sumCharge tr = specified * P18 - st'.remaining
        else sumOut ogi tr = specified * P18 - st'.remaining) := by
  obtain ⟨limit, tr, st', hlim, -, hrun, hlen, hpool, hrem, hsp, c1, c2, hs⟩ := computeSwap_run h
  refine ⟨limit, tr, st', hlim, hrun, ?_, hlen, hrem, hsp, c1, c2, hs⟩
  rw [hpool]; exact hrun.path

/-- out-given-in never charges more than was offered; in-given-out never pays out more than requested. -/
theorem swap_specified_side_bounded {ogi zfo : Bool} {spf pl : Int} {pool : PoolSt} {ticks : Ticks}
    {specified : Int} {r : SwapOut} (h : computeSwap ogi zfo spf pl pool ticks specified = some r) :
    if ogi then r.amountIn ≤ specified else r.amountOut ≤ specified := by
  obtain ⟨limit, tr, st', -, -, -, -, -, hrem, -, c1, c2, hs⟩ := computeSwap_run h
  cases ogi
  · rw [if_neg (by decide)] at hs ⊢
    rw [hs] at c2
    rcases Int.lt_or_le (specified * P18 - st'.remaining) 0 with hneg | hpos
    · have := (c2.2 hneg).1
      have h1 : (r.amountOut - 1) * P18 < specified * P18 := by omega
      have := lt_of_mul_lt_mul_pos P18_pos h1
      omega
    · have := (c2.1 hpos).1
      exact Int.le_of_mul_le_mul_right (by omega) P18_pos
  · rw [if_pos rfl] at hs ⊢
    rw [hs] at c1
    have h1 : (r.amountIn - 1) * P18 < specified * P18 := by have := c1.1; omega
    have := lt_of_mul_lt_mul_pos P18_pos h1
    omega

/-- Loop level.  Every step of the run is on the pool's side of the exact curve of ITS bucket (amount in
≥ exact and a whole number of tokens; amount out ≤ exact), hence
  total out·10^18 ≤ Σ step outs, each ≤ its exact out;   total in·10^18 ≥ Σ step ins (+ charges), each ≥ its exact in,
the sums ranging over the steps taken.  Prices stay positive along the whole path (proved, from
`0 < pool.sqrtPrice`, the validated limit and the positivity of every tick's sqrt price).  The remaining
side conditions `CL.StepOK` are pool invariants the swap code does not establish itself: liquidity is
non-negative in every bucket visited and — needed for in-given-out only — the step target lies in the
swap direction (tick/sqrt-price consistency of the pool). -/
-- Unconditional form: proved in §8 below (`swap_vs_exact_curve_reachable`), which discharges `StepOK` from pool invariants, i.e.
-- (a) `0 ≤ liquidity` in every bucket visited (net-liquidity bookkeeping of positions, CLPool model), and
-- (b) for in-given-out, `target` on the swap side of the current sqrt price: needs tick ↔ sqrt-price
--     consistency of the pool, sortedness of the initialised ticks, monotonicity of `tickToSqrtPrice`
--     (C14Mono) and "the next sqrt price never passes the target" for the four `GetNextSqrtPrice…` functions.
theorem swap_out_le_sum_of_step_ideals {ogi zfo : Bool} {spf pl : Int} {pool : PoolSt} {ticks : Ticks}
    {specified : Int} {r : SwapOut} (hs0 : 0 ≤ spf) (hs1 : spf < P18) (hpool : 0 < pool.sqrtPrice)
    (h : computeSwap ogi zfo spf pl pool ticks specified = some r) :
    ∃ (limit : Int) (tr : List StepRec) (st' : SwapSt),
      Run ogi zfo spf limit
        { remaining := specified * P18, calculated := 0, pool := pool, spreadTotal := 0, noProgress := 0 } tr st' ∧
      Path pool.sqrtPrice tr r.pool.sqrtPrice ∧
      ((∀ e ∈ tr, StepOK ogi zfo e.st.pool.sqrtPrice e.target e.st.pool.liquidity) →
        0 < r.pool.sqrtPrice ∧
        (∀ e ∈ tr, 0 < e.st.pool.sqrtPrice ∧ 0 < e.res.sqrtPriceNext ∧
          InGe zfo e.st.pool.liquidity e.res.sqrtPriceNext e.st.pool.sqrtPrice (e.amtIn ogi) ∧
          (∃ k, 0 ≤ k ∧ e.amtIn ogi = k * P18) ∧
          OutLe zfo e.st.pool.liquidity e.res.sqrtPriceNext e.st.pool.sqrtPrice (e.amtOut ogi) ∧
          0 ≤ e.amtOut ogi ∧ 0 ≤ e.res.spreadCharge) ∧
        r.amountOut * P18 ≤ sumOut ogi tr ∧
        sumIn ogi tr ≤ r.amountIn * P18 ∧ sumIn ogi tr + sumCharge tr ≤ r.amountIn * P18) := by
  obtain ⟨limit, tr, st', -, hv, hrun, -, hp, -, -, c1, c2, -⟩ := computeSwap_run h
  refine ⟨limit, tr, st', hrun, by rw [hp]; exact hrun.path, fun hok => ?_⟩
  have hlim : 0 < limit := by
    cases zfo
    · rw [if_neg (by decide)] at hv; exact Int.lt_of_lt_of_le hpool hv.1
    · rw [if_pos rfl] at hv
      have : (0 : Int) < CL.MinSqrtPriceBigDec := by decide
      omega
  obtain ⟨hfin, hc⟩ := hrun.curve hs0 hs1 hpool hlim hok
  obtain ⟨o0, ch0⟩ := sums_nonneg (ogi := ogi) tr
    (fun e he => ⟨(hc e he).2.2.2.2.2.1, (hc e he).2.2.2.2.2.2⟩)
  refine ⟨by rw [hp]; exact hfin, hc, (c2.1 o0).1, ?_, c1.2⟩
  have := c1.2
  omega

/-- The same with the exact amounts as rational numbers (`CL.exactIn/exactOut zfo liq p q`: the token0
amount `L·|p−q|/(p·q)` resp. token1 amount `L·|p−q|` of the bucket, in 18-decimal raw units;
`sumExactIn/sumExactOut` add them over the steps taken): what the swapper receives is at most, and what
he pays is at least, what the exact piecewise constant-liquidity curve prescribes for the path taken. -/
theorem swap_vs_exact_curve {ogi zfo : Bool} {spf pl : Int} {pool : PoolSt} {ticks : Ticks}
    {specified : Int} {r : SwapOut} (hs0 : 0 ≤ spf) (hs1 : spf < P18) (hpool : 0 < pool.sqrtPrice)
    (h : computeSwap ogi zfo spf pl pool ticks specified = some r) :
    ∃ (limit : Int) (tr : List StepRec) (st' : SwapSt),
      Run ogi zfo spf limit
        { remaining := specified * P18, calculated := 0, pool := pool, spreadTotal := 0, noProgress := 0 } tr st' ∧
      Path pool.sqrtPrice tr r.pool.sqrtPrice ∧
      ((∀ e ∈ tr, StepOK ogi zfo e.st.pool.sqrtPrice e.target e.st.pool.liquidity) →
        (r.amountOut : ℚ) * 10 ^ 18 ≤ sumExactOut zfo tr ∧ sumExactIn zfo tr ≤ (r.amountIn : ℚ) * 10 ^ 18) := by
  obtain ⟨limit, tr, st', hrun, hpath, hk⟩ := swap_out_le_sum_of_step_ideals hs0 hs1 hpool h
  refine ⟨limit, tr, st', hrun, hpath, fun hok => ?_⟩
  obtain ⟨-, hc, ho, hi, -⟩ := hk hok
  obtain ⟨a, b⟩ := sums_vs_exact (ogi := ogi) (zfo := zfo) tr
    (fun e he => ⟨(hc e he).1, (hc e he).2.1, (hc e he).2.2.1, (hc e he).2.2.2.2.1⟩)
  rw [P18_eq] at ho hi
  constructor
  · calc (r.amountOut : ℚ) * 10 ^ 18 ≤ (sumOut ogi tr : ℚ) := by exact_mod_cast ho
      _ ≤ sumExactOut zfo tr := b
  · calc sumExactIn zfo tr ≤ (sumIn ogi tr : ℚ) := a
      _ ≤ (r.amountIn : ℚ) * 10 ^ 18 := by exact_mod_cast hi

/-! ## 7. non-vacuity: concrete instances (liquidity 10^6 tokens, prices around 1) -/

/-- one million units of liquidity (raw 18-decimal). -/
private abbrev L : Int := 1000000 * 10 ^ 18

-- amount deltas between √p = 1.000…007 and 1.1000…003: up is whole tokens, down is not
example : calcAmount0Delta L (10 ^ 36 + 7) (11 * 10 ^ 35 + 3) true = some (90910 * P36) := by decide +kernel
example : calcAmount0Delta L (11 * 10 ^ 35 + 3) (10 ^ 36 + 7) true = some (90910 * P36) := by decide +kernel
example : calcAmount0Delta L (10 ^ 36 + 7) (11 * 10 ^ 35 + 3) false =
    some 90909090909090909090909090909090904570247 := by decide +kernel
example : calcAmount1Delta L (10 ^ 36 + 7) (11 * 10 ^ 35 + 3) true = some (100000 * P36) := by decide +kernel
example : calcAmount1Delta L (10 ^ 36 + 7) (11 * 10 ^ 35 + 3) false =
    some 99999999999999999999999999999999996000000 := by decide +kernel

-- out-given-in step, zero-for-one, spread factor 0.3 %: target reached (1000 tokens remaining) …
example : stepOutGivenIn true (3 * 10 ^ 15) (10 ^ 36) 999500149965006998740209000000000000 L (1000 * 10 ^ 18) =
    some ⟨999500149965006998740209000000000000, 501000000000000000000, 499850034993001259791,
      1507522567703109732⟩ := by decide +kernel
-- … and not reached (100 tokens remaining): the charge is the rest of the remaining amount
example : stepOutGivenIn true (3 * 10 ^ 15) (10 ^ 36) 999500149965006998740209000000000000 L (100 * 10 ^ 18) =
    some ⟨999900309939099071822539292832504600, 100000000000000000000, 99690060900928177460, 0⟩ := by
  decide +kernel
-- one-for-zero
example : stepOutGivenIn false (3 * 10 ^ 15) (10 ^ 36) 1000499875062460964823258000000000000 L (100 * 10 ^ 18) =
    some ⟨1000099700000000000000000000000000000, 100000000000000000000, 99690060900928177460, 0⟩ := by
  decide +kernel
-- in-given-out steps, both directions (not reached / reached)
example : stepInGivenOut true (3 * 10 ^ 15) (10 ^ 36) 999500149965006998740209000000000000 L (100 * 10 ^ 18) =
    some ⟨999900000000000000000000000000000000, 100000000000000000000, 101000000000000000000,
      303911735205616932⟩ := by decide +kernel
example : stepInGivenOut false (3 * 10 ^ 15) (10 ^ 36) 1000499875062460964823258000000000000 L (1000 * 10 ^ 18) =
    some ⟨1000499875062460964823258000000000000, 499625312226808368373, 500000000000000000000,
      1504513540621866000⟩ := by decide +kernel
-- the side conditions of the step theorems hold for these
example : StepOK false true (10 ^ 36) 999500149965006998740209000000000000 L ∧
    StepOK false false (10 ^ 36) 1000499875062460964823258000000000000 L ∧ (0 : Int) ≤ 3 * 10 ^ 15 ∧ 3 * 10 ^ 15 < P18 := by
  unfold StepOK; decide +kernel

/-- a pool at price 1, tick 0, with half of the liquidity leaving at ticks ±100000 and the rest at ±200000. -/
private abbrev pool0 : PoolSt := ⟨10 ^ 36, 0, L⟩
private abbrev ticks0 : Ticks := [(-200000, L / 2), (-100000, L / 2), (100000, -(L / 2)), (200000, -(L / 2))]

-- executed swaps (two steps, one tick crossed) and their estimates, all four kinds
example : execSwap true true (3 * 10 ^ 15) pool0 ticks0 6000 =
    some (⟨6000, 5945, 18000000000000000000,
      ⟨993121821732786572414234489209150395, -137091, 500000000000000000000000⟩, 2, 1⟩, 18) ∧
    estimateSwap true true (3 * 10 ^ 15) pool0 ticks0 6000 = some 5945 := by decide +kernel
example : execSwap false true (3 * 10 ^ 15) pool0 ticks0 6000 =
    some (⟨6057, 6000, 18168505516549653816,
      ⟨993012562893380045000000000000000000, -139261, 500000000000000000000000⟩, 2, 1⟩, 19) ∧
    estimateSwap false true (3 * 10 ^ 15) pool0 ticks0 6000 = some 6057 := by decide +kernel
example : execSwap true false (3 * 10 ^ 15) pool0 ticks0 60000 =
    some (⟨60000, 56341, 180000000000000000000,
      ⟨1070830848170151546921515128000000000, 146678, 500000000000000000000000⟩, 2, 1⟩, 180) ∧
    estimateSwap true false (3 * 10 ^ 15) pool0 ticks0 60000 = some 56341 := by decide +kernel
example : execSwap false false (3 * 10 ^ 15) pool0 ticks0 60000 =
    some (⟨64242, 60000, 192725175526579790868,
      ⟨1079287234808767641893360243967341345, 164860, 500000000000000000000000⟩, 2, 1⟩, 193) ∧
    estimateSwap false false (3 * 10 ^ 15) pool0 ticks0 60000 = some 64242 := by decide +kernel
-- running out of initialised ticks is an error for both
example : execSwap true false (3 * 10 ^ 15) pool0 ticks0 600000 = none ∧
    estimateSwap true false (3 * 10 ^ 15) pool0 ticks0 600000 = none := by decide +kernel

/-! ## 8. reachable pool states: the curve comparison without side conditions

Reachability is that of C07/C01: `CLBook.run (CLBook.initPool s f) ops` for any list `ops` of create / withdraw /
add-to-position / transfer / swap messages (failed messages are no-ops), tick spacing `0 < s`, spread factor
`CLBook.SpfOK f` (`0 ≤ f ≤ 1/2`; every authorised spread factor, `C07.authorized_parameters_ok`).  The swap is any
`computeSwap` with the pool's own price, tick, liquidity, tick list and spread factor and the price limit of an
executed swap (`execPriceLimit zfo`, what `CLPool.swap` = `execSwapS`/`execSwap` pass) or of an estimate (`0`). -/

section Reachable
open OsmoVerif.CLPool OsmoVerif.CLBook OsmoVerif.CLSolv

/-- every reachable state satisfies the C07 invariant and keeps its spread factor. -/
theorem reachable_state_inv {s f : Int} (hs : 0 < s) (hf : SpfOK f) (ops : List Op) :
    Inv (run (initPool s f) ops) ∧ SpfOK (run (initPool s f) ops).spf := by
  have h0 : Inv (initPool s f) := ⟨initPool_core s f, initPool_price f hs, initPool_active s f⟩
  have key : ∀ (ops : List Op) (p : Pool), Inv p → SpfOK p.spf → Inv (run p ops) ∧ SpfOK (run p ops).spf := by
    intro ops
    induction ops with
    | nil => intro p hi hp; exact ⟨hi, hp⟩
    | cons op ops ih =>
      intro p hi hp
      exact ih (step p op) (hi.step op hp) (by rw [(step_spf p op hi.core).1]; exact hp)
  exact key ops _ h0 hf

/-- C03, whole swap, UNCONDITIONAL: for every pool state that satisfies the C07 invariant (in particular every
reachable one) and every swap computed on it — exact-in or exact-out, either direction, executed or estimated —
the swap is a run `tr` of within-bucket steps along a contiguous price path, EVERY step satisfies `StepOK`
(non-negative liquidity in its bucket, target in the swap direction), and
  `amountOut ≤ Σ exact out of the steps`,  `Σ exact in of the steps ≤ amountIn`
(rational exact curve amounts of each step's bucket between the step's actual start and end price). -/
theorem swap_vs_exact_curve_of_invariant {p : Pool} (hinv : Inv p) (hspf : SpfOK p.spf) {ogi zfo : Bool}
    {pl specified : Int} {r : SwapOut} (hpl : pl = 0 ∨ pl = execPriceLimit zfo)
    (h : computeSwap ogi zfo p.spf pl ⟨p.sqrtPrice, p.tick, p.liquidity⟩ (tickList p) specified = some r) :
    ∃ (limit : Int) (tr : List StepRec) (st' : SwapSt),
      Run ogi zfo p.spf limit
        { remaining := specified * P18, calculated := 0, pool := ⟨p.sqrtPrice, p.tick, p.liquidity⟩, spreadTotal := 0,
          noProgress := 0 } tr st' ∧
      Path p.sqrtPrice tr r.pool.sqrtPrice ∧ tr.length = r.steps ∧
      (∀ e ∈ tr, StepOK ogi zfo e.st.pool.sqrtPrice e.target e.st.pool.liquidity) ∧
      (r.amountOut : ℚ) * 10 ^ 18 ≤ sumExactOut zfo tr ∧ sumExactIn zfo tr ≤ (r.amountIn : ℚ) * 10 ^ 18 :=
  swap_vs_exact_curve_of_inv hinv hspf hpl h

theorem swap_vs_exact_curve_reachable {s f : Int} (hs : 0 < s) (hf : SpfOK f) (ops : List Op) {ogi zfo : Bool}
    {pl specified : Int} {r : SwapOut} (hpl : pl = 0 ∨ pl = execPriceLimit zfo)
    (h : computeSwap ogi zfo (run (initPool s f) ops).spf pl
      ⟨(run (initPool s f) ops).sqrtPrice, (run (initPool s f) ops).tick, (run (initPool s f) ops).liquidity⟩
      (tickList (run (initPool s f) ops)) specified = some r) :
    ∃ (limit : Int) (tr : List StepRec) (st' : SwapSt),
      Run ogi zfo (run (initPool s f) ops).spf limit
        { remaining := specified * P18, calculated := 0,
          pool := ⟨(run (initPool s f) ops).sqrtPrice, (run (initPool s f) ops).tick, (run (initPool s f) ops).liquidity⟩,
          spreadTotal := 0, noProgress := 0 } tr st' ∧
      Path (run (initPool s f) ops).sqrtPrice tr r.pool.sqrtPrice ∧ tr.length = r.steps ∧
      (∀ e ∈ tr, StepOK ogi zfo e.st.pool.sqrtPrice e.target e.st.pool.liquidity) ∧
      (r.amountOut : ℚ) * 10 ^ 18 ≤ sumExactOut zfo tr ∧ sumExactIn zfo tr ≤ (r.amountIn : ℚ) * 10 ^ 18 :=
  swap_vs_exact_curve_of_inv (reachable_state_inv hs hf ops).1 (reachable_state_inv hs hf ops).2 hpl h

/-- the same for a swap EXECUTED through the pool's own swap operation (`SwapExactAmountIn/Out`). -/
theorem executed_swap_vs_exact_curve_reachable {s f : Int} (hs : 0 < s) (hf : SpfOK f) (ops : List Op)
    {ogi zfo : Bool} {specified ain aout fee : Int} {p' : Pool}
    (h : CLPool.swap (run (initPool s f) ops) ogi zfo specified = some (p', ain, aout, fee)) :
    ∃ (tr : List StepRec),
      Path (run (initPool s f) ops).sqrtPrice tr p'.sqrtPrice ∧
      (∀ e ∈ tr, StepOK ogi zfo e.st.pool.sqrtPrice e.target e.st.pool.liquidity) ∧
      (aout : ℚ) * 10 ^ 18 ≤ sumExactOut zfo tr ∧ sumExactIn zfo tr ≤ (ain : ℚ) * 10 ^ 18 := by
  obtain ⟨r, _, hex, e1, e2, _, _, e3, _⟩ := swap_bal h
  obtain ⟨limit, tr, st', _, hpath, _, hok, ho, hi⟩ :=
    swap_vs_exact_curve_reachable hs hf ops (Or.inr rfl) (execSwap_spec hex)
  exact ⟨tr, by rw [e3]; exact hpath, hok, by rw [e2]; exact ho, by rw [e1]; exact hi⟩

/-- non-vacuity: the state reached by two creations with OVERLAPPING ranges (alice on [−1000, 1000), bob on
[0, 2000); current price exactly on bob's lower tick 0), and swaps on it that cross an initialised tick:
one-for-zero exact-in 1 500 000 crosses tick 1000 (alice leaves), exact-out 1 400 000 likewise, zero-for-one
exact-in 60 000 crosses tick 0 at once (bob leaves). -/
example :
    let p := run demoInit (demoOps.take 2)
    p.positions = [⟨1, "alice", -1000, 1000, 2001499875062460257502969826⟩, ⟨2, "bob", 0, 2000, 500749875124843813046785138⟩] ∧
    p.tick = 0 ∧ p.sqrtPrice = 10 ^ 36 ∧
    computeSwap true false p.spf 0 ⟨p.sqrtPrice, p.tick, p.liquidity⟩ (tickList p) 1500000 =
      some ⟨1500000, 1497504, 1500000000000000000000,
        ⟨1000994507237732597832529718031126170, 1990, 500749875124843813046785138⟩, 2, 1⟩ ∧
    computeSwap false false p.spf (execPriceLimit false) ⟨p.sqrtPrice, p.tick, p.liquidity⟩ (tickList p) 1400000 =
      some ⟨1402224, 1400000, 1402223223223224622642,
        ⟨1000799440591246664722928910808755021, 1599, 500749875124843813046785138⟩, 2, 1⟩ ∧
    computeSwap true true p.spf 0 ⟨p.sqrtPrice, p.tick, p.liquidity⟩ (tickList p) 60000 =
      some ⟨60000, 59938, 60000000000000000000,
        ⟨999970053355613492107963673895394170, -599, 2001499875062460257502969826⟩, 2, 1⟩ := by
  decide +kernel

/-- … and the theorem instantiated on the first of them. -/
example : ∃ (tr : List StepRec), tr.length = 2 ∧
    (∀ e ∈ tr, StepOK true false e.st.pool.sqrtPrice e.target e.st.pool.liquidity) ∧
    ((1497504 : Int) : ℚ) * 10 ^ 18 ≤ sumExactOut false tr ∧ sumExactIn false tr ≤ ((1500000 : Int) : ℚ) * 10 ^ 18 := by
  have h : computeSwap true false (run (initPool 100 1000000000000000) (demoOps.take 2)).spf 0
      ⟨(run (initPool 100 1000000000000000) (demoOps.take 2)).sqrtPrice,
        (run (initPool 100 1000000000000000) (demoOps.take 2)).tick,
        (run (initPool 100 1000000000000000) (demoOps.take 2)).liquidity⟩
      (tickList (run (initPool 100 1000000000000000) (demoOps.take 2))) 1500000 =
      some ⟨1500000, 1497504, 1500000000000000000000,
        ⟨1000994507237732597832529718031126170, 1990, 500749875124843813046785138⟩, 2, 1⟩ := by decide +kernel
  obtain ⟨_, tr, _, _, _, hlen, hok, ho, hi⟩ :=
    swap_vs_exact_curve_reachable (s := 100) (f := 1000000000000000) (by decide) ⟨by decide, by decide⟩
      (demoOps.take 2) (Or.inl rfl) h
  exact ⟨tr, hlen, hok, ho, hi⟩

end Reachable

/-! ## 9. bounded rounding: how far the result can be from the exact curve

All amounts raw 18-decimal (`10^18` = one token), compared with the exact curve between the ACTUAL start and end
sqrt price of every step (`sumExactIn/sumExactOut`; the rounding of the next sqrt price moves the end price of a
step, which is part of the path).  Per step:
* the amount OUT is the truncation (18 decimals) of a round-down delta: it is less than `outLoss` raw units below
  the exact amount — `1` for token1, `1 + (10^72/(p·q) + 10^36/min p q)/10^18` for token0 (three nested floors at
  36 decimals; `< 1 + 2·10^-6` for sqrt prices ≥ 10^-6);
* the amount IN is the ceiling of a round-up delta that is a WHOLE number of tokens (`QuoRoundUpNextIntMut`,
  `Ceil`): it is less than `inGain` = `10^18` (token1) resp. `10^18 + 10^54/(p·q)` (token0) raw units above the exact
  amount — one whole token per step.
Whole swap: one more token for the final `TruncateInt` / `Ceil`. -/

section Rounding
open OsmoVerif.CLPool OsmoVerif.CLBook OsmoVerif.CLSolv

/-- the explicit bounds. -/
theorem rounding_bounds_def (zfo : Bool) (p q m P spf : Int) :
    outLoss zfo p q = (if zfo then 1 else 1 + (10 ^ 72 / ((p : ℚ) * q) + 10 ^ 36 / ((min p q : Int) : ℚ)) / 10 ^ 18) ∧
    inGain zfo p q = (if zfo then 10 ^ 18 + 10 ^ 54 / ((p : ℚ) * q) else 10 ^ 18) ∧
    outLossU zfo m = (if zfo then 1 else 1 + (10 ^ 72 / ((m : ℚ) * m) + 10 ^ 36 / (m : ℚ)) / 10 ^ 18) ∧
    inGainU zfo m = (if zfo then 10 ^ 18 + 10 ^ 54 / ((m : ℚ) * m) else 10 ^ 18) ∧
    pathFloor zfo P = (if zfo then 1000000000000000000000000000000 else P) ∧
    feeRate spf = (spf : ℚ) / (10 ^ 18 - spf) + 1 / 10 ^ 18 := ⟨rfl, rfl, rfl, rfl, rfl, rfl⟩

/-- one out-given-in step: the amount out is less than `outLoss` raw units below the exact curve. -/
theorem step_out_shortfall_bounded {zfo : Bool} {spf sp target liq rem : Int} {r : StepResult}
    (hsp : 0 < sp) (hn : 0 < r.sqrtPriceNext) (hl : 0 ≤ liq)
    (h : stepOutGivenIn zfo spf sp target liq rem = some r) :
    exactOut zfo liq r.sqrtPriceNext sp - outLoss zfo r.sqrtPriceNext sp < (r.amountOther : ℚ) :=
  stepOutGivenIn_out_lower hsp hn hl h

/-- one step of either kind: the amount in is less than `inGain` raw units above the exact curve. -/
theorem step_in_excess_bounded {ogi zfo : Bool} {spf sp target liq rem : Int} {r : StepResult}
    (hsp : 0 < sp) (hn : 0 < r.sqrtPriceNext)
    (h : (if ogi then stepOutGivenIn zfo spf sp target liq rem else stepInGivenOut zfo spf sp target liq rem) = some r) :
    ((if ogi then r.amountSpecified else r.amountOther : Int) : ℚ) <
      exactIn zfo liq r.sqrtPriceNext sp + inGain zfo r.sqrtPriceNext sp :=
  stepOf_in_upper (ogi := ogi) hsp hn h

/-- the spread charge computed from an amount in exceeds `amountIn·spf/(1−spf)` by less than
`amountIn·10^-18 + 1` raw units. -/
theorem spreadCharge_lt {amountIn spf c : Int} (ha : 0 ≤ amountIn) (hs0 : 0 ≤ spf) (hs1 : spf < P18)
    (h : spreadChargeFromAmountIn amountIn spf = some c) :
    (c : ℚ) < amountIn * ((spf : ℚ) / (10 ^ 18 - spf) + 1 / 10 ^ 18) + 1 :=
  spreadChargeFromAmountIn_lt ha hs0 hs1 h

/-- C03, bounded rounding of the whole swap, for every state that satisfies the C07 invariant and every swap
(executed or estimated), `m = pathFloor zfo p.sqrtPrice` the lowest sqrt price the path can visit:
* both kinds:  `(amountIn − 1)·10^18 < Σ exact in + steps·inGainU zfo m + Σ charges`;
* exact-in:    `Σ exact out − steps·outLossU zfo m − 10^18 < amountOut·10^18`  (and `amountIn ≤ specified`,
  `swap_specified_side_bounded`; `amountOut·10^18 ≤ Σ exact out`, `swap_vs_exact_curve_reachable`);
* exact-out:   `Σ charges ≤ Σ in·feeRate spf + steps` and hence
               `(amountIn − 1)·10^18 < (Σ exact in + steps·inGainU zfo m)·(1 + feeRate spf) + steps`
  (the exact curve with the same spread factor prescribes `Σ exact in·(1 + spf/(1−spf))`). -/
theorem swap_shortfall_bounded {p : Pool} (hinv : Inv p) (hspf : SpfOK p.spf) {ogi zfo : Bool}
    {pl specified : Int} {r : SwapOut} (hpl : pl = 0 ∨ pl = execPriceLimit zfo)
    (h : computeSwap ogi zfo p.spf pl ⟨p.sqrtPrice, p.tick, p.liquidity⟩ (tickList p) specified = some r) :
    ∃ (limit : Int) (tr : List StepRec) (st' : SwapSt),
      Run ogi zfo p.spf limit
        { remaining := specified * P18, calculated := 0, pool := ⟨p.sqrtPrice, p.tick, p.liquidity⟩, spreadTotal := 0,
          noProgress := 0 } tr st' ∧
      Path p.sqrtPrice tr r.pool.sqrtPrice ∧ tr.length = r.steps ∧
      (∀ e ∈ tr, StepOK ogi zfo e.st.pool.sqrtPrice e.target e.st.pool.liquidity) ∧
      ((r.amountOut : ℚ) * 10 ^ 18 ≤ sumExactOut zfo tr ∧ sumExactIn zfo tr ≤ (r.amountIn : ℚ) * 10 ^ 18) ∧
      ((r.amountIn : ℚ) - 1) * 10 ^ 18 <
        sumExactIn zfo tr + r.steps * inGainU zfo (pathFloor zfo p.sqrtPrice) + sumCharge tr ∧
      (ogi = true →
        sumExactOut zfo tr - r.steps * outLossU zfo (pathFloor zfo p.sqrtPrice) - 10 ^ 18 < (r.amountOut : ℚ) * 10 ^ 18) ∧
      (ogi = false →
        (sumCharge tr : ℚ) ≤ (sumIn ogi tr : ℚ) * feeRate p.spf + r.steps ∧
        ((r.amountIn : ℚ) - 1) * 10 ^ 18 <
          (sumExactIn zfo tr + r.steps * inGainU zfo (pathFloor zfo p.sqrtPrice)) * (1 + feeRate p.spf) + r.steps) :=
  swap_rounding_bounded_of_inv hinv hspf hpl h

/-- the same for reachable states, with numbers: when the path stays at sqrt prices ≥ 10^-6 (always for
zero-for-one: the execution floor; for one-for-zero when the pool's price is), an exact-in swap pays out
  `Σ exact out − 1 token − steps·(1 + 2·10^-6)·10^-18 token < amountOut ≤ Σ exact out`
and a swap of either kind charges
  `Σ exact in ≤ amountIn < Σ exact in + Σ charges + (steps + 1) tokens + steps·10^-24 token`. -/
theorem swap_shortfall_bounded_reachable {s f : Int} (hs : 0 < s) (hf : SpfOK f) (ops : List Op) {ogi zfo : Bool}
    {pl specified : Int} {r : SwapOut} (hpl : pl = 0 ∨ pl = execPriceLimit zfo)
    (hfloor : zfo = true ∨ 1000000000000000000000000000000 ≤ (run (initPool s f) ops).sqrtPrice)
    (h : computeSwap ogi zfo (run (initPool s f) ops).spf pl
      ⟨(run (initPool s f) ops).sqrtPrice, (run (initPool s f) ops).tick, (run (initPool s f) ops).liquidity⟩
      (tickList (run (initPool s f) ops)) specified = some r) :
    ∃ (tr : List StepRec),
      Path (run (initPool s f) ops).sqrtPrice tr r.pool.sqrtPrice ∧ tr.length = r.steps ∧
      (r.amountOut : ℚ) * 10 ^ 18 ≤ sumExactOut zfo tr ∧ sumExactIn zfo tr ≤ (r.amountIn : ℚ) * 10 ^ 18 ∧
      ((r.amountIn : ℚ) - 1) * 10 ^ 18 < sumExactIn zfo tr + r.steps * (10 ^ 18 + 1 / 10 ^ 6) + sumCharge tr ∧
      (ogi = true → sumExactOut zfo tr - r.steps * (1 + 2 / 10 ^ 6) - 10 ^ 18 < (r.amountOut : ℚ) * 10 ^ 18) := by
  obtain ⟨hinv, hspf⟩ := reachable_state_inv hs hf ops
  obtain ⟨limit, tr, st', hrun, hpath, hlen, _, ⟨ho, hi⟩, hin, hout, _⟩ := swap_rounding_bounded_of_inv hinv hspf hpl h
  have hm : 1000000000000000000000000000000 ≤ pathFloor zfo (run (initPool s f) ops).sqrtPrice := by
    unfold pathFloor
    rcases hfloor with rfl | hge
    · simp
    · split
      · exact Int.le_refl _
      · exact hge
  have g1 := inGainU_le (zfo := zfo) hm
  have g2 := outLossU_le (zfo := zfo) hm
  have hst : (0 : ℚ) ≤ (r.steps : ℚ) := Nat.cast_nonneg _
  have m1 := mul_le_mul_of_nonneg_left g1 hst
  have m2 := mul_le_mul_of_nonneg_left g2 hst
  refine ⟨tr, hpath, hlen, ho, hi, by linarith, fun hog => ?_⟩
  have := hout hog
  linarith

/-- instance: the tick-crossing one-for-zero exact-in swap of §8 (2 steps, pool price 1): the amount out 1 497 504
is within one token (+ 2.000004·10^-18) of the exact curve along its path. -/
example : ∃ (tr : List StepRec), tr.length = 2 ∧
    ((1497504 : Int) : ℚ) * 10 ^ 18 ≤ sumExactOut false tr ∧
    sumExactOut false tr - ((2 : Nat) : ℚ) * (1 + 2 / 10 ^ 6) - 10 ^ 18 < ((1497504 : Int) : ℚ) * 10 ^ 18 := by
  have h : computeSwap true false (run (initPool 100 1000000000000000) (demoOps.take 2)).spf 0
      ⟨(run (initPool 100 1000000000000000) (demoOps.take 2)).sqrtPrice,
        (run (initPool 100 1000000000000000) (demoOps.take 2)).tick,
        (run (initPool 100 1000000000000000) (demoOps.take 2)).liquidity⟩
      (tickList (run (initPool 100 1000000000000000) (demoOps.take 2))) 1500000 =
      some ⟨1500000, 1497504, 1500000000000000000000,
        ⟨1000994507237732597832529718031126170, 1990, 500749875124843813046785138⟩, 2, 1⟩ := by decide +kernel
  obtain ⟨tr, _, hlen, ho, _, _, hout⟩ :=
    swap_shortfall_bounded_reachable (s := 100) (f := 1000000000000000) (by decide) ⟨by decide, by decide⟩
      (demoOps.take 2) (Or.inl rfl) (Or.inr (by decide +kernel)) h
  exact ⟨tr, hlen, ho, hout rfl⟩

end Rounding

/-! ## 10. swapping there and straight back never returns more than was put in

`CLPool.swap p og zfo spec = some (p', ain, aout, fee)`: the trader pays `ain` (of which `fee` goes to the
spread-reward address and `ain − fee` to the pool) and receives `aout`.  First swap `A → B` (direction `zfo`), second
swap `B → A` (direction `!zfo`) on the state the first one left, no operation in between; any kinds, any amounts.
Proof: potential argument on the exact principal `V0`, `V1` of C01 — each swap pays the pool at least the growth of
the in-potential and takes at most the fall of the out-potential along its own price path; the positions are the same
for both swaps; `V1` is non-decreasing and `V0` non-increasing in the sqrt price and they are flat together (empty
liquidity gaps), so the second swap cannot bring the token-A potential below its starting value without paying at
least the token-B amount the first swap took out. -/

section ThereAndBack
open OsmoVerif.CLPool OsmoVerif.CLBook OsmoVerif.CLSolv

/-- FULL, all four combinations of kinds: if the second swap pays the pool (fee excluded) no more `B` than the first
swap gave out, it returns no more `A` than the first swap paid into the pool (fee excluded); conversely, if it returns
at least that much `A`, it pays the pool at least the `B` the first swap gave out.  Fees are non-negative. -/
theorem there_and_back_no_profit {p p1 p2 : Pool} {og1 og2 zfo : Bool} {x y a b fee1 b' a' fee2 : Int}
    (hinv : Inv p) (hspf : SpfOK p.spf)
    (h1 : CLPool.swap p og1 zfo x = some (p1, a, b, fee1))
    (h2 : CLPool.swap p1 og2 (!zfo) y = some (p2, b', a', fee2)) :
    (b' - fee2 ≤ b → a' ≤ a - fee1) ∧ (a - fee1 ≤ a' → b ≤ b' - fee2) ∧ 0 ≤ fee1 ∧ 0 ≤ fee2 :=
  there_and_back hinv hspf h1 h2

/-- a swap never takes more of the specified side than specified. -/
theorem pool_swap_specified_side_bounded {p p' : Pool} {og zfo : Bool} {spec ain aout fee : Int}
    (h : CLPool.swap p og zfo spec = some (p', ain, aout, fee)) : if og then ain ≤ spec else aout ≤ spec := by
  obtain ⟨r, _, hex, e1, e2, _⟩ := swap_bal h
  have := swap_specified_side_bounded (execSwap_spec hex)
  rw [e1, e2]; exact this

/-- exact-in there, exact-in back with the amount just received: `a' ≤ a − fee₁ ≤ a` (spread factor ≥ 0). -/
theorem there_and_back_exact_in {p p1 p2 : Pool} {zfo : Bool} {x a b fee1 b' a' fee2 : Int}
    (hinv : Inv p) (hspf : SpfOK p.spf)
    (h1 : CLPool.swap p true zfo x = some (p1, a, b, fee1))
    (h2 : CLPool.swap p1 true (!zfo) b = some (p2, b', a', fee2)) :
    a' ≤ a - fee1 ∧ a' ≤ a ∧ a ≤ x := by
  obtain ⟨k1, _, f1, f2⟩ := there_and_back hinv hspf h1 h2
  have hb : b' ≤ b := by simpa using pool_swap_specified_side_bounded h2
  have ha : a ≤ x := by simpa using pool_swap_specified_side_bounded h1
  have := k1 (by omega)
  exact ⟨this, by omega, ha⟩

/-- exact-out there (request `b`, pay `a`), exact-out back requesting the `a` just paid: if the request is served in
full (`a' = a`) the trader pays at least the `b` he received: `b ≤ b' − fee₂ ≤ b'`. -/
theorem there_and_back_exact_out {p p1 p2 : Pool} {zfo : Bool} {x a b fee1 b' a' fee2 : Int}
    (hinv : Inv p) (hspf : SpfOK p.spf)
    (h1 : CLPool.swap p false zfo x = some (p1, a, b, fee1))
    (h2 : CLPool.swap p1 false (!zfo) a = some (p2, b', a', fee2)) (hfull : a' = a) :
    b ≤ b' - fee2 ∧ b ≤ b' ∧ b ≤ x := by
  obtain ⟨_, k2, f1, f2⟩ := there_and_back hinv hspf h1 h2
  have hb : b ≤ x := by simpa using pool_swap_specified_side_bounded h1
  have := k2 (by omega)
  exact ⟨this, by omega, hb⟩

/-- for every reachable state. -/
theorem there_and_back_no_profit_reachable {s f : Int} (hs : 0 < s) (hf : SpfOK f) (ops : List Op) {p1 p2 : Pool}
    {zfo : Bool} {x a b fee1 b' a' fee2 : Int}
    (h1 : CLPool.swap (run (initPool s f) ops) true zfo x = some (p1, a, b, fee1))
    (h2 : CLPool.swap p1 true (!zfo) b = some (p2, b', a', fee2)) : a' ≤ a :=
  (there_and_back_exact_in (reachable_state_inv hs hf ops).1 (reachable_state_inv hs hf ops).2 h1 h2).2.1

/-- `p1` above is the next state of the history, so "no operation in between" is `ops ++ [swap, swap]`. -/
theorem there_and_back_is_a_history {p p1 : Pool} {og zfo : Bool} {x a b fee : Int}
    (h : CLPool.swap p og zfo x = some (p1, a, b, fee)) : step p (.swap og zfo x) = p1 := by
  simp [step, CLBook.apply, h]

/-- instance on the state of §8: 1 500 000 of token1 in → 1 497 504 of token0 out (crosses tick 1000), straight back
1 497 504 of token0 in → 1 497 000 of token1 out (crosses it again): `1 497 000 ≤ 1 500 000 − 1 500`. -/
example :
    let p := run demoInit (demoOps.take 2)
    (CLPool.swap p true false 1500000).map (fun x => x.2) = some (1500000, 1497504, 1500) ∧
    ((CLPool.swap p true false 1500000).bind fun x =>
      (CLPool.swap x.1 true true 1497504).map fun y => (y.2, y.1.tick)) = some ((1497504, 1497000, 1497), 1) := by
  decide +kernel

end ThereAndBack

end OsmoVerif.Props.C03
