/-
C04 (real-valued part, UNCONDITIONAL on the middle of `Pow`'s domain) — the `…_of_pow_accuracy` theorems of
`Props/C04Real` take the accuracy of the ONE `Pow` call as a HYPOTHESIS `|pw/10^18 − (y/10^18)^(wr/10^18)| ≤ ε`.
`Props/C13Pow.pow_accuracy_mid` / `pow_accuracy_upper` prove that hypothesis for every base in `[0.5, 1.99]`; here it is
DISCHARGED for the balancer operations whose trade size keeps the base in that interval:

* exact-in swap: base `≈ R_in/(R_in + a·(1 − spread)) ≥ 0.5` iff `a·(1 − spread) ≤ R_in` (token in, after the spread
  factor, at most the in-reserve) — EXACTLY a MaxInRatio-style guard, which this tree does NOT declare
  (`Props.C04.no_max_ratio_guard_declared`): without it bases below 0.5 are reachable and the documented precision is
  false (C13 F9, findings F22/F23).  With it: `ε = 10^-8`, any weight ratio up to `2^20` (the largest the weights allow):
  `balancer_swap_out_pow_accuracy_mid`, `balancer_swap_out_mid`, `balancer_swap_out_vs_exact_mid`,
  `balancer_swap_out_weighted_product_mid`.
* exact-out swap: base `≈ R_out/(R_out − a) ≤ 1.99` iff `199·a ≤ 99·R_out` (token out below 49.7 % of the out-reserve:
  a MaxOutRatio-style guard; C04Real's exact-formula theorem itself needs `2·a ≤ R_out`); weight ratios up to 99;
  `ε = 2^M·10^-8` for exponents up to `M` (the error of `Pow` is RELATIVE above base 1:
  `Props.C13Pow.pow_abs_precision_fails_above_one_witness`): `balancer_swap_in_pow_accuracy_mid`,
  `balancer_swap_in_vs_exact_mid`.
* single-asset join: base `≈ (A + amt·feeRatio)/A ≤ 1.99` as soon as `100·amt ≤ 99·A`; exponent the normalized weight
  `≤ 1`; `ε = 2·10^-8`: `balancer_single_join_vs_exact_mid`.
* single-asset exit: whenever the base actually used is at least 0.5 (i.e. `amtOut/feeRatio ≤ A/2`), `ε = 10^-8`:
  `balancer_exit_swap_pow_accuracy_mid`, `balancer_exit_swap_vs_exact_mid`, `balancer_exit_swap_product_per_share_mid`.
* shares out → token in: base `(S + sharesOut)/S ≤ 1.99` for `100·sharesOut ≤ 99·S`, exponent `1/nw ≤ 100`; relative
  `10^-8`: `balancer_token_in_share_out_mid` (two-sided bound in terms of the real power on the base and exponent used;
  against the EXACT formula it is open in C04Real as well).
All FULL (no accuracy hypothesis left).  NOT covered: bases outside `[0.5, 1.99]` (below 0.4737 the documented precision
is FALSE: `Props.C13Pow.pow_accuracy_fails_below_witness`; near 2 `Pow` panics: `pow_panics_near_two_witness`).
-/
import OsmoVerif.Proofs.GammRealMid
import OsmoVerif.Props.C04Real

namespace OsmoVerif.Props.C04Mid
open OsmoVerif.GammMath OsmoVerif.Num OsmoVerif.MathM OsmoVerif.Gen OsmoVerif.Spec

/-! ## exact-in swap -/

/-- FULL. The accuracy hypothesis of the exact-in swap theorems, PROVED: if the token in after the spread factor does
not exceed the in-reserve (base `≥ 0.5`) and the weights are within `2^20` of each other, the `Pow` call is within the
documented `10^-8` of the real power on the base and exponent used; base and exponent are in `[0.5, 1]`, `[0, 10^8]`. -/
theorem balancer_swap_out_pow_accuracy_mid {p : BalPool} {dIn dOut : String} {amt spread : Int} {aIn aOut : BalAsset}
    {wr y pw : Int} (hc : SwapOutCall p dIn dOut amt spread aIn aOut wr y pw)
    (hRi : 0 < aIn.amount) (ha : 0 ≤ amt) (hs1 : spread ≤ P18) (hwi : 0 < aIn.weight) (hwo : 0 < aOut.weight)
    (hw : aIn.weight ≤ 2 ^ 20 * aOut.weight) (hmax : amt * (P18 - spread) ≤ toDec aIn.amount) :
    |dv pw - dv y ^ dv wr| ≤ 1 / 10 ^ 8 ∧ 1 / 2 ≤ dv y ∧ 1 / 2 ≤ outBase aIn.amount amt spread := by
  obtain ⟨hy1, hy2, hB⟩ := outBase_mid hc.hy hRi ha hs1 hmax
  obtain ⟨hw0, hw1⟩ := wr_range hc.hwr hwi hwo hw
  refine ⟨pow_call_le_one hc.hpw hy1 hy2 hw0 hw1, ?_, hB⟩
  have := dv_le hy1; rwa [dv_half] at this

/-- FULL (conditional theorem (a) of C04Real with its hypothesis discharged). Exact-in swap against the EXACT
constant-weighted-product formula, for `a·(1 − spread) ≤ R_in`:
`|out − R_out·(1 − B^E)| ≤ R_out·(10^-8 + powDelta (1/2) M) + 1`, `B = R_in/(R_in + a(1 − spread))`, `E = w_in/w_out`,
`M` any bound of the exponents. -/
theorem balancer_swap_out_vs_exact_mid {p : BalPool} {dIn dOut : String} {amt spread t : Int}
    (h : balCalcOut p [(dIn, amt)] dOut spread = .ok t) :
    ∃ aIn aOut wr y pw, SwapOutCall p dIn dOut amt spread aIn aOut wr y pw ∧
      ∀ M : ℝ, 0 ≤ aOut.amount → 0 < aIn.amount → 0 ≤ amt → spread ≤ P18 → 0 < aIn.weight → 0 < aOut.weight →
        aIn.weight ≤ 2 ^ 20 * aOut.weight → amt * (P18 - spread) ≤ toDec aIn.amount →
        dv wr ≤ M → wRatio aIn.weight aOut.weight ≤ M →
        |(t : ℝ) - (aOut.amount : ℝ) * (1 - outBase aIn.amount amt spread ^ wRatio aIn.weight aOut.weight)| ≤
          (aOut.amount : ℝ) * (1 / 10 ^ 8 + powDelta (1 / 2) M) + 1 := by
  obtain ⟨aIn, aOut, wr, y, pw, hc, hmain⟩ := C04Real.swap_out_vs_exact_of_pow_accuracy h
  refine ⟨aIn, aOut, wr, y, pw, hc, fun M hRo hRi ha hs1 hwi hwo hw hmax hM1 hM2 => ?_⟩
  obtain ⟨hacc, hy, hB⟩ := balancer_swap_out_pow_accuracy_mid hc hRi ha hs1 hwi hwo hw hmax
  exact hmain (1 / 10 ^ 8) (1 / 2) M hacc hRo hRi ha hs1 hwi hwo (by norm_num) (by norm_num) hy hB hM1 hM2

/-- FULL. Two-sided bound of the integer paid out in terms of the real power on the base and exponent used. -/
theorem balancer_swap_out_mid {p : BalPool} {dIn dOut : String} {amt spread t : Int}
    (h : balCalcOut p [(dIn, amt)] dOut spread = .ok t) :
    ∃ aIn aOut wr y pw, SwapOutCall p dIn dOut amt spread aIn aOut wr y pw ∧
      (0 ≤ aOut.amount → 0 < aIn.amount → 0 ≤ amt → spread ≤ P18 → 0 < aIn.weight → 0 < aOut.weight →
        aIn.weight ≤ 2 ^ 20 * aOut.weight → amt * (P18 - spread) ≤ toDec aIn.amount →
        (aOut.amount : ℝ) * (1 - dv y ^ dv wr - 1 / 10 ^ 8) - 1 < t ∧
        (t : ℝ) ≤ (aOut.amount : ℝ) * (1 - dv y ^ dv wr + 1 / 10 ^ 8)) := by
  obtain ⟨aIn, aOut, wr, y, pw, hc, hmain⟩ := C04Real.swap_out_of_pow_accuracy h
  refine ⟨aIn, aOut, wr, y, pw, hc, fun hRo hRi ha hs1 hwi hwo hw hmax => ?_⟩
  exact hmain _ (balancer_swap_out_pow_accuracy_mid hc hRi ha hs1 hwi hwo hw hmax).1 hRo

/-- FULL. The weighted product after an exact-in swap with `a·(1 − spread) ≤ R_in`, for ANY total weight `W > 0`:
`(R_in'/R_in)^(w_in/W)·(R_out'/R_out)^(w_out/W) ≥ ((b^e − 10^-8)/B^E)^(w_out/W)`: it falls by at most the documented
power precision (relative to `B^E ≥ 2^-(w_in/w_out)`). -/
theorem balancer_swap_out_weighted_product_mid {p p' : BalPool} {dIn dOut : String} {amt spread out : Int}
    (h : balSwapOut p [(dIn, amt)] dOut spread = .ok (out, p')) :
    ∃ aIn aOut wr y pw aIn' aOut', SwapOutCall p dIn dOut amt spread aIn aOut wr y pw ∧
      findAsset p'.assets dIn = some aIn' ∧ findAsset p'.assets dOut = some aOut' ∧
      aIn'.weight = aIn.weight ∧ aOut'.weight = aOut.weight ∧
      ∀ W : ℝ, 0 ≤ dv y ^ dv wr - 1 / 10 ^ 8 →
        0 < aIn.amount → 0 < aOut.amount → 0 ≤ amt → 0 ≤ spread → spread ≤ P18 →
        0 < aIn.weight → 0 < aOut.weight → 0 < W →
        aIn.weight ≤ 2 ^ 20 * aOut.weight → amt * (P18 - spread) ≤ toDec aIn.amount →
        ((dv y ^ dv wr - 1 / 10 ^ 8) / outBase aIn.amount amt spread ^ wRatio aIn.weight aOut.weight) ^
            ((aOut.weight : ℝ) / W) ≤
          ((aIn'.amount : ℝ) / aIn.amount) ^ ((aIn.weight : ℝ) / W) *
          ((aOut'.amount : ℝ) / aOut.amount) ^ ((aOut.weight : ℝ) / W) := by
  obtain ⟨aIn, aOut, wr, y, pw, aIn', aOut', hc, g1, g2, w1, w2, hmain⟩ :=
    C04Real.swap_out_weighted_product_of_pow_accuracy h
  refine ⟨aIn, aOut, wr, y, pw, aIn', aOut', hc, g1, g2, w1, w2, ?_⟩
  intro W hX hRi hRo ha hs0 hs1 hwi hwo hW hw hmax
  exact hmain _ W (balancer_swap_out_pow_accuracy_mid hc hRi ha hs1 hwi hwo hw hmax).1 hX hRi hRo ha hs0 hs1 hwi hwo hW

/-! ## exact-out swap -/

/-- FULL. The accuracy hypothesis of the exact-out swap theorems, PROVED: if `199·a ≤ 99·R_out` (token out below 49.7 %
of the out-reserve: base `≤ 1.99`) and `w_out ≤ 99·w_in`, the `Pow` call is within RELATIVE `10^-8`. -/
theorem balancer_swap_in_pow_accuracy_mid {p : BalPool} {dIn dOut : String} {amt spread : Int} {aIn aOut : BalAsset}
    {wr y pw q : Int} (hc : SwapInCall p dIn dOut amt spread aOut aIn wr y pw q)
    (hRo : 0 < aOut.amount) (ha : 0 ≤ amt) (hwi : 0 < aIn.weight) (hwo : 0 < aOut.weight)
    (hw : aOut.weight ≤ 99 * aIn.weight) (hmax : 199 * amt ≤ 99 * aOut.amount) :
    |dv pw - dv y ^ dv wr| ≤ dv y ^ dv wr / 10 ^ 8 ∧
      ∀ M : ℝ, dv wr ≤ M → |dv pw - dv y ^ dv wr| ≤ (2 : ℝ) ^ M / 10 ^ 8 := by
  obtain ⟨hy1, hy2⟩ := inBase_mid hc.hy hRo ha hmax
  obtain ⟨hw0, hw1⟩ := wr_range_100 hc.hwr hwo hwi hw
  exact ⟨pow_call_ge_one hc.hpw hy1 hy2 hw0 hw1, fun M hM => pow_call_ge_one_const hc.hpw hy1 hy2 hw0 hw1 hM⟩

/-- FULL (conditional theorem (b) of C04Real with its hypothesis discharged). Exact-out swap against the EXACT formula
`R_in·(B^E − 1)/(1 − spread)`, `B = R_out/(R_out − a)`, `E = w_out/w_in`, for `199·a ≤ 99·R_out`:
`|in − R_in·(B^E − 1)/(1 − spread)| ≤ (2^M·10^-8 + powDelta 1 M)·R_in/(1 − spread) + quoErr + 1`. -/
theorem balancer_swap_in_vs_exact_mid {p : BalPool} {dIn dOut : String} {amt spread t : Int}
    (h : balCalcIn p [(dOut, amt)] dIn spread = .ok t) :
    ∃ aOut aIn wr y pw q, SwapInCall p dIn dOut amt spread aOut aIn wr y pw q ∧
      ∀ M : ℝ, 0 ≤ aIn.amount → 0 < aOut.amount → 0 ≤ amt → 199 * amt ≤ 99 * aOut.amount → spread < P18 →
        0 < aIn.weight → 0 < aOut.weight → aOut.weight ≤ 99 * aIn.weight →
        dv wr ≤ M → wRatio aOut.weight aIn.weight ≤ M →
        |(t : ℝ) - (inBase aOut.amount amt ^ wRatio aOut.weight aIn.weight - 1) * (aIn.amount : ℝ) / (1 - dv spread)| ≤
          ((2 : ℝ) ^ M / 10 ^ 8 + powDelta 1 M) * (aIn.amount : ℝ) / (1 - dv spread) + quoErr + 1 := by
  obtain ⟨aOut, aIn, wr, y, pw, q, hc, hmain⟩ := C04Real.swap_in_vs_exact_of_pow_accuracy h
  refine ⟨aOut, aIn, wr, y, pw, q, hc, fun M hRi hRo ha hmax hs1 hwi hwo hw hM1 hM2 => ?_⟩
  have hacc := (balancer_swap_in_pow_accuracy_mid hc hRo ha hwi hwo hw hmax).2 M hM1
  exact hmain _ M hacc hRi hRo ha (by omega) hs1 hwi hwo hM1 hM2

/-! ## single-asset join -/

/-- FULL (conditional theorem (c) with its hypothesis discharged). Single-asset join of at most 99 % of the reserve
(`100·amt ≤ 99·A`: base in `[1, 1.99]`), against the EXACT formula `S·(B^W − 1)`: with `ε = 2·10^-8`,
`S·(B^W − ε − δ − 1) − 1 < shares ≤ max(S·(B^W + ε + δ − 1), 0)`, `δ` the rounding of base and exponent. -/
theorem balancer_single_join_vs_exact_mid {p : BalPool} {denom : String} {amt spread T t : Int} {asset : BalAsset}
    (h : balCalcSingleAssetJoin p denom amt spread asset T = .ok t) :
    ∃ nw fr y pw, JoinCall p amt spread asset nw fr y pw ∧
      (0 < asset.amount → 0 ≤ amt → 100 * amt ≤ 99 * asset.amount → 0 ≤ spread → spread ≤ P18 → 0 ≤ asset.weight →
        asset.weight ≤ p.totalWeight → 0 < p.totalWeight → 0 ≤ T →
        |dv pw - dv y ^ dv nw| ≤ 2 / 10 ^ 8 ∧
        let X := joinBase asset.amount amt asset.weight p.totalWeight spread ^ wRatio asset.weight p.totalWeight
        let δ := 2 * (quoErr + (amt : ℝ) / (asset.amount : ℝ) * (mulErr + quoErr) + quoErr)
        (T : ℝ) * (X - (2 / 10 ^ 8 + δ) - 1) - 1 < t ∧
          (t : ℝ) ≤ max ((T : ℝ) * (X + (2 / 10 ^ 8 + δ) - 1)) 0) := by
  obtain ⟨nw, fr, y, pw, hc, hmain⟩ := C04Real.single_join_vs_exact_of_pow_accuracy h
  refine ⟨nw, fr, y, pw, hc, fun hA ha hmax hs0 hs1 hw0 hw1 hW hT => ?_⟩
  have hWd : 0 < toDec p.totalWeight := Int.mul_pos hW P18_pos
  have hnw0 : 0 ≤ nw := Dec_quo_nonneg hc.hnw (Int.mul_nonneg hw0 (Int.le_of_lt P18_pos)) hWd
  have hnw1 : nw ≤ P18 := Dec_quo_le_one hc.hnw (Int.mul_le_mul_of_nonneg_right hw1 (Int.le_of_lt P18_pos)) hWd
  obtain ⟨hf0, hf1⟩ := feeRatio_range hc.hfr hnw0 hnw1 hs0 hs1
  obtain ⟨hy1, hyr⟩ := join_base_le_ratio hc.hy hA ha hf0 hf1
  have hA' : (0 : ℝ) < asset.amount := by exact_mod_cast hA
  have ha' : (0 : ℝ) ≤ amt := by exact_mod_cast ha
  have hmax' : 100 * (amt : ℝ) ≤ 99 * asset.amount := by exact_mod_cast hmax
  have hratio : ((asset.amount + amt : Int) : ℝ) / (asset.amount : ℝ) ≤ 199 / 100 := by
    rw [div_le_iff₀ hA']; push_cast; linarith only [hmax']
  have hq := quoErr_lt_ulp
  have hyP : P18 ≤ y := by apply int_ge_of_dv; rw [dv_P18]; linarith only [hy1, show (0 : ℝ) < 1 / 10 ^ 18 by positivity]
  have hy15 : y ≤ 199 * 10 ^ 16 := by apply int_le_of_dv; rw [dv_199]; linarith only [hyr, hratio, hq]
  have hnwr : dv nw ≤ 1 := by have := dv_le hnw1; rwa [dv_P18] at this
  have := P18_val
  have hacc : |dv pw - dv y ^ dv nw| ≤ 2 / 10 ^ 8 := by
    have := pow_call_ge_one_const (M := 1) hc.hpw hyP hy15 hnw0 (by omega) hnwr
    rwa [Real.rpow_one] at this
  -- the exact base is at most 3/2 as well
  have hB2 : joinBase asset.amount amt asset.weight p.totalWeight spread ≤ 2 := by
    have hW' : (0 : ℝ) < p.totalWeight := by exact_mod_cast hW
    have hw0' : (0 : ℝ) ≤ asset.weight := by exact_mod_cast hw0
    have hw1' : (asset.weight : ℝ) ≤ p.totalWeight := by exact_mod_cast hw1
    have hs0' := dv_nonneg hs0
    have hs1' : dv spread ≤ 1 := by have := dv_le hs1; rwa [dv_P18] at this
    have hWr0 : 0 ≤ wRatio asset.weight p.totalWeight := by unfold wRatio; positivity
    have hWr1 : wRatio asset.weight p.totalWeight ≤ 1 := by unfold wRatio; rw [div_le_one hW']; exact hw1'
    have hF1 : feeRatioExact (wRatio asset.weight p.totalWeight) (dv spread) ≤ 1 := by
      unfold feeRatioExact
      have : 0 ≤ (1 - wRatio asset.weight p.totalWeight) * dv spread := mul_nonneg (by linarith only [hWr1]) hs0'
      linarith only [this]
    unfold joinBase
    rw [div_le_iff₀ hA']
    nlinarith only [hF1, ha', hmax', hA']
  exact ⟨hacc, hmain _ hacc hA ha hs0 hs1 hw0 hw1 hW hT hB2⟩

/-! ## single-asset exit -/

/-- FULL. The accuracy hypothesis of the exit theorems, PROVED whenever the base actually used is at least 0.5
(`amtOut/feeRatio ≤ A/2`): absolute `10^-8`. -/
theorem balancer_exit_swap_pow_accuracy_mid {p : BalPool} {denom : String} {amtOut : Int} {a : BalAsset}
    {nw fr outFee y pw x : Int} (hc : ExitCall p denom amtOut a nw fr outFee y pw x)
    (hA : 0 < a.amount) (ho : 0 ≤ amtOut) (hf0 : 0 ≤ p.swapFee) (hf1 : p.swapFee ≤ P18)
    (hw0 : 0 ≤ a.weight) (hw1 : a.weight ≤ p.totalWeight) (hW : 0 < p.totalWeight) (hy : 5 * 10 ^ 17 ≤ y) :
    |dv pw - dv y ^ dv nw| ≤ 1 / 10 ^ 8 := by
  have hWd : 0 < toDec p.totalWeight := Int.mul_pos hW P18_pos
  have hnw0 : 0 ≤ nw := Dec_quo_nonneg hc.hnw (Int.mul_nonneg hw0 (Int.le_of_lt P18_pos)) hWd
  have hnw1 : nw ≤ P18 := Dec_quo_le_one hc.hnw (Int.mul_le_mul_of_nonneg_right hw1 (Int.le_of_lt P18_pos)) hWd
  obtain ⟨hfr0, hfr1⟩ := feeRatio_range hc.hfr hnw0 hnw1 hf0 hf1
  have hfne : fr ≠ 0 := (GammMath.Dec_quo_real_error hc.hof).1
  have hfpos : 0 < fr := by omega
  have hof0 : 0 ≤ outFee := Dec_quo_nonneg hc.hof (Int.mul_nonneg ho (Int.le_of_lt P18_pos)) hfpos
  have hAd : 0 < toDec a.amount := Int.mul_pos hA P18_pos
  have hy1 : y ≤ P18 := Dec_quo_le_one hc.hy (by omega) hAd
  have := P18_val
  exact pow_call_le_one hc.hpw hy hy1 hnw0 (by omega)

/-- FULL (conditional theorem (e) with its hypothesis discharged). Single-asset exit whose base is at least 0.5,
against the EXACT formula `S·(1 − B^W)/(1 − exitFee)`:
`(1 − B^W − 10^-8 − δ)·S/(1 − exitFee) − quoErr − 1 < sharesBurned ≤ (1 − B^W + 10^-8 + δ)·S/(1 − exitFee) + quoErr`. -/
theorem balancer_exit_swap_vs_exact_mid {p p' : BalPool} {denom : String} {amtOut maxShares s : Int}
    (h : balExitSwapOut p denom amtOut maxShares = .ok (s, p')) :
    ∃ a nw fr outFee y pw x, ExitCall p denom amtOut a nw fr outFee y pw x ∧
      ∀ φ : ℝ, 5 * 10 ^ 17 ≤ y →
        0 < a.amount → 0 ≤ p.swapFee → p.swapFee ≤ P18 → p.exitFee < P18 →
        0 ≤ a.weight → a.weight ≤ p.totalWeight → 0 < p.totalWeight → 0 ≤ p.totalShares →
        0 < φ → φ ≤ dv fr → φ ≤ feeRatioExact (wRatio a.weight p.totalWeight) (dv p.swapFee) →
        1 / 2 ≤ exitBase a.amount amtOut a.weight p.totalWeight p.swapFee →
        let X := exitBase a.amount amtOut a.weight p.totalWeight p.swapFee ^ wRatio a.weight p.totalWeight
        let δ := 2 * (quoErr + (quoErr + (amtOut : ℝ) * (mulErr + quoErr) / (φ * φ)) / (a.amount : ℝ) + quoErr) / (1 / 2)
        (1 - X - (1 / 10 ^ 8 + δ)) * (p.totalShares : ℝ) / (1 - dv p.exitFee) - quoErr - 1 < s ∧
          (s : ℝ) ≤ (1 - X + (1 / 10 ^ 8 + δ)) * (p.totalShares : ℝ) / (1 - dv p.exitFee) + quoErr := by
  obtain ⟨a, nw, fr, outFee, y, pw, x, hc, _, _, _, _, ho0, _⟩ := balExitSwapOut_floor h
  obtain ⟨a', nw', fr', outFee', y', pw', x', hc', hmain⟩ := C04Real.exit_swap_vs_exact_of_pow_accuracy h
  refine ⟨a', nw', fr', outFee', y', pw', x', hc', fun φ hy hA hf0 hf1 he1 hw0 hw1 hW hS hφ hφ1 hφ2 hB => ?_⟩
  have ho0' : 0 ≤ amtOut := ho0
  have hacc := balancer_exit_swap_pow_accuracy_mid hc' hA ho0' hf0 hf1 hw0 hw1 hW hy
  have hyr : (1 : ℝ) / 2 ≤ dv y' := by have := dv_le hy; rwa [dv_half] at this
  exact hmain _ (1 / 2) φ hacc hA hf0 hf1 he1 hw0 hw1 hW hS hφ hφ1 hφ2 (by norm_num) (by norm_num) hyr hB

/-- FULL. The weighted product per share after a single-asset exit whose base is at least 0.5, for ANY `ω ≥ 0`:
`(A'/A)^ω / (S'/S) ≥ (b − quoErr·(1 + 1/A))^ω / (b^e + 10^-8 + (1 + quoErr)/S)`. -/
theorem balancer_exit_swap_product_per_share_mid {p p' : BalPool} {denom : String} {amtOut maxShares s : Int}
    (h : balExitSwapOut p denom amtOut maxShares = .ok (s, p')) :
    ∃ a a' nw fr outFee y pw x, ExitCall p denom amtOut a nw fr outFee y pw x ∧
      findAsset p'.assets denom = some a' ∧ a'.weight = a.weight ∧
      a'.amount = writtenAmount a.amount (a.amount - amtOut) ∧ p'.totalShares = p.totalShares - s ∧
      ∀ ω : ℝ, 5 * 10 ^ 17 ≤ y →
        0 < a.amount → 0 ≤ p.swapFee → p.swapFee ≤ P18 → 0 ≤ p.exitFee → p.exitFee < P18 →
        0 ≤ a.weight → a.weight ≤ p.totalWeight → 0 < p.totalWeight → 0 < p'.totalShares → 0 ≤ ω →
        0 ≤ dv y - quoErr * (1 + 1 / (a.amount : ℝ)) →
        (dv y - quoErr * (1 + 1 / (a.amount : ℝ))) ^ ω /
            (dv y ^ dv nw + 1 / 10 ^ 8 + (1 + quoErr) / (p.totalShares : ℝ)) ≤
          ((a'.amount : ℝ) / a.amount) ^ ω / ((p'.totalShares : ℝ) / p.totalShares) := by
  obtain ⟨_, _, _, _, _, _, _, _, _, _, _, _, ho0, _⟩ := balExitSwapOut_floor h
  obtain ⟨a, a', nw, fr, outFee, y, pw, x, hc, g1, g2, g3, g4, hmain⟩ :=
    C04Real.exit_swap_product_per_share_of_pow_accuracy h
  refine ⟨a, a', nw, fr, outFee, y, pw, x, hc, g1, g2, g3, g4, ?_⟩
  intro ω hy hA hf0 hf1 he0 he1 hw0 hw1 hW hS' hω hlo
  have hacc := balancer_exit_swap_pow_accuracy_mid hc hA ho0 hf0 hf1 hw0 hw1 hW hy
  exact hmain _ ω hacc hA hf0 hf1 he0 he1 hw0 hw1 hW hS' hω hlo

/-! ## shares out → token in -/

/-- FULL (conditional theorem (d) with its hypothesis discharged). `CalcTokenInShareAmountOut` for at most 99 % of the
share supply (`100·sharesOut ≤ 99·S`: base `(S + sharesOut)/S` in `[1, 1.99]`) and an exponent `1/nw` up to 100
(normalized weight at least 0.01): with `X = b^e` the real power on the base and exponent used,
`(X·(1 − 10^-8) − 1)·A/f − quoErr ≤ tokenIn < (X·(1 + 10^-8) − 1)·A/f + quoErr + 1`. -/
theorem balancer_token_in_share_out_mid {p : BalPool} {denom : String} {sharesOut spread t : Int}
    (h : balTokenInShareOut p denom sharesOut spread = .ok t) :
    ∃ a nw wr y pw fr q, ShareOutCall p denom sharesOut spread a nw wr y pw fr q ∧
      (0 < p.totalShares → 0 ≤ sharesOut → 100 * sharesOut ≤ 99 * p.totalShares → 0 ≤ wr → wr ≤ 100 * P18 →
        0 ≤ a.amount → 0 < fr →
        |dv pw - dv y ^ dv wr| ≤ dv y ^ dv wr / 10 ^ 8 ∧
        (dv y ^ dv wr - dv y ^ dv wr / 10 ^ 8 - 1) * (a.amount : ℝ) / dv fr - quoErr ≤ t ∧
        (t : ℝ) < (dv y ^ dv wr + dv y ^ dv wr / 10 ^ 8 - 1) * (a.amount : ℝ) / dv fr + quoErr + 1) := by
  obtain ⟨a, nw, wr, y, pw, fr, q, hc, hmain⟩ := C04Real.token_in_share_out_of_pow_accuracy h
  refine ⟨a, nw, wr, y, pw, fr, q, hc, fun hS hso hmax hw0 hw1 hA hfr => ?_⟩
  have hS' : (0 : ℝ) < p.totalShares := by exact_mod_cast hS
  have hso' : (0 : ℝ) ≤ sharesOut := by exact_mod_cast hso
  have hmax' : 100 * (sharesOut : ℝ) ≤ 99 * p.totalShares := by exact_mod_cast hmax
  obtain ⟨_, he⟩ := Dec_quo_dv_error hc.hy
  rw [dv_add, dv_toDec, dv_toDec] at he
  have hr1 : 1 ≤ ((p.totalShares : ℝ) + sharesOut) / p.totalShares := by
    rw [le_div_iff₀ hS']; linarith only [hso']
  have hr2 : ((p.totalShares : ℝ) + sharesOut) / p.totalShares ≤ 199 / 100 := by
    rw [div_le_iff₀ hS']; linarith only [hmax']
  obtain ⟨e1, e2⟩ := abs_le.mp he
  have hq := quoErr_lt_ulp
  have hy1 : P18 ≤ y := by apply int_ge_of_dv; rw [dv_P18]; linarith only [e1, hr1, hq]
  have hy2 : y ≤ 199 * 10 ^ 16 := by apply int_le_of_dv; rw [dv_199]; linarith only [e2, hr2, hq]
  have hacc := pow_call_ge_one hc.hpw hy1 hy2 hw0 hw1
  exact ⟨hacc, hmain _ hacc hA hfr⟩

/-! ## non-vacuity: the 1:3 pool of C04Real, exponent 1/3 (the series of `PowApprox`, not a shortcut) -/

open OsmoVerif.Props.C04Real in
/-- the exact-in swap of 10^9 tka on the 1:3 pool `poolU` (0.3 % spread factor): the integer paid out is within
`R_out·(10^-8 + powDelta (1/2) 1) + 1` of the exact constant-weighted-product formula — NO hypothesis left. -/
example : |((664225227 : Int) : ℝ) - ((2 * 10 ^ 12 : Int) : ℝ) *
      (1 - outBase (10 ^ 12) (10 ^ 9) (3 * 10 ^ 15) ^ wRatio (2 ^ 30) (3 * 2 ^ 30))| ≤
    ((2 * 10 ^ 12 : Int) : ℝ) * (1 / 10 ^ 8 + powDelta (1 / 2) 1) + 1 := by
  obtain ⟨aIn, aOut, wr, y, pw, hc, hmain⟩ :=
    balancer_swap_out_vs_exact_mid (show balCalcOut poolU [("tka", 10 ^ 9)] "tkb" (3 * 10 ^ 15) = .ok 664225227 by decide +kernel)
  have e1 : aIn = ⟨"tka", 10 ^ 12, 2 ^ 30⟩ :=
    Option.some.inj (hc.hIn.symm.trans (show findAsset poolU.assets "tka" = some ⟨"tka", 10 ^ 12, 2 ^ 30⟩ by decide +kernel))
  have e2 : aOut = ⟨"tkb", 2 * 10 ^ 12, 3 * 2 ^ 30⟩ :=
    Option.some.inj (hc.hOut.symm.trans (show findAsset poolU.assets "tkb" = some ⟨"tkb", 2 * 10 ^ 12, 3 * 2 ^ 30⟩ by decide +kernel))
  subst e1; subst e2
  have hwr : wr = 333333333333333333 :=
    Option.some.inj (hc.hwr.symm.trans (show Dec.quo (toDec (2 ^ 30)) (toDec (3 * 2 ^ 30)) = some 333333333333333333 by decide +kernel))
  subst hwr
  exact hmain 1 (by decide) (by decide) (by decide) (by decide) (by decide) (by decide) (by decide) (by decide +kernel)
    (by unfold dv; norm_num) (by unfold wRatio; norm_num)

end OsmoVerif.Props.C04Mid
