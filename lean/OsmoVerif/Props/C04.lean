/-
C04 — balancer and stableswap pool math never gives value away.

Model: `Model/Gamm.lean` (bit-exact mirror of balancer/{amm,pool}.go, stableswap/{amm,pool}.go,
internal/cfmm_common/lp.go), tied to the Go code by the `gammmath` engine.

PROVED here for ALL inputs (no bounds; every clause of the property that is discrete):
  * `exact_ratio_join_le_proportional`  shares minted ≤ totalShares·minᵢ(inᵢ/resᵢ), tokens used ≥ the proportional
                                        need and ≤ the tokens offered (both pool types, through `MaximalExactRatioJoin`);
  * `exit_le_proportional`              every exit amount·total ≤ reserve·shares·(1−exitFee), 0 < amount < reserve,
                                        error when shares ≥ total;
  * `stableswap_solver_post`            the solver's estimate lies inside the derived bounds, its image meets
                                        `CompareBigDec = 0`: on the RoundUp side (`targetK ≤ iterK xEst`) and within the
                                        1e-12 multiplicative tolerance; the output is below the reserve;
  * `balancer_out_trunc_le` / `balancer_in_ceil_ge`   GIVEN the value returned by `Pow`, the integer paid out is
                                        ≤ reserveOut·(1 − Pow) exactly, the integer charged is ≥ the Dec quotient;
  * `spread_factor_applied_to_input`    exact-in: exactly tokenIn·(1−spread) enters the curve (no rounding at all);
                                        exact-out: the curve input does not depend on the spread factor, it is divided
                                        by (1−spread) and rounded up to an integer;
  * domain guards: zero reserves fail, exact-out of ≥ half the reserve fails (the only "max out ratio" of this tree,
    implied by `Pow`'s base < 2), stableswap input ≥ reserve / non-positive reserves panic, exits of ≥ all shares fail;
    there is NO `MaxInRatio` (translator fact + witness): amounts in above the reserve are accepted.
CONTINUED in (same property, registered with it):
  * `Props/C04Stable.lean`  the exact rational stableswap invariant: `stableswap_invariant_nondecreasing` as stated is FALSE of
                            the code (`stableswap_invariant_decrease_witness`, `…_exact_out`: relative loss ≈ 10^-38 at zero
                            spread, scaling factors 10^18; confirmed on the Go code); PROVED: explicit-error partials
                            (`K' ≥ K·(1 − 18·10^-36)`), FULL for scaling factors 1 and for a modest spread charge;
  * `Props/C04Real.lean`    `balancer_result_within_powPrecision` / `balancer_product_per_share_…` as CONDITIONAL theorems
                            `…_of_pow_accuracy` over the reals (the hypothesis is what C13 F9/F10 refute for bases < 0.5;
                            unconditional for equal weights);
  * `Props/C04Seq.lean`     `no_profit_sequence` for the exact part (proportional joins / exits): reserves per share never
                            decrease, group / single-actor no-gain, and the witness that a single actor CAN gain at another
                            actor's expense when interleaved;
  * `Props/C02C04.lean`     the pool-math contract of C02 proved for this math (F13 characterised: `Pow ≤ 0`).
STILL OPEN (decided by the engine's oracle on the explored inputs only): `no_profit_sequence` for sequences containing swaps
or single-asset joins/exits (needs Pow accuracy: F9/F10; no MaxInRatio/MaxOutRatio in this tree).
-/
import OsmoVerif.Proofs.GammMathSolver

namespace OsmoVerif.Props.C04
open OsmoVerif.GammMath OsmoVerif.Num OsmoVerif.MathM OsmoVerif.Gen OsmoVerif.Spec

/-! ## T1: constants and operator lists regenerated from /repo (a change of the source breaks these) -/

theorem no_max_ratio_guard_declared : GammMath.MaxRatioGuardDeclared = false := rfl

theorem solver_constants :
    GammMath.solverMaxIterations = 256 ∧ GammMath.solverAdditiveTolerance = none ∧
    GammMath.solverMultiplicativeTolerance = some (10 ^ 6) ∧ GammMath.solverRoundingDir = GammMath.RoundUp := by decide

theorem single_join_constants :
    GammMath.singleJoinMaxIterations = 300 ∧ GammMath.singleJoinAdditiveTolerance = some P18 ∧
    GammMath.singleJoinMultiplicativeTolerance = none ∧ GammMath.singleJoinRoundingDir = GammMath.RoundDown := by decide

theorem weight_scaling : GammMath.GuaranteedWeightPrecision = 2 ^ 30 ∧ GammMath.MaxUserSpecifiedWeight = 2 ^ 20 := by decide

theorem ops_CalcExitPool_pinned : GammMath.ops_CalcExitPool =
    ["GTE", "Sub", "IsZero", "SubMut", "MulIntMut", "ToLegacyDec", "QuoInt", "MulInt", "TruncateInt", "LTE", "GTE"] := rfl
theorem ops_MaximalExactRatioJoin_pinned : GammMath.ops_MaximalExactRatioJoin =
    ["ToLegacyDec", "QuoInt", "LT", "GT", "Equal", "MulInt", "TruncateInt", "Equal", "Equal", "MulInt", "Ceil",
     "TruncateInt", "Sub", "IsZero", "Add"] := rfl
theorem ops_solveCFI_pinned : GammMath.ops_bal_solveConstantFunctionInvariant = ["Quo", "Quo", "Pow", "Sub", "MulMut"] := rfl
theorem ops_CalcOut_pinned : GammMath.ops_bal_Pool_CalcOutAmtGivenIn =
    ["ToLegacyDec", "Sub", "MulMut", "ToLegacyDec", "AddMut", "ToLegacyDec", "ToLegacyDec", "ToLegacyDec", "TruncateInt", "IsPositive"] := rfl
theorem ops_CalcIn_pinned : GammMath.ops_bal_Pool_CalcInAmtGivenOut =
    ["ToLegacyDec", "ToLegacyDec", "Sub", "ToLegacyDec", "ToLegacyDec", "ToLegacyDec", "Neg", "Sub", "Quo", "Ceil", "TruncateInt", "IsPositive"] := rfl
theorem ops_targetK_pinned : GammMath.ops_ss_targetKCalculator = ["QuoMut", "Mul", "AddMut", "Mul", "AddMut", "Mul", "Sub"] := rfl
theorem ops_iterK_pinned : GammMath.ops_ss_iterKCalculator =
    ["MulInt64", "Mul", "AddMut", "Mul", "AddMut", "NegMut", "Sub", "Neg", "AddMut", "MulMut", "AddMut", "MulMut"] := rfl
theorem ops_ss_calcIn_pinned : GammMath.ops_ss_Pool_calcInAmtGivenOut = ["Neg", "Neg", "QuoRoundUpMut"] := rfl
theorem ops_descale_pinned : GammMath.ops_ss_Pool_getDescaledPoolAmt = ["MulInt64", "Dec"] := rfl

/-! ## proportional joins (both pool types go through `MaximalExactRatioJoin`) -/

/-- FULL. For every coin `c` offered and the amount `u` of it that is used:
`shares·res ≤ totalShares·c` (so shares ≤ totalShares·minᵢ(inᵢ/resᵢ)), `shares·res ≤ u·totalShares`
(the tokens used cover the proportional need of the minted shares) and `0 ≤ u ≤ c`. -/
theorem exact_ratio_join_le_proportional {liq : Coins} {T : Int} {tokensIn : Coins} {shares : Int} {used : List Int}
    (h : maximalExactRatioJoin liq T tokensIn = .ok (shares, used))
    (hpos : ∀ c ∈ tokensIn, 0 < amountOf liq c.1 ∧ 0 ≤ c.2) (hT : 0 ≤ T) :
    0 ≤ shares ∧ JoinOK liq T shares tokensIn used :=
  maximalExactRatioJoin_ok h hpos hT

/-- balancer `CalcJoinPoolNoSwapShares`. -/
theorem balancer_join_no_swap_le_proportional {p : BalPool} {tokensIn joined : Coins} {shares : Int}
    (h : balCalcJoinNoSwap p tokensIn = .ok (shares, joined))
    (hpos : ∀ c ∈ tokensIn, 0 < amountOf (balLiquidity p) c.1 ∧ 0 ≤ c.2) (hT : 0 ≤ p.totalShares) :
    ∃ used, joined = joinedCoins tokensIn used ∧ 0 ≤ shares ∧
      JoinOK (balLiquidity p) p.totalShares shares tokensIn used := by
  unfold balCalcJoinNoSwap at h
  split at h
  · cases h
  · split at h
    · cases h
    · cases hm : maximalExactRatioJoin (balLiquidity p) p.totalShares tokensIn with
      | error e => simp [hm, bind, Except.bind] at h
      | ok r =>
        obtain ⟨s, used⟩ := r
        simp only [hm, bind, Except.bind] at h
        obtain ⟨h0, hj⟩ := maximalExactRatioJoin_ok hm hpos hT
        split at h
        · cases h
        · injection h with h; injection h with h1 h2
          subst h1; subst h2
          exact ⟨used, rfl, h0, hj⟩

/-- stableswap `CalcJoinPoolNoSwapShares`. -/
theorem stableswap_join_no_swap_le_proportional {p : SSPool} {tokensIn joined : Coins} {shares : Int}
    (h : ssCalcJoinNoSwap p tokensIn = .ok (shares, joined))
    (hpos : ∀ c ∈ tokensIn, 0 < amountOf (ssLiquidity p) c.1 ∧ 0 ≤ c.2) (hT : 0 ≤ p.totalShares) :
    ∃ used, joined = joinedCoins tokensIn used ∧ 0 ≤ shares ∧
      JoinOK (ssLiquidity p) p.totalShares shares tokensIn used := by
  unfold ssCalcJoinNoSwap at h
  split at h
  · cases h
  · cases hm : maximalExactRatioJoin (ssLiquidity p) p.totalShares tokensIn with
    | error e => simp [hm, bind, Except.bind] at h
    | ok r =>
      obtain ⟨s, used⟩ := r
      simp only [hm, bind, Except.bind] at h
      obtain ⟨h0, hj⟩ := maximalExactRatioJoin_ok hm hpos hT
      split at h
      · cases h
      · injection h with h; injection h with h1 h2
        subst h1; subst h2
        exact ⟨used, rfl, h0, hj⟩

/-- the `IsAnyGT` safety check of the callers is dead code: more than offered is never used. -/
theorem join_never_uses_more_than_offered {liq : Coins} {T : Int} {tokensIn : Coins} {shares : Int} {used : List Int}
    (h : maximalExactRatioJoin liq T tokensIn = .ok (shares, used))
    (hpos : ∀ c ∈ tokensIn, 0 < amountOf liq c.1 ∧ 0 ≤ c.2) (hT : 0 ≤ T) :
    (tokensIn.zip used).any (fun (c, u) => decide (u > c.2)) = false :=
  joinOK_not_anyGT (maximalExactRatioJoin_ok h hpos hT).2

/-! ## proportional exits -/

/-- FULL. `CalcExitPool`: every coin paid is a positive amount strictly below its reserve and
`amount · totalShares ≤ reserve · shares · (1 − exitFee)` (raw: both sides ·10^18). -/
theorem exit_le_proportional {liq : Coins} {T sh fee : Int} {cs : Coins}
    (h : calcExitPool liq T sh fee = .ok cs) (hT : 0 < T) (hsh : 0 ≤ sh) (hfee : 0 ≤ fee ∧ fee ≤ P18)
    (hliq : ∀ c ∈ liq, 0 ≤ c.2) :
    sh < T ∧ ∀ d x, (d, x) ∈ cs → ∃ a, (d, a) ∈ liq ∧ 0 < x ∧ x < a ∧ x * T * P18 ≤ a * sh * (P18 - fee) := by
  unfold calcExitPool at h
  split at h
  · cases h
  · rename_i hlt
    refine ⟨by omega, ?_⟩
    cases hr : refundedShares sh fee with
    | none => simp [hr, pn, bind, Except.bind] at h
    | some refunded =>
      cases hq : Dec.quoInt refunded T with
      | none => simp [hr, hq, pn, bind, Except.bind] at h
      | some ratio =>
        simp only [hr, hq, pn, bind, Except.bind] at h
        intro d x hm
        obtain ⟨a, ha, hx0, hxa, hxv⟩ := exitCoins_spec ratio liq cs h d x hm
        refine ⟨a, ha, hx0, hxa, ?_⟩
        have hrv := refundedShares_spec hr
        have hr0 : 0 ≤ refunded := by rw [hrv]; exact Int.mul_nonneg (by omega) hsh
        unfold Dec.quoInt at hq
        rw [if_neg (by omega)] at hq
        injection hq with hq
        obtain ⟨q1, _, q0⟩ := tdiv_floor hT hr0
        rw [hq] at q1 q0
        have ha0 : 0 ≤ a := hliq (d, a) ha
        obtain ⟨x1, _, _⟩ := tdiv_floor P18_pos (Int.mul_nonneg q0 ha0)
        rw [← hxv] at x1
        -- x·P18 ≤ ratio·a,  ratio·T ≤ refunded = (P18 − fee)·sh
        have e1 : x * P18 * T ≤ ratio * a * T := Int.mul_le_mul_of_nonneg_right x1 (by omega)
        have e2 : ratio * T * a ≤ refunded * a := Int.mul_le_mul_of_nonneg_right q1 ha0
        rw [hrv] at e2
        nlinarith

theorem exit_shares_ge_total_fails {liq : Coins} {T sh fee : Int} (h : sh ≥ T) :
    calcExitPool liq T sh fee = .error .err := by
  unfold calcExitPool; rw [if_pos h]; rfl

/-- both pool types use exactly this function. -/
theorem balancer_exit_is_calcExitPool (p : BalPool) (sh fee : Int) :
    balCalcExit p sh fee = calcExitPool (balLiquidity p) p.totalShares sh fee := rfl
theorem stableswap_exit_is_calcExitPool (p : SSPool) (sh fee : Int) :
    ssCalcExit p sh fee = calcExitPool (ssLiquidity p) p.totalShares sh fee := rfl

/-! ## the stableswap solver -/

theorem solverTol_dir : solverTol.dir = 1 := rfl
theorem solverTol_add : solverTol.additive = none := rfl
theorem solverTol_mult : solverTol.multiplicative = some 1000000 := rfl

/-- FULL. If `solveCFMMBinarySearchMulti` returns `xOut`, then with `xEst = x − xOut`:
`xEst` lies in the derived search interval, `iterK xEst` exists and `CompareBigDec(targetK, iterK xEst) = 0`;
in particular `targetK ≤ iterK xEst` (the RoundUp side: the pool keeps at least what the curve asks for) and the
relative distance (half-even 36-decimal quotient by the smaller magnitude) is at most 10^-12; and `|xOut| < x`. -/
theorem stableswap_solver_post {x y w yIn xOut : Int} (h : solveCfmmMulti x y w yIn = some xOut) :
    ∃ run, solverSetup x y w yIn = some run ∧
      run.lo ≤ x - xOut ∧ x - xOut ≤ run.hi ∧ (xOut.natAbs : Int) < x ∧
      ∃ out, run.f (x - xOut) = some out ∧ solverTol.compareBigDec run.target out = some 0 ∧
        run.target ≤ out ∧
        ∃ d, BigDec.sub run.target out = some d ∧
          ((min (run.target.natAbs : Int) (out.natAbs : Int) = 0 ∧ run.target = out) ∨
           (min (run.target.natAbs : Int) (out.natAbs : Int) ≠ 0 ∧
            ∃ errTerm, BigDec.quo (d.natAbs : Int) (min (run.target.natAbs : Int) (out.natAbs : Int)) = some errTerm ∧
              errTerm ≤ 1000000 * Pdiff)) := by
  unfold solveCfmmMulti at h
  cases hs : solverSetup x y w yIn with
  | none => simp [hs] at h
  | some run =>
    refine ⟨run, rfl, ?_⟩
    simp only [hs, Option.bind_eq_bind, Option.bind_some, bind] at h
    -- the interval is not empty
    have hle : run.lo ≤ run.hi := by
      unfold solverSetup at hs
      split at hs
      · cases hs
      · split at hs
        · cases hs
        · cases h1 : BigDec.add y yIn with
          | none => simp [h1] at hs
          | some yf =>
            cases h2 : deriveBounds x y w yf with
            | none => simp [h1, h2] at hs
            | some b =>
              obtain ⟨lo, hi⟩ := b
              cases h3 : targetK x y w yf with
              | none => simp [h1, h2, h3] at hs
              | some t =>
                cases h4 : iterK x w yf with
                | none => simp [h1, h2, h3, h4] at hs
                | some f =>
                  simp only [h1, h2, h3, h4, Option.bind_eq_bind, Option.bind_some, bind, pure] at hs
                  injection hs with hs; subst hs
                  exact deriveBounds_le h2
    cases hb : binarySearchBigDec run.f solverTol run.target GammMath.solverMaxIterations run.lo run.hi with
    | noConverge => simp [hb] at h
    | fail => simp [hb] at h
    | found xEst =>
      simp only [hb] at h
      cases hsub : BigDec.sub x xEst with
      | none => simp [hsub] at h
      | some xo =>
        simp only [hsub, Option.bind_some] at h
        split at h
        · cases h
        · rename_i hlt
          injection h with h; subst h
          have hxo := BigDec_sub_spec hsub
          have hx : x - xo = xEst := by omega
          rw [hx]
          obtain ⟨a, b, out, hf, hc⟩ := Props.C13.binarySearchBigDec_post run.f solverTol run.target _ _ _ _ hle hb
          refine ⟨a, b, by omega, out, hf, hc, (compareBigDec_zero_side hc).1 solverTol_dir, ?_⟩
          exact compareBigDec_zero_mult solverTol_add solverTol_mult (by decide) hc

/-
`stableswap_invariant_nondecreasing` (for every successful `ssSwapOut`/`ssSwapIn`, with xᵢ = reserveᵢ/scalingFactorᵢ as exact
rationals, Π xᵢ' · Σ xᵢ'² ≥ Π xᵢ · Σ xᵢ²) is FALSE of the code: see `Props/C04Stable.lean` (witnesses, the explicit-error
partial theorems built on `stableswap_solver_post`, and the FULL conditional variants).
-/

/-! ## the stableswap single-asset join search -/

theorem singleJoinTol_dir : singleJoinTol.dir = 2 := rfl
theorem singleJoinTol_add : singleJoinTol.additive = some P18 := rfl

/-- FULL. The share count returned by `BinarySearchSingleAssetJoin` is one for which the pool's OWN estimate of
"exit these shares and swap everything back" returns at most the tokens paid in (after the fee), and at most one
token unit less; it lies between 0 and the linear upper bound. (How far that estimate is below the exact round
trip is the dust discussed in the engine's oracle; it is not part of this theorem.) -/
theorem stableswap_single_join_estimate_le_paid {p : SSPool} {denom : String} {afterFee s : Int}
    (h : ssBinarySearchSingleAssetJoin p denom afterFee = .ok s) (hfee : 0 ≤ afterFee) (hT : 0 ≤ p.totalShares)
    (hliq : 0 < amountOf (ssLiquidity p) denom) :
    0 ≤ s ∧ ∃ out, ssEstimateCoinOut p denom afterFee s = .ok out ∧ out ≤ afterFee ∧ afterFee - out ≤ 1 := by
  unfold ssBinarySearchSingleAssetJoin at h
  cases hp : imul p.totalShares afterFee with
  | error e => simp [hp, bind, Except.bind] at h
  | ok prod =>
    have hprod : prod = p.totalShares * afterFee := by unfold imul at hp; exact chkInt_some (pn_ok hp)
    simp only [hp, bind, Except.bind] at h
    cases hu : (Dec.quoInt (toDec prod) (amountOf (ssLiquidity p) denom)).bind fun q => (Dec.ceil q).bind Dec.truncateInt with
    | none => simp [hu, pn] at h
    | some ub =>
      simp only [hu, pn] at h
      -- the upper bound is non-negative
      have hub : 0 ≤ ub := by
        cases hq : Dec.quoInt (toDec prod) (amountOf (ssLiquidity p) denom) with
        | none => simp [hq] at hu
        | some q =>
          simp only [hq, Option.bind_some] at hu
          unfold Dec.quoInt at hq
          rw [if_neg (by omega)] at hq
          injection hq with hq
          have hq0 : 0 ≤ q := by
            rw [← hq]
            exact Int.tdiv_nonneg (Int.mul_nonneg (by rw [hprod]; exact Int.mul_nonneg hT hfee) (by decide)) (by omega)
          cases hc : Dec.ceil q with
          | none => simp [hc] at hu
          | some c =>
            simp only [hc, Option.bind_some] at hu
            obtain ⟨k, hk, _, _, hk0⟩ := Dec_ceil_spec hc hq0
            rw [Dec_truncateInt_spec hu, hk, Int.mul_tdiv_cancel _ (by decide)]
            exact hk0
      obtain ⟨a, _, out, hf, hc⟩ := binarySearchR_post _ _ _ _ _ _ _ hub h
      refine ⟨a, out, hf, ?_⟩
      have hside := (Props.C13.compare_zero_side hc).2 singleJoinTol_dir
      refine ⟨hside, ?_⟩
      rcases compare_zero_additive singleJoinTol_add hc with hh | hh
      · have : ((afterFee - out).natAbs : Int) ≤ 1 := by
          by_contra hcc
          have h2 : (2 : Int) ≤ ((afterFee - out).natAbs : Int) := by omega
          have := Int.mul_le_mul_of_nonneg_right h2 (Int.le_of_lt P18_pos)
          rw [P18_val] at *
          omega
        omega
      · omega

/-! ## balancer swaps: the place of the spread factor and the final roundings -/

/-- FULL. Shape of a successful `CalcOutAmtGivenIn`: the curve sees exactly `tokenIn·(1−spread)` (an exact Dec product,
`spread_factor_applied_to_input`), and GIVEN the value `pw` returned by `Pow(resIn/(resIn+in'), wIn/wOut)` the integer
paid out is the floor of the exact product `(1 − pw)·reserveOut` (`balancer_out_trunc_le`). -/
theorem balCalcOut_spec {p : BalPool} {dIn dOut : String} {amt spread t : Int}
    (h : balCalcOut p [(dIn, amt)] dOut spread = .ok t) :
    ∃ aIn aOut wr y pw, findAsset p.assets dIn = some aIn ∧ findAsset p.assets dOut = some aOut ∧
      Dec.quo (toDec aIn.weight) (toDec aOut.weight) = some wr ∧
      Dec.quo (toDec aIn.amount) (amt * (P18 - spread) + toDec aIn.amount) = some y ∧
      pow y wr = some pw ∧
      0 < t ∧ t * P18 ≤ (P18 - pw) * aOut.amount ∧ (P18 - pw) * aOut.amount < (t + 1) * P18 := by
  unfold balCalcOut at h
  cases h1 : findAsset p.assets dIn with
  | none => simp [h1] at h; cases h
  | some aIn =>
    cases h2 : findAsset p.assets dOut with
    | none => simp [h1, h2] at h; cases h
    | some aOut =>
      simp only [h1, h2] at h
      cases hd : balOutDec aIn aOut amt spread with
      | none => simp [hd, pn, bind, Except.bind] at h
      | some d =>
        simp only [hd, pn, bind, Except.bind] at h
        obtain ⟨t0, t1, t2⟩ := outTrunc_spec h
        unfold balOutDec at hd
        cases ha : balAmountInAfterFee amt spread with
        | none => simp [ha] at hd
        | some af =>
          cases hp : Dec.add af (toDec aIn.amount) with
          | none => simp [ha, hp] at hd
          | some post =>
            simp only [ha, hp, Option.bind_eq_bind, Option.bind_some, bind] at hd
            obtain ⟨wr, y, pw, e1, e2, e3, e4⟩ := solveCFI_spec hd
            rw [Dec_add_spec hp, balAmountInAfterFee_spec ha] at e2
            rw [e4] at t1 t2
            exact ⟨aIn, aOut, wr, y, pw, rfl, rfl, e1, e2, e3, t0, t1, t2⟩

theorem balancer_out_trunc_le {p : BalPool} {dIn dOut : String} {amt spread t : Int}
    (h : balCalcOut p [(dIn, amt)] dOut spread = .ok t) :
    ∃ aOut y wr pw, findAsset p.assets dOut = some aOut ∧ pow y wr = some pw ∧
      0 < t ∧ t * P18 ≤ (P18 - pw) * aOut.amount := by
  obtain ⟨_, aOut, wr, y, pw, _, h2, _, _, h5, h6, h7, _⟩ := balCalcOut_spec h
  exact ⟨aOut, y, wr, pw, h2, h5, h6, h7⟩

/-- FULL. Shape of a successful `CalcInAmtGivenOut`: the curve input `(pw − 1)·reserveIn` (exact) does not involve the
spread factor; it is divided by `(1 − spread)` (half-even 18-decimal `Quo`) and the integer charged is the ceiling of
that quotient (`balancer_in_ceil_ge`, `spread_factor_applied_to_input`). -/
theorem balCalcIn_spec {p : BalPool} {dIn dOut : String} {amt spread t : Int}
    (h : balCalcIn p [(dOut, amt)] dIn spread = .ok t) :
    ∃ aOut aIn wr y pw q, findAsset p.assets dOut = some aOut ∧ findAsset p.assets dIn = some aIn ∧
      Dec.quo (toDec aOut.weight) (toDec aIn.weight) = some wr ∧
      Dec.quo (toDec aOut.amount) (toDec aOut.amount - toDec amt) = some y ∧
      pow y wr = some pw ∧
      Dec.quo ((pw - P18) * aIn.amount) (P18 - spread) = some q ∧
      0 < t ∧ q ≤ t * P18 ∧ (t - 1) * P18 < q := by
  unfold balCalcIn at h
  cases h1 : findAsset p.assets dOut with
  | none => simp [h1] at h; cases h
  | some aOut =>
    cases h2 : findAsset p.assets dIn with
    | none => simp [h1, h2] at h; cases h
    | some aIn =>
      simp only [h1, h2] at h
      cases hd : balInDec aOut aIn amt spread with
      | none => simp [hd, pn, bind, Except.bind] at h
      | some d =>
        simp only [hd, pn, bind, Except.bind] at h
        obtain ⟨t0, t1, t2⟩ := inCeil_spec h
        unfold balInDec at hd
        cases hc : balCurveIn aOut aIn amt with
        | none => simp [hc] at hd
        | some x =>
          cases ho : Dec.sub P18 spread with
          | none => simp [hc, ho] at hd
          | some om =>
            simp only [hc, ho, Option.bind_eq_bind, Option.bind_some, bind] at hd
            unfold balCurveIn at hc
            cases hp : Dec.sub (toDec aOut.amount) (toDec amt) with
            | none => simp [hp] at hc
            | some post =>
              cases hs : solveCFI (toDec aOut.amount) post (toDec aOut.weight) (toDec aIn.amount) (toDec aIn.weight) with
              | none => simp [hp, hs] at hc
              | some r =>
                simp only [hp, hs, Option.bind_eq_bind, Option.bind_some, bind, pure] at hc
                injection hc with hc
                obtain ⟨wr, y, pw, e1, e2, e3, e4⟩ := solveCFI_spec hs
                rw [Dec_sub_spec hp] at e2
                have hx : x = (pw - P18) * aIn.amount := by rw [← hc, e4, ← Int.neg_mul]; congr 1; omega
                rw [hx, Dec_sub_spec ho] at hd
                exact ⟨aOut, aIn, wr, y, pw, d, rfl, rfl, e1, e2, e3, hd, t0, t1, t2⟩

theorem balancer_in_ceil_ge {p : BalPool} {dIn dOut : String} {amt spread t : Int}
    (h : balCalcIn p [(dOut, amt)] dIn spread = .ok t) :
    ∃ aIn pw q, findAsset p.assets dIn = some aIn ∧
      Dec.quo ((pw - P18) * aIn.amount) (P18 - spread) = some q ∧ 0 < t ∧ q ≤ t * P18 := by
  obtain ⟨_, aIn, _, _, pw, q, _, h2, _, _, _, h6, h7, h8, _⟩ := balCalcIn_spec h
  exact ⟨aIn, pw, q, h2, h6, h7, h8⟩

/-- FULL. exact-in: what enters the curve is `tokenIn·(1 − spread)`, exactly (Dec·Int products are not rounded). -/
theorem spread_factor_applied_to_input {amt spread af : Int} (h : balAmountInAfterFee amt spread = some af) :
    af = amt * (P18 - spread) := balAmountInAfterFee_spec h

/-- … and the whole `tokenIn` (fee included) is what the pool receives. -/
theorem swap_out_pool_receives_whole_input {p p' : BalPool} {dIn dOut : String} {amt spread out : Int}
    (h : balSwapOut p [(dIn, amt)] dOut spread = .ok (out, p')) :
    ∃ p'', balCalcOut p [(dIn, amt)] dOut spread = .ok out ∧ balApplySwap p dIn amt dOut out = .ok p'' ∧ p' = p'' := by
  unfold balSwapOut at h
  cases hc : balCalcOut p [(dIn, amt)] dOut spread with
  | error e => simp [hc, bind, Except.bind] at h
  | ok o =>
    simp only [hc, bind, Except.bind] at h
    cases ha : balApplySwap p dIn amt dOut o with
    | error e => simp [ha] at h
    | ok q =>
      simp only [ha, pure, Except.pure] at h
      injection h with h; injection h with h1 h2
      subst h1; subst h2
      exact ⟨q, rfl, ha, rfl⟩

/-
PARTIAL — `balancer_result_within_powPrecision` / `balancer_product_per_share_within_powPrecision`:
with p = b^e the real power, ε(p) = 1.01·10^-8·(1+p):
   swap exact-in   out ≤ resOut·(1 − p + ε),   ln(V'/V) ≥ (wOut/W)·ln(1 − ε/p)
   swap exact-out  in  ≥ resIn·(p − ε − 1)/(1−spread),   ln(V'/V) ≥ (wIn/W)·ln(1 − ε/p)
   single join     shares ≤ S·(p + ε − 1),   ln((V'/S')/(V/S)) ≥ −ln(1 + ε/p)
   single exit     sharesIn ≥ S·(1 − p − ε)/(1−exitFee) − 1,   ln((V'/S')/(V/S)) ≥ −ln(1 + (ε + 1/S)/p)
where V = Π reserveᵢ^(wᵢ/W).  They need |Pow(b,e) − b^e| ≤ 10^-8·(1+p), which is not a theorem (C13 PARTIAL) and is
FALSE for b < 0.5 (C13 findings F9, F10).  This tree has no MaxInRatio/MaxOutRatio, so b < 0.5 is reachable:
exact-in swaps with amount in > reserve (error on the pool's side) and `ExitSwapExactAmountOut` of more than half a
reserve (error on the EXITING LP's side: fewer shares burned than the formula asks for).  Decided by the oracle.
PARTIAL — `no_profit_sequence`: corollary of the two invariants (weighted AM-GM at the initial spot prices); decided by
the oracle on 3–7-op sequences.
-/

/-! ## domain guards -/

/-- zero reserve of the token going in: `Pow` is called with base 0 (or the quotient divides by zero): panic. -/
theorem bal_out_zero_in_reserve_panics {p : BalPool} {dIn dOut : String} {amt spread : Int} {aIn aOut : BalAsset}
    (h1 : findAsset p.assets dIn = some aIn) (h2 : findAsset p.assets dOut = some aOut) (hz : aIn.amount = 0) :
    balCalcOut p [(dIn, amt)] dOut spread = .error .panic := by
  have hd : balOutDec aIn aOut amt spread = none := by
    unfold balOutDec
    cases ha : balAmountInAfterFee amt spread with
    | none => rfl
    | some af =>
      simp only [Option.bind_eq_bind, Option.bind_some, bind, hz]
      have hzd : toDec 0 = 0 := by decide
      rw [hzd]
      cases hp : Dec.add af 0 with
      | none => rfl
      | some post =>
        simp only [Option.bind_some]
        unfold solveCFI
        cases hw : Dec.quo (toDec aIn.weight) (toDec aOut.weight) with
        | none => rfl
        | some wr =>
          simp only [Option.bind_eq_bind, Option.bind_some, bind]
          cases hy : Dec.quo 0 post with
          | none => rfl
          | some y =>
            simp only [Option.bind_some]
            have hy0 : y = 0 := by
              unfold Dec.quo at hy
              split at hy
              · cases hy
              · rw [chkDec_some hy, Int.zero_mul, Int.zero_tdiv]; decide
            rw [hy0, Props.C13.pow_domain (Or.inl (Int.le_refl 0))]
            rfl
  unfold balCalcOut
  simp only [h1, h2, hd, pn, bind, Except.bind]

/-- zero reserve of the token going out: never a successful swap. -/
theorem bal_out_zero_out_reserve_fails {p : BalPool} {dIn dOut : String} {amt spread t : Int} {aOut : BalAsset}
    (h2 : findAsset p.assets dOut = some aOut) (hz : aOut.amount = 0) :
    balCalcOut p [(dIn, amt)] dOut spread ≠ .ok t := by
  intro h
  obtain ⟨_, aOut', _, _, pw, _, e2, _, _, _, t0, t1, _⟩ := balCalcOut_spec h
  rw [h2] at e2; injection e2 with e2; subst e2
  rw [hz, Int.mul_zero] at t1
  have := Int.mul_pos t0 P18_pos
  omega

/-- the only "max out ratio" of this tree: an exact-out swap of at least HALF the out-reserve never succeeds
(`Pow` refuses bases ≥ 2; amounts ≥ the reserve give a non-positive base or divide by zero). -/
theorem bal_in_ge_half_reserve_fails {p : BalPool} {dIn dOut : String} {amt spread t : Int} {aOut : BalAsset}
    (h1 : findAsset p.assets dOut = some aOut) (hres : 0 ≤ aOut.amount) (hhalf : aOut.amount ≤ 2 * amt) :
    balCalcIn p [(dOut, amt)] dIn spread ≠ .ok t := by
  intro h
  obtain ⟨aOut', _, _, y, _, _, e1, _, _, e4, e5, _⟩ := balCalcIn_spec h
  rw [h1] at e1; injection e1 with e1; subst e1
  obtain ⟨hy0, hy2⟩ := pow_some_domain e5
  have hb : toDec aOut.amount - toDec amt = (aOut.amount - amt) * P18 := by unfold toDec; rw [Int.sub_mul]
  rcases Int.lt_trichotomy (aOut.amount - amt) 0 with hneg | hzero | hpos
  · -- out > reserve: non-positive base
    have hbn : toDec aOut.amount - toDec amt < 0 := by rw [hb]; exact Int.mul_neg_of_neg_of_pos hneg P18_pos
    have := Dec_quo_nonpos e4 (Int.mul_nonneg hres (Int.le_of_lt P18_pos)) hbn
    omega
  · -- out = reserve: division by zero
    rw [hb, hzero, Int.zero_mul] at e4
    unfold Dec.quo at e4; rw [if_pos rfl] at e4; cases e4
  · -- reserve/2 ≤ out < reserve: base ≥ 2
    have hbp : 0 < toDec aOut.amount - toDec amt := by rw [hb]; exact Int.mul_pos hpos P18_pos
    have : 2 * (toDec aOut.amount - toDec amt) ≤ toDec aOut.amount := by
      rw [hb]; unfold toDec
      have : 2 * (aOut.amount - amt) ≤ aOut.amount := by omega
      have := Int.mul_le_mul_of_nonneg_right this (Int.le_of_lt P18_pos)
      rw [Int.mul_assoc] at this; exact this
    have := Dec_quo_ge e4 hbp this
    omega

/-- stableswap: an input (after scaling and fee) of at least the in-reserve, or a non-positive reserve, panics. -/
theorem ss_solver_input_ge_reserve_panics {x y w yIn : Int} (h : (yIn.natAbs : Int) ≥ y) :
    solveCfmmMulti x y w yIn = none := by
  unfold solveCfmmMulti solverSetup
  split <;> rfl

theorem ss_solver_nonpositive_reserve_panics {x y w yIn : Int} (h : x ≤ 0 ∨ y ≤ 0 ∨ w < 0) :
    solveCfmmMulti x y w yIn = none := by
  unfold solveCfmmMulti solverSetup
  rw [if_pos (by omega)]; rfl

/-- the output of a successful stableswap solve is strictly below the out-reserve (in absolute value). -/
theorem ss_solver_output_below_reserve {x y w yIn xOut : Int} (h : solveCfmmMulti x y w yIn = some xOut) :
    (xOut.natAbs : Int) < x := by
  obtain ⟨_, _, _, _, hlt, _⟩ := stableswap_solver_post h
  exact hlt

/-! ## non-vacuity: the hypotheses are satisfiable on concrete pools, and the witnesses of the missing guard -/

/-- the doc-comment example of `MaximalExactRatioJoin`: 10 foo + 10 bar, 100 shares; 1 foo + 2 bar joins 10 shares
and leaves 1 bar. -/
example : maximalExactRatioJoin [("bar", 10), ("foo", 10)] 100 [("bar", 2), ("foo", 1)] = .ok (10, [1, 1]) := by
  decide +kernel

example : calcExitPool [("bar", 1000), ("foo", 777)] 100 33 (P18 / 100) = .ok [("bar", 326), ("foo", 253)] := by
  decide +kernel

/-- an equal-weight balancer pool (weights 1:1, scaled by 2^30), 0.3% spread factor. -/
def pool1 : BalPool := mkBalPool [("tka", 1000000, 1), ("tkb", 2000000, 1)] (100 * P18) (3 * 10 ^ 15) 0

example : balCalcOut pool1 [("tka", 1000)] "tkb" (3 * 10 ^ 15) = .ok 1992 := by decide +kernel
example : balCalcIn pool1 [("tkb", 1992)] "tka" (3 * 10 ^ 15) = .ok 1000 := by decide +kernel

/-- NO MaxInRatio: three times the in-reserve is accepted (`Pow` base 0.25 < 0.5). -/
theorem no_max_in_ratio_witness : balCalcOut pool1 [("tka", 3000000)] "tkb" 0 = .ok 1500000 := by decide +kernel

/-- exact-out of exactly half the reserve fails (base 2), just below half succeeds. -/
example : balCalcIn pool1 [("tkb", 1000000)] "tka" 0 = .error .panic := by decide +kernel
example : balCalcIn pool1 [("tkb", 999999)] "tka" 0 = .ok 999999 := by decide +kernel

/-- a two-asset stableswap pool, scaling factors 1 and 10. -/
def ss1 : SSPool := ⟨[⟨"tka", 1000000, 1⟩, ⟨"tkb", 10000000, 10⟩], 100 * P18⟩

example : ssCalcOut ss1 [("tka", 1000)] "tkb" 0 = .ok 9999 := by decide +kernel
example : solveCfmmMulti (1000000 * P36) (1000000 * P36) 0 (1000 * P36) = some 999999999499401326374936616048216819764 := by
  decide +kernel

end OsmoVerif.Props.C04
