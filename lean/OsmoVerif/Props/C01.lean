/-
C01 — concentrated-liquidity pools stay solvent under every operation history.

Model: `OsmoVerif.CLPool` (Model/CLPool.lean; bit-exact with lp.go, tick.go, model/pool.go, swaps.go and the bank
transfers of the pool address `bal0/bal1` and of the spread-reward address `fee0/fee1`), history model
`CLBook.Op / apply / step / run / initPool` of C07.  Helpers: Proofs/CLSolv{Ops,Amts,V,Swap,Inv}.lean.
The model carries no reward accumulators, incentive records or locks: the clauses of C01 about claimable spread
rewards / incentives and about locked positions are decided by the engine's oracles only; everything below is about
the PRINCIPAL (`bal0`, `bal1`) and about the token transfers to the spread-reward address.

Units.  Sqrt prices raw 36-decimal, liquidity raw 18-decimal, balances and operation amounts whole tokens.
`CL.Ge0 L p q amt`: `|p−q|·L·10^36 ≤ amt·(p·q)`, i.e. the raw 18-decimal amount `amt` is at least the exact token0
amount `L·|1/p − 1/q|` of liquidity `L` between sqrt prices `p, q`; `CL.Le0` the reverse; `CL.Ge1/Le1` for token1
(`L·|p − q|`); a whole-token amount `x` is compared as `x * P18` (notation of C03).
Rational form: `rp x = x/10^36`, `rl x = x/10^18`; a position `q` (liquidity `L`, boundary sqrt prices `a ≤ b` = the
model's `tickToSqrtPrice` of its ticks) is owed at sqrt price `P`
  `posX0 q P = L·(1/max(P,a) − 1/b)` if `P < b` else `0`,   `posX1 q P = L·(min(P,b) − a)` if `P > a` else `0`
whole tokens (`exact_amounts_def`); `V0 ps P = Σ_q posX0 q P`, `V1` likewise; `dX0 d l u P`, `dX1` are the same
amounts for a liquidity delta `d` on the range `[l, u)`.

Everything is FULL (no `_partial`).  Preconditions of the history theorems, both enforced by the code at pool
creation (`C07.authorized_parameters_ok`): tick spacing `> 0` and spread factor in `[0, 1/2]` (`SpfOK`).
What is NOT claimed: that the amount arithmetic of a withdrawal cannot overflow (`updatePosition … = none` by a
bit-length panic): `every_position_can_withdraw_principal` says that whenever the amounts compute, the pool's funds
cover them and the withdrawal succeeds (the model's operation amounts are unbounded `Int`s, so no bound on the
liquidity of a position is available to exclude the panic).
-/
import OsmoVerif.Proofs.CLSolvInv
import OsmoVerif.Props.C03
import OsmoVerif.Props.C07

namespace OsmoVerif.Props.C01
open OsmoVerif.CLPool OsmoVerif.CLBook OsmoVerif.CLSolv OsmoVerif.CL OsmoVerif.Tick OsmoVerif.Num OsmoVerif.Gen
open OsmoVerif.Spec

/-! ## 1. all four balances are non-negative along every history -/

theorem balances_nonneg {s f : Int} (hs : 0 < s) (hf : SpfOK f) (ops : List Op) :
    0 ≤ (run (initPool s f) ops).bal0 ∧ 0 ≤ (run (initPool s f) ops).bal1 ∧
    0 ≤ (run (initPool s f) ops).fee0 ∧ 0 ≤ (run (initPool s f) ops).fee1 :=
  ((initPool_good hs hf).run ops).nn

theorem balances_nonneg_authorized {s f : Int} (hs : s ∈ CL.AuthorizedTickSpacing) (hf : f ∈ CL.AuthorizedSpreadFactors)
    (ops : List Op) :
    0 ≤ (run (initPool s f) ops).bal0 ∧ 0 ≤ (run (initPool s f) ops).bal1 ∧
    0 ≤ (run (initPool s f) ops).fee0 ∧ 0 ≤ (run (initPool s f) ops).fee1 :=
  balances_nonneg (C07.authorized_parameters_ok.1 s hs) (C07.authorized_parameters_ok.2 f hf) ops

/-- one step: a successful operation on a pool that satisfies the invariants keeps the balances non-negative. -/
theorem step_preserves_balances_nonneg {p : Pool} (op : Op) (hinv : Inv p) (hspf : SpfOK p.spf) (hs : Solv p)
    (hn : BalNN p) : BalNN (step p op) := by
  rcases step_cases p op with h | ⟨p', h, e⟩
  · rw [h]; exact hn
  · rw [e]; exact apply_nn hinv hspf hs hn h

/-! ## 2. what a swap moves -/

/-- A successful swap: the trader pays `ain`, of which `fee` goes to the spread-reward address and `ain − fee > 0` to
the pool; the pool pays exactly `aout > 0` (which it had); no other balance changes.  The swap is a run `tr` of
within-bucket steps (C03) and `fee = ⌈Σ step charges⌉`, `ain = ⌈Σ (step in + step charge)⌉`, `aout = ⌊Σ step out⌋`
(sums in raw 18-decimal units). -/
theorem swap_accounting {p p' : Pool} {og zfo : Bool} {spec ain aout fee : Int}
    (h : CLPool.swap p og zfo spec = some (p', ain, aout, fee)) :
    0 < ain - fee ∧ 0 < aout ∧
    (if zfo then p'.bal0 = p.bal0 + (ain - fee) ∧ p'.fee0 = p.fee0 + fee ∧ p'.bal1 = p.bal1 - aout ∧
          p'.fee1 = p.fee1 ∧ aout ≤ p.bal1
      else p'.bal1 = p.bal1 + (ain - fee) ∧ p'.fee1 = p.fee1 + fee ∧ p'.bal0 = p.bal0 - aout ∧
          p'.fee0 = p.fee0 ∧ aout ≤ p.bal0) ∧
    ∃ (limit : Int) (tr : List StepRec) (st' : SwapSt),
      Run og zfo p.spf limit
        { remaining := spec * P18, calculated := 0, pool := ⟨p.sqrtPrice, p.tick, p.liquidity⟩, spreadTotal := 0,
          noProgress := 0 } tr st' ∧
      IsCeil (sumCharge tr) P18 fee ∧ sumCharge tr ≤ fee * P18 ∧
      IsCeil (sumIn og tr + sumCharge tr) P18 ain ∧ IsTrunc (sumOut og tr) P18 aout := by
  obtain ⟨r, _, hex, e1, e2, h1, h2, _, _, _, _, hbal⟩ := swap_bal h
  obtain ⟨hcs, hfee⟩ := C03.execute_is_compute hex
  obtain ⟨limit, tr, st', _, hrun, _, _, _, hsp, c1, c2, _⟩ := C03.swap_amounts_integral_and_rounded hcs
  rw [hsp] at hfee
  subst e1; subst e2
  exact ⟨h1, h2, hbal, limit, tr, st', hrun, hfee, hfee.2, c1, c2⟩

/-- in a pool that satisfies the invariants the fee transfer is non-negative (every step charge is). -/
theorem swap_fee_nonneg {p p' : Pool} {og zfo : Bool} {spec ain aout fee : Int} (hinv : Inv p) (hspf : SpfOK p.spf)
    (hs : Solv p) (h : CLPool.swap p og zfo spec = some (p', ain, aout, fee)) : 0 ≤ fee :=
  (swap_solv hinv.core hinv.price hinv.active hspf hs h).2

/-! ## 3. deposits are at least, withdrawals at most, the exact curve amounts -/

/-- A successful creation adds `r0, r1 ≥ 0` to the pool's balances and nothing else; with `spL, spU` the sqrt prices of
the (canonical) boundary ticks and `P`, `t` the pool's sqrt price and tick after the call (= before it, unless this is
the first position): inside the range the amounts are at least the exact amounts between `P` and the boundaries, below
it at least the exact token0 amount of the whole range (and no token1), above it the same with token1. -/
theorem deposit_ge_exact {p : Pool} {owner : String} {lower upper a0 a1 m0 m1 : Int}
    {p' : Pool} {id : Nat} {r0 r1 liq l' u' : Int} (hc : InvCore p) (hsp : p.positions ≠ [] → 0 < p.sqrtPrice)
    (h : createPositionMin p owner lower upper a0 a1 m0 m1 = some (p', id, r0, r1, liq, l', u')) :
    p'.bal0 = p.bal0 + r0 ∧ p'.bal1 = p.bal1 + r1 ∧ p'.fee0 = p.fee0 ∧ p'.fee1 = p.fee1 ∧ 0 ≤ r0 ∧ 0 ≤ r1 ∧ 0 < liq ∧
    (p.positions ≠ [] → p'.sqrtPrice = p.sqrtPrice ∧ p'.tick = p.tick) ∧
    ∃ spL spU, tickToSqrtPrice l' = some spL ∧ tickToSqrtPrice u' = some spU ∧
      (l' ≤ p'.tick ∧ p'.tick < u' → Ge0 liq p'.sqrtPrice spU (r0 * P18) ∧ Ge1 liq p'.sqrtPrice spL (r1 * P18)) ∧
      (p'.tick < l' → Ge0 liq spL spU (r0 * P18) ∧ r1 = 0) ∧
      (u' ≤ p'.tick → r0 = 0 ∧ Ge1 liq spL spU (r1 * P18)) := by
  obtain ⟨e0, e1, f0, f1, n0, n1, hl, _, _, hsame, _, spL, spU, hsL, hsU, hlu, hvs⟩ := create_facts hc hsp h
  exact ⟨e0, e1, f0, f1, n0, n1, hl, hsame, spL, spU, hsL, hsU, vsExact_ge_cases hlu hvs⟩

/-- the same against the rational exact amounts at the pool's price (needs price/tick agreement, C07 (c)). -/
theorem deposit_ge_exact_real {p : Pool} {owner : String} {lower upper a0 a1 m0 m1 : Int}
    {p' : Pool} {id : Nat} {r0 r1 liq l' u' : Int} (hinv : Inv p)
    (h : createPositionMin p owner lower upper a0 a1 m0 m1 = some (p', id, r0, r1, liq, l', u')) :
    dX0 liq l' u' p'.sqrtPrice ≤ r0 ∧ dX1 liq l' u' p'.sqrtPrice ≤ r1 :=
  create_ge_real hinv.core hinv.price h

/-- A successful withdrawal of `req` from position `pos` takes `o0, o1 ≥ 0` from the pool's balances (which cover them)
and nothing else; the amounts are at most the exact amounts of `req`, in the case selected by the pool's tick. -/
theorem withdraw_le_exact {p : Pool} {owner : String} {id : Nat} {req : Int} {p' : Pool} {o0 o1 : Int}
    (hc : InvCore p) (hsp : p.positions ≠ [] → 0 < p.sqrtPrice)
    (h : withdrawPosition p owner id req = some (p', o0, o1)) :
    ∃ pos ∈ p.positions, pos.id = id ∧ owner = pos.owner ∧ 0 < req ∧ req ≤ pos.liq ∧
      p'.bal0 = p.bal0 - o0 ∧ p'.bal1 = p.bal1 - o1 ∧ p'.fee0 = p.fee0 ∧ p'.fee1 = p.fee1 ∧
      0 ≤ o0 ∧ 0 ≤ o1 ∧ o0 ≤ p.bal0 ∧ o1 ≤ p.bal1 ∧
      ∃ spL spU, tickToSqrtPrice pos.lower = some spL ∧ tickToSqrtPrice pos.upper = some spU ∧
        (pos.lower ≤ p.tick ∧ p.tick < pos.upper →
          Le0 req p.sqrtPrice spU (o0 * P18) ∧ Le1 req p.sqrtPrice spL (o1 * P18)) ∧
        (p.tick < pos.lower → Le0 req spL spU (o0 * P18) ∧ o1 = 0) ∧
        (pos.upper ≤ p.tick → o0 = 0 ∧ Le1 req spL spU (o1 * P18)) := by
  obtain ⟨pos, hmem, hid, hown, hr0, hr1, e0, e1, f0, f1, n0, n1, b0, b1, _, _, spL, spU, hsL, hsU, hvs⟩ :=
    withdraw_facts hsp h
  exact ⟨pos, hmem, hid, hown, hr0, hr1, e0, e1, f0, f1, n0, n1, b0, b1, spL, spU, hsL, hsU,
    vsExact_le_cases (hc.pos.range pos hmem) hvs⟩

theorem withdraw_le_exact_real {p : Pool} {owner : String} {id : Nat} {req : Int} {p' : Pool} {o0 o1 : Int}
    (hinv : Inv p) (h : withdrawPosition p owner id req = some (p', o0, o1)) :
    ∃ pos ∈ p.positions, pos.id = id ∧
      (o0 : ℚ) ≤ dX0 req pos.lower pos.upper p.sqrtPrice ∧ (o1 : ℚ) ≤ dX1 req pos.lower pos.upper p.sqrtPrice :=
  withdraw_le_real hinv.core hinv.price h

/-! ## 4. a round trip never pays out more than was paid in -/

theorem create_then_withdraw_returns_at_most_deposit {p : Pool} {owner : String} {lower upper a0 a1 m0 m1 : Int}
    {p' p'' : Pool} {id : Nat} {r0 r1 liq l' u' o0 o1 : Int} (hc : InvCore p)
    (hsp : p.positions ≠ [] → 0 < p.sqrtPrice)
    (h : createPositionMin p owner lower upper a0 a1 m0 m1 = some (p', id, r0, r1, liq, l', u'))
    (hw : withdrawPosition p' owner id liq = some (p'', o0, o1)) :
    o0 ≤ r0 ∧ o1 ≤ r1 ∧ 0 ≤ o0 ∧ 0 ≤ o1 ∧ p''.bal0 = p.bal0 + r0 - o0 ∧ p''.bal1 = p.bal1 + r1 - o1 :=
  create_then_withdraw hc hsp h hw

/-! ## 5. failed operations move nothing -/

theorem failed_op_noop {p : Pool} {op : Op} (h : apply p op = none) :
    (step p op).bal0 = p.bal0 ∧ (step p op).bal1 = p.bal1 ∧ (step p op).fee0 = p.fee0 ∧ (step p op).fee1 = p.fee1 := by
  rw [CLBook.failed_op_noop h]; exact ⟨rfl, rfl, rfl, rfl⟩

/-! ## 6. principal solvency: the potentials -/

/-- the exact amounts a position is owed, in the form of the property statement. -/
theorem exact_amounts_def {q : Position} {sL sU : Int} (P : Int) (hL : tickToSqrtPrice q.lower = some sL)
    (hU : tickToSqrtPrice q.upper = some sU) (hLU : sL ≤ sU) :
    posX0 q P = (if rp P < rp sU then rl q.liq * (1 / max (rp P) (rp sL) - 1 / rp sU) else 0) ∧
    posX1 q P = (if rp P > rp sL then rl q.liq * (min (rp P) (rp sU) - rp sL) else 0) := by
  unfold posX0 posX1
  rw [sqrtAt_of hL, sqrtAt_of hU]
  exact ⟨x0_eq_ite (rp_le hLU), x1_eq_ite (rp_le hLU)⟩

theorem potentials_def (ps : List Position) (P : Int) :
    V0 ps P = sumQ (fun q => posX0 q P) ps ∧ V1 ps P = sumQ (fun q => posX1 q P) ps := ⟨rfl, rfl⟩

theorem solv_def (p : Pool) :
    Solv p ↔ V0 p.positions p.sqrtPrice ≤ (p.bal0 : ℚ) ∧ V1 p.positions p.sqrtPrice ≤ (p.bal1 : ℚ) := Iff.rfl

/-- create adds at least the exact amounts of the new position. -/
theorem create_preserves_solvency {p : Pool} {owner : String} {lower upper a0 a1 m0 m1 : Int}
    {p' : Pool} {id : Nat} {r0 r1 liq l' u' : Int} (hinv : Inv p) (hs : Solv p)
    (h : createPositionMin p owner lower upper a0 a1 m0 m1 = some (p', id, r0, r1, liq, l', u')) : Solv p' :=
  create_solv hinv.core hinv.price hs h

/-- withdraw removes at most the exact amounts of the withdrawn liquidity. -/
theorem withdraw_preserves_solvency {p : Pool} {owner : String} {id : Nat} {req : Int} {p' : Pool} {o0 o1 : Int}
    (hinv : Inv p) (hs : Solv p) (h : withdrawPosition p owner id req = some (p', o0, o1)) : Solv p' :=
  withdraw_solv hinv.core hinv.price hs h

/-- add-to-position = withdraw everything + create over the same range: both steps preserve it. -/
theorem add_preserves_solvency {p : Pool} {owner : String} {id : Nat} {add0 add1 : Int} {p' : Pool} {nid : Nat}
    {r0 r1 : Int} (hinv : Inv p) (hspf : SpfOK p.spf) (hs : Solv p)
    (h : addToPosition p owner id add0 add1 = some (p', nid, r0, r1)) : Solv p' :=
  apply_solv (op := .add owner id add0 add1) hinv hspf hs (by simp only [CLBook.apply, h, Option.map_some])

theorem transfer_preserves_solvency {p : Pool} {sender : String} {id : Nat} {newOwner : String} {p' : Pool}
    (hs : Solv p) (h : transferPosition p sender id newOwner = some p') : Solv p' :=
  (transfer_solv hs h).1

/-- One iteration of an executed swap's loop, in a pool that satisfies the C07 invariants (`hok`, `ha`, `hla`): the
in-token potential grows by at most the iteration's amount in, which is a whole number of tokens; the out-token
potential falls by at least its amount out; charges and amounts out are non-negative; the C07 loop invariants hold
again.  (`inTot/outTot/chargeTot`: the differences of the loop's own `remaining/calculated/spreadTotal` fields.) -/
theorem swap_iteration_vs_potential {og zfo : Bool} {spf limit spacing : Int} {tl : Ticks} {ps : List Position}
    {st st1 : SwapSt} {nt net : Int} {rest ahead1 : Ticks} {c : Bool}
    (hok : TicksOK spacing tl ps) (hspf : SpfOK spf)
    (hlimit : sqrtPriceLimit (execPriceLimit zfo) zfo = some limit)
    (hb : loopBody og zfo spf limit st ((nt, net) :: rest) = some (st1, ahead1, c))
    (hrem : st.remaining > 1) (ha : Agree spacing st.pool.sqrtPrice st.pool.tick) (hpos : 0 < st.pool.sqrtPrice)
    (hla : LA zfo tl ps st.pool ((nt, net) :: rest)) :
    Agree spacing st1.pool.sqrtPrice st1.pool.tick ∧ 0 < st1.pool.sqrtPrice ∧ LA zfo tl ps st1.pool ahead1 ∧
    (∃ k, 0 ≤ k ∧ inTot og st st1 = k * P18) ∧ 0 ≤ chargeTot st st1 ∧ 0 ≤ outTot og st st1 ∧
    Vin zfo ps st1.pool.sqrtPrice - Vin zfo ps st.pool.sqrtPrice ≤ (inTot og st st1 : ℚ) / 10 ^ 18 ∧
    (outTot og st st1 : ℚ) / 10 ^ 18 ≤ Vout zfo ps st.pool.sqrtPrice - Vout zfo ps st1.pool.sqrtPrice :=
  body_solv hok hspf hlimit hb hrem ha hpos hla

/-- swap: the pool receives `amountIn − ⌈Σ charges⌉ = Σ step ins` (whole tokens) `≥` the growth of the in-potential and
pays `⌊Σ step outs⌋ ≤` the fall of the out-potential, across any number of tick crossings. -/
theorem swap_preserves_solvency {p p' : Pool} {og zfo : Bool} {spec ain aout fee : Int} (hinv : Inv p)
    (hspf : SpfOK p.spf) (hs : Solv p) (h : CLPool.swap p og zfo spec = some (p', ain, aout, fee)) : Solv p' :=
  (swap_solv hinv.core hinv.price hinv.active hspf hs h).1

theorem step_preserves_solvency {p : Pool} (op : Op) (hinv : Inv p) (hspf : SpfOK p.spf) (hs : Solv p) :
    Solv (step p op) := by
  rcases step_cases p op with h | ⟨p', h, e⟩
  · rw [h]; exact hs
  · rw [e]; exact apply_solv hinv hspf hs h

/-- PRINCIPAL SOLVENCY: after every history the C07 invariant holds and the pool's token balances cover the exact
principal of all positions at the current price. -/
theorem pool_balance_ge_V {s f : Int} (hs : 0 < s) (hf : SpfOK f) (ops : List Op) :
    Inv (run (initPool s f) ops) ∧
    V0 (run (initPool s f) ops).positions (run (initPool s f) ops).sqrtPrice ≤ ((run (initPool s f) ops).bal0 : ℚ) ∧
    V1 (run (initPool s f) ops).positions (run (initPool s f) ops).sqrtPrice ≤ ((run (initPool s f) ops).bal1 : ℚ) :=
  ⟨((initPool_good hs hf).run ops).inv, ((initPool_good hs hf).run ops).solv⟩

theorem pool_balance_ge_V_authorized {s f : Int} (hs : s ∈ CL.AuthorizedTickSpacing)
    (hf : f ∈ CL.AuthorizedSpreadFactors) (ops : List Op) :
    Solv (run (initPool s f) ops) :=
  (pool_balance_ge_V (C07.authorized_parameters_ok.1 s hs) (C07.authorized_parameters_ok.2 f hf) ops).2

/-! ## 7. nobody can be left unable to exit -/

/-- After every history, for every position `q` and every `0 < req ≤ q.liq`: if the withdrawal amounts compute
(`updatePosition` with `−req` succeeds — it can only fail by an arithmetic panic), they are at most `q`'s exact
principal, hence covered by the pool's balances, and `withdrawPosition` by the owner SUCCEEDS with these amounts. -/
theorem every_position_can_withdraw_principal {s f : Int} (hs : 0 < s) (hf : SpfOK f) (ops : List Op)
    {q : Position} (hq : q ∈ (run (initPool s f) ops).positions) {req : Int} (h0 : 0 < req) (h1 : req ≤ q.liq)
    {p1 : Pool} {a0 a1 : Int} {le ue : Bool}
    (hu : updatePosition (run (initPool s f) ops) q.id q.owner q.lower q.upper (-req) = some (p1, a0, a1, le, ue)) :
    ((a0.natAbs : Int) : ℚ) ≤ posX0 q (run (initPool s f) ops).sqrtPrice ∧
    ((a1.natAbs : Int) : ℚ) ≤ posX1 q (run (initPool s f) ops).sqrtPrice ∧
    (a0.natAbs : Int) ≤ (run (initPool s f) ops).bal0 ∧ (a1.natAbs : Int) ≤ (run (initPool s f) ops).bal1 ∧
    ∃ p', withdrawPosition (run (initPool s f) ops) q.owner q.id req = some (p', (a0.natAbs : Int), (a1.natAbs : Int)) := by
  have hg := (initPool_good hs hf).run ops
  obtain ⟨c0, c1, c2, c3⟩ := withdraw_amounts_covered hg hq h0 h1 hu
  obtain ⟨b0, b1, hw⟩ := can_withdraw hg hq h0 h1 hu
  exact ⟨le_trans c0 c2, le_trans c1 c3, b0, b1, hw⟩

/-- equivalently: a withdrawal by the owner can fail only because the amount arithmetic panics, never for lack of funds. -/
theorem withdrawal_never_blocked_by_funds {s f : Int} (hs : 0 < s) (hf : SpfOK f) (ops : List Op)
    {q : Position} (hq : q ∈ (run (initPool s f) ops).positions) {req : Int} (h0 : 0 < req) (h1 : req ≤ q.liq)
    (hfail : withdrawPosition (run (initPool s f) ops) q.owner q.id req = none) :
    updatePosition (run (initPool s f) ops) q.id q.owner q.lower q.upper (-req) = none := by
  cases hu : updatePosition (run (initPool s f) ops) q.id q.owner q.lower q.upper (-req) with
  | none => rfl
  | some x =>
    obtain ⟨p1, a0, a1, le, ue⟩ := x
    obtain ⟨_, _, _, _, p', hw⟩ := every_position_can_withdraw_principal hs hf ops hq h0 h1 hu
    rw [hfail] at hw; cases hw

/-- and the state after the exit is again a reachable state (the same history plus the withdrawal), so the argument
repeats for everybody else: the withdrawal is one more operation of the history. -/
theorem exit_is_a_history_step (p0 : Pool) (ops : List Op) (o : String) (id : Nat) (req : Int) :
    run p0 (ops ++ [.withdraw o id req]) = step (run p0 ops) (.withdraw o id req) := by
  induction ops generalizing p0 with
  | nil => rfl
  | cons op ops ih => exact ih (step p0 op)

/-- The balances cover ALL exits together: whatever the model pays for withdrawing every position completely
(`w q`, as far as the amounts compute), the sums are at most the total exact principal `V0`, `V1`, which is at most
the balances; what is left after everybody has withdrawn is non-negative rounding dust. -/
theorem residual_nonneg {s f : Int} (hs : 0 < s) (hf : SpfOK f) (ops : List Op) (w : Position → Int × Int)
    (hw : ∀ q ∈ (run (initPool s f) ops).positions, ∃ p1 a0 a1 le ue,
      updatePosition (run (initPool s f) ops) q.id q.owner q.lower q.upper (-q.liq) = some (p1, a0, a1, le, ue) ∧
      w q = ((a0.natAbs : Int), (a1.natAbs : Int))) :
    0 ≤ (run (initPool s f) ops).bal0 - sumBy (fun q => (w q).1) (run (initPool s f) ops).positions ∧
    0 ≤ (run (initPool s f) ops).bal1 - sumBy (fun q => (w q).2) (run (initPool s f) ops).positions := by
  obtain ⟨_, _, k0, k1⟩ := all_withdrawals_covered ((initPool_good hs hf).run ops) w hw
  exact ⟨by omega, by omega⟩

/-! ## 8. non-vacuity: the history of C07 (three positions, swaps in both directions across initialised ticks, partial
withdrawal, transfer, add-to-position, rejected withdrawal), then everybody exits -/

example : SpfOK demoInit.spf ∧ 0 < demoInit.spacing := ⟨⟨by decide, by decide⟩, by decide⟩

/-- balances (pool token0, pool token1, fee token0, fee token1) after the three creations, after the zero-for-one swap
of 300000 (fee 300), after the one-for-zero swap of 900000 (fee 900), and at the end of the history. -/
example :
    let b := fun (p : Pool) => (p.bal0, p.bal1, p.fee0, p.fee1)
    b (run demoInit (demoOps.take 3)) = (1500000, 800078, 0, 0) ∧
    b (run demoInit (demoOps.take 4)) = (1799700, 500410, 300, 0) ∧
    b (run demoInit (demoOps.take 5)) = (900715, 1399510, 300, 900) ∧
    b (run demoInit demoOps) = (900715, 1400510, 300, 900) := by decide +kernel

/-- the two swaps of the history (amount in, amount out, fee), and two in-given-out swaps on the state after them. -/
example :
    (CLPool.swap (run demoInit (demoOps.take 3)) true true 300000).map (·.2) = some (300000, 299668, 300) ∧
    (CLPool.swap (run demoInit (demoOps.take 4)) true false 900000).map (·.2) = some (900000, 898985, 900) ∧
    (CLPool.swap (run demoInit (demoOps.take 5)) false true 1234).map (·.2) = some (1236, 1234, 2) ∧
    (CLPool.swap (run demoInit (demoOps.take 5)) false false 4321).map (·.2) = some (4329, 4321, 5) := by
  decide +kernel

/-- create then withdraw at once (new id 5): deposited (2831, 6789), returned (2830, 6788) — per token at most the deposit. -/
example :
    (createPosition (run demoInit demoOps) "zed" (-500) 700 12345 6789).map (·.2) =
      some (5, 2831, 6789, 25661792291712021392645893, -500, 700) ∧
    ((createPosition (run demoInit demoOps) "zed" (-500) 700 12345 6789).bind fun x =>
      (withdrawPosition x.1 "zed" 5 25661792291712021392645893).map (·.2)) = some (2830, 6788) := by
  decide +kernel

/-- everybody exits after the history: each withdrawal succeeds, and the pool keeps (3, 6) tokens of rounding dust
(the spread-reward address keeps its 300 and 900). -/
example :
    let exits : List Op := [.withdraw "alice" 1 2001498875062460257502969826,
      .withdraw "dave" 2 500749875124843813046785138, .withdraw "carol" 4 7009288957181397231643152897]
    let b := fun (p : Pool) => (p.bal0, p.bal1, p.fee0, p.fee1, p.positions.length)
    b (run demoInit demoOps) = (900715, 1400510, 300, 900, 3) ∧
    b (run demoInit (demoOps ++ exits.take 1)) = (380073, 820961, 300, 900, 2) ∧
    b (run demoInit (demoOps ++ exits.take 2)) = (3, 701004, 300, 900, 1) ∧
    b (run demoInit (demoOps ++ exits)) = (3, 6, 300, 900, 0) := by decide +kernel

/-- the hypotheses of `every_position_can_withdraw_principal` are satisfiable: alice's full exit computes. -/
example :
    (updatePosition (run demoInit demoOps) 1 "alice" (-1000) 1000 (-2001498875062460257502969826)).map
      (fun x => (x.2.1, x.2.2.1)) = some (-520642, -579549) := by decide +kernel

end OsmoVerif.Props.C01
