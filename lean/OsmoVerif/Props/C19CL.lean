/-
C19 — export/import of x/concentrated-liquidity over the LAYERED state of a pool (`Model/CLFullGenesis.lean`): pool + spread-reward
accumulator (`Model/CLFees.lean`) + uptime accumulators, tick trackers, incentive records, join times (`Model/CLInc.lean`) + the
full-range liquidity record.  `Props/C19.cl_export_import_eq` covers the pool component alone.

Proved — all for EVERY reachable state (any history of create / withdraw / add / transfer / swap / collect / create-incentive / advance /
sync / collect-incentives messages on a fresh pool, C08's `runI`):
 * `cl_reachable_wf` (NEW invariant): the store shape `FullWF` — growth-outside entries and uptime trackers exactly on the initialised ticks
   in tick order, exactly one spread-reward record per live position in id order, the uptime records and join times of the live positions
   in id order, incentive records in key order.
 * `cl_full_export_import_eq`: `ExportGenesis` does not panic, `InitGenesis` accepts the document, and the imported state is `canon s`: the
   exported state with the uptime-accumulator records and join times of positions that NO LONGER EXIST removed; everything else is equal
   (`cl_canon_keeps`).  NEW difference, raw store only: the six zero-share uptime records of a fully withdrawn position stay in the running
   chain's store forever and are not exported (`cl_import_drops_dead_uptime_records_witness`).
 * `cl_prune_unobservable`, `cl_prune_results`, `cl_run_after_import`: that difference is UNOBSERVABLE — every message has the same
   success / failure and the same returned amounts on the pruned state, every claimable query answers the same, and after the import every
   later history goes through exactly the pruned states of the exporting chain.
 * F41: the full-range liquidity record follows `SetPosition` on the running chain (it only grows) and is the true sum after an import
   (`cl_full_range_import_recomputes`, `cl_full_range_record_recomputed_witness`: 2·L₁ + L₂ before, L₁ + L₂ after); no message of the model
   reads it, and the difference stays CONSTANT along every later history (`cl_run_after_import`).
 * `accum_export_import_on_reachable`: the osmoutils/accum store theorem of `Props/C19` on every reachable (disciplined) store.
The `cl` engine's op `exportimport` runs this model against the real ExportGenesis → InitGenesis and compares every later dump.
-/
import OsmoVerif.Proofs.CLFullGenesisRun
import OsmoVerif.Props.C08IncHist
import OsmoVerif.Proofs.AccumGenesisReach
import OsmoVerif.Props.C19

namespace OsmoVerif.Props.C19CL
open OsmoVerif.CLInc OsmoVerif.CLFees OsmoVerif.CLPool

/-- export → import on a state with the store shape `FullWF` (a decidable predicate) -/
theorem cl_full_export_import_eq_of_wf {s : Full} (h : FullWF s) : exportImportFull s = some (canon s) :=
  exportImportFull_eq h

/-- the initial state of a history satisfies the combined invariant (C07/C08 `IncInv`, position ids ascending, `FeeOrd`, `IncOrd`) -/
theorem cl_init_genInv {spacing spf scale factor : Int} {auth : Nat} (hs : 0 < spacing) (hspf : CLBook.SpfOK spf) (hfac : 0 < factor) :
    CLIncP.GenInv (C08IncHist.initI spacing spf scale factor auth) where
  inv := C08IncHist.initI_inv hs hspf hfac
  pos := List.Pairwise.nil
  fee := CLFeesP.feeOrd_init spacing spf scale
  inc := ⟨List.Pairwise.nil, fun a ha => by
      have : a = {} := by
        simp only [C08IncHist.initI, List.mem_cons, List.mem_nil_iff, or_false, or_self] at ha
        exact ha
      rw [this]; exact List.Pairwise.nil, List.Pairwise.nil, List.Pairwise.nil⟩

/-- **NEW reachable-state invariant: the store shape `FullWF` holds in every reachable state** — growth-outside entries and uptime
trackers exactly on the initialised ticks in tick order, exactly one spread-reward record per live position in id order, the uptime
records and join times of the live positions in id order, incentive records in key order -/
theorem cl_reachable_wf {spacing spf scale factor : Int} {auth : Nat} (hs : 0 < spacing) (hspf : CLBook.SpfOK spf) (hfac : 0 < factor)
    (ops : List CLIncP.IOp) : FullWF (CLIncP.runI (C08IncHist.initI spacing spf scale factor auth) ops) :=
  (CLIncP.genInv_run ops (cl_init_genInv hs hspf hfac)).wf

/-- **Export → import of the layered pool state, on EVERY reachable state**: `ExportGenesis` does not panic, `InitGenesis` accepts the
document, and the imported state is the exported one with the uptime-accumulator records and join times of positions that no longer
exist removed — everything else (pool, ticks, positions, growth-outside values, trackers, accumulator values / totals, every record of a
live position, incentive records, clocks, ids) is EQUAL. -/
theorem cl_full_export_import_eq {spacing spf scale factor : Int} {auth : Nat} (hs : 0 < spacing) (hspf : CLBook.SpfOK spf)
    (hfac : 0 < factor) (ops : List CLIncP.IOp) :
    exportImportFull (CLIncP.runI (C08IncHist.initI spacing spf scale factor auth) ops) =
      some (canon (CLIncP.runI (C08IncHist.initI spacing spf scale factor auth) ops)) :=
  exportImportFull_eq (cl_reachable_wf hs hspf hfac ops)

/-- **on EVERY reachable state the chain's own export is accepted**: for every history of create / withdraw / add / transfer / swap / collect /
create-incentive / advance / sync / collect-incentives messages on a fresh pool (any tick spacing > 0, admissible spread factor, incentive
scaling factor > 0) `ExportGenesis` finds a record for every live position in all seven accumulators, growth-outside values and uptime
trackers for every initialised tick, a join time for every position — no panic — and `InitGenesis` accepts the document. -/
theorem cl_full_export_import_never_panics {spacing spf scale factor : Int} {auth : Nat} (hs : 0 < spacing) (hspf : CLBook.SpfOK spf)
    (hfac : 0 < factor) (ops : List CLIncP.IOp) :
    (exportImportFull (CLIncP.runI (C08IncHist.initI spacing spf scale factor auth) ops)).isSome = true :=
  exportImportFull_isSome (C08IncHist.reachable_inv_inc hs hspf hfac ops)

/-- what `canon` keeps: the whole fee layer (pool, ticks, positions, spread-reward accumulator with all its records), the uptime
accumulators' values and totals, every record of a live position, trackers, incentive records, clocks, balances -/
theorem cl_canon_keeps (s : Full) :
    (canon s).fees = s.fees ∧ (canon s).inc.trackers = s.inc.trackers ∧ (canon s).inc.records = s.inc.records ∧
    (canon s).inc.last = s.inc.last ∧ (canon s).inc.now = s.inc.now ∧ (canon s).inc.bal = s.inc.bal ∧
    (canon s).inc.nextRec = s.inc.nextRec ∧
    (canon s).inc.accs.map (fun a => (a.value, a.total)) = s.inc.accs.map (fun a => (a.value, a.total)) ∧
    ∀ q ∈ s.fees.pool.positions, (canon s).inc.accs.map (fun a => getURec a.recs q.id) = s.inc.accs.map (fun a => getURec a.recs q.id) := by
  refine ⟨rfl, rfl, rfl, rfl, rfl, rfl, rfl, ?_, fun q hq => ?_⟩
  · simp only [canon, List.map_map]; rfl
  · simp only [canon, List.map_map]
    apply List.map_congr_left
    intro a _
    exact getURec_filter s a q.id (live_of_mem hq)

/-- … the identity when no record of a dead position is around -/
theorem cl_full_export_import_identity {s : Full} (h : FullWF s) (hd : NoDead s) : exportImportFull s = some s := by
  rw [exportImportFull_eq h, canon_eq_of_noDead hd]

/-- the pool component alone is reproduced exactly (consistent with `Props/C19.cl_export_import_eq`) -/
theorem cl_full_export_import_pool {s : Full} (h : FullWF s) : (exportImportFull s).map (·.fees.pool) = some s.fees.pool := by
  rw [exportImportFull_eq h]; rfl

/-! ## the full-range liquidity record (F41) -/

/-- **after an import the record is the true sum** over the full-range positions -/
theorem cl_full_range_import_recomputes {g g' : FullG} (h : exportImportG g = some g') :
    g'.fullRange = sumFullRange (sortPosById g.full.fees.pool.positions) := by
  unfold exportImportG at h
  cases he : exportImportFull g.full with
  | none => rw [he] at h; cases h
  | some f => rw [he] at h; injection h with h; rw [← h]

/-- two layered states with the same `Full` component (an exporting chain and the chain imported from it, when the import is the
identity on `Full`): every message has the same outcome and the same effect on `Full`, and moves the two records by the same amount -/
theorem cl_full_range_sim_step {g t : FullG} (h : t.full = g.full) (op : GOp) :
    (stepG t op).full = (stepG g op).full ∧ (applyG t op).isSome = (applyG g op).isSome ∧
    (stepG t op).fullRange - (stepG g op).fullRange = t.fullRange - g.fullRange := by
  obtain ⟨f, r⟩ := g
  obtain ⟨f', r'⟩ := t
  simp only at h
  subst h
  have fin : ∀ (l u x : Int), frAdd r' l u x - frAdd r l u x = r' - r := by
    intro l u x; unfold frAdd; split <;> omega
  have fin2 : ∀ (l u x l2 u2 x2 : Int), frAdd (frAdd r' l u x) l2 u2 x2 - frAdd (frAdd r l u x) l2 u2 x2 = r' - r := by
    intro l u x l2 u2 x2; unfold frAdd; split <;> split <;> omega
  cases op with
  | create o l u a0 a1 =>
    simp only [stepG, applyG]
    cases createPosition f' o l u a0 a1 <;>
      simp only [Option.map_none, Option.map_some, Option.isSome_some, Option.isSome_none] <;> and_intros <;>
      first | rfl | trivial | exact fin _ _ _
  | withdraw o id liq =>
    simp only [stepG, applyG]
    cases findPos f'.fees.pool id <;> cases withdrawPosition f' o id liq <;>
      simp only [Option.map_none, Option.map_some, Option.bind_some, Option.bind_none, Option.isSome_some, Option.isSome_none] <;>
      and_intros <;> first | rfl | trivial | exact fin _ _ _
  | add o id a0 a1 =>
    simp only [stepG, applyG]
    cases findPos f'.fees.pool id with
    | none => simp only [Option.bind_none]; and_intros <;> first | rfl | trivial
    | some pos =>
      cases addToPosition f' o id a0 a1 with
      | none => simp only [Option.map_none, Option.bind_some, Option.isSome_none]; and_intros <;> first | rfl | trivial
      | some x =>
        simp only [Option.bind_some, Option.map_some, Option.isSome_some]
        cases findPos x.1.fees.pool x.2.1 <;> simp only <;> and_intros <;> first | rfl | trivial | exact fin2 _ _ _ _ _ _
  | transfer sd id n =>
    simp only [stepG, applyG]
    cases findPos f'.fees.pool id <;> cases transferPosition f' sd id n <;>
      simp only [Option.map_none, Option.map_some, Option.bind_some, Option.bind_none, Option.isSome_some, Option.isSome_none] <;>
      and_intros <;> first | rfl | trivial | exact fin _ _ _
  | swap og zfo spec =>
    simp only [stepG, applyG]
    cases swap f' og zfo spec <;> simp only [Option.map_none, Option.map_some, Option.isSome_some, Option.isSome_none] <;>
      and_intros <;> first | rfl | trivial
  | collect sd id =>
    simp only [stepG, applyG]
    cases collectSpread f' sd id <;> simp only [Option.map_none, Option.map_some, Option.isSome_some, Option.isSome_none] <;>
      and_intros <;> first | rfl | trivial
  | incentive id d a r st u =>
    simp only [stepG, applyG]
    cases createIncentive f' id d a r st u <;> simp only [Option.map_none, Option.map_some, Option.isSome_some, Option.isSome_none] <;>
      and_intros <;> first | rfl | trivial
  | advance ns => exact ⟨rfl, rfl, rfl⟩
  | sync =>
    simp only [stepG, applyG]
    cases syncNow f' <;> simp only [Option.map_none, Option.map_some, Option.isSome_some, Option.isSome_none] <;>
      and_intros <;> first | rfl | trivial
  | icollect sd id =>
    simp only [stepG, applyG]
    cases collectIncentives f' sd id <;> simp only [Option.map_none, Option.map_some, Option.isSome_some, Option.isSome_none] <;>
      and_intros <;> first | rfl | trivial

/-- **removing the records of dead positions is unobservable, message by message**: on every state satisfying the C07/C08 invariant, for
every predicate `p` that keeps the live position ids and all ids not yet handed out, every message succeeds / fails identically on the
pruned state and yields the pruned result -/
theorem cl_prune_unobservable {p : Nat → Bool} {s : Full} (hi : CLIncP.IncInv s) (hk : CLIncP.Keeps p s) (op : CLIncP.IOp) :
    CLIncP.stepI (CLIncP.prune p s) op = CLIncP.prune p (CLIncP.stepI s op) ∧
    (CLIncP.applyI (CLIncP.prune p s) op).isSome = (CLIncP.applyI s op).isSome ∧
    CLIncP.Keeps p (CLIncP.stepI s op) :=
  ⟨(CLIncP.prune_step hi hk op).1, (CLIncP.prune_step hi hk op).2, CLIncP.keeps_step hi hk op⟩

/-- … with the same returned amounts (position id, token amounts, liquidity, swap in / out / fee, collected spread rewards, collected and
forfeited incentives) and the same answers to the claimable queries -/
theorem cl_prune_results {p : Nat → Bool} {s : Full} (hi : CLIncP.IncInv s) (hk : CLIncP.Keeps p s) :
    (∀ o l u a0 a1, (CLInc.createPosition (CLIncP.prune p s) o l u a0 a1).map (·.2) = (CLInc.createPosition s o l u a0 a1).map (·.2)) ∧
    (∀ o id liq, (CLInc.withdrawPosition (CLIncP.prune p s) o id liq).map (·.2) = (CLInc.withdrawPosition s o id liq).map (·.2)) ∧
    (∀ o id a0 a1, (CLInc.addToPosition (CLIncP.prune p s) o id a0 a1).map (·.2) = (CLInc.addToPosition s o id a0 a1).map (·.2)) ∧
    (∀ og zfo spec, (CLInc.swap (CLIncP.prune p s) og zfo spec).map (·.2) = (CLInc.swap s og zfo spec).map (·.2)) ∧
    (∀ sd id, (collectSpread (CLIncP.prune p s) sd id).map (·.2) = (collectSpread s sd id).map (·.2)) ∧
    (∀ sd id, (collectIncentives (CLIncP.prune p s) sd id).map (·.2) = (collectIncentives s sd id).map (·.2)) ∧
    (∀ id, claimableIncentives (CLIncP.prune p s) id = claimableIncentives s id) ∧
    (∀ id, CLFees.claimable (CLIncP.prune p s).fees id = CLFees.claimable s.fees id) := by
  have hn : p s.fees.pool.nextId = true := hk.fresh _ (Nat.le_refl _)
  refine ⟨fun o l u a0 a1 => ?_, fun o id liq => ?_, fun o id a0 a1 => ?_, fun og zfo spec => ?_, fun sd id => ?_, fun sd id => ?_,
    fun id => CLIncP.claimableIncentives_prune p s id hk.live, fun _ => rfl⟩
  · unfold CLInc.createPosition
    rw [CLIncP.createMin_prune p s o l u a0 a1 0 0 hi.fees.pool.core hn, Option.map_map]; rfl
  · rw [CLIncP.withdraw_prune p s o id liq hk.live, Option.map_map]; rfl
  · rw [CLIncP.add_prune p s o id a0 a1 hi hk.live hn, Option.map_map]; rfl
  · rw [CLIncP.swap_prune, Option.map_map]; rfl
  · unfold collectSpread
    rw [CLIncP.prune_fees, Option.map_map, Option.map_map]; rfl
  · rw [CLIncP.icollect_prune p s sd id hk.live, Option.map_map]; rfl

/-- **Every later history, on EVERY reachable state**: after export → import (of the layered state with ANY value `r` of the full-range
record), every later sequence of messages succeeds / fails identically, the imported chain goes through exactly the PRUNED states of the
exporting chain (`prune (keepOf s)`: records / join times of positions that were dead at export time removed — unobservable by
`cl_prune_results`), and its full-range record differs from the exporting chain's by the constant `Σ full-range liquidity − r`. -/
theorem cl_run_after_import {spacing spf scale factor : Int} {auth : Nat} (hs : 0 < spacing) (hspf : CLBook.SpfOK spf) (hfac : 0 < factor)
    (ops : List CLIncP.IOp) (r : Int) (later : List GOp) :
    let s := CLIncP.runI (C08IncHist.initI spacing spf scale factor auth) ops
    ∃ g', exportImportG { full := s, fullRange := r } = some g' ∧
      (runG g' later).full = CLIncP.prune (CLIncP.keepOf s) (runG { full := s, fullRange := r } later).full ∧
      CLIncP.outcomesG g' later = CLIncP.outcomesG { full := s, fullRange := r } later ∧
      (runG g' later).fullRange - (runG { full := s, fullRange := r } later).fullRange =
        sumFullRange (sortPosById s.fees.pool.positions) - r := by
  intro s
  have hi : CLIncP.IncInv s := C08IncHist.reachable_inv_inc hs hspf hfac ops
  have he : exportImportFull s = some (canon s) := cl_full_export_import_eq hs hspf hfac ops
  refine ⟨{ full := CLIncP.prune (CLIncP.keepOf s) s, fullRange := sumFullRange (sortPosById s.fees.pool.positions) }, ?_, ?_⟩
  · show (exportImportFull s).map _ = _
    rw [he, CLIncP.canon_eq_prune_keepOf hi]
    rfl
  · obtain ⟨h1, h2, h3⟩ := CLIncP.runG_prune (CLIncP.keepOf s) later (g := { full := s, fullRange := r })
      (sumFullRange (sortPosById s.fees.pool.positions)) hi (CLIncP.keeps_keepOf s)
    have e : ({ full := s, fullRange := r } : FullG).fullRange = r := rfl
    exact ⟨h1, h3, by rw [h2, e]; omega⟩

/-! ## a concrete pool -/

/-- tick spacing 10, spread factor 0.05 %, both scaling factors 10²⁷·10¹⁸ (what the engine's `reset` builds) -/
def clInit : FullG :=
  { full := { fees := { pool := { spacing := 10, spf := 500000000000000, scale := 1000000000000000000000000000000000000000000000 } },
              inc := { factor := 1000000000000000000000000000000000000000000000, authorized := 15 } } }

/-- two FULL-RANGE positions (1: acc1, liquidity L₁ = 159580700587508388058699999999; 2: acc2, L₂ = 797903502937541940293499999999) and a
narrow one (3), an incentive record, time passes, a swap, position 1 is TRANSFERRED, position 3 is withdrawn completely -/
def clHist : List GOp :=
  [ .create "acc1" (-108000000) 342000000 238000000000 107000000000,
    .create "acc2" (-108000000) 342000000 1190000000000 535000000000,
    .create "acc2" (-1000) 1000 1000000 1000000,
    .incentive 1 "inc0" 566000000 94163000000000000000 0 0,
    .advance 38000000000,
    .swap true true 50000,
    .transfer "acc1" 1 "acc3",
    .withdraw "acc2" 3 1819408885294222555113060902 ]

def clMid : FullG := runG clInit clHist

/-- all eight messages succeed; the store shape holds before and after the full withdrawal (the hypothesis of
`cl_full_export_import_eq_of_wf` holds on a non-trivial state; the history is an instance of `cl_reachable_wf`) -/
theorem cl_demo_wf : FullWF clMid.full ∧ FullWF (runG clInit (clHist.take 7)).full ∧
    clMid.full.fees.pool.positions.map (·.id) = [1, 2] ∧ clMid.full.fees.pool.ticks.map (·.tick) = [-108000000, 342000000] ∧
    clMid.full.inc.records.map (·.id) = [1] := by
  decide +kernel

/-- **(raw store) the uptime records of the fully withdrawn position 3 stay behind with zero shares in all six accumulators — and its
join time in the model — and the import drops them**: plain equality `import (export s) = s` is false; everything else is reproduced
(`cl_full_export_import_eq`, `cl_canon_keeps`). -/
theorem cl_import_drops_dead_uptime_records_witness :
    clMid.full.inc.accs.map (fun a => a.recs.map (fun r => (r.id, r.shares))) =
      List.replicate 6 [(1, 159580700587508388058699999999), (2, 797903502937541940293499999999), (3, 0)] ∧
    (exportImportFull clMid.full).map (fun t => t.inc.accs.map (fun a => a.recs.map (fun r => (r.id, r.shares)))) =
      some (List.replicate 6 [(1, 159580700587508388058699999999), (2, 797903502937541940293499999999)]) ∧
    (exportImportFull clMid.full).map (fun t => (t.fees.acc.recs.map (·.id), t.fees.acc.totalShares, t.inc.accs.map (·.total))) =
      some (clMid.full.fees.acc.recs.map (·.id), clMid.full.fees.acc.totalShares, clMid.full.inc.accs.map (·.total)) := by
  decide +kernel

/-- before the withdrawal there is nothing to drop: the import is the identity (instance of `cl_full_export_import_identity`) -/
example : NoDead (runG clInit (clHist.take 7)).full := by
  constructor
  · decide +kernel
  · decide +kernel

/-- **F41**: the running chain's full-range record counts position 1 twice (created, then transferred: `SetPosition` added its liquidity
both times), the imported chain holds the true sum L₁ + L₂ -/
theorem cl_full_range_record_recomputed_witness :
    clMid.fullRange = 2 * 159580700587508388058699999999 + 797903502937541940293499999999 ∧
    (exportImportG clMid).map (·.fullRange) = some (159580700587508388058699999999 + 797903502937541940293499999999) ∧
    sumFullRange clMid.full.fees.pool.positions = 159580700587508388058699999999 + 797903502937541940293499999999 := by
  decide +kernel

/-! ## osmoutils/accum: the store-level theorem of `Props/C19` on reachable stores -/

/-- **export → import of the accumulator store is the identity on every reachable store** (any disciplined history — C15's quantifier —
of make / grow / new position / add / remove / update / set interval / add unclaimed / claim / delete from the empty store): the
hypotheses of `C19.accum_export_import_eq` (distinct names, distinct position keys, no key separator in a name) are reachable-state
invariants -/
theorem accum_export_import_on_reachable (ops : List Accum.Op) (hd : Accum.disciplined Accum.Store.empty ops = true) :
    Det.accumImport (Det.accumExport (Accum.run Accum.Store.empty ops)) = some (Accum.run Accum.Store.empty ops) := by
  have hI := Accum.inv_run ops Accum.Store.empty Accum.inv_empty hd
  have hu := Accum.uniqK_accs_run ops Accum.Store.empty Accum.inv_empty trivial hd
  refine C19.accum_export_import_eq _ (Accum.nodup_of_uniqK hu) (Accum.nodup_of_uniqK hI.uniq) (fun a ha => ?_)
  obtain ⟨c, hc⟩ := Accum.mem_alookup_isSome _ a ha
  exact hI.nosep a.1 c hc

/-- … hence every later operation sequence behaves identically on the imported store -/
theorem accum_run_after_import_on_reachable (ops : List Accum.Op) (hd : Accum.disciplined Accum.Store.empty ops = true)
    (later : List Accum.Op) :
    (Det.accumImport (Det.accumExport (Accum.run Accum.Store.empty ops))).map (fun s => Accum.run s later) =
      some (Accum.run (Accum.run Accum.Store.empty ops) later) := by
  rw [accum_export_import_on_reachable ops hd]; rfl

end OsmoVerif.Props.C19CL
