/-
Tie T1 for the x/poolmanager router (owning property C05), part B extended: the multihop functions of router.go as ordered
statement lists regenerated on every run (tools/extract/gen_expr_k.go) and pinned below.  Part of what they pin: the per-hop limit
logic (`_outMinAmount` is 1 except on the last hop, `insExpected[0] = tokenInMaxAmount` and `insExpected[i]` per hop), which coin
is carried to the next hop (`tokenIn = tokenOut` after the swap of `tokenInAfterSubTakerFee`; `_tokenOut` built from
`insExpected[i+1]`), the operand ORDER of `GetTradingPairTakerFee(tokenIn, tokenOut)` and `chargeTakerFee`, and the order swap →
taker fee → volume tracking.
Written by tools/mkpins.py from tools/pins/TieGenRouterOps.json.
-/
import OsmoVerif.Gen.RouterOpsFn

-- `decide` on lists of up to a few hundred strings
set_option maxRecDepth 100000

namespace OsmoVerif.Props.TieGenRouterOps
open OsmoVerif

/-- B — `Keeper.RouteExactAmountIn`: `Router.routeExactAmountIn` / `Router.routeInLoop` (`GammKeeper.routeExactAmountIn` / `hopIn`) -/
theorem opsx_Keeper_RouteExactAmountIn_pinned : Gen.RouterOps.opsx_Keeper_RouteExactAmountIn =
    ["types.SwapAmountInRoutes(v3)", "Validate(_)", "=(v8,{})", "=(v9,{v4.Denom})", "range(v3)",
     "osmomath.NewInt(1)", "=(v12,osmomath.NewInt(1))", "len(v3)", "-(_,1)", "==(_,v10)", "if", "=(v12,v5)", "end",
     "SwapExactAmountIn(v0,v1,v2,v11.PoolId,v4,v11.TokenOutDenom,v12)", "=(v6;v13;v7,_)",
     "sdk.NewCoin(v11.TokenOutDenom,v6)", "=(v4,_)", "Add(v8,v13)", "=(v8,_)",
     "osmoutils.Contains(v9,v11.TokenOutDenom)", "!(_)", "if", "append(v9,v11.TokenOutDenom)", "=(v9,_)", "end",
     "end", "TakerFeeSkim(v0,v1,v9,v8)", "return(v6,nil)"] := by decide

/-- B — `Keeper.SplitRouteExactAmountIn`: `Router.splitRouteExactAmountIn` / `splitInLoop` -/
theorem opsx_Keeper_SplitRouteExactAmountIn_pinned : Gen.RouterOps.opsx_Keeper_SplitRouteExactAmountIn =
    ["types.ValidateSwapAmountInSplitRoute(v3)", "osmomath.ZeroInt()", "=(v7,osmomath.ZeroInt())",
     "osmomath.ZeroInt()", "=(v8,osmomath.ZeroInt())", "range(v3)", "types.SwapAmountInRoutes(v9.Pools)",
     "sdk.NewCoin(v4,v9.TokenInAmount)", "RouteExactAmountIn(v0,v1,v2,_,_,v7)", "Add(v8,v10)", "=(v8,_)", "end",
     "IsPositive(v8)", "!(v8.IsPositive())", "if", "end", "LT(v8,v5)", "if", "end", "return(v8,nil)"] := by decide

/-- B — `Keeper.SwapExactAmountIn`: `Router.swapExactAmountIn` (taker fee charged FIRST, the pool swaps `tokenInAfterSubTakerFee`) -/
theorem opsx_Keeper_SwapExactAmountIn_pinned : Gen.RouterOps.opsx_Keeper_SwapExactAmountIn =
    ["GetPoolModuleAndPool(v0,v1,v3)", "IsActive(v11,v1)", "!(_)", "if", "end",
     "chargeTakerFee(v0,v1,v4,v5,v2,true)", "GetSpreadFactor(v11,v1)",
     "SwapExactAmountIn(v10,v1,v2,v11,v12,v5,v6,_)", "=(v7;v9,_)", "GetId(v11)", "trackVolume(v0,v1,v11.GetId(),v4)",
     "return(v7,v8,nil)"] := by decide

/-- B — `Keeper.SwapExactAmountInNoTakerFee`: the `applyFee = false` variant of `Router.swapExactAmountIn` -/
theorem opsx_Keeper_SwapExactAmountInNoTakerFee_pinned : Gen.RouterOps.opsx_Keeper_SwapExactAmountInNoTakerFee =
    ["GetPoolModuleAndPool(v0,v1,v3)", "IsActive(v10,v1)", "!(_)", "if", "end", "GetSpreadFactor(v10,v1)",
     "SwapExactAmountIn(v9,v1,v2,v10,v4,v5,v6,_)", "=(v7;v8,_)", "GetId(v10)", "trackVolume(v0,v1,v10.GetId(),v4)",
     "return(v7,nil)"] := by decide

/-- B — `Keeper.RouteExactAmountInNoTakerFee`: the `applyFee = false` variant of `Router.routeExactAmountIn` -/
theorem opsx_Keeper_RouteExactAmountInNoTakerFee_pinned : Gen.RouterOps.opsx_Keeper_RouteExactAmountInNoTakerFee =
    ["types.SwapAmountInRoutes(v3)", "Validate(_)", "range(v3)", "osmomath.NewInt(1)", "=(v10,osmomath.NewInt(1))",
     "len(v3)", "-(_,1)", "==(_,v8)", "if", "=(v10,v5)", "end",
     "SwapExactAmountInNoTakerFee(v0,v1,v2,v9.PoolId,v4,v9.TokenOutDenom,v10)", "=(v6;v7,_)",
     "sdk.NewCoin(v9.TokenOutDenom,v6)", "=(v4,_)", "end", "return(v6,nil)"] := by decide

/-- B — `Keeper.multihopEstimateOutGivenExactAmountInInternal`: `Router.multihopEstimateOutGivenExactAmountIn` / `estimateInLoop` (the next hop starts from the quote of `tokenInAfterTakerFee`) -/
theorem opsx_Keeper_multihopEstimateOutGivenExactAmountInInternal_pinned : Gen.RouterOps.opsx_Keeper_multihopEstimateOutGivenExactAmountInInternal =
    ["defer", "func", "recover()", "=(v7,recover())", "if", "=(v5,{})", "osmoutils.IsOutOfGasError(v7)", "if(v8)",
     "else", "end", "end", "end", "call()", "types.SwapAmountInRoutes(v2)", "Validate(_)", "range(v2)",
     "GetPoolModuleAndPool(v0,v1,v10.PoolId)", "GetSpreadFactor(v12,v1)", "=(v14,v3)", "if(v4)",
     "GetTradingPairTakerFee(v0,v1,v3.Denom,v10.TokenOutDenom)", "CalcTakerFeeExactIn(v3,v15)", "=(v14;_,_)", "end",
     "CalcOutAmtGivenIn(v11,v1,v12,v14,v10.TokenOutDenom,v13)", "=(v5,v16.Amount)", "IsPositive(v5)",
     "!(v5.IsPositive())", "if", "end", "=(v3,{Denom:v10.TokenOutDenom,Amount:v5})", "end", "return(v5,v6)"] := by decide

/-- B — `Keeper.RouteExactAmountOut`: `Router.routeExactAmountOut` / `routeOutLoop` / `hopExactOut` (`GammKeeper.routeExactAmountOut` / `hopOut`) -/
theorem opsx_Keeper_RouteExactAmountOut_pinned : Gen.RouterOps.opsx_Keeper_RouteExactAmountOut =
    ["=(v8,false)", "=(v9,{})", "=(v10,{})", "types.SwapAmountOutRoutes(v3)", "Validate(_)", "defer", "func",
     "recover()", "=(v11,recover())", "if", "=(v6,{})", "osmoutils.IsOutOfGasError(v11)", "if(v12)", "else", "end",
     "end", "end", "call()", "createMultihopExpectedSwapOuts(v0,v1,v3,v5)", "=(v14;v7,_)", "len(v14)", "==(_,0)",
     "if", "end", "=(v14[0],v4)", "=(v15,{})", "=(v16,{v5.Denom})", "range(v3)",
     "GetPoolModuleAndPool(v0,v1,v18.PoolId)", "=(v21,v5)", "len(v3)", "-(_,1)", "!=(v17,_)", "if", "+(v17,1)",
     "+(v17,1)", "sdk.NewCoin(v3[_].TokenInDenom,v14[_])", "=(v21,_)", "end", "IsActive(v20,v1)", "!(_)", "if",
     "end", "GetSpreadFactor(v20,v1)", "if(v8)", "Quo(v22,v10)", "Mul(v9,_)", "=(v22,_)", "end",
     "SwapExactAmountOut(v19,v1,v2,v20,v18.TokenInDenom,v14[v17],v21,v22)", "if", "return({},v24)", "end",
     "sdk.NewCoin(v18.TokenInDenom,v23)", "chargeTakerFee(v0,v1,v25,v21.Denom,v2,false)", "GetId(v20)",
     "sdk.NewCoin(v18.TokenInDenom,v25.Amount)", "trackVolume(v0,v1,v20.GetId(),_)", "==(v17,0)", "if",
     "=(v6,v26.Amount)", "end", "Add(v15,v27)", "=(v15,_)", "osmoutils.Contains(v16,v18.TokenInDenom)", "!(_)", "if",
     "append(v16,v18.TokenInDenom)", "=(v16,_)", "end", "end", "TakerFeeSkim(v0,v1,v16,v15)", "return(v6,nil)"] := by decide

/-- B — `Keeper.SplitRouteExactAmountOut`: `Router.splitRouteExactAmountOut` / `splitOutLoop` -/
theorem opsx_Keeper_SplitRouteExactAmountOut_pinned : Gen.RouterOps.opsx_Keeper_SplitRouteExactAmountOut =
    ["types.ValidateSwapAmountOutSplitRoute(v3)", "=(v7,intMaxValue)", "osmomath.ZeroInt()",
     "=(v8,osmomath.ZeroInt())", "range(v3)", "types.SwapAmountOutRoutes(v9.Pools)",
     "sdk.NewCoin(v4,v9.TokenOutAmount)", "RouteExactAmountOut(v0,v1,v2,_,v7,_)", "Add(v8,v10)", "=(v8,_)", "end",
     "IsPositive(v8)", "!(v8.IsPositive())", "if", "end", "GT(v8,v5)", "if", "end", "return(v8,nil)"] := by decide

/-- B — `Keeper.MultihopEstimateInGivenExactAmountOut`: `Router.multihopEstimateInGivenExactAmountOut` -/
theorem opsx_Keeper_MultihopEstimateInGivenExactAmountOut_pinned : Gen.RouterOps.opsx_Keeper_MultihopEstimateInGivenExactAmountOut =
    ["defer", "func", "recover()", "=(v7,recover())", "if", "=(v6,{})", "osmoutils.IsOutOfGasError(v7)", "if(v8)",
     "else", "end", "end", "end", "call()", "types.SwapAmountOutRoutes(v2)", "Validate(v10)",
     "createMultihopExpectedSwapOuts(v0,v1,v2,v3)", "=(v6;v5,_)", "len(v6)", "==(_,0)", "if", "end",
     "return(v6[0],nil)"] := by decide

/-- B — `Keeper.createMultihopExpectedSwapOuts`: `Router.createMultihopExpectedSwapOuts` / `expectedInsRev` (backwards over the route: quote, `GetTradingPairTakerFee(routeStep.TokenInDenom, tokenOut.Denom)`, `CalcTakerFeeExactOut`, `insExpected[i]`) -/
theorem opsx_Keeper_createMultihopExpectedSwapOuts_pinned : Gen.RouterOps.opsx_Keeper_createMultihopExpectedSwapOuts =
    ["len(v2)", "make(_,_)", "len(v2)", "-(_,1)", "for", ">=(v5,0)", "=(v6,v2[v5])",
     "GetPoolModuleAndPool(v0,v1,v6.PoolId)", "GetSpreadFactor(v8,v1)",
     "GetTradingPairTakerFee(v0,v1,v6.TokenInDenom,v3.Denom)", "CalcInAmtGivenOut(v7,v1,v8,v3,v6.TokenInDenom,v10)",
     "CalcTakerFeeExactOut(v12,v11)", "=(v4[v5],v13.Amount)", "=(v3,v13)", "--(v5)", "end", "return(v4,nil)"] := by decide

/-- B — `Keeper.chargeTakerFee`: `Router.chargeTakerFee` -/
theorem opsx_Keeper_chargeTakerFee_pinned : Gen.RouterOps.opsx_Keeper_chargeTakerFee =
    ["=(v6,txfeestypes.TakerFeeCollectorName)", "=(v7,{})",
     "Get(v0.paramSpace,v1,types.KeyReducedTakerFeeByWhitelist,&v7)", "String(v4)",
     "osmoutils.Contains(v7,v4.String())", "if", "return(v2,{Denom:v2.Denom,Amount:zero},nil)", "end",
     "GetTradingPairTakerFee(v0,v1,v2.Denom,v3)", "if(v5)", "CalcTakerFeeExactIn(v2,v8)", "=(v10;v11,_)", "else",
     "CalcTakerFeeExactOut(v2,v8)", "=(v10;v11,_)", "end", "sdk.NewCoins(v11)",
     "SendCoinsFromAccountToModule(v0.bankKeeper,v1,v4,v6,_)", "return(v10,v11,nil)"] := by decide

/-- B — `Keeper.GetTradingPairTakerFee`: `Router.getTradingPairTakerFee` (pair lookup in the GIVEN order, default fee otherwise) -/
theorem opsx_Keeper_GetTradingPairTakerFee_pinned : Gen.RouterOps.opsx_Keeper_GetTradingPairTakerFee =
    ["KVStore(v1,v0.storeKey)", "types.FormatDenomTradePairKey(v2,v3)", "=(v6,&{})", "osmoutils.Get(v4,v5,v6)",
     "!(v7)", "if", "GetDefaultTakerFee(v0,v1)", "return(_,nil)", "end", "return(v6.Dec,nil)"] := by decide

end OsmoVerif.Props.TieGenRouterOps
