/-
Tie T1 for the x/poolmanager taker-fee arithmetic (owning property C05).
A: `Router.calcTakerFeeExactIn/Out` (Model/Router.lean, hand-written, used by every routing theorem) are EQUAL to
   the definitions regenerated from taker_fee.go by the expression translator (`Gen/RouterFn.lean`); the
   equalities are re-proved on every run, so a changed operator / operand / operand order in Go breaks them.
B: `chargeTakerFee`: which fee function is called with which operands, the whitelist test, the transfer.
-/
import OsmoVerif.Model.Router
import OsmoVerif.Gen.RouterFn
import OsmoVerif.Proofs.TieTactics

namespace OsmoVerif.Props.TieGenRouter
open OsmoVerif OsmoVerif.Num

/-- `CalcTakerFeeExactIn`: (1 − fee)·amount truncated, the fee is the rest. -/
theorem calcTakerFeeExactIn_model_eq_gen : Router.calcTakerFeeExactIn = Gen.Router.CalcTakerFeeExactIn := by
  funext amount fee
  unfold Router.calcTakerFeeExactIn Gen.Router.CalcTakerFeeExactIn
  tie_eq

/-- `CalcTakerFeeExactOut`: amount / (1 − fee) (half-even `Quo`), `Ceil`, the fee is the difference. -/
theorem calcTakerFeeExactOut_model_eq_gen : Router.calcTakerFeeExactOut = Gen.Router.CalcTakerFeeExactOut := by
  funext amount fee
  unfold Router.calcTakerFeeExactOut Gen.Router.CalcTakerFeeExactOut
  tie_eq

/-- B — `Keeper.chargeTakerFee`: mirrored by `Router.chargeTakerFee` -/
theorem opsx_Keeper_chargeTakerFee_pinned : Gen.Router.opsx_Keeper_chargeTakerFee =
    ["Contains(v7,v4.String())", "GetTradingPairTakerFee(v0,v1,v2.Denom,v3)", "CalcTakerFeeExactIn(v2,v8)",
     "CalcTakerFeeExactOut(v2,v8)", "SendCoinsFromAccountToModule(v0.bankKeeper,v1,v4,v6,_)"] := by decide

end OsmoVerif.Props.TieGenRouter
