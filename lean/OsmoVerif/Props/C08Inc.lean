/-
C08, incentive clauses — uptime incentive accumulators.
Model: `Model/CLInc.lean` (= `Model/CLFees.lean`, unchanged, + six uptime accumulators over sdk DecCoins, uptime trackers per
stored tick, incentive records, position uptime records with join time, claim with forfeit of unmet uptimes, re-deposit of
forfeited amounts), tied to the keeper by the `cl` engine after EVERY op (`clp idump`: accumulators, trackers, records'
remaining amounts, every position's six records, `GetClaimableIncentives` of every position, incentive balances).

PROVED here (all inputs):
 * growth inside a range, per uptime and denom, is the SAME function `insideI` of (current tick, accumulator value, the two
   boundary trackers) as for spread rewards (`uptime_growth_inside_is_insideI`): the generic laws of Props/C08 apply verbatim —
   emission is credited to a range iff the current tick is inside it (`uptime_emission_credited_iff_in_range`), the tracker
   flips of a swap's tick crossings (any number, either direction) leave it unchanged (`uptime_crossings_preserve_growth_inside`);
 * emission: per accumulator pass, growth credited × liquidity ≤ (decrease of the records' remaining amounts) × scaling factor,
   remaining amounts never increase, never become negative (`emitted_le_record_decrease`, `record_emission_bound`);
 * no liquidity ⇒ nothing is emitted, nothing changes, but `LastLiquidityUpdate` moves to now, so an idle interval is never
   credited to liquidity that arrives later (`no_liquidity_no_emission_clock_moves`, `sync_sets_clock`);
 * unmet uptime ⇒ forfeited, never paid: if all that a position could claim sits in accumulators whose uptime it has not met,
   it collects nothing (`unmet_uptime_never_collected`), whether through `collectIncentives` or a withdrawal; on withdrawal the
   forfeited amount leaves the incentives address only when less than one unit of liquidity stays active
   (`withdraw_forfeit_destination` — the code's stated exception "while other liquidity is active");
 * collecting pays exactly what the query reports (`collect_pays_exactly_claimable_incentives`), only to the owner
   (`collect_incentives_by_non_owner_fails`); a transfer changes nothing in the incentive state (`transfer_keeps_incentives`).
 * histories (`IOp`: all fee-layer messages + incentive record creation, block-time advance, sync, incentive collect): the
   `fees` component of every successful message is exactly the `CLFees` message (`incentive_layer_is_conservative`), so all the
   spread-reward theorems of Props/C08 hold with incentive activity interleaved (`spread_theorems_hold_with_incentives`);
   per denom the records' total remaining amount after any history ≤ before + what `CreateIncentive` put in, never negative
   (`records_only_decrease`).
NOT PROVED (engine oracles `incentives:*` + the full-state comparison only): the history-level induction for the uptime
accumulators themselves (growth inside over whole histories, Σ paid + claimable ≤ Σ emitted over histories, second claim = 0).
-/
import OsmoVerif.Proofs.CLIncHist
import OsmoVerif.Props.C08
import OsmoVerif.Model.DrvCLInc

namespace OsmoVerif.Props.C08Inc
open OsmoVerif.Num OsmoVerif.CL OsmoVerif.CLPool OsmoVerif.CLFees OsmoVerif.CLInc OsmoVerif.CLFeesP OsmoVerif.CLIncP OsmoVerif.CLBook
open OsmoVerif.Accum (amt)

/-! ## the generic growth-outside bookkeeping, reused per uptime -/

theorem uptime_growth_inside_is_insideI {cur l u : Int} {g lo up v : DC} (hlu : l < u)
    (h : insideOne cur l u g lo up = some v) (d : String) :
    amt v d = insideI cur (amt g d) (amt lo d) (amt up d) l u :=
  insideOne_amt hlu h d

theorem uptime_emission_credited_iff_in_range {cur l u : Int} {g g' lo up v v' : DC} (hlu : l < u) (d : String) (x : Int)
    (hg : amt g' d = amt g d + x)
    (h : insideOne cur l u g lo up = some v) (h' : insideOne cur l u g' lo up = some v') :
    amt v' d = amt v d + (if l ≤ cur ∧ cur < u then x else 0) :=
  insideOne_grow hlu d x hg h h'

theorem uptime_crossings_preserve_growth_inside {zfo : Bool} {tl : Ticks} {ps : List Position} {l u : Int} (hlu : l < u)
    (hl : ∃ n, (l, n) ∈ tl) (hu : ∃ n, (u, n) ∈ tl) (values : List DC) (k : Nat) (G : DC) (hG : values[k]? = some G) (d : String)
    (trs : List StepTrace) (cur cur' : Int) (trk trk' : List (Int × List DC)) (tl0 tu0 : List DC) (ol ou : DC)
    (hok : TraceOK zfo tl ps cur trs cur') (hflip : flipTicks values trs trk = some trk')
    (gl : getTr trk l = some tl0) (gu : getTr trk u = some tu0) (kl : tl0[k]? = some ol) (ku : tu0[k]? = some ou) :
    ∃ tl1 tu1 ol' ou', getTr trk' l = some tl1 ∧ getTr trk' u = some tu1 ∧ tl1[k]? = some ol' ∧ tu1[k]? = some ou' ∧
      insideI cur' (amt G d) (amt ol' d) (amt ou' d) l u = insideI cur (amt G d) (amt ol d) (amt ou d) l u :=
  flipTicks_inside hlu hl hu values k G hG d trs cur cur' trk trk' tl0 tu0 ol ou hok hflip gl gu kl ku

/-! ## emission -/

theorem record_emission_bound {now elapsed liq factor : Int} {u : Nat} {r : IncRec} {perLiq rem : Int}
    (he : 0 ≤ elapsed) (hl : 0 < liq) (hf : 0 < factor) (hrate : 0 ≤ r.rate) (hrem : 0 ≤ r.remaining)
    (h : emitOne now elapsed liq factor u r = some (some (perLiq, rem))) :
    0 ≤ perLiq ∧ 0 ≤ rem ∧ rem ≤ r.remaining ∧ perLiq * liq ≤ (r.remaining - rem) * factor ∧ r.start < now ∧ r.uptime = u :=
  emitOne_bound he hl hf hrate hrem h

/-- **total emitted ≤ decrease of the records ≤ what they held**, per denom, for one pass over the incentive records
(`calcAccruedIncentivesForAccum`). -/
theorem emitted_le_record_decrease {now elapsed liq factor : Int} {u : Nat} (he : 0 ≤ elapsed) (hl : 0 < liq) (hf : 0 < factor)
    (d : String) (recs : List IncRec) (add : DC) (recs' : List IncRec)
    (hpos : ∀ r ∈ recs, 0 ≤ r.rate ∧ 0 ≤ r.remaining)
    (h : emitLoop now elapsed liq factor u recs [] = some (add, recs')) :
    amt add d * liq ≤ (sumRem d recs - sumRem d recs') * factor ∧ 0 ≤ amt add d ∧ sumRem d recs' ≤ sumRem d recs ∧
    (∀ r' ∈ recs', 0 ≤ r'.rate ∧ 0 ≤ r'.remaining) ∧ recs'.map (·.id) = recs.map (·.id) := by
  obtain ⟨b1, b2, b3, b4, b5⟩ := emitLoop_bound he hl hf d recs [] add recs' hpos h
  have : amt ([] : DC) d = 0 := rfl
  rw [this] at b1 b2
  exact ⟨by omega, b2, b3, b4, b5⟩

theorem no_liquidity_no_emission_clock_moves {i i' : Inc} {liq : Int} (hl : liq < P18) (h : sync i liq = some i') :
    i' = i ∨ (i'.accs = i.accs ∧ i'.last = i.now ∧ i'.records = i.records.filter (fun r => r.remaining > 0) ∧
      i'.trackers = i.trackers ∧ i'.now = i.now) :=
  sync_no_liquidity hl h

theorem sync_sets_clock {i i' : Inc} {liq : Int} (h : sync i liq = some i') : i' = i ∨ i'.last = i.now := sync_last h

/-! ## claims -/

/-- **incentives whose uptime a position has not met are never paid to it**: see `UnmetOrEmpty`. -/
theorem unmet_uptime_never_collected {i i' : Inc} {cur l u : Int} {id : Nat} {coll forf : Coins} {byUp : List Coins} {joinT : Int}
    (hj : (i.join.find? (·.1 = id)).map (·.2) = some joinT)
    (h : claimAll i cur l u id = some (i', coll, forf, byUp))
    (hue : ∀ outs, outsideAll i cur l u = some outs → UnmetOrEmpty (i.now - joinT) id i.accs outs uptimesNs) : coll = [] := by
  unfold claimAll at h
  rw [hj] at h
  simp only [Option.bind_some] at h
  split at h
  · cases h
  · simp only [Option.bind_eq_some_iff, Option.map_eq_some_iff, Prod.mk.injEq] at h
    obtain ⟨outs, ho, ⟨accs, c, f, b⟩, hloop, _, e, _, _⟩ := h
    subst e
    exact claimLoop_unmet_general _ _ _ _ _ _ _ hloop (hue outs ho)

/-- a position younger than every supported uptime (age 0) with all six records collects nothing. -/
theorem fresh_position_collects_nothing {i i' : Inc} {cur l u : Int} {id : Nat} {coll forf : Coins} {byUp : List Coins}
    (hj : (i.join.find? (·.1 = id)).map (·.2) = some i.now)
    (hrec : ∀ a ∈ i.accs, (getURec a.recs id).isSome)
    (h : claimAll i cur l u id = some (i', coll, forf, byUp)) : coll = [] := by
  unfold claimAll at h
  rw [hj] at h
  simp only [Option.bind_some] at h
  split at h
  · cases h
  · simp only [Option.bind_eq_some_iff, Option.map_eq_some_iff, Prod.mk.injEq] at h
    obtain ⟨outs, _, ⟨accs, c, f, b⟩, hloop, _, e, _, _⟩ := h
    subst e
    refine claimLoop_unmet _ _ _ _ _ _ _ hloop (fun up hup => ?_) hrec
    rw [Int.sub_self]
    simp only [uptimesNs, List.mem_cons, List.mem_nil_iff, or_false] at hup
    omega

theorem collect_pays_exactly_claimable_incentives {s s' : Full} {sender : String} {id : Nat} {c f : Coins}
    (h : collectIncentives s sender id = some (s', c, f)) :
    claimableIncentives s id = some (c, f) ∧ s'.fees = s.fees ∧
    ∃ b0, coinsSubAll b0 c = some s'.inc.bal := by
  unfold collectIncentives at h
  unfold claimableIncentives
  simp only [Option.bind_eq_some_iff] at h
  obtain ⟨pos, hfind, h⟩ := h
  split at h
  · cases h
  · simp only [Option.bind_eq_some_iff, Option.map_eq_some_iff, Prod.mk.injEq] at h
    obtain ⟨i1, hsync, ⟨i2, coll, forf, byUp⟩, hclaim, b, hb, e1, e2, e3⟩ := h
    simp only at hb e1 e2 e3
    subst e1; subst e2; subst e3
    refine ⟨?_, rfl, i2.bal, hb⟩
    rw [hfind]
    simp only [Option.bind_some, hsync, hclaim, Option.map_some]

theorem collect_incentives_by_non_owner_fails {s : Full} {sender : String} {id : Nat} {pos : Position}
    (hfind : findPos s.fees.pool id = some pos) (hne : sender ≠ pos.owner) : collectIncentives s sender id = none := by
  unfold collectIncentives
  rw [hfind]
  simp only [Option.bind_some, ne_eq, hne, not_false_eq_true, ↓reduceIte]

theorem transfer_keeps_incentives {s s' : Full} {sender : String} {id : Nat} {newOwner : String}
    (h : CLInc.transferPosition s sender id newOwner = some s') : s'.inc = s.inc := by
  unfold CLInc.transferPosition at h
  simp only [Option.map_eq_some_iff] at h
  obtain ⟨_, _, e⟩ := h
  subst e; rfl

/-- **where the forfeited incentives of a withdrawal go**: the owner is always paid exactly the collected coins; the
forfeited ones leave the incentives address (to the withdrawer) ONLY when less than one unit of liquidity stays active
afterwards; otherwise the balance keeps them (they go back into the accumulators for the active liquidity). -/
theorem withdraw_forfeit_destination {s s' : Full} {owner : String} {id : Nat} {req o0 o1 : Int}
    (h : CLInc.withdrawPosition s owner id req = some (s', o0, o1)) :
    ∃ (i1 i2 : Inc) (pos : Position) (coll forf : Coins) (byUp : List Coins) (b : Coins),
      sync s.inc s.fees.pool.liquidity = some i1 ∧
      claimAll i1 s.fees.pool.tick pos.lower pos.upper id = some (i2, coll, forf, byUp) ∧
      coinsSubAll i1.bal coll = some b ∧
      (P18 ≤ s'.fees.pool.liquidity → s'.inc.bal = b) ∧
      (s'.fees.pool.liquidity < P18 → coinsSubAll b forf = some s'.inc.bal) := by
  unfold CLInc.withdrawPosition at h
  simp only [Option.bind_eq_some_iff, Option.map_eq_some_iff, Prod.mk.injEq] at h
  obtain ⟨pos, _, ⟨f', w0, w1⟩, _, i1, hsync, ⟨i2, coll, forf, byUp⟩, hclaim, b, hb, i3, hupd, i4, hred, e1, e2, e3⟩ := h
  simp only at hb hupd hred e1 e2 e3
  subst e1
  obtain ⟨c1, _⟩ := claimAll_frame hclaim
  obtain ⟨u1, _⟩ := updPosition_frame hupd
  simp only at u1
  obtain ⟨r1, r2⟩ := redeposit_bal hred
  rw [c1] at hb
  refine ⟨i1, i2, pos, coll, forf, byUp, b, hsync, hclaim, hb, fun hl => ?_, fun hl => ?_⟩
  · show i4.bal = b
    rw [r1 hl, u1]
  · show coinsSubAll b forf = some i4.bal
    have := (r2 hl).1
    rw [u1] at this; exact this

/-! ## histories -/

/-- a successful message of the full model acts on the fee layer exactly as the `CLFees` message; incentive-only messages
do not touch it. -/
theorem incentive_layer_is_conservative {s s' : Full} {op : IOp} (h : applyI s op = some s') :
    match op.toFee with
    | some fop => applyF s.fees fop = some s'.fees
    | none => s'.fees = s.fees :=
  applyI_fees h

/-- every theorem about reachable `CLFees` states holds for the fee component of every state the full model reaches,
whatever incentive records, time advances, syncs and incentive collects are interleaved: in particular the invariants
`FullInv` and `SumInv` (growth-outside bookkeeping, records, the SUM bound). -/
theorem spread_theorems_hold_with_incentives {sp spf scale : Int} (hs : 0 < sp) (hspf : SpfOK spf) (hsc : 0 < scale)
    (i0 : Inc) (ops : List IOp) :
    FullInv (runI { fees := initF sp spf scale, inc := i0 } ops).fees ∧
    ∃ n, SumInv (runI { fees := initF sp spf scale, inc := i0 } ops).fees n := by
  obtain ⟨fops, hf⟩ := runI_fees { fees := initF sp spf scale, inc := i0 } ops
  rw [hf]
  exact ⟨C08.reachable_inv hs hspf fops, fops.length, C08.sum_invariant hs hspf hsc fops⟩

/-- **record decrease ≤ initial amount, over histories**: per denom, the incentive records' total remaining amount after any
history is at most what it was plus what the successful `CreateIncentive` messages put in; amounts never go negative.
Together with `emitted_le_record_decrease` (credited ≤ decrease per pass): nothing is emitted that was not funded. -/
theorem records_only_decrease {s : Full} (ops : List IOp) (hok : IncOK s) (d : String) :
    sumRem d (runI s ops).inc.records ≤ sumRem d s.inc.records + createdHist d s ops ∧ IncOK (runI s ops) :=
  runI_records ops hok d

/-! non-vacuity: a pool with two positions, an incentive record with a one-minute uptime and one with 1 ns, time passing
with and without the young position, a swap that crosses a tick, collects -/

def demoI : Full := { fees := initF 100 2000000000000000 P18 }

def demoRun : Option Full := do
  let (s1, _) ← CLInc.createPosition demoI "alice" (-1000) 1000 1000000 1000000
  let s2 ← createIncentive s1 1 "inc0" 1000000 (1000 * P18) 0 1        -- one-minute uptime, 1000/s
  let s3 ← createIncentive s2 2 "inc1" 500000 (10 * P18) 0 0           -- 1 ns uptime, 10/s
  let s4 := advance s3 30000000000                                     -- 30 s
  let (s5, _) ← CLInc.createPosition s4 "bob" 0 2000 500000 500000
  let s6 := advance s5 20000000000                                     -- 20 s: alice's age 50 s, bob's 20 s
  let (s7, _) ← CLInc.swap s6 true true 50000                          -- crosses tick 0: bob leaves the range
  some (advance s7 5000000000)

/-- after 55 s alice (age 55 s < 1 min) can collect only the 1-ns incentive, the one-minute incentive is forfeitable;
bob likewise; the records' remaining amounts went down by what was emitted while liquidity was active. -/
example :
    (demoRun.bind fun s => claimableIncentives s 1) = some ([("inc1", 509)], [("inc0", 50997)]) ∧
    (demoRun.bind fun s => claimableIncentives s 2) = some ([("inc1", 40)], [("inc0", 4002)]) ∧
    (demoRun.map fun s => s.fees.pool.tick) = some (-499) ∧
    (demoRun.map fun s => s.inc.records.map fun r => (r.id, r.remaining)) =
      some [(2, 499500 * P18), (1, 950000 * P18)] := by
  decide +kernel

example : IncOK demoI := ⟨fun _ h => (by cases h), (by decide)⟩

end OsmoVerif.Props.C08Inc
