/-
C13 — `SigFigRound` (osmomath/sigfig_round.go): the clause "significant-figure rounding moves a value by
at most half a unit of the last kept digit", proved for EVERY input over the bit-exact model
`MathM.sigFigRound` (raw `LegacyDec` values ×10^18; `tenToSigFig` an sdk Int).

Notation.  For `d > 0` the loop of the code finds the scaling exponent `k` — `SigK d k`:
`10^17 ≤ d·10^k` and (`k = 0` or `d·10^k < 10^18`), i.e. the least `k` with value·10^k ≥ 0.1 — and returns
`⌊ n·10^18 / (t·10^k) ⌋` with `n = RoundInt(d·10^k·t)` (half-even).  The unit of the last kept digit is
`10^18/(t·10^k)` raw, so every bound below is cross-multiplied by `t·10^k`.

PROVED (all inputs, no bounds):
* `sigFigRound_zero`, `sigFigRound_neg_fails`, `sigFigRound_zero_sigfig_fails`, `sigFigRound_succeeds_iff`
  (exact success condition), `sigFigRound_total` (a simple sufficient condition);
* `sigFigRound_spec` / `sigFigRound_error_bound`: any `t > 0` — half a unit upward, half a unit plus the
  (< 1 raw ulp) truncation of the final `QuoInt` downward;
* `t = 10^s`: `sigFigRound_pow10_grid` (the final division is exact: `r·10^(s+k) = n·10^18`),
  `sigFigRound_half_unit` (|r − d| ≤ half a unit, sharp, no truncation term), `sigFigRound_sig_digits`
  (`n` has at most `s` digits or is `10^s`), `sigFigRound_ge_one` (values ≥ 1 are rounded to `s` decimals),
  `sigFigRound_idempotent` (s ≥ 1), `sigFigRound_pos_result`;
* `sigFigRound_mono` for every positive `t` divisible by 10.
FALSE of the code (witnesses): with `tenToSigFig = 1` (zero significant figures) the function is neither
monotone nor idempotent; for a `tenToSigFig` that is not a multiple of ten it is not monotone
(`t = 14`) and not idempotent (`t = 7`).  The code base only ever passes a power of ten ≥ 10.
-/
import OsmoVerif.Proofs.MathSigFig3

namespace OsmoVerif.Props.C13SigFig
open OsmoVerif.MathM OsmoVerif.Num OsmoVerif.Gen OsmoVerif.Spec

/-! ## zero, negative input, zero `tenToSigFig`; success condition -/

theorem sigFigRound_zero (t : Int) : sigFigRound 0 t = some 0 := rfl

/-- a negative `d` never returns: the scaling loop multiplies by ten until `MulInt64Mut` overflows
(Go: panic after ≤ 96 iterations). -/
theorem sigFigRound_neg_fails {d : Int} (t : Int) (hd : d < 0) : sigFigRound d t = none :=
  sigFigRound_neg t hd

/-- `tenToSigFig = 0`: division by zero in `QuoIntMut` (for every non-zero `d`). -/
theorem sigFigRound_zero_sigfig_fails {d : Int} (hd : d ≠ 0) : sigFigRound d 0 = none := by
  rcases Int.lt_or_gt_of_ne hd with h | h
  · exact sigFigRound_neg 0 h
  · cases hr : sigFigRound d 0 with
    | none => rfl
    | some r =>
      obtain ⟨k, _, ht, _⟩ := (sigFigRound_some_iff h).mp hr
      exact absurd rfl ht

/-- the scaling exponent exists, is unique and at most 17. -/
theorem sigK_exists_unique {d : Int} (hd : 0 < d) : ∃ k, k ≤ 17 ∧ SigK d k ∧ ∀ k', SigK d k' → k' = k := by
  obtain ⟨k, h17, hk, _⟩ := sigK_exists hd
  exact ⟨k, h17, hk, fun k' hk' => SigK.unique hd hk' hk⟩

/-- EXACT success condition for positive `d`, `t`: `RoundInt` must fit 256 bits (this subsumes the
`LegacyDec` range check of `MulInt`) and so must the denominator `t·10^k`. -/
theorem sigFigRound_succeeds_iff {d t : Int} (hd : 0 < d) (ht : 0 < t) :
    (∃ r, sigFigRound d t = some r) ↔
      ∃ k, SigK d k ∧ 2 * (d * 10 ^ k * t) < (2 * 2 ^ 256 - 1) * 10 ^ 18 ∧ t * 10 ^ k < 2 ^ 256 := by
  constructor
  · rintro ⟨r, h⟩
    obtain ⟨k, n, hk, hn, _, hnB, hden, _⟩ := sigFigRound_pos_spec hd ht h
    refine ⟨k, hk, ?_, hden⟩
    have := (halfEven_lt_iff hn (B := 2 ^ 256) (by decide)).mp hnB
    rw [P18_val] at this
    exact this
  · rintro ⟨k, hk, hx, hden⟩
    have hK : (0 : Int) < 10 ^ k := by positivity
    have hx0 : 0 < d * 10 ^ k * t := by positivity
    have hden0 : 0 < t * 10 ^ k := by positivity
    have hn := sigNum_isHalfEven d t k
    have hnB : sigNum d t k < 2 ^ 256 := by
      apply (halfEven_lt_iff hn (B := 2 ^ 256) (by decide)).mpr
      rw [P18_val]; exact hx
    have hn0 : 0 ≤ sigNum d t k := hn.nonneg P18_pos (by omega)
    refine ⟨_, (sigFigRound_some_iff hd).mpr ⟨k, hk, by omega, ?_, ?_, by omega, by omega, rfl⟩⟩
    · rw [decUpper_val]; omega
    · rw [decUpper_val]; omega

/-- a simple sufficient condition (covers every call in the code base: `t = 10^8`, prices < 2^128·10^18). -/
theorem sigFigRound_total {d t : Int} (hd : 0 < d) (ht : 0 < t) (h1 : d * t < 2 ^ 255 * 10 ^ 18)
    (h2 : t * 10 ^ 18 < 2 ^ 255) : ∃ r, sigFigRound d t = some r := by
  obtain ⟨k, h17, hk, _⟩ := sigK_exists hd
  have hK : (0 : Int) < 10 ^ k := by positivity
  have hK17 := pow10_le17 h17
  have hden : t * 10 ^ k ≤ t * 10 ^ 17 := Int.mul_le_mul_of_nonneg_left hK17 (by omega)
  refine (sigFigRound_succeeds_iff hd ht).mpr ⟨k, hk, ?_, by omega⟩
  rcases hk.2 with rfl | hlt
  · simp only [pow_zero, Int.mul_one]; omega
  · have : d * 10 ^ k * t ≤ 10 ^ 18 * t := Int.mul_le_mul_of_nonneg_right (by omega) (by omega)
    omega

/-! ## any positive `tenToSigFig` -/

/-- the result is `⌊ n·10^18 / (t·10^k) ⌋`, `n` the half-even rounding of `d·10^k·t / 10^18`. -/
theorem sigFigRound_spec {d t r : Int} (hd : 0 < d) (ht : 0 < t) (h : sigFigRound d t = some r) :
    ∃ (k : Nat) (n : Int), SigK d k ∧ IsHalfEven (d * 10 ^ k * t) (10 ^ 18) n ∧ 0 ≤ n ∧
      IsFloor (n * 10 ^ 18) (t * 10 ^ k) r := by
  obtain ⟨k, n, hk, hn, hn0, _, _, hfl⟩ := sigFigRound_pos_spec hd ht h
  rw [P18_val] at hn hfl
  exact ⟨k, n, hk, hn, hn0, hfl⟩

/-- ERROR BOUND, any `t > 0`, cross-multiplied by the denominator `t·10^k` (unit = 10^18/(t·10^k) raw):
`r − d ≤ unit/2` and `d − r < unit/2 + 1` (the `+1` raw ulp is the truncation of the final `QuoInt`). -/
theorem sigFigRound_error_bound {d t r : Int} (hd : 0 < d) (ht : 0 < t) (h : sigFigRound d t = some r) :
    ∃ k : Nat, SigK d k ∧ 0 ≤ r ∧ 2 * ((r - d) * (t * 10 ^ k)) ≤ 10 ^ 18 ∧
      2 * ((d - r) * (t * 10 ^ k)) < 10 ^ 18 + 2 * (t * 10 ^ k) := by
  obtain ⟨k, n, hk, ⟨a, b, _⟩, hn0, ⟨f1, f2⟩⟩ := sigFigRound_spec hd ht h
  have hK : (0 : Int) < 10 ^ k := by positivity
  have hden0 : 0 < t * 10 ^ k := by positivity
  have e : d * (t * 10 ^ k) = d * 10 ^ k * t := by ring
  refine ⟨k, hk, ?_, ?_, ?_⟩
  · by_contra hc
    have : (r + 1) * (t * 10 ^ k) ≤ 0 * (t * 10 ^ k) := Int.mul_le_mul_of_nonneg_right (by omega) (by omega)
    have : 0 ≤ n * 10 ^ 18 := by positivity
    omega
  · rw [Int.sub_mul, e]; omega
  · rw [Int.sub_mul, e]; rw [Int.add_mul] at f2; omega

/-! ## `tenToSigFig = 10^s` -/

/-- GRID FORM: the final `QuoInt` is exact, the result is `n / 10^(s+k)` with `n` the half-even rounding of
`d·10^(k+s) / 10^18`; if the grid is finer than the 18-decimal representation the value is unchanged. -/
theorem sigFigRound_pow10_grid {d r : Int} {s : Nat} (hd : 0 < d) (h : sigFigRound d (10 ^ s) = some r) :
    ∃ (k : Nat) (n : Int), SigK d k ∧ IsHalfEven (d * 10 ^ (k + s)) (10 ^ 18) n ∧ 0 ≤ n ∧
      r * 10 ^ (s + k) = n * 10 ^ 18 ∧ (18 < s + k → r = d) := by
  obtain ⟨k, n, hk, hn, hn0, _, _, hr, hid⟩ := sigFigRound_pow10_spec hd h
  rw [P18_val] at hn hr
  refine ⟨k, n, hk, ?_, hn0, ?_, hid⟩
  · rw [pow_add, ← Int.mul_assoc]; exact hn
  · rw [pow_add]; exact hr

/-- HALF-UNIT BOUND (sharp): `|r − d| ≤ ½·10^(18−s−k)` raw, i.e. half a unit of the last kept digit. -/
theorem sigFigRound_half_unit {d r : Int} {s : Nat} (hd : 0 < d) (h : sigFigRound d (10 ^ s) = some r) :
    ∃ k : Nat, SigK d k ∧ 2 * (|r - d| * 10 ^ (s + k)) ≤ 10 ^ 18 := by
  obtain ⟨k, n, hk, ⟨a, b, _⟩, _, hr, _⟩ := sigFigRound_pow10_grid hd h
  refine ⟨k, hk, ?_⟩
  have hK : (0 : Int) < 10 ^ (s + k) := by positivity
  have e : k + s = s + k := Nat.add_comm _ _
  rw [e] at a b
  have e2 : |r - d| * 10 ^ (s + k) = |n * 10 ^ 18 - d * 10 ^ (s + k)| := by
    rw [← hr, ← Int.sub_mul, abs_mul, abs_of_pos hK]
  rw [e2]
  rcases abs_cases (n * 10 ^ 18 - d * 10 ^ (s + k)) with ⟨e1, _⟩ | ⟨e1, _⟩ <;> rw [e1] <;> omega

/-- SIGNIFICANT DIGITS: for a value below 1 and `s ≥ 1` the result is `n·10^-(s+k)` with
`10^(s−1) ≤ n ≤ 10^s`: at most `s` significant digits (or the next power of ten). -/
theorem sigFigRound_sig_digits {d r : Int} {s : Nat} (hd : 0 < d) (hd1 : d < 10 ^ 18)
    (h : sigFigRound d (10 ^ (s + 1)) = some r) :
    ∃ (k : Nat) (n : Int), SigK d k ∧ r * 10 ^ (s + 1 + k) = n * 10 ^ 18 ∧ 10 ^ s ≤ n ∧ n ≤ 10 ^ (s + 1) := by
  obtain ⟨k, n, hk, hn, hn0, _, _, hr, _⟩ := sigFigRound_pow10_spec hd h
  have hs : (0 : Int) < 10 ^ s := by positivity
  have hD : d * 10 ^ k ≤ 10 ^ 18 := by
    rcases hk.2 with rfl | hlt
    · simp only [pow_zero, Int.mul_one]; omega
    · omega
  refine ⟨k, n, hk, ?_, ?_, ?_⟩
  · rw [pow_add _ (s + 1) k, hr, P18_val]
  · have e : (10 : Int) ^ (s + 1) = 10 * 10 ^ s := by ring
    rw [e] at hn
    exact num_ge_of_ge_tenth (by omega) hn hk.1
  · exact num_le_of_lt_one (by positivity) hn hD

/-- values ≥ 1 (`k = 0`): rounding to `s` decimals — the result is a multiple of `10^(18−s)` within half of it. -/
theorem sigFigRound_ge_one {d r : Int} {s : Nat} (hd : 10 ^ 18 ≤ d) (hs : s ≤ 18)
    (h : sigFigRound d (10 ^ s) = some r) :
    (10 : Int) ^ (18 - s) ∣ r ∧ 2 * |r - d| ≤ 10 ^ (18 - s) := by
  have hd0 : 0 < d := by omega
  obtain ⟨k, n, hk, _, _, hr, _⟩ := sigFigRound_pow10_grid hd0 h
  obtain ⟨k', hk', hb⟩ := sigFigRound_half_unit hd0 h
  have hk0 : SigK d 0 := ⟨by simp only [pow_zero, Int.mul_one]; omega, Or.inl rfl⟩
  obtain rfl := SigK.unique hd0 hk hk0
  obtain rfl := SigK.unique hd0 hk' hk0
  have hS : (0 : Int) < 10 ^ s := by positivity
  have e18 : (10 : Int) ^ 18 = 10 ^ (18 - s) * 10 ^ s := by rw [← pow_add]; congr 1; omega
  simp only [Nat.add_zero] at hr hb
  constructor
  · refine ⟨n, ?_⟩
    have : r * 10 ^ s = (10 ^ (18 - s) * n) * 10 ^ s := by rw [hr, e18]; ring
    exact Int.eq_of_mul_eq_mul_right (by omega) this
  · rw [e18] at hb
    have : (2 * |r - d|) * 10 ^ s ≤ 10 ^ (18 - s) * 10 ^ s := by
      calc (2 * |r - d|) * 10 ^ s = 2 * (|r - d| * 10 ^ s) := by ring
        _ ≤ _ := hb
    exact le_of_mul_le_mul_right this hS

/-- with at least one significant figure a positive value never rounds to zero. -/
theorem sigFigRound_pos_result {d r : Int} {s : Nat} (hd : 0 < d) (h : sigFigRound d (10 ^ (s + 1)) = some r) :
    0 < r := by
  obtain ⟨k, n, hk, hn, hn0, _, _, hr, _⟩ := sigFigRound_pow10_spec hd h
  have hs : (0 : Int) < 10 ^ s := by positivity
  have e : (10 : Int) ^ (s + 1) = 10 * 10 ^ s := by ring
  rw [e] at hn
  have hn1 := num_ge_of_ge_tenth (by omega) hn hk.1
  have : 0 < n * P18 := Int.mul_pos (by omega) P18_pos
  rw [← hr] at this
  have hden : (0 : Int) < 10 ^ (s + 1) * 10 ^ k := by positivity
  by_contra hc
  have : r * ((10 : Int) ^ (s + 1) * 10 ^ k) ≤ 0 * ((10 : Int) ^ (s + 1) * 10 ^ k) :=
    Int.mul_le_mul_of_nonneg_right (by omega) (by omega)
  omega

/-- IDEMPOTENCE for `tenToSigFig = 10^s`, `s ≥ 1`: the rounded value is a fixed point. -/
theorem sigFigRound_idempotent {d r : Int} {s : Nat} (hd : 0 < d) (h : sigFigRound d (10 ^ (s + 1)) = some r) :
    sigFigRound r (10 ^ (s + 1)) = some r := by
  have hr0 := sigFigRound_pos_result hd h
  obtain ⟨k, n, hk, hn, hn0, hnB, hden, hr, _⟩ := sigFigRound_pow10_spec hd h
  have hs : (0 : Int) < 10 ^ s := by positivity
  have hS : (0 : Int) < 10 ^ (s + 1) := by positivity
  have hK : (0 : Int) < 10 ^ k := by positivity
  have hP := P18_pos
  have e : (10 : Int) ^ (s + 1) = 10 * 10 ^ s := by ring
  have hn1 : 10 ^ s ≤ n := by
    rw [e] at hn; exact num_ge_of_ge_tenth (by omega) hn hk.1
  -- r·10^k ≥ 10^17
  have hlow : 10 ^ 17 ≤ r * 10 ^ k := by
    have h1 : 10 ^ s * P18 ≤ n * P18 := Int.mul_le_mul_of_nonneg_right hn1 (by omega)
    rw [← hr, P18_val] at h1
    have h2 : (10 ^ 17) * (10 : Int) ^ (s + 1) ≤ (r * 10 ^ k) * 10 ^ (s + 1) := by
      calc (10 ^ 17) * (10 : Int) ^ (s + 1) = 10 ^ s * 10 ^ 18 := by ring
        _ ≤ r * (10 ^ (s + 1) * 10 ^ k) := h1
        _ = _ := by ring
    exact le_of_mul_le_mul_right h2 hS
  rcases Nat.eq_zero_or_pos k with rfl | hkpos
  · exact sigFigRound_fixed hr0 ⟨hlow, Or.inl rfl⟩ hr hnB hden
  · have hlt : d * 10 ^ k < 10 ^ 18 := by
      rcases hk.2 with h0 | h0
      · omega
      · exact h0
    have hn2 : n ≤ 10 ^ (s + 1) := num_le_of_lt_one (by omega) hn (by omega)
    rcases Int.lt_or_eq_of_le hn2 with hlt2 | heq
    · refine sigFigRound_fixed hr0 ⟨hlow, Or.inr ?_⟩ hr hnB hden
      have h1 : n * P18 < 10 ^ (s + 1) * P18 := Int.mul_lt_mul_of_pos_right hlt2 hP
      rw [← hr, P18_val] at h1
      have h2 : (r * 10 ^ k) * (10 : Int) ^ (s + 1) < 10 ^ 18 * 10 ^ (s + 1) := by
        calc (r * 10 ^ k) * (10 : Int) ^ (s + 1) = r * (10 ^ (s + 1) * 10 ^ k) := by ring
          _ < 10 ^ (s + 1) * 10 ^ 18 := h1
          _ = _ := by ring
      exact lt_of_mul_lt_mul_right h2 (by omega)
    · -- rounded up to the next power of ten: r·10^k = 10^18, the new scaling exponent is k − 1
      subst heq
      obtain ⟨j, rfl⟩ : ∃ j, k = j + 1 := ⟨k - 1, by omega⟩
      have hJ : (0 : Int) < 10 ^ j := by positivity
      have hrj : r * 10 ^ j = 10 ^ 17 := by
        have : (r * 10 ^ j) * (10 * (10 : Int) ^ (s + 1)) = 10 ^ 17 * (10 * 10 ^ (s + 1)) := by
          calc (r * 10 ^ j) * (10 * (10 : Int) ^ (s + 1)) = r * (10 ^ (s + 1) * 10 ^ (j + 1)) := by ring
            _ = 10 ^ (s + 1) * P18 := hr
            _ = _ := by rw [P18_val]; ring
        exact Int.eq_of_mul_eq_mul_right (by omega) this
      have e10 : (10 : Int) ^ (j + 1) = 10 * 10 ^ j := by ring
      refine sigFigRound_fixed (m := 10 ^ s) (j := j) hr0 ⟨by omega, Or.inr (by omega)⟩ ?_ ?_ ?_
      · calc r * (10 ^ (s + 1) * 10 ^ j) = (r * 10 ^ j) * 10 ^ (s + 1) := by ring
          _ = 10 ^ s * P18 := by rw [hrj, P18_val]; ring
      · rw [e10, e] at hden; nlinarith
      · rw [e10] at hden; nlinarith

/-! ## monotonicity -/

/-- MONOTONE in `d` for every positive `tenToSigFig` divisible by ten (in particular `10^s`, `s ≥ 1`). -/
theorem sigFigRound_mono {d1 d2 t' r1 r2 : Int} (hd1 : 0 < d1) (hd : d1 ≤ d2) (ht : 0 < t')
    (h1 : sigFigRound d1 (10 * t') = some r1) (h2 : sigFigRound d2 (10 * t') = some r2) : r1 ≤ r2 := by
  have hd2 : 0 < d2 := by omega
  have ht10 : 0 < 10 * t' := by omega
  obtain ⟨k1, n1, hk1, hn1, hn10, _, _, hf1⟩ := sigFigRound_pos_spec hd1 ht10 h1
  obtain ⟨k2, n2, hk2, hn2, hn20, _, _, hf2⟩ := sigFigRound_pos_spec hd2 ht10 h2
  have hP := P18_pos
  have hK1 : (0 : Int) < 10 ^ k1 := by positivity
  have hK2 : (0 : Int) < 10 ^ k2 := by positivity
  have hanti := SigK.antitone hd1 hd hk1 hk2
  rcases Nat.eq_or_lt_of_le hanti with rfl | hlt
  · -- same scaling exponent: composition of monotone roundings
    have hx : d1 * 10 ^ k2 * (10 * t') ≤ d2 * 10 ^ k2 * (10 * t') :=
      Int.mul_le_mul_of_nonneg_right (Int.mul_le_mul_of_nonneg_right hd (by omega)) (by omega)
    have hn := hn1.mono hP hn2 hx
    exact hf1.mono (by positivity) hf2 (Int.mul_le_mul_of_nonneg_right hn (by omega))
  · -- k2 < k1: r1 ≤ 10^(18-k1) ≤ 10^(17-k2) ≤ r2
    obtain ⟨c, rfl⟩ : ∃ c, k1 = k2 + (c + 1) := ⟨k1 - k2 - 1, by omega⟩
    have hk1le := hk1.le17 hd1
    have hD1 : d1 * 10 ^ (k2 + (c + 1)) ≤ 10 ^ 18 := by
      rcases hk1.2 with h0 | h0 <;> omega
    have hn1t : n1 ≤ 10 * t' := num_le_of_lt_one (by omega) hn1 hD1
    have hn2t : t' ≤ n2 := num_ge_of_ge_tenth (by omega) hn2 hk2.1
    -- r1 · 10^k1 ≤ 10^18
    have hr1 : r1 * 10 ^ (k2 + (c + 1)) ≤ 10 ^ 18 := by
      have := hf1.1
      have h3 : n1 * P18 ≤ (10 * t') * P18 := Int.mul_le_mul_of_nonneg_right hn1t (by omega)
      have h4 : (r1 * 10 ^ (k2 + (c + 1))) * (10 * t') ≤ 10 ^ 18 * (10 * t') := by
        calc (r1 * 10 ^ (k2 + (c + 1))) * (10 * t') = r1 * (10 * t' * 10 ^ (k2 + (c + 1))) := by ring
          _ ≤ n1 * P18 := this
          _ ≤ (10 * t') * P18 := h3
          _ = _ := by rw [P18_val]; ring
      exact le_of_mul_le_mul_right h4 ht10
    -- q = 10^(17-k2) ≤ r2
    obtain ⟨m, hm⟩ : ∃ m, 17 = k2 + m := ⟨17 - k2, by omega⟩
    have hq : (10 : Int) ^ m ≤ r2 := by
      refine hf2.ge_of_mul_le (by positivity) ?_
      have h3 : t' * P18 ≤ n2 * P18 := Int.mul_le_mul_of_nonneg_right hn2t (by omega)
      calc (10 : Int) ^ m * (10 * t' * 10 ^ k2) = t' * (10 * 10 ^ (k2 + m)) := by rw [pow_add]; ring
        _ = t' * P18 := by rw [← hm, P18_val]; norm_num
        _ ≤ _ := h3
    -- 10^18 ≤ q · 10^k1
    have hc1 : (1 : Int) ≤ 10 ^ c := one_le_pow₀ (by norm_num)
    have h5 : (10 : Int) ^ 18 ≤ 10 ^ m * 10 ^ (k2 + (c + 1)) := by
      have e1 : (10 : Int) ^ m * 10 ^ (k2 + (c + 1)) = 10 * 10 ^ (k2 + m) * 10 ^ c := by
        rw [pow_add, pow_add, pow_add]; ring
      rw [e1, ← hm]; nlinarith
    have hK1' : (0 : Int) < 10 ^ (k2 + (c + 1)) := by positivity
    have h6 : (10 : Int) ^ m * 10 ^ (k2 + (c + 1)) ≤ r2 * 10 ^ (k2 + (c + 1)) :=
      Int.mul_le_mul_of_nonneg_right hq (by omega)
    exact le_of_mul_le_mul_right (by omega : r1 * 10 ^ (k2 + (c + 1)) ≤ r2 * 10 ^ (k2 + (c + 1))) hK1'

theorem sigFigRound_mono_pow10 {d1 d2 r1 r2 : Int} {s : Nat} (hd1 : 0 < d1) (hd : d1 ≤ d2)
    (h1 : sigFigRound d1 (10 ^ (s + 1)) = some r1) (h2 : sigFigRound d2 (10 ^ (s + 1)) = some r2) : r1 ≤ r2 := by
  have e : (10 : Int) ^ (s + 1) = 10 * 10 ^ s := by ring
  rw [e] at h1 h2
  exact sigFigRound_mono hd1 hd (by positivity) h1 h2

/-! ## what is FALSE of the code (kernel-checked witnesses) -/

/-- `tenToSigFig = 1` (zero significant figures): 0.06 ↦ 0.1 but 0.4 ↦ 0 — not monotone. -/
theorem sigFigRound_one_not_mono_witness :
    sigFigRound (6 * 10 ^ 16) 1 = some (10 ^ 17) ∧ sigFigRound (4 * 10 ^ 17) 1 = some 0 := by decide +kernel
/-- `tenToSigFig = 1`: 0.06 ↦ 0.1 ↦ 0 — not idempotent. -/
theorem sigFigRound_one_not_idempotent_witness :
    sigFigRound (6 * 10 ^ 16) 1 = some (10 ^ 17) ∧ sigFigRound (10 ^ 17) 1 = some 0 := by decide +kernel
/-- `tenToSigFig = 14` (not a multiple of ten): 0.099 ↦ 0.1 but 0.1 ↦ 0.0714… — not monotone. -/
theorem sigFigRound_nonten_not_mono_witness :
    sigFigRound (99 * 10 ^ 15) 14 = some (10 ^ 17) ∧ sigFigRound (10 ^ 17) 14 = some 71428571428571428 := by
  decide +kernel
/-- `tenToSigFig = 7`: 10^-3 ↦ 0.001428571428571428 ↦ … the final truncation makes it non-idempotent. -/
theorem sigFigRound_nonten_not_idempotent_witness :
    sigFigRound 933333333333331 7 = some 1000000000000000 ∧
    sigFigRound 1000000000000000 7 = some 1428571428571428 := by decide +kernel
/-- the truncation term of `sigFigRound_error_bound` is needed for a non-power-of-ten `t`: `d = 0.375`, `t = 12`
is a tie (4.5 ↦ 4), and `4/12` is then truncated: `d − r` exceeds half a unit (`10^18/24` raw). -/
theorem sigFigRound_truncation_term_witness :
    sigFigRound 375000000000000000 12 = some 333333333333333333 ∧
    2 * ((375000000000000000 - 333333333333333333) * (12 * 10 ^ 0)) > (10 : Int) ^ 18 := by decide +kernel

/-! ## non-vacuity -/
example : sigFigRound 123456789012345678 1000 = some 123000000000000000 := by decide +kernel
example : sigFigRound 123500000000000000 1000 = some 124000000000000000 := by decide +kernel  -- tie → even
example : sigFigRound 124 1000 = some 124 := by decide +kernel                                -- k = 15, s + k = 18
example : sigFigRound 1 (10 ^ 30) = some 1 := by decide +kernel                               -- grid finer than an ulp
example : sigFigRound 999999999999999999 100 = some (10 ^ 18) := by decide +kernel           -- rounds up to 10^s
example : sigFigRound 1234567890123456789012 100 = some 1234570000000000000000 := by decide +kernel
example : sigFigRound (-124) 1000 = none := by decide +kernel
example : SigK 124 15 := by unfold SigK; decide
example : SigK (10 ^ 17) 0 ∧ SigK (10 ^ 17 - 1) 1 := by unfold SigK; decide
/-- success condition is tight at the 256-bit edge of `RoundInt` (k = 0, t = 10). -/
example : sigFigRound ((2 ^ 256 - 1) * 10 ^ 17 + 5 * 10 ^ 16 - 1) 10 ≠ none ∧
    sigFigRound ((2 ^ 256 - 1) * 10 ^ 17 + 5 * 10 ^ 16) 10 = none := by decide +kernel
example : ∃ r, sigFigRound 123456789012345678 (10 ^ 8) = some r :=
  sigFigRound_total (by decide) (by decide) (by decide) (by decide)

end OsmoVerif.Props.C13SigFig
