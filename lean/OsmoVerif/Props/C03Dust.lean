/-
C03, extension 3 — zero amounts and dust: what swaps of 0 and of 1 unit do, on every state satisfying the C07 invariant
(every reachable state), both directions, both kinds.

Summary (all proved below; `computeSwap` = estimate level, `CLPool.swap` = executed `SwapExactAmountIn/Out`):
* amount 0: the estimate is the EMPTY result on the unchanged pool (0 in, 0 out, no step); execution is REJECTED.
  Negative amounts fail at both levels.
* every EXECUTED swap moves at least one whole unit each way: `amountOut ≥ 1`, `amountIn − fee ≥ 1`, `fee ≥ 0`; so a swap
  whose computed amount out is 0 never executes — the POOL price never changes with nothing paid out.  A rejected swap
  changes nothing (`rejected_swap_changes_nothing`).
* 1 unit exact-in: if it executes, it charges exactly 1, pays NO spread reward (fee 0, every step's charge 0 — the
  not-reached branch charges `remaining − amountIn = 0`), and pays out ≥ 1 within the exact curve; so it executes only where
  one unit buys at least one unit.  At the estimate level: `0 ≤ amountIn ≤ 1`, `0 ≤ amountOut`, the price moves by at most
  what ONE token in pays for on the exact curve (`Σ exact in ≤ 1 token`), and when the amount out is 0 by less than what one
  token out (+ one rounding unit per step) corresponds to.
* 1 unit exact-out: if it executes, it pays out exactly 1 and charges ≥ 1 + fee (at price 1 with spread factor 0.1 %: 3).
* any exact-in estimate with amount out 0 (`zero_out_price_move_bounded`): `Σ exact out < 1 token + steps·(1+2·10^-6)` raw
  units — the price cannot have moved by more than one token's worth plus the rounding of its steps.
-/
import OsmoVerif.Props.C03Limit
import OsmoVerif.Proofs.CLDust

namespace OsmoVerif.Props.C03Dust
open OsmoVerif.Num OsmoVerif.Spec OsmoVerif.Gen OsmoVerif.CL OsmoVerif.CLPool OsmoVerif.CLBook OsmoVerif.CLSolv
open OsmoVerif.CLLimit

/-! ## 1. amount zero, negative amounts -/

/-- nothing specified, any valid limit, any state: the estimate is the empty result, the price does not move. -/
theorem zero_amount_estimate {ogi zfo : Bool} {spf pl limit : Int} {pool : PoolSt} {ticks : Ticks}
    (hl : sqrtPriceLimit pl zfo = some limit) (hv : ValidLimit zfo limit pool.sqrtPrice) :
    computeSwap ogi zfo spf pl pool ticks 0 = some ⟨0, 0, 0, pool, 0, 0⟩ ∧
    estimateSwapL ogi zfo spf pl pool ticks 0 = some 0 := by
  have h := computeSwap_zero (ogi := ogi) (spf := spf) (ticks := ticks) hl hv
  refine ⟨h, ?_⟩
  unfold estimateSwapL
  rw [h]; cases ogi <;> rfl

/-- a negative amount fails (the messages reject it earlier, as an invalid coin). -/
theorem negative_amount_fails {ogi zfo : Bool} {spf pl : Int} {pool : PoolSt} {ticks : Ticks} {specified : Int}
    (hneg : specified < 0) : computeSwap ogi zfo spf pl pool ticks specified = none := computeSwap_neg hneg

/-- every executed swap pays out at least one unit and sends at least one unit to the pool; the fee is not negative. -/
theorem executed_swap_moves_whole_units {p p' : Pool} (hinv : Inv p) (hspf : SpfOK p.spf) {ogi zfo : Bool}
    {specified ain aout fee : Int} (h : CLPool.swap p ogi zfo specified = some (p', ain, aout, fee)) :
    1 ≤ aout ∧ 1 ≤ ain - fee ∧ 0 ≤ fee := by
  obtain ⟨r, _, _, _, _, h1, h2, _⟩ := swap_bal h
  obtain ⟨_, _, h3, _⟩ := swap_potential hinv.core hinv.price hinv.active hspf h
  exact ⟨by omega, by omega, h3⟩

/-- executing a swap of amount 0 or of a negative amount is rejected. -/
theorem zero_amount_swap_rejected {p : Pool} (hinv : Inv p) (hspf : SpfOK p.spf) (ogi zfo : Bool) {specified : Int}
    (hs : specified ≤ 0) : CLPool.swap p ogi zfo specified = none := by
  cases hsw : CLPool.swap p ogi zfo specified with
  | none => rfl
  | some x =>
    obtain ⟨p', ain, aout, fee⟩ := x
    obtain ⟨h1, h2, h3⟩ := executed_swap_moves_whole_units hinv hspf hsw
    obtain ⟨r, _, hex, e1, e2, _⟩ := swap_bal hsw
    have hb := C03.swap_specified_side_bounded (execSwap_spec hex)
    cases ogi
    · simp only [Bool.false_eq_true, ↓reduceIte] at hb; omega
    · simp only [↓reduceIte] at hb; omega

/-- a rejected swap changes nothing: the state machine keeps the state (transaction atomicity), for the next state and
for the whole history. -/
theorem rejected_swap_changes_nothing {p : Pool} {ogi zfo : Bool} {specified : Int}
    (h : CLPool.swap p ogi zfo specified = none) (ops : List Op) :
    step p (.swap ogi zfo specified) = p ∧ run p (.swap ogi zfo specified :: ops) = run p ops := by
  have e : step p (.swap ogi zfo specified) = p := by
    apply failed_op_noop
    simp [CLBook.apply, h]
  exact ⟨e, by simp only [run]; rw [e]⟩

/-! ## 2. one unit -/

/-- an EXECUTED exact-in swap of one unit: charges exactly 1, pays no spread reward at all, pays out at least 1 and at
most what the exact curve gives along its path; the path's exact amount in is at most one token. -/
theorem one_unit_exact_in {p p' : Pool} (hinv : Inv p) (hspf : SpfOK p.spf) {zfo : Bool} {ain aout fee : Int}
    (h : CLPool.swap p true zfo 1 = some (p', ain, aout, fee)) :
    ain = 1 ∧ fee = 0 ∧ 1 ≤ aout ∧
    ∃ (tr : List StepRec), Path p.sqrtPrice tr p'.sqrtPrice ∧ sumCharge tr = 0 ∧
      (aout : ℚ) * 10 ^ 18 ≤ sumExactOut zfo tr ∧ sumExactIn zfo tr ≤ 10 ^ 18 := by
  obtain ⟨h1, h2, h3⟩ := executed_swap_moves_whole_units hinv hspf h
  obtain ⟨r, _, hex, e1, e2, _, _, e3, _⟩ := swap_bal h
  have hcs := execSwap_spec hex
  have hb := C03.swap_specified_side_bounded hcs
  simp only [↓reduceIte] at hb
  have ea : ain = 1 := by omega
  have ef : fee = 0 := by omega
  obtain ⟨limit, tr, st', _, hv, hrun, hlen, hp, _, hsr, c1, c2, _, _, hgood, _⟩ := computeSwap_run_good_lim hinv hspf hcs
  obtain ⟨hs0, hs1⟩ := spfOK_lt hspf
  have hc := curve_of_run_goodL hs0 hs1 (fun hpos => limit_pos_of_valid hpos hv) hrun hgood c1 c2
  have hfee := execSwap_fee hex
  have hch0 : 0 ≤ sumCharge tr := by
    cases htr : tr with
    | nil => simp [sumCharge]
    | cons e0 tr0 =>
      rw [htr] at hrun hgood
      have hpos : 0 < p.sqrtPrice := by
        have := (hgood e0 List.mem_cons_self).1.2.1
        have hpath := hrun.path
        simp only [Path] at hpath
        rw [hpath.1] at this; exact this
      obtain ⟨_, hcv⟩ := hrun.curve hs0 hs1 hpos (limit_pos_of_valid hpos hv) (fun e he => (hgood e he).ok)
      exact (sums_nonneg (ogi := true) (e0 :: tr0)
        (fun e he => ⟨(hcv e he).2.2.2.2.2.1, (hcv e he).2.2.2.2.2.2⟩)).2
  have hch : sumCharge tr = 0 := by
    rw [hsr, ef] at hfee
    have := hfee.2
    omega
  refine ⟨ea, ef, h1, tr, by rw [e3, hp]; exact hrun.path, hch, by rw [e2]; exact hc.1, ?_⟩
  have := hc.2
  rw [← e1, ea] at this
  simpa using this

/-- an EXECUTED exact-out swap of one unit pays out exactly 1 and sends at least one unit to the pool. -/
theorem one_unit_exact_out {p p' : Pool} (hinv : Inv p) (hspf : SpfOK p.spf) {zfo : Bool} {ain aout fee : Int}
    (h : CLPool.swap p false zfo 1 = some (p', ain, aout, fee)) :
    aout = 1 ∧ 1 ≤ ain - fee ∧ 0 ≤ fee ∧
    ∃ (tr : List StepRec), Path p.sqrtPrice tr p'.sqrtPrice ∧
      (10 : ℚ) ^ 18 ≤ sumExactOut zfo tr ∧ sumExactIn zfo tr ≤ (ain : ℚ) * 10 ^ 18 := by
  obtain ⟨h1, h2, h3⟩ := executed_swap_moves_whole_units hinv hspf h
  obtain ⟨r, _, hex, e1, e2, _, _, e3, _⟩ := swap_bal h
  have hcs := execSwap_spec hex
  have hb := C03.swap_specified_side_bounded hcs
  simp only [Bool.false_eq_true, ↓reduceIte] at hb
  have ea : aout = 1 := by omega
  obtain ⟨limit, tr, st', _, _, hrun, hpath, _, _, _, _, _, hc, _⟩ := swap_any_limit_of_inv hinv hspf hcs
  refine ⟨ea, h2, h3, tr, by rw [e3]; exact hpath, ?_, by rw [e1]; exact hc.2⟩
  have := hc.1
  rw [← e2, ea] at this
  simpa using this

/-- the exact amounts of a run of good steps are non-negative. -/
theorem sumExact_nonneg {ogi zfo : Bool} {limit : Int} :
    ∀ (tr : List StepRec), (∀ e ∈ tr, RecGoodL ogi zfo limit e) → 0 ≤ sumExactIn zfo tr ∧ 0 ≤ sumExactOut zfo tr
  | [], _ => by simp [sumExactIn, sumExactOut]
  | e :: tr, h => by
    obtain ⟨a, b⟩ := sumExact_nonneg tr (fun e he => h e (List.mem_cons_of_mem _ he))
    obtain ⟨⟨⟨hl, _⟩, hsp, hn, _⟩, _, _⟩ := h e List.mem_cons_self
    have q0 : (0 : ℚ) ≤ exact0 e.st.pool.liquidity e.res.sqrtPriceNext e.st.pool.sqrtPrice := by
      unfold exact0
      have hnum : (0 : Int) ≤ ((e.res.sqrtPriceNext - e.st.pool.sqrtPrice).natAbs : Int) * e.st.pool.liquidity * 10 ^ 36 :=
        Int.mul_nonneg (Int.mul_nonneg (Int.natCast_nonneg _) hl) (by norm_num)
      have hden : (0 : Int) ≤ e.res.sqrtPriceNext * e.st.pool.sqrtPrice := Int.le_of_lt (Int.mul_pos hn hsp)
      exact div_nonneg ((by exact_mod_cast hnum)) ((by exact_mod_cast hden))
    have q1 : (0 : ℚ) ≤ exact1 e.st.pool.liquidity e.res.sqrtPriceNext e.st.pool.sqrtPrice := by
      unfold exact1
      have hnum : (0 : Int) ≤ ((e.res.sqrtPriceNext - e.st.pool.sqrtPrice).natAbs : Int) * e.st.pool.liquidity :=
        Int.mul_nonneg (Int.natCast_nonneg _) hl
      exact div_nonneg ((by exact_mod_cast hnum)) (by norm_num)
    unfold sumExactIn sumExactOut exactIn exactOut
    cases zfo
    · simp only [Bool.false_eq_true, ↓reduceIte]; constructor <;> linarith
    · simp only [↓reduceIte]; constructor <;> linarith

/-- ESTIMATE of an exact-in swap of one unit, any price limit: the amount in is 0 or 1, the amount out is not negative, the
price does not move against the swap, the exact curve's amount in along the path taken is at most ONE token, and if the
amount out is 0 the exact curve's amount out along the path is below one token + one rounding unit per step. -/
theorem one_unit_exact_in_estimate {p : Pool} (hinv : Inv p) (hspf : SpfOK p.spf) {zfo : Bool} {pl : Int} {r : SwapOut}
    (h : computeSwap true zfo p.spf pl ⟨p.sqrtPrice, p.tick, p.liquidity⟩ (tickList p) 1 = some r) :
    0 ≤ r.amountIn ∧ r.amountIn ≤ 1 ∧ 0 ≤ r.amountOut ∧
    (if zfo then r.pool.sqrtPrice ≤ p.sqrtPrice else p.sqrtPrice ≤ r.pool.sqrtPrice) ∧
    ∃ (tr : List StepRec), Path p.sqrtPrice tr r.pool.sqrtPrice ∧ tr.length = r.steps ∧
      0 ≤ sumExactIn zfo tr ∧ sumExactIn zfo tr ≤ 10 ^ 18 ∧
      (r.amountOut = 0 → sumExactOut zfo tr < 10 ^ 18 + r.steps * outLossU zfo (pathFloor zfo p.sqrtPrice)) := by
  have hb := C03.swap_specified_side_bounded h
  simp only [↓reduceIte] at hb
  obtain ⟨limit, tr, st', _, _, _, hpath, hlen, _, _, hgood, ⟨hmono, _, _⟩, hc, _, hout, _⟩ :=
    swap_any_limit_of_inv hinv hspf h
  obtain ⟨n1, n2⟩ := sumExact_nonneg tr hgood
  have hin0 : 0 ≤ r.amountIn := by
    have : (0 : ℚ) ≤ (r.amountIn : ℚ) * 10 ^ 18 := le_trans n1 hc.2
    have : (0 : ℚ) ≤ (r.amountIn : ℚ) := by
      by_contra hneg
      have : (r.amountIn : ℚ) * 10 ^ 18 < 0 := mul_neg_of_neg_of_pos (not_le.mp hneg) (by positivity)
      linarith
    exact_mod_cast this
  have hout0 : 0 ≤ r.amountOut := by
    obtain ⟨limit', tr', st'', _, hv', hrun', _, _, _, _, _, c2', _, _, hgood', _⟩ := computeSwap_run_good_lim hinv hspf h
    obtain ⟨hs0, hs1⟩ := spfOK_lt hspf
    cases htr : tr' with
    | nil =>
      rw [htr] at c2'
      simp only [sumOut] at c2'
      have := trunc_zero P18_pos c2'
      omega
    | cons e0 tr0 =>
      rw [htr] at hrun' hgood' c2'
      have hpos : 0 < p.sqrtPrice := by
        have := (hgood' e0 List.mem_cons_self).1.2.1
        have hpath' := hrun'.path
        simp only [Path] at hpath'
        rw [hpath'.1] at this; exact this
      obtain ⟨_, hcv⟩ := hrun'.curve hs0 hs1 hpos (limit_pos_of_valid hpos hv') (fun e he => (hgood' e he).ok)
      have o0 := (sums_nonneg (ogi := true) (e0 :: tr0)
        (fun e he => ⟨(hcv e he).2.2.2.2.2.1, (hcv e he).2.2.2.2.2.2⟩)).1
      exact (trunc_nonneg_le P18_pos o0 c2').1
  refine ⟨hin0, hb, hout0, hmono, tr, hpath, hlen, n1, ?_, fun hz => ?_⟩
  · have h1 : (r.amountIn : ℚ) ≤ 1 := by exact_mod_cast hb
    have := hc.2
    nlinarith
  · have := hout rfl
    rw [hz] at this
    simp only [Int.cast_zero, zero_mul] at this
    linarith

/-! ## 3. amount out zero -/

/-- ANY exact-in estimate whose amount out is 0 (any amount in, any price limit): the exact curve's amount out along the path
taken is below one token plus the per-step rounding (`outLossU`: 1 raw unit for token1, `1 + 2·10^-6` for token0 at sqrt
prices ≥ 10^-6): the price did not move by more than that.  And such a swap never EXECUTES (`executed_swap_moves_whole_units`),
so the pool's price never changes with nothing paid out. -/
theorem zero_out_price_move_bounded {p : Pool} (hinv : Inv p) (hspf : SpfOK p.spf) {zfo : Bool} {pl specified : Int}
    {r : SwapOut}
    (h : computeSwap true zfo p.spf pl ⟨p.sqrtPrice, p.tick, p.liquidity⟩ (tickList p) specified = some r)
    (hz : r.amountOut = 0) :
    ∃ (tr : List StepRec), Path p.sqrtPrice tr r.pool.sqrtPrice ∧ tr.length = r.steps ∧
      sumExactOut zfo tr < 10 ^ 18 + r.steps * outLossU zfo (pathFloor zfo p.sqrtPrice) := by
  obtain ⟨limit, tr, st', _, _, _, hpath, hlen, _, _, _, _, _, _, hout, _⟩ := swap_any_limit_of_inv hinv hspf h
  refine ⟨tr, hpath, hlen, ?_⟩
  have := hout rfl
  rw [hz] at this
  simp only [Int.cast_zero, zero_mul] at this
  linarith

/-- the executed forms: a computed amount out of 0 (exact-in) or amount in of 0 (exact-out) is an error. -/
theorem zero_result_never_executes {ogi zfo : Bool} {spf : Int} {pool : PoolSt} {ticks : Ticks} {specified : Int}
    {r : SwapOut} {fee : Int} (h : execSwap ogi zfo spf pool ticks specified = some (r, fee)) :
    if ogi then 0 < r.amountOut else 0 < r.amountIn := by
  rw [execSwap_unfold] at h
  obtain ⟨r', _, h2⟩ := Option.bind_eq_some_iff.mp h
  split at h2
  · cases h2
  · rename_i h1
    split at h2
    · cases h2
    · rename_i h3
      obtain ⟨fee', -, h4⟩ := Option.bind_eq_some_iff.mp h2
      split at h4
      · cases h4
      · cases h4
        cases ogi
        · simp only [Bool.false_eq_true, ↓reduceIte]
          simp only [Bool.false_eq_true, not_false_eq_true, true_and, Int.not_le] at h3
          exact h3
        · simp only [↓reduceIte]
          simp only [true_and, Int.not_le] at h1
          exact h1

/-! ## 4. non-vacuity -/

/-- State A (C03 §8: price 1, spread factor 0.1 %): one-unit exact-in swaps are ESTIMATED (1 in, 0 out, the price moves by
≈ 4·10^-10) but REJECTED when executed, in both directions; one-unit exact-out swaps execute and cost 3 (the amount in of the
step is rounded up to a whole token: ⌈1.0000000004⌉ = 2, plus the charge).  State B (after a one-for-zero swap of 1 500 000:
price ≈ 1.002): the zero-for-one one-unit exact-in swap executes — 1 in, 1 out, fee 0 —, the one-for-zero one is rejected.
Amount 0: empty estimate, rejected execution; amount −1 fails. -/
example :
    let pA := run demoInit (demoOps.take 2)
    let pB := run demoInit (demoOps.take 2 ++ [.swap true false 1500000])
    computeSwap true true pA.spf 0 ⟨pA.sqrtPrice, pA.tick, pA.liquidity⟩ (tickList pA) 1 =
      some ⟨1, 0, 0, ⟨999999999500874313334544714820060032, -1, 2001499875062460257502969826⟩, 2, 1⟩ ∧
    computeSwap true false pA.spf 0 ⟨pA.sqrtPrice, pA.tick, pA.liquidity⟩ (tickList pA) 1 =
      some ⟨1, 0, 0, ⟨1000000000399240723243241641809460734, 0, 2502249750187304070549754964⟩, 1, 0⟩ ∧
    CLPool.swap pA true true 1 = none ∧ CLPool.swap pA true false 1 = none ∧
    (CLPool.swap pA false true 1).map (·.2) = some (3, 1, 1) ∧ (CLPool.swap pA false false 1).map (·.2) = some (3, 1, 1) ∧
    pB.sqrtPrice = 1000994507237732597832529718031126170 ∧
    (CLPool.swap pB true true 1).map (·.2) = some (1, 1, 0) ∧ CLPool.swap pB true false 1 = none ∧
    (CLPool.swap pB false true 1).map (·.2) = some (2, 1, 1) ∧
    computeSwap true true pA.spf 0 ⟨pA.sqrtPrice, pA.tick, pA.liquidity⟩ (tickList pA) 0 =
      some ⟨0, 0, 0, ⟨pA.sqrtPrice, pA.tick, pA.liquidity⟩, 0, 0⟩ ∧
    CLPool.swap pA true true 0 = none ∧ CLPool.swap pA false false 0 = none ∧
    computeSwap false true pA.spf 0 ⟨pA.sqrtPrice, pA.tick, pA.liquidity⟩ (tickList pA) (-1) = none := by
  decide +kernel

/-- `one_unit_exact_in` instantiated on state B. -/
example : ∃ (tr : List StepRec), sumCharge tr = 0 ∧ ((1 : Int) : ℚ) * 10 ^ 18 ≤ sumExactOut true tr ∧
    sumExactIn true tr ≤ 10 ^ 18 := by
  have h : (CLPool.swap (run (initPool 100 1000000000000000) (demoOps.take 2 ++ [.swap true false 1500000])) true true 1).isSome := by
    decide +kernel
  obtain ⟨⟨p', ain, aout, fee⟩, hx⟩ := Option.isSome_iff_exists.mp h
  obtain ⟨hinv, hspf⟩ := C03.reachable_state_inv (s := 100) (f := 1000000000000000) (by decide) ⟨by decide, by decide⟩
    (demoOps.take 2 ++ [.swap true false 1500000])
  obtain ⟨_, _, h1, tr, _, hch, ho, hi⟩ := one_unit_exact_in hinv hspf hx
  refine ⟨tr, hch, le_trans ?_ ho, hi⟩
  have : ((1 : Int) : ℚ) ≤ (aout : ℚ) := by exact_mod_cast h1
  nlinarith

end OsmoVerif.Props.C03Dust
