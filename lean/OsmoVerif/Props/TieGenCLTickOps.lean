/-
Tie T1 for the table / search functions of x/concentrated-liquidity/math/tick.go (owning property C14), part B: ordered statement
lists regenerated on every run (tools/extract/gen_expr_k.go) and pinned below — the bound checks and which constants they compare
with, the additive / geometric index arithmetic, the truncation of the price on the 18-decimal range, the two sqrt-price
comparisons of the bucket correction in `CalculateSqrtPriceToTick`.  The straight-line conversions are tied by value in
Props/TieGenCLTick.lean.
Written by tools/mkpins.py from tools/pins/TieGenCLTickOps.json.
-/
import OsmoVerif.Gen.CLTickOpsFn

-- `decide` on lists of up to a few hundred strings
set_option maxRecDepth 100000

namespace OsmoVerif.Props.TieGenCLTickOps
open OsmoVerif

/-- B — `TickToPrice`: `Tick.tickToPrice` -/
theorem opsx_TickToPrice_pinned : Gen.CLTickOps.opsx_TickToPrice =
    ["==(v0,0)", "if", "osmomath.OneBigDec()", "return(osmomath.OneBigDec(),nil)", "end",
     "==(v0,types.MinInitializedTickV2)", "==(v0,types.MinCurrentTickV2)", "||(_,_)", "if",
     "return(types.MinSpotPriceV2,nil)", "end", "TickToAdditiveGeometricIndices(v0)",
     "+(types.ExponentAtPriceOne,v2)", "=(v5,1_000_000)", "<(v0,0)", "if", "-(v4,1)", "=(v4,_)", "*=(v5,10)", "end",
     "+=(v5,v1)", "powTenBigDec(v4)", "MulInt64(_,v5)", "GT(v6,types.MaxSpotPriceBigDec)",
     "LT(v6,types.MinSpotPriceV2)", "||(_,_)", "if", "end", "return(v6,nil)"] := by decide

/-- B — `TickToAdditiveGeometricIndices`: `Tick.tickToAdditiveGeometric` -/
theorem opsx_TickToAdditiveGeometricIndices_pinned : Gen.CLTickOps.opsx_TickToAdditiveGeometricIndices =
    ["==(v0,0)", "if", "return(0,0,nil)", "end", "==(v0,types.MinInitializedTickV2)",
     "==(v0,types.MinCurrentTickV2)", "||(_,_)", "if", "return(0,-30,nil)", "end", "<(v0,types.MinCurrentTickV2)",
     "if", "return(0,0,error)", "end", ">(v0,types.MaxTick)", "if", "return(0,0,error)", "end",
     "/(v0,geometricExponentIncrementDistanceInTicks)", "=(v2,_)", "*(v2,geometricExponentIncrementDistanceInTicks)",
     "-(v0,_)", "return(v4,v2,nil)"] := by decide

/-- B — `CalculatePriceToTick`: `Tick.calculatePriceToTick` / `Tick.findGeoUp` / `Tick.findGeoDown` / `Tick.tickExp` -/
theorem opsx_CalculatePriceToTick_pinned : Gen.CLTickOps.opsx_CalculatePriceToTick =
    ["IsNegative(v0)", "if", "return(0,error)", "end", "GT(v0,types.MaxSpotPriceBigDec)",
     "LT(v0,types.MinSpotPriceV2)", "||(_,_)", "if", "return(0,error)", "end", "Equal(v0,osmomathBigOneDec)", "if",
     "return(0,nil)", "end", "GTE(v0,types.MinSpotPriceBigDec)", "if", "ChopPrecisionMut(v0,osmomath.DecPrecision)",
     "end", "GT(v0,osmomathBigOneDec)", "if", "=(v4,0)", "=(v3,tickExpCache[v4])", "for", "LT(v3.maxPrice,v0)",
     "+=(v4,1)", "=(v3,tickExpCache[v4])", "end", "else", "=(v4,-1)", "=(v3,tickExpCache[v4])", "for",
     "GT(v3.initialPrice,v0)", "-=(v4,1)", "=(v3,tickExpCache[v4])", "end", "end", "Sub(v0,v3.initialPrice)",
     "QuoMut(v5,v3.additiveIncrementPerTick)", "TruncateInt64(v6)", "+(v6.TruncateInt64(),v3.initialTick)",
     "=(v1,_)", "return(v1,nil)"] := by decide

/-- B — `CalculateSqrtPriceToTick`: `Tick.calculateSqrtPriceToTick` (candidate tick from the squared price, compared with the sqrt prices of tick, tick+1, tick−1) -/
theorem opsx_CalculateSqrtPriceToTick_pinned : Gen.CLTickOps.opsx_CalculateSqrtPriceToTick =
    ["Mul(v0,v0)", "CalculatePriceToTick(v3)", "<(v4,types.MinCurrentTick)", "if", "return(0,error)", "end",
     "=(v5,false)", "<=(v4,types.MinInitializedTickV2)", "if", "+(types.MinInitializedTickV2,1)", "=(v4,_)",
     "=(v5,true)", "else", "-(types.MaxTick,1)", ">=(v4,_)", "if", "-(types.MaxTick,2)", "=(v4,_)", "=(v5,true)",
     "end", "+(v4,1)", "TickToSqrtPrice(_)", "GTE(v0,v6)", "if", "+(v4,2)", "TickToSqrtPrice(_)", "!(v5)",
     "GTE(v0,v7)", "&&(_,_)", "GT(v0,v7)", "&&(v5,_)", "||(_,_)", "if", "return(0,error)", "end", "Equal(v0,v7)",
     "if", "+(v4,2)", "end", "+(v4,1)", "end", "TickToSqrtPrice(v4)", "GTE(v0,v8)", "if", "return(v4,nil)", "end",
     "-(v4,1)", "TickToSqrtPrice(_)", "LT(v0,v9)", "if", "return(0,error)", "end", "-(v4,1)"] := by decide

/-- B — `PowTenInternal`: the 18-decimal powers of ten of `Tick.tickToPrice` -/
theorem opsx_PowTenInternal_pinned : Gen.CLTickOps.opsx_PowTenInternal =
    [">=(v0,0)", "if", "return(powersOfTen[v0])", "end", "return(negPowersOfTen[-v0])"] := by decide

/-- B — `powTenBigDec`: `Tick.powTenBigDec` -/
theorem opsx_powTenBigDec_pinned : Gen.CLTickOps.opsx_powTenBigDec =
    [">=(v0,0)", "if", "return(bigPowersOfTen[v0])", "end", "return(bigNegPowersOfTen[-v0])"] := by decide

end OsmoVerif.Props.TieGenCLTickOps
