/-
Tie T1 for osmoutils/accum (owning property C15).
A: `Accum.getTotalRewards` (Model/Accum.lean) is EQUAL to the definition regenerated from accum_helpers.go
   `GetTotalRewards` by the expression translator, instantiated with the model's sdk.DecCoins operations
   (`Gen/AccumFn.lean` is generic in them): (value − snapshot).MulDec(shares) added to the unclaimed rewards —
   operator, operands and operand order.
B: `ClaimRewards` and `AddToAccumulator`.
-/
import OsmoVerif.Model.Accum
import OsmoVerif.Gen.AccumFn
import OsmoVerif.Proofs.TieTactics

namespace OsmoVerif.Props.TieGenAccum
open OsmoVerif OsmoVerif.Num

theorem getTotalRewards_model_eq_gen (h : Accum.Handle) (r : Accum.Record) : Accum.getTotalRewards h r =
    Gen.Accum.GetTotalRewards Accum.sub Accum.mulDec Accum.add h.value r.snap r.shares r.unclaimed := by
  unfold Accum.getTotalRewards Gen.Accum.GetTotalRewards
  tie_eq

/-- A — the sign dispatch of `UpdatePositionIntervalAccumulation` regenerated from accum.go, spelled out: zero shares is an
error, a negative amount goes to RemoveFrom… with its NEGATION, a positive one to AddTo… -/
theorem UpdatePositionIntervalAccumulation_gen {DC : Type} (rem add : Int → DC → Option Unit) (n : Int) (iv : DC) :
    Gen.Accum.UpdatePositionIntervalAccumulation rem add n iv =
      if n = 0 then none else if n < 0 then rem (-n) iv else add n iv := by
  unfold Gen.Accum.UpdatePositionIntervalAccumulation
  split
  · rfl
  · split
    · cases rem (-n) iv <;> rfl
    · cases add n iv <;> rfl

/-- … which is the dispatch of `Accum.updatePositionInterval` (the model returns the store/handle/result triple of the
mutator it dispatches to; `none` = the `ZeroSharesError`). -/
theorem updatePositionInterval_dispatch_eq_gen (st : Accum.Store) (h : Accum.Handle) (pos : String) (n : Int) (iv : Accum.DecCoins) :
    (if n = 0 then none else some (Accum.updatePositionInterval st h pos n iv)) =
      if n = 0 then none else if n < 0 then some (Accum.removeFromPositionInterval st h pos (-n) iv)
      else some (Accum.addToPositionInterval st h pos n iv) := by
  unfold Accum.updatePositionInterval
  by_cases h0 : n = 0
  · simp only [h0, if_true]
  · simp only [h0, if_false]
    by_cases hn : n < 0
    · simp only [hn, if_true]
    · simp only [hn, if_false]

/-- B — `AccumulatorObject.ClaimRewards`: mirrored by `Accum.claimRewards` -/
theorem opsx_AccumulatorObject_ClaimRewards_pinned : Gen.Accum.opsx_AccumulatorObject_ClaimRewards =
    ["GetPosition(v0,v1)", "GetTotalRewards(v0,v2)", "TruncateDecimal(v4)", "IsZero(v2.NumShares)",
     "deletePosition(v0,v1)",
     "initOrUpdatePosition(v0,v0.valuePerShare,v1,v2.NumShares,sdk.NewDecCoins(),v2.Options)"] := by decide

/-- B — `AccumulatorObject.AddToAccumulator`: mirrored by `Accum.addToAccumulator` -/
theorem opsx_AccumulatorObject_AddToAccumulator_pinned : Gen.Accum.opsx_AccumulatorObject_AddToAccumulator =
    ["Add(v0.valuePerShare,v1)", "setAccumulator(v0,v0.valuePerShare,v0.totalShares)"] := by decide

end OsmoVerif.Props.TieGenAccum
