/-
Tie T1 for osmoutils/accum (owning property C15).
A: `Accum.getTotalRewards` (Model/Accum.lean) is EQUAL to the definition regenerated from accum_helpers.go
   `GetTotalRewards` by the expression translator, instantiated with the model's sdk.DecCoins operations
   (`Gen/AccumFn.lean` is generic in them): (value − snapshot).MulDec(shares) added to the unclaimed rewards —
   operator, operands and operand order.
B: `ClaimRewards` and `AddToAccumulator`.
-/
import OsmoVerif.Model.Accum
import OsmoVerif.Gen.AccumFn
import OsmoVerif.Proofs.TieTactics

namespace OsmoVerif.Props.TieGenAccum
open OsmoVerif OsmoVerif.Num

theorem getTotalRewards_model_eq_gen (h : Accum.Handle) (r : Accum.Record) : Accum.getTotalRewards h r =
    Gen.Accum.GetTotalRewards Accum.sub Accum.mulDec Accum.add h.value r.snap r.shares r.unclaimed := by
  unfold Accum.getTotalRewards Gen.Accum.GetTotalRewards
  tie_eq

/-- B — `AccumulatorObject.ClaimRewards`: mirrored by `Accum.claimRewards` -/
theorem opsx_AccumulatorObject_ClaimRewards_pinned : Gen.Accum.opsx_AccumulatorObject_ClaimRewards =
    ["GetPosition(v0,v1)", "GetTotalRewards(v0,v2)", "TruncateDecimal(v4)", "IsZero(v2.NumShares)",
     "deletePosition(v0,v1)",
     "initOrUpdatePosition(v0,v0.valuePerShare,v1,v2.NumShares,sdk.NewDecCoins(),v2.Options)"] := by decide

/-- B — `AccumulatorObject.AddToAccumulator`: mirrored by `Accum.addToAccumulator` -/
theorem opsx_AccumulatorObject_AddToAccumulator_pinned : Gen.Accum.opsx_AccumulatorObject_AddToAccumulator =
    ["Add(v0.valuePerShare,v1)", "setAccumulator(v0,v0.valuePerShare,v0.totalShares)"] := by decide

end OsmoVerif.Props.TieGenAccum
