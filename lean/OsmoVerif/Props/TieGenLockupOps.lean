/-
Tie T1 for x/lockup (owning property C06), part B: there is no Dec arithmetic in the lockup keeper; what `Model/Lockup.lean`
mirrors is the coin arithmetic (`Coins.Add` / `Sub`, accumulation-store `Increase` / `Decrease` per coin and duration key), the
guards (owner, `IsUnlocking`, `IsAllLTE`, duration comparison, synthetic lockups) and the order of store / bank / hook calls.
The translator regenerates the ordered statement list of each function on every run (tools/extract/gen_expr_k.go); the lists
are pinned below.  Part of what they pin: WHICH coins each loop ranges over and each call receives (`lock.Coins` vs
`finalCoinsToSendBackToUser`), which duration keys the accumulation store is adjusted under (`lock.Duration` vs `synthLock.Duration`
vs the new duration), the literal prefix test `strings.HasPrefix(coin.Denom, cltypes.ConcentratedLiquidityTokenPrefix)` (the
prefix itself is regenerated into `Gen/Lockup.lean`), and the key ranges of the iterators.
Written by tools/mkpins.py from tools/pins/TieGenLockupOps.json.
-/
import OsmoVerif.Gen.LockupOpsFn

-- `decide` on lists of up to a few hundred strings
set_option maxRecDepth 100000

namespace OsmoVerif.Props.TieGenLockupOps
open OsmoVerif

/-- B — `Keeper.WithdrawMaturedLocks`: `Lockup.withdrawMaturedLocks` -/
theorem opsx_Keeper_WithdrawMaturedLocks_pinned : Gen.LockupOps.opsx_Keeper_WithdrawMaturedLocks =
    ["BlockTime(v1)", "LockIteratorBeforeTime(v0,v1,v1.BlockTime())", "unlockFromIterator(v0,v1,v2,_)"] := by decide

/-- B — `Keeper.BeginUnlockAllNotUnlockings`: `Lockup.msgBeginUnlockingAll` -/
theorem opsx_Keeper_BeginUnlockAllNotUnlockings_pinned : Gen.LockupOps.opsx_Keeper_BeginUnlockAllNotUnlockings =
    ["AccountLockIterator(v0,v1,false,v2)", "beginUnlockFromIterator(v0,v1,_)", "return(v3,v4)"] := by decide

/-- B — `Keeper.AddToExistingLock`: the add-to-existing branch of `Lockup.msgLockTokens` -/
theorem opsx_Keeper_AddToExistingLock_pinned : Gen.LockupOps.opsx_Keeper_AddToExistingLock =
    ["GetAccountLockedDurationNotUnlockingOnly(v0,v1,v2,v3.Denom,v4)", "len(v5)", "<(_,1)", "if", "return(0,error)",
     "end", "=(v6,v5[0])", "AddTokensToLockByID(v0,v1,v6.ID,v2,v3)", "return(v6.ID,nil)"] := by decide

/-- B — `Keeper.HasLock`: `Lockup.qOwnerDenomDurationNotUnlocking` -/
theorem opsx_Keeper_HasLock_pinned : Gen.LockupOps.opsx_Keeper_HasLock =
    ["GetAccountLockedDurationNotUnlockingOnly(v0,v1,v2,v3,v4)", "len(v5)", ">(_,0)"] := by decide

/-- B — `Keeper.AddTokensToLockByID`: `Lockup.addTokensToLockByID` (owner guard, `Coins.Add`, bank send, `lock`, the trailing `Increase` under the synthetic lock's denom / duration) -/
theorem opsx_Keeper_AddTokensToLockByID_pinned : Gen.LockupOps.opsx_Keeper_AddTokensToLockByID =
    ["GetLockByID(v0,v1,v2)", "GetOwner(v5)", "String(v3)", "!=(v5.GetOwner(),v3.String())", "if", "end",
     "Add(v5.Coins,v4)", "=(v5.Coins,_)", "sdk.NewCoins(v4)",
     "SendCoinsFromAccountToModule(v0.bk,v1,v3,types.ModuleName,_)", "sdk.NewCoins(v4)", "lock(v0,v1,v5,_)",
     "GetSyntheticLockupByUnderlyingLockId(v0,v1,v5.ID)", "accumulationStore(v0,v1,v7.SynthDenom)",
     "accumulationKey(v7.Duration)", "Increase(_,_,v4.Amount)", "if", "return(v5,nil)", "end", "OwnerAddress(v5)",
     "GetID(v5)", "sdk.NewCoins(v4)", "AfterAddTokensToLock(v0.hooks,v1,v5.OwnerAddress(),v5.GetID(),_)",
     "return(v5,nil)"] := by decide

/-- B — `Keeper.CreateLock`: `Lockup.createLock` -/
theorem opsx_Keeper_CreateLock_pinned : Gen.LockupOps.opsx_Keeper_CreateLock =
    ["SendCoinsFromAccountToModule(v0.bk,v1,v2,types.ModuleName,v3)", "CreateLockNoSend(v0,v1,v2,v3,v4)",
     "return(v6,nil)"] := by decide

/-- B — `Keeper.CreateLockNoSend`: `Lockup.createLockNoSend` -/
theorem opsx_Keeper_CreateLockNoSend_pinned : Gen.LockupOps.opsx_Keeper_CreateLockNoSend =
    ["GetLastLockID(v0,v1)", "+(_,1)", "types.NewPeriodLock(v5,v2,\"\",v4,{},v3)", "lock(v0,v1,v6,v6.Coins)", "if",
     "return(v6,v7)", "end", "addLockRefs(v0,v1,v6)", "if", "return(v6,v7)", "end", "SetLastLockID(v0,v1,v6.ID)",
     "return(v6,nil)"] := by decide

/-- B — `Keeper.lock`: `Lockup.lockInternal` (store the lock, `Increase` per coin under the lock's duration) -/
theorem opsx_Keeper_lock_pinned : Gen.LockupOps.opsx_Keeper_lock =
    ["sdk.AccAddressFromBech32(v2.Owner)", "setLock(v0,v1,v2)", "range(v3)", "accumulationStore(v0,v1,v6.Denom)",
     "accumulationKey(v2.Duration)", "Increase(_,_,v6.Amount)", "end",
     "OnTokenLocked(v0.hooks,v1,v4,v2.ID,v2.Coins,v2.Duration,v2.EndTime)"] := by decide

/-- B — `Keeper.BeginUnlock`: `Lockup.beginUnlock` -/
theorem opsx_Keeper_BeginUnlock_pinned : Gen.LockupOps.opsx_Keeper_BeginUnlock =
    ["GetLockByID(v0,v1,v2)", "HasAnySyntheticLockups(v0,v1,v4.ID)", "if", "return(0,error)", "end",
     "beginUnlock(v0,v1,v4,v3)", "return(v6,v5)"] := by decide

/-- B — `Keeper.BeginForceUnlock`: `Lockup.beginUnlock` without the synthetic-lock guard (superfluid's entry point, C11) -/
theorem opsx_Keeper_BeginForceUnlock_pinned : Gen.LockupOps.opsx_Keeper_BeginForceUnlock =
    ["GetLockByID(v0,v1,v2)", "beginUnlock(v0,v1,v4,v3)", "=(v2;v5,_)", "return(v2,nil)"] := by decide

/-- B — `Keeper.beginUnlock`: `Lockup.beginUnlockInternal` / `Lockup.beginUnlockCore` (already unlocking, `IsAllLTE`, the split for a partial amount, index entries moved, end time) -/
theorem opsx_Keeper_beginUnlock_pinned : Gen.LockupOps.opsx_Keeper_beginUnlock =
    ["IsAllLTE(v3,v2.Coins)", "!(_)", "if", "return(0,error)", "end", "IsUnlocking(v2)", "if", "return(0,error)",
     "end", "len(v3)", "!=(_,0)", "Equal(v3,v2.Coins)", "!(_)", "&&(_,_)", "if", "SplitLock(v0,v1,v2,v3,false)",
     "=(v2,v4)", "end", "deleteLockRefs(v0,v1,types.KeyPrefixNotUnlocking,v2)", "BlockTime(v1)",
     "Add(v1.BlockTime(),v2.Duration)", "=(v2.EndTime,_)", "setLock(v0,v1,v2)", "addLockRefs(v0,v1,v2)", "if",
     "OwnerAddress(v2)", "OnStartUnlock(v0.hooks,v1,v2.OwnerAddress(),v2.ID,v2.Coins,v2.Duration,v2.EndTime)", "end",
     "return(v2.ID,nil)"] := by decide

/-- B — `Keeper.UnlockMaturedLock`: `Lockup.unlockMaturedLock` (`curTime.Before(lock.EndTime)` ⇒ error) -/
theorem opsx_Keeper_UnlockMaturedLock_pinned : Gen.LockupOps.opsx_Keeper_UnlockMaturedLock =
    ["GetLockByID(v0,v1,v2)", "BlockTime(v1)", "=(v5,v1.BlockTime())", "IsUnlocking(v3)", "!(v3.IsUnlocking())",
     "if", "return(error)", "end", "Before(v5,v3.EndTime)", "if", "return(error)", "end",
     "unlockMaturedLockInternalLogic(v0,v1,v3)", "return(_)"] := by decide

/-- B — `Keeper.PartialForceUnlock`: `Lockup.msgForceUnlock` -/
theorem opsx_Keeper_PartialForceUnlock_pinned : Gen.LockupOps.opsx_Keeper_PartialForceUnlock =
    ["IsAllLTE(v3,v2.Coins)", "!(_)", "if", "return(error)", "end", "len(v3)", "!=(_,0)", "Equal(v3,v2.Coins)",
     "!(_)", "&&(_,_)", "if", "SplitLock(v0,v1,v2,v3,true)", "=(v2,v4)", "end", "ForceUnlock(v0,v1,v2)", "return(_)"] := by decide

/-- B — `Keeper.ForceUnlock`: `Lockup.forceUnlock` -/
theorem opsx_Keeper_ForceUnlock_pinned : Gen.LockupOps.opsx_Keeper_ForceUnlock =
    ["GetSyntheticLockupByUnderlyingLockId(v0,v1,v2.ID)", "IsNil(v3)", "!(v3.IsNil())", "if",
     "DeleteSyntheticLockup(v0,v1,v2.ID,v3.SynthDenom)", "end", "IsUnlocking(v2)", "!(v2.IsUnlocking())", "if",
     "BeginUnlock(v0,v1,v2.ID,nil)", "end", "GetLockByID(v0,v1,v2.ID)", "unlockMaturedLockInternalLogic(v0,v1,v5)",
     "return(_)"] := by decide

/-- B — `Keeper.unlockMaturedLockInternalLogic`: `Lockup.unlockInternal` / `Lockup.burnCLShares` / `Lockup.isCLDenom` (CL shares burned, the REST sent back, lock and index entries deleted, accumulation `Decrease` for EVERY coin of the lock under `lock.Duration`) -/
theorem opsx_Keeper_unlockMaturedLockInternalLogic_pinned : Gen.LockupOps.opsx_Keeper_unlockMaturedLockInternalLogic =
    ["sdk.AccAddressFromBech32(v2.Owner)", "=(v5,v2.Coins)", "sdk.NewCoins()", "=(v6,sdk.NewCoins())", "range(v5)",
     "strings.HasPrefix(v7.Denom,cltypes.ConcentratedLiquidityTokenPrefix)", "if", "sdk.NewCoins(v7)",
     "BurnCoins(v0.bk,v1,types.ModuleName,_)", "else", "Add(v6,v7)", "=(v6,_)", "end", "end", "Empty(v6)",
     "!(v6.Empty())", "if", "SendCoinsFromModuleToAccount(v0.bk,v1,types.ModuleName,v3,v6)", "end",
     "deleteLock(v0,v1,v2.ID)", "deleteLockRefs(v0,v1,types.KeyPrefixUnlocking,v2)", "range(v2.Coins)",
     "accumulationStore(v0,v1,v7.Denom)", "accumulationKey(v2.Duration)", "Decrease(_,_,v7.Amount)", "end",
     "OnTokenUnlocked(v0.hooks,v1,v3,v2.ID,v2.Coins,v2.Duration,v2.EndTime)"] := by decide

/-- B — `Keeper.SetLockRewardReceiverAddress`: `Lockup.setRewardReceiver` -/
theorem opsx_Keeper_SetLockRewardReceiverAddress_pinned : Gen.LockupOps.opsx_Keeper_SetLockRewardReceiverAddress =
    ["GetLockByID(v0,v1,v2)", "GetOwner(v5)", "String(v3)", "!=(v5.GetOwner(),v3.String())", "if", "return(error)",
     "end", "==(v5.Owner,v4)", "if", "=(v4,types.DefaultOwnerReceiverPlaceholder)", "end",
     "==(v5.RewardReceiverAddress,v4)", "if", "return(error)", "end", "=(v5.RewardReceiverAddress,v4)",
     "setLock(v0,v1,v5)"] := by decide

/-- B — `Keeper.ExtendLockup`: `Lockup.extendLockup` (owner, not unlocking, no synthetic lockups, `newDuration <= oldDuration` ⇒ error, `Decrease` under the old and `Increase` under the new duration per coin) -/
theorem opsx_Keeper_ExtendLockup_pinned : Gen.LockupOps.opsx_Keeper_ExtendLockup =
    ["GetLockByID(v0,v1,v2)", "GetOwner(v5)", "String(v3)", "!=(v5.GetOwner(),v3.String())", "if", "return(error)",
     "end", "IsUnlocking(v5)", "if", "return(error)", "end", "HasAnySyntheticLockups(v0,v1,v5.ID)", "if",
     "return(error)", "end", "IsUnlocking(v5)", "unlockingPrefix(v5.IsUnlocking())", "deleteLockRefs(v0,v1,_,v5)",
     "GetDuration(v5)", "=(v7,v5.GetDuration())", "!=(v4,0)", "if", "<=(v4,v7)", "if", "return(error)", "end",
     "range(v5.Coins)", "accumulationStore(v0,v1,v8.Denom)", "accumulationKey(v5.Duration)",
     "Decrease(_,_,v8.Amount)", "accumulationStore(v0,v1,v8.Denom)", "accumulationKey(v4)",
     "Increase(_,_,v8.Amount)", "end", "=(v5.Duration,v4)", "end", "addLockRefs(v0,v1,v5)", "setLock(v0,v1,v5)",
     "GetID(v5)", "GetDuration(v5)", "OnLockupExtend(v0.hooks,v1,v5.GetID(),v7,v5.GetDuration())"] := by decide

/-- B — `Keeper.SlashTokensFromLockByID`: not an operation of the lockup model (superfluid slashing, C11); pinned -/
theorem opsx_Keeper_SlashTokensFromLockByID_pinned : Gen.LockupOps.opsx_Keeper_SlashTokensFromLockByID =
    ["GetLockByID(v0,v1,v2)", "GetModuleAddress(v0.ak,types.ModuleName)", "FundCommunityPool(v0.ck,v1,v3,v6)",
     "removeTokensFromLock(v0,v1,v4,v3)", "if", "return(v4,nil)", "end", "OnTokenSlashed(v0.hooks,v1,v4.ID,v3)",
     "return(v4,nil)"] := by decide

/-- B — `Keeper.removeTokensFromLock`: the coin removal of `Lockup.splitLock` (`Coins.Sub`, `Decrease` per coin, delete when empty) -/
theorem opsx_Keeper_removeTokensFromLock_pinned : Gen.LockupOps.opsx_Keeper_removeTokensFromLock =
    ["Sub(v2.Coins,v3...)", "=(v2.Coins,_)", "setLock(v0,v1,v2)", "range(v3)", "accumulationStore(v0,v1,v5.Denom)",
     "accumulationKey(v2.Duration)", "Decrease(_,_,v5.Amount)", "end",
     "GetSyntheticLockupByUnderlyingLockId(v0,v1,v2.ID)", "accumulationStore(v0,v1,v6.SynthDenom)",
     "accumulationKey(v6.Duration)", "Decrease(_,_,v3[0].Amount)"] := by decide

/-- B — `Keeper.setLock`: `Lockup.setLock` -/
theorem opsx_Keeper_setLock_pinned : Gen.LockupOps.opsx_Keeper_setLock =
    ["KVStore(v1,v0.storeKey)", "proto.Marshal(&v2)", "lockStoreKey(v2.ID)", "Set(v3,_,v4)"] := by decide

/-- B — `Keeper.setLockAndAddLockRefs`: `Lockup.setLock` + `Lockup.addLockRefs` -/
theorem opsx_Keeper_setLockAndAddLockRefs_pinned : Gen.LockupOps.opsx_Keeper_setLockAndAddLockRefs =
    ["setLock(v0,v1,v2)", "addLockRefs(v0,v1,v2)", "return(_)"] := by decide

/-- B — `Keeper.setSyntheticLockAndResetRefs`: not an operation of the lockup model (synthetic locks, C11); pinned -/
theorem opsx_Keeper_setSyntheticLockAndResetRefs_pinned : Gen.LockupOps.opsx_Keeper_setSyntheticLockAndResetRefs =
    ["setSyntheticLockupObject(v0,v1,&v3)", "addSyntheticLockRefs(v0,v1,v2,v3)", "return(_)"] := by decide

/-- B — `Keeper.deleteLock`: `Lockup.deleteLock` -/
theorem opsx_Keeper_deleteLock_pinned : Gen.LockupOps.opsx_Keeper_deleteLock =
    ["KVStore(v1,v0.storeKey)", "lockStoreKey(v2)", "Delete(v3,_)"] := by decide

/-- B — `Keeper.SplitLock`: `Lockup.splitLock` -/
theorem opsx_Keeper_SplitLock_pinned : Gen.LockupOps.opsx_Keeper_SplitLock =
    ["!(v4)", "IsUnlocking(v2)", "&&(_,v2.IsUnlocking())", "if", "end", "Sub(v2.Coins,v3...)", "=(v2.Coins,_)",
     "setLock(v0,v1,v2)", "GetLastLockID(v0,v1)", "+(_,1)", "SetLastLockID(v0,v1,v6)", "OwnerAddress(v2)",
     "types.NewPeriodLock(v6,v2.OwnerAddress(),v2.RewardReceiverAddress,v2.Duration,v2.EndTime,v3)",
     "setLock(v0,v1,v7)", "return(v7,v5)"] := by decide

/-- B — `unlockingPrefix`: the `unlocking` flag of `Lockup.RefKey` -/
theorem opsx_unlockingPrefix_pinned : Gen.LockupOps.opsx_unlockingPrefix =
    ["if(v0)", "return(types.KeyPrefixUnlocking)", "end", "return(types.KeyPrefixNotUnlocking)"] := by decide

/-- B — `Keeper.iteratorAfterTime`: `Lockup.qUnlockingAfter` (`timeGT`: from `PrefixEndBytes(key)` to the end of the prefix) -/
theorem opsx_Keeper_iteratorAfterTime_pinned : Gen.LockupOps.opsx_Keeper_iteratorAfterTime =
    ["KVStore(v1,v0.storeKey)", "getTimeKey(v3)", "combineKeys(v2,v5)", "storetypes.PrefixEndBytes(v6)",
     "storetypes.PrefixEndBytes(v2)", "Iterator(v4,_,_)", "return(_)"] := by decide

/-- B — `Keeper.iteratorBeforeTime`: `Lockup.qUnlockingBefore` / `Lockup.maturedEntries` (`timeLE`: from the prefix start to `PrefixEndBytes(key)`, i.e. inclusive) -/
theorem opsx_Keeper_iteratorBeforeTime_pinned : Gen.LockupOps.opsx_Keeper_iteratorBeforeTime =
    ["KVStore(v1,v0.storeKey)", "getTimeKey(v3)", "combineKeys(v2,v5)", "storetypes.PrefixEndBytes(v6)",
     "Iterator(v4,v2,_)", "return(_)"] := by decide

/-- B — `Keeper.iteratorDuration`: `Lockup.qOwnerDuration` (exactly this duration key) -/
theorem opsx_Keeper_iteratorDuration_pinned : Gen.LockupOps.opsx_Keeper_iteratorDuration =
    ["getDurationKey(v3)", "combineKeys(v2,v4)", "KVStore(v1,v0.storeKey)",
     "storetypes.KVStorePrefixIterator(v6,v5)", "return(_)"] := by decide

/-- B — `Keeper.iteratorLongerDuration`: `Lockup.qOwnerLonger` / `qDenomLonger` (from the duration key, inclusive) -/
theorem opsx_Keeper_iteratorLongerDuration_pinned : Gen.LockupOps.opsx_Keeper_iteratorLongerDuration =
    ["KVStore(v1,v0.storeKey)", "getDurationKey(v3)", "combineKeys(v2,v5)", "storetypes.PrefixEndBytes(v2)",
     "Iterator(v4,v6,_)", "return(_)"] := by decide

/-- B — `Keeper.iteratorShorterDuration`: the shorter-than-duration queries (up to the duration key, EXCLUSIVE) -/
theorem opsx_Keeper_iteratorShorterDuration_pinned : Gen.LockupOps.opsx_Keeper_iteratorShorterDuration =
    ["KVStore(v1,v0.storeKey)", "getDurationKey(v3)", "combineKeys(v2,v5)", "Iterator(v4,v2,v6)", "return(_)"] := by decide

/-- B — `Keeper.iterator`: `Lockup.bothFlags` / `flagOnly` (the whole prefix) -/
theorem opsx_Keeper_iterator_pinned : Gen.LockupOps.opsx_Keeper_iterator =
    ["KVStore(v1,v0.storeKey)", "storetypes.KVStorePrefixIterator(v3,v2)", "return(_)"] := by decide

/-- B — `Keeper.unlockFromIterator`: `Lockup.withdrawMaturedLocks` (at most `numToUnlock` locks, a failing unlock panics) -/
theorem opsx_Keeper_unlockFromIterator_pinned : Gen.LockupOps.opsx_Keeper_unlockFromIterator =
    ["=(v4,{})", "getLocksFromIterator(v0,v1,v3)", "=(v6,0)", "range(v5)", ">(v2,0)", ">=(v6,v2)", "&&(_,_)", "if",
     "break", "end", "++(v6)", "UnlockMaturedLock(v0,v1,v7.ID)", "if", "panic(v8)", "end", "Add(v4,v7.Coins...)",
     "=(v4,_)", "end", "return(v5,v4)"] := by decide

/-- B — `Keeper.beginUnlockFromIterator`: `Lockup.msgBeginUnlockingAll` -/
theorem opsx_Keeper_beginUnlockFromIterator_pinned : Gen.LockupOps.opsx_Keeper_beginUnlockFromIterator =
    ["getLocksFromIterator(v0,v1,v2)", "range(v3)", "BeginUnlock(v0,v1,v4.ID,nil)", "if", "return(v3,v5)", "end",
     "end", "return(v3,nil)"] := by decide

end OsmoVerif.Props.TieGenLockupOps
