/-
C11 — the epoch refresh at ANY exchange rate, the refinement of the rate-one ledger model, stake tracking along
histories.  Theorems over `Model/SuperfluidStaking.lean` (the model the driver runs) that Props/C11.lean lists under
"not proved".

Measure.  `stakeQ k key = shares · Tokens / DelegatorShares` is the EXACT stake of an intermediary account as a rational
number (what the engine's oracle computes with `big.Rat`; 0 without a delegation record); `rateQ k v = Tokens /
DelegatorShares` = tokens per RAW (10⁻¹⁸) share — 10⁻¹⁸ at exchange rate one; `uQ = 10⁻¹⁸`; `fracQ k key` = the fraction
of its validator's shares the account holds.

# 1. The refresh
`RefreshIntermediaryDelegationAmounts` reads `currentAmount = RoundInt(TokensFromShares(shares))` (two half-even
roundings: `refresh_reads_stake_rounded`) and compares it with the expected amount `e`:
* equal → nothing; * `current < e` → mint + delegate `e − current` (`mint_moves_stake`: the stake rises by the minted
amount minus less than `T/S`, the issued shares are floored); * `current > e` → force-undelegate + burn `current − e`
(`burn_moves_stake`: the stake falls by the requested amount, except for less than `T/S` (the shares to remove are
floored) and the account's fraction of the up-to-one token the TRUNCATED payout leaves with the validator).
`refresh_general_bound`: after one account's refresh `|stake − e| < ½ + 10⁻¹⁸ + T/S + (the account's remaining fraction
of its validator, if it was force-undelegated)` — UNLESS the force-undelegation was rejected.
`refresh_burn_rejected_iff`: that happens exactly when the shares for `current − e` exceed the delegation,
`S·(current − e) ≥ (d+1)·T`; then `e = 0`, the account has read its stake rounded UP, and ALL of it stays — the
deviation is unbounded (`refresh_burn_rejected_unbounded_witness`: 1002.7 tokens stay staked against an expected amount
of 0, at every later epoch too).
`epoch_refresh_bound`: the whole loop, any account order — the refreshes of the validator's other accounts move the
stake by less than `T/S` per top-up and by at most one token per force-undelegation (`mint_moves_other_stake`,
`burn_moves_other_stake`), so after the loop `|stake − e| < ½ + 10⁻¹⁸ + n·ρ + N`, `N` = number of accounts of the
validator that lost shares in this loop (the oracle's "one token per force-undelegation on the validator"), `n` = number
of accounts, `ρ` ≥ the validator's tokens per raw share during the loop (10⁻¹⁸ at rate one: the oracle's 10⁻⁶ allowance).

# 2. Refinement
`absL s` is the state of Model/Superfluid.lean (staking = a ledger at exchange rate one) that a state `s` of
Model/SuperfluidStaking.lean stands for: the lockup / marker / bank part as it is, the ledger entry of an account = its
delegation's raw shares / 10¹⁸.  `ROs` is the refinement invariant (every validator at rate one, `shares = tokens·10¹⁸`;
every delegation a positive whole number of tokens; the share invariant; the known validators' tokens within the bank
supply, the supply at most 2¹²⁷).  `rate_one_refinement_call`: every call of the staking model corresponds to the same
call of the ledger model on `absL s` — both succeed, with `absL`-related states satisfying the invariant again and the
same returned lock id, or both fail; `rate_one_refinement`: hence `absL (runS s₀ ops) = run (absL s₀) ops` along every
slash-free history (a forward simulation that is a function, so also a backward one).  `rate_one_transfer`: every
statement about the ledger model's reachable states — the 28 theorems of the first part of Props/C11.lean — holds of
`absL` of the staking model's reachable states; spelled out for `refresh_sets_expected` and the drift bound.
Side condition `FitsAlong`: the amounts minted fit under 2¹²⁷ together with the supply (the ledger model has no 256-bit
range checks; `rate_one_refinement_needs_room_witness`: without room the staking model's `Delegate` overflows where the
ledger model succeeds).

# 3. Stake tracking along histories
`staking_invariant_along_histories`: the share invariant (`StkInv`: the delegations of a validator's distinct accounts
fit into its shares; no negative tokens / shares) holds along EVERY history — slashes included — so the general refresh
bound applies after any history (`epoch_bound_after_any_history`).  Between epochs: `delegate_moves_stake` /
`undelegate_moves_stake` — a delegation / undelegation moves the account's exact stake by exactly the risk-adjusted value
of the lock at the multiplier in force, up to the share rounding of part 1; `history_is_path` — every call of a
slash-free history reaches the staking module through at most `stakeCalls` mint / burn calls (delegate, undelegate,
add-to-lock: 1; undelegate-and-unbond: 2; an epoch: one per account); `stake_tracks_calls_along_history_partial` — the
induction: along the history the stake follows the nominal amounts of those calls up to `(1 + ρ)` tokens per CALL on its
validator since the start (the last refresh).  At exchange rate one the full history-level statement against the exact
value of the locks is `drift_between_epochs_staking_partial` (part 2).
-/
import OsmoVerif.Proofs.SuperfluidRefreshEpoch
import OsmoVerif.Proofs.SuperfluidRefineRun
import OsmoVerif.Proofs.SuperfluidRefreshPath
import OsmoVerif.Props.C11

namespace OsmoVerif.Props.C11Refresh
open OsmoVerif.Superfluid OsmoVerif.Num OsmoVerif.Props.C11

/-! ## 1. the refresh at any exchange rate -/

/-- **the refresh reads the stake rounded twice** (18 decimals, then whole tokens; both half-even):
`−(½ + ½·10⁻¹⁸) ≤ stake − currentAmount < ½ + ½·10⁻¹⁸ + 10⁻³⁶`, for every validator with shares. -/
theorem refresh_reads_stake_rounded {s : SState} {key : AccKey} {cur : Int}
    (hT : 0 ≤ (s.k.val key.2).tokens) (hS : 0 < (s.k.val key.2).shares) (hd0 : 0 ≤ shOf s.k key)
    (h : currentS s key = some cur) :
    -(1 / 2 + uQ / 2) ≤ stakeQ s.k key - cur ∧ stakeQ s.k key - cur < 1 / 2 + uQ / 2 + uQ * uQ :=
  current_vs_stake hT hS hd0 h

/-- **mint + delegate moves the account's stake up by the minted amount, short by less than `T/S`** (any `T, S > 0`). -/
theorem mint_moves_stake {s s' : SState} {a : Int} {key : AccKey}
    (hT : 0 < (s.k.val key.2).tokens) (hS : 0 < (s.k.val key.2).shares)
    (hd0 : 0 ≤ shOf s.k key) (hdS : shOf s.k key ≤ (s.k.val key.2).shares) (h : mintS s a key = .ok s') :
    stakeQ s.k key + a - rateQ s.k key.2 < stakeQ s'.k key ∧ stakeQ s'.k key ≤ stakeQ s.k key + a :=
  mintS_stakeQ_own hT hS hd0 hdS h

/-- … and the stake of every OTHER account of the validator up by less than `T/S`; accounts of other validators are
not touched. -/
theorem mint_moves_other_stake {s s' : SState} {a : Int} {key k' : AccKey} (hne : k' ≠ key)
    (hT : 0 < (s.k.val key.2).tokens) (hS : 0 < (s.k.val key.2).shares)
    (hd0 : 0 ≤ shOf s.k k') (hdS : k'.2 = key.2 → shOf s.k k' ≤ (s.k.val key.2).shares) (h : mintS s a key = .ok s') :
    (k'.2 = key.2 → stakeQ s.k k' ≤ stakeQ s'.k k' ∧ stakeQ s'.k k' < stakeQ s.k k' + rateQ s.k key.2) ∧
    (k'.2 ≠ key.2 → stakeQ s'.k k' = stakeQ s.k k') := by
  refine ⟨fun hs => mintS_stakeQ_other hne hs hT hS hd0 (hdS hs) h, fun hs => ?_⟩
  obtain ⟨f1, f2⟩ := mintS_frame h
  exact stakeQ_frame (shOf_frame f1 k' hne) (f2 k'.2 hs)

/-- **force-undelegate + burn moves the account's stake down by the requested amount `a`**, except that less than `T/S`
more stays (the shares to remove are floored) plus the account's remaining fraction `d'/S'` of the up-to-one token the
truncated payout leaves with the validator; the payout exceeds the shares' worth by at most ½·10⁻¹⁸. -/
theorem burn_moves_stake {s s' : SState} {a d : Int} {key : AccKey}
    (hT : 0 < (s.k.val key.2).tokens) (hS : 0 < (s.k.val key.2).shares) (hd : s.k.dsh key = some d)
    (hd0 : 0 ≤ d) (hdS : d ≤ (s.k.val key.2).shares) (h : burnS s a key = .ok s') :
    stakeQ s.k key - a - uQ / 2 ≤ stakeQ s'.k key ∧
    stakeQ s'.k key < stakeQ s.k key - a + rateQ s.k key.2 + fracQ s'.k key ∧ fracQ s'.k key ≤ 1 := by
  obtain ⟨b1, b2, _, b4, b5, _⟩ := burnS_stakeQ_own hT hS hd hd0 hdS h
  exact ⟨b1, b2, (fracQ_bounds b4 b5).2⟩

/-- … and the stake of every OTHER account of the validator by between `−½·10⁻¹⁸` and its fraction of one token. -/
theorem burn_moves_other_stake {s s' : SState} {a d : Int} {key k' : AccKey} (hne : k' ≠ key) (hsame : k'.2 = key.2)
    (hT : 0 < (s.k.val key.2).tokens) (hS : 0 < (s.k.val key.2).shares) (hd : s.k.dsh key = some d)
    (hd0 : 0 ≤ shOf s.k k') (hsum : shOf s.k k' + d ≤ (s.k.val key.2).shares) (h : burnS s a key = .ok s') :
    stakeQ s.k k' - uQ / 2 ≤ stakeQ s'.k k' ∧ stakeQ s'.k k' ≤ stakeQ s.k k' + fracQ s'.k k' ∧ fracQ s'.k k' ≤ 1 := by
  obtain ⟨b1, b2, b3, _⟩ := burnS_stakeQ_other hne hsame hT hS hd hd0 hsum h
  exact ⟨b1, b2, b3⟩

/-- **GENERAL REFRESH BOUND, one account, any exchange rate.**  For every validator (`T, S > 0`), every delegation
(`0 ≤ d ≤ S`, or no record), every expected amount `e ≥ 0` (inside the 256-bit ranges), all three branches: after
`RefreshIntermediaryDelegationAmounts`' iteration for the account EITHER its force-undelegation was rejected — nothing
changed, `e = 0`, `current ≥ 1` and the whole stake, between `current − ½ − ½·10⁻¹⁸` and `current − T/S`, stays — OR
`−(½ + 10⁻¹⁸) − T/S < stake' − e < ½ + 10⁻¹⁸ + T/S + leak`, `leak` = the account's remaining fraction of its validator
if it lost shares (at most 1: "one token per force-undelegation"), else 0. -/
theorem refresh_general_bound {s s' : SState} {key : AccKey} {e : Int} (hv : key.2 ∈ s.b.validators)
    (hT : 0 < (s.k.val key.2).tokens) (hS : 0 < (s.k.val key.2).shares)
    (hd0 : 0 ≤ shOf s.k key) (hdS : shOf s.k key ≤ (s.k.val key.2).shares)
    (hSr : (s.k.val key.2).shares * (e + 1) ≤ decUpper) (hTr : (s.k.val key.2).tokens + e < powLimit)
    (he : expectedDelegation s.b key = .ok e) (he0 : 0 ≤ e) (hc : refreshOneS s key = .ok s') :
    (BurnRejected s key e ∧ s' = s ∧ e = 0 ∧
      ∃ cur : Int, currentS s key = some cur ∧ 1 ≤ cur ∧
        (cur : ℚ) - 1 / 2 - uQ / 2 ≤ stakeQ s.k key ∧ stakeQ s.k key ≤ (cur : ℚ) - rateQ s.k key.2) ∨
    (¬ BurnRejected s key e ∧
      -(1 / 2 + uQ) - rateQ s.k key.2 < stakeQ s'.k key - e ∧
      stakeQ s'.k key - e < 1 / 2 + uQ + rateQ s.k key.2 +
        (if shOf s'.k key < shOf s.k key then fracQ s'.k key else 0)) :=
  refreshOneS_bound hv hT hS hd0 hdS hSr hTr he he0 hc

/-- **exactly when the force-undelegation is rejected**: with `current > e ≥ 0`, the burn fails — "invalid shares
amount", which the refresh only logs — if and only if `S·(current − e) ≥ (d+1)·T`. -/
theorem refresh_burn_rejected_iff {s : SState} {key : AccKey} {d cur e : Int} (hv : key.2 ∈ s.b.validators)
    (hT : 0 < (s.k.val key.2).tokens) (hS : 0 < (s.k.val key.2).shares) (hd : s.k.dsh key = some d)
    (hd0 : 0 ≤ d) (hdS : d ≤ (s.k.val key.2).shares) (hSr : (s.k.val key.2).shares ≤ decUpper)
    (hcur : currentS s key = some cur) (hgt : e < cur) (he0 : 0 ≤ e)
    (hr : (s.k.val key.2).shares * (cur - e) ≤ decUpper) :
    (∀ s', burnS s (cur - e) key ≠ .ok s') ↔ (d + 1) * (s.k.val key.2).tokens ≤ (s.k.val key.2).shares * (cur - e) :=
  burn_rejected_iff hv hT hS hd hd0 hdS hSr hcur hgt he0 hr

/-- **GENERAL REFRESH BOUND, the whole loop, any account order.**  Account `k`, listed once in `order`, on a validator
that stays healthy through the loop (`healthyB p q m`: tokens, shares, at most `p/q` tokens per raw share, ranges for
minting up to `m`), the share invariant at the start, expected amount `0 ≤ e ≤ m`.  After `refreshAllS` EITHER `k`'s
force-undelegation was rejected at its turn (then `e = 0`, and more than `½ − 10⁻¹⁸·(1 + N)/2` tokens stay staked) OR
`−(½ + 10⁻¹⁸) − p/q − N·½·10⁻¹⁸ < stake − e < ½ + 10⁻¹⁸ + n·p/q + N` with `N = burnCount` = the number of accounts of
the validator that lost shares in this loop and `n` = the number of accounts refreshed. -/
theorem epoch_refresh_bound {s s' : SState} {order : List (AccKey × Nat)} {k : AccKey} {g : Nat} {e p q m : Int}
    (hnd : (order.map Prod.fst).Nodup) (hk : (k, g) ∈ order) (hv : k.2 ∈ s.b.validators)
    (hI : ShareInvV s.k k.2) (hq : 0 < q)
    (hH : (refreshStates s order).all (healthyB p q m k.2) = true)
    (he : expectedDelegation s.b k = .ok e) (he0 : 0 ≤ e) (hem : e ≤ m)
    (hc : refreshAllS s order = .ok s') :
    (e = 0 ∧ (∃ sj, sj ∈ refreshStates s order ∧ BurnRejected sj k e) ∧
      1 / 2 - uQ / 2 - (burnCount k.2 s order : ℚ) * (uQ / 2) ≤ stakeQ s'.k k) ∨
    (-(1 / 2 + uQ) - (p : ℚ) / q - (burnCount k.2 s order : ℚ) * (uQ / 2) < stakeQ s'.k k - e ∧
      stakeQ s'.k k - e < 1 / 2 + uQ + (order.length : ℚ) * ((p : ℚ) / q) + (burnCount k.2 s order : ℚ)) :=
  refreshAllS_bound hnd hk hv hI hq (fun st hst => healthy_of_B (List.all_eq_true.mp hH st hst)) he he0 hem hc

/-- the same for the epoch entry point `epochOS` (store iteration order as an input) after a full multiplier update:
`e` is the expected amount at the NEW multipliers. -/
theorem epochOS_refresh_bound {s s' : SState} {ups : List (Nat × Int × Int × Bool)} {order : List AccKey} {b1 : State}
    {k : AccKey} {e p q m : Int} (hc : epochOS s ups order = .ok s') (h1 : updateMults s.b ups = .ok (b1, true))
    (hnd : order.Nodup) (hk : k ∈ order) (hv : k.2 ∈ b1.validators)
    (hI : ShareInvV s.k k.2) (hq : 0 < q)
    (hH : (refreshStates { s with b := b1 } (order.map fun k => (k, 0))).all (healthyB p q m k.2) = true)
    (he : expectedDelegation b1 k = .ok e) (he0 : 0 ≤ e) (hem : e ≤ m) :
    (e = 0 ∧ (∃ sj, sj ∈ refreshStates { s with b := b1 } (order.map fun k => (k, 0)) ∧ BurnRejected sj k e) ∧
      1 / 2 - uQ / 2 - (burnCount k.2 { s with b := b1 } (order.map fun k => (k, 0)) : ℚ) * (uQ / 2) ≤ stakeQ s'.k k) ∨
    (-(1 / 2 + uQ) - (p : ℚ) / q - (burnCount k.2 { s with b := b1 } (order.map fun k => (k, 0)) : ℚ) * (uQ / 2)
        < stakeQ s'.k k - e ∧
      stakeQ s'.k k - e < 1 / 2 + uQ + (order.length : ℚ) * ((p : ℚ) / q) +
        (burnCount k.2 { s with b := b1 } (order.map fun k => (k, 0)) : ℚ)) := by
  have hr := epochOS_refresh hc h1
  have hnd' : ((order.map fun k => (k, (0 : Nat))).map Prod.fst).Nodup := by
    rw [List.map_map]
    have : (Prod.fst ∘ fun k : AccKey => (k, (0 : Nat))) = id := rfl
    rw [this, List.map_id]; exact hnd
  have hk' : (k, (0 : Nat)) ∈ order.map fun k => (k, (0 : Nat)) := List.mem_map.mpr ⟨k, hk, rfl⟩
  have := epoch_refresh_bound (s := { s with b := b1 }) hnd' hk' hv hI hq hH he he0 hem hr
  simpa using this


/-! ### witnesses and non-vacuity (exchange rate 7 tokens : 5 shares) -/

/-- multiplier 1, risk factor 0, unbonding time 100; validator 0 holds `T` tokens for `S` raw shares; account (0,0) has
`d0` shares and an accumulation of `x0` (its expected amount), account (1,0) has `d1` shares and expects 0. -/
def wRate (T S d0 d1 x0 : Int) : SState :=
  { b := { now := 1, unbondingTime := 100, riskFactor := 0, validators := [0], assets := [0, 1],
           mult := fun d => if d ≤ 1 then P18 else 0, locks := fun _ => none, lastLockId := 0, synths := fun _ => [],
           conns := fun _ => none, accs := [((0, 0), 1), ((1, 0), 2)], lastGauge := 2,
           accum := fun k => if k = (SKind.bonding, ((0 : Nat), (0 : Nat))) then [(100, x0)] else [],
           deleg := fun _ => none, supply := 1000000, offset := 0 },
    k := { val := fun _ => { tokens := T, shares := S },
           dsh := fun k => if k = (0, 0) then some d0 else if k = (1, 0) then some d1 else none } }

/-- 7 tokens for 5 shares; account (0,0): 2 shares (stake 2.8), expects 5; account (1,0): 1 share (stake 1.4), expects 0. -/
def wR : SState := wRate 7 (5 * P18) (2 * P18) P18 5

/-- the store order: (1,0) first (force-undelegated: 1 token asked, 0.714… shares removed, 0 tokens paid out — the
truncation leak), then (0,0) (topped up by 2). -/
def ordR : List (AccKey × Nat) := [((1, 0), 2), ((0, 0), 1)]

theorem wR_shareInv (T S d0 d1 x0 : Int) (h0 : 0 ≤ d0) (h1 : 0 ≤ d1) (hs : d0 + d1 ≤ S) (v : Nat := 0) :
    ShareInvV (wRate T S d0 d1 x0).k v := by
  refine shareInvV_of_support [(0, 0), (1, 0)] ?_ ?_ ?_
  · intro x hx
    simp only [List.mem_cons, List.not_mem_nil, or_false] at hx
    rcases hx with hx | hx <;> subst hx <;> simp [shOf, wRate, h0, h1]
  · intro x hx
    simp only [List.mem_cons, List.not_mem_nil, or_false, not_or] at hx
    simp [wRate, hx.1, hx.2]
  · simp [sumSh, shOf, wRate]; omega

/-- `refresh_general_bound` applies to both accounts of `wR` (one is force-undelegated, one topped up) … -/
example : ∃ s', refreshOneS wR (1, 0) = .ok s' ∧
    ((s'.k.dsh (1, 0), (s'.k.val 0).tokens, (s'.k.val 0).shares) = (some 285714285714285715, 7, 4285714285714285715)) := by
  obtain ⟨s', hs'⟩ := okS_ok (show okS (refreshOneS wR (1, 0)) = true by decide +kernel)
  refine ⟨s', hs', ?_⟩
  have : ((refreshOneS wR (1, 0)).toOption.map fun s' => (s'.k.dsh (1, 0), (s'.k.val 0).tokens, (s'.k.val 0).shares)) =
      some (some 285714285714285715, 7, 4285714285714285715) := by decide +kernel
  rw [hs'] at this
  simpa [Except.toOption] using this

example : ∃ s', refreshOneS wR (1, 0) = .ok s' ∧
    (-(1 / 2 + uQ) - rateQ wR.k 0 < stakeQ s'.k (1, 0) - (0 : Int) ∧
      stakeQ s'.k (1, 0) - (0 : Int) < 1 / 2 + uQ + rateQ wR.k 0 +
        (if shOf s'.k (1, 0) < shOf wR.k (1, 0) then fracQ s'.k (1, 0) else 0)) := by
  obtain ⟨s', hs'⟩ := okS_ok (show okS (refreshOneS wR (1, 0)) = true by decide +kernel)
  refine ⟨s', hs', ?_⟩
  have he : expectedDelegation wR.b (1, 0) = .ok 0 := ok_of_toOption (by decide +kernel)
  rcases refresh_general_bound (s := wR) (key := (1, 0)) (e := 0) (by decide) (by decide +kernel) (by decide +kernel)
    (by decide +kernel) (by decide +kernel) (by decide +kernel) (by decide +kernel) he (by decide) hs' with ⟨hrej, _⟩ | ⟨_, h⟩
  · -- not rejected: 1·S < (d+1)·T
    obtain ⟨d, cur, hd, hcur, _, hr⟩ := hrej
    have e1 : wR.k.dsh (1, 0) = some P18 := by decide +kernel
    have e2 : currentS wR (1, 0) = some 1 := by decide +kernel
    rw [e1] at hd; injection hd with hd; subst hd
    rw [e2] at hcur; injection hcur with hcur; subst hcur
    exact absurd hr (by decide +kernel)
  · exact h

/-- … and `epoch_refresh_bound` to the whole loop over `wR` in the order `ordR`: one account of the validator loses
shares (`burnCount = 1`), the validator stays below 2·10⁻¹⁸ tokens per raw share. -/
example : burnCount 0 wR ordR = 1 ∧ (refreshStates wR ordR).all (healthyB 2 P18 5 0) = true := by decide +kernel

example : ∃ s', refreshAllS wR ordR = .ok s' ∧
    (-(1 / 2 + uQ) - (2 : Int) / (P18 : Int) - (burnCount 0 wR ordR : ℚ) * (uQ / 2) < stakeQ s'.k (0, 0) - (5 : Int) ∧
      stakeQ s'.k (0, 0) - (5 : Int) < 1 / 2 + uQ + (ordR.length : ℚ) * ((2 : Int) / (P18 : Int)) + (burnCount 0 wR ordR : ℚ)) := by
  obtain ⟨s', hs'⟩ := okS_ok (show okS (refreshAllS wR ordR) = true by decide +kernel)
  refine ⟨s', hs', ?_⟩
  have he : expectedDelegation wR.b (0, 0) = .ok 5 := ok_of_toOption (by decide +kernel)
  rcases epoch_refresh_bound (s := wR) (order := ordR) (k := (0, 0)) (g := 1) (e := 5) (p := 2) (q := P18) (m := 5)
    (by decide) (by decide) (by decide) (wR_shareInv _ _ _ _ _ (by decide) (by decide) (by decide +kernel)) (by decide)
    (by decide +kernel) he (by decide) (by decide) hs' with ⟨h0, _⟩ | h
  · exact absurd h0 (by decide)
  · exact h

/-- after that loop: 9 tokens for 5.51… shares; (0,0) holds 3.22… shares = 5.2667 tokens (expected 5), (1,0) holds
0.2857… shares = 0.4667 tokens (expected 0): both inside ½, the second one only because the burn paid out 0 tokens. -/
example : ((refreshAllS wR ordR).toOption.map fun s' =>
      ((s'.k.val 0).tokens, (s'.k.val 0).shares, s'.k.dsh (0, 0), s'.k.dsh (1, 0), s'.b.supply, s'.b.offset)) =
    some (9, 5510204081632653062, some 3224489795918367347, some 285714285714285715, 1000002, -2) := by decide +kernel

/-- 7007 tokens for 5000 shares; account (0,0) holds 715.5 shares — a stake of 1002.70085 tokens — and expects 0. -/
def wBig : SState := wRate 7007 (5000 * P18) (715 * P18 + P18 / 2) 0 0

/-- FULL claim "after the refresh |stake − expected| ≤ ½ + one token per force-undelegation" is FALSE by an UNBOUNDED
amount when the force-undelegation is rejected: the refresh reads the stake 1002.70… as 1003, asks to burn 1003 tokens,
the shares for 1003 tokens (715.71…) exceed the delegation's 715.5, `ValidateUnbondAmount` fails, the error is logged
— and 1002.7 tokens stay staked against an expected amount of 0, at this and (the state being unchanged) every later
epoch.  (`refresh_burn_rejected_witness` of Props/C11.lean is the same effect with 0.67 tokens.) -/
theorem refresh_burn_rejected_unbounded_witness :
    currentS wBig (0, 0) = some 1003 ∧ (expectedDelegation wBig.b (0, 0)).toOption = some 0 ∧
    errOf (burnS wBig 1003 (0, 0)) = some .other ∧
    ((refreshOneS wBig (0, 0)).toOption.map fun s' => (s'.k.dsh (0, 0), (s'.k.val 0).tokens, (s'.k.val 0).shares, s'.b.supply)) =
      some (some (715 * P18 + P18 / 2), 7007, 5000 * P18, 1000000) ∧
    1002 * (5000 * P18) < (715 * P18 + P18 / 2) * 7007 ∧
    (715 * P18 + P18 / 2 + 1) * 7007 ≤ 5000 * P18 * (1003 - 0) := by decide +kernel

/-- the rejected branch of `refresh_general_bound` is met there. -/
example : BurnRejected wBig (0, 0) 0 :=
  ⟨715 * P18 + P18 / 2, 1003, by decide +kernel, by decide +kernel, by decide, by decide +kernel⟩


/-! ## 2. the staking model refines the rate-one ledger model -/

/-- **every call corresponds** (forward and backward): from a state with the refinement invariant `ROs` and the lockup
invariant, with room for what the call mints (`Fits`), the call of the staking model and the same call of the ledger
model on the abstracted state either both succeed — the new ledger state is `absL` of the new staking state, which
satisfies `ROs` again, and the returned lock ids agree — or both fail. -/
theorem rate_one_refinement_call {s : SState} {op : Op} (hR : ROs s) (hI : Inv s.b) (hfit : Fits (absL s) op) :
    (∃ s' l' id, applyOpIdS s (.base op) = .ok (s', id) ∧ applyOpId (absL s) op = .ok (l', id) ∧ l' = absL s' ∧ ROs s') ∨
    ((∃ e, applyOpIdS s (.base op) = .error e) ∧ ∃ e', applyOpId (absL s) op = .error e') := by
  have h := applyOpIdS_sim hR hI hfit
  cases hs : applyOpIdS s (.base op) with
  | error e =>
    cases hl : applyOpId (absL s) op with
    | error e' => exact Or.inr ⟨⟨e, rfl⟩, ⟨e', rfl⟩⟩
    | ok r' => rw [hs, hl] at h; exact h.elim
  | ok r =>
    cases hl : applyOpId (absL s) op with
    | error e' => rw [hs, hl] at h; exact h.elim
    | ok r' =>
      rw [hs, hl] at h
      obtain ⟨⟨h1, h2⟩, h3⟩ := h
      refine Or.inl ⟨r.1, r'.1, r.2, rfl, ?_, h1, h2⟩
      rw [h3]

/-- **`rate_one_refinement`** — along every slash-free history from a state with the refinement invariant, with room
(`FitsAlong`, evaluated on the ledger model's run): the ledger model's run from the abstracted state IS the abstraction
of the staking model's run (a failed call is a no-op in both), and the invariant holds at the end. -/
theorem rate_one_refinement {s₀ : SState} (hR : ROs s₀) (hI : Inv s₀.b) (ops : List Op) (hfit : FitsAlong (absL s₀) ops) :
    absL (runS s₀ (ops.map OpS.base)) = run (absL s₀) ops ∧ ROs (runS s₀ (ops.map OpS.base)) :=
  runS_sim ops s₀ hR hI hfit

/-- **corollary: the theorems of the first part transfer.**  Whatever holds of every state the ledger model reaches from
`absL s₀` holds of `absL` of every state the staking model reaches from `s₀` (at exchange rate one, without slashes,
with room); `Inv (absL s₀)` is `Inv s₀.b`. -/
theorem rate_one_transfer {s₀ : SState} (hR : ROs s₀) (hI : Inv s₀.b) (P : List Op → State → Prop)
    (hP : Inv (absL s₀) → ∀ ops, P ops (run (absL s₀) ops)) (ops : List Op) (hfit : FitsAlong (absL s₀) ops) :
    P ops (absL (runS s₀ (ops.map OpS.base))) := by
  rw [(rate_one_refinement hR hI ops hfit).1]
  exact hP (inv_absL hI) ops

/-- transferred `refresh_sets_expected`: at exchange rate one the epoch of the STAKING model sets every intermediary
account's delegation to exactly `expected · 10¹⁸` raw shares — its exact stake is the expected amount. -/
theorem refresh_sets_expected_staking {s s' : SState} {ups : List (Nat × Int × Int × Bool)} (hR : ROs s) (hI : Inv s.b)
    (hfit : FitsEpoch (absL s) ups) (hc : epochS s ups = .ok s') (hfull : ∃ b1, updateMults s.b ups = .ok (b1, true)) :
    ∀ k g, (k, g) ∈ s'.b.accs → k.2 ∈ s'.b.validators →
      osmoTokens s'.b k.1 (sumConn s'.b k s'.b.lastLockId) = .ok (shOf s'.k k / P18) ∧ ROs s' := by
  have h := epochS_sim hR hI hfit
  rw [hc] at h
  cases hl : epoch (absL s) ups with
  | error e => rw [hl] at h; exact h.elim
  | ok l' =>
    rw [hl] at h
    obtain ⟨h1, h2⟩ := h
    subst h1
    obtain ⟨b1, hb1⟩ := hfull
    have hfull' : ∃ l1, updateMults (absL s) ups = .ok (l1, true) :=
      ⟨setD (ledgerOf s.k) b1, by rw [show absL s = setD (ledgerOf s.k) s.b from rfl, updateMults_setD, hb1]; rfl⟩
    intro k g hk hv
    have := refresh_sets_expected (inv_absL hI) hl hfull' k g hk hv
    rw [delegated_absL] at this
    exact ⟨this, h2⟩

/-- transferred `drift_between_epochs_partial` (history-level stake tracking at exchange rate one): after any prefix, a
full refresh and any epoch-free suffix — all run in the STAKING model — every refreshed account's ledger entry is within
`1 + (number of stake adjustments since the refresh)` base units of the exact value of the locks delegated through it. -/
theorem drift_between_epochs_staking_partial {s₀ : SState} (hR : ROs s₀) (h0 : Init' (absL s₀))
    (pre : List Op) (ups : List (Nat × Int × Int × Bool)) (ops : List Op)
    (hfit : FitsAlong (absL s₀) (pre ++ .epoch ups :: ops))
    (l' : State) (hc : epoch (run (absL s₀) pre) ups = .ok l') (hfull : ∃ l1, updateMults (run (absL s₀) pre) ups = .ok (l1, true))
    (hne : ∀ op, op ∈ ops → isEpoch op = false)
    (k : AccKey) (g : Nat) (hk : (k, g) ∈ l'.accs) (hv : k.2 ∈ l'.validators) :
    -((1 + (costs ops : Nat)) * (P18 * P18)) ≤ dev (absL (runS s₀ ((pre ++ .epoch ups :: ops).map OpS.base))) k ∧
    dev (absL (runS s₀ ((pre ++ .epoch ups :: ops).map OpS.base))) k ≤ (1 + (costs ops : Nat)) * (P18 * P18) := by
  have hI : Inv s₀.b := by
    have := init_inv h0.1
    exact this.ledger_frame s₀.b.deleg s₀.b.supply s₀.b.offset
  rw [(rate_one_refinement hR hI _ hfit).1]
  have hrun : run (absL s₀) (pre ++ .epoch ups :: ops) = run l' ops := by
    unfold run
    rw [List.foldl_append, List.foldl_cons]
    congr 1
    have : applyOp (List.foldl step (absL s₀) pre) (.epoch ups) = .ok l' := by
      show ((epoch (run (absL s₀) pre) ups).map _).map _ = _
      rw [hc]; rfl
    exact step_ok this
  rw [hrun]
  exact drift_between_epochs_partial h0 pre ups l' hc hfull ops hne k g hk hv

/-! ### non-vacuity and the room witness -/

theorem wS0_ROs : ROs wS0 := by
  refine ⟨fun _ => rfl, fun _ => (by decide : (0 : Int) ≤ 1000000), by decide, by decide, ?_, ?_, by decide⟩
  · intro key d h; cases h
  · intro v
    exact shareInvV_of_support [] (fun _ h => by cases h) (fun _ _ => rfl) (by decide : (0 : Int) ≤ 1000000 * P18)

/-- a history at exchange rate one: lock, delegate, an epoch that refreshes. -/
def rOps : List Op := [.lock 0 0 1 100 true, .delegate 0 1 0, .epoch [(0, 250, 100 * P18, false)]]

theorem wS0_fits : FitsAlong (absL wS0) rOps := by
  refine ⟨trivial, ?_, ?_, trivial⟩
  · -- the delegation mints 1
    intro lk amt hl hos
    have e : ((step (absL wS0) (.lock 0 0 1 100 true)).locks 1).bind
        (fun lk => (osmoTokens (step (absL wS0) (.lock 0 0 1 100 true)) lk.denom lk.amount).toOption) = some 1 := by decide +kernel
    rw [hl] at e
    simp only [Option.bind_some, hos, Except.toOption] at e
    injection e with e
    subst e
    decide +kernel
  · -- the refresh: supply 2 000 001, expected 1
    intro l1 hl1
    have e : (updateMults (step (step (absL wS0) (.lock 0 0 1 100 true)) (.delegate 0 1 0)) [(0, 250, 100 * P18, false)]).toOption.map
        (fun r => r.1.supply + expSum r.1 (step (step (absL wS0) (.lock 0 0 1 100 true)) (.delegate 0 1 0)).accs) = some 2000002 := by
      decide +kernel
    rw [hl1] at e
    simp only [Except.toOption, Option.map_some] at e
    injection e with e
    rw [e]; decide

/-- the refinement applies to that history, and the abstracted staking run shows the delegation of 1 token. -/
example : absL (runS wS0 (rOps.map OpS.base)) = run (absL wS0) rOps ∧ ROs (runS wS0 (rOps.map OpS.base)) :=
  rate_one_refinement wS0_ROs ((init_inv w0_init).ledger_frame _ _ _) rOps wS0_fits

example : (run (absL wS0) rOps).deleg (0, 0) = some 1 ∧ (runS wS0 (rOps.map OpS.base)).k.dsh (0, 0) = some P18 := by
  decide +kernel

/-- the room is needed: the ledger model has no 256-bit range checks.  A lock of 2²⁵⁰ shares is worth 1.25·2²⁵⁰ uosmo;
delegating it succeeds in the ledger model, but `SharesFromTokens` multiplies the validator's 10²⁴ raw shares by that
amount — beyond the `LegacyDec` range — and the staking model's (the code's) `Delegate` fails. -/
theorem rate_one_refinement_needs_room_witness :
    errOf (applyOpS (runS wS0 [.base (.lock 0 0 (2 ^ 250) 100 true)]) (.base (.delegate 0 1 0))) = some .other ∧
    okS (applyOp (absL (runS wS0 [.base (.lock 0 0 (2 ^ 250) 100 true)])) (.delegate 0 1 0)) = true := by
  decide +kernel


/-! ## 3. stake tracking along histories -/

/-- **the staking-state invariant holds along every history** — slashes, epochs in any account order, any exchange
rate: for every validator the delegations of its distinct intermediary accounts together hold at most its shares, no
delegation and no validator is negative. -/
theorem staking_invariant_along_histories {s₀ : SState} (hI : Inv s₀.b) (h : StkInv s₀.k) (ops : List OpS) :
    StkInv (runS s₀ ops).k := stkInv_runS ops s₀ hI h

/-- **the general refresh bound after ANY history** (slashes included): the state reached by any history satisfies the
share invariant the bound needs, so `epoch_refresh_bound`'s conclusion holds for the epoch that follows — `e` being the
expected amount at the new multipliers (of the locks as the slashes left them). -/
theorem epoch_bound_after_any_history {s₀ : SState} (hI : Inv s₀.b) (h : StkInv s₀.k) (ops : List OpS)
    {s' : SState} {ups : List (Nat × Int × Int × Bool)} {order : List AccKey} {b1 : State} {k : AccKey} {e p q m : Int}
    (hc : epochOS (runS s₀ ops) ups order = .ok s') (h1 : updateMults (runS s₀ ops).b ups = .ok (b1, true))
    (hnd : order.Nodup) (hk : k ∈ order) (hv : k.2 ∈ b1.validators) (hq : 0 < q)
    (hH : (refreshStates { (runS s₀ ops) with b := b1 } (order.map fun k => (k, 0))).all (healthyB p q m k.2) = true)
    (he : expectedDelegation b1 k = .ok e) (he0 : 0 ≤ e) (hem : e ≤ m) :
    (e = 0 ∧ (∃ sj, sj ∈ refreshStates { (runS s₀ ops) with b := b1 } (order.map fun k => (k, 0)) ∧ BurnRejected sj k e) ∧
      1 / 2 - uQ / 2 - (burnCount k.2 { (runS s₀ ops) with b := b1 } (order.map fun k => (k, 0)) : ℚ) * (uQ / 2) ≤ stakeQ s'.k k) ∨
    (-(1 / 2 + uQ) - (p : ℚ) / q - (burnCount k.2 { (runS s₀ ops) with b := b1 } (order.map fun k => (k, 0)) : ℚ) * (uQ / 2)
        < stakeQ s'.k k - e ∧
      stakeQ s'.k k - e < 1 / 2 + uQ + (order.length : ℚ) * ((p : ℚ) / q) +
        (burnCount k.2 { (runS s₀ ops) with b := b1 } (order.map fun k => (k, 0)) : ℚ)) :=
  epochOS_refresh_bound hc h1 hnd hk hv ((staking_invariant_along_histories hI h ops).1 k.2) hq hH he he0 hem

/-- **a delegation moves the account's stake by exactly the risk-adjusted value of the lock at the multiplier in
force** (`amt = GetSuperfluidOSMOTokens(denom, lock amount)`), short by less than `T/S` (the issued shares are floored). -/
theorem delegate_moves_stake {s s' : SState} {snd id v : Nat} (hI : ShareInvV s.k v)
    (hT : 0 < (s.k.val v).tokens) (hS : 0 < (s.k.val v).shares) (hc : superfluidDelegateS s snd id v = .ok s') :
    ∃ l amt, s.b.locks id = some l ∧ osmoTokens s.b l.denom l.amount = .ok amt ∧
      stakeQ s.k (l.denom, v) + amt - rateQ s.k v < stakeQ s'.k (l.denom, v) ∧
      stakeQ s'.k (l.denom, v) ≤ stakeQ s.k (l.denom, v) + amt := by
  obtain ⟨l, b3, amt, hl, hos, hp⟩ := kpath_delegate hc
  cases hp with
  | step b0 ha hrest =>
    cases hrest with
    | done _ b' =>
      have hm : mintS { s with b := b3 } amt (l.denom, v) = .ok _ := ha
      obtain ⟨m1, m2⟩ := mintS_stakeQ_own (s := { s with b := b3 }) (key := (l.denom, v)) hT hS
        (hI.1 (l.denom, v) rfl) (hI.le (key := (l.denom, v))) hm
      exact ⟨l, amt, hl, hos, m1, m2⟩

/-- **an undelegation moves the account's stake down by exactly the risk-adjusted value of the lock at the multiplier
in force** — except that less than `T/S` more stays (the shares to remove are floored) plus the account's fraction of the
up-to-one token the truncated payout leaves with the validator; without a delegation record nothing is burnt. -/
theorem undelegate_moves_stake {s s' : SState} {snd id : Nat} (hc : superfluidUndelegateS s snd id = .ok s') :
    ∃ l key amt, s.b.locks id = some l ∧ s.b.conns id = some key ∧ osmoTokens s.b key.1 l.amount = .ok amt ∧
      ((s.k.dsh key = none ∧ s'.k = s.k) ∨
       (ShareInvV s.k key.2 → 0 < (s.k.val key.2).tokens → 0 < (s.k.val key.2).shares →
        stakeQ s.k key - amt - uQ / 2 ≤ stakeQ s'.k key ∧
        stakeQ s'.k key < stakeQ s.k key - amt + rateQ s.k key.2 + fracQ s'.k key ∧ fracQ s'.k key ≤ 1)) := by
  obtain ⟨l, key, b2, amt, hl, hk, hos, hp⟩ := kpath_undelegate hc
  refine ⟨l, key, amt, hl, hk, hos, ?_⟩
  cases hp with
  | step b0 ha hrest =>
    cases hrest with
    | done _ b' =>
      have hb : burnS { s with b := b2 } amt key = .ok _ := ha
      cases hd : s.k.dsh key with
      | none =>
        rcases (burnS_ok hb).2 with ⟨_, hs'⟩ | ⟨d0, _, _, _, _, hd0, _⟩
        · subst hs'; exact Or.inl ⟨rfl, rfl⟩
        · have : ({ s with b := b2 } : SState).k.dsh key = s.k.dsh key := rfl
          rw [this, hd] at hd0; cases hd0
      | some d =>
        refine Or.inr ?_
        intro hI hT hS
        have hd0 : 0 ≤ d := by have := hI.1 key rfl; rw [shOf_of_some hd] at this; exact this
        have hdS : d ≤ (s.k.val key.2).shares := by have := hI.le (key := key); rw [shOf_of_some hd] at this; exact this
        obtain ⟨b1, b2', _, b4, b5, _⟩ := burnS_stakeQ_own (s := { s with b := b2 }) hT hS hd hd0 hdS hb
        exact ⟨b1, b2', (fracQ_bounds b4 b5).2⟩

/-- **the induction over the calls** (`runEv`: a sequence of successful `mintOsmoTokensAndDelegate` /
`forceUndelegateAndBurnOsmoTokens` calls from one state): on a validator that stays healthy — at most `ρ = p/q` tokens per
raw share — account `k`'s exact stake moves by the nominal amounts (`+` minted for it, `−` asked to be burnt from it) up to
`ρ + 1` tokens up and `ρ + ½·10⁻¹⁸` down per CALL on its validator: the drift is at most (#calls since the refresh) units
(plus `ρ` each). -/
theorem stake_tracks_calls {k : AccKey} {p q : Int} (hq : 0 < q) {s s' : SState} (evs : List StkEv)
    (hc : runEv s evs = .ok s') (hI : ShareInvV s.k k.2) (hH : (evStates s evs).all (healthyRB p q k.2) = true) :
    -(callsOn k.2 evs : ℚ) * ((p : ℚ) / q + uQ / 2) ≤ stakeQ s'.k k - stakeQ s.k k - (nomAlong k s evs : ℚ) ∧
    stakeQ s'.k k - stakeQ s.k k - (nomAlong k s evs : ℚ) ≤ (callsOn k.2 evs : ℚ) * ((p : ℚ) / q + 1) :=
  (runEv_stake hq evs s s' hc hI (fun st hst => healthyR_of_B (List.all_eq_true.mp hH st hst))).2

/-- **every slash-free history is a path of staking calls**: between `s₀` and `runS s₀ ops` the staking state changed
only through a sequence `evs` of `mintOsmoTokensAndDelegate` / `forceUndelegateAndBurnOsmoTokens` calls (made in the
states `sts`), at most `stakeCallsAlong` of them: one per delegate / undelegate / add-to-lock, two per undelegate-and-
unbond, one per account and epoch — a failed call makes none. -/
theorem history_is_path {s₀ : SState} (ops : List OpS) (hns : ∀ op, op ∈ ops → isSlashOp op = false) :
    ∃ evs sts, KPath s₀ evs sts (runS s₀ ops) ∧ evs.length ≤ stakeCallsAlong s₀ ops := kpath_runS ops s₀ hns

/-- **PARTIAL (the induction over the calls, any exchange rate)**: along every slash-free history, for the staking
calls `evs` it consists of (`history_is_path`): if account `k`'s validator is healthy at each call (tokens, shares, at most
`ρ = p/q` tokens per raw share), then `k`'s exact stake has moved by the nominal amounts of the calls made for it
(`nomPath`: `+` what was minted for it, `−` what was asked to be burnt from it — for delegate / undelegate exactly the
risk-adjusted value of the lock, `delegate_moves_stake`, `undelegate_moves_stake`) up to `1 + ρ` tokens per CALL on its
validator: `|drift| ≤ (#calls on the validator since the start) · (1 + ρ)`, with `#calls ≤ stakeCallsAlong`.

FULL statement not proved at an exchange rate ≠ 1: the same with the nominal amounts replaced by the exact value
`multiplier · total · (1 − riskFactor)` of the locks delegated through `k` (one more unit per stake-adjusting call, as in
`drift_le_ops_since_refresh_partial` of the ledger model): what is missing is the bookkeeping, per entry point, that the
nominal amount of its calls is the value of the amount by which the account's accumulation store moves — proved for the
ledger model only (`moves_applyOp`), and transferred to the staking model at exchange rate one
(`drift_between_epochs_staking_partial`). -/
theorem stake_tracks_calls_along_history_partial {s₀ : SState} (ops : List OpS) (hns : ∀ op, op ∈ ops → isSlashOp op = false)
    (k : AccKey) (hI : ShareInvV s₀.k k.2) {p q : Int} (hq : 0 < q) :
    ∃ evs sts, KPath s₀ evs sts (runS s₀ ops) ∧ evs.length ≤ stakeCallsAlong s₀ ops ∧ callsOn k.2 evs ≤ evs.length ∧
      ((∀ st, st ∈ sts → healthyRB p q k.2 st = true) →
        -(callsOn k.2 evs : ℚ) * ((p : ℚ) / q + uQ / 2) ≤ stakeQ (runS s₀ ops).k k - stakeQ s₀.k k - (nomPath k evs sts : ℚ) ∧
        stakeQ (runS s₀ ops).k k - stakeQ s₀.k k - (nomPath k evs sts : ℚ) ≤ (callsOn k.2 evs : ℚ) * ((p : ℚ) / q + 1)) := by
  obtain ⟨evs, sts, hp, hl⟩ := kpath_runS ops s₀ hns
  refine ⟨evs, sts, hp, hl, ?_, ?_⟩
  · clear hp hl
    induction evs with
    | nil => simp [callsOn]
    | cons ev r ih =>
      show (if ev.key.2 = k.2 then 1 else 0) + callsOn k.2 r ≤ (ev :: r).length
      simp only [List.length_cons]
      split <;> omega
  · intro hH
    exact (kpath_stake hq hp hI (fun st hst => healthyR_of_B (hH st hst))).2

/-! ### non-vacuity (exchange rate 7 : 5) -/

/-- `wRate 7 5·10¹⁸ …` with a lock of 3 shares (worth 3 uosmo) that can be delegated to validator 0. -/
def wD : SState :=
  { (wRate 7 (5 * P18) (2 * P18) P18 0) with
    b := { (wRate 7 (5 * P18) (2 * P18) P18 0).b with
      locks := fun id => if id = 1 then some { owner := 0, denom := 0, amount := 3, single := true, duration := 100, endTime := none } else none,
      lastLockId := 1 } }

theorem wD_stkInv : StkInv wD.k :=
  ⟨fun v => wR_shareInv 7 (5 * P18) (2 * P18) P18 0 (by decide) (by decide) (by decide +kernel) v,
   fun _ => ⟨(by decide : (0 : Int) ≤ 7), (by decide : (0 : Int) ≤ 5 * P18)⟩⟩

/-- `delegate_moves_stake` applies: the delegation mints 3 uosmo; the stake goes from 2.8 to 5.8 (2.142857… shares
issued, floored: short by 10⁻¹⁸-ish). -/
example : ∃ s', superfluidDelegateS wD 0 1 0 = .ok s' ∧ ∃ l amt, wD.b.locks 1 = some l ∧ osmoTokens wD.b l.denom l.amount = .ok amt ∧
    stakeQ wD.k (l.denom, 0) + amt - rateQ wD.k 0 < stakeQ s'.k (l.denom, 0) ∧
    stakeQ s'.k (l.denom, 0) ≤ stakeQ wD.k (l.denom, 0) + amt := by
  obtain ⟨s', hs'⟩ := okS_ok (show okS (superfluidDelegateS wD 0 1 0) = true by decide +kernel)
  exact ⟨s', hs', delegate_moves_stake (wD_stkInv.1 0) (by decide) (by decide +kernel) hs'⟩

example : ((superfluidDelegateS wD 0 1 0).toOption.map fun s' => ((s'.k.val 0).tokens, (s'.k.val 0).shares, s'.k.dsh (0, 0))) =
    some (10, 7142857142857142857, some 4142857142857142857) ∧ (osmoTokens wD.b 0 3).toOption = some 3 := by decide +kernel

/-- a slash-free history over `wD` (delegate, then undelegate: two staking calls), and the invariant after a history
WITH a slash. -/
example : stakeCallsAlong wD [.base (.delegate 0 1 0), .base (.undelegate 0 1)] = 2 := by decide +kernel

example : StkInv (runS wD [.base (.delegate 0 1 0), .slash 0 1 (P18 / 2) [], .base (.undelegate 0 1)]).k :=
  staking_invariant_along_histories
    (by
      have h : Inv (wRate 7 (5 * P18) (2 * P18) P18 0).b := by
        refine ⟨by decide, by decide, by decide, ?_, fun _ _ => rfl, ?_, ?_, ?_⟩
        · intro d; show 0 ≤ (if d ≤ 1 then P18 else 0); split <;> decide
        · intro id; simp [LockOK, wRate]
        · intro id k hk; cases hk
        · intro k
          unfold sumConn
          rw [sumTo_zero]
          · show accFrom (if (SKind.bonding, k) = (SKind.bonding, ((0 : Nat), (0 : Nat))) then [(100, 0)] else []) 100 = 0
            split <;> decide
          · intro i _ _; exact connAmt_of_noconn rfl
      -- adding a plain (unmarked, unconnected) lock keeps the invariant
      refine ⟨h.rf0, h.rf1, h.ub0, h.mult0, ?_, ?_, ?_, ?_⟩
      · intro id hid
        show (if id = 1 then _ else none) = none
        have : id ≠ 1 := by
          rcases hid with hid | hid
          · omega
          · have : (1 : Nat) < id := hid; omega
        rw [if_neg this]
      · intro id
        show LockOK 100 1 (if id = 1 then _ else none) [] none
        split <;> simp [LockOK]
      · intro id k hk; cases hk
      · intro k
        unfold sumConn
        rw [sumTo_zero]
        · show accFrom (if (SKind.bonding, k) = (SKind.bonding, ((0 : Nat), (0 : Nat))) then [(100, 0)] else []) 100 = 0
          split <;> decide
        · intro i _ _; exact connAmt_of_noconn rfl)
    wD_stkInv _


/-- `stake_tracks_calls` on `wD`: mint 3 for (0,0), mint 2 for the validator's other account (1,0), ask to burn 4 from
(0,0): three calls on the validator, nominal +3 −4 for (0,0). -/
example : ∃ s', runEv wD [.mint 3 (0, 0), .mint 2 (1, 0), .burn 4 (0, 0)] = .ok s' ∧
    nomAlong (0, 0) wD [.mint 3 (0, 0), .mint 2 (1, 0), .burn 4 (0, 0)] = -1 ∧
    callsOn 0 [.mint 3 (0, 0), .mint 2 (1, 0), .burn 4 (0, 0)] = 3 ∧
    -(3 : ℚ) * ((2 : Int) / (P18 : Int) + uQ / 2) ≤ stakeQ s'.k (0, 0) - stakeQ wD.k (0, 0) - ((-1 : Int) : ℚ) ∧
    stakeQ s'.k (0, 0) - stakeQ wD.k (0, 0) - ((-1 : Int) : ℚ) ≤ (3 : ℚ) * ((2 : Int) / (P18 : Int) + 1) := by
  obtain ⟨s', hs'⟩ := okS_ok (show okS (runEv wD [.mint 3 (0, 0), .mint 2 (1, 0), .burn 4 (0, 0)]) = true by decide +kernel)
  have h1 : nomAlong (0, 0) wD [.mint 3 (0, 0), .mint 2 (1, 0), .burn 4 (0, 0)] = -1 := by decide +kernel
  have h2 : callsOn 0 [.mint 3 (0, 0), .mint 2 (1, 0), .burn 4 (0, 0)] = 3 := by decide
  have := stake_tracks_calls (k := (0, 0)) (p := 2) (q := P18) (by decide) _ hs' (wD_stkInv.1 0) (by decide +kernel)
  rw [h1, h2] at this
  exact ⟨s', hs', h1, h2, by simpa using this.1, by simpa using this.2⟩

/-- the hypotheses of `refresh_sets_expected_staking` / `drift_between_epochs_staking_partial` are met on `wS0`. -/
example : Init' (absL wS0) := by
  refine ⟨⟨by decide, by decide, by decide, ?_, fun _ => rfl, fun _ => rfl, fun _ => rfl, fun _ => rfl⟩, ?_⟩
  · intro d
    show 0 ≤ (if d = 0 then 5 * P18 / 2 else 0)
    split <;> decide
  · intro d hd
    show d ∈ [0]
    have : (if d = 0 then 5 * P18 / 2 else 0) ≠ 0 := hd
    by_cases e : d = 0
    · subst e; simp
    · rw [if_neg e] at this; exact absurd rfl this

example : ∃ s', epochS (runS wS0 ((rOps.take 2).map OpS.base)) [(0, 250, 100 * P18, false)] = .ok s' ∧
    ∀ k g, (k, g) ∈ s'.b.accs → k.2 ∈ s'.b.validators →
      osmoTokens s'.b k.1 (sumConn s'.b k s'.b.lastLockId) = .ok (shOf s'.k k / P18) ∧ ROs s' := by
  have hI0 : Inv wS0.b := (init_inv w0_init).ledger_frame _ _ _
  obtain ⟨hab, hR⟩ := rate_one_refinement wS0_ROs hI0 (rOps.take 2) ⟨wS0_fits.1, wS0_fits.2.1, trivial⟩
  have hI : Inv (runS wS0 ((rOps.take 2).map OpS.base)).b := reach_inv_slashed hI0 _
  obtain ⟨s', hs'⟩ := okS_ok (show okS (epochS (runS wS0 ((rOps.take 2).map OpS.base)) [(0, 250, 100 * P18, false)]) = true by
    decide +kernel)
  refine ⟨s', hs', refresh_sets_expected_staking hR hI ?_ hs' ?_⟩
  · rw [hab]; exact wS0_fits.2.2.1
  · obtain ⟨b1, hb1⟩ := okS_ok (show okS ((updateMults (runS wS0 ((rOps.take 2).map OpS.base)).b [(0, 250, 100 * P18, false)]).bind
        fun r => if r.2 then .ok r.1 else .error .other) = true by decide +kernel)
    cases hu : updateMults (runS wS0 ((rOps.take 2).map OpS.base)).b [(0, 250, 100 * P18, false)] with
    | error e => rw [hu] at hb1; cases hb1
    | ok r =>
      obtain ⟨b, full⟩ := r
      cases full with
      | true => exact ⟨b, rfl⟩
      | false => rw [hu] at hb1; cases hb1

end OsmoVerif.Props.C11Refresh
