/-
C07 — concentrated pool book-keeping always agrees with its positions.
Model: `OsmoVerif.CLPool` (lp.go, tick.go, model/pool.go, swaps.go; bit-exact, see Model/CLPool.lean and the
`clpool` engine).  History model, invariant and helper lemmas: Proofs/CLBook*.lean (`CLBook.Op`, `apply`,
`step`, `run`, `initPool`, `Inv = InvCore ∧ InvPrice ∧ InvActive`).

Everything below is FULL.  Preconditions, both enforced by the code when a pool is created
(`authorized_parameters_ok`): tick spacing `> 0` (needed for clause (c): the tick of the first position is
rounded DOWN to the spacing grid only for a positive spacing) and spread factor in `[0, 1/2]` (`SpfOK`; needed
by the proof of clause (a) across swaps: "no loop iteration moves the sqrt price against the swap direction"
is shown for the rounded-up token-0-in formula only when the step's net amount in is at least 10⁻²⁴, which
follows from `remaining > 10⁻¹⁸` and `1 − spf ≥ 1/2`; `swap_preserves_active_liquidity_of_mono` states the
result without that precondition, under the monotone-run assumption itself).
Clauses (b), (d), (e) hold for every spacing and spread factor (`reachable_core`), clause (c) for every
positive spacing (`reachable_price`).
-/
import OsmoVerif.Proofs.CLBookMono

namespace OsmoVerif.Props.C07
open OsmoVerif.CLPool OsmoVerif.CLBook OsmoVerif.CL OsmoVerif.Tick OsmoVerif.Num OsmoVerif.Gen

/-! ## histories -/

/-- failed operations leave the pool unchanged. -/
theorem failed_op_noop {p : Pool} {op : Op} (h : apply p op = none) : step p op = p :=
  CLBook.failed_op_noop h

/-! ## the invariant holds at every point of every history -/

theorem init_inv {s : Int} (f : Int) (hs : 0 < s) : Inv (initPool s f) :=
  ⟨initPool_core s f, initPool_price f hs, initPool_active s f⟩

theorem step_preserves_inv {p : Pool} (op : Op) (hspf : SpfOK p.spf) (h : Inv p) : Inv (step p op) :=
  h.step op hspf

theorem reachable_inv {s f : Int} (hs : 0 < s) (hf : SpfOK f) (ops : List Op) : Inv (run (initPool s f) ops) :=
  (init_inv f hs).run ops hf

/-- the parameter sets the code authorises satisfy the two preconditions. -/
theorem authorized_parameters_ok :
    (∀ s ∈ CL.AuthorizedTickSpacing, 0 < s) ∧ (∀ f ∈ CL.AuthorizedSpreadFactors, SpfOK f) := by
  unfold SpfOK; decide

theorem reachable_inv_authorized {s f : Int} (hs : s ∈ CL.AuthorizedTickSpacing) (hf : f ∈ CL.AuthorizedSpreadFactors)
    (ops : List Op) : Inv (run (initPool s f) ops) :=
  reachable_inv (authorized_parameters_ok.1 s hs) (authorized_parameters_ok.2 f hf) ops

/-- clauses (b), (d), (e) need no assumption on the pool parameters. -/
theorem reachable_core (s f : Int) (ops : List Op) : InvCore (run (initPool s f) ops) :=
  run_core ops (initPool_core s f)

theorem step_preserves_core {p : Pool} (op : Op) (h : InvCore p) : InvCore (step p op) := step_core op h

/-- clause (c) needs only a positive spacing. -/
theorem reachable_price {s : Int} (f : Int) (hs : 0 < s) (ops : List Op) : InvPrice (run (initPool s f) ops) :=
  run_price ops (initPool_core s f) (initPool_price f hs)

/-! ## what the invariant says, clause by clause -/

/-- (a) the active liquidity is the total liquidity of the positions whose range contains the current tick. -/
theorem active_liquidity_eq {p : Pool} (h : Inv p) :
    p.liquidity = sumBy (fun q => if q.lower ≤ p.tick ∧ p.tick < q.upper then q.liq else 0) p.positions :=
  h.active

/-- (b) the tick store is strictly sorted; every stored tick carries exactly the gross and net liquidity of
the positions that use it as a boundary; a tick is stored iff some position uses it. -/
theorem ticks_exact {p : Pool} (h : InvCore p) :
    p.ticks.Pairwise (fun a b => a.tick < b.tick) ∧
    (∀ x ∈ p.ticks,
      x.gross = sumBy (fun q => (if q.lower = x.tick then q.liq else 0) + (if q.upper = x.tick then q.liq else 0))
        p.positions ∧
      x.net = sumBy (fun q => (if q.lower = x.tick then q.liq else 0) - (if q.upper = x.tick then q.liq else 0))
        p.positions) ∧
    (∀ t, (∃ x ∈ p.ticks, x.tick = t) ↔ ∃ q ∈ p.positions, q.lower = t ∨ q.upper = t) := by
  refine ⟨h.sorted, ?_, h.stored⟩
  intro x hx
  obtain ⟨e1, e2⟩ := of_mem_sorted h.sorted hx
  exact ⟨by rw [← e1, h.gross]; rfl, by rw [← e2, h.net]; rfl⟩

/-- side conditions of (b): positions have positive liquidity and a non-empty range on the spacing grid inside
the tick bounds (so a position with `lower = upper` cannot exist and a stored tick never has zero gross liquidity). -/
theorem positions_wellformed {p : Pool} (h : InvCore p) :
    ∀ q ∈ p.positions, 0 < q.liq ∧ q.lower < q.upper ∧ CL.MinInitializedTick ≤ q.lower ∧ q.upper ≤ CL.MaxTick ∧
      q.lower.tmod p.spacing = 0 ∧ q.upper.tmod p.spacing = 0 :=
  fun q hq => ⟨h.pos.liqPos q hq, h.pos.range q hq, (h.pos.bounds q hq).1, (h.pos.bounds q hq).2,
    (h.pos.aligned q hq).1, (h.pos.aligned q hq).2⟩

/-- (c) the current sqrt price agrees with the current tick about every position: below the range the price is
at most the lower boundary's, inside it lies between the two boundaries' prices, above it is at least the upper's. -/
theorem price_agrees_with_tick {p : Pool} (h : Inv p) :
    ∀ q ∈ p.positions, ∃ sL sU, tickToSqrtPrice q.lower = some sL ∧ tickToSqrtPrice q.upper = some sU ∧
      (p.tick < q.lower → p.sqrtPrice ≤ sL) ∧
      (q.lower ≤ p.tick ∧ p.tick < q.upper → sL ≤ p.sqrtPrice ∧ p.sqrtPrice ≤ sU) ∧
      (q.upper ≤ p.tick → sU ≤ p.sqrtPrice) := by
  intro q hq
  have hne : p.positions ≠ [] := fun e => by rw [e] at hq; cases hq
  have hag := (h.price.2 hne).1
  have hb := h.core.pos.bounds q hq
  have hr := h.core.pos.range q hq
  have hal := h.core.pos.aligned q hq
  obtain ⟨sL, hL⟩ := tts_total hb.1 (by omega)
  obtain ⟨sU, hU⟩ := tts_total (by omega) hb.2
  have aL := hag q.lower sL hal.1 hL
  have aU := hag q.upper sU hal.2 hU
  exact ⟨sL, sU, hL, hU, aL.2, fun hin => ⟨aL.1 hin.1, aU.2 hin.2⟩, aU.1⟩

/-- (d) a pool with no positions has no price, no current tick and no liquidity, and stores no tick. -/
theorem empty_pool_has_no_price {p : Pool} (h : Inv p) (he : p.positions = []) :
    p.sqrtPrice = 0 ∧ p.tick = 0 ∧ p.liquidity = 0 ∧ p.ticks = [] := by
  refine ⟨(h.core.empty he).1, (h.core.empty he).2, ?_, ?_⟩
  · have := h.active; unfold InvActive at this; rw [this, he]; rfl
  · cases ht : p.ticks with
    | nil => rfl
    | cons x xs =>
      obtain ⟨q, hq, _⟩ := (h.core.stored x.tick).mp ⟨x, by rw [ht]; exact List.mem_cons_self, rfl⟩
      rw [he] at hq; cases hq

/-- (e) position ids are pairwise distinct and below the id counter. -/
theorem ids_unique_and_bounded {p : Pool} (h : InvCore p) :
    p.positions.Pairwise (fun a b => a.id ≠ b.id) ∧ ∀ q ∈ p.positions, q.id < p.nextId :=
  ⟨h.pos.uniq, h.pos.idsLt⟩

/-- (e) a step never changes the range of a surviving position, and changes its owner only through a transfer
sent by the current owner. -/
theorem step_preserves_identity {p : Pool} {op : Op} (h : InvCore p) {q q' : Position}
    (hq : q ∈ p.positions) (hq' : q' ∈ (step p op).positions) (hid : q'.id = q.id) :
    q'.lower = q.lower ∧ q'.upper = q.upper ∧
    (q'.owner = q.owner ∨ ∃ newOwner, op = .transfer q.owner q.id newOwner ∧ q'.owner = newOwner) := by
  rcases step_cases p op with hs | ⟨p', ha, e⟩
  · rw [hs] at hq'
    have := mem_eq_of_id h.pos.uniq hq' hq hid
    subst this; exact ⟨rfl, rfl, Or.inl rfl⟩
  · rw [e] at hq'
    rcases apply_desc h ha q' hq' with ⟨q0, hq0, e0, e1, e2, e3⟩ | hge
    · have := mem_eq_of_id h.pos.uniq hq0 hq (by rw [e0, hid])
      subst this
      refine ⟨e1.symm, e2.symm, ?_⟩
      rcases e3 with e3 | ⟨n, e3, e4⟩
      · exact Or.inl e3.symm
      · exact Or.inr ⟨n, e3, e4⟩
    · have := h.pos.idsLt q hq; omega

/-- (e) positions that appear in a step get ids that were never used, and the id counter never decreases. -/
theorem step_new_ids_fresh {p : Pool} {op : Op} (h : InvCore p) :
    p.nextId ≤ (step p op).nextId ∧
    ∀ q' ∈ (step p op).positions, (∃ q ∈ p.positions, q.id = q'.id) ∨ p.nextId ≤ q'.id := by
  rcases step_cases p op with hs | ⟨p', ha, e⟩
  · rw [hs]; exact ⟨Nat.le_refl _, fun q' hq' => Or.inl ⟨q', hq', rfl⟩⟩
  · rw [e]
    refine ⟨(apply_inv h ha).2.2.2.1, fun q' hq' => ?_⟩
    rcases apply_desc h ha q' hq' with ⟨q0, hq0, e0, _⟩ | hge
    · exact Or.inl ⟨q0, hq0, e0⟩
    · exact Or.inr hge

/-! ## swaps -/

/-- a swap does not touch ticks, positions, ids: (b), (d), (e) carry over verbatim. -/
theorem swap_untouched {p p' : Pool} {og zfo : Bool} {spec ain aout fee : Int} (h : InvCore p)
    (hs : CLPool.swap p og zfo spec = some (p', ain, aout, fee)) :
    InvCore p' ∧ p'.ticks = p.ticks ∧ p'.positions = p.positions ∧ p'.nextId = p.nextId := by
  obtain ⟨c, ep, en, _, _, et⟩ := swap_core h hs
  exact ⟨c, et, ep, en⟩

/-- (a) across a swap: after crossing any number of initialised ticks in either direction and stopping inside
a bucket (where the tick is recomputed from the sqrt price), the pool liquidity is again the total liquidity
of the positions that contain the new current tick. -/
theorem swap_preserves_active_liquidity {p p' : Pool} {og zfo : Bool} {spec ain aout fee : Int} (h : Inv p)
    (hspf : SpfOK p.spf) (hs : CLPool.swap p og zfo spec = some (p', ain, aout, fee)) :
    p'.liquidity = sumBy (fun q => if q.lower ≤ p'.tick ∧ p'.tick < q.upper then q.liq else 0) p'.positions :=
  swap_active h.core h.price h.active (swapMono_of_inv og zfo spec h.core h.price h.active hspf) hs

/-- the same without any assumption on the spread factor, for a swap none of whose loop iterations moved the
sqrt price against the swap direction (`SwapMono`; `swapMono_of_inv` proves it from `SpfOK`). -/
theorem swap_preserves_active_liquidity_of_mono {p p' : Pool} {og zfo : Bool} {spec ain aout fee : Int} (h : Inv p)
    (hm : SwapMono p og zfo spec) (hs : CLPool.swap p og zfo spec = some (p', ain, aout, fee)) :
    p'.liquidity = sumBy (fun q => if q.lower ≤ p'.tick ∧ p'.tick < q.upper then q.liq else 0) p'.positions :=
  swap_active h.core h.price h.active hm hs

/-- the recomputed tick of a swap agrees with the new price about every tick of the grid (no assumption on
the spread factor). -/
theorem swap_preserves_price_agreement {p p' : Pool} {og zfo : Bool} {spec ain aout fee : Int} (h : InvPrice p)
    (hs : CLPool.swap p og zfo spec = some (p', ain, aout, fee)) : InvPrice p' :=
  swap_price h hs

/-! ## non-vacuity: a history with three positions, swaps in both directions that cross initialised ticks,
a partial withdrawal, a transfer, an add-to-position (new id 4) and a rejected withdrawal by a non-owner -/

example : SpfOK demoInit.spf ∧ 0 < demoInit.spacing := ⟨⟨by decide, by decide⟩, by decide⟩

/-- after the three creations: three positions, five stored ticks, price 1, tick 0, alice and bob active. -/
example :
    (run demoInit (demoOps.take 3)).positions =
      [⟨1, "alice", -1000, 1000, 2001499875062460257502969826⟩, ⟨2, "bob", 0, 2000, 500749875124843813046785138⟩,
       ⟨3, "carol", -3000, -1000, 6999299956243843517822717333⟩] ∧
    (run demoInit (demoOps.take 3)).ticks =
      [⟨-3000, 6999299956243843517822717333, 6999299956243843517822717333⟩,
       ⟨-1000, 9000799831306303775325687159, -4997800081181383260319747507⟩,
       ⟨0, 500749875124843813046785138, 500749875124843813046785138⟩,
       ⟨1000, 2001499875062460257502969826, -2001499875062460257502969826⟩,
       ⟨2000, 500749875124843813046785138, -500749875124843813046785138⟩] ∧
    (run demoInit (demoOps.take 3)).tick = 0 ∧
    (run demoInit (demoOps.take 3)).liquidity = 2001499875062460257502969826 + 500749875124843813046785138 := by
  decide +kernel

/-- the zero-for-one swap crosses ticks 0 and −1000 and stops at tick −1571: only carol is active. -/
example :
    (run demoInit (demoOps.take 4)).tick = -1571 ∧
    (run demoInit (demoOps.take 4)).liquidity = 6999299956243843517822717333 ∧
    (run demoInit (demoOps.take 4)).liquidity =
      sumBy (fun q => if q.lower ≤ -1571 ∧ -1571 < q.upper then q.liq else 0) (run demoInit (demoOps.take 4)).positions := by
  decide +kernel

/-- the one-for-zero swap crosses them back and stops at tick 479: alice and bob are active again. -/
example :
    (run demoInit (demoOps.take 5)).tick = 479 ∧
    (run demoInit (demoOps.take 5)).liquidity = 2001499875062460257502969826 + 500749875124843813046785138 := by
  decide +kernel

/-- the whole history: partial withdrawal (alice keeps id 1), transfer (id 2 now dave's), add-to-position
(carol's id 3 replaced by id 4), rejected withdrawal by eve; the components of the invariant, evaluated. -/
example :
    (run demoInit demoOps).positions =
      [⟨1, "alice", -1000, 1000, 2001498875062460257502969826⟩, ⟨2, "dave", 0, 2000, 500749875124843813046785138⟩,
       ⟨4, "carol", -3000, -1000, 7009288957181397231643152897⟩] ∧
    (run demoInit demoOps).nextId = 5 ∧
    (run demoInit demoOps).ticks.map (·.tick) = [-3000, -1000, 0, 1000, 2000] ∧
    (∀ x ∈ (run demoInit demoOps).ticks,
      x.gross = grossAt (run demoInit demoOps).positions x.tick ∧ x.net = netAt (run demoInit demoOps).positions x.tick) ∧
    (run demoInit demoOps).liquidity = activeAt (run demoInit demoOps).positions (run demoInit demoOps).tick ∧
    apply (run demoInit (demoOps.take 8)) (.withdraw "eve" 2 1) = none := by
  decide +kernel

/-- withdrawing everything empties the pool: no price, no tick, no liquidity, no stored ticks. -/
example :
    let p := run demoInit [.create "alice" (-1000) 1000 1000000 1000000, .withdraw "alice" 1 2001499875062460257502969826]
    p.positions = [] ∧ p.sqrtPrice = 0 ∧ p.tick = 0 ∧ p.liquidity = 0 ∧ p.ticks = [] ∧ p.nextId = 2 := by
  decide +kernel

end OsmoVerif.Props.C07
