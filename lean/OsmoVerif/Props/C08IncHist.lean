/-
C08, incentive clauses over HISTORIES — the uptime incentive accumulators along arbitrary message lists of the full model
(`CLIncP.IOp`: create / withdraw / add / transfer / swap / collect spread rewards / create incentive record / advance block time /
sync / collect incentives; failed messages are no-ops), by induction over the list (unbounded), mirroring Props/C08 for spread
rewards.  Model: `Model/CLInc.lean` (unchanged).  Helper lemmas: Proofs/CLIncHist1 … .

PROVED here (all histories from an empty pool with any tick spacing > 0, admissible spread factor, any scaling factors > 0):
 * `reachable_inv_inc`: every reachable state satisfies the incentive invariant `IncInv` (on top of C07's pool invariant and
   C08's accumulator invariant): six accumulators; in each, every live position has a record holding exactly its liquidity, no
   record for an id never handed out, total shares = the spread-reward accumulator's total shares (= Σ liquidity,
   `uptime_total_shares_eq_sum`); both boundary ticks of every live position carry six uptime trackers, trackers only on
   initialised ticks; all DecCoins in sdk normal form; incentive records have rate ≥ 0 and remaining ≥ 0; every live position has
   a join time, join times only for handed-out ids.
 * `uptime_growth_inside_history`: for a position alive (under the same id) at both ends of a history, per uptime and denom, the
   growth inside its range at the end = at the start + Σ over the messages in between of the growth of that accumulator's value
   (emission on sync + re-deposited forfeits, never negative: `history_events_nonneg`) IF the current tick before the message
   was inside [lower, upper) — the incentive analogue of `C08.growth_inside_history` (laws shared through `insideI`).
-/
import OsmoVerif.Proofs.CLIncHist9
import OsmoVerif.Props.C08Inc

namespace OsmoVerif.Props.C08IncHist
open OsmoVerif.Num OsmoVerif.CL OsmoVerif.CLPool OsmoVerif.CLFees OsmoVerif.CLInc OsmoVerif.CLFeesP OsmoVerif.CLIncP OsmoVerif.CLBook
open OsmoVerif.Accum (amt)

/-- the initial state of a history: an empty pool and an empty incentive layer with scaling factor `factor` and `auth`
authorised uptimes (what the engine's `reset` builds). -/
def initI (spacing spf scale factor : Int) (auth : Nat) : Full :=
  { fees := initF spacing spf scale, inc := { factor := factor, authorized := auth } }

theorem initI_inv {spacing spf scale factor : Int} {auth : Nat} (hs : 0 < spacing) (hspf : SpfOK spf) (hfac : 0 < factor) :
    IncInv (initI spacing spf scale factor auth) where
  fees := initF_full hs hspf
  inc :=
    { len := rfl
      accs := by
        intro a ha
        have : a = {} := by
          simp only [initI, List.mem_cons, List.mem_nil_iff, or_false, or_self] at ha
          exact ha
        subst this
        exact ⟨fun q hq => (by cases hq), fun id h => (by cases h), rfl, fun id r h => (by cases h), rfl⟩
      stored := fun q hq => by cases hq
      trOK := fun t tl ht => by cases ht
      trTicks := fun t ht => by cases ht
      recsOK := fun r hr => by cases hr
      factor := hfac
      joinIds := fun e he => by cases he
      joined := fun q hq => by cases hq }

/-! ## 1. the invariant of every reachable state -/

/-- **`IncInv` holds in every reachable state** (see `CLIncP.IncInv`, `CLIncP.IncPart`, `CLIncP.UAccOK` for the clauses). -/
theorem reachable_inv_inc {spacing spf scale factor : Int} {auth : Nat} (hs : 0 < spacing) (hspf : SpfOK spf) (hfac : 0 < factor)
    (ops : List IOp) : IncInv (runI (initI spacing spf scale factor auth) ops) :=
  runI_inv ops (initI_inv hs hspf hfac)

/-- every message preserves the invariant (the induction step, stated for an arbitrary state). -/
theorem inv_inc_preserved {s : Full} (hi : IncInv s) (op : IOp) : IncInv (stepI s op) := (stepI_facts op hi).inv

/-- in every reachable state each of the six uptime accumulators holds total shares = Σ liquidity of the live positions, and
every live position's record in it holds exactly the position's liquidity. -/
theorem uptime_total_shares_eq_sum {spacing spf scale factor : Int} {auth : Nat} (hs : 0 < spacing) (hspf : SpfOK spf)
    (hsc : 0 < scale) (hfac : 0 < factor) (ops : List IOp) :
    let s := runI (initI spacing spf scale factor auth) ops
    s.inc.accs.length = 6 ∧ ∀ a ∈ s.inc.accs, a.total = totalLiq s.fees.pool.positions ∧
      ∀ q ∈ s.fees.pool.positions, ∃ r, getURec a.recs q.id = some r ∧ r.shares = q.liq := by
  intro s
  have hi : IncInv s := reachable_inv_inc hs hspf hfac ops
  obtain ⟨fops, hf⟩ := runI_fees (initI spacing spf scale factor auth) ops
  have hts : s.fees.acc.totalShares = totalLiq s.fees.pool.positions := by
    show (runI (initI spacing spf scale factor auth) ops).fees.acc.totalShares = totalLiq (runI (initI spacing spf scale factor auth) ops).fees.pool.positions
    rw [hf]
    exact C08.total_shares_eq_sum hs hspf hsc fops
  exact ⟨hi.inc.len, fun a ha => ⟨by rw [(hi.inc.accs a ha).total, hts], (hi.inc.accs a ha).recs⟩⟩

/-- trackers exist exactly where they are needed: on both boundary ticks of every live position (six each), and only on
initialised ticks. -/
theorem uptime_trackers_on_initialised_ticks {s : Full} (hi : IncInv s) :
    (∀ q ∈ s.fees.pool.positions, ∃ tl tu, getTr s.inc.trackers q.lower = some tl ∧ getTr s.inc.trackers q.upper = some tu ∧
      tl.length = 6 ∧ tu.length = 6) ∧
    ∀ t, (getTr s.inc.trackers t).isSome → ∃ x ∈ s.fees.pool.ticks, x.tick = t := by
  refine ⟨fun q hq => ?_, hi.inc.trTicks⟩
  obtain ⟨s1, s2⟩ := hi.inc.stored q hq
  obtain ⟨tl, htl⟩ := Option.isSome_iff_exists.mp s1
  obtain ⟨tu, htu⟩ := Option.isSome_iff_exists.mp s2
  exact ⟨tl, tu, htl, htu, (hi.inc.trOK _ _ htl).1, (hi.inc.trOK _ _ htu).1⟩

/-! ## 2. growth inside over histories -/

/-- uptime growth inside `[l, u)` of accumulator `k`, denom `d`, is what `GetUptimeGrowthInsideRange` computes (whenever it
succeeds on a range with stored boundary ticks): `insU` is the specification-level reading of the state. -/
theorem insU_is_GetUptimeGrowthInsideRange {i : Inc} {cur l u : Int} {ins : List DC} {tl tu : List DC} (hlu : l < u)
    (hl : getTr i.trackers l = some tl) (hu : getTr i.trackers u = some tu) (h : insideAll i cur l u = some ins)
    {k : Nat} (hk : k < i.accs.length) (d : String) : ∃ v, ins[k]? = some v ∧ amt v d = insU i cur k d l u := by
  obtain ⟨_, _, _, hget⟩ := insideAll_spec hlu hl hu h
  obtain ⟨a, ha⟩ := getElem?_of_lt hk
  obtain ⟨v, _, _, hv, _, _, _, hamt⟩ := hget k a ha
  exact ⟨v, hv, hamt d⟩

/-- **uptime growth inside = growth while in range**, between any two moments of any history, for a position that exists at
both (under the same id), per uptime index `k` and denom `d`: the difference is the sum, over the messages in between, of
the growth of accumulator `k`'s value in `d` caused by the message (emission when the accumulators are brought to now,
re-deposit of forfeited incentives) if the current tick before the message was inside `[lower, upper)`. -/
theorem uptime_growth_inside_history {s : Full} (hi : IncInv s) (ops : List IOp) {q q' : Position}
    (hq : q ∈ s.fees.pool.positions) (hq' : q' ∈ (runI s ops).fees.pool.positions) (hid : q'.id = q.id) :
    q'.lower = q.lower ∧ q'.upper = q.upper ∧
    ∀ k d, insU (runI s ops).inc (runI s ops).fees.pool.tick k d q.lower q.upper =
      insU s.inc s.fees.pool.tick k d q.lower q.upper + evSumI k d q.lower q.upper (histI s ops) :=
  runI_inside ops hi q hq q' hq' hid

/-- the events of a history are growths of accumulator values: never negative (values only grow), and zero for the messages
that failed. -/
theorem history_events_nonneg {s : Full} (hi : IncInv s) (ops : List IOp) : ∀ e ∈ histI s ops, ∀ k d, 0 ≤ e.2 k d := by
  induction ops generalizing s with
  | nil => intro e he; cases he
  | cons op ops ih =>
    intro e he
    have sf := stepI_facts op hi
    simp only [histI, List.mem_cons] at he
    rcases he with rfl | he
    · exact sf.grow
    · exact ih sf.inv e he

/-- consequence: growth inside the range of a live position never decreases along a history. -/
theorem uptime_growth_inside_monotone {s : Full} (hi : IncInv s) (ops : List IOp) {q q' : Position}
    (hq : q ∈ s.fees.pool.positions) (hq' : q' ∈ (runI s ops).fees.pool.positions) (hid : q'.id = q.id) (k : Nat) (d : String) :
    insU s.inc s.fees.pool.tick k d q.lower q.upper ≤ insU (runI s ops).inc (runI s ops).fees.pool.tick k d q.lower q.upper := by
  obtain ⟨_, _, h⟩ := uptime_growth_inside_history hi ops hq hq' hid
  rw [h k d]
  have hnn := history_events_nonneg hi ops
  have : ∀ evs : List EvI, (∀ e ∈ evs, ∀ k d, 0 ≤ e.2 k d) → 0 ≤ evSumI k d q.lower q.upper evs := by
    intro evs
    induction evs with
    | nil => intro _; exact Int.le_refl _
    | cons e es ih =>
      intro h
      simp only [evSumI]
      have h1 := h e List.mem_cons_self k d
      have h2 := ih (fun x hx => h x (List.mem_cons_of_mem _ hx))
      split <;> omega
  have := this _ hnn
  omega

/-- a range the price never entered (before any message of the history) sees no growth at all. -/
theorem uptime_growth_inside_never_in_range {s : Full} (hi : IncInv s) (ops : List IOp) {q q' : Position}
    (hq : q ∈ s.fees.pool.positions) (hq' : q' ∈ (runI s ops).fees.pool.positions) (hid : q'.id = q.id)
    (hnever : ∀ e ∈ histI s ops, ¬ (q.lower ≤ e.1 ∧ e.1 < q.upper)) (k : Nat) (d : String) :
    insU (runI s ops).inc (runI s ops).fees.pool.tick k d q.lower q.upper = insU s.inc s.fees.pool.tick k d q.lower q.upper := by
  obtain ⟨_, _, h⟩ := uptime_growth_inside_history hi ops hq hq' hid
  rw [h k d]
  have : ∀ evs : List EvI, (∀ e ∈ evs, ¬ (q.lower ≤ e.1 ∧ e.1 < q.upper)) → evSumI k d q.lower q.upper evs = 0 := by
    intro evs
    induction evs with
    | nil => intro _; rfl
    | cons e es ih =>
      intro h
      simp only [evSumI]
      rw [if_neg (h e List.mem_cons_self), ih (fun x hx => h x (List.mem_cons_of_mem _ hx))]; rfl
  rw [this _ hnever]; omega

/-! non-vacuity: the history of Props/C08Inc's demo as a message list — two positions, two incentive records, time passing, a swap
that crosses tick 0 (bob leaves the range), more time, a sync -/

def demo0 : Full := initI 100 2000000000000000 P18 P18 4

def demoPre : List IOp :=
  [.fee (.create "alice" (-1000) 1000 1000000 1000000), .incentive 1 "inc0" 1000000 (1000 * P18) 0 1,
   .incentive 2 "inc1" 500000 (10 * P18) 0 0, .advance 30000000000, .fee (.create "bob" 0 2000 500000 500000)]

def demoOps : List IOp :=
  [.advance 20000000000, .fee (.swap true true 50000), .advance 5000000000, .sync]

example : SpfOK demo0.fees.pool.spf ∧ 0 < demo0.fees.pool.spacing ∧ 0 < demo0.inc.factor := ⟨⟨by decide, by decide⟩, by decide, by decide⟩

/-- the invariant on the demo states (instances of `reachable_inv_inc`). -/
example : IncInv (runI demo0 demoPre) ∧ IncInv (runI (runI demo0 demoPre) demoOps) :=
  ⟨reachable_inv_inc (by decide) ⟨by decide, by decide⟩ (by decide) demoPre,
   runI_inv demoOps (reachable_inv_inc (by decide) ⟨by decide, by decide⟩ (by decide) demoPre)⟩

/-- both positions are alive before and after `demoOps`; the swap moved the tick from 0 to −499 (out of bob's range);
accumulator 0 (1 ns uptime) grew in "inc1" in both syncs, bob's range [0, 2000) was credited only by the first. -/
example :
    ((runI demo0 demoPre).fees.pool.positions.map (·.id), (runI (runI demo0 demoPre) demoOps).fees.pool.positions.map (·.id)) = ([1, 2], [1, 2]) ∧
    ((runI demo0 demoPre).fees.pool.tick, (runI (runI demo0 demoPre) demoOps).fees.pool.tick) = (0, -499) ∧
    (histI (runI demo0 demoPre) demoOps).map (fun e => (e.1, e.2 0 "inc1")) =
      [(0, 0), (0, 79928072721), (-499, 0), (-499, 24981265611)] ∧
    evSumI 0 "inc1" 0 2000 (histI (runI demo0 demoPre) demoOps) = 79928072721 ∧
    evSumI 0 "inc1" (-1000) 1000 (histI (runI demo0 demoPre) demoOps) = 79928072721 + 24981265611 ∧
    (insU (runI demo0 demoPre).inc 0 0 "inc1" 0 2000, insU (runI (runI demo0 demoPre) demoOps).inc (-499) 0 "inc1" 0 2000) =
      (0, 79928072721) ∧
    (insU (runI demo0 demoPre).inc 0 0 "inc1" (-1000) 1000, insU (runI (runI demo0 demoPre) demoOps).inc (-499) 0 "inc1" (-1000) 1000) =
      (149887593668, 149887593668 + 79928072721 + 24981265611) := by
  decide +kernel

end OsmoVerif.Props.C08IncHist
