/-
C08, incentive clauses over HISTORIES — the uptime incentive accumulators along arbitrary message lists of the full model
(`CLIncP.IOp`: create / withdraw / add / transfer / swap / collect spread rewards / create incentive record / advance block time /
sync / collect incentives; failed messages are no-ops), by induction over the list (unbounded), mirroring Props/C08 for spread
rewards.  Model: `Model/CLInc.lean` (unchanged, no ghost state added: the trace-like quantities below — `histI`, `evolveRec`,
`slotOf` — are NEW spec-level definitions computed from the unchanged model functions).  Helper lemmas: Proofs/CLIncHist1 … 25.

PROVED here (all histories from an empty pool with any tick spacing > 0, admissible spread factor, any scaling factors > 0):
 1. `reachable_inv_inc`: every reachable state satisfies the incentive invariant `IncInv` (on top of C07's pool invariant and
   C08's accumulator invariant): six accumulators; in each, every live position has a record holding exactly its liquidity, no
   record for an id never handed out, total shares = the spread-reward accumulator's total shares (= Σ liquidity,
   `uptime_total_shares_eq_sum`); both boundary ticks of every live position carry six uptime trackers, trackers only on
   initialised ticks (`uptime_trackers_on_initialised_ticks`); all DecCoins in sdk normal form; incentive records have rate ≥ 0 and
   remaining ≥ 0 (> 0: `reachable_records_positive`); every live position has a join time, join times only for handed-out ids.
   Clocks (`reachable_time_inv`): `LastLiquidityUpdate ≤ now`, join times ≤ now — for histories whose time advances are ≥ 0
   (`time_inv_needs_monotone_time_witness`: false otherwise).
 2. `uptime_growth_inside_history`: for a position alive (under the same id) at both ends of a history, per uptime and denom, the
   growth inside its range at the end = at the start + Σ over the messages in between of the growth of that accumulator's value
   (emission on sync + re-deposited forfeits, never negative: `history_events_nonneg`) IF the current tick before the message
   was inside [lower, upper) — the incentive analogue of `C08.growth_inside_history` (laws shared through `insideI`); hence
   monotone, and constant for a range never entered.
 3a. claims over histories: `incentive_claim_split` (claimable = Σ accumulators, collected iff the age has met the uptime, else
   forfeited), `join_time_fixed`, `unmet_uptime_never_collected_history` (the split by age against the join time set at creation,
   along ANY history), `same_block_claim_collects_nothing`, `twins_equal_incentives`, `twins_created_together_incentives`,
   `twins_created_together_earn_equal`, `create_gives_fresh_uptime_records`, `never_in_range_earns_no_incentives`,
   `second_incentive_claim_pays_nothing`.
 3b. the SUM bound: `incentive_sum_invariant` (Σ exact entitlements + Σ records' remaining × factor ≤ balance × 10¹⁸ × factor + 3·10¹⁸ per
   message), `total_claimable_incentives_le_balance`, `incentive_solvency` (Σ claimable ≤ incentive address balance for histories
   with 3·(#messages + #positions) < factor ≥ 10¹⁸): the clause of C01 for incentives.
 4. emission accounting: `sync_elapsed_exact`, `record_emission_exact`, `records_after_message`, `emission_accounting` (remaining
   after any history = max(initial − Σ slots, 0), emitted = min(Σ slots, initial), record present while positive),
   `emission_slot_is_rate_times_elapsed` (slot = ⌊ns·10⁹·rate/10¹⁸⌋: rate × elapsed, rounded down by < 10⁻¹⁸ token, only for
   successful syncing messages with ≥ 1 unit of liquidity after the record's start), `idle_time_emits_nothing`,
   `slot_zero_or_full_partial` (the converse up to the three silent Dec-overflow skips of the code).
NOT PROVED: the dust bound in the other direction (how much of the balance can stay unclaimable: forfeits of `collectIncentives` stay in
the address by design); the link between a ghost "total paid out" and the balance is by construction of `bal` (compared with the bank
balance by the engine after every op); the converse of the slot characterisation beyond `slot_zero_or_full_partial`.
-/
import OsmoVerif.Proofs.CLIncHist25
import OsmoVerif.Props.C08Inc

namespace OsmoVerif.Props.C08IncHist
open OsmoVerif.Num OsmoVerif.CL OsmoVerif.CLPool OsmoVerif.CLFees OsmoVerif.CLInc OsmoVerif.CLFeesP OsmoVerif.CLIncP OsmoVerif.CLBook
open OsmoVerif.Accum (amt)

/-- the initial state of a history: an empty pool and an empty incentive layer with scaling factor `factor` and the bit mask `auth` of the
authorised uptimes (what the engine's `reset` builds). -/
def initI (spacing spf scale factor : Int) (auth : Nat) : Full :=
  { fees := initF spacing spf scale, inc := { factor := factor, authorized := auth } }

theorem initI_inv {spacing spf scale factor : Int} {auth : Nat} (hs : 0 < spacing) (hspf : SpfOK spf) (hfac : 0 < factor) :
    IncInv (initI spacing spf scale factor auth) where
  fees := initF_full hs hspf
  inc :=
    { len := rfl
      accs := by
        intro a ha
        have : a = {} := by
          simp only [initI, List.mem_cons, List.mem_nil_iff, or_false, or_self] at ha
          exact ha
        subst this
        exact ⟨fun q hq => (by cases hq), fun id h => (by cases h), rfl, fun id r h => (by cases h), rfl⟩
      stored := fun q hq => by cases hq
      trOK := fun t tl ht => by cases ht
      trTicks := fun t ht => by cases ht
      recsOK := fun r hr => by cases hr
      factor := hfac
      joinIds := fun e he => by cases he
      joined := fun q hq => by cases hq }

/-! ## 1. the invariant of every reachable state -/

/-- **`IncInv` holds in every reachable state** (see `CLIncP.IncInv`, `CLIncP.IncPart`, `CLIncP.UAccOK` for the clauses). -/
theorem reachable_inv_inc {spacing spf scale factor : Int} {auth : Nat} (hs : 0 < spacing) (hspf : SpfOK spf) (hfac : 0 < factor)
    (ops : List IOp) : IncInv (runI (initI spacing spf scale factor auth) ops) :=
  runI_inv ops (initI_inv hs hspf hfac)

/-- every message preserves the invariant (the induction step, stated for an arbitrary state). -/
theorem inv_inc_preserved {s : Full} (hi : IncInv s) (op : IOp) : IncInv (stepI s op) := (stepI_facts op hi).inv

/-- in every reachable state each of the six uptime accumulators holds total shares = Σ liquidity of the live positions, and
every live position's record in it holds exactly the position's liquidity. -/
theorem uptime_total_shares_eq_sum {spacing spf scale factor : Int} {auth : Nat} (hs : 0 < spacing) (hspf : SpfOK spf)
    (hsc : 0 < scale) (hfac : 0 < factor) (ops : List IOp) :
    let s := runI (initI spacing spf scale factor auth) ops
    s.inc.accs.length = 6 ∧ ∀ a ∈ s.inc.accs, a.total = totalLiq s.fees.pool.positions ∧
      ∀ q ∈ s.fees.pool.positions, ∃ r, getURec a.recs q.id = some r ∧ r.shares = q.liq := by
  intro s
  have hi : IncInv s := reachable_inv_inc hs hspf hfac ops
  obtain ⟨fops, hf⟩ := runI_fees (initI spacing spf scale factor auth) ops
  have hts : s.fees.acc.totalShares = totalLiq s.fees.pool.positions := by
    show (runI (initI spacing spf scale factor auth) ops).fees.acc.totalShares = totalLiq (runI (initI spacing spf scale factor auth) ops).fees.pool.positions
    rw [hf]
    exact C08.total_shares_eq_sum hs hspf hsc fops
  exact ⟨hi.inc.len, fun a ha => ⟨by rw [(hi.inc.accs a ha).total, hts], (hi.inc.accs a ha).recs⟩⟩

/-- trackers exist exactly where they are needed: on both boundary ticks of every live position (six each), and only on
initialised ticks. -/
theorem uptime_trackers_on_initialised_ticks {s : Full} (hi : IncInv s) :
    (∀ q ∈ s.fees.pool.positions, ∃ tl tu, getTr s.inc.trackers q.lower = some tl ∧ getTr s.inc.trackers q.upper = some tu ∧
      tl.length = 6 ∧ tu.length = 6) ∧
    ∀ t, (getTr s.inc.trackers t).isSome → ∃ x ∈ s.fees.pool.ticks, x.tick = t := by
  refine ⟨fun q hq => ?_, hi.inc.trTicks⟩
  obtain ⟨s1, s2⟩ := hi.inc.stored q hq
  obtain ⟨tl, htl⟩ := Option.isSome_iff_exists.mp s1
  obtain ⟨tu, htu⟩ := Option.isSome_iff_exists.mp s2
  exact ⟨tl, tu, htl, htu, (hi.inc.trOK _ _ htl).1, (hi.inc.trOK _ _ htu).1⟩

/-! ## 2. growth inside over histories -/

/-- uptime growth inside `[l, u)` of accumulator `k`, denom `d`, is what `GetUptimeGrowthInsideRange` computes (whenever it
succeeds on a range with stored boundary ticks): `insU` is the specification-level reading of the state. -/
theorem insU_is_GetUptimeGrowthInsideRange {i : Inc} {cur l u : Int} {ins : List DC} {tl tu : List DC} (hlu : l < u)
    (hl : getTr i.trackers l = some tl) (hu : getTr i.trackers u = some tu) (h : insideAll i cur l u = some ins)
    {k : Nat} (hk : k < i.accs.length) (d : String) : ∃ v, ins[k]? = some v ∧ amt v d = insU i cur k d l u := by
  obtain ⟨_, _, _, hget⟩ := insideAll_spec hlu hl hu h
  obtain ⟨a, ha⟩ := getElem?_of_lt hk
  obtain ⟨v, _, _, hv, _, _, _, hamt⟩ := hget k a ha
  exact ⟨v, hv, hamt d⟩

/-- **uptime growth inside = growth while in range**, between any two moments of any history, for a position that exists at
both (under the same id), per uptime index `k` and denom `d`: the difference is the sum, over the messages in between, of
the growth of accumulator `k`'s value in `d` caused by the message (emission when the accumulators are brought to now,
re-deposit of forfeited incentives) if the current tick before the message was inside `[lower, upper)`. -/
theorem uptime_growth_inside_history {s : Full} (hi : IncInv s) (ops : List IOp) {q q' : Position}
    (hq : q ∈ s.fees.pool.positions) (hq' : q' ∈ (runI s ops).fees.pool.positions) (hid : q'.id = q.id) :
    q'.lower = q.lower ∧ q'.upper = q.upper ∧
    ∀ k d, insU (runI s ops).inc (runI s ops).fees.pool.tick k d q.lower q.upper =
      insU s.inc s.fees.pool.tick k d q.lower q.upper + evSumI k d q.lower q.upper (histI s ops) :=
  runI_inside ops hi q hq q' hq' hid

/-- the events of a history are growths of accumulator values: never negative (values only grow), and zero for the messages
that failed. -/
theorem history_events_nonneg {s : Full} (hi : IncInv s) (ops : List IOp) : ∀ e ∈ histI s ops, ∀ k d, 0 ≤ e.2 k d := by
  induction ops generalizing s with
  | nil => intro e he; cases he
  | cons op ops ih =>
    intro e he
    have sf := stepI_facts op hi
    simp only [histI, List.mem_cons] at he
    rcases he with rfl | he
    · exact sf.grow
    · exact ih sf.inv e he

/-- consequence: growth inside the range of a live position never decreases along a history. -/
theorem uptime_growth_inside_monotone {s : Full} (hi : IncInv s) (ops : List IOp) {q q' : Position}
    (hq : q ∈ s.fees.pool.positions) (hq' : q' ∈ (runI s ops).fees.pool.positions) (hid : q'.id = q.id) (k : Nat) (d : String) :
    insU s.inc s.fees.pool.tick k d q.lower q.upper ≤ insU (runI s ops).inc (runI s ops).fees.pool.tick k d q.lower q.upper := by
  obtain ⟨_, _, h⟩ := uptime_growth_inside_history hi ops hq hq' hid
  rw [h k d]
  have hnn := history_events_nonneg hi ops
  have : ∀ evs : List EvI, (∀ e ∈ evs, ∀ k d, 0 ≤ e.2 k d) → 0 ≤ evSumI k d q.lower q.upper evs := by
    intro evs
    induction evs with
    | nil => intro _; exact Int.le_refl _
    | cons e es ih =>
      intro h
      simp only [evSumI]
      have h1 := h e List.mem_cons_self k d
      have h2 := ih (fun x hx => h x (List.mem_cons_of_mem _ hx))
      split <;> omega
  have := this _ hnn
  omega

/-- a range the price never entered (before any message of the history) sees no growth at all. -/
theorem uptime_growth_inside_never_in_range {s : Full} (hi : IncInv s) (ops : List IOp) {q q' : Position}
    (hq : q ∈ s.fees.pool.positions) (hq' : q' ∈ (runI s ops).fees.pool.positions) (hid : q'.id = q.id)
    (hnever : ∀ e ∈ histI s ops, ¬ (q.lower ≤ e.1 ∧ e.1 < q.upper)) (k : Nat) (d : String) :
    insU (runI s ops).inc (runI s ops).fees.pool.tick k d q.lower q.upper = insU s.inc s.fees.pool.tick k d q.lower q.upper := by
  obtain ⟨_, _, h⟩ := uptime_growth_inside_history hi ops hq hq' hid
  rw [h k d]
  have : ∀ evs : List EvI, (∀ e ∈ evs, ¬ (q.lower ≤ e.1 ∧ e.1 < q.upper)) → evSumI k d q.lower q.upper evs = 0 := by
    intro evs
    induction evs with
    | nil => intro _; rfl
    | cons e es ih =>
      intro h
      simp only [evSumI]
      rw [if_neg (h e List.mem_cons_self), ih (fun x hx => h x (List.mem_cons_of_mem _ hx))]; rfl
  rw [this _ hnever]; omega

/-! ## 3a. what a position can claim, over histories -/

/-- the join time of a position is fixed when it is created and never changes, whatever happens afterwards (claims, partial
withdrawals, other positions' messages, time). -/
theorem join_time_fixed {s : Full} (hi : IncInv s) (ops : List IOp) {q : Position} (hq : q ∈ s.fees.pool.positions) :
    joinOf (runI s ops).inc q.id = joinOf s.inc q.id :=
  runI_join ops hi (hi.fees.pool.core.pos.idsLt q hq)

/-- creation produces, in each of the six accumulators, a fresh record: shares = liquidity, snapshot = uptime growth inside
now, nothing unclaimed; the join time is the block time. -/
theorem create_gives_fresh_uptime_records {s s' : Full} {owner : String} {l u a0 a1 : Int} {id : Nat} {x0 x1 liq lo up : Int}
    (hi : IncInv s) (h : CLInc.createPosition s owner l u a0 a1 = some (s', id, x0, x1, liq, lo, up)) :
    (∀ k, k < 6 → ∃ ins, getURec (accAt s'.inc k).recs id = some ⟨id, liq, ins, []⟩ ∧
      ∀ d, amt ins d = insU s'.inc s'.fees.pool.tick k d lo up) ∧
    joinOf s'.inc id = some s'.inc.now := by
  have hap : applyI s (.fee (.create owner l u a0 a1)) = some s' := by simp only [applyI, h, Option.map_some]
  have hf' := (applyI_facts hi hap).inv.fees
  unfold CLInc.createPosition at h
  obtain ⟨_, i1, hsync, _, en, _, _, ej, _, _, _, hnew, _⟩ := createMinI_part hi.fees hf'.pool.core hi.inc h
  obtain ⟨_, eid, _⟩ := createMin_facts hi.fees.pool.core hi.fees.acc (createMinI_fees h)
  refine ⟨hnew, ?_⟩
  unfold joinOf
  rw [ej, find_join_append, en]
  cases hg : List.find? (fun e => decide (e.1 = id)) i1.join with
  | some v =>
    exfalso
    obtain ⟨hp1, _, _, _, j1, _⟩ := sync_part hi.inc hsync
    have hm := List.mem_of_find?_eq_some hg
    have he := List.find?_some hg
    have := hp1.joinIds v hm
    simp only [decide_eq_true_eq] at he
    omega
  | none => simp

/-- **what `GetClaimableIncentives` reports**, on any state satisfying the invariant: the accumulators are brought to now; per
accumulator `j` the position's part is `claimPart` (scale-down of the whole coins of `unclaimed + round₁₈((growth inside −
snapshot) × liquidity)`, see `CChain`); the parts of the accumulators whose uptime the position's age (now − join time) has met
are COLLECTED, the others FORFEITED. -/
theorem incentive_claim_split {s : Full} (hi : IncInv s) {id : Nat} {coll forf : Coins}
    (h : claimableIncentives s id = some (coll, forf)) :
    ∃ (pos : Position) (i1 : Inc) (T : Int), pos ∈ s.fees.pool.positions ∧ pos.id = id ∧
      sync s.inc s.fees.pool.liquidity = some i1 ∧ joinOf s.inc id = some T ∧ 0 ≤ s.inc.now - T ∧
      ∀ d, amt coll d = sumN six (fun j => if s.inc.now - T < upAt j then 0 else claimPart i1 s.fees.pool.tick pos.lower pos.upper id j d) ∧
        amt forf d = sumN six (fun j => if s.inc.now - T < upAt j then claimPart i1 s.fees.pool.tick pos.lower pos.upper id j d else 0) := by
  obtain ⟨pos, i1, i2, byUp, T, hmem, hid, hsync, _, _, hj, hage, _, hsplit, _⟩ := claimableI_spec hi h
  exact ⟨pos, i1, T, hmem, hid, hsync, hj, hage, hsplit⟩

/-- **unmet uptimes are never collected, along ANY history**: take a position with join time `T` at some moment; after any
history (claims and partial withdrawals of the position itself included) what it can claim splits by its age `now − T` against
the six uptimes — the part of every accumulator `j` with `now − T < uptime j` is forfeited, never collected. -/
theorem unmet_uptime_never_collected_history {s : Full} (hi : IncInv s) {q : Position} (hq : q ∈ s.fees.pool.positions)
    {T : Int} (hT : joinOf s.inc q.id = some T) (ops : List IOp) {coll forf : Coins}
    (hc : claimableIncentives (runI s ops) q.id = some (coll, forf)) :
    ∃ i1, sync (runI s ops).inc (runI s ops).fees.pool.liquidity = some i1 ∧ 0 ≤ (runI s ops).inc.now - T ∧
      ∀ d, amt coll d = sumN six (fun j => if (runI s ops).inc.now - T < upAt j then 0
              else claimPart i1 (runI s ops).fees.pool.tick q.lower q.upper q.id j d) ∧
        amt forf d = sumN six (fun j => if (runI s ops).inc.now - T < upAt j
              then claimPart i1 (runI s ops).fees.pool.tick q.lower q.upper q.id j d else 0) := by
  have hin := runI_inv ops hi
  obtain ⟨pos, i1, T', hmem, hid, hsync, hj, hage, hsplit⟩ := incentive_claim_split hin hc
  rw [join_time_fixed hi ops hq, hT] at hj
  injection hj with hj; subst hj
  obtain ⟨e1, e2, _⟩ := runI_inside ops hi q hq pos hmem hid
  rw [e1, e2] at hsplit
  exact ⟨i1, hsync, hage, hsplit⟩

/-- corollary: a position younger than the shortest uptime (1 ns, i.e. claimed in the block it joined) collects nothing. -/
theorem same_block_claim_collects_nothing {s : Full} (hi : IncInv s) {q : Position} (hq : q ∈ s.fees.pool.positions)
    {T : Int} (hT : joinOf s.inc q.id = some T) (ops : List IOp) {coll forf : Coins}
    (hc : claimableIncentives (runI s ops) q.id = some (coll, forf)) (hnow : (runI s ops).inc.now = T) (d : String) :
    amt coll d = 0 := by
  obtain ⟨i1, _, _, hsplit⟩ := unmet_uptime_never_collected_history hi hq hT ops hc
  rw [(hsplit d).1]
  have : ∀ j ∈ six, (if (runI s ops).inc.now - T < upAt j then 0
      else claimPart i1 (runI s ops).fees.pool.tick q.lower q.upper q.id j d) = (fun _ => (0 : Int)) j := by
    intro j hj
    rw [if_pos]
    rw [hnow, Int.sub_self]
    simp only [six, List.mem_cons, List.mem_nil_iff, or_false] at hj
    rcases hj with rfl | rfl | rfl | rfl | rfl | rfl <;> decide
  rw [sumN_congr this, sumN_zero]

/-- **twins**: two positions with the same range whose six records agree (same liquidity, snapshot, unclaimed — the case for
positions created in the same block with the same resulting liquidity) and the same join time can claim exactly the same
incentives (collected AND forfeited) at every later moment of every history that addresses neither. -/
theorem twins_equal_incentives {s : Full} (hi : IncInv s) {q1 q2 : Position}
    (h1 : q1 ∈ s.fees.pool.positions) (h2 : q2 ∈ s.fees.pool.positions)
    (hrange : q1.lower = q2.lower ∧ q1.upper = q2.upper)
    (hsame : ∀ k, k < 6 → RecAgree (accAt s.inc k) q1.id q2.id) (hjoin : joinOf s.inc q1.id = joinOf s.inc q2.id)
    (ops : List IOp) (ht : ∀ op ∈ ops, ¬ touchesI op q1.id ∧ ¬ touchesI op q2.id)
    {c1 c2 : Coins × Coins} (hc1 : claimableIncentives (runI s ops) q1.id = some c1)
    (hc2 : claimableIncentives (runI s ops) q2.id = some c2) : c1 = c2 := by
  have hin := runI_inv ops hi
  have lt1 := hi.fees.pool.core.pos.idsLt q1 h1
  have lt2 := hi.fees.pool.core.pos.idsLt q2 h2
  have fr1 := runI_frame ops hi lt1 (fun op ho => (ht op ho).1)
  have fr2 := runI_frame ops hi lt2 (fun op ho => (ht op ho).2)
  unfold claimableIncentives at hc1 hc2
  simp only [Option.bind_eq_some_iff, Option.map_eq_some_iff] at hc1 hc2
  obtain ⟨p1, hf1, i1, hs1, ⟨i2, x1, y1, z1⟩, hcl1, e1⟩ := hc1
  obtain ⟨p2, hf2, i1', hs2, ⟨i2', x2, y2, z2⟩, hcl2, e2⟩ := hc2
  rw [hs1] at hs2; injection hs2 with hs2; subst hs2
  obtain ⟨m1, id1⟩ := find_id hf1
  obtain ⟨m2, id2⟩ := find_id hf2
  obtain ⟨a1, a2, _⟩ := runI_inside ops hi q1 h1 p1 m1 id1
  obtain ⟨b1, b2, _⟩ := runI_inside ops hi q2 h2 p2 m2 id2
  rw [a1, a2] at hcl1
  rw [b1, b2, ← hrange.1, ← hrange.2] at hcl2
  obtain ⟨hp1, _⟩ := sync_part hin.inc hs1
  obtain ⟨r1, j1⟩ := sync_frame hin.inc hs1 q1.id
  obtain ⟨r2, j2⟩ := sync_frame hin.inc hs1 q2.id
  have hag : ∀ a ∈ i1.accs, RecAgree a q1.id q2.id := by
    intro a ha
    obtain ⟨k, hk⟩ := getElem?_of_mem ha
    have hk6 : k < 6 := by have := lt_of_getElem? hk; rw [hp1.len] at this; exact this
    obtain ⟨u1, u2, g1, g2, g3⟩ := hsame k hk6
    have e1 := r1 k; have e2 := r2 k
    rw [accAt_of hk, fr1.recs k] at e1
    rw [accAt_of hk, fr2.recs k] at e2
    exact ⟨u1, u2, by rw [e1]; exact g1, by rw [e2]; exact g2, g3⟩
  have hj : joinOf i1 q1.id = joinOf i1 q2.id := by rw [j1, j2, fr1.join, fr2.join, hjoin]
  obtain ⟨g1, g2, _⟩ := claimAll_congr hag hj hcl1 hcl2
  simp only at e1 e2
  rw [← e1, ← e2, g1, g2]

/-- **two positions created one after the other in the same block with the same range and resulting liquidity ARE twins**:
identical records (liquidity, snapshot, unclaimed — as lists) in all six uptime accumulators and the same join time, i.e. the
hypotheses of `twins_equal_incentives`. -/
theorem twins_created_together_incentives {s s1 s2 : Full} {o1 o2 : String} {l1 u1 a0 a1 l2 u2 b0 b1 : Int} {id1 id2 : Nat}
    {x0 x1 y0 y1 liq lo up : Int} (hi : IncInv s)
    (h1 : CLInc.createPosition s o1 l1 u1 a0 a1 = some (s1, id1, x0, x1, liq, lo, up))
    (h2 : CLInc.createPosition s1 o2 l2 u2 b0 b1 = some (s2, id2, y0, y1, liq, lo, up)) :
    (∀ k, k < 6 → RecAgree (accAt s2.inc k) id1 id2) ∧ joinOf s2.inc id1 = joinOf s2.inc id2 ∧ id1 ≠ id2 := by
  have hap1 : applyI s (.fee (.create o1 l1 u1 a0 a1)) = some s1 := by simp only [applyI, h1, Option.map_some]
  have hi1 := (applyI_facts hi hap1).inv
  have hap2 : applyI s1 (.fee (.create o2 l2 u2 b0 b1)) = some s2 := by simp only [applyI, h2, Option.map_some]
  have hi2 := (applyI_facts hi1 hap2).inv
  exact twins_created hi hi1 hi2 h1 h2

/-- **twins created together earn equal incentives along any history** that addresses neither of them (combination of the two
theorems above). -/
theorem twins_created_together_earn_equal {s s1 s2 : Full} {o1 o2 : String} {l1 u1 a0 a1 l2 u2 b0 b1 : Int} {id1 id2 : Nat}
    {x0 x1 y0 y1 liq lo up : Int} (hi : IncInv s)
    (h1 : CLInc.createPosition s o1 l1 u1 a0 a1 = some (s1, id1, x0, x1, liq, lo, up))
    (h2 : CLInc.createPosition s1 o2 l2 u2 b0 b1 = some (s2, id2, y0, y1, liq, lo, up))
    (ops : List IOp) (ht : ∀ op ∈ ops, ¬ touchesI op id1 ∧ ¬ touchesI op id2)
    {c1 c2 : Coins × Coins} (hc1 : claimableIncentives (runI s2 ops) id1 = some c1)
    (hc2 : claimableIncentives (runI s2 ops) id2 = some c2) : c1 = c2 := by
  have hap1 : applyI s (.fee (.create o1 l1 u1 a0 a1)) = some s1 := by simp only [applyI, h1, Option.map_some]
  have hi1 := (applyI_facts hi hap1).inv
  have hap2 : applyI s1 (.fee (.create o2 l2 u2 b0 b1)) = some s2 := by simp only [applyI, h2, Option.map_some]
  have hi2 := (applyI_facts hi1 hap2).inv
  obtain ⟨hag, hj, _⟩ := twins_created hi hi1 hi2 h1 h2
  obtain ⟨_, eid1, _, _, _, epos1, _⟩ := createMin_facts hi.fees.pool.core hi.fees.acc (createMinI_fees h1)
  obtain ⟨_, eid2, _, _, _, epos2, _⟩ := createMin_facts hi1.fees.pool.core hi1.fees.acc (createMinI_fees h2)
  have m1 : (⟨id1, o1, lo, up, liq⟩ : Position) ∈ s2.fees.pool.positions := by rw [epos2, epos1]; simp
  have m2 : (⟨id2, o2, lo, up, liq⟩ : Position) ∈ s2.fees.pool.positions := by rw [epos2]; simp
  exact twins_equal_incentives hi2 m1 m2 ⟨rfl, rfl⟩ hag hj ops ht hc1 hc2

/-- **a position whose range the price never entered earns no incentives, along any history**: fresh records (what creation
produces, `create_gives_fresh_uptime_records`), no message of the history happened while the tick was in range, and the tick
is out of range at the end (the query brings the accumulators to now at that tick) ⇒ nothing claimable — neither collected
nor forfeited — whatever else happened (emissions, swaps crossing other ticks, other positions, time). -/
theorem never_in_range_earns_no_incentives {s : Full} (hi : IncInv s) {q : Position} (hq : q ∈ s.fees.pool.positions)
    (hfresh : ∀ k, k < 6 → ∃ r, getURec (accAt s.inc k).recs q.id = some r ∧
      ∀ d, amt r.unclaimed d = 0 ∧ amt r.snap d = insU s.inc s.fees.pool.tick k d q.lower q.upper)
    (ops : List IOp) (ht : ∀ op ∈ ops, ¬ touchesI op q.id)
    (hnever : ∀ e ∈ histI s ops, ¬ (q.lower ≤ e.1 ∧ e.1 < q.upper))
    (hend : ¬ (q.lower ≤ (runI s ops).fees.pool.tick ∧ (runI s ops).fees.pool.tick < q.upper))
    {coll forf : Coins} (hc : claimableIncentives (runI s ops) q.id = some (coll, forf)) : coll = [] ∧ forf = [] := by
  have hin := runI_inv ops hi
  have lt1 := hi.fees.pool.core.pos.idsLt q hq
  have fr := runI_frame ops hi lt1 ht
  unfold claimableIncentives at hc
  simp only [Option.bind_eq_some_iff, Option.map_eq_some_iff, Prod.mk.injEq] at hc
  obtain ⟨p, hf, i1, hs, ⟨i2, x, y, z⟩, hcl, e1, e2⟩ := hc
  simp only at e1 e2; subst e1; subst e2
  obtain ⟨m, hid⟩ := find_id hf
  obtain ⟨a1, a2, _⟩ := runI_inside ops hi q hq p m hid
  obtain ⟨hp1, t1, _⟩ := sync_part hin.inc hs
  obtain ⟨r1, _⟩ := sync_frame hin.inc hs q.id
  rw [← hid] at hcl
  refine claim_nothing hin.fees hp1 m (fun k hk => ?_) hcl
  obtain ⟨r, hr, hz⟩ := hfresh k hk
  refine ⟨r, by rw [hid, r1 k, fr.recs k]; exact hr, fun d => ⟨(hz d).1, ?_⟩⟩
  have hlu := hi.fees.pool.core.pos.range q hq
  rw [(hz d).2, a1, a2, insU_step (i := (runI s ops).inc) (i' := i1) (cur := (runI s ops).fees.pool.tick) hlu k d (by rw [t1]) (by rw [t1]),
    if_neg hend, Int.add_zero]
  exact (uptime_growth_inside_never_in_range hi ops hq m hid hnever k d).symm

/-! non-vacuity: the history of Props/C08Inc's demo as a message list — two positions, two incentive records, time passing, a swap
that crosses tick 0 (bob leaves the range), more time, a sync -/

def demo0 : Full := initI 100 2000000000000000 P18 P18 15

def demoPre : List IOp :=
  [.fee (.create "alice" (-1000) 1000 1000000 1000000), .incentive 1 "inc0" 1000000 (1000 * P18) 0 1,
   .incentive 2 "inc1" 500000 (10 * P18) 0 0, .advance 30000000000, .fee (.create "bob" 0 2000 500000 500000)]

def demoOps : List IOp :=
  [.advance 20000000000, .fee (.swap true true 50000), .advance 5000000000, .sync]

example : SpfOK demo0.fees.pool.spf ∧ 0 < demo0.fees.pool.spacing ∧ 0 < demo0.inc.factor := ⟨⟨by decide, by decide⟩, by decide, by decide⟩

/-- the invariant on the demo states (instances of `reachable_inv_inc`). -/
example : IncInv (runI demo0 demoPre) ∧ IncInv (runI (runI demo0 demoPre) demoOps) :=
  ⟨reachable_inv_inc (by decide) ⟨by decide, by decide⟩ (by decide) demoPre,
   runI_inv demoOps (reachable_inv_inc (by decide) ⟨by decide, by decide⟩ (by decide) demoPre)⟩

/-- both positions are alive before and after `demoOps`; the swap moved the tick from 0 to −499 (out of bob's range);
accumulator 0 (1 ns uptime) grew in "inc1" in both syncs, bob's range [0, 2000) was credited only by the first. -/
example :
    ((runI demo0 demoPre).fees.pool.positions.map (·.id), (runI (runI demo0 demoPre) demoOps).fees.pool.positions.map (·.id)) = ([1, 2], [1, 2]) ∧
    ((runI demo0 demoPre).fees.pool.tick, (runI (runI demo0 demoPre) demoOps).fees.pool.tick) = (0, -499) ∧
    (histI (runI demo0 demoPre) demoOps).map (fun e => (e.1, e.2 0 "inc1")) =
      [(0, 0), (0, 79928072721), (-499, 0), (-499, 24981265611)] ∧
    evSumI 0 "inc1" 0 2000 (histI (runI demo0 demoPre) demoOps) = 79928072721 ∧
    evSumI 0 "inc1" (-1000) 1000 (histI (runI demo0 demoPre) demoOps) = 79928072721 + 24981265611 ∧
    (insU (runI demo0 demoPre).inc 0 0 "inc1" 0 2000, insU (runI (runI demo0 demoPre) demoOps).inc (-499) 0 "inc1" 0 2000) =
      (0, 79928072721) ∧
    (insU (runI demo0 demoPre).inc 0 0 "inc1" (-1000) 1000, insU (runI (runI demo0 demoPre) demoOps).inc (-499) 0 "inc1" (-1000) 1000) =
      (149887593668, 149887593668 + 79928072721 + 24981265611) := by
  decide +kernel

/-- **a second incentive claim pays nothing**: right after `collectIncentives` (same block) the position can claim nothing —
neither collected nor forfeited: the claim re-based all six records to the growth inside now. -/
theorem second_incentive_claim_pays_nothing {s s' : Full} (hi : IncInv s) {sender : String} {id : Nat} {c f : Coins}
    (h : collectIncentives s sender id = some (s', c, f)) {c2 f2 : Coins}
    (h2 : claimableIncentives s' id = some (c2, f2)) : c2 = [] ∧ f2 = [] := by
  have hap : applyI s (.icollect sender id) = some s' := by simp only [applyI, h, Option.map_some]
  have hi' := (applyI_facts hi hap).inv
  unfold collectIncentives at h
  simp only [Option.bind_eq_some_iff] at h
  obtain ⟨pos, hfind, h⟩ := h
  split at h
  · cases h
  · simp only [Option.bind_eq_some_iff, Option.map_eq_some_iff, Prod.mk.injEq] at h
    obtain ⟨i1, hsync, ⟨i2, coll, forf, byUp⟩, hclaim, b, _, e, _, _⟩ := h
    subst e
    obtain ⟨hmem, hid⟩ := find_id hfind
    obtain ⟨hp1, _⟩ := sync_part hi.inc hsync
    rw [← hid] at hclaim
    obtain ⟨e2c, T, _, _, _, hpart, chain⟩ := claimI_stage hi.fees hp1 hmem hclaim
    have hln : ({ i2 with bal := b } : Inc).last = ({ i2 with bal := b } : Inc).now := by
      show i2.last = i2.now
      have e2l : i2.last = i1.last := by rw [e2c]
      have e2n : i2.now = i1.now := by rw [e2c]
      rw [e2l, e2n]; exact sync_last_now hsync
    unfold claimableIncentives at h2
    simp only [Option.bind_eq_some_iff, Option.map_eq_some_iff, Prod.mk.injEq] at h2
    obtain ⟨pos', hfind', i1', hsync', ⟨i2', x, y, z⟩, hclaim', e1, e2⟩ := h2
    simp only at e1 e2 hsync' hclaim' hfind'
    subst e1; subst e2
    rw [hfind] at hfind'; injection hfind' with hfind'; subst hfind'
    rw [sync_idem hln] at hsync'
    injection hsync' with hsync'
    subst hsync'
    rw [← hid] at hclaim'
    refine claim_nothing hi.fees (hpart b) hmem (fun k hk => ?_) hclaim'
    obtain ⟨⟨a1, a2, r, _, ins, _, _, _, ha1, ha2, _, _, _, _, _, _, _, hrec, _, hamt, _, ev, _⟩⟩ := chain k hk
    have hacc2 : accAt ({ i2 with bal := b } : Inc) k = a2 := by unfold accAt; show (i2.accs[k]?).getD {} = a2; rw [ha2]; rfl
    refine ⟨_, by rw [hacc2]; exact hrec, fun d => ⟨rfl, ?_⟩⟩
    show amt ins d = _
    rw [hamt d]
    exact (insU_congr (i := i1) (i' := { i2 with bal := b }) d
      (by show valAt i2.accs k = _; rw [valAt_of ha2, valAt_of ha1, ev]) (by show i2.trackers = _; rw [e2c])).symm

/-! non-vacuity for section 3a: twins (bob, bert: same block, same range, same amounts), a position whose range is never
entered (carol), an incentive collect by alice in between, a swap moving the tick inside the common bucket -/

/-- decidable form of `RecAgree`. -/
def recAgreeB (a : UAcc) (id1 id2 : Nat) : Bool :=
  match getURec a.recs id1, getURec a.recs id2 with
  | some r1, some r2 => decide (r1.shares = r2.shares) && decide (r1.snap = r2.snap) && decide (r1.unclaimed = r2.unclaimed)
  | _, _ => false

theorem recAgree_of_B {a : UAcc} {id1 id2 : Nat} (h : recAgreeB a id1 id2 = true) : RecAgree a id1 id2 := by
  unfold recAgreeB at h
  split at h
  · rename_i r1 r2 h1 h2
    simp only [Bool.and_eq_true, decide_eq_true_eq] at h
    exact ⟨r1, r2, h1, h2, h.1.1, h.1.2, h.2⟩
  · cases h

def demoTwPre : List IOp :=
  [.fee (.create "alice" (-1000) 1000 1000000 1000000), .incentive 1 "inc0" 1000000 (1000 * P18) 0 1,
   .incentive 2 "inc1" 500000 (10 * P18) 0 0, .advance 30000000000, .fee (.create "bob" 0 2000 500000 500000),
   .fee (.create "bert" 0 2000 500000 500000)]

def demoTwOps : List IOp :=
  [.advance 20000000000, .fee (.swap true false 20000), .advance 70000000000, .icollect "alice" 1, .advance 5000000000]

def demoTw : Full := runI demo0 demoTwPre

theorem demoTw_inv : IncInv demoTw := reachable_inv_inc (by decide) ⟨by decide, by decide⟩ (by decide) demoTwPre

/-- the hypotheses of `twins_equal_incentives` hold for bob (2) and bert (3) … -/
example :
    (∀ k, k < 6 → recAgreeB (accAt demoTw.inc k) 2 3 = true) ∧ joinOf demoTw.inc 2 = joinOf demoTw.inc 3 ∧
    (demoTw.fees.pool.positions.map fun q => (q.id, q.lower, q.upper)) = [(1, -1000, 1000), (2, 0, 2000), (3, 0, 2000)] ∧
    claimableIncentives (runI demoTw demoTwOps) 2 = some ([("inc0", 15841), ("inc1", 158)], []) ∧
    claimableIncentives (runI demoTw demoTwOps) 3 = some ([("inc0", 15841), ("inc1", 158)], []) := by
  decide +kernel

/-- alice collects at 120 s in `demoTwOps`; asked again in the same block she gets nothing (`second_incentive_claim_pays_nothing`). -/
example :
    ((collectIncentives (runI demoTw (demoTwOps.take 3)) "alice" 1).map fun x => (x.2.1, x.2.2)) =
      some ([("inc0", 89985), ("inc1", 899)], []) ∧
    ((collectIncentives (runI demoTw (demoTwOps.take 3)) "alice" 1).bind fun x => claimableIncentives x.1 1) = some ([], []) := by
  decide +kernel

/-- bob and bert of the demo ARE created one after the other with the same resulting liquidity and range (hypotheses of
`twins_created_together_incentives`). -/
example :
    ((CLInc.createPosition (runI demo0 (demoTwPre.take 4)) "bob" 0 2000 500000 500000).map fun x => (x.2.1, x.2.2.2.2)) =
      some (2, 500749875124843813046785138, 0, 2000) ∧
    ((CLInc.createPosition (runI demo0 (demoTwPre.take 5)) "bert" 0 2000 500000 500000).map fun x => (x.2.1, x.2.2.2.2)) =
      some (3, 500749875124843813046785138, 0, 2000) := by
  decide +kernel

/-- … and after the join times are fixed (`join_time_fixed`): alice joined at 0, bob and bert at 30 s, still so at 125 s. -/
example : (runI demoTw demoTwOps).inc.now = 125000000000 ∧
    [joinOf (runI demoTw demoTwOps).inc 1, joinOf (runI demoTw demoTwOps).inc 2, joinOf (runI demoTw demoTwOps).inc 3] =
      [some 0, some 30000000000, some 30000000000] := by
  decide +kernel

/-- unmet uptime along a history: at 55 s (the demo of section 2) alice (joined at 0) and bob (joined at 30 s) have both met only
the 1 ns uptime: the 1-minute incentive "inc0" is forfeitable, not collectable — hypotheses of
`unmet_uptime_never_collected_history` and its conclusion's visible part. -/
example :
    joinOf (runI demo0 demoPre).inc 1 = some 0 ∧ joinOf (runI demo0 demoPre).inc 2 = some 30000000000 ∧
    claimableIncentives (runI (runI demo0 demoPre) demoOps) 1 = some ([("inc1", 509)], [("inc0", 50997)]) ∧
    claimableIncentives (runI (runI demo0 demoPre) demoOps) 2 = some ([("inc1", 40)], [("inc0", 4002)]) ∧
    (runI (runI demo0 demoPre) demoOps).inc.now - 0 < upAt 1 ∧ upAt 0 ≤ (runI (runI demo0 demoPre) demoOps).inc.now - 30000000000 := by
  decide +kernel

/-- never in range: carol's position [3000, 4000) is created (fresh records by `create_gives_fresh_uptime_records`), the tick stays
in [0, 13]: every message of the history happens out of her range, and she can claim nothing, as
`never_in_range_earns_no_incentives` says. -/
example :
    (∃ s1, s1 = stepI demoTw (.fee (.create "carol" 3000 4000 500000 500000)) ∧
      (applyI demoTw (.fee (.create "carol" 3000 4000 500000 500000))).isSome = true ∧
      (s1.fees.pool.positions.map fun q => (q.id, q.lower, q.upper)) = [(1, -1000, 1000), (2, 0, 2000), (3, 0, 2000), (4, 3000, 4000)] ∧
      (∀ e ∈ histI s1 demoTwOps, ¬ ((3000 : Int) ≤ e.1 ∧ e.1 < 4000)) ∧
      ¬ ((3000 : Int) ≤ (runI s1 demoTwOps).fees.pool.tick ∧ (runI s1 demoTwOps).fees.pool.tick < 4000) ∧
      (∀ op ∈ demoTwOps, ¬ touchesI op 4) ∧
      claimableIncentives (runI s1 demoTwOps) 4 = some ([], []) ∧
      claimableIncentives (runI s1 demoTwOps) 1 = some ([("inc0", 3332), ("inc1", 33)], [])) := by
  refine ⟨stepI demoTw (.fee (.create "carol" 3000 4000 500000 500000)), rfl, by decide +kernel, by decide +kernel, by decide +kernel,
    by decide +kernel, ?_, by decide +kernel, by decide +kernel⟩
  intro op hop
  simp only [demoTwOps, List.mem_cons, List.mem_nil_iff, or_false] at hop
  rcases hop with rfl | rfl | rfl | rfl | rfl <;> simp [touchesI]

/-! ## 3b. the SUM bound: the incentive address covers every claim and every record -/

theorem initI_sum (spacing spf scale factor : Int) (auth : Nat) : SumI (initI spacing spf scale factor auth) 0 :=
  ⟨rfl, fun d => by simp [initI, Etot, initF, sumRem, amt]⟩

/-- **the SUM invariant of every reachable state** (`CLIncP.SumI`): per denom `d`, in raw × raw units,
`2·Σ_positions Σ_accumulators (unclaimed·10¹⁸ + (growth inside − snapshot)·shares) + 2·Σ_records remaining·factor
   ≤ 2·balance(d)·10¹⁸·factor + 6·(#messages)·10¹⁸`
— exact entitlements of all live positions plus what the incentive records still hold never exceed the incentive address balance,
up to six half-units (one per uptime accumulator: the half-even `MulDec` rounding of a record settlement) per message. -/
theorem incentive_sum_invariant {spacing spf scale factor : Int} {auth : Nat} (hs : 0 < spacing) (hspf : SpfOK spf) (hfac : 0 < factor)
    (ops : List IOp) : SumI (runI (initI spacing spf scale factor auth) ops) (6 * ops.length) := by
  have := runI_sum ops (initI_inv (auth := auth) (scale := scale) hs hspf hfac) (initI_sum spacing spf scale factor auth)
  simpa using this

/-- collected + forfeited whole tokens of denom `d` that `GetClaimableIncentives` reports for position `q` (0 if it fails). -/
def claimD (s : Full) (d : String) (q : Position) : Int :=
  match claimableIncentives s q.id with
  | some (c, f) => amt c d + amt f d
  | none => 0

theorem sumRem_nonneg (d : String) : ∀ {rs : List IncRec}, RecsOK rs → 0 ≤ sumRem d rs
  | [], _ => Int.le_refl _
  | r :: rs, h => by
    have h1 := (h r List.mem_cons_self).2
    have h2 := sumRem_nonneg d (rs := rs) (fun x hx => h x (List.mem_cons_of_mem _ hx))
    simp only [sumRem]; split <;> omega

/-- **Σ claimable + remaining of the records ≤ balance, up to the counted half units**: in every reachable state in which the
accumulators can be brought to now and every position's claim query succeeds, per denom `d`:
`2·(Σ_q claimable_q(d))·10¹⁸·factor + 2·(Σ_records remaining after sync)·factor ≤ 2·balance(d)·10¹⁸·factor + 6·(#messages + #positions)·10¹⁸`
(claimable = collected + forfeited, as whole tokens; `remaining` in raw 10⁻¹⁸ units). -/
theorem total_claimable_incentives_le_balance {spacing spf scale factor : Int} {auth : Nat} (hs : 0 < spacing) (hspf : SpfOK spf)
    (hfac : 0 < factor) (ops : List IOp) {i1 : Inc}
    (hsync : sync (runI (initI spacing spf scale factor auth) ops).inc (runI (initI spacing spf scale factor auth) ops).fees.pool.liquidity = some i1)
    (hall : ∀ q ∈ (runI (initI spacing spf scale factor auth) ops).fees.pool.positions,
      (claimableIncentives (runI (initI spacing spf scale factor auth) ops) q.id).isSome) (d : String) :
    2 * (sumBy (claimD (runI (initI spacing spf scale factor auth) ops) d) (runI (initI spacing spf scale factor auth) ops).fees.pool.positions
          * (P18 * (runI (initI spacing spf scale factor auth) ops).inc.factor)) +
        2 * (sumRem d i1.records * (runI (initI spacing spf scale factor auth) ops).inc.factor) ≤
      2 * (amt (runI (initI spacing spf scale factor auth) ops).inc.bal d * P18 * (runI (initI spacing spf scale factor auth) ops).inc.factor) +
        (6 * (ops.length : Int) + 6 * (runI (initI spacing spf scale factor auth) ops).fees.pool.positions.length) * P18 := by
  have hi := reachable_inv_inc (auth := auth) (scale := scale) hs hspf hfac ops
  have hsum := incentive_sum_invariant (auth := auth) (scale := scale) hs hspf hfac ops
  generalize runI (initI spacing spf scale factor auth) ops = s at *
  have h1 := sync_sum hi hsum hsync
  obtain ⟨hp1, _, _, fa1, _, b1, _⟩ := sync_part hi.inc hsync
  have hb1 := h1.bound d
  simp only at hb1
  rw [fa1, b1] at hb1
  have hle : sumBy (fun q => 2 * (claimD s d q * (P18 * s.inc.factor))) s.fees.pool.positions ≤
      sumBy (fun q => 2 * entQ { s with inc := i1 } d q + 6 * P18) s.fees.pool.positions := by
    apply sumBy_le
    intro q hq
    obtain ⟨cf, hcf⟩ := Option.isSome_iff_exists.mp (hall q hq)
    obtain ⟨c, f⟩ := cf
    have := (claimable_le_ent hi hq hcf hsync d).2.2
    rw [fa1] at this
    unfold claimD
    rw [hcf]
    exact this
  rw [sumBy_mul, sumBy_add, sumBy_mul, C08.sumBy_const] at hle
  have e1 : sumBy (fun q => claimD s d q * (P18 * s.inc.factor)) s.fees.pool.positions =
      sumBy (claimD s d) s.fees.pool.positions * (P18 * s.inc.factor) := by
    rw [Int.mul_comm (sumBy (claimD s d) s.fees.pool.positions) (P18 * s.inc.factor), ← sumBy_mul]
    apply sumBy_congr
    intro q _
    exact Int.mul_comm _ _
  rw [e1] at hle
  have e2 : sumBy (entQ { s with inc := i1 } d) s.fees.pool.positions = Etot { s with inc := i1 } d := rfl
  rw [e2] at hle
  rw [Int.add_mul]
  have e3 : (s.fees.pool.positions.length : Int) * (6 * P18) = 6 * (s.fees.pool.positions.length : Int) * P18 := by
    rw [← Int.mul_assoc, Int.mul_comm _ 6]
  rw [e3] at hle
  omega

/-- **the incentive address covers every claim** (C01's solvency clause for incentives): in every state reached by a history with
`3·(#messages + #positions) < factor` (the incentive scaling factor, ≥ 10¹⁸), per denom, the whole tokens all positions together
can claim (collected + forfeited) are at most the incentive address balance — and this although the incentive records' remaining
amounts are covered by the same balance (`total_claimable_incentives_le_balance`). -/
theorem incentive_solvency {spacing spf scale factor : Int} {auth : Nat} (hs : 0 < spacing) (hspf : SpfOK spf)
    (hfac : 0 < factor) (ops : List IOp) {i1 : Inc}
    (hsync : sync (runI (initI spacing spf scale factor auth) ops).inc (runI (initI spacing spf scale factor auth) ops).fees.pool.liquidity = some i1)
    (hall : ∀ q ∈ (runI (initI spacing spf scale factor auth) ops).fees.pool.positions,
      (claimableIncentives (runI (initI spacing spf scale factor auth) ops) q.id).isSome)
    (hsmall : 3 * ((ops.length : Int) + (runI (initI spacing spf scale factor auth) ops).fees.pool.positions.length) <
      (runI (initI spacing spf scale factor auth) ops).inc.factor) (d : String) :
    sumBy (claimD (runI (initI spacing spf scale factor auth) ops) d) (runI (initI spacing spf scale factor auth) ops).fees.pool.positions ≤
      amt (runI (initI spacing spf scale factor auth) ops).inc.bal d := by
  have h := total_claimable_incentives_le_balance (auth := auth) (scale := scale) hs hspf hfac ops hsync hall d
  have hi := reachable_inv_inc (auth := auth) (scale := scale) hs hspf hfac ops
  generalize runI (initI spacing spf scale factor auth) ops = s at *
  obtain ⟨hp1, _⟩ := sync_part hi.inc hsync
  have hR := sumRem_nonneg d hp1.recsOK
  have hF := hi.inc.factor
  have hP := P18_pos
  generalize sumBy (claimD s d) s.fees.pool.positions = X at *
  generalize amt s.inc.bal d = B at *
  have hK : 0 < P18 * s.inc.factor := Int.mul_pos hP hF
  have hRF : 0 ≤ sumRem d i1.records * s.inc.factor := Int.mul_nonneg hR (Int.le_of_lt hF)
  have hm : 3 * ((ops.length : Int) + s.fees.pool.positions.length) * P18 < s.inc.factor * P18 := Int.mul_lt_mul_of_pos_right hsmall hP
  have e1 : B * P18 * s.inc.factor = B * (P18 * s.inc.factor) := Int.mul_assoc _ _ _
  have e2 : s.inc.factor * P18 = P18 * s.inc.factor := Int.mul_comm _ _
  have e3 : (6 * (ops.length : Int) + 6 * (s.fees.pool.positions.length : Int)) * P18 =
      2 * (3 * ((ops.length : Int) + s.fees.pool.positions.length) * P18) := by
    have : 6 * (ops.length : Int) + 6 * (s.fees.pool.positions.length : Int) = 2 * (3 * ((ops.length : Int) + s.fees.pool.positions.length)) := by omega
    rw [this, Int.mul_assoc]
  rw [e1, e3] at h
  rw [e2] at hm
  have h2 : X * (P18 * s.inc.factor) < (B + 1) * (P18 * s.inc.factor) := by
    rw [Int.add_mul, Int.one_mul]; omega
  have := Int.lt_of_mul_lt_mul_right h2 (Int.le_of_lt hK)
  omega

/-! non-vacuity for section 3b: the twins history followed by a partial withdrawal (bob), one more second, and a full withdrawal
(bert): hypotheses of `total_claimable_incentives_le_balance` / `incentive_solvency` and the numbers -/

def demoSolvOps : List IOp :=
  demoTwPre ++ demoTwOps ++ [.fee (.withdraw "bob" 2 200000000000000000000000000), .advance 1000000000,
    .fee (.withdraw "bert" 3 500749875124843813046785138)]

/-- at 125 s (before the withdrawals): balance 910015 "inc0" covers the records' remaining 875000 (after sync) + claimable
3332 + 15841 + 15841 = 35014, with one token to spare; all claim queries succeed; far fewer than factor/3 messages. -/
example :
    let s := runI demo0 (demoTwPre ++ demoTwOps)
    (sync s.inc s.fees.pool.liquidity).isSome ∧
    (∀ q ∈ s.fees.pool.positions, (claimableIncentives s q.id).isSome) ∧
    3 * (((demoTwPre ++ demoTwOps).length : Int) + s.fees.pool.positions.length) < s.inc.factor ∧
    (sumBy (claimD s "inc0") s.fees.pool.positions, amt s.inc.bal "inc0",
      (syncNow s).map fun s1 => sumRem "inc0" s1.inc.records) = (35014, 910015, some (875000 * P18)) ∧
    (sumBy (claimD s "inc1") s.fees.pool.positions, amt s.inc.bal "inc1",
      (syncNow s).map fun s1 => sumRem "inc1" s1.inc.records) = (349, 499101, some (498750 * P18)) := by
  decide +kernel

/-- after the partial and the full withdrawal (incentives paid out, bert's record emptied): still covered. -/
example :
    let s := runI demo0 demoSolvOps
    (sync s.inc s.fees.pool.liquidity).isSome ∧
    (∀ q ∈ s.fees.pool.positions, (claimableIncentives s q.id).isSome) ∧
    (s.fees.pool.positions.map (·.id), sumBy (claimD s "inc0") s.fees.pool.positions, amt s.inc.bal "inc0") = ([1, 2], 4153, 878155) ∧
    (sumBy (claimD s "inc1") s.fees.pool.positions, amt s.inc.bal "inc1") = (41, 498783) := by
  decide +kernel

/-! ## 1b. the clocks -/

/-- along histories whose block-time advances are non-negative: `LastLiquidityUpdate ≤ now` and every join time ≤ now (position
ages are never negative, so no claim fails on the age check). -/
theorem reachable_time_inv {spacing spf scale factor : Int} {auth : Nat} (hs : 0 < spacing) (hspf : SpfOK spf) (hfac : 0 < factor)
    (ops : List IOp) (hok : TimeOK ops) : TimeInv (runI (initI spacing spf scale factor auth) ops).inc :=
  runI_time ops (initI_inv hs hspf hfac) ⟨Int.le_refl _, fun e he => by cases he⟩ hok

/-- without that restriction the clause is FALSE of the model's history language (a negative `advance` is a legal op line):
witness. -/
theorem time_inv_needs_monotone_time_witness :
    ¬ TimeInv (runI (initI 100 2000000000000000 P18 P18 15) [.advance 5, .sync, .advance (-3)]).inc := by
  intro h
  have := h.last
  revert this
  decide +kernel

/-! ## 4. emission accounting per incentive record -/

/-- the elapsed time a sync works with is exact: `(now − last) · 10⁹` raw Dec seconds (no rounding in `NewDec(ns).Quo(10⁹)`). -/
theorem sync_elapsed_exact {i : Inc} {el : Int} (h : elapsedOf i = some el) : el = (i.now - i.last) * 1000000000 :=
  elapsed_exact h

/-- one record in one accumulator pass: when it is processed, `remaining' = max(remaining − ⌊elapsed · rate / 10¹⁸⌋, 0)` — the
ONLY rounding of the emission of a record is this truncation to 18 decimals (less than 10⁻¹⁸ token per pass). -/
theorem record_emission_exact {now el liq factor : Int} {u : Nat} {r : IncRec} {perLiq rem : Int}
    (h : emitOne now el liq factor u r = some (some (perLiq, rem))) :
    r.start < now ∧ r.uptime = u ∧ rem = clamp r.remaining ((el * r.rate).tdiv P18) := by
  obtain ⟨h1, h2, _, h4⟩ := emitOne_rem h
  exact ⟨h1, h2, h4⟩

/-- **the record list after any successful message**: every record mapped by `syncRec` (identity unless the message brings the
accumulators to now with time elapsed and at least one unit of liquidity), exhausted records dropped, plus the new record of a
`CreateIncentive`. -/
theorem records_after_message {s s' : Full} {op : IOp} (hi : IncInv s) (hpos : PosRecs s.inc) (h : applyI s op = some s') :
    s'.inc.records =
      (match newRecOf op with
       | some nr => insertRec (syncedRecs s) nr
       | none => if syncsOp s op then syncedRecs s else s.inc.records) :=
  applyI_records_exact hi hpos h

/-- all records of a reachable state hold a positive amount. -/
theorem reachable_records_positive {spacing spf scale factor : Int} {auth : Nat} (hs : 0 < spacing) (hspf : SpfOK spf)
    (hfac : 0 < factor) (ops : List IOp) : PosRecs (runI (initI spacing spf scale factor auth) ops).inc :=
  runI_posRecs ops (initI_inv hs hspf hfac) (fun r hr => by cases hr)

/-- **emission accounting over any history**: a record `r` of the start state evolves independently of everything else
(positions, swaps, claims, other records): after the history it is `r` with
`remaining = max(r.remaining − Σ slots, 0)`, so the total it emitted is exactly `min(Σ slots, r.remaining)`; it is still in the
record list iff that leaves something (⇐ shown; exhausted records are dropped).  The slots are characterised by
`emission_slot_is_rate_times_elapsed` / `idle_time_emits_nothing`. -/
theorem emission_accounting {s : Full} (hi : IncInv s) (hpos : PosRecs s.inc) (ops : List IOp) {r : IncRec} (hr : r ∈ s.inc.records) :
    0 ≤ slotSum s ops r ∧
    evolveRec s ops r = { r with remaining := clamp r.remaining (slotSum s ops r) } ∧
    r.remaining - (evolveRec s ops r).remaining = min (slotSum s ops r) r.remaining ∧
    (slotSum s ops r < r.remaining → evolveRec s ops r ∈ (runI s ops).inc.records) := by
  have hrate : 0 ≤ r.rate := (hi.inc.recsOK r hr).1
  have hrem : 0 ≤ r.remaining := (hi.inc.recsOK r hr).2
  obtain ⟨h1, h2⟩ := evolve_closed hi ops r hrem hrate
  refine ⟨h1, h2, ?_, fun hlt => ?_⟩
  · rw [h2]
    show r.remaining - clamp r.remaining (slotSum s ops r) = _
    unfold clamp
    split
    · rw [Int.min_def]; split <;> omega
    · rw [Int.min_def]; split <;> omega
  · apply record_evolves hi hpos ops hr
    rw [h2]
    show 0 < clamp r.remaining (slotSum s ops r)
    unfold clamp
    rw [if_pos (by omega)]; omega

/-- **what a slot is** (qualifying elapsed time × rate, with the exact rounding): a non-zero slot of message `op` in state `s` means
the message succeeded and brought the accumulators to now, ≥ one unit of liquidity was active, the record had started, time had
elapsed since `LastLiquidityUpdate`, and `slot = ⌊(now − last)[ns] · 10⁹ · rate / 10¹⁸⌋` raw units — i.e. `rate × elapsed seconds`
rounded DOWN by less than one raw unit (10⁻¹⁸ token):  `slot · 10¹⁸ ≤ ns · 10⁹ · rate < (slot + 1) · 10¹⁸`. -/
theorem emission_slot_is_rate_times_elapsed {s : Full} {op : IOp} {r : IncRec} (hrate : 0 ≤ r.rate) (h : slotOf s op r ≠ 0) :
    (applyI s op).isSome ∧ syncsOp s op = true ∧ P18 ≤ s.fees.pool.liquidity ∧ r.start < s.inc.now ∧ s.inc.last < s.inc.now ∧
    slotOf s op r = ((s.inc.now - s.inc.last) * 1000000000 * r.rate).tdiv P18 ∧
    slotOf s op r * P18 ≤ (s.inc.now - s.inc.last) * 1000000000 * r.rate ∧
    (s.inc.now - s.inc.last) * 1000000000 * r.rate < (slotOf s op r + 1) * P18 := by
  obtain ⟨h1, h2, h3, h4, h5, _, h7⟩ := slot_spec h
  have hx : 0 ≤ (s.inc.now - s.inc.last) * 1000000000 * r.rate :=
    Int.mul_nonneg (Int.mul_nonneg (by omega) (by decide)) hrate
  obtain ⟨_, q1, q2⟩ := tdiv_le_self hx P18_pos
  refine ⟨h1, h2, h3, h4, h5, h7, by rw [h7]; exact q1, ?_⟩
  rw [h7, Int.add_mul, Int.one_mul]; omega

/-- **time that passes with less than one unit of active liquidity emits nothing and does not consume the record**, whatever the
message; the clock still moves (`C08Inc.no_liquidity_no_emission_clock_moves`), so the idle interval is never credited later. -/
theorem idle_time_emits_nothing {s : Full} (op : IOp) (r : IncRec) (hl : s.fees.pool.liquidity < P18) :
    slotOf s op r = 0 ∧ stepRec s op r = r :=
  slot_zero_of_no_liquidity r hl

/-- PARTIAL (converse of `emission_slot_is_rate_times_elapsed`): a record that has started, with uptime index < 6, in a successful
syncing message with elapsed time and ≥ one unit of liquidity, gets the slot `⌊elapsed·rate/10¹⁸⌋` UNLESS one of the three Dec
products (`elapsed·rate`, `emitted·factor`, `remaining·factor`) overflows, in which case the code (and the model: `emitOne`
returns `some none`) silently skips the record for this interval.  Proved: the slot is either 0 or that value. -/
theorem slot_zero_or_full_partial (s : Full) (op : IOp) (r : IncRec) :
    slotOf s op r = 0 ∨ ∃ el, elapsedOf s.inc = some el ∧ slotOf s op r = (el * r.rate).tdiv P18 := by
  unfold slotOf
  split
  · cases hE : elapsedOf s.inc with
    | none => exact Or.inl rfl
    | some el =>
      simp only
      split
      · exact Or.inl rfl
      · split
        · exact Or.inr ⟨el, rfl, rfl⟩
        · exact Or.inl rfl
  · exact Or.inl rfl

/-! non-vacuity for section 4 -/

/-- the two records of the twins demo from their creation (t = 0) to t = 125 s: liquidity active all the time, last sync at 120 s:
slots add up to 120 s × rate; remaining = initial − that; both still in the list. -/
example :
    let s := runI demo0 (demoTwPre.take 3)
    let ops := demoTwPre.drop 3 ++ demoTwOps
    (s.inc.records.map fun r => (r.id, r.uptime, r.remaining, r.rate)) =
      [(2, 0, 500000 * P18, 10 * P18), (1, 1, 1000000 * P18, 1000 * P18)] ∧
    (s.inc.records.map fun r => (slotSum s ops r, (evolveRec s ops r).remaining)) =
      [(120 * 10 * P18, (500000 - 1200) * P18), (120 * 1000 * P18, (1000000 - 120000) * P18)] ∧
    ((runI s ops).inc.records.map fun r => (r.id, r.remaining)) = [(2, (500000 - 1200) * P18), (1, (1000000 - 120000) * P18)] := by
  decide +kernel

def demoIdleOps : List IOp :=
  [.fee (.withdraw "alice" 1 2001499875062460257502969826), .advance 50000000000, .sync, .advance 10000000000,
   .fee (.create "dave" (-1000) 1000 1000000 1000000), .advance 7000000000, .sync]

/-- idle time: alice leaves at 30 s (30 s emitted), 60 s pass with NO liquidity (two syncs in between: nothing emitted, records
untouched), dave arrives, 7 more seconds: 37 s × rate emitted in total, not 97 s. -/
example :
    let s := runI demo0 (demoTwPre.take 4)
    (s.inc.records.map fun r => (slotSum s demoIdleOps r, (evolveRec s demoIdleOps r).remaining)) =
      [(37 * 10 * P18, (500000 - 370) * P18), (37 * 1000 * P18, (1000000 - 37000) * P18)] ∧
    ((runI s demoIdleOps).inc.records.map fun r => (r.id, r.remaining)) = [(2, (500000 - 370) * P18), (1, (1000000 - 37000) * P18)] ∧
    (runI s demoIdleOps).inc.now = 97000000000 ∧
    (s.inc.records.map fun r => slotOf (runI s (demoIdleOps.take 2)) .sync r) = [0, 0] ∧
    (runI s (demoIdleOps.take 2)).fees.pool.liquidity = 0 := by
  decide +kernel

/-- a non-zero slot (hypothesis of `emission_slot_is_rate_times_elapsed`): the withdrawal at 30 s. -/
example :
    let s := runI demo0 (demoTwPre.take 4)
    (s.inc.records.map fun r => slotOf s (.fee (.withdraw "alice" 1 2001499875062460257502969826)) r) = [30 * 10 * P18, 30 * 1000 * P18] ∧
    (s.inc.now, s.inc.last) = (30000000000, 0) := by
  decide +kernel

example : TimeOK (demoTwPre ++ demoTwOps) := by
  intro ns h
  simp only [demoTwPre, demoTwOps, List.cons_append, List.nil_append, List.mem_cons, List.mem_nil_iff, or_false, reduceCtorEq, false_or,
    IOp.advance.injEq] at h
  rcases h with h | h | h | h <;> omega

end OsmoVerif.Props.C08IncHist
