/-
C04 (stableswap) — does a swap ever decrease the stableswap invariant?

Invariant: `ssInvariant p = (Π Xᵢ)·(Σ Xᵢ²)` with `Xᵢ = reserveᵢ / scalingFactorᵢ` as EXACT rationals
(`Proofs/GammSSPool.lean`), on the integer reserves before and after `SwapOutAmtGivenIn` (`ssSwapOut`, exact-in)
and `SwapInAmtGivenOut` (`ssSwapIn`, exact-out); the whole token-in (spread charge included) is in the pool
afterwards, the integer token-out has left it.

FINDING (proved below, confirmed on the Go code):
  * `stableswap_invariant_decrease_witness` / `stableswap_invariant_decrease_witness_exact_out` — the FULL claim
    "the invariant never decreases" is FALSE of the code.  On 3-asset pools with scaling factors 10^18 (all scaled
    values exactly representable, so no flooring slack anywhere) and zero spread, a swap whose solver estimate is the
    first midpoint of the binary search is accepted although the exact invariant is lower afterwards: the
    acceptance test `targetK ≤ iterK(xEst)` is evaluated on half-even rounded 36-decimal products and one rounded
    quotient.  The relative loss is ≈ 7·10^-38 (exact-in) and ≈ 6·10^-39 (exact-out).

PROVED, for every pool state with pairwise distinct denoms and every successful swap:
  * `ss_swap_out_reserves`                      (FULL) the new reserves: in + whole tokenIn, out − tokenOut, rest unchanged;
  * `ss_swap_out_post_reserves_ge_solver_point` (FULL) the exact post-swap scaled reserves dominate the solver's point;
  * `ss_calc_out_lt_reserve`                    (FULL) `CalcOutAmtGivenIn` never returns the whole out-reserve or more;
  * `stableswap_invariant_nondecreasing_partial` (PARTIAL) `ssInvariant p' ≥ ssInvariant p − swapErr·Π others` with
    the explicit error `swapErr` (a function of the pre-swap state, see `Proofs/GammSSOut.lean`);
  * `stableswap_invariant_relative_partial` (PARTIAL) … hence `ssInvariant p' ≥ ssInvariant p·(1 − 18·10^-36)` when
    every scaled reserve is ≥ 1; exact-out: `… ·(1 − 12/(10^18·R_in) − 16·10^-36)`;
  * `stableswap_invariant_nondecreasing_unit_scaling` (FULL, conditional) if every scaling factor is 1 an exact-in swap
    NEVER decreases the invariant (no bound on the reserves beyond those `validatePoolLiquidity` enforces);
  * `stableswap_invariant_nondecreasing_of_spread` (FULL, conditional) if every scaled reserve is ≥ 1 and
    `40·R_in ≤ tokenIn·spread·10^18` an exact-in swap never decreases the invariant;
  * exact-out: `ss_swap_in_reserves`, `ss_calc_in_lt_reserve`, `ss_swap_in_post_reserves_vs_solver_point` (FULL) and
    `stableswap_invariant_nondecreasing_exact_out_partial` (PARTIAL) with the error `swapInErr`, which contains one
    term that is NOT of order 10^-36: `getDescaledPoolAmt` truncates to 18 decimals (`Dec()`) BEFORE `Ceil`, so the
    integer charged is only `> solver amount − 10^-18` token units, not `≥ solver amount`.
-/
import OsmoVerif.Proofs.GammSSSpread

namespace OsmoVerif.Props.C04Stable
open OsmoVerif.GammMath OsmoVerif.GammMath.SS OsmoVerif.Num OsmoVerif.Gen

/-! ## the finding: the invariant CAN decrease -/

/-- three assets, every scaling factor 10^18. -/
def wOut : SSPool :=
  ⟨[⟨"tka", 1000000000000000040, 10 ^ 18⟩, ⟨"tkb", 2000000000000000076, 10 ^ 18⟩,
    ⟨"tkc", 3316624790355399980, 10 ^ 18⟩], 100 * P18⟩

def wOut' : SSPool :=
  ⟨[⟨"tka", 2000000000000000079, 10 ^ 18⟩, ⟨"tkb", 1000000000000000038, 10 ^ 18⟩,
    ⟨"tkc", 3316624790355399980, 10 ^ 18⟩], 100 * P18⟩

/-- FINDING (exact-in).  `SwapOutAmtGivenIn` of 1000000000000000039 tka for tkb at zero spread succeeds, pays
1000000000000000038 tkb, and the exact invariant of the pool is strictly LOWER afterwards. -/
theorem stableswap_invariant_decrease_witness :
    ssSwapOut wOut [("tka", 1000000000000000039)] "tkb" 0 = .ok (1000000000000000038, wOut') ∧
      ssInvariant wOut' < ssInvariant wOut := by
  refine ⟨by decide +kernel, ?_⟩
  norm_num [ssInvariant, ssK, sumSq, xq, wOut, wOut']

def wIn : SSPool :=
  ⟨[⟨"tka", 2000000000000000000, 10 ^ 18⟩, ⟨"tkb", 2999999999999999992, 10 ^ 18⟩,
    ⟨"tkc", 3316624790355399841, 10 ^ 18⟩], 100 * P18⟩

def wIn' : SSPool :=
  ⟨[⟨"tka", 3000000000000000000, 10 ^ 18⟩, ⟨"tkb", 1999999999999999993, 10 ^ 18⟩,
    ⟨"tkc", 3316624790355399841, 10 ^ 18⟩], 100 * P18⟩

/-- FINDING (exact-out).  `SwapInAmtGivenOut` of 999999999999999999 tkb for tka at zero spread succeeds, charges
1000000000000000000 tka, and the exact invariant of the pool is strictly LOWER afterwards. -/
theorem stableswap_invariant_decrease_witness_exact_out :
    ssSwapIn wIn [("tkb", 999999999999999999)] "tka" 0 = .ok (1000000000000000000, wIn') ∧
      ssInvariant wIn' < ssInvariant wIn := by
  refine ⟨by decide +kernel, ?_⟩
  norm_num [ssInvariant, ssK, sumSq, xq, wIn, wIn']

/-! ## the exact invariant: monotonicity, factorisation, the solver's algebra -/

/-- FULL (A).  The exact kernel `k(x,y,w) = x·y·(x² + y² + w)` is non-decreasing in each argument on `x, y, w ≥ 0`. -/
theorem stableswap_kernel_monotone {x x' y y' w w' : ℚ} (hx : 0 ≤ x) (hy : 0 ≤ y) (hw : 0 ≤ w)
    (h1 : x ≤ x') (h2 : y ≤ y') (h3 : w ≤ w') : kq x y w ≤ kq x' y' w' := kq_mono hx hy hw h1 h2 h3

/-- FULL (A).  The n-asset invariant `(Π xᵢ)·(Σ xᵢ²)` is non-decreasing in every coordinate on non-negative reserves
and factors through any two assets: `K = k(x, y, Σ others²)·Π others`. -/
theorem stableswap_invariant_monotone_and_factors :
    (∀ {xs ys : List ℚ}, List.Forall₂ (fun x y => 0 ≤ x ∧ x ≤ y) xs ys → ssK xs ≤ ssK ys) ∧
    (∀ (x y : ℚ) (rest : List ℚ), ssK (x :: y :: rest) = kq x y (sumSq rest) * rest.prod) ∧
    (∀ {xs ys : List ℚ}, xs.Perm ys → ssK xs = ssK ys) :=
  ⟨fun h => ssK_mono h, ssK_cons_cons, fun h => ssK_perm h⟩

/-- FULL (B).  In exact arithmetic `iterKCalculator` evaluates `h(x0 − xOut) − h(x0)`, `targetKCalculator` is
`k(x0,y0,w)/yf − h(x0)`, and the acceptance test `target ≤ iterK xf` IS `k(x0,y0,w) ≤ k(xf,yf,w)`. -/
theorem stableswap_solver_algebra_exact :
    (∀ x0 xo yf w : ℚ,
      ((-xo + 3 * x0) * xo + -(3 * x0 * x0 + w + yf * yf)) * xo = hq (x0 - xo) yf w - hq x0 yf w) ∧
    (∀ x0 y0 w yf : ℚ, kq x0 y0 w / yf - (yf * yf + w + x0 * x0) * x0 = kq x0 y0 w / yf - hq x0 yf w) ∧
    (∀ {x0 y0 w yf xf : ℚ}, 0 < yf →
      (kq x0 y0 w / yf - hq x0 yf w ≤ hq xf yf w - hq x0 yf w ↔ kq x0 y0 w ≤ kq xf yf w)) :=
  ⟨iterK_horner, targetK_exact, fun h => target_le_iterK_iff h⟩

/-- PARTIAL (C) (the statement without `solverErr` is FALSE of the code, see the witnesses).  A successful
`solveCFMMBinarySearchMulti x y w yIn = xOut` keeps the EXACT kernel up to the explicit rounding error
`solverErr X Y Yf Xo = eps·(X·Y + Y/2 + 1/2 + Yf·(3/2 + eps + X + 3/2·|Xo|))` (real units, `eps = 10^-36`,
capitals = raw values / 10^36). -/
theorem stableswap_solver_post_exact_partial {x y w yIn xOut : Int} (h : solveCfmmMulti x y w yIn = some xOut) :
    kq (rq x) (rq y) (rq w) - solverErr (rq x) (rq y) (rq (y + yIn)) (rq xOut)
      ≤ kq (rq (x - xOut)) (rq (y + yIn)) (rq w) :=
  (solver_post_exact_partial h).2.2.2.2.2

/-! ## exact-in: what is true for every swap -/

/-- FULL.  The new reserves: the in-reserve grows by the WHOLE token-in (the spread charge stays in the pool), the
out-reserve falls by exactly the integer paid out, the other reserves and the share supply do not change; the
out-reserve stays positive. -/
theorem ss_swap_out_reserves {p p' : SSPool} {dIn dOut : String} {amt spread out : Int}
    (h : ssSwapOut p [(dIn, amt)] dOut spread = .ok (out, p')) :
    ssCalcOut p [(dIn, amt)] dOut spread = .ok out ∧
    p'.assets = p.assets.map (swapOutAsset dIn dOut amt out) ∧ p'.totalShares = p.totalShares ∧
    (∀ a, findSS p.assets dIn = some a → dIn ≠ dOut →
        swapOutAsset dIn dOut amt out a = { a with amount := a.amount + amt }) ∧
    (∀ a, findSS p.assets dOut = some a → dIn ≠ dOut →
        swapOutAsset dIn dOut amt out a = { a with amount := a.amount - out } ∧ 0 < a.amount - out) ∧
    (∀ a ∈ p.assets, a.denom ≠ dIn → a.denom ≠ dOut → swapOutAsset dIn dOut amt out a = a) := by
  obtain ⟨hc, _, hp', hts, hpos⟩ := ssSwapOut_spec h
  refine ⟨hc, hp', hts, fun a ha hne => swapOutAsset_in (findSS_some ha).2 hne, fun a ha hne => ?_,
    fun a _ h1 h2 => swapOutAsset_other h1 h2⟩
  obtain ⟨hm, hd⟩ := findSS_some ha
  refine ⟨swapOutAsset_out hd hne, ?_⟩
  have := hpos a hm
  rw [amountOf_single, amountOf_single, if_neg (by rw [hd]; exact hne), if_pos hd.symm] at this
  omega

/-- FULL.  `CalcOutAmtGivenIn` (hence `SwapOutAmtGivenIn`) never returns the whole out-reserve or more, the result
is positive, and both swapped reserves are positive. -/
theorem ss_calc_out_lt_reserve {p : SSPool} {dIn dOut : String} {amt spread out : Int}
    (hamt : 0 ≤ amt) (hs : 0 ≤ spread) (h : ssCalcOut p [(dIn, amt)] dOut spread = .ok out) :
    ∃ aIn aOut, findSS p.assets dIn = some aIn ∧ findSS p.assets dOut = some aOut ∧ dIn ≠ dOut ∧
      0 < out ∧ out < aOut.amount ∧ 0 < aIn.amount := by
  obtain ⟨aIn, aOut, _, _, _, _, _, _, hIn, hOut, hne, _, _, _, _, _, _, _, _, o1, _, amIn, _, _, _, hlt, _⟩ :=
    ssCalcOut_point hamt hs h
  exact ⟨aIn, aOut, hIn, hOut, hne, o1, hlt, amIn⟩

/-- FULL (facts D).  With `x0`, `y0` the 36-decimal floors of the exact scaled out and in reserves, `w` the rounded sum of
squares of the other floors, `yIn = round(⌊tokenIn/sf⌋₃₆·(1 − spread))` and `xOut` the solver's answer:
the EXACT post-swap scaled reserves dominate the solver's point `(x0 − xOut, y0 + yIn)`:
`X' = (R_out − out)/sf_out ≥ (x0 − xOut)/10^36` and `Y' = (R_in + tokenIn)/sf_in ≥ (y0 + yIn)/10^36`. -/
theorem ss_swap_out_post_reserves_ge_solver_point {p p' : SSPool} {dIn dOut : String} {amt spread out : Int}
    (hamt : 0 ≤ amt) (hs : 0 ≤ spread) (h : ssSwapOut p [(dIn, amt)] dOut spread = .ok (out, p')) :
    ∃ aIn aOut x0 y0 w yIn xOut rem,
      findSS p.assets dIn = some aIn ∧ findSS p.assets dOut = some aOut ∧ dIn ≠ dOut ∧
      x0 = (aOut.amount * P36).tdiv aOut.sf ∧ y0 = (aIn.amount * P36).tdiv aIn.sf ∧
      List.Forall₂ (fun c r => r = (c.amount * P36).tdiv c.sf) (othersOf p dIn dOut) rem ∧
      sumSquares rem = some w ∧ solveCfmmMulti x0 y0 w yIn = some xOut ∧
      rq (x0 - xOut) ≤ xq { aOut with amount := aOut.amount - out } ∧
      rq (y0 + yIn) ≤ xq { aIn with amount := aIn.amount + amt } ∧
      rq x0 ≤ xq aOut ∧ rq y0 ≤ xq aIn := by
  obtain ⟨hc, _, _, _, _⟩ := ssSwapOut_spec h
  obtain ⟨aIn, aOut, x0, y0, w, yIn, xOut, rem, hIn, hOut, hne, sfIn, sfOut, _, hx0, hy0, hrem, hw, hsol,
    _, _, amIn, amOut, q1, q2, _⟩ := ssCalcOut_point hamt hs hc
  obtain ⟨bx1, _, _⟩ := scaled_down_rq sfOut (Int.le_of_lt amOut) hx0
  obtain ⟨by1, _, _⟩ := scaled_down_rq sfIn (Int.le_of_lt amIn) hy0
  refine ⟨aIn, aOut, x0, y0, w, yIn, xOut, rem, hIn, hOut, hne, hx0, hy0, hrem, hw, hsol, ?_, ?_, bx1, by1⟩
  · unfold xq; simp only; push_cast; rw [sub_div, rq_sub]; linarith
  · unfold xq; simp only; push_cast; rw [add_div, rq_add]; linarith

/-- PARTIAL (the FULL statement `ssInvariant p ≤ ssInvariant p'` is FALSE: `stableswap_invariant_decrease_witness`).
For every pool with pairwise distinct denoms and every successful exact-in swap of a non-negative amount at a
non-negative spread factor, the exact invariant after the swap is at least the invariant before minus
`swapErr X Y Zs · Π Zs`, where `X`, `Y` are the exact scaled out and in reserves BEFORE the swap, `Zs` the other exact
scaled reserves, and (`eps = 10^-36`, `W = Σ Zs²`, `n = |Zs|`; units: those of the invariant)
`swapErr = eps·(X·Y + Y/2 + 1/2 + 2Y·(3/2 + eps + 5/2·X))            -- roundings inside the solver
         + X·2Y·n·eps/2                                               -- half-even squares in w
         + eps·(Y·(3X² + Y² + W) + X·(X² + 3Y² + W))                  -- solver ran on the floors of X, Y
         + X·Y·eps·Σ (2·Zⱼ + eps + 1/2)                               -- … and on the floors of the Zⱼ`.
What is missing for the full statement is not provable: see the witness. -/
theorem stableswap_invariant_nondecreasing_partial {p p' : SSPool} {dIn dOut : String} {amt spread out : Int}
    (hnd : NodupDenoms p.assets) (hamt : 0 ≤ amt) (hs : 0 ≤ spread)
    (h : ssSwapOut p [(dIn, amt)] dOut spread = .ok (out, p')) :
    ∃ aIn aOut, findSS p.assets dIn = some aIn ∧ findSS p.assets dOut = some aOut ∧
      ssInvariant p
        - swapErr (xq aOut) (xq aIn) ((othersOf p dIn dOut).map xq) * ((othersOf p dIn dOut).map xq).prod
        ≤ ssInvariant p' :=
  ssSwapOut_invariant_partial hnd hamt hs h

/-- the error term, spelled out. -/
theorem swapErr_eq (X Y : ℚ) (Zs : List ℚ) (hX : 0 ≤ X) :
    swapErr X Y Zs =
      eps * (X * Y + Y / 2 + 1 / 2 + 2 * Y * (3 / 2 + eps + 5 / 2 * X))
        + X * (2 * Y) * ((Zs.length : ℚ) * (eps / 2))
        + eps * (Y * (3 * X ^ 2 + Y ^ 2 + sumSq Zs) + X * (X ^ 2 + 3 * Y ^ 2 + sumSq Zs))
        + X * Y * (eps * (Zs.map fun z => 2 * z + eps + 1 / 2).sum) := by
  unfold swapErr solverErr wErr
  rw [abs_of_nonneg hX]; ring

/-- PARTIAL, relative form.  If moreover every scaled reserve of the pool is at least 1 (`sf ≤ reserve`, the lower
bound of `validatePoolLiquidity`), an exact-in swap loses at most the fraction `18·10^-36` of the invariant
(precisely `(15 + n/2)·10^-36`, `n ≤ 6` the number of assets not swapped). -/
theorem stableswap_invariant_relative_partial {p p' : SSPool} {dIn dOut : String} {amt spread out : Int}
    (hnd : NodupDenoms p.assets) (hamt : 0 ≤ amt) (hs : 0 ≤ spread)
    (hvalid : ∀ a ∈ p.assets, a.sf ≤ a.amount)
    (h : ssSwapOut p [(dIn, amt)] dOut spread = .ok (out, p')) :
    ssInvariant p * (1 - 18 * eps) ≤ ssInvariant p' :=
  ssSwapOut_invariant_rel hnd hamt hs hvalid h

/-- FULL (conditional on every scaling factor being 1).  On a pool whose scaling factors are all 1 an exact-in swap
NEVER decreases the exact invariant: the scaled reserves are whole numbers, the kernel is an integer before and
after, the roundings left inside the solver are worth less than one unit of it, and a fractional solver amount is
truncated in the pool's favour by more than they can take. -/
theorem stableswap_invariant_nondecreasing_unit_scaling {p p' : SSPool} {dIn dOut : String} {amt spread out : Int}
    (hnd : NodupDenoms p.assets) (hsf : ∀ a ∈ p.assets, a.sf = 1) (hamt : 0 ≤ amt) (hs : 0 ≤ spread)
    (h : ssSwapOut p [(dIn, amt)] dOut spread = .ok (out, p')) : ssInvariant p ≤ ssInvariant p' :=
  ssSwapOut_unit_full hnd hsf hamt hs h

/-- FULL (conditional on a spread charge that pays for the roundings).  On a pool whose scaled reserves are all ≥ 1,
if `40·R_in ≤ tokenIn·spread·10^18` (`spread` the raw 18-decimal spread factor in [0, 1], `R_in` the integer in-reserve:
e.g. spread 0.3 % and tokenIn 1 cover every in-reserve up to 7.5·10^31) an exact-in swap NEVER decreases the exact
invariant: the spread charge that stays in the pool raises the invariant by more than `18·10^-36` of it. -/
theorem stableswap_invariant_nondecreasing_of_spread {p p' : SSPool} {dIn dOut : String} {amt spread out : Int}
    (hnd : NodupDenoms p.assets) (hamt : 0 ≤ amt) (hs : 0 ≤ spread) (hs1 : spread ≤ P18)
    (hvalid : ∀ a ∈ p.assets, a.sf ≤ a.amount)
    (hbig : ∀ aIn, findSS p.assets dIn = some aIn → 40 * aIn.amount ≤ amt * spread * 10 ^ 18)
    (h : ssSwapOut p [(dIn, amt)] dOut spread = .ok (out, p')) : ssInvariant p ≤ ssInvariant p' :=
  ssSwapOut_spread_full hnd hamt hs hs1 hvalid hbig h

/-! ## exact-out: what is true for every swap -/

/-- FULL.  The new reserves of `SwapInAmtGivenOut`: in + the integer charged, out − tokenOut, rest unchanged; the
out-reserve stays positive, i.e. `tokenOut < reserve` is necessary for success. -/
theorem ss_swap_in_reserves {p p' : SSPool} {dIn dOut : String} {amt spread tin : Int}
    (h : ssSwapIn p [(dOut, amt)] dIn spread = .ok (tin, p')) :
    ssCalcIn p [(dOut, amt)] dIn spread = .ok tin ∧
    p'.assets = p.assets.map (swapOutAsset dIn dOut tin amt) ∧ p'.totalShares = p.totalShares ∧
    (∀ a, findSS p.assets dIn = some a → dIn ≠ dOut →
        swapOutAsset dIn dOut tin amt a = { a with amount := a.amount + tin }) ∧
    (∀ a, findSS p.assets dOut = some a → dIn ≠ dOut →
        swapOutAsset dIn dOut tin amt a = { a with amount := a.amount - amt } ∧ amt < a.amount) ∧
    (∀ a ∈ p.assets, a.denom ≠ dIn → a.denom ≠ dOut → swapOutAsset dIn dOut tin amt a = a) := by
  obtain ⟨hc, _, hp', hts, hpos⟩ := ssSwapIn_spec h
  refine ⟨hc, hp', hts, fun a ha hne => swapOutAsset_in (findSS_some ha).2 hne, fun a ha hne => ?_,
    fun a _ h1 h2 => swapOutAsset_other h1 h2⟩
  obtain ⟨hm, hd⟩ := findSS_some ha
  refine ⟨swapOutAsset_out hd hne, ?_⟩
  have := hpos a hm
  rw [amountOf_single, amountOf_single, if_neg (by rw [hd]; exact hne), if_pos hd.symm] at this
  omega

/-- FULL.  `CalcInAmtGivenOut` succeeds only for `tokenOut < out-reserve`; the result is positive. -/
theorem ss_calc_in_lt_reserve {p : SSPool} {dIn dOut : String} {amt spread tin : Int}
    (hs : 0 ≤ spread) (hs1 : spread < P18) (h : ssCalcIn p [(dOut, amt)] dIn spread = .ok tin) :
    ∃ aIn aOut, findSS p.assets dIn = some aIn ∧ findSS p.assets dOut = some aOut ∧ dIn ≠ dOut ∧
      0 < tin ∧ amt < aOut.amount ∧ 0 < aIn.amount := by
  obtain ⟨aIn, aOut, _, _, _, _, _, _, hIn, hOut, hne, _, _, _, _, _, _, _, _, i1, amIn, _, _, _, hlt⟩ :=
    ssCalcIn_point hs hs1 h
  exact ⟨aIn, aOut, hIn, hOut, hne, i1, hlt, amIn⟩

/-- FULL (facts D, exact-out).  With `x0`, `y0` the 36-decimal floors of the exact scaled in and out reserves,
`tout = ⌈tokenOut/sf⌉₃₆` and `cfmmIn` (negative) the solver's answer for `yIn = −tout`: the exact post-swap scaled
out-reserve dominates the solver's point, the in-reserve does so only up to `10^-18/sf_in`:
`Y' = (R_out − tokenOut)/sf_out ≥ (y0 − tout)/10^36` and `X' = (R_in + tokenIn)/sf_in > (x0 − cfmmIn)/10^36 − 10^-18/sf_in`. -/
theorem ss_swap_in_post_reserves_vs_solver_point {p p' : SSPool} {dIn dOut : String} {amt spread tin : Int}
    (hs : 0 ≤ spread) (hs1 : spread < P18) (h : ssSwapIn p [(dOut, amt)] dIn spread = .ok (tin, p')) :
    ∃ aIn aOut x0 y0 w tout cfmmIn rem,
      findSS p.assets dIn = some aIn ∧ findSS p.assets dOut = some aOut ∧ dIn ≠ dOut ∧
      x0 = (aIn.amount * P36).tdiv aIn.sf ∧ y0 = (aOut.amount * P36).tdiv aOut.sf ∧
      List.Forall₂ (fun c r => r = (c.amount * P36).tdiv c.sf) (othersOf p dIn dOut) rem ∧
      sumSquares rem = some w ∧ solveCfmmMulti x0 y0 w (-tout) = some cfmmIn ∧
      rq (x0 - cfmmIn) - 1 / (10 ^ 18 * (aIn.sf : ℚ)) < xq { aIn with amount := aIn.amount + tin } ∧
      rq (y0 + -tout) ≤ xq { aOut with amount := aOut.amount - amt } := by
  obtain ⟨hc, _, _, _, _⟩ := ssSwapIn_spec h
  obtain ⟨aIn, aOut, x0, y0, w, tout, cfmmIn, rem, hIn, hOut, hne, sfIn, sfOut, _, hx0, hy0, hrem, hw, hsol,
    _, amIn, amOut, u1, q, _⟩ := ssCalcIn_point hs hs1 hc
  obtain ⟨bx1, _, _⟩ := scaled_down_rq sfIn (Int.le_of_lt amIn) hx0
  obtain ⟨by1, _, _⟩ := scaled_down_rq sfOut (Int.le_of_lt amOut) hy0
  refine ⟨aIn, aOut, x0, y0, w, tout, cfmmIn, rem, hIn, hOut, hne, hx0, hy0, hrem, hw, hsol, ?_, ?_⟩
  · unfold xq; simp only; push_cast; rw [add_div, rq_sub]; linarith
  · unfold xq; simp only; push_cast; rw [sub_div, rq_add, rq_neg]; linarith

/-- PARTIAL (the FULL statement is FALSE: `stableswap_invariant_decrease_witness_exact_out`).  For every pool with
pairwise distinct denoms and every successful exact-out swap of a non-negative amount at a spread factor in [0, 1):
`ssInvariant p' ≥ ssInvariant p − swapInErr X Y d Zs · Π Zs` with `X`, `Y` the exact scaled in and out reserves
BEFORE the swap, `d = 10^-18/sf_in`, `Zs` the other exact scaled reserves and
`swapInErr = solverErr X Y Y X + d·Y·(3(2X)² + Y² + W) + 2X·Y·n·eps/2
           + eps·(Y·(3X² + Y² + W) + X·(X² + 3Y² + W)) + X·Y·eps·Σ (2·Zⱼ + eps + 1/2)`.
The `d` term (18-decimal truncation before `Ceil`) is the only one not of relative order 10^-36; no input realising it
was found (it needs the solver's amount times `sf_in` to fall within 10^-18 above a whole number). -/
theorem stableswap_invariant_nondecreasing_exact_out_partial {p p' : SSPool} {dIn dOut : String}
    {amt spread tin : Int} (hnd : NodupDenoms p.assets) (hamt : 0 ≤ amt) (hs : 0 ≤ spread) (hs1 : spread < P18)
    (h : ssSwapIn p [(dOut, amt)] dIn spread = .ok (tin, p')) :
    ∃ aIn aOut, findSS p.assets dIn = some aIn ∧ findSS p.assets dOut = some aOut ∧
      ssInvariant p
        - swapInErr (xq aIn) (xq aOut) (1 / (10 ^ 18 * (aIn.sf : ℚ))) ((othersOf p dIn dOut).map xq)
            * ((othersOf p dIn dOut).map xq).prod
        ≤ ssInvariant p' :=
  ssSwapIn_invariant_partial hnd hamt hs hs1 h

/-- PARTIAL, relative form, exact-out.  If every scaled reserve of the pool is at least 1, an exact-out swap loses at
most the fraction `12/(10^18·R_in) + 16·10^-36` of the invariant, `R_in` the integer in-reserve before the swap. -/
theorem stableswap_invariant_relative_exact_out_partial {p p' : SSPool} {dIn dOut : String}
    {amt spread tin : Int} (hnd : NodupDenoms p.assets) (hamt : 0 ≤ amt) (hs : 0 ≤ spread) (hs1 : spread < P18)
    (hvalid : ∀ a ∈ p.assets, a.sf ≤ a.amount)
    (h : ssSwapIn p [(dOut, amt)] dIn spread = .ok (tin, p')) :
    ∃ aIn, findSS p.assets dIn = some aIn ∧
      ssInvariant p * (1 - 12 / (10 ^ 18 * (aIn.amount : ℚ)) - 16 * eps) ≤ ssInvariant p' :=
  ssSwapIn_invariant_rel hnd hamt hs hs1 hvalid h

/-! ## non-vacuity -/

/-- a 3-asset pool with scaling factors 1, 1, 10^12 and a 2-asset pool with factors 1 and 10. -/
def ss3 : SSPool := ⟨[⟨"tka", 1000000, 1⟩, ⟨"tkb", 2000000, 1⟩, ⟨"tkc", 1500000000000000000, 10 ^ 12⟩], 100 * P18⟩
def ss2 : SSPool := ⟨[⟨"tka", 1000000, 1⟩, ⟨"tkb", 10000000, 10⟩], 100 * P18⟩

example : NodupDenoms ss3.assets ∧ ∀ a ∈ ss3.assets, a.sf ≤ a.amount := ⟨by unfold NodupDenoms; decide, by decide⟩
example : NodupDenoms ss2.assets ∧ ∀ a ∈ ss2.assets, a.sf ≤ a.amount := ⟨by unfold NodupDenoms; decide, by decide⟩
example : ∃ r, ssSwapOut ss3 [("tka", 1000)] "tkc" (3 * 10 ^ 15) = .ok r :=
  ⟨(1176846796409503, ⟨[⟨"tka", 1001000, 1⟩, ⟨"tkb", 2000000, 1⟩, ⟨"tkc", 1498823153203590497, 10 ^ 12⟩], 100 * P18⟩),
    by decide +kernel⟩
example : ∃ r, ssSwapOut ss2 [("tka", 1000)] "tkb" 0 = .ok r :=
  ⟨(9999, ⟨[⟨"tka", 1001000, 1⟩, ⟨"tkb", 9990001, 10⟩], 100 * P18⟩), by decide +kernel⟩

example : ∃ r, ssSwapIn ss3 [("tkc", 1000000000000000)] "tka" (3 * 10 ^ 15) = .ok r :=
  ⟨(850, ⟨[⟨"tka", 1000850, 1⟩, ⟨"tkb", 2000000, 1⟩, ⟨"tkc", 1499000000000000000, 10 ^ 12⟩], 100 * P18⟩),
    by decide +kernel⟩
example : ∃ r, ssSwapIn ss2 [("tkb", 9999)] "tka" 0 = .ok r :=
  ⟨(1000, ⟨[⟨"tka", 1001000, 1⟩, ⟨"tkb", 9990001, 10⟩], 100 * P18⟩), by decide +kernel⟩

/-- the spread condition of `stableswap_invariant_nondecreasing_of_spread` on `ss3` (0.3 % of 1000 tka). -/
example : ∀ aIn, findSS ss3.assets "tka" = some aIn → 40 * aIn.amount ≤ 1000 * (3 * 10 ^ 15) * 10 ^ 18 := by
  intro aIn h
  have : aIn = ⟨"tka", 1000000, 1⟩ := by
    have : findSS ss3.assets "tka" = some ⟨"tka", 1000000, 1⟩ := by decide
    rw [this] at h; injection h with h; exact h.symm
  subst this; decide

/-- all scaling factors 1: three assets. -/
def ssU : SSPool := ⟨[⟨"tka", 1000000, 1⟩, ⟨"tkb", 2000000, 1⟩, ⟨"tkc", 1500000, 1⟩], 100 * P18⟩

example : NodupDenoms ssU.assets ∧ ∀ a ∈ ssU.assets, a.sf = 1 := by
  refine ⟨by unfold NodupDenoms; decide, by decide⟩
example : ∃ r, ssSwapOut ssU [("tka", 1000)] "tkc" 0 = .ok r :=
  ⟨(1180, ⟨[⟨"tka", 1001000, 1⟩, ⟨"tkb", 2000000, 1⟩, ⟨"tkc", 1498820, 1⟩], 100 * P18⟩), by decide +kernel⟩
/-- the conditional FULL theorem applied. -/
example : ssInvariant ssU ≤ ssInvariant ⟨[⟨"tka", 1001000, 1⟩, ⟨"tkb", 2000000, 1⟩, ⟨"tkc", 1498820, 1⟩], 100 * P18⟩ :=
  stableswap_invariant_nondecreasing_unit_scaling (by unfold NodupDenoms; decide) (by decide) (by decide) (by decide)
    (show ssSwapOut ssU [("tka", 1000)] "tkc" 0 = .ok (1180, _) by decide +kernel)

/-- the solver-level statement on raw values. -/
example : ∃ xOut, solveCfmmMulti (1000000 * P36) (1000000 * P36) 0 (1000 * P36) = some xOut ∧
    kq (rq (1000000 * P36)) (rq (1000000 * P36)) (rq 0)
        - solverErr (rq (1000000 * P36)) (rq (1000000 * P36)) (rq (1000000 * P36 + 1000 * P36)) (rq xOut)
      ≤ kq (rq (1000000 * P36 - xOut)) (rq (1000000 * P36 + 1000 * P36)) (rq 0) :=
  ⟨999999999499401326374936616048216819764, by decide +kernel,
    (solver_post_exact_partial (by decide +kernel)).2.2.2.2.2⟩

end OsmoVerif.Props.C04Stable
