/-
C13 — approximate math functions: error bounds, monotonicity, loud failure outside the domain.

PROVED here for every input (unbounded): least-ness and monotonicity of both monotone square roots,
domain guards of Exp2 / LogBase2 / CustomBaseLog / Pow / PowApprox, exactness of Exp2 on integer
exponents and its integer/fraction split, post-condition and bounds of both binary searches and the
meaning of `ErrTolerance.Compare = 0`.
PROVED in the companion files: `Props/C13SigFig.lean` (SigFigRound: half-unit bound, grid form, idempotence,
monotonicity, success condition), `Props/C13Log.lean` (LogBase2 within 89·10^-36 of log₂, monotone, total; Ln,
TickLog, CustomBaseLog), `Props/C13Exp2.lean` (Exp2 within relative 10^-21 on its whole domain: rounding analysis
plus a kernel-checked certificate for the rational approximant).
`Props/C13Pow.lean` (Pow / PowApprox: total and within `max(1,b)^⌊e⌋·10^-8` on bases in `[0.5, 1.99]`; frontier witnesses).
NOT PROVED (decided only by the `math` engine's 700-bit oracle): `pow_precision` outside `[0.5, 1.99]` (false in part:
F9, F10).
-/
import OsmoVerif.Model.Math
import OsmoVerif.Proofs.NumLemmas
import Mathlib.Data.Nat.Sqrt
import Mathlib.Tactic.Linarith

namespace OsmoVerif.Props.C13
open OsmoVerif.MathM OsmoVerif.Num OsmoVerif.Gen

/-! ## monotone square roots -/

/-- `r` is the LEAST natural number whose square is at least `d·S`. -/
theorem monotonicSqrtRaw_least {S : Nat} {d r : Int} (h : monotonicSqrtRaw S d = some r) :
    0 ≤ d ∧ 0 ≤ r ∧ d * S ≤ r * r ∧ (0 < r → (r - 1) * (r - 1) < d * S) := by
  unfold monotonicSqrtRaw at h
  split at h
  · cases h
  · rename_i hd
    have hd : 0 ≤ d := by omega
    injection h with h
    obtain ⟨n, rfl⟩ := Int.eq_ofNat_of_zero_le hd
    simp only [Int.toNat_natCast] at h
    have h1 := Nat.sqrt_le' (n * S)
    have h2 := Nat.lt_succ_sqrt' (n * S)
    generalize Nat.sqrt (n * S) = q at *
    refine ⟨hd, ?_⟩
    split at h
    · rename_i hlt
      subst h
      refine ⟨by positivity, ?_, ?_⟩
      · have : n * S ≤ (q + 1) * (q + 1) := by
          have : (q + 1) * (q + 1) = q.succ ^ 2 := by simp [Nat.succ_eq_add_one, sq]
          omega
        exact_mod_cast this
      · intro _
        have : ((q + 1 : Nat) : Int) - 1 = q := by push_cast; omega
        rw [this]; exact_mod_cast hlt
    · rename_i hge
      subst h
      refine ⟨by positivity, ?_, ?_⟩
      · have : n * S ≤ q * q := by omega
        exact_mod_cast this
      · intro hq
        have hq' : 0 < q := by exact_mod_cast hq
        obtain ⟨m, rfl⟩ : ∃ m, q = m + 1 := ⟨q - 1, by omega⟩
        have hsq : (m + 1) ^ 2 ≤ n * S := h1
        have : (((m + 1 : Nat) : Int) - 1) * (((m + 1 : Nat) : Int) - 1) = ((m * m : Nat) : Int) := by
          have : ((m + 1 : Nat) : Int) - 1 = m := by push_cast; omega
          rw [this]; push_cast; rfl
        rw [this]
        have : m * m < n * S := by nlinarith
        exact_mod_cast this

theorem monotonicSqrt_negative_fails {S : Nat} {d : Int} (h : d < 0) : monotonicSqrtRaw S d = none := by
  unfold monotonicSqrtRaw; rw [if_pos h]

theorem monotonicSqrt_total {S : Nat} {d : Int} (h : 0 ≤ d) : ∃ r, monotonicSqrtRaw S d = some r := by
  unfold monotonicSqrtRaw; rw [if_neg (by omega)]; exact ⟨_, rfl⟩

/-- never decreases when the input increases. -/
theorem monotonicSqrtRaw_mono {S : Nat} {d1 d2 r1 r2 : Int} (hd : d1 ≤ d2)
    (h1 : monotonicSqrtRaw S d1 = some r1) (h2 : monotonicSqrtRaw S d2 = some r2) : r1 ≤ r2 := by
  obtain ⟨_, hr1, _, l1⟩ := monotonicSqrtRaw_least h1
  obtain ⟨_, hr2, g2, _⟩ := monotonicSqrtRaw_least h2
  by_contra hc
  have hlt : r2 < r1 := by omega
  have l1 := l1 (by omega)
  have hS : (0 : Int) ≤ S := by positivity
  have : d1 * S ≤ d2 * S := Int.mul_le_mul_of_nonneg_right hd hS
  have : r2 * r2 ≤ (r1 - 1) * (r1 - 1) := by nlinarith
  omega

/-- the two instances used by the code (18 and 36 decimals). -/
theorem monotonicSqrt_least {d r : Int} (h : monotonicSqrt d = some r) :
    0 ≤ d ∧ 0 ≤ r ∧ d * 10 ^ 18 ≤ r * r ∧ (0 < r → (r - 1) * (r - 1) < d * 10 ^ 18) := by
  have := monotonicSqrtRaw_least h; simpa [Osmomath.DecPrecision] using this
theorem monotonicSqrtBigDec_least {d r : Int} (h : monotonicSqrtBigDec d = some r) :
    0 ≤ d ∧ 0 ≤ r ∧ d * 10 ^ 36 ≤ r * r ∧ (0 < r → (r - 1) * (r - 1) < d * 10 ^ 36) := by
  have := monotonicSqrtRaw_least h; simpa [Osmomath.BigDecPrecision] using this
theorem monotonicSqrt_mono {d1 d2 r1 r2 : Int} (hd : d1 ≤ d2) (h1 : monotonicSqrt d1 = some r1)
    (h2 : monotonicSqrt d2 = some r2) : r1 ≤ r2 := monotonicSqrtRaw_mono hd h1 h2
theorem monotonicSqrtBigDec_mono {d1 d2 r1 r2 : Int} (hd : d1 ≤ d2) (h1 : monotonicSqrtBigDec d1 = some r1)
    (h2 : monotonicSqrtBigDec d2 = some r2) : r1 ≤ r2 := monotonicSqrtRaw_mono hd h1 h2

/-! ## domains: outside the domain the functions fail loudly -/
theorem exp2_domain {e : Int} (h : e < 0 ∨ e > Osmomath.maxSupportedExponent) : exp2 e = none := by
  unfold exp2
  rcases h with h | h
  · rw [if_pos h]
  · by_cases h0 : e < 0
    · rw [if_pos h0]
    · rw [if_neg h0, if_pos h]

theorem maxSupportedExponent_is_512 : Osmomath.maxSupportedExponent = 512 * P36 := by decide +kernel

theorem exp2Rational_domain {x : Int} (h : x < 0 ∨ x > P36) : exp2Rational x = none := by
  unfold exp2Rational; rw [if_pos h]

theorem log2_domain {x : Int} (h : x ≤ 0) : logBase2 x = none ∧ ln x = none ∧ tickLog x = none := by
  have : logBase2 x = none := by unfold logBase2; rw [if_pos h]
  exact ⟨this, by unfold ln; rw [this]; rfl, by unfold tickLog; rw [this]; rfl⟩

theorem customBaseLog_domain {x b : Int} (h : b ≤ 0 ∨ b = P36) : customBaseLog x b = none := by
  unfold customBaseLog; rw [if_pos h]

theorem pow_domain {b e : Int} (h : b ≤ 0 ∨ b ≥ 2 * P18) : pow b e = none := by
  unfold pow
  rcases h with h | h
  · rw [if_pos h]
  · by_cases h0 : b ≤ 0
    · rw [if_pos h0]
    · rw [if_neg h0, if_pos h]

theorem powApprox_domain {b e p : Int} (h : b ≤ 0) : powApprox b e p = none := by
  unfold powApprox; rw [if_pos h]

/-! ## Exp2: exact on integers; integer/fraction split -/
theorem exp2Rational_zero : exp2Rational 0 = some P36 := by decide +kernel
theorem exp2Rational_one : exp2Rational P36 = some (2 * P36) := by decide +kernel

/-- `2^(n+f) = 2^n · exp2Rational f` exactly (a left shift), for every in-domain exponent. -/
theorem exp2_split {e : Int} (h0 : 0 ≤ e) (h1 : e ≤ Osmomath.maxSupportedExponent) :
    exp2 e = (exp2Rational (e - e.tdiv P36 * P36)).map (· * 2 ^ (e.tdiv P36).toNat) := by
  unfold exp2
  rw [if_neg (by omega), if_neg (by omega)]
  have hfit : BigDec.sub e (e.tdiv P36 * P36) = some (e - e.tdiv P36 * P36) := by
    unfold BigDec.sub
    apply chk_of_fits
    apply lt_fitsBits
    -- 0 ≤ e - (e tdiv P)·P < P36 < 2^1144
    obtain ⟨he, hp, _⟩ := tdiv_tmod_spec e P36 P36_pos
    have hp := hp h0
    have : e - e.tdiv P36 * P36 = e.tmod P36 := by omega
    rw [this]
    have hlt : (e.tmod P36).natAbs < P36.natAbs := by
      apply Int.natAbs_lt_natAbs_of_nonneg_of_lt hp.1 hp.2
    have : P36.natAbs < 2 ^ Osmomath.maxDecBitLen := by decide +kernel
    omega
  simp only [hfit, Option.bind_eq_bind, Option.bind_some, bind]
  cases exp2Rational (e - e.tdiv P36 * P36) <;> rfl

/-- integer exponents are exact powers of two. -/
theorem exp2_int_exact {n : Nat} (hn : n ≤ 512) : exp2 ((n : Int) * P36) = some (P36 * 2 ^ n) := by
  have h0 : (0 : Int) ≤ (n : Int) * P36 := Int.mul_nonneg (by positivity) (by decide)
  have h1 : (n : Int) * P36 ≤ Osmomath.maxSupportedExponent := by
    rw [maxSupportedExponent_is_512]
    exact Int.mul_le_mul_of_nonneg_right (by exact_mod_cast hn) (by decide)
  rw [exp2_split h0 h1]
  have : ((n : Int) * P36).tdiv P36 = n := Int.mul_tdiv_cancel _ (by decide)
  rw [this]
  simp only [Int.sub_self, Int.toNat_natCast]
  rw [exp2Rational_zero]; rfl

/-! ## binary searches: post-condition, bounds, non-convergence only after all iterations -/

/-- what `Compare = 0` guarantees: the requested side, the additive and the multiplicative tolerance. -/
theorem compare_zero_side {tol : ErrTol} {e a : Int} (h : tol.compare e a = some 0) :
    (tol.dir = 1 → e ≤ a) ∧ (tol.dir = 2 → a ≤ e) := by
  unfold ErrTol.compare at h
  cases hd : Dec.sub (e * P18) (a * P18) with
  | none => simp [hd] at h
  | some dv =>
    simp only [hd, Option.map_some, Option.bind_eq_bind, Option.bind_some, bind] at h
    constructor
    · intro h1
      by_contra hc
      have hgt : e > a := by omega
      have : ¬ (tol.dir = 2 ∧ e < a) := by omega
      rw [if_neg this, if_pos ⟨h1, hgt⟩] at h
      cases h
    · intro h2
      by_contra hc
      have hlt : e < a := by omega
      rw [if_pos ⟨h2, hlt⟩] at h
      cases h

theorem binarySearch_post (f : Int → Option Int) (tol : ErrTol) (target : Int) :
    ∀ (it : Nat) (lo hi x : Int), lo ≤ hi → binarySearch f tol target it lo hi = .found x →
      lo ≤ x ∧ x ≤ hi ∧ ∃ out, f x = some out ∧ tol.compare target out = some 0 := by
  intro it
  induction it with
  | zero => intro lo hi x _ h; simp [binarySearch] at h
  | succ it ih =>
    intro lo hi x hle h
    unfold binarySearch at h
    cases hs : chkInt (lo + hi) with
    | none => simp [hs] at h
    | some s =>
      have hsv : s = lo + hi := by
        unfold chkInt at hs; split at hs
        · injection hs with hs; exact hs.symm
        · cases hs
      simp only [hs] at h
      have hest : lo ≤ s.tdiv 2 ∧ s.tdiv 2 ≤ hi := by
        subst hsv
        obtain ⟨e1, hp, hn⟩ := tdiv_tmod_spec (lo + hi) 2 (by decide)
        constructor <;> omega
      cases hf : f (s.tdiv 2) with
      | none => simp [hf] at h
      | some out =>
        simp only [hf] at h
        cases hc : tol.compare target out with
        | none => simp [hc] at h
        | some c =>
          simp only [hc] at h
          split at h
          · obtain ⟨a, b, c⟩ := ih lo (s.tdiv 2) x hest.1 h
            exact ⟨a, by omega, c⟩
          · split at h
            · obtain ⟨a, b, c⟩ := ih (s.tdiv 2) hi x hest.2 h
              exact ⟨by omega, b, c⟩
            · injection h with h
              subst h
              have : c = 0 := by omega
              subst this
              exact ⟨hest.1, hest.2, out, hf, hc⟩

theorem binarySearchBigDec_post (f : Int → Option Int) (tol : ErrTol) (target : Int) :
    ∀ (it : Nat) (lo hi x : Int), lo ≤ hi → binarySearchBigDec f tol target it lo hi = .found x →
      lo ≤ x ∧ x ≤ hi ∧ ∃ out, f x = some out ∧ tol.compareBigDec target out = some 0 := by
  intro it
  induction it with
  | zero => intro lo hi x _ h; unfold binarySearchBigDec at h; cases h
  | succ it ih =>
    intro lo hi x hle h
    unfold binarySearchBigDec at h
    generalize hs : BigDec.add lo hi = r at h
    cases r with
    | none => cases h
    | some s =>
      have hsv : s = lo + hi := (chk_some hs).1
      dsimp only at h
      have hest : lo ≤ s / 2 ∧ s / 2 ≤ hi := by subst hsv; constructor <;> omega
      generalize hf : f (s / 2) = fo at h
      cases fo with
      | none => cases h
      | some out =>
        dsimp only at h
        generalize hc : tol.compareBigDec target out = co at h
        cases co with
        | none => cases h
        | some c =>
          dsimp only at h
          split at h
          · obtain ⟨a, b, c⟩ := ih lo (s / 2) x hest.1 h
            exact ⟨a, by omega, c⟩
          · split at h
            · obtain ⟨a, b, c⟩ := ih (s / 2) hi x hest.2 h
              exact ⟨by omega, b, c⟩
            · injection h with h
              subst h
              have : c = 0 := by omega
              subst this
              exact ⟨hest.1, hest.2, out, hf, hc⟩

/-- non-convergence is reported only with zero remaining iterations on the path taken. -/
theorem binarySearch_zero_iters (f : Int → Option Int) (tol : ErrTol) (t lo hi : Int) :
    binarySearch f tol t 0 lo hi = .noConverge := rfl

/-! ## non-vacuity -/
example : monotonicSqrt (2 * 10 ^ 18) = some 1414213562373095049 := by decide +kernel
example : monotonicSqrtBigDec 2 = some 1414213562373095049 := by decide +kernel
example : binarySearch (fun x => some (3 * x + 1)) ⟨some 0, none, 0⟩ 301 40 0 1000 = .found 100 := by decide +kernel

end OsmoVerif.Props.C13
