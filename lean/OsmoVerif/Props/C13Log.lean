/-
C13 — `LogBase2` and the logarithms derived from it (osmomath/decimal.go), over the bit-exact model
`MathM.logBase2` (raw `BigDec` ×10^36).  Real numbers are Mathlib's `ℝ`; `Real.logb 2` is the true log₂.

PROVED for EVERY input (no sampling):
* `logBase2_abs_error`: `|result/10^36 − log₂(x/10^36)| ≤ 89·10^-36` — hence the documented `10^-32`
  (`logBase2_abs_error_documented`) with a factor 10^4 to spare, and `10^-34` (`logBase2_abs_error_1e34`).
  Budget: the 300 half-even squarings and floor halvings perturb log₂ by ≤ 1.5·10^-36 in total (the
  perturbation of step i is scaled by 2^-(i+1)); the bit weights `b_i = ⌊10^36/2^(i+1)⌋` are exact up to bit 36,
  lose < 1 ulp each up to bit 120 and are zero afterwards (84·10^-36 + 2^-120: this truncation dominates and
  makes the result systematically too small); the floor of the right-shift normalisation costs ≤ 2·10^-36;
  the bits after the 300th are worth 2^-300.
* `logBase2_mono` (monotone in x), `logBase2_total` (returns on every positive 1144-bit value).
* `ln_abs_error`, `tickLog_abs_error`, `customBaseLog_abs_error`: the base-2 bound scaled by the base change
  (÷ log₂e, ÷ log₂1.0001, ÷ |log₂ base|) plus half an ulp of the final `Quo`; the deviation of the CODED
  constants `logOfEbase2`, `tickLogOf2` from the true `log₂ e`, `log₂ 1.0001` appears as an explicit term
  (`|1/c − ln 2|·|log₂ x|`); `ln_mono`, `tickLog_mono`.
FALSE of the code: `Exp2` is NOT monotone at the last digits (`exp2_not_monotone_witness`).
-/
import OsmoVerif.Proofs.MathLogDerived
import OsmoVerif.Proofs.MathLogTotal

namespace OsmoVerif.Props.C13Log
open OsmoVerif.MathM OsmoVerif.Num OsmoVerif.Gen OsmoVerif.Spec

/-! ## LogBase2: absolute error -/

/-- MAIN BOUND: `LogBase2` is within `89·10^-36` of the true binary logarithm, for every input on which it returns. -/
theorem logBase2_abs_error {x r : Int} (h : logBase2 x = some r) :
    |(r : ℝ) / 10 ^ 36 - Real.logb 2 ((x : ℝ) / 10 ^ 36)| ≤ 89 / 10 ^ 36 :=
  logBase2_real_error h

theorem logBase2_abs_error_1e34 {x r : Int} (h : logBase2 x = some r) :
    |(r : ℝ) / 10 ^ 36 - Real.logb 2 ((x : ℝ) / 10 ^ 36)| ≤ 1 / 10 ^ 34 := by
  have := logBase2_real_error h
  have e : (89 : ℝ) / 10 ^ 36 ≤ 1 / 10 ^ 34 := by norm_num
  linarith

/-- the documented accuracy ("accurate up to 32 precision digits"). -/
theorem logBase2_abs_error_documented {x r : Int} (h : logBase2 x = some r) :
    |(r : ℝ) / 10 ^ 36 - Real.logb 2 ((x : ℝ) / 10 ^ 36)| ≤ 1 / 10 ^ 32 := by
  have := logBase2_real_error h
  have e : (89 : ℝ) / 10 ^ 36 ≤ 1 / 10 ^ 32 := by norm_num
  linarith

/-! ## LogBase2: monotone and total -/

theorem logBase2_mono {x x' r r' : Int} (hle : x ≤ x') (h : logBase2 x = some r) (h' : logBase2 x' = some r') :
    r ≤ r' := logBase2_monotone hle h h'

/-- no fuel exhaustion and no bit-length panic on a positive representable `BigDec`. -/
theorem logBase2_total {x : Int} (hx : 0 < x) (hfit : x < 2 ^ 1144) : ∃ r, logBase2 x = some r :=
  logBase2_total' hx hfit

/-- domain: exactly the positive values (within the representable range). -/
theorem logBase2_some_iff {x : Int} (hfit : x < 2 ^ 1144) : (∃ r, logBase2 x = some r) ↔ 0 < x := by
  constructor
  · rintro ⟨r, h⟩; exact (logBase2_unfold h).1
  · intro hx; exact logBase2_total hx hfit

/-- the result is an integer exponent plus a fraction in `[0, 1]`: `e·10^36 ≤ r ≤ (e+1)·10^36` where
`2^e ≤ x/10^36 < 2^(e+1)` (`NormSpec`). -/
theorem logBase2_integer_part {x r : Int} (h : logBase2 x = some r) :
    ∃ x2 y2, NormSpec x x2 y2 ∧ y2 ≤ r ∧ r ≤ y2 + P36 := by
  obtain ⟨_, x2, y2, hn, hit⟩ := logBase2_unfold h
  have hb : (0 : Int) ≤ oneHalf36 := by decide +kernel
  have h2b : 2 * oneHalf36 = P36 := by decide +kernel
  have := log2Iter_range _ _ _ _ _ hb hit
  exact ⟨x2, y2, hn, this.1, by omega⟩

/-! ## derived logarithms -/

/-- `Ln`: `63·10^-36` (= 89·10^-36·ln 2 + ½ ulp of `Quo`) plus the error of the coded constant
`logOfEbase2/10^36 ≈ log₂ e` — `|1/c − ln 2|` — times `|log₂ x|`. -/
theorem ln_abs_error {x r : Int} (h : ln x = some r) :
    |(r : ℝ) / 10 ^ 36 - Real.log ((x : ℝ) / 10 ^ 36)| ≤
      63 / 10 ^ 36 + |Real.logb 2 ((x : ℝ) / 10 ^ 36)| *
        |1 / ((Osmomath.logOfEbase2 : ℝ) / 10 ^ 36) - Real.log 2| :=
  ln_real_error h

/-- `TickLog`: `616933·10^-36 ≈ 6.2·10^-31` (= 89·10^-36 / log₂ 1.0001 + ½ ulp) plus the error of the coded
constant `tickLogOf2/10^36 ≈ log₂ 1.0001` times `|log₂ x|`. -/
theorem tickLog_abs_error {x r : Int} (h : tickLog x = some r) :
    |(r : ℝ) / 10 ^ 36 - Real.logb 1.0001 ((x : ℝ) / 10 ^ 36)| ≤
      616933 / 10 ^ 36 + |Real.logb 2 ((x : ℝ) / 10 ^ 36)| *
        |1 / ((Osmomath.tickLogOf2 : ℝ) / 10 ^ 36) - 1 / Real.logb 2 1.0001| :=
  tickLog_real_error h

/-- `CustomBaseLog`: the base-2 error scaled by `1/|log₂ base|` (with `lb` the computed `LogBase2(base)`),
for numerator and denominator, plus half an ulp of the final `Quo`. -/
theorem customBaseLog_abs_error {x base r : Int} (h : customBaseLog x base = some r) :
    ∃ lb : Int, logBase2 base = some lb ∧ lb ≠ 0 ∧ 0 < x ∧ 0 < base ∧ base ≠ P36 ∧
      |(r : ℝ) / 10 ^ 36 - Real.logb ((base : ℝ) / 10 ^ 36) ((x : ℝ) / 10 ^ 36)| ≤
        89 / 10 ^ 36 * (1 + |Real.logb ((base : ℝ) / 10 ^ 36) ((x : ℝ) / 10 ^ 36)|) / |(lb : ℝ) / 10 ^ 36| +
          (1 / 2 + 1 / 10 ^ 36) / 10 ^ 36 :=
  customBaseLog_real_error h

/-- `BigDec.Quo` by a positive divisor is monotone in the dividend. -/
theorem bigQuo_mono {a a' b q q' : Int} (hb : 0 < b) (hle : a ≤ a') (h : BigDec.quo a b = some q)
    (h' : BigDec.quo a' b = some q') : q ≤ q' := by
  unfold BigDec.quo at h h'
  rw [if_neg (by omega)] at h h'
  obtain ⟨rfl, _⟩ := chk_some h
  obtain ⟨rfl, _⟩ := chk_some h'
  have hPP : 0 ≤ P36 * P36 := by decide +kernel
  have h1 : (a * (P36 * P36)).tdiv b ≤ (a' * (P36 * P36)).tdiv b :=
    Int.tdiv_le_tdiv hb (Int.mul_le_mul_of_nonneg_right hle hPP)
  exact (chopRound_isHalfEven P36 _ P36_pos P36_even).mono P36_pos (chopRound_isHalfEven P36 _ P36_pos P36_even) h1

theorem ln_mono {x x' r r' : Int} (hle : x ≤ x') (h : ln x = some r) (h' : ln x' = some r') : r ≤ r' := by
  unfold ln at h h'
  obtain ⟨l, hl, hq⟩ := Option.bind_eq_some_iff.mp h
  obtain ⟨l', hl', hq'⟩ := Option.bind_eq_some_iff.mp h'
  exact bigQuo_mono (by decide) (logBase2_monotone hle hl hl') hq hq'

theorem tickLog_mono {x x' r r' : Int} (hle : x ≤ x') (h : tickLog x = some r) (h' : tickLog x' = some r') :
    r ≤ r' := by
  unfold tickLog at h h'
  obtain ⟨l, hl, hq⟩ := Option.bind_eq_some_iff.mp h
  obtain ⟨l', hl', hq'⟩ := Option.bind_eq_some_iff.mp h'
  exact bigQuo_mono (by decide) (logBase2_monotone hle hl hl') hq hq'

/-! ## Exp2 is not monotone (kernel-checked witness) -/

/-- adjacent inputs `0.5 + 33·10^-36 < 0.5 + 34·10^-36` with DECREASING results: the rounding noise of the
rational approximation (a few ulp) exceeds the slope (≈ 0.98 ulp per ulp). -/
theorem exp2_not_monotone_witness :
    exp2 500000000000000000000000000000000033 = some 1414213562373095048801688724209698112 ∧
    exp2 500000000000000000000000000000000034 = some 1414213562373095048801688724209698111 := by
  decide +kernel

theorem exp2Rational_not_monotone_witness :
    exp2Rational 999999999999999999999999999999997026 = some 1999999999999999999999911575510637006 ∧
    exp2Rational 999999999999999999999999999999997027 = some 1999999999999999999999911575510637003 := by
  decide +kernel

/-! ## non-vacuity -/
example : logBase2 (3 * 10 ^ 36) = some 1584962500721156181453738943947816490 := by decide +kernel
example : logBase2 (10 ^ 36) = some 0 := by decide +kernel
example : logBase2 (8 * 10 ^ 36) = some (3 * 10 ^ 36) := by decide +kernel
example : logBase2 1 = some (-119589411415945044523331499461618046348) := by decide +kernel
example : logBase2 (2 ^ 1143) = some 1023410588584054955476668500538381953652 := by decide +kernel
example : ln (10 ^ 37) = some 2302585092994045684017991454684364189 := by decide +kernel
example : tickLog (10 ^ 37) = some 23027002203299704104435278537073114215448 := by decide +kernel
example : customBaseLog (10 ^ 37) (3 * 10 ^ 36) = some 2095903274289384604296567522021401258 := by decide +kernel
example : ∃ r, logBase2 12345 = some r := logBase2_total (by decide) (by decide +kernel)
/-- the bound is meaningful at a concrete point: log₂ 3 to within 89·10^-36. -/
example : |((1584962500721156181453738943947816490 : Int) : ℝ) / 10 ^ 36 -
    Real.logb 2 (((3 * 10 ^ 36 : Int) : ℝ) / 10 ^ 36)| ≤ 89 / 10 ^ 36 :=
  logBase2_abs_error (by decide +kernel)

end OsmoVerif.Props.C13Log
