/-
C13 — `LogBase2` and the logarithms derived from it (osmomath/decimal.go), over the bit-exact model
`MathM.logBase2` (raw `BigDec` ×10^36).  Real numbers are Mathlib's `ℝ`; `Real.logb 2` is the true log₂.

PROVED for EVERY input (no sampling):
* `logBase2_abs_error`: `|result/10^36 − log₂(x/10^36)| ≤ 89·10^-36` — hence the documented `10^-32`
  (`logBase2_abs_error_documented`) with a factor 10^4 to spare, and `10^-34` (`logBase2_abs_error_1e34`).
  Budget: the 300 half-even squarings and floor halvings perturb log₂ by ≤ 1.5·10^-36 in total (the
  perturbation of step i is scaled by 2^-(i+1)); the bit weights `b_i = ⌊10^36/2^(i+1)⌋` are exact up to bit 36,
  lose < 1 ulp each up to bit 120 and are zero afterwards (84·10^-36 + 2^-120: this truncation dominates and
  makes the result systematically too small); the floor of the right-shift normalisation costs ≤ 2·10^-36;
  the bits after the 300th are worth 2^-300.
* `logBase2_mono` (monotone in x), `logBase2_total` (returns on every positive 1144-bit value).
* `ln_abs_error`, `tickLog_abs_error`, `customBaseLog_abs_error`: the base-2 bound scaled by the base change
  (÷ log₂e, ÷ log₂1.0001, ÷ |log₂ base|) plus half an ulp of the final `Quo`; the deviation of the CODED
  constants `logOfEbase2`, `tickLogOf2` from the true `log₂ e`, `log₂ 1.0001` appears as an explicit term
  (`|1/c − ln 2|·|log₂ x|`) which is then bounded by 40-digit enclosures of ln 2 and ln 1.0001
  (`logOfEbase2_accuracy` 2.1·10^-37, `tickLogOf2_accuracy` 1.5·10^-29): closed forms `ln_abs_error_closed`,
  `tickLog_abs_error_closed`, and `ln_abs_error_representable` (≤ 10^-33 on every representable input);
  `ln_mono`, `tickLog_mono`.
FALSE of the code: `Exp2` is NOT monotone at the last digits (`exp2_not_monotone_witness`); `TickLog` does NOT
meet "10^-32 scaled by the base change" (7·10^-29) in absolute terms: `tickLogOf2` has only 33 significant digits,
the result carries a RELATIVE error 2·10^-33, e.g. 9.2·10^-28 at x = 2^64 (`tickLog_scaled_bound_witness`).
-/
import OsmoVerif.Proofs.MathLogDerived
import OsmoVerif.Proofs.MathLogTotal
import OsmoVerif.Proofs.MathLogConst

namespace OsmoVerif.Props.C13Log
open OsmoVerif.MathM OsmoVerif.Num OsmoVerif.Gen OsmoVerif.Spec

/-! ## LogBase2: absolute error -/

/-- MAIN BOUND: `LogBase2` is within `89·10^-36` of the true binary logarithm, for every input on which it returns. -/
theorem logBase2_abs_error {x r : Int} (h : logBase2 x = some r) :
    |(r : ℝ) / 10 ^ 36 - Real.logb 2 ((x : ℝ) / 10 ^ 36)| ≤ 89 / 10 ^ 36 :=
  logBase2_real_error h

theorem logBase2_abs_error_1e34 {x r : Int} (h : logBase2 x = some r) :
    |(r : ℝ) / 10 ^ 36 - Real.logb 2 ((x : ℝ) / 10 ^ 36)| ≤ 1 / 10 ^ 34 := by
  have := logBase2_real_error h
  have e : (89 : ℝ) / 10 ^ 36 ≤ 1 / 10 ^ 34 := by norm_num
  linarith

/-- the documented accuracy ("accurate up to 32 precision digits"). -/
theorem logBase2_abs_error_documented {x r : Int} (h : logBase2 x = some r) :
    |(r : ℝ) / 10 ^ 36 - Real.logb 2 ((x : ℝ) / 10 ^ 36)| ≤ 1 / 10 ^ 32 := by
  have := logBase2_real_error h
  have e : (89 : ℝ) / 10 ^ 36 ≤ 1 / 10 ^ 32 := by norm_num
  linarith

/-! ## LogBase2: monotone and total -/

theorem logBase2_mono {x x' r r' : Int} (hle : x ≤ x') (h : logBase2 x = some r) (h' : logBase2 x' = some r') :
    r ≤ r' := logBase2_monotone hle h h'

/-- no fuel exhaustion and no bit-length panic on a positive representable `BigDec`. -/
theorem logBase2_total {x : Int} (hx : 0 < x) (hfit : x < 2 ^ 1144) : ∃ r, logBase2 x = some r :=
  logBase2_total' hx hfit

/-- domain: exactly the positive values (within the representable range). -/
theorem logBase2_some_iff {x : Int} (hfit : x < 2 ^ 1144) : (∃ r, logBase2 x = some r) ↔ 0 < x := by
  constructor
  · rintro ⟨r, h⟩; exact (logBase2_unfold h).1
  · intro hx; exact logBase2_total hx hfit

/-- the result is an integer exponent plus a fraction in `[0, 1]`: `e·10^36 ≤ r ≤ (e+1)·10^36` where
`2^e ≤ x/10^36 < 2^(e+1)` (`NormSpec`). -/
theorem logBase2_integer_part {x r : Int} (h : logBase2 x = some r) :
    ∃ x2 y2, NormSpec x x2 y2 ∧ y2 ≤ r ∧ r ≤ y2 + P36 := by
  obtain ⟨_, x2, y2, hn, hit⟩ := logBase2_unfold h
  have hb : (0 : Int) ≤ oneHalf36 := by decide +kernel
  have h2b : 2 * oneHalf36 = P36 := by decide +kernel
  have := log2Iter_range _ _ _ _ _ hb hit
  exact ⟨x2, y2, hn, this.1, by omega⟩

/-! ## derived logarithms -/

/-- `Ln`: `63·10^-36` (= 89·10^-36·ln 2 + ½ ulp of `Quo`) plus the error of the coded constant
`logOfEbase2/10^36 ≈ log₂ e` — `|1/c − ln 2|` — times `|log₂ x|`. -/
theorem ln_abs_error {x r : Int} (h : ln x = some r) :
    |(r : ℝ) / 10 ^ 36 - Real.log ((x : ℝ) / 10 ^ 36)| ≤
      63 / 10 ^ 36 + |Real.logb 2 ((x : ℝ) / 10 ^ 36)| *
        |1 / ((Osmomath.logOfEbase2 : ℝ) / 10 ^ 36) - Real.log 2| :=
  ln_real_error h

/-- `TickLog`: `616933·10^-36 ≈ 6.2·10^-31` (= 89·10^-36 / log₂ 1.0001 + ½ ulp) plus the error of the coded
constant `tickLogOf2/10^36 ≈ log₂ 1.0001` times `|log₂ x|`. -/
theorem tickLog_abs_error {x r : Int} (h : tickLog x = some r) :
    |(r : ℝ) / 10 ^ 36 - Real.logb 1.0001 ((x : ℝ) / 10 ^ 36)| ≤
      616933 / 10 ^ 36 + |Real.logb 2 ((x : ℝ) / 10 ^ 36)| *
        |1 / ((Osmomath.tickLogOf2 : ℝ) / 10 ^ 36) - 1 / Real.logb 2 1.0001| :=
  tickLog_real_error h

/-- `CustomBaseLog`: the base-2 error scaled by `1/|log₂ base|` (with `lb` the computed `LogBase2(base)`),
for numerator and denominator, plus half an ulp of the final `Quo`. -/
theorem customBaseLog_abs_error {x base r : Int} (h : customBaseLog x base = some r) :
    ∃ lb : Int, logBase2 base = some lb ∧ lb ≠ 0 ∧ 0 < x ∧ 0 < base ∧ base ≠ P36 ∧
      |(r : ℝ) / 10 ^ 36 - Real.logb ((base : ℝ) / 10 ^ 36) ((x : ℝ) / 10 ^ 36)| ≤
        89 / 10 ^ 36 * (1 + |Real.logb ((base : ℝ) / 10 ^ 36) ((x : ℝ) / 10 ^ 36)|) / |(lb : ℝ) / 10 ^ 36| +
          (1 / 2 + 1 / 10 ^ 36) / 10 ^ 36 :=
  customBaseLog_real_error h

/-! ## accuracy of the coded base-change constants (40-digit enclosures of ln 2, ln 1.0001) -/

/-- `logOfEbase2/10^36` is `log₂ e` truncated to 36 decimals: `|1/c − ln 2| ≤ 2.1·10^-37`. -/
theorem logOfEbase2_accuracy :
    |1 / ((Osmomath.logOfEbase2 : ℝ) / 10 ^ 36) - Real.log 2| ≤ 21 / 10 ^ 38 :=
  OsmoVerif.MathM.logOfEbase2_accuracy

/-- `tickLogOf2/10^36` carries only 33 significant digits of `log₂ 1.0001`:
`1.4·10^-29 ≤ 1/log₂1.0001 − 1/c ≤ 1.5·10^-29`. -/
theorem tickLogOf2_accuracy :
    |1 / ((Osmomath.tickLogOf2 : ℝ) / 10 ^ 36) - 1 / Real.logb 2 1.0001| ≤ 15 / 10 ^ 30 ∧
    14 / 10 ^ 30 ≤ 1 / Real.logb 2 1.0001 - 1 / ((Osmomath.tickLogOf2 : ℝ) / 10 ^ 36) :=
  OsmoVerif.MathM.tickLogOf2_accuracy

/-- `Ln`, closed form: `63·10^-36 + 2.1·10^-37·|log₂ x|`. -/
theorem ln_abs_error_closed {x r : Int} (h : ln x = some r) :
    |(r : ℝ) / 10 ^ 36 - Real.log ((x : ℝ) / 10 ^ 36)| ≤
      63 / 10 ^ 36 + 21 / 10 ^ 38 * |Real.logb 2 ((x : ℝ) / 10 ^ 36)| := by
  have h1 := ln_real_error h
  have h2 := OsmoVerif.MathM.logOfEbase2_accuracy
  have h3 := abs_nonneg (lg2 x)
  show |bval r - Real.log (bval x)| ≤ 63 / 10 ^ 36 + 21 / 10 ^ 38 * |lg2 x|
  nlinarith

/-- `TickLog`, closed form: `6.17·10^-31 + 1.5·10^-29·|log₂ x|` — the second term (the 33-digit constant)
dominates as soon as `|log₂ x| ≥ 1`. -/
theorem tickLog_abs_error_closed {x r : Int} (h : tickLog x = some r) :
    |(r : ℝ) / 10 ^ 36 - Real.logb 1.0001 ((x : ℝ) / 10 ^ 36)| ≤
      616933 / 10 ^ 36 + 15 / 10 ^ 30 * |Real.logb 2 ((x : ℝ) / 10 ^ 36)| := by
  have h1 := tickLog_real_error h
  have h2 := OsmoVerif.MathM.tickLogOf2_accuracy.1
  have h3 := abs_nonneg (lg2 x)
  show |bval r - Real.logb 1.0001 (bval x)| ≤ 616933 / 10 ^ 36 + 15 / 10 ^ 30 * |lg2 x|
  nlinarith

/-- `|log₂|` of a positive representable `BigDec` is below 1025. -/
theorem lg2_representable {x : Int} (hx : 0 < x) (hfit : x < 2 ^ 1144) :
    |Real.logb 2 ((x : ℝ) / 10 ^ 36)| ≤ 1025 := by
  have hxr : (1 : ℝ) ≤ (x : ℝ) := by exact_mod_cast hx
  have hxr2 : (x : ℝ) < 2 ^ 1144 := by
    have := (Int.cast_lt (R := ℝ)).mpr hfit
    rwa [Int.cast_pow, Int.cast_ofNat] at this
  have hv : (0 : ℝ) < (x : ℝ) / 10 ^ 36 := by positivity
  have hlo : (2 : ℝ) ^ (-120 : ℝ) ≤ (x : ℝ) / 10 ^ 36 := by
    rw [Real.rpow_neg (by norm_num), le_div_iff₀ (by positivity)]
    have : ((2 : ℝ) ^ (120 : ℝ))⁻¹ * 10 ^ 36 ≤ 1 := by
      rw [show (120 : ℝ) = ((120 : ℕ) : ℝ) by norm_num, Real.rpow_natCast]
      rw [inv_mul_le_iff₀ (by positivity)]; norm_num
    linarith
  have hhi : (x : ℝ) / 10 ^ 36 ≤ (2 : ℝ) ^ (1025 : ℝ) := by
    rw [div_le_iff₀ (by positivity), show (1025 : ℝ) = ((1025 : ℕ) : ℝ) by norm_num, Real.rpow_natCast]
    have e : (2 : ℝ) ^ 1144 = 2 ^ 1025 * 2 ^ 119 := by rw [← pow_add]
    have h119 : (2 : ℝ) ^ 119 ≤ 10 ^ 36 := by norm_num
    rw [e] at hxr2
    generalize (2 : ℝ) ^ 1025 = A at hxr2 ⊢
    have hA : 0 ≤ A := by
      by_contra hc
      have : A * 2 ^ 119 ≤ 0 := mul_nonpos_of_nonpos_of_nonneg (by linarith) (by positivity)
      linarith
    have := mul_le_mul_of_nonneg_left h119 hA
    linarith
  have l1 := Real.logb_le_logb_of_le (b := 2) (by norm_num) (by positivity) hlo
  have l2 := Real.logb_le_logb_of_le (b := 2) (by norm_num) hv hhi
  rw [Real.logb_rpow (by norm_num) (by norm_num)] at l1 l2
  rw [abs_le]; constructor <;> linarith

/-- on every representable input `Ln` is within `10^-33` of the true natural logarithm. -/
theorem ln_abs_error_representable {x r : Int} (h : ln x = some r) (hfit : x < 2 ^ 1144) :
    |(r : ℝ) / 10 ^ 36 - Real.log ((x : ℝ) / 10 ^ 36)| ≤ 1 / 10 ^ 33 := by
  have hx : 0 < x := by
    unfold ln at h
    obtain ⟨l, hl, _⟩ := Option.bind_eq_some_iff.mp h
    exact (logBase2_unfold hl).1
  have h1 := ln_abs_error_closed h
  have h2 := lg2_representable hx hfit
  have : (63 : ℝ) / 10 ^ 36 + 21 / 10 ^ 38 * 1025 ≤ 1 / 10 ^ 33 := by norm_num
  nlinarith

/-- WITNESS: the literal clause "tick-base logarithm to an absolute 10^-32 scaled by the base change"
(`10^-32 · 6932 < 7·10^-29`) is FALSE: at `x = 2^64` the result is off by more than `9·10^-28`, entirely because
of the 33-digit constant `tickLogOf2` (`LogBase2(2^64) = 64` is exact).  Relative to the value (4.4·10^5) this is
2·10^-33; the engine's oracle allows for it with a relative term. -/
theorem tickLog_scaled_bound_witness :
    tickLog (2 ^ 64 * 10 ^ 36) = some 443636375898482902732541942399987994735044 ∧
    9 / 10 ^ 28 < Real.logb 1.0001 (((2 ^ 64 * 10 ^ 36 : Int) : ℝ) / 10 ^ 36) -
      ((443636375898482902732541942399987994735044 : Int) : ℝ) / 10 ^ 36 := by
  refine ⟨by decide +kernel, ?_⟩
  obtain ⟨l1, l2⟩ := log_two_bounds_39
  obtain ⟨t1, t2⟩ := log_tick_bounds
  have ht0 : 0 < Real.log 1.0001 := by linarith
  have e1 : ((2 ^ 64 * 10 ^ 36 : Int) : ℝ) / 10 ^ 36 = 2 ^ 64 := by push_cast; field_simp; norm_num
  have e2 : Real.logb 1.0001 ((2 : ℝ) ^ 64) = 64 * (Real.log 2 / Real.log 1.0001) := by
    unfold Real.logb; rw [Real.log_pow]; push_cast; ring
  have r1 : (0.693147180559945309417232121458176568075 : ℝ) / 0.000099995000333308335333166680951131063482065
      ≤ Real.log 2 / Real.log 1.0001 := by
    rw [div_le_div_iff₀ (by norm_num) ht0]; nlinarith
  rw [e1, e2]
  norm_num1 at r1 ⊢
  linarith

/-- `BigDec.Quo` by a positive divisor is monotone in the dividend. -/
theorem bigQuo_mono {a a' b q q' : Int} (hb : 0 < b) (hle : a ≤ a') (h : BigDec.quo a b = some q)
    (h' : BigDec.quo a' b = some q') : q ≤ q' := by
  unfold BigDec.quo at h h'
  rw [if_neg (by omega)] at h h'
  obtain ⟨rfl, _⟩ := chk_some h
  obtain ⟨rfl, _⟩ := chk_some h'
  have hPP : 0 ≤ P36 * P36 := by decide +kernel
  have h1 : (a * (P36 * P36)).tdiv b ≤ (a' * (P36 * P36)).tdiv b :=
    Int.tdiv_le_tdiv hb (Int.mul_le_mul_of_nonneg_right hle hPP)
  exact (chopRound_isHalfEven P36 _ P36_pos P36_even).mono P36_pos (chopRound_isHalfEven P36 _ P36_pos P36_even) h1

theorem ln_mono {x x' r r' : Int} (hle : x ≤ x') (h : ln x = some r) (h' : ln x' = some r') : r ≤ r' := by
  unfold ln at h h'
  obtain ⟨l, hl, hq⟩ := Option.bind_eq_some_iff.mp h
  obtain ⟨l', hl', hq'⟩ := Option.bind_eq_some_iff.mp h'
  exact bigQuo_mono (by decide) (logBase2_monotone hle hl hl') hq hq'

theorem tickLog_mono {x x' r r' : Int} (hle : x ≤ x') (h : tickLog x = some r) (h' : tickLog x' = some r') :
    r ≤ r' := by
  unfold tickLog at h h'
  obtain ⟨l, hl, hq⟩ := Option.bind_eq_some_iff.mp h
  obtain ⟨l', hl', hq'⟩ := Option.bind_eq_some_iff.mp h'
  exact bigQuo_mono (by decide) (logBase2_monotone hle hl hl') hq hq'

/-! ## Exp2 is not monotone (kernel-checked witness) -/

/-- adjacent inputs `0.5 + 33·10^-36 < 0.5 + 34·10^-36` with DECREASING results: the rounding noise of the
rational approximation (a few ulp) exceeds the slope (≈ 0.98 ulp per ulp). -/
theorem exp2_not_monotone_witness :
    exp2 500000000000000000000000000000000033 = some 1414213562373095048801688724209698112 ∧
    exp2 500000000000000000000000000000000034 = some 1414213562373095048801688724209698111 := by
  decide +kernel

theorem exp2Rational_not_monotone_witness :
    exp2Rational 999999999999999999999999999999997026 = some 1999999999999999999999911575510637006 ∧
    exp2Rational 999999999999999999999999999999997027 = some 1999999999999999999999911575510637003 := by
  decide +kernel

/-! ## non-vacuity -/
example : logBase2 (3 * 10 ^ 36) = some 1584962500721156181453738943947816490 := by decide +kernel
example : logBase2 (10 ^ 36) = some 0 := by decide +kernel
example : logBase2 (8 * 10 ^ 36) = some (3 * 10 ^ 36) := by decide +kernel
example : logBase2 1 = some (-119589411415945044523331499461618046348) := by decide +kernel
example : logBase2 (2 ^ 1143) = some 1023410588584054955476668500538381953652 := by decide +kernel
example : ln (10 ^ 37) = some 2302585092994045684017991454684364189 := by decide +kernel
example : tickLog (10 ^ 37) = some 23027002203299704104435278537073114215448 := by decide +kernel
example : customBaseLog (10 ^ 37) (3 * 10 ^ 36) = some 2095903274289384604296567522021401258 := by decide +kernel
example : ∃ r, logBase2 12345 = some r := logBase2_total (by decide) (by decide +kernel)
/-- the bound is meaningful at a concrete point: log₂ 3 to within 89·10^-36. -/
example : |((1584962500721156181453738943947816490 : Int) : ℝ) / 10 ^ 36 -
    Real.logb 2 (((3 * 10 ^ 36 : Int) : ℝ) / 10 ^ 36)| ≤ 89 / 10 ^ 36 :=
  logBase2_abs_error (by decide +kernel)

end OsmoVerif.Props.C13Log
