/-
C13 — `Exp2` (osmomath/exp2.go): the clause "two-to-the-x agrees with the true value to a relative 10^-18",
PROVED IN FULL for every input of the domain [0, 2^9] — with the sharper constant 10^-21.

 (a) ROUNDING: the 36-decimal evaluation of the rational function (6 `MulMut` for the powers, 12 `Mul` + `Add` for
     the two polynomials, one `Quo`) against the EXACT rational function `R(X) = P(X)/Q(X)` of the coded
     coefficients: `|exp2Rational x − R(x)| ≤ 70·10^-36` (`exp2Rational_arith_error`); `Q ≥ 0.65` on [0,1] by a
     termwise bound, so the quotient is well conditioned.
 (b) ANALYTIC: `|R(X) − 2^X| ≤ 10^-21 − 70·10^-36` for all real `X ∈ [0,1]` (`exp2_approximant_accuracy`):
     `2^X = exp(X ln 2)` is enclosed between the degree-23 Taylor polynomials at a 39-decimal lower/upper bound of
     ln 2 (+ Mathlib's explicit remainder), and the two resulting rational polynomials of degree 29 are bounded on
     [0,1] by a certified checker (exact Taylor shift over ℚ on 16 subintervals, Proofs/MathPoly.lean) that the
     kernel evaluates — no floating point, no external oracle.
 (c) the shift by the integer part is exact (`C13.exp2_split`), so the relative error on [0, 512] is that on [0,1).
`exp2_rel_error` is the clause; `exp2_rel_error_of_approximant` is the conditional form for any `ε₀`.
(The true maximum of |R − 2^X| is about 4.4·10^-23, attained at X = 0 where the code special-cases the exact 1.)
-/
import OsmoVerif.Proofs.MathExp2c
import OsmoVerif.Proofs.MathExp2Total
import OsmoVerif.Props.C13

namespace OsmoVerif.Props.C13Exp2
open OsmoVerif.MathM OsmoVerif.Num OsmoVerif.Gen OsmoVerif.Spec Real

/-- (a) rounding error against the exact rational function of the coded coefficients, inputs in (0,1). -/
theorem exp2Rational_arith_error {x r : Int} (h0 : 0 < x) (h1 : x < P36) (h : exp2Rational x = some r) :
    |(r : ℝ) / 10 ^ 36 - (exp2PQ ((x : ℝ) / 10 ^ 36)).1 / (exp2PQ ((x : ℝ) / 10 ^ 36)).2| ≤ 70 / 10 ^ 36 :=
  OsmoVerif.MathM.exp2Rational_arith_error h0 h1 h

/-- the denominator polynomial stays away from zero on [0,1] (and both polynomials are bounded). -/
theorem exp2_denominator_bounds {X : ℝ} (h0 : 0 ≤ X) (h1 : X ≤ 1) :
    1 ≤ (exp2PQ X).1 ∧ (exp2PQ X).1 ≤ 1.42 ∧ 0.65 ≤ (exp2PQ X).2 ∧ (exp2PQ X).2 ≤ 1.06 :=
  exp2PQ_bounds h0 h1

/-- (b) analytic accuracy of the coded approximant on [0,1]. -/
theorem exp2_approximant_accuracy {X : ℝ} (h0 : 0 ≤ X) (h1 : X ≤ 1) :
    |(exp2PQ X).1 / (exp2PQ X).2 - (2 : ℝ) ^ X| ≤ 1 / 10 ^ 21 - 70 / 10 ^ 36 :=
  exp2PQ_analytic h0 h1

/-- conditional form (absolute error on [0,1]) for an arbitrary accuracy `ε₀` of the approximant. -/
theorem exp2Rational_abs_error_of_approximant {ε₀ : ℝ}
    (hA : ∀ X : ℝ, 0 ≤ X → X ≤ 1 → |(exp2PQ X).1 / (exp2PQ X).2 - (2 : ℝ) ^ X| ≤ ε₀)
    {x r : Int} (h : exp2Rational x = some r) :
    |(r : ℝ) / 10 ^ 36 - (2 : ℝ) ^ ((x : ℝ) / 10 ^ 36)| ≤ ε₀ + 70 / 10 ^ 36 := by
  have hε : 0 ≤ ε₀ := le_trans (abs_nonneg _) (hA 0 (le_refl _) (by norm_num))
  have hdom : 0 ≤ x ∧ x ≤ P36 := by
    by_contra hc
    rw [C13.exp2Rational_domain (by omega)] at h; cases h
  rcases Int.lt_or_eq_of_le hdom.1 with hpos | rfl
  · rcases Int.lt_or_eq_of_le hdom.2 with hlt | rfl
    · have ha := OsmoVerif.MathM.exp2Rational_arith_error hpos hlt h
      have hX0 : 0 ≤ bval x := (bval_pos hpos).le
      have hX1 : bval x ≤ 1 := by
        have : (x : ℝ) < ((P36 : Int) : ℝ) := by exact_mod_cast hlt
        rw [P36_cast] at this
        unfold bval; rw [div_le_one (by positivity)]; linarith
      have hb := hA (bval x) hX0 hX1
      have tri := abs_sub_le (bval r) ((exp2PQ (bval x)).1 / (exp2PQ (bval x)).2) ((2 : ℝ) ^ bval x)
      show |bval r - (2 : ℝ) ^ bval x| ≤ _
      linarith
    · rw [C13.exp2Rational_one] at h
      obtain rfl := Option.some.inj h
      have e1 : ((P36 : Int) : ℝ) / 10 ^ 36 = 1 := by rw [P36_cast]; field_simp
      have e2 : ((2 * P36 : Int) : ℝ) / 10 ^ 36 = 2 := by push_cast; rw [P36_cast]; field_simp
      rw [e1, e2, Real.rpow_one, sub_self, abs_zero]; positivity
  · rw [C13.exp2Rational_zero] at h
    obtain rfl := Option.some.inj h
    have e1 : ((P36 : Int) : ℝ) / 10 ^ 36 = 1 := by rw [P36_cast]; field_simp
    rw [e1]; simp only [Int.cast_zero, zero_div, Real.rpow_zero, sub_self, abs_zero]; positivity

/-- conditional form: relative error of `Exp2` on its whole domain `[0, 2^9]` given the accuracy `ε₀` of the approximant. -/
theorem exp2_rel_error_of_approximant {ε₀ : ℝ}
    (hA : ∀ X : ℝ, 0 ≤ X → X ≤ 1 → |(exp2PQ X).1 / (exp2PQ X).2 - (2 : ℝ) ^ X| ≤ ε₀)
    {e r : Int} (h : exp2 e = some r) :
    |(r : ℝ) / 10 ^ 36 - (2 : ℝ) ^ ((e : ℝ) / 10 ^ 36)| ≤ (ε₀ + 70 / 10 ^ 36) * (2 : ℝ) ^ ((e : ℝ) / 10 ^ 36) := by
  have hε : 0 ≤ ε₀ := le_trans (abs_nonneg _) (hA 0 (le_refl _) (by norm_num))
  have hdom : 0 ≤ e ∧ e ≤ Osmomath.maxSupportedExponent := by
    by_contra hc
    rw [C13.exp2_domain (by omega)] at h; cases h
  rw [C13.exp2_split hdom.1 hdom.2] at h
  obtain ⟨fr, hfr, rfl⟩ := Option.map_eq_some_iff.mp h
  have hab := exp2Rational_abs_error_of_approximant hA hfr
  obtain ⟨e1, hp, _⟩ := tdiv_tmod_spec e P36 P36_pos
  have hq0 : 0 ≤ e.tdiv P36 := Int.tdiv_nonneg hdom.1 (by decide)
  set n := (e.tdiv P36).toNat with hn
  have hnq : (n : Int) = e.tdiv P36 := by omega
  set f := e - e.tdiv P36 * P36 with hf
  have hf0 : 0 ≤ f := by have := hp hdom.1; omega
  have hfr0 : (0 : ℝ) ≤ (f : ℝ) / 10 ^ 36 := by
    have : (0 : ℝ) ≤ (f : ℝ) := by exact_mod_cast hf0
    positivity
  -- 2^(e) = 2^n · 2^(frac)
  have esplit : (e : ℝ) / 10 ^ 36 = (n : ℝ) + (f : ℝ) / 10 ^ 36 := by
    have : e = (n : Int) * P36 + f := by rw [hnq, hf]; ring
    have : (e : ℝ) = ((n : Int) : ℝ) * ((P36 : Int) : ℝ) + (f : ℝ) := by exact_mod_cast this
    rw [this, P36_cast]; push_cast; field_simp
  have hpow : (2 : ℝ) ^ ((e : ℝ) / 10 ^ 36) = 2 ^ n * (2 : ℝ) ^ ((f : ℝ) / 10 ^ 36) := by
    rw [esplit, Real.rpow_add (by norm_num), Real.rpow_natCast]
  have h2n : (0 : ℝ) < 2 ^ n := by positivity
  have hge1 : (1 : ℝ) ≤ (2 : ℝ) ^ ((f : ℝ) / 10 ^ 36) := Real.one_le_rpow (by norm_num) hfr0
  have ecast : ((fr * 2 ^ n : Int) : ℝ) / 10 ^ 36 = 2 ^ n * ((fr : ℝ) / 10 ^ 36) := by push_cast; ring
  rw [ecast, hpow, ← mul_sub, abs_mul, abs_of_pos h2n]
  have hδ : 0 ≤ ε₀ + 70 / 10 ^ 36 := by positivity
  calc 2 ^ n * |(fr : ℝ) / 10 ^ 36 - (2 : ℝ) ^ ((f : ℝ) / 10 ^ 36)| ≤ 2 ^ n * (ε₀ + 70 / 10 ^ 36) :=
        mul_le_mul_of_nonneg_left hab h2n.le
    _ ≤ 2 ^ n * ((ε₀ + 70 / 10 ^ 36) * (2 : ℝ) ^ ((f : ℝ) / 10 ^ 36)) := by
        apply mul_le_mul_of_nonneg_left _ h2n.le
        nlinarith
    _ = _ := by ring

/-- `exp2Rational` on [0,1]: absolute error at most `10^-21`. -/
theorem exp2Rational_abs_error {x r : Int} (h : exp2Rational x = some r) :
    |(r : ℝ) / 10 ^ 36 - (2 : ℝ) ^ ((x : ℝ) / 10 ^ 36)| ≤ 1 / 10 ^ 21 := by
  have := exp2Rational_abs_error_of_approximant (fun X h0 h1 => exp2PQ_analytic h0 h1) h
  linarith

/-- THE CLAUSE, sharpened: `Exp2` is within RELATIVE `10^-21` of the true `2^e` on its whole domain. -/
theorem exp2_rel_error_sharp {e r : Int} (h : exp2 e = some r) :
    |(r : ℝ) / 10 ^ 36 - (2 : ℝ) ^ ((e : ℝ) / 10 ^ 36)| ≤ 1 / 10 ^ 21 * (2 : ℝ) ^ ((e : ℝ) / 10 ^ 36) := by
  have := exp2_rel_error_of_approximant (fun X h0 h1 => exp2PQ_analytic h0 h1) h
  have e1 : (1 : ℝ) / 10 ^ 21 - 70 / 10 ^ 36 + 70 / 10 ^ 36 = 1 / 10 ^ 21 := by ring
  rw [e1] at this; exact this

/-- THE CLAUSE as documented: relative `10^-18`. -/
theorem exp2_rel_error {e r : Int} (h : exp2 e = some r) :
    |(r : ℝ) / 10 ^ 36 - (2 : ℝ) ^ ((e : ℝ) / 10 ^ 36)| ≤ 1 / 10 ^ 18 * (2 : ℝ) ^ ((e : ℝ) / 10 ^ 36) := by
  have h1 := exp2_rel_error_sharp h
  have hp : (0 : ℝ) < (2 : ℝ) ^ ((e : ℝ) / 10 ^ 36) := Real.rpow_pos_of_pos (by norm_num) _
  have : (1 : ℝ) / 10 ^ 21 * (2 : ℝ) ^ ((e : ℝ) / 10 ^ 36) ≤ 1 / 10 ^ 18 * (2 : ℝ) ^ ((e : ℝ) / 10 ^ 36) :=
    mul_le_mul_of_nonneg_right (by norm_num) hp.le
  linarith

/-- quasi-monotonicity (the strongest monotonicity statement that is true, cf. `C13Log.exp2_not_monotone_witness`):
a larger exponent never gives a result smaller by more than the two relative errors. -/
theorem exp2_quasi_mono {e e' r r' : Int} (hle : e ≤ e') (h : exp2 e = some r) (h' : exp2 e' = some r') :
    (r : ℝ) / 10 ^ 36 ≤ (r' : ℝ) / 10 ^ 36 + 2 / 10 ^ 21 * (2 : ℝ) ^ ((e' : ℝ) / 10 ^ 36) := by
  have h1 := exp2_rel_error_sharp h
  have h2 := exp2_rel_error_sharp h'
  have hle' : (e : ℝ) / 10 ^ 36 ≤ (e' : ℝ) / 10 ^ 36 := by
    have : (e : ℝ) ≤ (e' : ℝ) := by exact_mod_cast hle
    exact div_le_div_of_nonneg_right this (by positivity)
  have hm : (2 : ℝ) ^ ((e : ℝ) / 10 ^ 36) ≤ (2 : ℝ) ^ ((e' : ℝ) / 10 ^ 36) :=
    Real.rpow_le_rpow_of_exponent_le (by norm_num) hle'
  have hp : (0 : ℝ) < (2 : ℝ) ^ ((e : ℝ) / 10 ^ 36) := Real.rpow_pos_of_pos (by norm_num) _
  obtain ⟨a1, a2⟩ := abs_le.mp h1
  obtain ⟨b1, b2⟩ := abs_le.mp h2
  nlinarith

/-! ## totality on the domain -/

theorem exp2Rational_total {x : Int} (h0 : 0 ≤ x) (h1 : x ≤ P36) : ∃ r, exp2Rational x = some r :=
  OsmoVerif.MathM.exp2Rational_total h0 h1

/-- `Exp2` returns exactly on `[0, maxSupportedExponent] = [0, 2^9]` (no panic inside the domain). -/
theorem exp2_some_iff {e : Int} : (∃ r, exp2 e = some r) ↔ 0 ≤ e ∧ e ≤ Osmomath.maxSupportedExponent := by
  constructor
  · rintro ⟨r, h⟩
    by_contra hc
    rw [C13.exp2_domain (by omega)] at h; cases h
  · rintro ⟨h0, h1⟩
    rw [C13.exp2_split h0 h1]
    obtain ⟨_, hp, _⟩ := tdiv_tmod_spec e P36 P36_pos
    have hp := hp h0
    have hf : e - e.tdiv P36 * P36 = e.tmod P36 := by
      have := (tdiv_tmod_spec e P36 P36_pos).1; omega
    obtain ⟨fr, hfr⟩ := exp2Rational_total (x := e - e.tdiv P36 * P36) (by omega) (by omega)
    exact ⟨_, by rw [hfr]; rfl⟩

/-! ## non-vacuity -/
example : exp2Rational (5 * 10 ^ 35) = some 1414213562373095048801688724209698079 := by decide +kernel
example : exp2 (15 * 10 ^ 35) = some 2828427124746190097603377448419396158 := by decide +kernel
/-- the rounding bound at a concrete point. -/
example : |((1414213562373095048801688724209698079 : Int) : ℝ) / 10 ^ 36 -
    (exp2PQ (((5 * 10 ^ 35 : Int) : ℝ) / 10 ^ 36)).1 / (exp2PQ (((5 * 10 ^ 35 : Int) : ℝ) / 10 ^ 36)).2| ≤ 70 / 10 ^ 36 :=
  exp2Rational_arith_error (by decide) (by decide) (by decide +kernel)
/-- the hypothesis `hA` is satisfiable (trivially, with a large ε₀): the partial theorems are not vacuous. -/
example : ∃ ε₀ : ℝ, ∀ X : ℝ, 0 ≤ X → X ≤ 1 → |(exp2PQ X).1 / (exp2PQ X).2 - (2 : ℝ) ^ X| ≤ ε₀ := by
  refine ⟨5, fun X h0 h1 => ?_⟩
  obtain ⟨a1, a2, b1, b2⟩ := exp2PQ_bounds h0 h1
  have hq : 0 < (exp2PQ X).2 := by linarith
  have r1 : (exp2PQ X).1 / (exp2PQ X).2 ≤ 3 := by rw [div_le_iff₀ hq]; nlinarith
  have r0 : 0 ≤ (exp2PQ X).1 / (exp2PQ X).2 := by have : 0 ≤ (exp2PQ X).1 := by linarith
                                                  positivity
  have p1 : (2 : ℝ) ^ X ≤ 2 := by
    calc (2 : ℝ) ^ X ≤ (2 : ℝ) ^ (1 : ℝ) := Real.rpow_le_rpow_of_exponent_le (by norm_num) h1
      _ = 2 := Real.rpow_one 2
  have p0 : 0 ≤ (2 : ℝ) ^ X := by positivity
  rw [abs_le]; constructor <;> linarith

end OsmoVerif.Props.C13Exp2
