/-
C13 — `Exp2` (osmomath/exp2.go): relative error, PARTIAL.

The clause "two-to-the-x agrees with the true value to a relative 10^-18" splits into
 (a) ROUNDING: the 36-decimal evaluation of the rational function (6 `MulMut` for the powers, 12 `Mul` + `Add` for
     the two polynomials, one `Quo`) against the EXACT rational function `R(X) = P(X)/Q(X)` of the coded
     coefficients — PROVED here for every input: `|exp2Rational x − R(x)| ≤ 70·10^-36` (`exp2Rational_arith_error`);
     `Q ≥ 0.65` on [0,1] by a termwise bound, so the quotient is well conditioned;
 (b) ANALYTIC: `|R(X) − 2^X| ≤ ε₀` for all real `X ∈ [0,1]` — NOT PROVED (needs certified interval arithmetic /
     a Taylor model of `2^X` against a degree-6/6 rational function; no such tool is installed).  It is the
     explicit hypothesis `hA` of the `_partial` theorems below; with `ε₀ = 10^-18 − 70·10^-36` they give the
     documented relative `10^-18`.  On sampled points (b) is decided by the `math` engine's 700-bit oracle.
The shift by the integer part is exact (`C13.exp2_split`), so the relative error on [0, 512] is that on [0,1).
-/
import OsmoVerif.Proofs.MathExp2b
import OsmoVerif.Props.C13

namespace OsmoVerif.Props.C13Exp2
open OsmoVerif.MathM OsmoVerif.Num OsmoVerif.Gen OsmoVerif.Spec Real

/-- (a) rounding error against the exact rational function of the coded coefficients, inputs in (0,1). -/
theorem exp2Rational_arith_error {x r : Int} (h0 : 0 < x) (h1 : x < P36) (h : exp2Rational x = some r) :
    |(r : ℝ) / 10 ^ 36 - (exp2PQ ((x : ℝ) / 10 ^ 36)).1 / (exp2PQ ((x : ℝ) / 10 ^ 36)).2| ≤ 70 / 10 ^ 36 :=
  OsmoVerif.MathM.exp2Rational_arith_error h0 h1 h

/-- the denominator polynomial stays away from zero on [0,1] (and both polynomials are bounded). -/
theorem exp2_denominator_bounds {X : ℝ} (h0 : 0 ≤ X) (h1 : X ≤ 1) :
    1 ≤ (exp2PQ X).1 ∧ (exp2PQ X).1 ≤ 1.42 ∧ 0.65 ≤ (exp2PQ X).2 ∧ (exp2PQ X).2 ≤ 1.06 :=
  exp2PQ_bounds h0 h1

/-- PARTIAL (absolute error on [0,1]): full statement would have no hypothesis `hA`; `hA` is the unproved
analytic part (b). -/
theorem exp2Rational_abs_error_partial {ε₀ : ℝ}
    (hA : ∀ X : ℝ, 0 ≤ X → X ≤ 1 → |(exp2PQ X).1 / (exp2PQ X).2 - (2 : ℝ) ^ X| ≤ ε₀)
    {x r : Int} (h : exp2Rational x = some r) :
    |(r : ℝ) / 10 ^ 36 - (2 : ℝ) ^ ((x : ℝ) / 10 ^ 36)| ≤ ε₀ + 70 / 10 ^ 36 := by
  have hε : 0 ≤ ε₀ := le_trans (abs_nonneg _) (hA 0 (le_refl _) (by norm_num))
  have hdom : 0 ≤ x ∧ x ≤ P36 := by
    by_contra hc
    rw [C13.exp2Rational_domain (by omega)] at h; cases h
  rcases Int.lt_or_eq_of_le hdom.1 with hpos | rfl
  · rcases Int.lt_or_eq_of_le hdom.2 with hlt | rfl
    · have ha := OsmoVerif.MathM.exp2Rational_arith_error hpos hlt h
      have hX0 : 0 ≤ bval x := (bval_pos hpos).le
      have hX1 : bval x ≤ 1 := by
        have : (x : ℝ) < ((P36 : Int) : ℝ) := by exact_mod_cast hlt
        rw [P36_cast] at this
        unfold bval; rw [div_le_one (by positivity)]; linarith
      have hb := hA (bval x) hX0 hX1
      have tri := abs_sub_le (bval r) ((exp2PQ (bval x)).1 / (exp2PQ (bval x)).2) ((2 : ℝ) ^ bval x)
      show |bval r - (2 : ℝ) ^ bval x| ≤ _
      linarith
    · rw [C13.exp2Rational_one] at h
      obtain rfl := Option.some.inj h
      have e1 : ((P36 : Int) : ℝ) / 10 ^ 36 = 1 := by rw [P36_cast]; field_simp
      have e2 : ((2 * P36 : Int) : ℝ) / 10 ^ 36 = 2 := by push_cast; rw [P36_cast]; field_simp
      rw [e1, e2, Real.rpow_one, sub_self, abs_zero]; positivity
  · rw [C13.exp2Rational_zero] at h
    obtain rfl := Option.some.inj h
    have e1 : ((P36 : Int) : ℝ) / 10 ^ 36 = 1 := by rw [P36_cast]; field_simp
    rw [e1]; simp only [Int.cast_zero, zero_div, Real.rpow_zero, sub_self, abs_zero]; positivity

/-- PARTIAL (the clause itself): relative error of `Exp2` on its whole domain `[0, 2^9]`, given (b). -/
theorem exp2_rel_error_partial {ε₀ : ℝ}
    (hA : ∀ X : ℝ, 0 ≤ X → X ≤ 1 → |(exp2PQ X).1 / (exp2PQ X).2 - (2 : ℝ) ^ X| ≤ ε₀)
    {e r : Int} (h : exp2 e = some r) :
    |(r : ℝ) / 10 ^ 36 - (2 : ℝ) ^ ((e : ℝ) / 10 ^ 36)| ≤ (ε₀ + 70 / 10 ^ 36) * (2 : ℝ) ^ ((e : ℝ) / 10 ^ 36) := by
  have hε : 0 ≤ ε₀ := le_trans (abs_nonneg _) (hA 0 (le_refl _) (by norm_num))
  have hdom : 0 ≤ e ∧ e ≤ Osmomath.maxSupportedExponent := by
    by_contra hc
    rw [C13.exp2_domain (by omega)] at h; cases h
  rw [C13.exp2_split hdom.1 hdom.2] at h
  obtain ⟨fr, hfr, rfl⟩ := Option.map_eq_some_iff.mp h
  have hab := exp2Rational_abs_error_partial hA hfr
  obtain ⟨e1, hp, _⟩ := tdiv_tmod_spec e P36 P36_pos
  have hq0 : 0 ≤ e.tdiv P36 := Int.tdiv_nonneg hdom.1 (by decide)
  set n := (e.tdiv P36).toNat with hn
  have hnq : (n : Int) = e.tdiv P36 := by omega
  set f := e - e.tdiv P36 * P36 with hf
  have hf0 : 0 ≤ f := by have := hp hdom.1; omega
  have hfr0 : (0 : ℝ) ≤ (f : ℝ) / 10 ^ 36 := by
    have : (0 : ℝ) ≤ (f : ℝ) := by exact_mod_cast hf0
    positivity
  -- 2^(e) = 2^n · 2^(frac)
  have esplit : (e : ℝ) / 10 ^ 36 = (n : ℝ) + (f : ℝ) / 10 ^ 36 := by
    have : e = (n : Int) * P36 + f := by rw [hnq, hf]; ring
    have : (e : ℝ) = ((n : Int) : ℝ) * ((P36 : Int) : ℝ) + (f : ℝ) := by exact_mod_cast this
    rw [this, P36_cast]; push_cast; field_simp
  have hpow : (2 : ℝ) ^ ((e : ℝ) / 10 ^ 36) = 2 ^ n * (2 : ℝ) ^ ((f : ℝ) / 10 ^ 36) := by
    rw [esplit, Real.rpow_add (by norm_num), Real.rpow_natCast]
  have h2n : (0 : ℝ) < 2 ^ n := by positivity
  have hge1 : (1 : ℝ) ≤ (2 : ℝ) ^ ((f : ℝ) / 10 ^ 36) := Real.one_le_rpow (by norm_num) hfr0
  have ecast : ((fr * 2 ^ n : Int) : ℝ) / 10 ^ 36 = 2 ^ n * ((fr : ℝ) / 10 ^ 36) := by push_cast; ring
  rw [ecast, hpow, ← mul_sub, abs_mul, abs_of_pos h2n]
  have hδ : 0 ≤ ε₀ + 70 / 10 ^ 36 := by positivity
  calc 2 ^ n * |(fr : ℝ) / 10 ^ 36 - (2 : ℝ) ^ ((f : ℝ) / 10 ^ 36)| ≤ 2 ^ n * (ε₀ + 70 / 10 ^ 36) :=
        mul_le_mul_of_nonneg_left hab h2n.le
    _ ≤ 2 ^ n * ((ε₀ + 70 / 10 ^ 36) * (2 : ℝ) ^ ((f : ℝ) / 10 ^ 36)) := by
        apply mul_le_mul_of_nonneg_left _ h2n.le
        nlinarith
    _ = _ := by ring

/-- the documented constant: if (b) holds with `ε₀ = 10^-18 − 70·10^-36`, `Exp2` is within relative `10^-18`. -/
theorem exp2_rel_error_1e18_partial
    (hA : ∀ X : ℝ, 0 ≤ X → X ≤ 1 →
      |(exp2PQ X).1 / (exp2PQ X).2 - (2 : ℝ) ^ X| ≤ 1 / 10 ^ 18 - 70 / 10 ^ 36)
    {e r : Int} (h : exp2 e = some r) :
    |(r : ℝ) / 10 ^ 36 - (2 : ℝ) ^ ((e : ℝ) / 10 ^ 36)| ≤ 1 / 10 ^ 18 * (2 : ℝ) ^ ((e : ℝ) / 10 ^ 36) := by
  have := exp2_rel_error_partial hA h
  have e1 : (1 : ℝ) / 10 ^ 18 - 70 / 10 ^ 36 + 70 / 10 ^ 36 = 1 / 10 ^ 18 := by ring
  rw [e1] at this; exact this

/-! ## non-vacuity -/
example : exp2Rational (5 * 10 ^ 35) = some 1414213562373095048801688724209698079 := by decide +kernel
example : exp2 (15 * 10 ^ 35) = some 2828427124746190097603377448419396158 := by decide +kernel
/-- the rounding bound at a concrete point. -/
example : |((1414213562373095048801688724209698079 : Int) : ℝ) / 10 ^ 36 -
    (exp2PQ (((5 * 10 ^ 35 : Int) : ℝ) / 10 ^ 36)).1 / (exp2PQ (((5 * 10 ^ 35 : Int) : ℝ) / 10 ^ 36)).2| ≤ 70 / 10 ^ 36 :=
  exp2Rational_arith_error (by decide) (by decide) (by decide +kernel)
/-- the hypothesis `hA` is satisfiable (trivially, with a large ε₀): the partial theorems are not vacuous. -/
example : ∃ ε₀ : ℝ, ∀ X : ℝ, 0 ≤ X → X ≤ 1 → |(exp2PQ X).1 / (exp2PQ X).2 - (2 : ℝ) ^ X| ≤ ε₀ := by
  refine ⟨5, fun X h0 h1 => ?_⟩
  obtain ⟨a1, a2, b1, b2⟩ := exp2PQ_bounds h0 h1
  have hq : 0 < (exp2PQ X).2 := by linarith
  have r1 : (exp2PQ X).1 / (exp2PQ X).2 ≤ 3 := by rw [div_le_iff₀ hq]; nlinarith
  have r0 : 0 ≤ (exp2PQ X).1 / (exp2PQ X).2 := by have : 0 ≤ (exp2PQ X).1 := by linarith
                                                  positivity
  have p1 : (2 : ℝ) ^ X ≤ 2 := by
    calc (2 : ℝ) ^ X ≤ (2 : ℝ) ^ (1 : ℝ) := Real.rpow_le_rpow_of_exponent_le (by norm_num) h1
      _ = 2 := Real.rpow_one 2
  have p0 : 0 ≤ (2 : ℝ) ^ X := by positivity
  rw [abs_le]; constructor <;> linarith

end OsmoVerif.Props.C13Exp2
