/-
Tie T1 for the x/gamm keeper (owning property C02), part B: the join / exit / swap entry points of pool_service.go, share.go and
swap.go have no arithmetic of their own (that is the pool models', tied in TieGenGammMath) — what `Model/GammKeeper.lean` mirrors is
the share-limit logic (`tokenInMaxs` subset / `IsAllGTE` tests, `sharesOut.LT(shareOutAmount)`, min / max amount guards), which
amounts are minted / burned / sent (`numShares`, `shareInAmount` vs `shareInMaxAmount`, `joinCoins`, `exitCoins`) and the order of
pool update, bank operations, `setPool` and the liquidity hooks.  The ordered statement list of each function is regenerated on
every run (tools/extract/gen_expr_k.go) and pinned below.
Written by tools/mkpins.py from tools/pins/TieGenGammKeeperOps.json.
-/
import OsmoVerif.Gen.GammKeeperOpsFn

-- `decide` on lists of up to a few hundred strings
set_option maxRecDepth 100000

namespace OsmoVerif.Props.TieGenGammKeeperOps
open OsmoVerif

/-- B — `Keeper.InitializePool`: `GammKeeper.createPool` (initial shares minted to the creator, liquidity recorded) -/
theorem opsx_Keeper_InitializePool_pinned : Gen.GammKeeperOps.opsx_Keeper_InitializePool =
    ["asCFMMPool(v2)", "GetExitFee(v5,v1)", "IsZero(v6)", "!(v6.IsZero())", "if", "return(error)", "end",
     "GetTotalShares(v5)", "MintPoolShareToAccount(v0,v1,v2,v3,v5.GetTotalShares())", "GetId(v2)",
     "types.GetPoolShareDenom(v2.GetId())",
     "SetDenomMetaData(v0.bankKeeper,v1,{Description:_,DenomUnits:{{Denom:v7,Exponent:0,Aliases:{\"attopoolshare\"}},{Denom:v8,Exponent:types.OneShareExponent,Aliases:nil}},Base:v7,Display:v8})",
     "setPool(v0,v1,v2)", "GetId(v2)", "AfterCFMMPoolCreated(v0.hooks,v1,v3,v2.GetId())",
     "GetTotalPoolLiquidity(v5,v1)", "RecordTotalLiquidityIncrease(v0,v1,_)"] := by decide

/-- B — `Keeper.JoinPoolNoSwap`: `GammKeeper.joinPool` (`getMaximalNoSwapLPAmount`, the `tokenInMaxs` tests of `maxsOk`, the pool's `JoinPoolNoSwap`, `sharesOut < shareOutAmount` ⇒ error, `applyJoin` with the shares the POOL returned) -/
theorem opsx_Keeper_JoinPoolNoSwap_pinned : Gen.GammKeeperOps.opsx_Keeper_JoinPoolNoSwap =
    ["defer", "func", "recover()", "=(v9,recover())", "if", "=(v6,{})", "=(v7,{})", "osmoutils.IsOutOfGasError(v9)",
     "if(v10)", "else", "end", "end", "end", "call()", "GetPoolAndPoke(v0,v1,v3)", "if", "osmomath.ZeroInt()",
     "return(nil,osmomath.ZeroInt(),v8)", "end", "getMaximalNoSwapLPAmount(v1,v12,v4)", "if", "osmomath.ZeroInt()",
     "return(nil,osmomath.ZeroInt(),v8)", "end", "Len(v5)", "!=(v5.Len(),0)", "if", "DenomsSubsetOf(v13,v5)", "!(_)",
     "if", "osmomath.ZeroInt()", "return(nil,osmomath.ZeroInt(),error)", "else", "DenomsSubsetOf(v5,v13)", "!(_)",
     "if", "osmomath.ZeroInt()", "return(nil,osmomath.ZeroInt(),error)", "end", "IsAllGTE(v5,v13)", "!(_)", "if",
     "osmomath.ZeroInt()", "return(nil,osmomath.ZeroInt(),error)", "end", "end", "GetSpreadFactor(v12,v1)",
     "JoinPoolNoSwap(v12,v1,v13,_)", "=(v7;v8,_)", "if", "osmomath.ZeroInt()", "return(nil,osmomath.ZeroInt(),v8)",
     "end", "LT(v7,v4)", "if", "end", "applyJoinPoolStateChange(v0,v1,v12,v2,v7,v13)", "return(v13,v7,v8)"] := by decide

/-- B — `getMaximalNoSwapLPAmount`: `GammKeeper.getMaximalNoSwapLPAmount` / `neededLp` (share ratio, `MulInt(…).Ceil().RoundInt()` per asset) -/
theorem opsx_getMaximalNoSwapLPAmount_pinned : Gen.GammKeeperOps.opsx_getMaximalNoSwapLPAmount =
    ["GetTotalShares(v1)", "=(v5,v1.GetTotalShares())", "ToLegacyDec(v2)", "QuoInt(v2.ToLegacyDec(),v5)",
     "osmomath.ZeroDec()", "LTE(v6,osmomath.ZeroDec())", "if", "end", "GetTotalPoolLiquidity(v1,v0)", "=(v3,{})",
     "range(v7)", "ToLegacyDec(v8.Amount)", "Mul(v8.Amount.ToLegacyDec(),v6)", "Ceil(_)", "RoundInt(_.Ceil())",
     "=(v9,_.Ceil().RoundInt())", "osmomath.ZeroInt()", "LTE(v9,osmomath.ZeroInt())", "if", "end",
     "=(v10,{Denom:v8.Denom,Amount:v9})", "Add(v3,v10)", "=(v3,_)", "end", "return(v3,nil)"] := by decide

/-- B — `Keeper.JoinSwapExactAmountIn`: `GammKeeper.joinSwapExternAmountIn` -/
theorem opsx_Keeper_JoinSwapExactAmountIn_pinned : Gen.GammKeeperOps.opsx_Keeper_JoinSwapExactAmountIn =
    ["defer", "func", "recover()", "=(v8,recover())", "if", "=(v6,{})", "osmoutils.IsOutOfGasError(v8)", "if(v9)",
     "else", "end", "end", "end", "call()", "GetCFMMPool(v0,v1,v3)", "GetSpreadFactor(v11,v1)",
     "JoinPool(v11,v1,v4,_)", "=(v6;v7,_)", "switch()", "case(_)", "osmomath.ZeroInt()",
     "return(osmomath.ZeroInt(),v7)", "LT(v6,v5)", "case(_)", "osmomath.ZeroInt()",
     "return(osmomath.ZeroInt(),error)", "osmomath.ZeroInt()", "LTE(v6,osmomath.ZeroInt())", "case(_)",
     "osmomath.ZeroInt()", "return(osmomath.ZeroInt(),error)", "end", "applyJoinPoolStateChange(v0,v1,v11,v2,v6,v4)",
     "if", "osmomath.ZeroInt()", "return(osmomath.ZeroInt(),v7)", "end", "return(v6,nil)"] := by decide

/-- B — `Keeper.JoinSwapShareAmountOut`: `GammKeeper.joinSwapShareAmountOut` (`tokenInAmount > tokenInMaxAmount` ⇒ error; liquidity increased, then `applyJoin`) -/
theorem opsx_Keeper_JoinSwapShareAmountOut_pinned : Gen.GammKeeperOps.opsx_Keeper_JoinSwapShareAmountOut =
    ["defer", "func", "recover()", "=(v9,recover())", "if", "=(v7,{})", "osmoutils.IsOutOfGasError(v9)", "if(v10)",
     "else", "end", "end", "end", "call()", "GetCFMMPool(v0,v1,v3)", "!(v14)", "if", "end",
     "GetSpreadFactor(v12,v1)", "CalcTokenInShareAmountOut(v13,v1,v4,v5,_)", "=(v7;v8,_)", "GT(v7,v6)", "if", "end",
     "sdk.NewCoin(v4,v7)", "sdk.NewCoins(_)", "IncreaseLiquidity(v13,v5,v15)",
     "applyJoinPoolStateChange(v0,v1,v12,v2,v5,v15)", "if", "osmomath.ZeroInt()", "return(osmomath.ZeroInt(),v8)",
     "end", "return(v7,nil)"] := by decide

/-- B — `Keeper.ExitPool`: `GammKeeper.exitPool` (`shareInAmount ≥ totalShares` / non-positive ⇒ error, `minsOk`, `applyExit`) -/
theorem opsx_Keeper_ExitPool_pinned : Gen.GammKeeperOps.opsx_Keeper_ExitPool =
    ["GetPoolAndPoke(v0,v1,v3)", "GetTotalShares(v8)", "=(v9,v8.GetTotalShares())", "GTE(v4,v9)", "if", "else",
     "osmomath.ZeroInt()", "LTE(v4,osmomath.ZeroInt())", "if", "end", "GetExitFee(v8,v1)", "ExitPool(v8,v1,v4,v10)",
     "=(v6;v7,_)", "DenomsSubsetOf(v5,v6)", "!(_)", "IsAnyGT(v5,v6)", "||(_,_)", "if", "end",
     "applyExitPoolStateChange(v0,v1,v8,v2,v4,v6)", "return(v6,nil)"] := by decide

/-- B — `Keeper.ExitSwapShareAmountIn`: `GammKeeper.exitSwapShareAmountIn` / `exitSwapLoop` -/
theorem opsx_Keeper_ExitSwapShareAmountIn_pinned : Gen.GammKeeperOps.opsx_Keeper_ExitSwapShareAmountIn =
    ["ExitPool(v0,v1,v2,v3,v5,{})", "GetPool(v0,v1,v3)", "GetSpreadFactor(v10,v1)", "AmountOf(v9,v4)", "=(v7,_)",
     "range(v9)", "==(v12.Denom,v4)", "if", "continue", "end", "osmomath.ZeroInt()",
     "SwapExactAmountIn(v0,v1,v2,v10,v12,v4,osmomath.ZeroInt(),v11)", "Add(v7,v13)", "=(v7,_)", "end", "LT(v7,v6)",
     "if", "end", "return(v7,nil)"] := by decide

/-- B — `Keeper.ExitSwapExactAmountOut`: `GammKeeper.exitSwapExternAmountOut` (`shareInAmount > shareInMaxAmount` ⇒ error; `applyExit` with the COMPUTED `shareInAmount`) -/
theorem opsx_Keeper_ExitSwapExactAmountOut_pinned : Gen.GammKeeperOps.opsx_Keeper_ExitSwapExactAmountOut =
    ["GetCFMMPool(v0,v1,v3)", "!(v10)", "if", "end", "ExitSwapExactAmountOut(v9,v1,v4,v5)", "=(v6;v7,_)",
     "applyExitPoolStateChange(v0,v1,v8,v2,v6,{v4})", "return(v6,nil)"] := by decide

/-- B — `Keeper.applyJoinPoolStateChange`: `GammKeeper.applyJoin` (coins from the joiner to the pool, shares minted to the joiner, `setPool`, hooks) -/
theorem opsx_Keeper_applyJoinPoolStateChange_pinned : Gen.GammKeeperOps.opsx_Keeper_applyJoinPoolStateChange =
    ["GetAddress(v2)", "SendCoins(v0.bankKeeper,v1,v3,v2.GetAddress(),v5)", "MintPoolShareToAccount(v0,v1,v2,v3,v4)",
     "setPool(v0,v1,v2)", "GetId(v2)", "AfterJoinPool(v0.hooks,v1,v3,v2.GetId(),v5,v4)",
     "RecordTotalLiquidityIncrease(v0,v1,v5)"] := by decide

/-- B — `Keeper.applyExitPoolStateChange`: `GammKeeper.applyExit` (coins from the pool to the exiter, shares burned, `setPool` ALWAYS, hooks) -/
theorem opsx_Keeper_applyExitPoolStateChange_pinned : Gen.GammKeeperOps.opsx_Keeper_applyExitPoolStateChange =
    ["GetAddress(v2)", "SendCoins(v0.bankKeeper,v1,v2.GetAddress(),v3,v5)",
     "BurnPoolShareFromAccount(v0,v1,v2,v3,v4)", "setPool(v0,v1,v2)", "GetId(v2)",
     "AfterExitPool(v0.hooks,v1,v3,v2.GetId(),v4,v5)", "RecordTotalLiquidityDecrease(v0,v1,v5)"] := by decide

/-- B — `Keeper.MintPoolShareToAccount`: the mint + send of `GammKeeper.applyJoin` -/
theorem opsx_Keeper_MintPoolShareToAccount_pinned : Gen.GammKeeperOps.opsx_Keeper_MintPoolShareToAccount =
    ["GetId(v2)", "types.GetPoolShareDenom(v2.GetId())", "sdk.NewCoin(_,v4)", "sdk.NewCoins(_)",
     "MintCoins(v0.bankKeeper,v1,types.ModuleName,v5)",
     "SendCoinsFromModuleToAccount(v0.bankKeeper,v1,types.ModuleName,v3,v5)"] := by decide

/-- B — `Keeper.BurnPoolShareFromAccount`: the send + burn of `GammKeeper.applyExit` -/
theorem opsx_Keeper_BurnPoolShareFromAccount_pinned : Gen.GammKeeperOps.opsx_Keeper_BurnPoolShareFromAccount =
    ["GetId(v2)", "types.GetPoolShareDenom(v2.GetId())", "sdk.NewCoin(_,v4)", "=(v5,{_})",
     "SendCoinsFromAccountToModule(v0.bankKeeper,v1,v3,types.ModuleName,v5)",
     "BurnCoins(v0.bankKeeper,v1,types.ModuleName,v5)"] := by decide

/-- B — `Keeper.SwapExactAmountIn`: `GammKeeper.gammSwapIn` (`tokenOutAmount < tokenOutMinAmount` ⇒ error) -/
theorem opsx_Keeper_SwapExactAmountIn_pinned : Gen.GammKeeperOps.opsx_Keeper_SwapExactAmountIn =
    ["==(v4.Denom,v5)", "if", "end", "GetSpreadFactor(v3,v1)", "QuoInt64(v10,2)", "LT(v7,v10.QuoInt64(2))", "if",
     "end", "=(v11,{v4})", "defer", "func", "recover()", "=(v12,recover())", "if", "=(v8,{})",
     "osmoutils.IsOutOfGasError(v12)", "if(v13)", "else", "end", "end", "end", "call()", "asCFMMPool(v3)",
     "SwapOutAmtGivenIn(v15,v1,v11,v5,v7)", "=(v8,v16.Amount)", "IsPositive(v8)", "!(v8.IsPositive())", "if", "end",
     "LT(v8,v6)", "if", "end", "updatePoolForSwap(v0,v1,v3,v2,v4,v16)", "return(v8,nil)"] := by decide

/-- B — `Keeper.SwapExactAmountOut`: `GammKeeper.gammSwapOut` (`tokenInAmount > tokenInMaxAmount` ⇒ error) -/
theorem opsx_Keeper_SwapExactAmountOut_pinned : Gen.GammKeeperOps.opsx_Keeper_SwapExactAmountOut =
    ["==(v4,v6.Denom)", "if", "end", "defer", "func", "recover()", "=(v10,recover())", "if", "=(v8,{})",
     "osmoutils.IsOutOfGasError(v10)", "if(v11)", "else", "end", "end", "end", "call()", "GetId(v3)",
     "GetTotalPoolLiquidity(v0,v1,v3.GetId())", "AmountOf(v13,v6.Denom)", "GTE(v6.Amount,v14)", "if", "end",
     "asCFMMPool(v3)", "SwapInAmtGivenOut(v15,v1,{v6},v4,v7)", "=(v8,v16.Amount)", "osmomath.ZeroInt()",
     "LTE(v8,osmomath.ZeroInt())", "if", "end", "GT(v8,v5)", "if", "end", "updatePoolForSwap(v0,v1,v3,v2,v16,v6)",
     "return(v8,nil)"] := by decide

/-- B — `Keeper.updatePoolForSwap`: `GammKeeper.applySwap` (`setPool`, token in to the pool, token out to the sender) -/
theorem opsx_Keeper_updatePoolForSwap_pinned : Gen.GammKeeperOps.opsx_Keeper_updatePoolForSwap =
    ["=(v6,{v4})", "=(v7,{v5})", "setPool(v0,v1,v2)", "GetAddress(v2)",
     "SendCoins(v0.bankKeeper,v1,v3,v2.GetAddress(),{v4})", "GetAddress(v2)",
     "SendCoins(v0.bankKeeper,v1,v2.GetAddress(),v3,{v5})", "GetId(v2)",
     "AfterCFMMSwap(v0.hooks,v1,v3,v2.GetId(),v6,v7)", "RecordTotalLiquidityIncrease(v0,v1,v6)",
     "RecordTotalLiquidityDecrease(v0,v1,v7)"] := by decide

end OsmoVerif.Props.TieGenGammKeeperOps
