/-
Tie T1 for the tick ↔ price conversions of x/concentrated-liquidity/math/tick.go that are straight-line code (owning property
C14; also part of C01/C03/C07/C08, whose models call them): `Tick.tickToSqrtPrice`, `Tick.roundDownTickToSpacing` and
`Tick.sqrtPriceToTickRoundDownSpacing` are EQUAL to the definitions the expression translator regenerates from the Go source on
every run (`Gen/CLKeeperFn.lean`); `TickToPrice`, `CalculateSqrtPriceToTick` and the monotonic square roots (loops / tables,
C13/C14 theorems) are abstract callees of the generated definitions, instantiated here with the model's.
-/
import OsmoVerif.Model.Tick
import OsmoVerif.Gen.CLKeeperFn

namespace OsmoVerif.Props.TieGenCLTick
open OsmoVerif OsmoVerif.Num

/-- `TickToSqrtPrice`: `TickToPrice`, then on the launch range (`tick ≥ MinInitializedTick`) `Dec()` + the 18-decimal monotonic
square root + `BigDecFromDec`, below it the 36-decimal one — `Tick.tickToSqrtPrice`. -/
theorem tickToSqrtPrice_model_eq_gen (t : Int) :
    Tick.tickToSqrtPrice t = Gen.CLKeeper.TickToSqrtPrice Tick.tickToPrice MathM.monotonicSqrt MathM.monotonicSqrtBigDec t := by
  have h1 : (-108000000 : Int) = Gen.CL.MinInitializedTick := by decide
  unfold Tick.tickToSqrtPrice Gen.CLKeeper.TickToSqrtPrice
  rw [h1]
  cases Tick.tickToPrice t with
  | none => rfl
  | some price =>
    simp only [bind, Option.bind_some]
    by_cases hr : t ≥ Gen.CL.MinInitializedTick
    · simp only [hr, if_true]
      cases BigDec.dec price with
      | none => rfl
      | some d =>
        simp only [Option.bind_some]
        cases MathM.monotonicSqrt d <;> rfl
    · simp only [hr, if_false]

/-- `RoundDownTickToSpacing`: Go's truncating `%` made Euclidean, subtracted, range check — `Tick.roundDownTickToSpacing`. -/
theorem roundDownTickToSpacing_model_eq_gen (t spacing : Int) :
    Tick.roundDownTickToSpacing t spacing = Gen.CLKeeper.RoundDownTickToSpacing t spacing := by
  have h1 : (342000000 : Int) = Gen.CL.MaxTick := by decide
  have h2 : (-270000000 : Int) = Gen.CL.MinInitializedTickV2 := by decide
  unfold Tick.roundDownTickToSpacing Gen.CLKeeper.RoundDownTickToSpacing I64.rem
  rw [h1, h2]
  by_cases hs : spacing = 0
  · simp only [hs, if_true, Option.bind_none]
  · simp only [hs, if_false, Option.bind_some]
    by_cases hm : t.tmod spacing < 0
    · simp only [hm, if_true]
      by_cases hz : t.tmod spacing + spacing ≠ 0
      · simp only [hz, ne_eq, not_false_eq_true, if_true]
      · simp only [hz, if_false]
    · simp only [hm, if_false]
      by_cases hz : t.tmod spacing ≠ 0
      · simp only [hz, ne_eq, not_false_eq_true, if_true]
      · simp only [hz, if_false]

/-- `SqrtPriceToTickRoundDownSpacing` = `CalculateSqrtPriceToTick` then `RoundDownTickToSpacing`. -/
theorem sqrtPriceToTickRoundDownSpacing_model_eq_gen (sp spacing : Int) :
    Tick.sqrtPriceToTickRoundDownSpacing sp spacing =
      Gen.CLKeeper.SqrtPriceToTickRoundDownSpacing Tick.calculateSqrtPriceToTick sp spacing := by
  unfold Tick.sqrtPriceToTickRoundDownSpacing Gen.CLKeeper.SqrtPriceToTickRoundDownSpacing
  cases Tick.calculateSqrtPriceToTick sp with
  | none => rfl
  | some t => simp only [Option.bind_some, roundDownTickToSpacing_model_eq_gen]

end OsmoVerif.Props.TieGenCLTick
