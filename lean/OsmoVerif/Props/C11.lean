/-
C11 — Superfluid staking: stake tracks locks, supply is neutral, locks stay bonded.

Theorems over `OsmoVerif.Superfluid` (Model/Superfluid.lean), tied to x/superfluid + x/lockup + the staking /
bank keepers by the `superfluid` engine through the real app (every observation of every generated history is
replayed by the model).  All statements quantify over ALL histories: `run s₀ ops` for an arbitrary op list
from any state satisfying the invariant `Inv` (in particular every `reset` state, `init_inv`); a failed call is
a no-op (`failed_op_noop`), as the message server's cache context makes it.

PARTIAL by construction.  Outside the model, hence outside these theorems:
* (first part, over the ledger abstraction `deleg (denom, validator) : Option Int`) validator shares at an exchange
  rate ≠ 1, slashing, the int64 consensus-power bound of a validator — these ARE in the second part, over
  Model/SuperfluidStaking.lean: share arithmetic, slashes, the 100 % slash taken together with the top-ups of the locks
  it empties (`OpS.slashRefill`), `Delegate` refusing a validator without tokens, the power index refusing 2⁶³ power
  units, and what the error-swallowing callers leave behind (last section: `failed_mint_leaves_no_trace` …);
  jailed / unbonding / removed validators stay outside;
* staking rewards, their move to the intermediary accounts' gauges and the gauge distribution
  (`MoveSuperfluidDelegationRewardToGauges`, `distributeSuperfluidGauges`);
* governance removal of a superfluid asset, `UnbondConvertAndStake`, unpool / migration entry points,
  `ForceUnlock`, `CreateFullRangePositionAndSuperfluidDelegate` / `addToConcentratedLiquiditySuperfluidPosition`
  (concentrated full-range SHARES are covered as an asset kind: their locks go through the same entry points and
  the epoch's multiplier formula is modelled; the position-level wrappers are not);
* the pools: the epoch takes the OSMO backing and the share supply of every asset as inputs.

Sub-claims the code (and so the model) does NOT satisfy are proved false on witnesses, next to what holds
instead: `drift_le_locks_between_epochs_witness` (one unit stays staked with no lock delegated) and
`module_invariant_witness` (the module's own registered invariant compares a sum of roundings with a rounding
of the sum).
-/
import OsmoVerif.Proofs.SuperfluidDrift
import OsmoVerif.Proofs.SuperfluidStkKeep

namespace OsmoVerif.Props.C11
open OsmoVerif.Superfluid OsmoVerif.Num

/-! ## histories and their invariant -/

/-- the state the engine's `reset` line describes: parameters, validators, assets with non-negative
multipliers, a supply and an offset — no locks, markers, connections, accounts or delegations yet. -/
def Init (s : State) : Prop :=
  0 ≤ s.riskFactor ∧ s.riskFactor ≤ P18 ∧ 0 ≤ s.unbondingTime ∧ (∀ d, 0 ≤ s.mult d) ∧
  (∀ id, s.locks id = none) ∧ (∀ id, s.synths id = []) ∧ (∀ id, s.conns id = none) ∧ (∀ k, s.accum k = [])

theorem init_inv {s : State} (h : Init s) : Inv s := by
  obtain ⟨h1, h2, h3, h4, h5, h6, h7, h8⟩ := h
  refine ⟨h1, h2, h3, h4, fun id _ => h5 id, ?_, ?_, ?_⟩
  · intro id; rw [h5, h6, h7]; simp [LockOK]
  · intro id k hk; rw [h7] at hk; cases hk
  · intro k
    rw [h8]
    unfold sumConn
    rw [sumTo_zero]
    · rfl
    · intro i _ _; exact connAmt_of_noconn (h7 i)

/-- the invariant holds along every history. -/
theorem reach_inv {s₀ : State} (h : Inv s₀) (ops : List Op) : Inv (run s₀ ops) := inv_run ops s₀ h

/-- **a failed call changes nothing** (and a panic is a failed call). -/
theorem failed_op_noop {s : State} {op : Op} {e : Err} (h : applyOp s op = .error e) : step s op = s := by
  unfold step; rw [h]

theorem step_ok {s s' : State} {op : Op} (h : applyOp s op = .ok s') : step s op = s' := by
  unfold step; rw [h]

theorem applyOp_beginUnlock_err {s : State} {snd id : Nat} {c : Option Int} {e : Err}
    (h : msgBeginUnlocking s snd id c = .error e) : applyOp s (.beginUnlock snd id c) = .error e := by
  show ((msgBeginUnlocking s snd id c).map _).map _ = _
  rw [h]; rfl

theorem applyOp_withdraw_err {s : State} {id : Nat} {e : Err}
    (h : withdraw s id = .error e) : applyOp s (.withdraw id) = .error e := by
  show ((withdraw s id).map _).map _ = _
  rw [h]; rfl

/-! ## markers -/

/-- **every delegated lock has exactly one synthetic lock, and it is the staking marker of the account the
lock is connected to** (no end time, lasting the unbonding time); the lock exists, holds a single coin of the
account's denomination, is not unlocking and is locked for at least the unbonding time. -/
theorem one_staking_marker_per_delegated_lock {s₀ : State} (h : Inv s₀) (ops : List Op) (id : Nat) (k : AccKey)
    (hc : (run s₀ ops).conns id = some k) :
    (run s₀ ops).synths id = [mkB (run s₀ ops).unbondingTime k] ∧
    ∃ l, (run s₀ ops).locks id = some l ∧ l.single = true ∧ l.denom = k.1 ∧ l.endTime = none ∧
      (run s₀ ops).unbondingTime ≤ l.duration := by
  obtain ⟨l, hl, hs, hsg, hd, hk, he, _⟩ := (reach_inv h ops).conn_lock hc
  exact ⟨hs, l, hl, hsg, hk.symm, he, hd⟩

/-- conversely every staking marker belongs to a delegated lock: markers and connections are in bijection. -/
theorem staking_marker_only_on_delegated_lock {s₀ : State} (h : Inv s₀) (ops : List Op) (id : Nat) (x : Synth)
    (hx : x ∈ (run s₀ ops).synths id) (hb : x.kind = .bonding) : (run s₀ ops).conns id = some x.key := by
  have hi := reach_inv h ops
  have hok := hi.lockOK id
  unfold LockOK at hok
  split at hok
  · rw [hok.1] at hx; cases hx
  · rcases hok.2 with h1 | ⟨k, h2, h3, _⟩ | ⟨k, e, h2, _⟩
    · rw [h1.1] at hx; cases hx
    · rw [h2] at hx; simp only [List.mem_singleton] at hx; subst hx; exact h3
    · rw [h2] at hx; simp only [List.mem_singleton] at hx; subst hx; simp [mkU] at hb

/-- no lock ever carries two synthetic locks. -/
theorem at_most_one_marker {s₀ : State} (h : Inv s₀) (ops : List Op) (id : Nat) : ((run s₀ ops).synths id).length ≤ 1 := by
  have hok := (reach_inv h ops).lockOK id
  unfold LockOK at hok
  split at hok
  · rw [hok.1]; simp
  · rcases hok.2 with h1 | ⟨k, h2, _⟩ | ⟨k, e, h2, _⟩
    · rw [h1.1]; simp
    · rw [h2]; simp
    · rw [h2]; simp

/-- **undelegating creates the unstaking marker, ending exactly one unbonding time later**, and removes the
connection; it is the lock's only synthetic lock. -/
theorem unstaking_marker_lasts_unbonding_period {s s' : State} {sender id : Nat} (h : Inv s)
    (hc : superfluidUndelegate s sender id = .ok s') :
    ∃ k, s.conns id = some k ∧ s'.conns id = none ∧
      s'.synths id = [mkU s.unbondingTime k (s.now + s.unbondingTime)] := by
  unfold superfluidUndelegate at hc
  split at hc
  · cases hc
  · rename_i s1 key h1
    obtain ⟨l, s2, amt, hl, _, _, hk, h3, _, h5⟩ := undelegateCommon_ok h1
    obtain ⟨f1, f2, f3, _, _⟩ := undelegateCommon_lock h h1
    obtain ⟨_, l', _, _, _, hs'⟩ := createSynth_ok hc
    have hconn : s1.conns id = none := by
      rw [(burn_same h5).conns]
      obtain ⟨_, _, _, _, hs2⟩ := deleteSynth_ok h3
      subst hs2
      dsimp only
      simp [upd]
    subst hs'
    refine ⟨key, hk, hconn, ?_⟩
    dsimp only
    simp only [upd, if_true, mkU, f2, f3]

/-- **… and it stays until it has matured**: no call removes an unstaking marker whose end time lies in the
future (only the EndBlocker sweep deletes unstaking markers, and only matured ones). -/
theorem unstaking_marker_survives_until_matured {s₀ : State} (h : Inv s₀) (ops : List Op) (op : Op) (id : Nat) (x : Synth)
    (hx : x ∈ (run s₀ ops).synths id) (hu : x.kind = .unbonding) (hnm : isMatured (run s₀ ops).now x = false) :
    x ∈ (step (run s₀ ops) op).synths id := by
  unfold step
  split
  · rename_i s' hs; exact keep_applyOp (reach_inv h ops) hs hx hu hnm
  · exact hx

/-- every unstaking marker on a reachable state lasts the unbonding time, has an end time, and that end time is
not later than the lock's own (so the lock cannot be paid out before the marker ends). -/
theorem unstaking_marker_shape {s₀ : State} (h : Inv s₀) (ops : List Op) (id : Nat) (x : Synth)
    (hx : x ∈ (run s₀ ops).synths id) (hu : x.kind = .unbonding) :
    x.duration = (run s₀ ops).unbondingTime ∧ (run s₀ ops).conns id = none ∧
    ∃ e l, x.endTime = some e ∧ e ≤ (run s₀ ops).now + (run s₀ ops).unbondingTime ∧
      (run s₀ ops).locks id = some l ∧ ∀ le, l.endTime = some le → e ≤ le := by
  have hok := (reach_inv h ops).lockOK id
  unfold LockOK at hok
  split at hok
  · rw [hok.1] at hx; cases hx
  · rename_i l hl
    rcases hok.2 with h1 | ⟨k, h2, _⟩ | ⟨k, e, h2, h3, _, _, h6, h7⟩
    · rw [h1.1] at hx; cases hx
    · rw [h2] at hx; simp only [List.mem_singleton] at hx; subst hx; simp [mkB] at hu
    · rw [h2] at hx; simp only [List.mem_singleton] at hx; subst hx
      exact ⟨rfl, h3, e, l, rfl, h6, hl, h7⟩

/-! ## stake -/

/-- **after the epoch refresh the stake of every intermediary account (with an existing validator) is exactly
the risk-adjusted OSMO value, at the new multiplier, of the total amount of the locks connected to it.** -/
theorem refresh_sets_expected {s s' : State} {ups : List (Nat × Int × Int × Bool)} (h : Inv s)
    (hc : epoch s ups = .ok s') (hfull : ∃ s1, updateMults s ups = .ok (s1, true)) :
    ∀ k g, (k, g) ∈ s'.accs → k.2 ∈ s'.validators →
      osmoTokens s' k.1 (sumConn s' k s'.lastLockId) = .ok (delegated s' k) := by
  obtain ⟨s1, h1⟩ := hfull
  unfold epoch at hc
  rw [h1] at hc
  dsimp only at hc
  obtain ⟨f, g⟩ := updateMults_spec ups s s1 true h.mult0 h1
  have i1 := f.inv h g
  obtain ⟨f2, e2, _⟩ := refreshAll_spec s.accs s1 s' i1 hc
  intro k gg hk hv
  rw [f2.accs, f.accs] at hk
  rw [f2.vals] at hv
  have := e2 k gg hk hv
  unfold expectedDelegation at this
  rw [i1.accumEq] at this
  -- transport the expected amount from s1 to s'
  have e : osmoTokens s' k.1 (sumConn s' k s'.lastLockId) = osmoTokens s1 k.1 (sumConn s1 k s1.lastLockId) := by
    have hs : sumConn s' k s'.lastLockId = sumConn s1 k s1.lastLockId := by
      rw [f2.last]
      apply sumConn_congr
      intro i _ _
      unfold connAmt
      rw [f2.conns, f2.locks]
    rw [hs]
    unfold osmoTokens
    rw [f2.mult, f2.assets, f2.rf]
  rw [e]; exact this

/-- the value in closed form: `R − round(R·riskFactor)` with `R = round(multiplier·amount)`, both roundings to
the nearest integer, ties to even; never negative; within one base unit of `multiplier·amount·(1 − riskFactor)`. -/
theorem expected_value_formula {s : State} {d : Nat} {x v : Int} (h : osmoTokens s d x = .ok v) :
    v = if s.mult d = 0 then 0 else value (s.mult d) s.riskFactor x := osmoTokens_eq h

theorem expected_value_within_one_unit {m rf x : Int} (h0 : 0 ≤ rf) (h1 : rf ≤ P18) :
    value m rf x * (P18 * P18) - m * x * (P18 - rf) ≤ P18 * P18 ∧
    -(P18 * P18) ≤ value m rf x * (P18 * P18) - m * x * (P18 - rf) := value_within_one_unit h0 h1

/-- the accumulation store the refresh reads is exactly the sum over the connected locks. -/
theorem accumulation_eq_connected_locks {s₀ : State} (h : Inv s₀) (ops : List Op) (k : AccKey) :
    accFrom ((run s₀ ops).accum (.bonding, k)) (run s₀ ops).unbondingTime
      = sumConn (run s₀ ops) k (run s₀ ops).lastLockId := (reach_inv h ops).accumEq k

/-! ### between refreshes

FULL claim `drift_le_locks_between_epochs` (distance ≤ one base unit per connected lock) is FALSE on the code:
see `drift_le_locks_between_epochs_witness` below.  What holds — and is proved for every history — is a bound per
stake-changing CALL since the last refresh: the refresh leaves every account within one base unit of the exact
(unrounded) value `multiplier · total · (1 − riskFactor)`, and delegate / undelegate / add-to-lock move the stake by
exactly the value of the amount they move, itself within one unit of its exact product (undelegate-and-unbond is
an undelegation plus a re-delegation: two adjustments; every other call: none). -/

/-- a reset state whose non-zero multipliers all belong to assets (as `AddNewSuperfluidAsset` leaves them). -/
def Init' (s : State) : Prop := Init s ∧ MultAsset s

/-- right after a full refresh every refreshed account is within one base unit of the exact value. -/
theorem drift_after_refresh {s s' : State} {ups : List (Nat × Int × Int × Bool)} (h : Inv s)
    (hc : epoch s ups = .ok s') (hfull : ∃ s1, updateMults s ups = .ok (s1, true)) :
    ∀ k g, (k, g) ∈ s'.accs → k.2 ∈ s'.validators →
      -(1 * (P18 * P18)) ≤ dev s' k ∧ dev s' k ≤ 1 * (P18 * P18) := by
  intro k g hk hv
  have hi' : Inv s' := inv_epoch h hc
  have he := refresh_sets_expected h hc hfull k g hk hv
  have hval := osmoTokens_vOf he
  unfold dev accB
  rw [hi'.accumEq, hval]
  unfold vOf
  simp only [Int.one_mul]
  by_cases hm : s'.mult k.1 = 0
  · simp only [hm, if_true, Int.zero_mul, Int.sub_zero]
    rw [PP_lit]; omega
  · simp only [hm, if_false]
    obtain ⟨a, b⟩ := value_within_one_unit (m := s'.mult k.1) (x := sumConn s' k s'.lastLockId) hi'.rf0 hi'.rf1
    constructor <;> omega

/-- **PARTIAL** (replaces the false `drift_le_locks_between_epochs`): along any history without an epoch, starting
from a state where account `k` is within `n` base units of the exact value, the distance after the history is at
most `n + (number of stake adjustments the history's calls can make)` base units. -/
theorem drift_le_ops_since_refresh_partial {s : State} (h : Inv s) (hpa : MultAsset s) (ops : List Op)
    (hne : ∀ op, op ∈ ops → isEpoch op = false) (k : AccKey) (n : Int)
    (hlo : -(n * (P18 * P18)) ≤ dev s k) (hhi : dev s k ≤ n * (P18 * P18)) :
    -((n + (costs ops : Nat)) * (P18 * P18)) ≤ dev (run s ops) k ∧
    dev (run s ops) k ≤ (n + (costs ops : Nat)) * (P18 * P18) :=
  drift_run ops s h hpa hne k n hlo hhi

/-- the two together, for every history: any prefix, a full refresh, then any epoch-free suffix. -/
theorem drift_between_epochs_partial {s₀ : State} (h0 : Init' s₀) (pre : List Op) (ups : List (Nat × Int × Int × Bool))
    (s' : State) (hc : epoch (run s₀ pre) ups = .ok s') (hfull : ∃ s1, updateMults (run s₀ pre) ups = .ok (s1, true))
    (ops : List Op) (hne : ∀ op, op ∈ ops → isEpoch op = false)
    (k : AccKey) (g : Nat) (hk : (k, g) ∈ s'.accs) (hv : k.2 ∈ s'.validators) :
    -((1 + (costs ops : Nat)) * (P18 * P18)) ≤ dev (run s' ops) k ∧
    dev (run s' ops) k ≤ (1 + (costs ops : Nat)) * (P18 * P18) := by
  have hi := reach_inv (init_inv h0.1) pre
  have hm := multAsset_run pre s₀ (init_inv h0.1) h0.2
  have hi' : Inv s' := inv_epoch hi hc
  have hm' : MultAsset s' := by
    have : applyOp (run s₀ pre) (.epoch ups) = .ok s' := by
      show ((epoch (run s₀ pre) ups).map _).map _ = _
      rw [hc]; rfl
    exact multAsset_applyOp hi hm this
  obtain ⟨a, b⟩ := drift_after_refresh hi hc hfull k g hk hv
  exact drift_run ops s' hi' hm' hne k 1 a b

/-! ## supply -/

/-- **the reported OSMO supply (bank supply plus offset) is unchanged by every call and every epoch**, along
every history. -/
theorem supply_neutral {s₀ : State} (h : Inv s₀) (ops : List Op) : tot (run s₀ ops) = tot s₀ := by
  induction ops generalizing s₀ with
  | nil => rfl
  | cons op r ih =>
    show tot (run (step s₀ op) r) = tot s₀
    rw [ih (inv_step op h)]
    unfold step
    split
    · rename_i s' hs; exact tot_applyOp h hs
    · rfl

/-! ## locks stay bonded -/

/-- **a lock cannot start unlocking while it is superfluid-delegated**: the message fails, whoever sends it and
whatever amount it names — and the lock is indeed not unlocking (`one_staking_marker_per_delegated_lock`). -/
theorem no_begin_unlock_while_delegated {s₀ : State} (h : Inv s₀) (ops : List Op) (id : Nat) (k : AccKey)
    (hc : (run s₀ ops).conns id = some k) (sender : Nat) (coins : Option Int) :
    ∃ e, applyOp (run s₀ ops) (.beginUnlock sender id coins) = .error e := by
  obtain ⟨l, hl, hs, _⟩ := (reach_inv h ops).conn_lock hc
  have : ∃ e, msgBeginUnlocking (run s₀ ops) sender id coins = .error e := by
    unfold msgBeginUnlocking
    rw [hl, hs]
    dsimp only
    split
    · exact ⟨_, rfl⟩
    · exact ⟨_, rfl⟩
  obtain ⟨e, he⟩ := this
  exact ⟨e, applyOp_beginUnlock_err he⟩

/-- the same holds while the lock is undelegating: only `SuperfluidUnbondLock` can start its unlocking. -/
theorem no_begin_unlock_while_undelegating {s₀ : State} (_h : Inv s₀) (ops : List Op) (id : Nat) (x : Synth)
    (hx : x ∈ (run s₀ ops).synths id) (sender : Nat) (coins : Option Int) :
    ∃ e, applyOp (run s₀ ops) (.beginUnlock sender id coins) = .error e := by
  have : ∃ e, msgBeginUnlocking (run s₀ ops) sender id coins = .error e := by
    unfold msgBeginUnlocking
    split
    · exact ⟨_, rfl⟩
    · split
      · exact ⟨_, rfl⟩
      · split
        · exact ⟨_, rfl⟩
        · rename_i hs; rw [hs] at hx; cases hx
  obtain ⟨e, he⟩ := this
  exact ⟨e, applyOp_beginUnlock_err he⟩

/-- **a lock cannot be withdrawn before its undelegation has matured**: while an unstaking marker with a future
end time sits on it, `withdraw` fails … -/
theorem no_withdraw_before_undelegation_matured {s₀ : State} (h : Inv s₀) (ops : List Op) (id : Nat) (x : Synth) (e : Int)
    (hx : x ∈ (run s₀ ops).synths id) (hu : x.kind = .unbonding) (he : x.endTime = some e) (hnm : (run s₀ ops).now < e) :
    ∃ err, applyOp (run s₀ ops) (.withdraw id) = .error err := by
  have hi := reach_inv h ops
  obtain ⟨_, _, e', l, he', _, hl, hle⟩ := unstaking_marker_shape h ops id x hx hu
  rw [he] at he'; injection he' with he'; subst he'
  have : ∃ err, withdraw (run s₀ ops) id = .error err := by
    unfold withdraw
    cases hsw : sweepSynths (run s₀ ops) (run s₀ ops).lastLockId with
    | error err => exact ⟨err, rfl⟩
    | ok s1 =>
      obtain ⟨_, f1, _, _⟩ := inv_sweepSynths hi _ s1 hsw
      dsimp only
      unfold unlockMatured
      rw [f1.locks, hl]
      dsimp only
      cases hend : l.endTime with
      | none => exact ⟨_, rfl⟩
      | some le =>
        have := hle le hend
        dsimp only
        rw [f1.now, if_pos (by omega)]
        exact ⟨_, rfl⟩
  obtain ⟨e, he⟩ := this
  exact ⟨e, applyOp_withdraw_err he⟩

/-- … and the EndBlocker sweep leaves it in place. -/
theorem end_block_keeps_undelegating_lock {s₀ : State} (h : Inv s₀) (ops : List Op) (id : Nat) (x : Synth) (e : Int)
    (hx : x ∈ (run s₀ ops).synths id) (hu : x.kind = .unbonding) (he : x.endTime = some e) (hnm : (run s₀ ops).now < e) :
    (step (run s₀ ops) .endBlock).locks id = (run s₀ ops).locks id := by
  have hi := reach_inv h ops
  obtain ⟨_, _, e', l, he', _, hl, hle⟩ := unstaking_marker_shape h ops id x hx hu
  rw [he] at he'; injection he' with he'; subst he'
  unfold step
  split
  · rename_i s' hs
    unfold applyOp at hs
    obtain ⟨p, hp, hps⟩ := map_ok hs
    subst hps
    obtain ⟨r, hr, hpr⟩ := map_ok (show (endBlock (run s₀ ops)).map _ = .ok p from hp)
    subst hpr
    unfold endBlock at hr
    split at hr
    · cases hr
    · rename_i s1 h1
      obtain ⟨i1, f1, m1, _⟩ := inv_sweepSynths hi _ s1 h1
      rw [← f1.last] at m1
      obtain ⟨_, _, _, _, _, _, hl2, _⟩ := inv_sweepLocks s1.lastLockId s1.lastLockId r i1 m1 (Nat.le_refl _) hr
      dsimp only
      rcases hl2 id with g | ⟨l', e', hl', he'', hen⟩
      · rw [g, f1.locks]
      · rw [f1.locks, hl] at hl'; injection hl' with hl'; subst hl'
        have := hle e' he''
        rw [f1.now] at hen
        omega
  · rfl

/-- a delegated lock is not unlocking, so it cannot be withdrawn at all. -/
theorem no_withdraw_while_delegated {s₀ : State} (h : Inv s₀) (ops : List Op) (id : Nat) (k : AccKey)
    (hc : (run s₀ ops).conns id = some k) : ∃ err, applyOp (run s₀ ops) (.withdraw id) = .error err := by
  have hi := reach_inv h ops
  obtain ⟨l, hl, _, _, _, _, hend, _⟩ := hi.conn_lock hc
  have : ∃ err, withdraw (run s₀ ops) id = .error err := by
    unfold withdraw
    cases hsw : sweepSynths (run s₀ ops) (run s₀ ops).lastLockId with
    | error err => exact ⟨err, rfl⟩
    | ok s1 =>
      obtain ⟨_, f1, _, _⟩ := inv_sweepSynths hi _ s1 hsw
      dsimp only
      unfold unlockMatured
      rw [f1.locks, hl]
      dsimp only
      rw [hend]
      exact ⟨_, rfl⟩
  obtain ⟨e, he⟩ := this
  exact ⟨e, applyOp_withdraw_err he⟩

/-! ## what does NOT hold: witnesses (both reproduced on the real keepers by the engine's scripted history) -/

/-- the error of a failed call (for `decide`: states contain functions, so results are compared through projections). -/
def errOf {α : Type} (r : Except Err α) : Option Err :=
  match r with
  | .error e => some e
  | .ok _ => none

/-- multiplier 2.5, risk factor 0.5, unbonding time 100, one validator, supply 1000. -/
def w0 : State :=
  { now := 1, unbondingTime := 100, riskFactor := P18 / 2, validators := [0], assets := [0],
    mult := fun d => if d = 0 then 5 * P18 / 2 else 0, locks := fun _ => none, lastLockId := 0, synths := fun _ => [],
    conns := fun _ => none, accs := [], lastGauge := 0, accum := fun _ => [], deleg := fun _ => none,
    supply := 1000, offset := 0 }

theorem w0_init : Init w0 := by
  refine ⟨by decide, by decide, by decide, ?_, fun _ => rfl, fun _ => rfl, fun _ => rfl, fun _ => rfl⟩
  intro d
  show 0 ≤ (if d = 0 then 5 * P18 / 2 else 0)
  split <;> decide

/-- two locks of one share each, both delegated to the same validator, then an epoch at the unchanged price. -/
def wOps : List Op :=
  [.lock 0 0 1 100 true, .lock 1 0 1 100 true, .delegate 0 1 0, .delegate 1 2 0, .epoch [(0, 250, 100 * P18, false)]]

/-- The module's registered invariant (`TotalSuperfluidDelegationInvariant`) demands
`Σ_locks value(lock amount) = Σ_accounts stake`.  After the refresh the stake is `value(Σ amounts)`:
here `value(1) + value(1) = 2` but `value(2) = 3`.  The invariant is broken by the module's own epoch code. -/
theorem module_invariant_witness :
    (osmoTokens (run w0 wOps) 0 1).toOption = some 1 ∧ (run w0 wOps).conns 1 = some (0, 0) ∧ (run w0 wOps).conns 2 = some (0, 0) ∧
    delegated (run w0 wOps) (0, 0) = 3 ∧ (osmoTokens (run w0 wOps) 0 2).toOption = some 3 := by decide +kernel

/-- FULL claim, FALSE: “between epochs the stake of an account differs from the value of the locks connected to
it by at most one base unit per connected lock”:
  `∀ ops k, |delegated s k − v| ≤ numConn s k s.lastLockId` where `osmoTokens s k.1 (sumConn s k _) = .ok v`.
Continue the history above by undelegating both locks: each undelegation burns `value(1) = 1`, the refresh had
set the stake to `value(2) = 3`, so one unit stays staked with NO lock connected (expected value 0, 0 locks). -/
theorem drift_le_locks_between_epochs_witness :
    let s := run w0 (wOps ++ [.undelegate 0 1, .undelegate 1 2])
    delegated s (0, 0) = 1 ∧ s.conns 1 = none ∧ s.conns 2 = none ∧ s.lastLockId = 2 ∧
    sumConn s (0, 0) s.lastLockId = 0 ∧ numConn s (0, 0) s.lastLockId = 0 ∧ (osmoTokens s 0 0).toOption = some 0 := by
  decide +kernel

/-! ## non-vacuity: the hypotheses of the theorems are met on a non-trivial history -/

example : Init' w0 := by
  refine ⟨w0_init, ?_⟩
  intro d hd
  show d ∈ [0]
  have : (if d = 0 then 5 * P18 / 2 else 0) ≠ 0 := hd
  by_cases e : d = 0
  · subst e; simp
  · rw [if_neg e] at this; exact absurd rfl this


example : (run w0 wOps).synths 1 = [mkB 100 (0, 0)] ∧ tot (run w0 wOps) = 1000 ∧ (run w0 wOps).supply = 1003 := by
  decide +kernel
example : ((run w0 (wOps ++ [.undelegate 0 1])).synths 1 = [mkU 100 (0, 0) 101]) ∧
    errOf (applyOp (run w0 (wOps ++ [.undelegate 0 1])) (.withdraw 1)) = some .other ∧
    errOf (applyOp (run w0 (wOps ++ [.undelegate 0 1, .unbond 0 1, .advance 99])) (.withdraw 1)) = some .notmature ∧
    ((run w0 (wOps ++ [.undelegate 0 1, .unbond 0 1, .advance 100, .withdraw 1])).locks 1).isNone = true := by
  decide +kernel
example : errOf (applyOp (run w0 wOps) (.beginUnlock 0 1 none)) = some .synth := by decide +kernel

/-! # Validators at any exchange rate, slashes included

The theorems below are over `Model/SuperfluidStaking.lean` (the model the driver runs): the staking ledger of the
first part is replaced by cosmos-sdk's share arithmetic — validators with `Tokens` and `DelegatorShares`, delegations
as shares, `Delegate` / `InstantUndelegate` / `Slash` with the SDK's roundings — and histories are lists of `OpS`:
every call of the first part, validator slashes, and epochs with the store's iteration order of the intermediary
accounts as an input.  `SState.b` is the lockup / marker / bank state of the first part, `SState.k` the staking state.
All statements quantify over ALL such histories `runS s₀ ops` from any state whose `b` satisfies `Inv`. -/

/-- the invariant of the lockup / marker state holds along every history, whatever the validators' exchange rates
and however often they are slashed. -/
theorem reach_inv_slashed {s₀ : SState} (h : Inv s₀.b) (ops : List OpS) : Inv (runS s₀ ops).b := inv_runS ops s₀ h

theorem failed_op_noop_slashed {s : SState} {op : OpS} {e : Err} (h : applyOpS s op = .error e) : stepS s op = s := by
  unfold stepS; rw [h]

/-! ## supply -/

/-- **mint offsets exactly the minted amount.** -/
theorem mint_offsets_minted {s s' : SState} {a : Int} {key : AccKey} (h : mintS s a key = .ok s') :
    s'.b.supply = s.b.supply + a ∧ s'.b.offset = s.b.offset - a := by
  obtain ⟨_, _, _, v', issued, d', _, _, hs'⟩ := mintS_ok h
  subst hs'; exact ⟨rfl, rfl⟩

/-- **burn offsets exactly the burnt amount** — the amount `RemoveDelShares` actually paid out (`got`), which the
share arithmetic may truncate below the requested `a` (`burn_pays_less_than_requested_witness`). -/
theorem burn_offsets_burnt {s s' : SState} {a : Int} {key : AccKey} (h : burnS s a key = .ok s') :
    ∃ got, s'.b.supply = s.b.supply - got ∧ s'.b.offset = s.b.offset + got := by
  rcases (burnS_ok h).2 with ⟨_, hs'⟩ | ⟨d, sh, d', v', got, _, _, _, _, _, _, hs'⟩
  · subst hs'; exact ⟨0, by omega, by omega⟩
  · subst hs'; exact ⟨got, rfl, rfl⟩

/-- **the reported OSMO supply (bank supply + offset) is unchanged by every superfluid call and every epoch, from
every state**; a validator slash lowers it by exactly the amount the staking keeper burns. -/
theorem reported_supply_step {s s' : SState} {op : OpS} (h : Inv s.b) (hc : applyOpS s op = .ok s') :
    tot s'.b = tot s.b - burntBy s op ∧ (isSlash op = false → burntBy s op = 0) := by
  refine ⟨tot_applyOpS h hc, ?_⟩
  intro hs
  cases op with
  | slash _ _ _ _ => cases hs
  | slashRefill _ _ _ _ _ => cases hs
  | base _ => rfl
  | epochO _ _ => rfl

/-- **along every history** (by induction over the calls): reported supply = initial − Σ burnt by slashes; in
particular it is constant along every history without slash, at any exchange rates the state starts with. -/
theorem reported_supply_invariant {s₀ : SState} (h : Inv s₀.b) (ops : List OpS) :
    tot (runS s₀ ops).b = tot s₀.b - burntAlong s₀ ops ∧
    ((∀ op, op ∈ ops → isSlash op = false) → tot (runS s₀ ops).b = tot s₀.b) := by
  refine ⟨tot_runS ops s₀ h, ?_⟩
  intro hns
  rw [tot_runS ops s₀ h, burntAlong_noSlash ops s₀ hns]; omega

/-- a slash burns between 0 and the validator's tokens, takes them from the bank supply (never through the offset),
and changes neither a marker, nor a connection, nor a delegation record, nor the validator's shares. -/
theorem slash_effect {s s' : SState} {val : Nat} {p fr : Int} {skip : List Nat} {burn : Int} (h : Inv s.b)
    (hc : slashS s val p fr skip = .ok (s', burn)) :
    0 ≤ burn ∧ s'.b.offset = s.b.offset ∧ s'.b.supply = s.b.supply - burn ∧ s'.b.synths = s.b.synths ∧ s'.b.conns = s.b.conns ∧
    s'.k.dsh = s.k.dsh ∧ (∀ i, (s'.k.val i).shares = (s.k.val i).shares) ∧
    (s'.k.val val).tokens = (s.k.val val).tokens - burn := by
  have hb := (tot_slashS h hc).2
  rcases slashS_ok h hc with ⟨e0, e⟩ | ⟨_, _, _, _, b1, _, f1, e⟩
  · subst e; subst e0
    exact ⟨hb, rfl, by omega, rfl, rfl, rfl, fun _ => rfl, by omega⟩
  · subst e
    refine ⟨hb, f1.bank.2, ?_, f1.synths, f1.conns, rfl, ?_, ?_⟩
    · show b1.supply - burn = s.b.supply - burn; rw [f1.bank.1]
    · intro i
      show ((upd s.k.val val _) i).shares = _
      unfold upd; split
      · rename_i e; subst e; rfl
      · rfl
    · show ((upd s.k.val val _) val).tokens = _
      simp [upd]

/-! ## markers and time locks, with slashes -/

theorem one_staking_marker_per_delegated_lock_slashed {s₀ : SState} (h : Inv s₀.b) (ops : List OpS) (id : Nat) (k : AccKey)
    (hc : (runS s₀ ops).b.conns id = some k) :
    (runS s₀ ops).b.synths id = [mkB (runS s₀ ops).b.unbondingTime k] ∧
    ∃ l, (runS s₀ ops).b.locks id = some l ∧ l.single = true ∧ l.denom = k.1 ∧ l.endTime = none ∧
      (runS s₀ ops).b.unbondingTime ≤ l.duration ∧ 0 < l.amount := by
  obtain ⟨l, hl, hs, hsg, hd, hk, he, hp⟩ := (reach_inv_slashed h ops).conn_lock hc
  exact ⟨hs, l, hl, hsg, hk.symm, he, hd, hp⟩

/-- state-level form of the marker clauses: everything follows from the invariant of the reached state. -/
theorem marker_clauses_of_inv {b : State} (hi : Inv b) (id : Nat) :
    (b.synths id).length ≤ 1 ∧
    (∀ x, x ∈ b.synths id → x.kind = .bonding → b.conns id = some x.key) ∧
    (∀ x, x ∈ b.synths id → x.kind = .unbonding →
      x.duration = b.unbondingTime ∧ b.conns id = none ∧
      ∃ e l, x.endTime = some e ∧ e ≤ b.now + b.unbondingTime ∧ b.locks id = some l ∧ ∀ le, l.endTime = some le → e ≤ le) := by
  have hok := hi.lockOK id
  unfold LockOK at hok
  split at hok
  · rw [hok.1]
    exact ⟨by simp, (fun x hx => by cases hx), (fun x hx => by cases hx)⟩
  · rename_i l hl
    rcases hok.2 with h1 | ⟨k, h2, h3, _⟩ | ⟨k, e, h2, h3, _, _, h6, h7⟩
    · rw [h1.1]
      exact ⟨by simp, (fun x hx => by cases hx), (fun x hx => by cases hx)⟩
    · rw [h2]
      refine ⟨by simp, ?_, ?_⟩
      · intro x hx _; simp only [List.mem_singleton] at hx; subst hx; exact h3
      · intro x hx hu; simp only [List.mem_singleton] at hx; subst hx; simp [mkB] at hu
    · rw [h2]
      refine ⟨by simp, ?_, ?_⟩
      · intro x hx hb; simp only [List.mem_singleton] at hx; subst hx; simp [mkU] at hb
      · intro x hx _; simp only [List.mem_singleton] at hx; subst hx
        exact ⟨rfl, h3, e, l, rfl, h6, hl, h7⟩

/-- **markers with slashes**: on every reachable state no lock carries two synthetic locks, a staking marker sits
only on a lock connected to the marker's account, and an unstaking marker lasts the unbonding time, has an end time
no later than now + unbonding time and no later than the lock's own end. -/
theorem marker_clauses_slashed {s₀ : SState} (h : Inv s₀.b) (ops : List OpS) (id : Nat) :
    ((runS s₀ ops).b.synths id).length ≤ 1 ∧
    (∀ x, x ∈ (runS s₀ ops).b.synths id → x.kind = .bonding → (runS s₀ ops).b.conns id = some x.key) ∧
    (∀ x, x ∈ (runS s₀ ops).b.synths id → x.kind = .unbonding →
      x.duration = (runS s₀ ops).b.unbondingTime ∧ (runS s₀ ops).b.conns id = none ∧
      ∃ e l, x.endTime = some e ∧ e ≤ (runS s₀ ops).b.now + (runS s₀ ops).b.unbondingTime ∧
        (runS s₀ ops).b.locks id = some l ∧ ∀ le, l.endTime = some le → e ≤ le) :=
  marker_clauses_of_inv (reach_inv_slashed h ops) id

/-- **undelegating creates the unstaking marker, ending exactly one unbonding time later**, at any exchange rate. -/
theorem unstaking_marker_lasts_unbonding_period_slashed {s s' : SState} {sender id : Nat} (h : Inv s.b)
    (hc : superfluidUndelegateS s sender id = .ok s') :
    ∃ k, s.b.conns id = some k ∧ s'.b.conns id = none ∧
      s'.b.synths id = [mkU s.b.unbondingTime k (s.b.now + s.b.unbondingTime)] := by
  obtain ⟨s1, key, b', h1, hb, hs'⟩ := superfluidUndelegateS_ok hc
  subst hs'
  obtain ⟨l, s2, amt, hl, _, _, hk, h3, _, h5⟩ := undelegateCommonS_ok h1
  obtain ⟨f1, f2, f3, _, _⟩ := undelegateCommonS_lock h h1
  obtain ⟨_, l', _, _, _, hs'⟩ := createSynth_ok hb
  have hconn : s1.b.conns id = none := by
    rw [(burnS_bank h5).same.conns]
    obtain ⟨_, _, _, _, hs2⟩ := deleteSynth_ok h3
    subst hs2
    dsimp only
    simp [upd]
  subst hs'
  refine ⟨key, hk, hconn, ?_⟩
  dsimp only
  simp only [upd, if_true, mkU, f2, f3]

/-- **… and the unstaking marker stays until it has matured**: no call — and no validator slash — removes an unstaking
marker whose end time lies in the future. -/
theorem unstaking_marker_survives_until_matured_slashed {s₀ : SState} (h : Inv s₀.b) (ops : List OpS) (op : OpS) (id : Nat) (x : Synth)
    (hx : x ∈ (runS s₀ ops).b.synths id) (hu : x.kind = .unbonding) (hnm : isMatured (runS s₀ ops).b.now x = false) :
    x ∈ (stepS (runS s₀ ops) op).b.synths id := by
  unfold stepS
  split
  · rename_i s' hs; exact keep_applyOpS (reach_inv_slashed h ops) hs hx hu hnm
  · exact hx

/-- **a lock cannot start unlocking while it is superfluid-delegated or undelegating**, at any exchange rate and
after any slashes. -/
theorem no_begin_unlock_with_marker_slashed {s₀ : SState} (_h : Inv s₀.b) (ops : List OpS) (id : Nat) (x : Synth)
    (hx : x ∈ (runS s₀ ops).b.synths id) (sender : Nat) (coins : Option Int) :
    ∃ e, applyOpS (runS s₀ ops) (.base (.beginUnlock sender id coins)) = .error e := by
  have : ∃ e, msgBeginUnlocking (runS s₀ ops).b sender id coins = .error e := by
    unfold msgBeginUnlocking
    split
    · exact ⟨_, rfl⟩
    · split
      · exact ⟨_, rfl⟩
      · split
        · exact ⟨_, rfl⟩
        · rename_i hs; rw [hs] at hx; cases hx
  obtain ⟨e, he⟩ := this
  refine ⟨e, ?_⟩
  show ((msgBeginUnlocking (runS s₀ ops).b sender id coins).map _).map _ = _
  rw [he]; rfl

theorem no_begin_unlock_while_delegated_slashed {s₀ : SState} (h : Inv s₀.b) (ops : List OpS) (id : Nat) (k : AccKey)
    (hc : (runS s₀ ops).b.conns id = some k) (sender : Nat) (coins : Option Int) :
    ∃ e, applyOpS (runS s₀ ops) (.base (.beginUnlock sender id coins)) = .error e := by
  obtain ⟨hs, _⟩ := one_staking_marker_per_delegated_lock_slashed h ops id k hc
  exact no_begin_unlock_with_marker_slashed h ops id _ (by rw [hs]; exact List.mem_singleton.mpr rfl) sender coins

/-- state-level: a lock with an unmatured unstaking marker, or a delegated lock, cannot be withdrawn. -/
theorem withdraw_fails_of_inv {b : State} (hi : Inv b) (id : Nat)
    (hcase : (∃ k, b.conns id = some k) ∨ ∃ x e, x ∈ b.synths id ∧ x.kind = .unbonding ∧ x.endTime = some e ∧ b.now < e) :
    ∃ err, withdraw b id = .error err := by
  unfold withdraw
  cases hsw : sweepSynths b b.lastLockId with
  | error err => exact ⟨err, rfl⟩
  | ok s1 =>
    obtain ⟨_, f1, _, _⟩ := inv_sweepSynths hi _ s1 hsw
    dsimp only
    unfold unlockMatured
    rcases hcase with ⟨k, hc⟩ | ⟨x, e, hx, hu, he, hnm⟩
    · obtain ⟨l, hl, _, _, _, _, hend, _⟩ := hi.conn_lock hc
      rw [f1.locks, hl]
      dsimp only
      rw [hend]
      exact ⟨_, rfl⟩
    · obtain ⟨_, _, hun⟩ := marker_clauses_of_inv hi id
      obtain ⟨_, _, e', l, he', _, hl, hle⟩ := hun x hx hu
      rw [he] at he'; injection he' with he'; subst he'
      rw [f1.locks, hl]
      dsimp only
      cases hend : l.endTime with
      | none => exact ⟨_, rfl⟩
      | some le =>
        have := hle le hend
        dsimp only
        rw [f1.now, if_pos (by omega)]
        exact ⟨_, rfl⟩

/-- **a lock cannot be withdrawn while delegated, nor before its undelegation has matured**, at any exchange rate and
after any slashes. -/
theorem no_withdraw_before_undelegation_matured_slashed {s₀ : SState} (h : Inv s₀.b) (ops : List OpS) (id : Nat)
    (hcase : (∃ k, (runS s₀ ops).b.conns id = some k) ∨
      ∃ x e, x ∈ (runS s₀ ops).b.synths id ∧ x.kind = .unbonding ∧ x.endTime = some e ∧ (runS s₀ ops).b.now < e) :
    ∃ err, applyOpS (runS s₀ ops) (.base (.withdraw id)) = .error err := by
  obtain ⟨err, he⟩ := withdraw_fails_of_inv (reach_inv_slashed h ops) id hcase
  refine ⟨err, ?_⟩
  show ((withdraw (runS s₀ ops).b id).map _).map _ = _
  rw [he]; rfl

/-! ## the refresh at any exchange rate -/

/-- **`refresh_recreates_missing_delegation`** — an intermediary account with NO delegation record (everything was
force-undelegated at an earlier epoch) and expected amount `e > 0` is topped up by the refresh: `e` is minted and
offset, and the delegation is re-created with `⌊S·e/T⌋` shares of a validator with `T` tokens and `S` shares, whose
exact token worth is at most `e` and misses `e` by less than `T'/S'` < one unit (`…·S' < …·S' + T`, cross-multiplied);
no other delegation record changes.  (`hpow`: the validator stays below `2⁶³` power units, else staking's power index
panics and the mint is rolled back: `failed_mint_leaves_no_trace_refresh`.) -/
theorem refresh_recreates_missing_delegation {s s' : SState} {key : AccKey} {e : Int} {v' : Val} {issued : Int}
    (hv : key.2 ∈ s.b.validators) (hn : s.k.dsh key = none) (he : expectedDelegation s.b key = .ok e) (hpos : 0 < e)
    (hT : 0 < (s.k.val key.2).tokens) (hS : 0 < (s.k.val key.2).shares)
    (hadd : (s.k.val key.2).addTokensFromDel e = some (v', issued)) (hrange : chkDec issued = some issued)
    (hpow : powerOverflows v'.tokens = false) (hc : refreshOneS s key = .ok s') :
    s'.k.dsh key = some issued ∧ s'.b.supply = s.b.supply + e ∧ s'.b.offset = s.b.offset - e ∧
    (s'.k.val key.2).tokens = (s.k.val key.2).tokens + e ∧ (s'.k.val key.2).shares = (s.k.val key.2).shares + issued ∧
    issued * (s'.k.val key.2).tokens ≤ e * (s'.k.val key.2).shares ∧
    e * (s'.k.val key.2).shares < issued * (s'.k.val key.2).tokens + (s.k.val key.2).tokens ∧
    (∀ k', k' ≠ key → s'.k.dsh k' = s.k.dsh k') := by
  obtain ⟨h1, h2, h3, h4, h5⟩ := refreshOneS_missing hv hn he hpos hT hadd hrange hpow hc
  obtain ⟨a1, a2, a3⟩ := addTokensFromDel_ok hT hS hadd
  obtain ⟨b1, b2, _⟩ := sharesFromTokens_floor hT (Int.le_of_lt hS) (Int.le_of_lt hpos) a1
  obtain ⟨c1, c2⟩ := recreated_stake_bounds hT hS (Int.le_of_lt hpos) b1 b2
  rw [h2, a2, a3]
  exact ⟨h1, h3, h4, rfl, rfl, c1, c2, h5⟩

/-- … and at exchange rate one (`S = T·10¹⁸`) the re-created stake is exactly `e`: `e·10¹⁸` shares. -/
theorem refresh_recreates_missing_delegation_rate_one {s s' : SState} {key : AccKey} {e : Int} {v' : Val} {issued : Int}
    (hv : key.2 ∈ s.b.validators) (hn : s.k.dsh key = none) (he : expectedDelegation s.b key = .ok e) (hpos : 0 < e)
    (hT : 0 < (s.k.val key.2).tokens) (hrate : (s.k.val key.2).shares = (s.k.val key.2).tokens * P18)
    (hadd : (s.k.val key.2).addTokensFromDel e = some (v', issued)) (hrange : chkDec issued = some issued)
    (hpow : powerOverflows v'.tokens = false) (hc : refreshOneS s key = .ok s') :
    s'.k.dsh key = some (e * P18) ∧ (s'.k.val key.2).shares = (s'.k.val key.2).tokens * P18 := by
  have hS : 0 < (s.k.val key.2).shares := by
    rw [hrate]; exact Int.mul_pos hT (by decide)
  obtain ⟨h1, h2, _, _, _⟩ := refreshOneS_missing hv hn he hpos hT hadd hrange hpow hc
  obtain ⟨a1, a2, a3⟩ := addTokensFromDel_ok hT hS hadd
  obtain ⟨b1, b2, _⟩ := sharesFromTokens_floor hT (Int.le_of_lt hS) (Int.le_of_lt hpos) a1
  rw [hrate] at b1 b2
  have hi := recreated_stake_exact_at_rate_one hT b1 b2
  rw [h2, a2, a3, hrate, hi]
  refine ⟨by rw [h1, hi], ?_⟩
  rw [Int.add_mul]


/-! ## witnesses and non-vacuity over the staking model -/

/-- `w0` (multiplier 2.5, risk factor 0.5, unbonding time 100) with bank supply 2 000 000 and one validator holding
1 000 000 tokens at exchange rate one. -/
def wS0 : SState :=
  { b := { w0 with supply := 2000000 },
    k := { val := fun _ => { tokens := 1000000, shares := 1000000 * P18 }, dsh := fun _ => none } }

/-- the delegation shares of account (0,0) and its stake as users see it (`TokensFromShares(shares).TruncateInt()`). -/
def shares00 (s : SState) : Option Int := s.k.dsh (0, 0)
def stake00 (s : SState) : Option Int := (s.k.dsh (0, 0)).bind ((s.k.val 0).stakeTrunc)

example : Inv wS0.b := (init_inv w0_init).ledger_frame _ _ _

/-- "dust and recover" at exchange rate one: one share worth 1 uosmo is delegated and refreshed; the price falls
tenfold and the epoch force-undelegates everything — the delegation record is gone. -/
def dustOps : List OpS :=
  [.base (.lock 0 0 1 100 true), .base (.delegate 0 1 0), .epochO [(0, 250, 100 * P18, false)] [(0, 0)],
   .epochO [(0, 25, 100 * P18, false)] [(0, 0)]]

/-- … the price recovers and the next epoch re-creates the delegation from nothing (`epochO` carries the store's
iteration order of the intermediary accounts). -/
theorem dust_and_recover_example :
    (shares00 (runS wS0 (dustOps.take 3)) = some P18 ∧ stake00 (runS wS0 (dustOps.take 3)) = some 1 ∧
      (runS wS0 (dustOps.take 3)).b.supply = 2000001 ∧ (runS wS0 (dustOps.take 3)).b.offset = -1) ∧
    (shares00 (runS wS0 dustOps) = none ∧ ((runS wS0 dustOps).k.val 0).tokens = 1000000 ∧
      ((runS wS0 dustOps).k.val 0).shares = 1000000 * P18 ∧ (runS wS0 dustOps).b.supply = 2000000 ∧
      (runS wS0 dustOps).b.offset = 0 ∧ (expectedDelegation (runS wS0 dustOps).b (0, 0)).toOption = some 0) ∧
    (shares00 (runS wS0 (dustOps ++ [.epochO [(0, 250, 100 * P18, false)] [(0, 0)]])) = some P18 ∧
      stake00 (runS wS0 (dustOps ++ [.epochO [(0, 250, 100 * P18, false)] [(0, 0)]])) = some 1 ∧
      (runS wS0 (dustOps ++ [.epochO [(0, 250, 100 * P18, false)] [(0, 0)]])).b.supply = 2000001 ∧
      (runS wS0 (dustOps ++ [.epochO [(0, 250, 100 * P18, false)] [(0, 0)]])).b.offset = -1) := by
  decide +kernel

/-- the hypotheses of `refresh_recreates_missing_delegation` are met there: validator known, no record, and after the
multiplier update of the recovering epoch the expected amount is 1. -/
example : (0, 0).2 ∈ (runS wS0 dustOps).b.validators ∧ (runS wS0 dustOps).k.dsh (0, 0) = none ∧
    ((updateMults (runS wS0 dustOps).b [(0, 250, 100 * P18, false)]).toOption.bind
      fun r => (expectedDelegation r.1 (0, 0)).toOption) = some 1 ∧
    0 < ((runS wS0 dustOps).k.val 0).tokens ∧ 0 < ((runS wS0 dustOps).k.val 0).shares := by
  decide +kernel

/-- the validator is slashed by a third (666 667 tokens left for 10²⁴ raw shares) BEFORE the one-share lock is
delegated. -/
def slashOps : List OpS :=
  [.slash 0 1000000 333333333333333333 [], .base (.lock 0 0 1 100 true), .base (.delegate 0 1 0)]

/-- FULL claim “the stake is exactly the expected amount after the refresh” (likewise “delegating stakes the value of
the lock”) is FALSE at an exchange rate ≠ 1: the code mints 1 uosmo, the delegation gets ⌊10²⁴/666667⌋ raw shares
whose token worth is 0.999 999 25…, shown to users as 0; the refresh leaves it so, because it reads the current amount
ROUNDED (`RoundInt(0.999 999 25) = 1 =` expected).  What holds instead: `refresh_recreates_missing_delegation`. -/
theorem refresh_exact_at_rate_ne_one_witness :
    shares00 (runS wS0 slashOps) = some 1499999250000374999 ∧ stake00 (runS wS0 slashOps) = some 0 ∧
    ((runS wS0 slashOps).k.val 0).tokens = 666668 ∧ ((runS wS0 slashOps).k.val 0).shares = 1000001499999250000374999 ∧
    (runS wS0 slashOps).b.offset = -1 ∧ (expectedDelegation (runS wS0 slashOps).b (0, 0)).toOption = some 1 ∧
    shares00 (runS wS0 (slashOps ++ [.epochO [(0, 250, 100 * P18, false)] [(0, 0)]])) = some 1499999250000374999 ∧
    stake00 (runS wS0 (slashOps ++ [.epochO [(0, 250, 100 * P18, false)] [(0, 0)]])) = some 0 := by
  decide +kernel

/-- **the burn pays out less than requested**: undelegating that lock asks for 1 uosmo back, the shares are worth
0.999…, `InstantUndelegate` pays 0 — supply and offset move by the 0 actually burnt, not by the 1 requested (an offset
by the requested amount would raise the reported supply by 1).  The delegation record is gone; the minted uosmo stays
with the validator (and its offset −1 stays too). -/
theorem burn_pays_less_than_requested_witness :
    shares00 (runS wS0 (slashOps ++ [.base (.undelegate 0 1)])) = none ∧
    ((runS wS0 (slashOps ++ [.base (.undelegate 0 1)])).k.val 0).tokens = 666668 ∧
    (runS wS0 (slashOps ++ [.base (.undelegate 0 1)])).b.supply = (runS wS0 slashOps).b.supply ∧
    (runS wS0 (slashOps ++ [.base (.undelegate 0 1)])).b.offset = (runS wS0 slashOps).b.offset ∧
    tot (runS wS0 (slashOps ++ [.base (.undelegate 0 1)])).b = tot (runS wS0 slashOps).b := by
  decide +kernel

/-- one share worth 1 uosmo is delegated, THEN the validator is slashed by a third (the stake is worth 0.666…; the
lock keeps its share: ⌊1·⅓⌋ = 0), then the price falls tenfold. -/
def stuckOps : List OpS :=
  [.base (.lock 0 0 1 100 true), .base (.delegate 0 1 0), .slash 0 1000000 333333333333333333 [],
   .epochO [(0, 25, 100 * P18, false)] [(0, 0)]]

/-- FULL claim “after the refresh the stake matches the expected amount” is FALSE at an exchange rate ≠ 1 in a
second way: the expected amount is 0, the refresh reads the current amount as `RoundInt(0.666…) = 1`, asks to
force-undelegate 1 uosmo, the shares for 1 uosmo (1.49…) exceed the delegation's (1), `ValidateUnbondAmount` fails
("invalid shares amount"), the error is only logged — the stake stays.  It stays after the lock has undelegated and
through every later epoch: 10¹⁸ raw shares with NO lock connected, expected amount 0. -/
theorem refresh_burn_rejected_witness :
    shares00 (runS wS0 stuckOps) = some P18 ∧ (expectedDelegation (runS wS0 stuckOps).b (0, 0)).toOption = some 0 ∧
    errOf (burnS (runS wS0 stuckOps) 1 (0, 0)) = some .other ∧
    shares00 (runS wS0 (stuckOps ++ [.base (.undelegate 0 1), .epochO [(0, 25, 100 * P18, false)] [(0, 0)]])) = some P18 ∧
    (runS wS0 (stuckOps ++ [.base (.undelegate 0 1), .epochO [(0, 25, 100 * P18, false)] [(0, 0)]])).b.conns 1 = none ∧
    (runS wS0 (stuckOps ++ [.base (.undelegate 0 1), .epochO [(0, 25, 100 * P18, false)] [(0, 0)]])).b.offset = -1 := by
  decide +kernel

/-- a lock of 1000 shares worth 1250 uosmo is delegated, then the validator is slashed by a third. -/
def slash2Ops : List OpS :=
  [.base (.lock 0 0 1000 100 true), .base (.delegate 0 1 0), .slash 0 1000000 333333333333333333 []]

/-- FULL claim “between refreshes the stake is within one unit per lock of the value of the delegated locks” is FALSE
after a slash: the slash cuts the lock to 668 shares (worth 835) and the stake to 833.85… — `AfterValidatorSlashed`,
which would refresh the stake, is never called by this SDK version; the next epoch mints the difference.  (With a
larger multiplier the gap grows in proportion: each lock keeps up to one share more than its stake paid for.) -/
theorem stake_after_slash_witness :
    stake00 (runS wS0 slash2Ops) = some 833 ∧ ((runS wS0 slash2Ops).b.locks 1).map (·.amount) = some 668 ∧
    (expectedDelegation (runS wS0 slash2Ops).b (0, 0)).toOption = some 835 ∧
    (runS wS0 slash2Ops).b.supply = 2000000 + 1250 - 333333 ∧ (runS wS0 slash2Ops).b.offset = -1250 ∧
    stake00 (runS wS0 (slash2Ops ++ [.epochO [(0, 250, 100 * P18, false)] [(0, 0)]])) = some 834 ∧
    (runS wS0 (slash2Ops ++ [.epochO [(0, 250, 100 * P18, false)] [(0, 0)]])).b.offset = -1251 := by
  decide +kernel

/-! ## failing inner steps of the all-or-nothing branches (fault histories of the engine)

`mintOsmoTokensAndDelegate` and `forceUndelegateAndBurnOsmoTokens` run their writes inside `ApplyFuncIfNoError`; the
lockup hook `AfterAddTokensToLock` and the epoch's `RefreshIntermediaryDelegationAmounts` log a failure and go on.  In
the model a failed branch is an `Except.error` that carries no state, and the callers continue from the state they had:
the theorems below say what that means for every state — a failed branch leaves NO trace in the bank supply, the supply
offset, the validators, the delegation records, the markers or the connections — and name the two inner steps that
fail on the real chain after the superfluid code has validated its inputs. -/

/-- **inner-step fault 1** — a validator without tokens but with outstanding shares (what a 100 % slash leaves): staking's
`Delegate` refuses (`ErrDelegatorShareExRateInvalid`), whatever the amount. -/
theorem mint_refused_without_tokens (s : SState) (a : Int) (key : AccKey)
    (h0 : (s.k.val key.2).tokens = 0) (hS : 0 < (s.k.val key.2).shares) : ∃ e, mintS s a key = .error e := by
  unfold mintS
  split
  · exact ⟨_, rfl⟩
  · split
    · exact ⟨_, rfl⟩
    · dsimp only
      rw [if_pos ⟨h0, hS⟩]
      exact ⟨_, rfl⟩

/-- **inner-step fault 2** — the LAST step of the branch: the validator's new tokens reach `2⁶³` power units, staking's
`SetValidatorByPowerIndex` panics, `ApplyFuncIfNoError` recovers — after the coins were minted, offset and sent. -/
theorem mint_refused_at_power_limit (s : SState) (a : Int) (key : AccKey) {v' : Val} {issued : Int}
    (hadd : (s.k.val key.2).addTokensFromDel a = some (v', issued)) (hp : powLimit ≤ v'.tokens) :
    ∃ e, mintS s a key = .error e := by
  unfold mintS
  split
  · exact ⟨_, rfl⟩
  · split
    · exact ⟨_, rfl⟩
    · dsimp only
      split
      · exact ⟨_, rfl⟩
      · rw [hadd]
        dsimp only
        rw [if_pos ((powerOverflows_iff _).2 hp)]
        exact ⟨_, rfl⟩

/-- the burn branch on a validator without tokens: `ValidateUnbondAmount` refuses (`ErrInsufficientShares`), or there is
no delegation record and nothing happens. -/
theorem burn_refused_without_tokens {s s' : SState} {a : Int} {key : AccKey} (h0 : (s.k.val key.2).tokens = 0)
    (hc : burnS s a key = .ok s') : s' = s := by
  unfold burnS at hc
  split at hc
  · cases hc
  · split at hc
    · injection hc with hc; exact hc.symm
    · split at hc
      · cases hc
      · dsimp only at hc
        unfold validateUnbondAmount at hc
        rw [if_pos h0] at hc
        cases hc

/-- **`failed_mint_leaves_no_trace`** (top-up hook): when the mint the hook asks for fails, `IncreaseSuperfluidDelegation`
returns the state it was called in — the complete state: supply, offset, validators, delegation records, locks,
markers, connections. -/
theorem failed_mint_leaves_no_trace {s s' : SState} {id d : Nat} {a : Int}
    (hfail : ∀ key amt, s.b.conns id = some key → osmoTokens s.b key.1 (if key.1 = d then a else 0) = .ok amt →
      ∃ e, mintS s amt key = .error e)
    (hc : increaseHookS s id d a = .ok s') : s' = s := by
  unfold increaseHookS at hc
  split at hc
  · injection hc with hc; exact hc.symm
  · rename_i key hk
    split at hc
    · injection hc with hc; exact hc.symm
    · split at hc
      · cases hc
      · injection hc with hc; exact hc.symm
      · rename_i amt hos
        split at hc
        · injection hc with hc; exact hc.symm
        · obtain ⟨e, he⟩ := hfail key amt hk hos
          rw [he] at hc
          cases e <;> first | (cases hc; done) | (injection hc with hc; exact hc.symm)

/-- … and the hook never fails because of a failed mint: the top-up goes through. -/
theorem failed_mint_is_swallowed {s : SState} {id d : Nat} {a : Int} {key : AccKey} {amt : Int} {e : Err}
    (hk : s.b.conns id = some key) (hacc : (findAcc s.b.accs key).isSome = true)
    (hos : osmoTokens s.b key.1 (if key.1 = d then a else 0) = .ok amt) (hm : mintS s amt key = .error e) :
    increaseHookS s id d a = .ok s := by
  unfold increaseHookS
  rw [hk]
  dsimp only
  cases hf : findAcc s.b.accs key with
  | none => rw [hf] at hacc
  | some g =>
    dsimp only
    rw [hos]
    dsimp only
    split
    · rfl
    · rw [hm]
      have hnp : e ≠ .panic := fun h => mintS_no_panic (h ▸ hm)
      cases e <;> first | rfl | exact absurd rfl hnp

/-- **the whole top-up of a delegated lock whose validator has no tokens**: `AddTokensToLockByID` succeeds, the lock and
its marker's accumulation store grow, and nothing else moves — bank supply, supply offset, every validator, every
delegation record, every marker and every connection are as before. -/
theorem topup_without_tokens_leaves_no_trace {s s' : SState} {snd id : Nat} {a : Int} {key : AccKey}
    (hk : s.b.conns id = some key) (h0 : (s.k.val key.2).tokens = 0) (hS : 0 < (s.k.val key.2).shares)
    (hc : addTokensToLockS s snd id a = .ok s') :
    s'.k = s.k ∧ s'.b.supply = s.b.supply ∧ s'.b.offset = s.b.offset ∧ s'.b.synths = s.b.synths ∧ s'.b.conns = s.b.conns ∧
    ∃ l, s.b.locks id = some l ∧ s'.b.locks id = some { l with amount := l.amount + a } := by
  obtain ⟨l, hl, _, _, hsy, hh⟩ := addTokensToLockS_ok hc
  have hconn : (addedState s.b id l a).conns = s.b.conns := by unfold addedState; split <;> rfl
  have e : s' = { s with b := addedState s.b id l a } := by
    refine failed_mint_leaves_no_trace ?_ hh
    intro key' amt hk' _
    have : key' = key := by
      have : (addedState s.b id l a).conns id = some key' := hk'
      rw [hconn, hk] at this; injection this with this; exact this.symm
    subst this
    exact mint_refused_without_tokens _ amt key' h0 hS
  subst e
  refine ⟨rfl, ?_, ?_, ?_, hconn, l, hl, ?_⟩
  · unfold addedState; split <;> rfl
  · unfold addedState; split <;> rfl
  · unfold addedState; split <;> rfl
  · show (addedState s.b id l a).locks id = _
    unfold addedState; split <;> simp [upd]

/-- **`failed_refresh_branch_leaves_no_trace`** (epoch refresh, one account): when the branch the refresh takes — mint
if the expected amount exceeds the current one, force-undelegate-and-burn if it is below — fails, the iteration leaves the
complete state as it was (the loop goes on with the next account). -/
theorem failed_refresh_branch_leaves_no_trace {s s' : SState} {key : AccKey}
    (hfail : ∀ cur e, currentS s key = some cur → expectedDelegation s.b key = .ok e →
      (cur < e → ∃ err, mintS s (e - cur) key = .error err) ∧ (e < cur → ∃ err, burnS s (cur - e) key = .error err))
    (hc : refreshOneS s key = .ok s') : s' = s := by
  unfold refreshOneS at hc
  split at hc
  · injection hc with hc; exact hc.symm
  · split at hc
    · cases hc
    · rename_i cur hcur
      split at hc
      · cases hc
      · rename_i e he
        obtain ⟨f1, f2⟩ := hfail cur e hcur he
        split at hc
        · rename_i hlt
          obtain ⟨err, herr⟩ := f1 (by omega)
          rw [herr] at hc
          cases err <;> first | (cases hc; done) | (injection hc with hc; exact hc.symm)
        · split at hc
          · rename_i hgt
            obtain ⟨err, herr⟩ := f2 (by omega)
            rw [herr] at hc
            cases err <;> first | (cases hc; done) | (injection hc with hc; exact hc.symm)
          · injection hc with hc; exact hc.symm

/-- **the refresh of an account whose validator has no tokens** changes nothing, whatever the expected amount: the mint
is refused by `Delegate`, the burn by `ValidateUnbondAmount`. -/
theorem refresh_without_tokens_leaves_no_trace {s s' : SState} {key : AccKey}
    (h0 : (s.k.val key.2).tokens = 0) (hS : 0 < (s.k.val key.2).shares) (hc : refreshOneS s key = .ok s') : s' = s := by
  unfold refreshOneS at hc
  split at hc
  · injection hc with hc; exact hc.symm
  · split at hc
    · cases hc
    · split at hc
      · cases hc
      · rename_i cur _ _ e _
        split at hc
        · obtain ⟨err, herr⟩ := mint_refused_without_tokens s (e - cur) key h0 hS
          rw [herr] at hc
          cases err <;> first | (cases hc; done) | (injection hc with hc; exact hc.symm)
        · split at hc
          · split at hc
            · cases hc
            · injection hc with hc; exact hc.symm
            · rename_i s2 hb
              injection hc with hc
              rw [← hc]; exact burn_refused_without_tokens h0 hb
          · injection hc with hc; exact hc.symm

/-- **the reported supply along histories with failed branches**: `reported_supply_invariant` quantifies over ALL
histories of `OpS` from ALL states satisfying the lockup invariant — validators without tokens, validators at the power
limit, 100 % slashes with top-ups (`OpS.slashRefill`), top-ups and refreshes whose mint fails included.  Restated for
the histories of the fault classes: supply + offset falls by exactly what the slashes burn and by nothing else. -/
theorem reported_supply_invariant_with_failed_branches {s₀ : SState} (h : Inv s₀.b) (ops : List OpS) :
    tot (runS s₀ ops).b = tot s₀.b - burntAlong s₀ ops := (reported_supply_invariant h ops).1

/-! ### non-vacuity: the fault histories on the witness state -/

/-- a one-share lock is delegated (stake 1, minted and offset), the validator is slashed by everything it has — the lock
is emptied and, in the same composite step, topped up with 4 shares by its owner (the hook's mint is refused) —, the
lock is topped up again, and an epoch at the old price wants to mint the missing stake. -/
def zeroOps : List OpS :=
  [.base (.lock 0 0 1 100 true), .base (.delegate 0 1 0), .slashRefill 0 2000000 P18 [] [(1, 4)],
   .base (.addToLock 0 1 8), .epochO [(0, 250, 100 * P18, false)] [(0, 0)]]

/-- the state after the 100 % slash: validator 0 has no tokens but all its shares, lock 1 holds the 4 topped-up shares
and is still delegated with its marker; the three mints that follow (hook of the composite's top-up, hook of the second
top-up, refresh) are all refused, and supply, offset and the delegation record stay exactly where the slash left them;
reported supply = initial − burnt. -/
theorem failed_mint_history_example :
    ((runS wS0 (zeroOps.take 3)).k.val 0).tokens = 0 ∧ ((runS wS0 (zeroOps.take 3)).k.val 0).shares = 1000001 * P18 ∧
    ((runS wS0 (zeroOps.take 3)).b.locks 1).map (·.amount) = some 4 ∧ (runS wS0 (zeroOps.take 3)).b.conns 1 = some (0, 0) ∧
    (runS wS0 (zeroOps.take 3)).b.supply = 2000001 - 1000001 ∧ (runS wS0 (zeroOps.take 3)).b.offset = -1 ∧
    errOf (mintS (runS wS0 (zeroOps.take 3)) 10 (0, 0)) = some .other ∧
    errOf (applyOpS (runS wS0 (zeroOps.take 3)) (.base (.addToLock 0 1 8))) = none ∧
    ((runS wS0 (zeroOps.take 4)).b.locks 1).map (·.amount) = some 12 ∧
    (expectedDelegation (runS wS0 (zeroOps.take 4)).b (0, 0)).toOption = some 15 ∧
    errOf (applyOpS (runS wS0 (zeroOps.take 4)) (zeroOps.getD 4 (.base .endBlock))) = none ∧
    (runS wS0 zeroOps).b.supply = 1000000 ∧ (runS wS0 zeroOps).b.offset = -1 ∧
    shares00 (runS wS0 zeroOps) = some P18 ∧ ((runS wS0 zeroOps).k.val 0).tokens = 0 ∧
    tot (runS wS0 zeroOps).b = tot wS0.b - 1000001 ∧ burntAlong wS0 zeroOps = 1000001 := by
  decide +kernel

/-- the hypotheses of `topup_without_tokens_leaves_no_trace` / `refresh_without_tokens_leaves_no_trace` are met there. -/
example : (runS wS0 (zeroOps.take 3)).b.conns 1 = some (0, 0) ∧ ((runS wS0 (zeroOps.take 3)).k.val (0, 0).2).tokens = 0 ∧
    0 < ((runS wS0 (zeroOps.take 3)).k.val (0, 0).2).shares ∧ Inv (runS wS0 (zeroOps.take 3)).b :=
  ⟨by decide +kernel, by decide +kernel, by decide +kernel, reach_inv_slashed ((init_inv w0_init).ledger_frame _ _ _) _⟩

/-- the power limit: a delegated one-share lock is topped up with 8·10²⁴ shares worth 10²⁵ uosmo; minting them would take
the validator to more than 2⁶³ power units — the hook's mint is refused at the last step of the branch, the top-up
stands, supply and offset stay; the refresh of the next epoch is refused in the same way. -/
def overflowOps : List OpS :=
  [.base (.lock 0 0 1 100 true), .base (.delegate 0 1 0), .base (.addToLock 0 1 8000000000000000000000000),
   .epochO [(0, 250, 100 * P18, false)] [(0, 0)]]

theorem power_overflow_history_example :
    (runS wS0 (overflowOps.take 2)).b.supply = 2000001 ∧ (runS wS0 (overflowOps.take 2)).b.offset = -1 ∧
    errOf (mintS (runS wS0 (overflowOps.take 2)) 10000000000000000000000000 (0, 0)) = some .other ∧
    errOf (mintS (runS wS0 (overflowOps.take 2)) (powLimit - 1000001 - 1) (0, 0)) = none ∧
    errOf (mintS (runS wS0 (overflowOps.take 2)) (powLimit - 1000001) (0, 0)) = some .other ∧
    errOf (applyOpS (runS wS0 (overflowOps.take 2)) (overflowOps.getD 2 (.base .endBlock))) = none ∧
    ((runS wS0 (overflowOps.take 3)).b.locks 1).map (·.amount) = some 8000000000000000000000001 ∧
    (expectedDelegation (runS wS0 (overflowOps.take 3)).b (0, 0)).toOption = some 10000000000000000000000001 ∧
    (runS wS0 overflowOps).b.supply = 2000001 ∧ (runS wS0 overflowOps).b.offset = -1 ∧
    shares00 (runS wS0 overflowOps) = some P18 ∧ ((runS wS0 overflowOps).k.val 0).tokens = 1000001 ∧
    tot (runS wS0 overflowOps).b = tot wS0.b := by
  decide +kernel

end OsmoVerif.Props.C11
