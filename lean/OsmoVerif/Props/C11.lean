/-
C11 — Superfluid staking: stake tracks locks, supply is neutral, locks stay bonded.

Theorems over `OsmoVerif.Superfluid` (Model/Superfluid.lean), tied to x/superfluid + x/lockup + the staking /
bank keepers by the `superfluid` engine through the real app (every observation of every generated history is
replayed by the model).  All statements quantify over ALL histories: `run s₀ ops` for an arbitrary op list
from any state satisfying the invariant `Inv` (in particular every `reset` state, `init_inv`); a failed call is
a no-op (`failed_op_noop`), as the message server's cache context makes it.

PARTIAL by construction.  Outside the model, hence outside these theorems:
* the staking module below the ledger abstraction `deleg (denom, validator) : Option Int` — validator shares at
  an exchange rate ≠ 1, slashing (`SlashLockupsForValidatorSlash`, the refresh in `AfterValidatorSlashed`),
  jailed / unbonding / removed validators, the int64 consensus-power bound of a validator;
* staking rewards, their move to the intermediary accounts' gauges and the gauge distribution
  (`MoveSuperfluidDelegationRewardToGauges`, `distributeSuperfluidGauges`);
* governance removal of a superfluid asset, `UnbondConvertAndStake`, unpool / migration entry points,
  `ForceUnlock`, `CreateFullRangePositionAndSuperfluidDelegate` / `addToConcentratedLiquiditySuperfluidPosition`
  (concentrated full-range SHARES are covered as an asset kind: their locks go through the same entry points and
  the epoch's multiplier formula is modelled; the position-level wrappers are not);
* the pools: the epoch takes the OSMO backing and the share supply of every asset as inputs.

Sub-claims the code (and so the model) does NOT satisfy are proved false on witnesses, next to what holds
instead: `drift_le_locks_between_epochs_witness` (one unit stays staked with no lock delegated) and
`module_invariant_witness` (the module's own registered invariant compares a sum of roundings with a rounding
of the sum).
-/
import OsmoVerif.Proofs.SuperfluidDrift

namespace OsmoVerif.Props.C11
open OsmoVerif.Superfluid OsmoVerif.Num

/-! ## histories and their invariant -/

/-- the state the engine's `reset` line describes: parameters, validators, assets with non-negative
multipliers, a supply and an offset — no locks, markers, connections, accounts or delegations yet. -/
def Init (s : State) : Prop :=
  0 ≤ s.riskFactor ∧ s.riskFactor ≤ P18 ∧ 0 ≤ s.unbondingTime ∧ (∀ d, 0 ≤ s.mult d) ∧
  (∀ id, s.locks id = none) ∧ (∀ id, s.synths id = []) ∧ (∀ id, s.conns id = none) ∧ (∀ k, s.accum k = [])

theorem init_inv {s : State} (h : Init s) : Inv s := by
  obtain ⟨h1, h2, h3, h4, h5, h6, h7, h8⟩ := h
  refine ⟨h1, h2, h3, h4, fun id _ => h5 id, ?_, ?_, ?_⟩
  · intro id; rw [h5, h6, h7]; simp [LockOK]
  · intro id k hk; rw [h7] at hk; cases hk
  · intro k
    rw [h8]
    unfold sumConn
    rw [sumTo_zero]
    · rfl
    · intro i _ _; exact connAmt_of_noconn (h7 i)

/-- the invariant holds along every history. -/
theorem reach_inv {s₀ : State} (h : Inv s₀) (ops : List Op) : Inv (run s₀ ops) := inv_run ops s₀ h

/-- **a failed call changes nothing** (and a panic is a failed call). -/
theorem failed_op_noop {s : State} {op : Op} {e : Err} (h : applyOp s op = .error e) : step s op = s := by
  unfold step; rw [h]

theorem step_ok {s s' : State} {op : Op} (h : applyOp s op = .ok s') : step s op = s' := by
  unfold step; rw [h]

theorem applyOp_beginUnlock_err {s : State} {snd id : Nat} {c : Option Int} {e : Err}
    (h : msgBeginUnlocking s snd id c = .error e) : applyOp s (.beginUnlock snd id c) = .error e := by
  show ((msgBeginUnlocking s snd id c).map _).map _ = _
  rw [h]; rfl

theorem applyOp_withdraw_err {s : State} {id : Nat} {e : Err}
    (h : withdraw s id = .error e) : applyOp s (.withdraw id) = .error e := by
  show ((withdraw s id).map _).map _ = _
  rw [h]; rfl

/-! ## markers -/

/-- **every delegated lock has exactly one synthetic lock, and it is the staking marker of the account the
lock is connected to** (no end time, lasting the unbonding time); the lock exists, holds a single coin of the
account's denomination, is not unlocking and is locked for at least the unbonding time. -/
theorem one_staking_marker_per_delegated_lock {s₀ : State} (h : Inv s₀) (ops : List Op) (id : Nat) (k : AccKey)
    (hc : (run s₀ ops).conns id = some k) :
    (run s₀ ops).synths id = [mkB (run s₀ ops).unbondingTime k] ∧
    ∃ l, (run s₀ ops).locks id = some l ∧ l.single = true ∧ l.denom = k.1 ∧ l.endTime = none ∧
      (run s₀ ops).unbondingTime ≤ l.duration := by
  obtain ⟨l, hl, hs, hsg, hd, hk, he, _⟩ := (reach_inv h ops).conn_lock hc
  exact ⟨hs, l, hl, hsg, hk.symm, he, hd⟩

/-- conversely every staking marker belongs to a delegated lock: markers and connections are in bijection. -/
theorem staking_marker_only_on_delegated_lock {s₀ : State} (h : Inv s₀) (ops : List Op) (id : Nat) (x : Synth)
    (hx : x ∈ (run s₀ ops).synths id) (hb : x.kind = .bonding) : (run s₀ ops).conns id = some x.key := by
  have hi := reach_inv h ops
  have hok := hi.lockOK id
  unfold LockOK at hok
  split at hok
  · rw [hok.1] at hx; cases hx
  · rcases hok.2 with h1 | ⟨k, h2, h3, _⟩ | ⟨k, e, h2, _⟩
    · rw [h1.1] at hx; cases hx
    · rw [h2] at hx; simp only [List.mem_singleton] at hx; subst hx; exact h3
    · rw [h2] at hx; simp only [List.mem_singleton] at hx; subst hx; simp [mkU] at hb

/-- no lock ever carries two synthetic locks. -/
theorem at_most_one_marker {s₀ : State} (h : Inv s₀) (ops : List Op) (id : Nat) : ((run s₀ ops).synths id).length ≤ 1 := by
  have hok := (reach_inv h ops).lockOK id
  unfold LockOK at hok
  split at hok
  · rw [hok.1]; simp
  · rcases hok.2 with h1 | ⟨k, h2, _⟩ | ⟨k, e, h2, _⟩
    · rw [h1.1]; simp
    · rw [h2]; simp
    · rw [h2]; simp

/-- **undelegating creates the unstaking marker, ending exactly one unbonding time later**, and removes the
connection; it is the lock's only synthetic lock. -/
theorem unstaking_marker_lasts_unbonding_period {s s' : State} {sender id : Nat} (h : Inv s)
    (hc : superfluidUndelegate s sender id = .ok s') :
    ∃ k, s.conns id = some k ∧ s'.conns id = none ∧
      s'.synths id = [mkU s.unbondingTime k (s.now + s.unbondingTime)] := by
  unfold superfluidUndelegate at hc
  split at hc
  · cases hc
  · rename_i s1 key h1
    obtain ⟨l, s2, amt, hl, _, _, hk, h3, _, h5⟩ := undelegateCommon_ok h1
    obtain ⟨f1, f2, f3, _, _⟩ := undelegateCommon_lock h h1
    obtain ⟨_, l', _, _, _, hs'⟩ := createSynth_ok hc
    have hconn : s1.conns id = none := by
      rw [(burn_same h5).conns]
      obtain ⟨_, _, _, _, hs2⟩ := deleteSynth_ok h3
      subst hs2
      dsimp only
      simp [upd]
    subst hs'
    refine ⟨key, hk, hconn, ?_⟩
    dsimp only
    simp only [upd, if_true, mkU, f2, f3]

/-- **… and it stays until it has matured**: no call removes an unstaking marker whose end time lies in the
future (only the EndBlocker sweep deletes unstaking markers, and only matured ones). -/
theorem unstaking_marker_survives_until_matured {s₀ : State} (h : Inv s₀) (ops : List Op) (op : Op) (id : Nat) (x : Synth)
    (hx : x ∈ (run s₀ ops).synths id) (hu : x.kind = .unbonding) (hnm : isMatured (run s₀ ops).now x = false) :
    x ∈ (step (run s₀ ops) op).synths id := by
  unfold step
  split
  · rename_i s' hs; exact keep_applyOp (reach_inv h ops) hs hx hu hnm
  · exact hx

/-- every unstaking marker on a reachable state lasts the unbonding time, has an end time, and that end time is
not later than the lock's own (so the lock cannot be paid out before the marker ends). -/
theorem unstaking_marker_shape {s₀ : State} (h : Inv s₀) (ops : List Op) (id : Nat) (x : Synth)
    (hx : x ∈ (run s₀ ops).synths id) (hu : x.kind = .unbonding) :
    x.duration = (run s₀ ops).unbondingTime ∧ (run s₀ ops).conns id = none ∧
    ∃ e l, x.endTime = some e ∧ e ≤ (run s₀ ops).now + (run s₀ ops).unbondingTime ∧
      (run s₀ ops).locks id = some l ∧ ∀ le, l.endTime = some le → e ≤ le := by
  have hok := (reach_inv h ops).lockOK id
  unfold LockOK at hok
  split at hok
  · rw [hok.1] at hx; cases hx
  · rename_i l hl
    rcases hok.2 with h1 | ⟨k, h2, _⟩ | ⟨k, e, h2, h3, _, _, h6, h7⟩
    · rw [h1.1] at hx; cases hx
    · rw [h2] at hx; simp only [List.mem_singleton] at hx; subst hx; simp [mkB] at hu
    · rw [h2] at hx; simp only [List.mem_singleton] at hx; subst hx
      exact ⟨rfl, h3, e, l, rfl, h6, hl, h7⟩

/-! ## stake -/

/-- **after the epoch refresh the stake of every intermediary account (with an existing validator) is exactly
the risk-adjusted OSMO value, at the new multiplier, of the total amount of the locks connected to it.** -/
theorem refresh_sets_expected {s s' : State} {ups : List (Nat × Int × Int × Bool)} (h : Inv s)
    (hc : epoch s ups = .ok s') (hfull : ∃ s1, updateMults s ups = .ok (s1, true)) :
    ∀ k g, (k, g) ∈ s'.accs → k.2 ∈ s'.validators →
      osmoTokens s' k.1 (sumConn s' k s'.lastLockId) = .ok (delegated s' k) := by
  obtain ⟨s1, h1⟩ := hfull
  unfold epoch at hc
  rw [h1] at hc
  dsimp only at hc
  obtain ⟨f, g⟩ := updateMults_spec ups s s1 true h.mult0 h1
  have i1 := f.inv h g
  obtain ⟨f2, e2, _⟩ := refreshAll_spec s.accs s1 s' i1 hc
  intro k gg hk hv
  rw [f2.accs, f.accs] at hk
  rw [f2.vals] at hv
  have := e2 k gg hk hv
  unfold expectedDelegation at this
  rw [i1.accumEq] at this
  -- transport the expected amount from s1 to s'
  have e : osmoTokens s' k.1 (sumConn s' k s'.lastLockId) = osmoTokens s1 k.1 (sumConn s1 k s1.lastLockId) := by
    have hs : sumConn s' k s'.lastLockId = sumConn s1 k s1.lastLockId := by
      rw [f2.last]
      apply sumConn_congr
      intro i _ _
      unfold connAmt
      rw [f2.conns, f2.locks]
    rw [hs]
    unfold osmoTokens
    rw [f2.mult, f2.assets, f2.rf]
  rw [e]; exact this

/-- the value in closed form: `R − round(R·riskFactor)` with `R = round(multiplier·amount)`, both roundings to
the nearest integer, ties to even; never negative; within one base unit of `multiplier·amount·(1 − riskFactor)`. -/
theorem expected_value_formula {s : State} {d : Nat} {x v : Int} (h : osmoTokens s d x = .ok v) :
    v = if s.mult d = 0 then 0 else value (s.mult d) s.riskFactor x := osmoTokens_eq h

theorem expected_value_within_one_unit {m rf x : Int} (h0 : 0 ≤ rf) (h1 : rf ≤ P18) :
    value m rf x * (P18 * P18) - m * x * (P18 - rf) ≤ P18 * P18 ∧
    -(P18 * P18) ≤ value m rf x * (P18 * P18) - m * x * (P18 - rf) := value_within_one_unit h0 h1

/-- the accumulation store the refresh reads is exactly the sum over the connected locks. -/
theorem accumulation_eq_connected_locks {s₀ : State} (h : Inv s₀) (ops : List Op) (k : AccKey) :
    accFrom ((run s₀ ops).accum (.bonding, k)) (run s₀ ops).unbondingTime
      = sumConn (run s₀ ops) k (run s₀ ops).lastLockId := (reach_inv h ops).accumEq k

/-! ### between refreshes

FULL claim `drift_le_locks_between_epochs` (distance ≤ one base unit per connected lock) is FALSE on the code:
see `drift_le_locks_between_epochs_witness` below.  What holds — and is proved for every history — is a bound per
stake-changing CALL since the last refresh: the refresh leaves every account within one base unit of the exact
(unrounded) value `multiplier · total · (1 − riskFactor)`, and delegate / undelegate / add-to-lock move the stake by
exactly the value of the amount they move, itself within one unit of its exact product (undelegate-and-unbond is
an undelegation plus a re-delegation: two adjustments; every other call: none). -/

/-- a reset state whose non-zero multipliers all belong to assets (as `AddNewSuperfluidAsset` leaves them). -/
def Init' (s : State) : Prop := Init s ∧ MultAsset s

/-- right after a full refresh every refreshed account is within one base unit of the exact value. -/
theorem drift_after_refresh {s s' : State} {ups : List (Nat × Int × Int × Bool)} (h : Inv s)
    (hc : epoch s ups = .ok s') (hfull : ∃ s1, updateMults s ups = .ok (s1, true)) :
    ∀ k g, (k, g) ∈ s'.accs → k.2 ∈ s'.validators →
      -(1 * (P18 * P18)) ≤ dev s' k ∧ dev s' k ≤ 1 * (P18 * P18) := by
  intro k g hk hv
  have hi' : Inv s' := inv_epoch h hc
  have he := refresh_sets_expected h hc hfull k g hk hv
  have hval := osmoTokens_vOf he
  unfold dev accB
  rw [hi'.accumEq, hval]
  unfold vOf
  simp only [Int.one_mul]
  by_cases hm : s'.mult k.1 = 0
  · simp only [hm, if_true, Int.zero_mul, Int.sub_zero]
    rw [PP_lit]; omega
  · simp only [hm, if_false]
    obtain ⟨a, b⟩ := value_within_one_unit (m := s'.mult k.1) (x := sumConn s' k s'.lastLockId) hi'.rf0 hi'.rf1
    constructor <;> omega

/-- **PARTIAL** (replaces the false `drift_le_locks_between_epochs`): along any history without an epoch, starting
from a state where account `k` is within `n` base units of the exact value, the distance after the history is at
most `n + (number of stake adjustments the history's calls can make)` base units. -/
theorem drift_le_ops_since_refresh_partial {s : State} (h : Inv s) (hpa : MultAsset s) (ops : List Op)
    (hne : ∀ op, op ∈ ops → isEpoch op = false) (k : AccKey) (n : Int)
    (hlo : -(n * (P18 * P18)) ≤ dev s k) (hhi : dev s k ≤ n * (P18 * P18)) :
    -((n + (costs ops : Nat)) * (P18 * P18)) ≤ dev (run s ops) k ∧
    dev (run s ops) k ≤ (n + (costs ops : Nat)) * (P18 * P18) :=
  drift_run ops s h hpa hne k n hlo hhi

/-- the two together, for every history: any prefix, a full refresh, then any epoch-free suffix. -/
theorem drift_between_epochs_partial {s₀ : State} (h0 : Init' s₀) (pre : List Op) (ups : List (Nat × Int × Int × Bool))
    (s' : State) (hc : epoch (run s₀ pre) ups = .ok s') (hfull : ∃ s1, updateMults (run s₀ pre) ups = .ok (s1, true))
    (ops : List Op) (hne : ∀ op, op ∈ ops → isEpoch op = false)
    (k : AccKey) (g : Nat) (hk : (k, g) ∈ s'.accs) (hv : k.2 ∈ s'.validators) :
    -((1 + (costs ops : Nat)) * (P18 * P18)) ≤ dev (run s' ops) k ∧
    dev (run s' ops) k ≤ (1 + (costs ops : Nat)) * (P18 * P18) := by
  have hi := reach_inv (init_inv h0.1) pre
  have hm := multAsset_run pre s₀ (init_inv h0.1) h0.2
  have hi' : Inv s' := inv_epoch hi hc
  have hm' : MultAsset s' := by
    have : applyOp (run s₀ pre) (.epoch ups) = .ok s' := by
      show ((epoch (run s₀ pre) ups).map _).map _ = _
      rw [hc]; rfl
    exact multAsset_applyOp hi hm this
  obtain ⟨a, b⟩ := drift_after_refresh hi hc hfull k g hk hv
  exact drift_run ops s' hi' hm' hne k 1 a b

/-! ## supply -/

/-- **the reported OSMO supply (bank supply plus offset) is unchanged by every call and every epoch**, along
every history. -/
theorem supply_neutral {s₀ : State} (h : Inv s₀) (ops : List Op) : tot (run s₀ ops) = tot s₀ := by
  induction ops generalizing s₀ with
  | nil => rfl
  | cons op r ih =>
    show tot (run (step s₀ op) r) = tot s₀
    rw [ih (inv_step op h)]
    unfold step
    split
    · rename_i s' hs; exact tot_applyOp h hs
    · rfl

/-! ## locks stay bonded -/

/-- **a lock cannot start unlocking while it is superfluid-delegated**: the message fails, whoever sends it and
whatever amount it names — and the lock is indeed not unlocking (`one_staking_marker_per_delegated_lock`). -/
theorem no_begin_unlock_while_delegated {s₀ : State} (h : Inv s₀) (ops : List Op) (id : Nat) (k : AccKey)
    (hc : (run s₀ ops).conns id = some k) (sender : Nat) (coins : Option Int) :
    ∃ e, applyOp (run s₀ ops) (.beginUnlock sender id coins) = .error e := by
  obtain ⟨l, hl, hs, _⟩ := (reach_inv h ops).conn_lock hc
  have : ∃ e, msgBeginUnlocking (run s₀ ops) sender id coins = .error e := by
    unfold msgBeginUnlocking
    rw [hl, hs]
    dsimp only
    split
    · exact ⟨_, rfl⟩
    · exact ⟨_, rfl⟩
  obtain ⟨e, he⟩ := this
  exact ⟨e, applyOp_beginUnlock_err he⟩

/-- the same holds while the lock is undelegating: only `SuperfluidUnbondLock` can start its unlocking. -/
theorem no_begin_unlock_while_undelegating {s₀ : State} (_h : Inv s₀) (ops : List Op) (id : Nat) (x : Synth)
    (hx : x ∈ (run s₀ ops).synths id) (sender : Nat) (coins : Option Int) :
    ∃ e, applyOp (run s₀ ops) (.beginUnlock sender id coins) = .error e := by
  have : ∃ e, msgBeginUnlocking (run s₀ ops) sender id coins = .error e := by
    unfold msgBeginUnlocking
    split
    · exact ⟨_, rfl⟩
    · split
      · exact ⟨_, rfl⟩
      · split
        · exact ⟨_, rfl⟩
        · rename_i hs; rw [hs] at hx; cases hx
  obtain ⟨e, he⟩ := this
  exact ⟨e, applyOp_beginUnlock_err he⟩

/-- **a lock cannot be withdrawn before its undelegation has matured**: while an unstaking marker with a future
end time sits on it, `withdraw` fails … -/
theorem no_withdraw_before_undelegation_matured {s₀ : State} (h : Inv s₀) (ops : List Op) (id : Nat) (x : Synth) (e : Int)
    (hx : x ∈ (run s₀ ops).synths id) (hu : x.kind = .unbonding) (he : x.endTime = some e) (hnm : (run s₀ ops).now < e) :
    ∃ err, applyOp (run s₀ ops) (.withdraw id) = .error err := by
  have hi := reach_inv h ops
  obtain ⟨_, _, e', l, he', _, hl, hle⟩ := unstaking_marker_shape h ops id x hx hu
  rw [he] at he'; injection he' with he'; subst he'
  have : ∃ err, withdraw (run s₀ ops) id = .error err := by
    unfold withdraw
    cases hsw : sweepSynths (run s₀ ops) (run s₀ ops).lastLockId with
    | error err => exact ⟨err, rfl⟩
    | ok s1 =>
      obtain ⟨_, f1, _, _⟩ := inv_sweepSynths hi _ s1 hsw
      dsimp only
      unfold unlockMatured
      rw [f1.locks, hl]
      dsimp only
      cases hend : l.endTime with
      | none => exact ⟨_, rfl⟩
      | some le =>
        have := hle le hend
        dsimp only
        rw [f1.now, if_pos (by omega)]
        exact ⟨_, rfl⟩
  obtain ⟨e, he⟩ := this
  exact ⟨e, applyOp_withdraw_err he⟩

/-- … and the EndBlocker sweep leaves it in place. -/
theorem end_block_keeps_undelegating_lock {s₀ : State} (h : Inv s₀) (ops : List Op) (id : Nat) (x : Synth) (e : Int)
    (hx : x ∈ (run s₀ ops).synths id) (hu : x.kind = .unbonding) (he : x.endTime = some e) (hnm : (run s₀ ops).now < e) :
    (step (run s₀ ops) .endBlock).locks id = (run s₀ ops).locks id := by
  have hi := reach_inv h ops
  obtain ⟨_, _, e', l, he', _, hl, hle⟩ := unstaking_marker_shape h ops id x hx hu
  rw [he] at he'; injection he' with he'; subst he'
  unfold step
  split
  · rename_i s' hs
    unfold applyOp at hs
    obtain ⟨p, hp, hps⟩ := map_ok hs
    subst hps
    obtain ⟨r, hr, hpr⟩ := map_ok (show (endBlock (run s₀ ops)).map _ = .ok p from hp)
    subst hpr
    unfold endBlock at hr
    split at hr
    · cases hr
    · rename_i s1 h1
      obtain ⟨i1, f1, m1, _⟩ := inv_sweepSynths hi _ s1 h1
      rw [← f1.last] at m1
      obtain ⟨_, _, _, _, _, _, hl2, _⟩ := inv_sweepLocks s1.lastLockId s1.lastLockId r i1 m1 (Nat.le_refl _) hr
      dsimp only
      rcases hl2 id with g | ⟨l', e', hl', he'', hen⟩
      · rw [g, f1.locks]
      · rw [f1.locks, hl] at hl'; injection hl' with hl'; subst hl'
        have := hle e' he''
        rw [f1.now] at hen
        omega
  · rfl

/-- a delegated lock is not unlocking, so it cannot be withdrawn at all. -/
theorem no_withdraw_while_delegated {s₀ : State} (h : Inv s₀) (ops : List Op) (id : Nat) (k : AccKey)
    (hc : (run s₀ ops).conns id = some k) : ∃ err, applyOp (run s₀ ops) (.withdraw id) = .error err := by
  have hi := reach_inv h ops
  obtain ⟨l, hl, _, _, _, _, hend, _⟩ := hi.conn_lock hc
  have : ∃ err, withdraw (run s₀ ops) id = .error err := by
    unfold withdraw
    cases hsw : sweepSynths (run s₀ ops) (run s₀ ops).lastLockId with
    | error err => exact ⟨err, rfl⟩
    | ok s1 =>
      obtain ⟨_, f1, _, _⟩ := inv_sweepSynths hi _ s1 hsw
      dsimp only
      unfold unlockMatured
      rw [f1.locks, hl]
      dsimp only
      rw [hend]
      exact ⟨_, rfl⟩
  obtain ⟨e, he⟩ := this
  exact ⟨e, applyOp_withdraw_err he⟩

/-! ## what does NOT hold: witnesses (both reproduced on the real keepers by the engine's scripted history) -/

/-- the error of a failed call (for `decide`: states contain functions, so results are compared through projections). -/
def errOf {α : Type} (r : Except Err α) : Option Err :=
  match r with
  | .error e => some e
  | .ok _ => none

/-- multiplier 2.5, risk factor 0.5, unbonding time 100, one validator, supply 1000. -/
def w0 : State :=
  { now := 1, unbondingTime := 100, riskFactor := P18 / 2, validators := [0], assets := [0],
    mult := fun d => if d = 0 then 5 * P18 / 2 else 0, locks := fun _ => none, lastLockId := 0, synths := fun _ => [],
    conns := fun _ => none, accs := [], lastGauge := 0, accum := fun _ => [], deleg := fun _ => none,
    supply := 1000, offset := 0 }

theorem w0_init : Init w0 := by
  refine ⟨by decide, by decide, by decide, ?_, fun _ => rfl, fun _ => rfl, fun _ => rfl, fun _ => rfl⟩
  intro d
  show 0 ≤ (if d = 0 then 5 * P18 / 2 else 0)
  split <;> decide

/-- two locks of one share each, both delegated to the same validator, then an epoch at the unchanged price. -/
def wOps : List Op :=
  [.lock 0 0 1 100 true, .lock 1 0 1 100 true, .delegate 0 1 0, .delegate 1 2 0, .epoch [(0, 250, 100 * P18, false)]]

/-- The module's registered invariant (`TotalSuperfluidDelegationInvariant`) demands
`Σ_locks value(lock amount) = Σ_accounts stake`.  After the refresh the stake is `value(Σ amounts)`:
here `value(1) + value(1) = 2` but `value(2) = 3`.  The invariant is broken by the module's own epoch code. -/
theorem module_invariant_witness :
    (osmoTokens (run w0 wOps) 0 1).toOption = some 1 ∧ (run w0 wOps).conns 1 = some (0, 0) ∧ (run w0 wOps).conns 2 = some (0, 0) ∧
    delegated (run w0 wOps) (0, 0) = 3 ∧ (osmoTokens (run w0 wOps) 0 2).toOption = some 3 := by decide +kernel

/-- FULL claim, FALSE: “between epochs the stake of an account differs from the value of the locks connected to
it by at most one base unit per connected lock”:
  `∀ ops k, |delegated s k − v| ≤ numConn s k s.lastLockId` where `osmoTokens s k.1 (sumConn s k _) = .ok v`.
Continue the history above by undelegating both locks: each undelegation burns `value(1) = 1`, the refresh had
set the stake to `value(2) = 3`, so one unit stays staked with NO lock connected (expected value 0, 0 locks). -/
theorem drift_le_locks_between_epochs_witness :
    let s := run w0 (wOps ++ [.undelegate 0 1, .undelegate 1 2])
    delegated s (0, 0) = 1 ∧ s.conns 1 = none ∧ s.conns 2 = none ∧ s.lastLockId = 2 ∧
    sumConn s (0, 0) s.lastLockId = 0 ∧ numConn s (0, 0) s.lastLockId = 0 ∧ (osmoTokens s 0 0).toOption = some 0 := by
  decide +kernel

/-! ## non-vacuity: the hypotheses of the theorems are met on a non-trivial history -/

example : Init' w0 := by
  refine ⟨w0_init, ?_⟩
  intro d hd
  show d ∈ [0]
  have : (if d = 0 then 5 * P18 / 2 else 0) ≠ 0 := hd
  by_cases e : d = 0
  · subst e; simp
  · rw [if_neg e] at this; exact absurd rfl this


example : (run w0 wOps).synths 1 = [mkB 100 (0, 0)] ∧ tot (run w0 wOps) = 1000 ∧ (run w0 wOps).supply = 1003 := by
  decide +kernel
example : ((run w0 (wOps ++ [.undelegate 0 1])).synths 1 = [mkU 100 (0, 0) 101]) ∧
    errOf (applyOp (run w0 (wOps ++ [.undelegate 0 1])) (.withdraw 1)) = some .other ∧
    errOf (applyOp (run w0 (wOps ++ [.undelegate 0 1, .unbond 0 1, .advance 99])) (.withdraw 1)) = some .notmature ∧
    ((run w0 (wOps ++ [.undelegate 0 1, .unbond 0 1, .advance 100, .withdraw 1])).locks 1).isNone = true := by
  decide +kernel
example : errOf (applyOp (run w0 wOps) (.beginUnlock 0 1 none)) = some .synth := by decide +kernel

end OsmoVerif.Props.C11
