/-
Tie T1 for the x/gamm pool math (owning property C04).
A: the hand-written straight-line arithmetic of `Model/Gamm.lean` is EQUAL to the definitions regenerated from
   balancer/amm.go and stableswap/amm.go by the expression translator (`Gen/GammMathFn.lean`, `pow` = the C13 model
   of `osmomath.Pow`).  The equalities are re-proved on every run: a changed rounding operator, operand, operand
   order or comparison in Go changes the right-hand side and breaks the obligation.
B: ordered operator / comparison / call lists (operands numbered by declaration order) of the functions with loops
   or closures, each naming the model definition that mirrors it.
-/
import OsmoVerif.Model.Gamm
import OsmoVerif.Gen.GammMathFn
import OsmoVerif.Proofs.TieTactics

namespace OsmoVerif.Props.TieGenGammMath
open OsmoVerif OsmoVerif.Num

/-- balancer `feeRatio`. -/
theorem feeRatio_model_eq_gen : GammMath.feeRatio = Gen.GammMath.feeRatio := rfl

/-- balancer `solveConstantFunctionInvariant` (Model: `solveCFI`). -/
theorem solveCFI_model_eq_gen :
    GammMath.solveCFI = fun a b c d e => Gen.GammMath.solveConstantFunctionInvariant MathM.pow a b c d e := by
  funext a b c d e
  unfold GammMath.solveCFI Gen.GammMath.solveConstantFunctionInvariant
  rfl

/-- balancer `calcPoolSharesOutGivenSingleAssetIn` (Model: `sharesOutGivenSingleIn`). -/
theorem sharesOutGivenSingleIn_model_eq_gen :
    GammMath.sharesOutGivenSingleIn = Gen.GammMath.calcPoolSharesOutGivenSingleAssetIn MathM.pow := by
  funext a b c d e
  unfold GammMath.sharesOutGivenSingleIn Gen.GammMath.calcPoolSharesOutGivenSingleAssetIn
  rw [feeRatio_model_eq_gen, solveCFI_model_eq_gen]
  rfl

/-- balancer `calcSingleAssetInGivenPoolSharesOut` (Model: `singleInGivenSharesOut`). -/
theorem singleInGivenSharesOut_model_eq_gen :
    GammMath.singleInGivenSharesOut = Gen.GammMath.calcSingleAssetInGivenPoolSharesOut MathM.pow := by
  funext a b c d e
  unfold GammMath.singleInGivenSharesOut Gen.GammMath.calcSingleAssetInGivenPoolSharesOut
  rw [feeRatio_model_eq_gen, solveCFI_model_eq_gen]
  rfl

/-- balancer `calcPoolSharesInGivenSingleAssetOut` (Model: `sharesInGivenSingleOut`). -/
theorem sharesInGivenSingleOut_model_eq_gen :
    GammMath.sharesInGivenSingleOut = Gen.GammMath.calcPoolSharesInGivenSingleAssetOut MathM.pow := by
  funext a b c d e f
  unfold GammMath.sharesInGivenSingleOut Gen.GammMath.calcPoolSharesInGivenSingleAssetOut
  rw [feeRatio_model_eq_gen, solveCFI_model_eq_gen]
  rfl

/-- stableswap `cfmmConstantMultiNoVY` (Model: `cfmmNoVY`), guard included. -/
theorem cfmmNoVY_model_eq_gen : GammMath.cfmmNoVY = Gen.GammMath.cfmmConstantMultiNoVY := by
  funext x y w
  unfold GammMath.cfmmNoVY Gen.GammMath.cfmmConstantMultiNoVY
  simp only [Option.bind_eq_bind, Option.bind_assoc, or_assoc]

/-- stableswap `cfmmConstantMultiNoV` (Model: `cfmmNoV`). -/
theorem cfmmNoV_model_eq_gen : GammMath.cfmmNoV = Gen.GammMath.cfmmConstantMultiNoV := by
  funext x y w
  unfold GammMath.cfmmNoV Gen.GammMath.cfmmConstantMultiNoV
  rw [cfmmNoVY_model_eq_gen]

/-- stableswap `targetKCalculator` (Model: `targetK`; the model evaluates `x0²` before `yf² + w`, Go after:
both orders fail together, hence the case split). -/
theorem targetK_model_eq_gen : GammMath.targetK = Gen.GammMath.targetKCalculator := by
  funext x0 y0 w yf
  unfold GammMath.targetK Gen.GammMath.targetKCalculator
  rw [cfmmNoV_model_eq_gen]
  simp only [Option.bind_eq_bind, Option.bind_assoc]
  cases Gen.GammMath.cfmmConstantMultiNoV x0 y0 w <;> try rfl
  simp only [Option.bind_some]
  cases BigDec.quo _ yf <;> cases BigDec.mul yf yf <;> cases BigDec.mul x0 x0 <;>
    simp only [Option.bind_some, Option.bind_none]
  all_goals (try (cases BigDec.add _ w <;> rfl))

/-- stableswap `deriveUpperLowerXFinalReserveBounds` (Model: `deriveBounds`): the two `Equal(zero)` guards, the
`LT(one)` / `GT(one)` comparisons, `Quo`, `Ceil`. -/
theorem deriveBounds_model_eq_gen : GammMath.deriveBounds = Gen.GammMath.deriveUpperLowerXFinalReserveBounds := by
  funext x y w yf
  unfold GammMath.deriveBounds Gen.GammMath.deriveUpperLowerXFinalReserveBounds
  rw [cfmmNoV_model_eq_gen]
  rfl

/-- stableswap `oneMinus`. -/
theorem oneMinus_model_eq_gen : GammMath.oneMinus = Gen.GammMath.oneMinus := by
  funext s
  unfold GammMath.oneMinus Gen.GammMath.oneMinus
  cases Dec.sub P18 s <;> rfl

/-- B — `CalcExitPool`: mirrored by `GammMath.calcExitPool` / `refundedShares` / `exitAmount` / `exitCoins` -/
theorem opsx_CalcExitPool_pinned : Gen.GammMath.opsx_CalcExitPool =
    ["GetTotalShares(v1)", "GTE(v2,v4)", "Sub(v4,osmomath.OneInt())", "IsZero(v3)", "!",
     "SubMut(osmomath.OneDec(),v3)", "MulIntMut(v6,v2)", "ToLegacyDec(v2)", "QuoInt(v5,v4)",
     "GetTotalPoolLiquidity(v1,v0)", "MulInt(v7,v10.Amount)", "TruncateInt(_)", "LTE(v11,osmomath.ZeroInt())",
     "GTE(v11,v10.Amount)"] := by decide

/-- B — `MaximalExactRatioJoin`: mirrored by `GammMath.maximalExactRatioJoin` / `shareRatios` / `usedAmount` -/
theorem opsx_MaximalExactRatioJoin_pinned : Gen.GammMath.opsx_MaximalExactRatioJoin =
    ["GetTotalPoolLiquidity(v0,v1)", "GetTotalShares(v0)", "ToLegacyDec(v12.Amount)", "QuoInt(_,_)", "LT(v13,v7)",
     "GT(v13,v8)", "Equal(v7,math.LegacyMaxSortableDec)", "MulInt(v7,v10)", "TruncateInt(_)", "Equal(v7,v8)", "!",
     "Equal(v6[v11],v7)", "MulInt(v7,_)", "Ceil(_)", "TruncateInt(_)", "Sub(v12.Amount,v14)", "IsZero(v15)", "!",
     "Add(v4,_)"] := by decide

/-- B — `iterKCalculator`: mirrored by `GammMath.iterK` (returns a closure) -/
theorem opsx_iterKCalculator_pinned : Gen.GammMath.opsx_iterKCalculator =
    ["MulInt64(v0,3)", "Mul(v3,v0)", "AddMut(_,v1)", "Mul(v2,v2)", "AddMut(_,_)", "NegMut(_)", "Sub(v0,v5)",
     "Neg(v6)", "AddMut(v7,v3)", "MulMut(_,v6)", "AddMut(v7,v4)", "MulMut(_,v6)"] := by decide

/-- B — `solveCFMMBinarySearchMulti`: mirrored by `GammMath.solverSetup` / `solveCfmmMulti` -/
theorem opsx_solveCFMMBinarySearchMulti_pinned : Gen.GammMath.opsx_solveCFMMBinarySearchMulti =
    ["IsPositive(v0)", "!", "IsPositive(v1)", "!", "||(_,_)", "IsNegative(v2)", "||(_,_)", "Abs(v3)", "GTE(_,v1)",
     "Add(v1,v3)", "deriveUpperLowerXFinalReserveBounds(v0,v1,v2,v4)", "targetKCalculator(v0,v1,v2,v4)",
     "iterKCalculator(v0,v2,v4)", "BinarySearchBigDec(v8,v5,v6,v7,v10,v9)", "Sub(v0,v12)", "Abs(v14)", "GTE(_,v0)"] := by decide

/-- B — `Pool.CalcOutAmtGivenIn`: mirrored by `GammMath.balOutDec` / `balCalcOut` / `outTrunc` -/
theorem opsx_Pool_CalcOutAmtGivenIn_pinned : Gen.GammMath.opsx_Pool_CalcOutAmtGivenIn =
    ["ToLegacyDec(v5.Amount)", "Sub(oneDec,v4)", "MulMut(_,_)", "ToLegacyDec(v6.Token.Amount)", "AddMut(v9,v10)",
     "ToLegacyDec(v6.Weight)", "ToLegacyDec(v7.Token.Amount)", "ToLegacyDec(v7.Weight)",
     "solveConstantFunctionInvariant(v10,v11,_,_,_)", "TruncateInt(v12)", "IsPositive(v13)", "!"] := by decide

/-- B — `Pool.CalcInAmtGivenOut`: mirrored by `GammMath.balCurveIn` / `balInDec` / `balCalcIn` / `inCeil` -/
theorem opsx_Pool_CalcInAmtGivenOut_pinned : Gen.GammMath.opsx_Pool_CalcInAmtGivenOut =
    ["ToLegacyDec(v8.Token.Amount)", "ToLegacyDec(v7.Amount)", "Sub(v10,_)", "ToLegacyDec(v8.Weight)",
     "ToLegacyDec(v9.Token.Amount)", "ToLegacyDec(v9.Weight)", "solveConstantFunctionInvariant(v10,v11,_,_,_)",
     "Neg(_)", "Sub(osmomath.OneDec(),v4)", "Quo(v12,_)", "Ceil(v13)", "TruncateInt(_)", "IsPositive(v14)", "!"] := by decide

end OsmoVerif.Props.TieGenGammMath
